package main

// canonical dump of a decoded / built value for field-by-field comparison: numbers, byte
// strings (nil = empty), IPs through To4/To16, lists in order, the dynamic type of every
// interface value; pads and private scratch fields are skipped.

import (
	"bytes"
	"crypto/sha1"
	"encoding/hex"
	"fmt"
	"net"
	"reflect"
	"strings"
	"unsafe"

	"github.com/contiv/libOpenflow/protocol"
	"github.com/contiv/libOpenflow/util"
)

// canonAll: dump every field as it is (pads and scratch fields too, no normalisation)
var canonAll bool

func canonHash(v interface{}) string {
	var b bytes.Buffer
	canonWrite(&b, reflect.ValueOf(v), 0)
	h := sha1.Sum(b.Bytes())
	return hex.EncodeToString(h[:8])
}

func canonString(v interface{}) string {
	var b bytes.Buffer
	canonWrite(&b, reflect.ValueOf(v), 0)
	return b.String()
}

func canonWrite(b *bytes.Buffer, v reflect.Value, depth int) {
	if depth > 40 {
		b.WriteString("<deep>")
		return
	}
	if !v.IsValid() {
		b.WriteString("nil")
		return
	}
	// make unexported fields readable
	if v.CanAddr() && !v.CanInterface() {
		v = reflect.NewAt(v.Type(), unsafe.Pointer(v.UnsafeAddr())).Elem()
	}
	switch x := safeIface(v).(type) {
	case net.IP:
		if x4 := x.To4(); x4 != nil {
			fmt.Fprintf(b, "ip4:%x", []byte(x4))
		} else {
			fmt.Fprintf(b, "ip:%x", []byte(x))
		}
		return
	case net.HardwareAddr:
		fmt.Fprintf(b, "hw:%x", []byte(x))
		return
	case util.Buffer:
		fmt.Fprintf(b, "buf:%x", x.Bytes())
		return
	case *util.Buffer:
		if x == nil || x.Len() == 0 {
			b.WriteString("nil") // an empty opaque payload is no payload
		} else {
			fmt.Fprintf(b, "buf:%x", x.Bytes())
		}
		return
	case protocol.VLAN:
		if x.VID == 0 && x.PCP == 0 && x.DEI == 0 {
			b.WriteString("vlan:none")
			return
		}
	}
	switch v.Kind() {
	case reflect.Ptr, reflect.Interface:
		if v.IsNil() {
			b.WriteString("nil")
			return
		}
		if v.Kind() == reflect.Interface {
			if ub, ok := safeIface(v).(*util.Buffer); ok && (ub == nil || ub.Len() == 0) {
				b.WriteString("nil") // an empty opaque payload is no payload
				return
			}
			fmt.Fprintf(b, "(%s)", v.Elem().Type().String())
		}
		canonWrite(b, v.Elem(), depth+1)
	case reflect.Struct:
		b.WriteString("{")
		t := v.Type()
		for i := 0; i < v.NumField(); i++ {
			name := t.Field(i).Name
			ln := strings.ToLower(name)
			if canonAll {
				b.WriteString(name + "=")
				canonWrite(b, v.Field(i), depth+1)
				b.WriteString(";")
				continue
			}
			if strings.HasPrefix(ln, "pad") || ln == "zero" || ln == "zeros" || ln == "reserved" || ln == "delimiter" {
				continue
			}
			// not on the wire / refreshed only on a copy while encoding
			if (t.Name() == "NXActionResubmit" && name == "TableID") || (t.Name() == "Bucket" && name == "Length") {
				continue
			}
			// a note's zero padding is part of the note on the wire
			if t.Name() == "NXActionNote" && name == "Note" {
				f := v.Field(i)
				if f.CanAddr() && !f.CanInterface() {
					f = reflect.NewAt(f.Type(), unsafe.Pointer(f.UnsafeAddr())).Elem()
				}
				fmt.Fprintf(b, "Note=%x;", bytes.TrimRight(f.Bytes(), "\x00"))
				continue
			}
			b.WriteString(name + "=")
			canonWrite(b, v.Field(i), depth+1)
			b.WriteString(";")
		}
		b.WriteString("}")
	case reflect.Slice, reflect.Array:
		if v.Type().Elem().Kind() == reflect.Uint8 {
			bs := make([]byte, v.Len())
			for i := range bs {
				bs[i] = byte(v.Index(i).Uint())
			}
			fmt.Fprintf(b, "%x", bs)
			return
		}
		b.WriteString("[")
		for i := 0; i < v.Len(); i++ {
			canonWrite(b, v.Index(i), depth+1)
			b.WriteString(",")
		}
		b.WriteString("]")
	case reflect.Bool:
		fmt.Fprintf(b, "%v", v.Bool())
	case reflect.Uint, reflect.Uint8, reflect.Uint16, reflect.Uint32, reflect.Uint64:
		fmt.Fprintf(b, "%d", v.Uint())
	case reflect.Int, reflect.Int8, reflect.Int16, reflect.Int32, reflect.Int64:
		fmt.Fprintf(b, "%d", v.Int())
	case reflect.String:
		b.WriteString(v.String())
	default:
		fmt.Fprintf(b, "<%s>", v.Kind())
	}
}

func safeIface(v reflect.Value) (r interface{}) {
	defer func() { recover() }()
	if v.CanInterface() {
		return v.Interface()
	}
	return nil
}

func hexDecode(s string) ([]byte, error) { return hex.DecodeString(s) }
