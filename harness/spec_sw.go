package main

// C04: switch-originated messages written by an encoder that follows the OpenFlow 1.3.5
// structures (ofp_header, ofp_hello_elem_versionbitmap, ofp_error_msg,
// ofp_error_experimenter_msg, ofp_switch_features + ofp_port, ofp_switch_config,
// ofp_packet_in, ofp_flow_removed, ofp_port_status, ofp_multipart_reply with ofp_desc,
// ofp_flow_stats, ofp_aggregate_stats_reply, ofp_table_stats, ofp_port_stats,
// ofp_queue_stats, nx_tlv_table_reply, ONF bundle control) and does not use the library's
// message encoders.  Matches, instructions and actions inside them are produced by the
// library's element encoders, which C02/C03 check against the same specifications.
// Next to the bytes the generator builds the value a correct parser must return.

import (
	"strings"
	"encoding/binary"
	"fmt"

	"github.com/contiv/libOpenflow/common"
	of "github.com/contiv/libOpenflow/openflow13"
	"github.com/contiv/libOpenflow/protocol"
	"github.com/contiv/libOpenflow/util"
)

func init() { props["C04"] = runC04 }

type sw struct{ b []byte }

func (w *sw) u8(x uint8)   { w.b = append(w.b, x) }
func (w *sw) u16(x uint16) { w.b = binary.BigEndian.AppendUint16(w.b, x) }
func (w *sw) u32(x uint32) { w.b = binary.BigEndian.AppendUint32(w.b, x) }
func (w *sw) u64(x uint64) { w.b = binary.BigEndian.AppendUint64(w.b, x) }
func (w *sw) pad(n int)    { w.b = append(w.b, make([]byte, n)...) }
func (w *sw) fixed(b []byte, n int) {
	c := make([]byte, n)
	copy(c, b)
	w.b = append(w.b, c...)
}
func (w *sw) raw(b []byte) { w.b = append(w.b, b...) }

// header with a placeholder length, fixed up by finish
func (w *sw) header(ty uint8, xid uint32) { w.u8(4); w.u8(ty); w.u16(0); w.u32(xid) }
func (w *sw) finish() []byte {
	binary.BigEndian.PutUint16(w.b[2:], uint16(len(w.b)))
	return w.b
}

func (w *sw) port(p *of.PhyPort) { // struct ofp_port, 64 bytes
	w.u32(p.PortNo)
	w.pad(4)
	w.fixed(p.HWAddr, 6)
	w.pad(2)
	w.fixed(p.Name, 16)
	for _, x := range []uint32{p.Config, p.State, p.Curr, p.Advertised, p.Supported, p.Peer, p.CurrSpeed, p.MaxSpeed} {
		w.u32(x)
	}
}

func portTerm(p *of.PhyPort) string {
	return fmt.Sprintf("{| p_no := %d; p_hw := %s; p_name := %s; p_config := %d; p_state := %d; p_curr := %d; p_adv := %d; p_supp := %d; p_peer := %d; p_cspeed := %d; p_mspeed := %d |}",
		p.PortNo, bterm(p.HWAddr), bterm(fixedBytes(p.Name, 16)), p.Config, p.State, p.Curr, p.Advertised, p.Supported, p.Peer, p.CurrSpeed, p.MaxSpeed)
}

func fixedBytes(b []byte, n int) []byte {
	o := make([]byte, n)
	copy(o, b)
	return o
}

func elemBytes(m util.Message) []byte { b, _ := m.MarshalBinary(); return b }

// struct ofp_match: type OFPMT_OXM, the length of type+length+fields without the padding,
// the OXM TLVs (each from the library's field encoder), zero padding to a multiple of 8
func matchBytes(m *of.Match) []byte {
	w := &sw{}
	w.u16(1)
	w.u16(0)
	for i := range m.Fields {
		w.raw(elemBytes(&m.Fields[i]))
	}
	binary.BigEndian.PutUint16(w.b[2:], uint16(len(w.b)))
	m.Type, m.Length = 1, uint16(len(w.b))
	w.pad((8 - len(w.b)%8) % 8)
	return w.b
}

// unsupportedSwitchFrame: conformant switch messages that the library refuses as a whole (known
// findings D49: a packet-in whose packet data is not a frame the packet decoder accepts; D50:
// standard OpenFlow 1.3 elements the library has no codec for)
func (g *G) unsupportedSwitchFrame(xid uint32) ([]byte, util.Message, string, string) {
	w := &sw{}
	pktin := func(match, data []byte) {
		w.header(10, xid)
		w.u32(uint32(g.r.Bits(32)))
		w.u16(uint16(g.r.Bits(16)))
		w.u8(uint8(g.r.Intn(3)))
		w.u8(uint8(g.r.Bits(8)))
		w.u64(g.r.Bits(64))
		w.raw(match)
		w.pad(2)
		w.raw(data)
	}
	inPort := []byte{0, 1, 0, 12, 0x80, 0, 0, 4, 0, 0, 0, 7, 0, 0, 0, 0} // ofp_match: in_port 7
	switch g.r.Intn(6) {
	case 0: // packet data cut short by a small miss_send_len / max_len: fewer than 14 bytes
		pktin(inPort, g.r.Bytes(1+g.r.Intn(13)))
		return w.finish(), nil, "packet-in/short-data", "pktin-undecodable-payload"
	case 1: // IPv6 with a hop-by-hop header holding a Pad1 option (RFC 8200 4.2: one zero byte, no length)
		eth := append(g.r.Bytes(12), 0x86, 0xdd)
		ip6 := []byte{0x60, 0, 0, 0, 0, 16, 0, 64}
		ip6 = append(ip6, g.r.Bytes(32)...)
		hbh := []byte{58, 0, 0, 1, 3, 0, 0, 0} // next header ICMPv6, Pad1, PadN(3)
		icmp := []byte{128, 0, 0, 0, 0, 1, 0, 1}
		pktin(inPort, append(append(append(eth, ip6...), hbh...), icmp...))
		return w.finish(), nil, "packet-in/ipv6-pad1", "pktin-undecodable-payload"
	case 2: // a match with a standard OXM field the library has no decoder for
		f := [][]byte{{0x80, 0, 2, 4, 0, 0, 0, 3}, {0x80, 0, 14, 1, 5}, {0x80, 0, 18, 1, 1}}[g.r.Intn(3)] // in_phy_port, vlan_pcp, ip_ecn
		m := append([]byte{0, 1, 0, 0, 0x80, 0, 0, 4, 0, 0, 0, 7}, f...)
		binary.BigEndian.PutUint16(m[2:], uint16(len(m)))
		for len(m)%8 != 0 {
			m = append(m, 0)
		}
		e, _ := g.ethernet()
		fb, _ := e.MarshalBinary()
		pktin(m, fb)
		return w.finish(), nil, "packet-in/oxm-without-codec", "of13-element-without-codec"
	case 3: // OFPMP_PORT_DESC reply: the way an OpenFlow 1.3 switch describes its ports
		w.header(19, xid)
		w.u16(13)
		w.u16(0)
		w.pad(4)
		for k := 1 + g.r.Intn(3); k > 0; k-- {
			w.port(g.phyPort())
		}
		return w.finish(), nil, "multipart-reply/port-desc", "of13-element-without-codec"
	default: // a flow-statistics record with a meter instruction, or with a set_nw_ttl / set_mpls_ttl action
		w.header(19, xid)
		w.u16(1)
		w.u16(0)
		w.pad(4)
		var ins []byte
		switch g.r.Intn(3) {
		case 0:
			ins = []byte{0, 6, 0, 8, 0, 0, 0, 9, 0, 1, 0, 8, 3, 0, 0, 0} // meter 9, goto-table 3
		case 1:
			ins = []byte{0, 4, 0, 32, 0, 0, 0, 0, 0, 23, 0, 8, 64, 0, 0, 0, 0, 0, 0, 16, 0, 0, 0, 1, 0xff, 0xff, 0, 0, 0, 0, 0, 0} // set_nw_ttl 64, output 1
		default:
			ins = []byte{0, 4, 0, 32, 0, 0, 0, 0, 0, 15, 0, 8, 64, 0, 0, 0, 0, 0, 0, 16, 0, 0, 0, 1, 0xff, 0xff, 0, 0, 0, 0, 0, 0} // set_mpls_ttl 64, output 1
		}
		w.u16(uint16(48 + 8 + len(ins)))
		w.u8(uint8(g.r.Bits(8)))
		w.pad(1)
		w.u32(uint32(g.r.Bits(32)))
		w.u32(uint32(g.r.Bits(32)))
		w.u16(uint16(g.r.Bits(16)))
		w.u16(uint16(g.r.Bits(16)))
		w.u16(uint16(g.r.Bits(16)))
		w.u16(0)
		w.pad(4)
		w.u64(g.r.Bits(64))
		w.u64(g.r.Bits(64))
		w.u64(g.r.Bits(64))
		w.raw([]byte{0, 1, 0, 4, 0, 0, 0, 0})
		w.raw(ins)
		return w.finish(), nil, "multipart-reply/flow-stats-element-without-codec", "of13-element-without-codec"
	}
}

// specSwitchFrame returns the bytes, the expected value, a kind and an optional finding signature
func (g *G) specSwitchFrame() ([]byte, util.Message, string, string) {
	g.swRecipe = ""
	xid := uint32(g.r.Bits(32))
	g.swXid = xid
	hdr := func(ty uint8) common.Header { return common.Header{Version: 4, Type: ty, Xid: xid} }
	w := &sw{}
	if g.r.Intn(12) == 0 {
		return g.unsupportedSwitchFrame(xid)
	}
	switch g.r.Intn(16) {
	case 0: // hello: any list of elements - version bitmaps with 0..4 words, elements of other types (to be skipped)
		w.header(0, xid)
		h := &common.Hello{Header: hdr(0)}
		h.Elements = []common.HelloElem{}
		var ets []string
		for k := g.r.Geom(2, 6); k > 0; k-- {
			if g.r.Intn(3) > 0 {
				nb := g.r.Intn(5)
				v := &common.HelloElemVersionBitmap{HelloElemHeader: common.HelloElemHeader{Type: 1, Length: uint16(4 + 4*nb)}}
				v.Bitmaps = []uint32{}
				w.u16(1)
				w.u16(uint16(4 + 4*nb))
				ws := make([]string, nb)
				for i := 0; i < nb; i++ {
					x := uint32(g.r.Bits(32))
					v.Bitmaps = append(v.Bitmaps, x)
					w.u32(x)
					ws[i] = fmt.Sprint(x)
				}
				w.pad((8 - (4+4*nb)%8) % 8)
				h.Elements = append(h.Elements, v)
				ets = append(ets, "(HBitmap ["+strings.Join(ws, "; ")+"])")
			} else { // an element this library does not know: must be skipped
				ty := uint16(g.r.Intn(60))
				if ty == 1 {
					ty = 2
				}
				body := g.r.Bytes(g.r.Intn(21))
				w.u16(ty)
				w.u16(uint16(4 + len(body)))
				w.raw(body)
				w.pad((8 - (4+len(body))%8) % 8)
				ets = append(ets, fmt.Sprintf("(HOther %d %s)", ty, bterm(body)))
			}
		}
		b := w.finish()
		h.Header.Length = uint16(len(b))
		g.swRecipe = "(SHello " + listT(ets) + ")"
		if g.r.Intn(4) == 0 { // the peer's highest version in the header is not 1.3 (negotiation goes by the bitmap)
			v := []uint8{1, 2, 3, 5, 6}[g.r.Intn(5)]
			b[0], h.Header.Version = v, v
			g.swRecipe = ""
			return b, h, "hello/other-version", ""
		}
		return b, h, "hello", ""
	case 1: // error
		e := &of.ErrorMsg{Header: hdr(1), Type: uint16(g.r.Intn(14)), Code: uint16(g.r.Bits(16))}
		data := g.r.Bytes(g.r.Geom(12, 80))
		e.Data = *util.NewBuffer(data)
		w.header(1, xid)
		w.u16(e.Type)
		w.u16(e.Code)
		w.raw(data)
		b := w.finish()
		e.Header.Length = uint16(len(b))
		g.swRecipe = fmt.Sprintf("(SError %d %d %s)", e.Type, e.Code, bterm(data))
		return b, e, "error", ""
	case 2: // experimenter error
		e := &of.VendorError{ErrorMsg: &of.ErrorMsg{Header: hdr(1), Type: 0xffff, Code: uint16(g.r.Bits(16))}, ExperimenterID: uint32(g.r.Bits(32))}
		data := g.r.Bytes(g.r.Geom(12, 80))
		e.Data = *util.NewBuffer(data)
		w.header(1, xid)
		w.u16(0xffff)
		w.u16(e.Code)
		w.u32(e.ExperimenterID)
		w.raw(data)
		b := w.finish()
		e.Header.Length = uint16(len(b))
		g.swRecipe = fmt.Sprintf("(SVendorError %d %d %s)", e.Code, e.ExperimenterID, bterm(data))
		return b, e, "experimenter-error", ""
	case 3: // echo request / reply, possibly with a body (the library has no type that keeps it: finding D37)
		ty := uint8(2 + g.r.Intn(2))
		w.header(ty, xid)
		sig := ""
		if g.r.Bool() {
			w.raw(g.r.Bytes(1 + g.r.Intn(32)))
			sig = "echo-with-body"
		}
		b := w.finish()
		h := hdr(ty)
		h.Length = uint16(len(b))
		if sig != "" {
			return b, nil, "echo-with-body", sig // no library type can hold the body: nothing to compare equal to
		}
		g.swRecipe = fmt.Sprintf("(SHeaderOnly %d)", ty)
		return b, &h, "echo", sig
	case 4: // barrier reply, features / get-config request shapes
		ty := []uint8{21, 20, 5, 7}[g.r.Intn(4)]
		w.header(ty, xid)
		b := w.finish()
		h := hdr(ty)
		h.Length = 8
		g.swRecipe = fmt.Sprintf("(SHeaderOnly %d)", ty)
		return b, &h, fmt.Sprintf("header-only/%d", ty), ""
	case 5: // features reply (struct ofp_switch_features; OpenFlow 1.3 carries no ports here, the library accepts them)
		s := of.NewFeaturesReply()
		s.Header = hdr(6)
		copy(s.DPID, g.r.Bytes(8))
		s.Buffers, s.NumTables, s.AuxilaryId, s.Capabilities, s.Actions = uint32(g.r.Bits(32)), uint8(g.r.Bits(8)), uint8(g.r.Bits(8)), uint32(g.r.Bits(32)), uint32(g.r.Bits(32))
		w.header(6, xid)
		w.raw(s.DPID)
		w.u32(s.Buffers)
		w.u8(s.NumTables)
		w.u8(s.AuxilaryId)
		w.pad(2)
		w.u32(s.Capabilities)
		w.u32(s.Actions)
		var pts []string
		for i, n := 0, g.r.Intn(4); i < n; i++ {
			p := g.phyPort()
			s.Ports = append(s.Ports, *p)
			w.port(p)
			pts = append(pts, portTerm(p))
		}
		b := w.finish()
		s.Header.Length = uint16(len(b))
		g.swRecipe = fmt.Sprintf("(SFeatures %s %d %d %d %d %d %s)", bterm(s.DPID), s.Buffers, s.NumTables, s.AuxilaryId, s.Capabilities, s.Actions, listT(pts))
		return b, s, "features-reply", ""
	case 6: // get-config reply
		c := &of.SwitchConfig{Header: hdr(8), Flags: uint16(g.r.Bits(16)), MissSendLen: uint16(g.r.Bits(16))}
		w.header(8, xid)
		w.u16(c.Flags)
		w.u16(c.MissSendLen)
		b := w.finish()
		c.Header.Length = 12
		g.swRecipe = fmt.Sprintf("(SGetConfigReply %d %d)", c.Flags, c.MissSendLen)
		return b, c, "get-config-reply", ""
	case 7, 8: // packet-in: ofp_packet_in, match, 2 pad bytes, frame
		p := new(of.PacketIn)
		p.Header = hdr(10)
		p.BufferId, p.TotalLen, p.Reason, p.TableId, p.Cookie = uint32(g.r.Bits(32)), uint16(g.r.Bits(16)), uint8(g.r.Intn(3)), uint8(g.r.Bits(8)), g.r.Bits(64)
		p.Match = *of.NewMatch()
		pmt := g.matchInto(&p.Match, 3, 10)
		var payload []byte
		w.header(10, xid)
		w.u32(p.BufferId)
		w.u16(p.TotalLen)
		w.u8(p.Reason)
		w.u8(p.TableId)
		w.u64(p.Cookie)
		w.raw(matchBytes(&p.Match))
		w.pad(2)
		kind := "packet-in/no-payload"
		if g.r.Intn(5) != 0 {
			e, k := g.ethernet()
			if e.VLANID.VID == 0 {
				e.VLANID = *new(protocol.VLAN)
			}
			fb, _ := e.MarshalBinary()
			w.raw(fb)
			payload = fb
			p.Data = *e
			kind = "packet-in/" + k
		}
		b := w.finish()
		p.Header.Length = uint16(len(b))
		g.swRecipe = fmt.Sprintf("(SPacketIn %d %d %d %d %d %s (eth_of %s))", p.BufferId, p.TotalLen, p.Reason, p.TableId, p.Cookie, pmt, bterm(payload))
		return b, p, kind, ""
	case 9: // flow-removed
		f := of.NewFlowRemoved()
		f.Header = hdr(11)
		f.Cookie, f.Priority, f.Reason, f.TableId = g.r.Bits(64), uint16(g.r.Bits(16)), uint8(g.r.Intn(4)), uint8(g.r.Bits(8))
		f.DurationSec, f.DurationNSec, f.IdleTimeout, f.HardTimeout = uint32(g.r.Bits(32)), uint32(g.r.Bits(32)), uint16(g.r.Bits(16)), uint16(g.r.Bits(16))
		f.PacketCount, f.ByteCount = g.r.Bits(64), g.r.Bits(64)
		fmt11 := g.matchInto(&f.Match, 3, 10)
		w.header(11, xid)
		w.u64(f.Cookie)
		w.u16(f.Priority)
		w.u8(f.Reason)
		w.u8(f.TableId)
		w.u32(f.DurationSec)
		w.u32(f.DurationNSec)
		w.u16(f.IdleTimeout)
		w.u16(f.HardTimeout)
		w.u64(f.PacketCount)
		w.u64(f.ByteCount)
		w.raw(matchBytes(&f.Match))
		b := w.finish()
		f.Header.Length = uint16(len(b))
		g.swRecipe = fmt.Sprintf("(SFlowRemoved %d %d %d %d %d %d %d %d %d %d %s)", f.Cookie, f.Priority, f.Reason, f.TableId, f.DurationSec, f.DurationNSec,
			f.IdleTimeout, f.HardTimeout, f.PacketCount, f.ByteCount, fmt11)
		return b, f, "flow-removed", ""
	case 10: // port-status
		p := of.NewPortStatus()
		p.Header = hdr(12)
		p.Reason = uint8(g.r.Intn(3))
		p.Desc = *g.phyPort()
		w.header(12, xid)
		w.u8(p.Reason)
		w.pad(7)
		w.port(&p.Desc)
		b := w.finish()
		p.Header.Length = uint16(len(b))
		g.swRecipe = fmt.Sprintf("(SPortStatus %d %s)", p.Reason, portTerm(&p.Desc))
		return b, p, "port-status", ""
	case 11: // multipart reply: description
		m := &of.MultipartReply{Header: hdr(19), Type: of.MultipartType_Desc, Flags: uint16(g.r.Intn(2))}
		d := of.NewDescStats()
		// strings of any length up to the full width of their field (a full-width string has no
		// terminating zero)
		dl := func(w int) int { return []int{0, 1, w / 8, w - 1, w, w}[g.r.Intn(6)] }
		copy(d.MfrDesc, g.r.Bytes(dl(256)))
		copy(d.HWDesc, g.r.Bytes(dl(256)))
		copy(d.SWDesc, g.r.Bytes(dl(256)))
		copy(d.SerialNum, g.r.Bytes(dl(32)))
		copy(d.DPDesc, g.r.Bytes(dl(256)))
		m.Body = []util.Message{d}
		w.header(19, xid)
		w.u16(0)
		w.u16(m.Flags)
		w.pad(4)
		w.fixed(d.MfrDesc, 256)
		w.fixed(d.HWDesc, 256)
		w.fixed(d.SWDesc, 256)
		w.fixed(d.SerialNum, 32)
		w.fixed(d.DPDesc, 256)
		b := w.finish()
		m.Header.Length = uint16(len(b))
		g.swRecipe = fmt.Sprintf("(SMpDesc %d %s %s %s %s %s)", m.Flags, bterm(fixedBytes(d.MfrDesc, 256)), bterm(fixedBytes(d.HWDesc, 256)), bterm(fixedBytes(d.SWDesc, 256)),
			bterm(fixedBytes(d.SerialNum, 32)), bterm(fixedBytes(d.DPDesc, 256)))
		return b, m, "multipart-reply/desc", ""
	case 12: // multipart reply: aggregate
		m := &of.MultipartReply{Header: hdr(19), Type: of.MultipartType_Aggregate, Flags: uint16(g.r.Intn(2))}
		a := of.NewAggregateStats()
		a.PacketCount, a.ByteCount, a.FlowCount = g.r.Bits(64), g.r.Bits(64), uint32(g.r.Bits(32))
		m.Body = []util.Message{a}
		w.header(19, xid)
		w.u16(2)
		w.u16(m.Flags)
		w.pad(4)
		w.u64(a.PacketCount)
		w.u64(a.ByteCount)
		w.u32(a.FlowCount)
		w.pad(4)
		b := w.finish()
		m.Header.Length = uint16(len(b))
		g.swRecipe = fmt.Sprintf("(SMpAggregate %d %d %d %d)", m.Flags, a.PacketCount, a.ByteCount, a.FlowCount)
		return b, m, "multipart-reply/aggregate", ""
	case 13: // multipart reply: flow statistics records with instructions
		m := &of.MultipartReply{Header: hdr(19), Type: of.MultipartType_Flow, Flags: uint16(g.r.Intn(2))}
		w.header(19, xid)
		w.u16(1)
		w.u16(m.Flags)
		w.pad(4)
		var recs []string
		for i, n := 0, g.r.Geom(2, 5); i < n; i++ {
			f := of.NewFlowStats()
			f.TableId, f.DurationSec, f.DurationNSec, f.Priority = uint8(g.r.Bits(8)), uint32(g.r.Bits(32)), uint32(g.r.Bits(32)), uint16(g.r.Bits(16))
			f.IdleTimeout, f.HardTimeout, f.Flags = uint16(g.r.Bits(16)), uint16(g.r.Bits(16)), uint16(g.r.Bits(16))
			f.Cookie, f.PacketCount, f.ByteCount = g.r.Bits(64), g.r.Bits(64), g.r.Bits(64)
			fmt13 := g.matchInto(&f.Match, 2, 8)
			var ib []byte
			var its []string
			for k, ni := 0, g.r.Geom(2, 4); k < ni; k++ {
				in, it := g.instr()
				f.Instructions = append(f.Instructions, in)
				ib = append(ib, elemBytes(in)...)
				its = append(its, it)
			}
			recs = append(recs, fmt.Sprintf("{| fs_table := %d; fs_dsec := %d; fs_dnsec := %d; fs_prio := %d; fs_idle := %d; fs_hard := %d; fs_flags := %d; fs_cookie := %d; fs_pkts := %d; fs_bytes := %d; fs_match := %s; fs_instrs := %s |}",
				f.TableId, f.DurationSec, f.DurationNSec, f.Priority, f.IdleTimeout, f.HardTimeout, f.Flags, f.Cookie, f.PacketCount, f.ByteCount, fmt13, listT(its)))
			mb := matchBytes(&f.Match)
			f.Length = uint16(48 + len(mb) + len(ib))
			w.u16(f.Length)
			w.u8(f.TableId)
			w.pad(1)
			w.u32(f.DurationSec)
			w.u32(f.DurationNSec)
			w.u16(f.Priority)
			w.u16(f.IdleTimeout)
			w.u16(f.HardTimeout)
			w.u16(f.Flags)
			w.pad(4)
			w.u64(f.Cookie)
			w.u64(f.PacketCount)
			w.u64(f.ByteCount)
			w.raw(mb)
			w.raw(ib)
			m.Body = append(m.Body, f)
		}
		b := w.finish()
		m.Header.Length = uint16(len(b))
		g.swRecipe = fmt.Sprintf("(SMpFlow %d %s)", m.Flags, listT(recs))
		return b, m, "multipart-reply/flow", ""
	case 14: // multipart reply: port statistics in the OpenFlow 1.3 layout (finding D13)
		w.header(19, xid)
		w.u16(4)
		w.u16(0)
		w.pad(4)
		w.u32(uint32(1 + g.r.Intn(100)))
		w.pad(4)
		for i := 0; i < 12; i++ {
			w.u64(g.r.Bits(64))
		}
		w.u32(uint32(g.r.Bits(32)))
		w.u32(uint32(g.r.Bits(32)))
		b := w.finish()
		return b, nil, "multipart-reply/port-stats", "of13-port-table-queue-stats"
	default: // NXT tlv-table reply / ONF bundle control reply
		if g.r.Bool() {
			v := &of.VendorHeader{Header: hdr(4), Vendor: of.NxExperimenterID, ExperimenterType: of.Type_TlvTableReply}
			r := &of.TLVTableReply{MaxSpace: uint32(g.r.Bits(32)), MaxFields: uint16(g.r.Bits(16))}
			w.header(4, xid)
			w.u32(of.NxExperimenterID)
			w.u32(of.Type_TlvTableReply)
			w.u32(r.MaxSpace)
			w.u16(r.MaxFields)
			w.pad(10)
			var mts []string
			for i, n := 0, g.r.Geom(2, 6); i < n; i++ {
				t := &of.TLVTableMap{OptClass: uint16(g.r.Bits(16)), OptType: uint8(g.r.Bits(8)), OptLength: uint8(g.r.Bits(8)), Index: uint16(g.r.Bits(16))}
				r.TlvMaps = append(r.TlvMaps, t)
				mts = append(mts, fmt.Sprintf("(%d, %d, %d, %d)", t.OptClass, t.OptType, t.OptLength, t.Index))
				w.u16(t.OptClass)
				w.u8(t.OptType)
				w.u8(t.OptLength)
				w.u16(t.Index)
				w.pad(2)
			}
			v.VendorData = r
			b := w.finish()
			v.Header.Length = uint16(len(b))
			g.swRecipe = fmt.Sprintf("(STlvReply %d %d %s)", r.MaxSpace, r.MaxFields, listT(mts))
			return b, v, "nxt-tlv-table-reply", ""
		}
		bc := &of.BundleControl{BundleID: uint32(g.r.Bits(32)), Type: uint16(1 + 2*g.r.Intn(4)), Flags: uint16(g.r.Intn(4))}
		v := &of.VendorHeader{Header: hdr(4), Vendor: of.ONF_EXPERIMENTER_ID, ExperimenterType: of.Type_BundleCtrl, VendorData: bc}
		w.header(4, xid)
		w.u32(of.ONF_EXPERIMENTER_ID)
		w.u32(of.Type_BundleCtrl)
		w.u32(bc.BundleID)
		w.u16(bc.Type)
		w.u16(bc.Flags)
		b := w.finish()
		v.Header.Length = uint16(len(b))
		return b, v, "bundle-control-reply", ""
	}
}

func runC04(seed uint64, tier, dir, replay string) error {
	o := NewOut(dir, "C04", 16, "From LOF Require Import Corr.Dec.", "check04")
	o.hyp = "thm_hyp04"
	rng := NewRng(seed)
	g := NewG(rng)
	g.exact = true
	pool := &WorkerPool{}
	defer pool.Close()
	n := 900
	if tier == "thorough" {
		n = 25000
	}
	for i := 0; i < n; i++ {
		b, want, kind, sig := g.specSwitchFrame()
		r := pool.Run("parse", b)
		same := 0
		if want != nil && r.chash == canonHash(want) {
			same = 1
		}
		js := map[string]interface{}{"kind": "sw:" + kind, "bytes": hexs(b), "outcome": r.outcome, "fields_equal": same == 1, "detail": r.extra, "reencoded": hexs(r.re)}
		if sig != "" {
			js["sig"] = sig
		}
		if same == 0 && want != nil {
			js["fields_expected"] = canonString(want)
		}
		known := 0
		switch sig {
		case "echo-with-body":
			known = 37
		case "of13-port-table-queue-stats":
			known = 13
		case "pktin-undecodable-payload":
			known = 49
		case "of13-element-without-codec":
			known = 50
		}
		term := fmt.Sprintf("(Sw %s %d %s %d %d %d)", packBytes(b), r.outcome, packBytes(r.re), max0(r.lenv), same, known)
		if g.swRecipe != "" { // the value as a recipe: the general theorem's hypothesis and prediction are evaluated on it
			term = fmt.Sprintf("(SwR %d %s %s %d %s %d %d %d)", g.swXid, g.swRecipe, packBytes(b), r.outcome, packBytes(r.re), max0(r.lenv), same, known)
			js["recipe"] = g.swRecipe
		}
		o.Add(term, js, "sw:"+kind, fmt.Sprintf("%d/%d", len(b)/64, r.outcome))
	}
	o.Meta["rule"] = "spec-conformant switch messages written by an independent encoder (hello with bitmaps and unknown elements, error, experimenter error, echo with/without body, barrier reply, features reply with ports, get-config reply, packet-in with every match-field kind and Ethernet payloads of all kinds or none, flow-removed, port-status, multipart replies desc / aggregate / flow with instructions and actions / port statistics, tlv-table reply, bundle-control reply; and the conformant messages of the known findings: packet-ins whose packet data the packet decoder refuses, messages with standard 1.3 elements the library has no codec for); the parsed message's canonical field dump is compared with the value the generator wrote; distinct by kind x size bucket x outcome"
	return o.Close()
}
