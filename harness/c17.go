package main

import (
	"bytes"
	"fmt"
	"math/big"
	"net"
	"sort"
	"strings"

	of "github.com/contiv/libOpenflow/openflow13"
)

func init() { props["C17"] = runC17 }

const maskBias = 1099511627776 // 2^40

// call NewMatchField with data of a chosen Go type and mask arguments of a chosen type
type nmfResult struct {
	outcome   int // 0 field, 1 error, 2 panic
	field     *of.MatchField
	unchanged bool
	what      string
}

// markT: a named integer type, as applications define for their packet marks and ids
type markT uint32

func callNMF(name string, dataKind int, v *big.Int, masks []int64, maskKind int) (res nmfResult) {
	res.unchanged = true
	defer func() {
		if r := recover(); r != nil {
			res.outcome = 2
			res.what = fmt.Sprint(r)
		}
	}()
	var f *of.MatchField
	var err error
	do := func(call func() (*of.MatchField, error)) {
		f, err = call()
	}
	switch dataKind {
	case 0: // uint64
		d := v.Uint64()
		do(func() (*of.MatchField, error) { return nmfMask(name, d, masks, maskKind) })
	case 1: // int64 (may be negative)
		d := v.Int64()
		do(func() (*of.MatchField, error) { return nmfMask(name, d, masks, maskKind) })
	case 2: // uint32
		d := uint32(v.Uint64())
		do(func() (*of.MatchField, error) { return nmfMask(name, d, masks, maskKind) })
	case 3: // int8 / int16 / int32 by magnitude
		d := int32(v.Int64())
		do(func() (*of.MatchField, error) { return nmfMask(name, d, masks, maskKind) })
	case 4: // *big.Int: the caller's value must stay what it was
		d := new(big.Int).Set(v)
		before := new(big.Int).Set(d)
		do(func() (*of.MatchField, error) { return nmfMask(name, d, masks, maskKind) })
		res.unchanged = d.Cmp(before) == 0
	case 5: // []byte
		d := v.Bytes()
		before := append([]byte{}, d...)
		do(func() (*of.MatchField, error) { return nmfMask(name, d, masks, maskKind) })
		res.unchanged = bytes.Equal(d, before)
	case 6: // net.HardwareAddr / net.IP style named byte slices
		d := net.HardwareAddr(v.Bytes())
		before := append([]byte{}, d...)
		do(func() (*of.MatchField, error) { return nmfMask(name, d, masks, maskKind) })
		res.unchanged = bytes.Equal(d, before)
	case 7: // uint16
		d := uint16(v.Uint64())
		do(func() (*of.MatchField, error) { return nmfMask(name, d, masks, maskKind) })
	case 9: // a named integer type
		d := markT(uint32(v.Uint64()))
		do(func() (*of.MatchField, error) { return nmfMask(name, d, masks, maskKind) })
	case 8: // a nil *big.Int: not a number at all
		var d *big.Int
		do(func() (*of.MatchField, error) { return nmfMask(name, d, masks, maskKind) })
	}
	if err != nil || f == nil {
		res.outcome = 1
		return
	}
	res.field = f
	return
}

func nmfMask[D interface {
	~int | ~int8 | ~int16 | ~int32 | ~int64 | ~uint | ~uint8 | ~uint16 | ~uint32 | ~uint64 | ~uintptr | *big.Int | ~[]byte
}](name string, d D, masks []int64, maskKind int) (*of.MatchField, error) {
	switch maskKind {
	case 0:
		ms := make([]int, len(masks))
		for i, m := range masks {
			ms[i] = int(m)
		}
		return of.NewMatchField(name, d, ms...)
	case 1:
		ms := make([]uint16, len(masks))
		for i, m := range masks {
			ms[i] = uint16(m)
		}
		return of.NewMatchField(name, d, ms...)
	case 2:
		ms := make([]int64, len(masks))
		copy(ms, masks)
		return of.NewMatchField(name, d, ms...)
	default:
		ms := make([]uint32, len(masks))
		for i, m := range masks {
			ms[i] = uint32(m)
		}
		return of.NewMatchField(name, d, ms...)
	}
}

func runC17(seed uint64, tier, dir, replay string) error {
	o := NewOut(dir, "C17", 16, "From LOF Require Import Corr.C17.", "check17")
	rng := NewRng(seed)
	names := of.VerifRegistryNames()
	sort.Strings(names)
	var direct []map[string]interface{}

	emit := func(kind, name string, dataKind int, v *big.Int, masks []int64, maskKind int, reg int) {
		// the value the chosen Go type really carries (conversions truncate)
		eff := new(big.Int).Set(v)
		switch dataKind {
		case 0:
			eff.SetUint64(v.Uint64())
		case 1:
			eff.SetInt64(v.Int64())
		case 2, 9:
			eff.SetUint64(uint64(uint32(v.Uint64())))
		case 3:
			eff.SetInt64(int64(int32(v.Int64())))
		case 5, 6:
			eff.Abs(v)
		case 7:
			eff.SetUint64(uint64(uint16(v.Uint64())))
		}
		effMasks := make([]int64, len(masks))
		for i, m := range masks {
			switch maskKind {
			case 1:
				effMasks[i] = int64(uint16(m))
			case 3:
				effMasks[i] = int64(uint32(m))
			default:
				effMasks[i] = m
			}
		}
		r := callNMF(name, dataKind, v, masks, maskKind)
		var enc, vb, mb, regenc []byte
		if r.outcome == 0 {
			func() {
				defer func() {
					if p := recover(); p != nil {
						r.outcome = 2
						r.what = fmt.Sprint(p)
					}
				}()
				enc, _ = r.field.MarshalBinary()
				vb, _ = r.field.Value.MarshalBinary()
				if r.field.Mask != nil {
					mb, _ = r.field.Mask.MarshalBinary()
				}
			}()
		}
		if reg >= 0 && r.outcome == 0 && len(effMasks) == 2 {
			s, w := effMasks[0], effMasks[1]
			placed := new(big.Int).Lsh(eff, uint(s))
			rf := of.NewRegMatchField(reg, uint32(placed.Uint64()), of.NewNXRangeByOfsNBits(int(s), int(w)))
			regenc, _ = rf.MarshalBinary()
		}
		sign := 0
		if eff.Sign() < 0 {
			sign = 1
		}
		if dataKind == 8 {
			sign = 2
		}
		mag := new(big.Int).Abs(eff).Bytes()
		mints := make([]uint64, len(effMasks))
		for i, m := range effMasks {
			mints[i] = uint64(m + maskBias)
		}
		un := 0
		if r.unchanged {
			un = 1
		}
		js := map[string]interface{}{"kind": kind, "name": name, "data": eff.String(), "data_go_type": dataKind, "masks": effMasks, "mask_go_type": maskKind,
			"outcome": []string{"field", "error", "panic"}[r.outcome], "arg_unchanged": r.unchanged, "encoded": hexs(enc), "panic": r.what}
		idx := o.Add(fmt.Sprintf("(NMF %s %d %s %s %d %d %s %s %s %s)", packBytes([]byte(name)), sign, packBytes(mag), intList(mints),
			r.outcome, un, packBytes(enc), packBytes(vb), packBytes(mb), func() string {
				if regenc == nil {
					return "[]"
				}
				return packBytes(regenc)
			}()), js, kind, fmt.Sprintf("%s/%d/%d/%v", name, len(masks), dataKind, r.outcome))
		if r.outcome == 2 {
			direct = append(direct, map[string]interface{}{"what": "NewMatchField panicked: " + r.what, "index": idx, "case": js})
		}
	}

	widthOf := func(name string) int {
		_, _, l, _, _ := of.VerifRegistryEntry(name)
		return int(l)
	}
	randVal := func(bits int) *big.Int {
		if bits <= 0 {
			return new(big.Int)
		}
		v := new(big.Int).SetBytes(rng.Bytes((bits + 7) / 8))
		v.Rsh(v, uint(8*((bits+7)/8)-bits))
		switch rng.Intn(6) {
		case 0:
			v.SetInt64(0)
		case 1:
			v.Lsh(big.NewInt(1), uint(bits))
			v.Sub(v, big.NewInt(1))
		case 2:
			v.SetInt64(1)
		}
		return v
	}
	dataKindFor := func(v *big.Int) int {
		if v.Sign() >= 0 && v.BitLen() <= 16 && rng.Intn(4) == 0 {
			return 7
		}
		if v.Sign() >= 0 && v.BitLen() <= 32 && rng.Intn(3) == 0 {
			if rng.Intn(3) == 0 {
				return 9 // a named integer type
			}
			return 2
		}
		if v.BitLen() <= 31 && rng.Intn(4) == 0 {
			return 3
		}
		if v.Sign() >= 0 && v.BitLen() <= 64 && rng.Intn(3) == 0 {
			return 0
		}
		if v.BitLen() <= 63 && rng.Intn(3) == 0 {
			return 1
		}
		if v.Sign() >= 0 {
			return 4 + rng.Intn(3)
		}
		return 4
	}

	// (a) REG0..15: every window exhaustively, boundary and random values
	regRounds := 1
	if tier == "thorough" {
		regRounds = 6
	}
	for reg := 0; reg < 16; reg++ {
		name := fmt.Sprintf("NXM_NX_REG%d", reg)
		for s := 0; s < 32; s++ {
			for w := 1; s+w <= 32; w++ {
				if tier != "thorough" && (reg+s+w)%4 != 0 {
					continue // quick tier: a quarter of the 528 windows per register, rotating over the registers
				}
				for k := 0; k < regRounds; k++ {
					v := randVal(w)
					emit("reg-window", name, dataKindFor(v), v, []int64{int64(s), int64(w)}, rng.Intn(4), reg)
				}
			}
		}
	}
	// (b) every registered field: exact form, 1/2/3-argument forms inside the field
	rounds := 3
	if tier == "thorough" {
		rounds = 25
	}
	for _, name := range names {
		W := widthOf(name)
		bits := 8 * W
		nm := name
		if rng.Bool() {
			nm = strings.ToLower(name)
		}
		// boundary window widths (word sizes and their neighbours) at offset 0 and at the top of the field
		for _, w := range []int{1, 7, 8, 9, 15, 16, 17, 31, 32, 33, 63, 64, 65, 127, 128, bits - 1, bits} {
			if w < 1 || w > bits {
				continue
			}
			for _, s := range []int{0, bits - w} {
				v := randVal(w)
				if rng.Intn(3) == 0 {
					v.Lsh(big.NewInt(1), uint(w))
					v.Sub(v, big.NewInt(1)) // all ones
				}
				emit("window2-boundary", nm, dataKindFor(v), v, []int64{int64(s), int64(w)}, rng.Intn(4), -1)
			}
		}
		for k := 0; k < rounds; k++ {
			v := randVal(1 + rng.Intn(bits))
			emit("exact", nm, dataKindFor(v), v, nil, 0, -1)
			s := rng.Intn(bits)
			w := 1 + rng.Intn(bits-s)
			v = randVal(w)
			emit("window2", nm, dataKindFor(v), v, []int64{int64(s), int64(w)}, rng.Intn(4), -1)
			emit("window3-shift", nm, dataKindFor(v), v, []int64{int64(s), int64(w), 1}, rng.Intn(4), -1)
			placed := new(big.Int).Lsh(v, uint(s))
			emit("window3-inplace", nm, dataKindFor(placed), placed, []int64{int64(s), int64(w), int64(rng.Intn(2) * 2)}, rng.Intn(4), -1)
			v1 := randVal(1 + rng.Intn(bits-s))
			emit("window1", nm, dataKindFor(v1), v1, []int64{int64(s)}, rng.Intn(4), -1)
			// (c) what cannot be represented
			switch rng.Intn(8) {
			case 0: // value wider than the window
				wide := new(big.Int).Lsh(big.NewInt(1), uint(w))
				wide.Add(wide, randVal(w))
				emit("bad-value-wider-than-window", nm, dataKindFor(wide), wide, []int64{int64(s), int64(w)}, rng.Intn(4), -1)
			case 1: // window beyond the field
				emit("bad-window-beyond-field", nm, dataKindFor(v), v, []int64{int64(bits - w + 1 + rng.Intn(8)), int64(w)}, rng.Intn(4), -1)
			case 2: // value wider than the field, exact form
				wide := new(big.Int).Lsh(big.NewInt(1), uint(bits+rng.Intn(9)))
				emit("bad-exact-too-wide", nm, dataKindFor(wide), wide, nil, 0, -1)
			case 3: // negative value
				neg := new(big.Int).Neg(randVal(1 + rng.Intn(31)))
				neg.Sub(neg, big.NewInt(1))
				ms := [][]int64{nil, {int64(s)}, {int64(s), int64(w)}}[rng.Intn(3)]
				emit("bad-negative", nm, []int{1, 3, 4}[rng.Intn(3)], neg, ms, 0, -1)
			case 7: // nil *big.Int
				emit("bad-nil", nm, 8, new(big.Int), [][]int64{nil, {int64(s)}, {int64(s), int64(w)}}[rng.Intn(3)], 0, -1)
			case 4: // negative window arguments
				emit("bad-negative-window", nm, dataKindFor(v), v, [][]int64{{-1, int64(w)}, {int64(s), -1}, {-1}}[rng.Intn(3)], []int{0, 2}[rng.Intn(2)], -1)
			case 5: // too many arguments
				emit("bad-four-args", nm, dataKindFor(v), v, []int64{int64(s), int64(w), 1, 0}, rng.Intn(4), -1)
			case 6: // in-place data outside its mask
				out := new(big.Int).Lsh(v, uint(s))
				out.SetBit(out, (s+w)%bits+0, 1)
				if s > 0 {
					out.SetBit(out, s-1, 1)
				}
				emit("bad-inplace-outside-mask", nm, dataKindFor(out), out, []int64{int64(s), int64(w), 0}, rng.Intn(4), -1)
			}
		}
	}
	// (d) unregistered names are errors
	for i := 0; i < 20; i++ {
		emit("unknown-name", fmt.Sprintf("NXM_NX_REG%d", 16+rng.Intn(50)), 0, big.NewInt(int64(rng.Intn(100))), []int64{0, 8}, 0, -1)
	}
	if len(direct) > 0 {
		o.Meta["direct_violations"] = direct
	}
	o.Meta["rule"] = "NXM_NX_REG0..15: the 528 windows (all of them per register in the thorough tier, a rotating quarter in the quick tier) with boundary/random values spanning the window, compared with NewRegMatchField's bytes; every registered field: exact form, 1/2/3-argument forms at random windows inside the field (48/64/128-bit and longer fields sampled), in-place form; unrepresentable inputs (value wider than window / field, window beyond field, negative data of every signed type and *big.Int, a nil *big.Int, negative window, >3 arguments, in-place data outside its mask); data passed as uint16/uint32/a named uint32 type/int32/uint64/int64/*big.Int/[]byte/net.HardwareAddr, mask arguments as int/uint16/int64/uint32; *big.Int and byte-slice arguments compared before/after; distinct by field x form x data type x outcome"
	return o.Close()
}
