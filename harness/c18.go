package main

import (
	"fmt"

	of "github.com/contiv/libOpenflow/openflow13"
)

func init() { props["C18"] = runC18 }

// the 16 builder operations, code = 2*flag + (0 = set, 1 = unset)
var ctOps = []func(*of.CTStates){
	(*of.CTStates).SetNew, (*of.CTStates).UnsetNew,
	(*of.CTStates).SetEst, (*of.CTStates).UnsetEst,
	(*of.CTStates).SetRel, (*of.CTStates).UnsetRel,
	(*of.CTStates).SetRpl, (*of.CTStates).UnsetRpl,
	(*of.CTStates).SetInv, (*of.CTStates).UnsetInv,
	(*of.CTStates).SetTrk, (*of.CTStates).UnsetTrk,
	(*of.CTStates).SetSNAT, (*of.CTStates).UnsetSNAT,
	(*of.CTStates).SetDNAT, (*of.CTStates).UnsetDNAT,
}
var ctOpNames = []string{"SetNew", "UnsetNew", "SetEst", "UnsetEst", "SetRel", "UnsetRel", "SetRpl", "UnsetRpl",
	"SetInv", "UnsetInv", "SetTrk", "UnsetTrk", "SetSNAT", "UnsetSNAT", "SetDNAT", "UnsetDNAT"}

func ctEncode(s *of.CTStates) ([]byte, error) {
	f := of.NewCTStateMatchField(s)
	return f.MarshalBinary()
}

func runC18(seed uint64, tier, dir, replay string) error {
	o := NewOut(dir, "C18", 16, "From LOF Require Import Corr.C18.", "check18")
	rng := NewRng(seed)
	names := func(codes []uint64) []string {
		r := make([]string, len(codes))
		for i, c := range codes {
			r[i] = ctOpNames[c]
		}
		return r
	}
	// (a) every one of the 3^8 reachable states x every operation
	for st := 0; st < 6561; st++ {
		var d0, m0 uint32
		x := st
		for f := 0; f < 8; f++ {
			switch x % 3 {
			case 1:
				d0 |= 1 << uint(f)
				m0 |= 1 << uint(f)
			case 2:
				m0 |= 1 << uint(f)
			}
			x /= 3
		}
		rs := make([]uint64, 16)
		for c := 0; c < 16; c++ {
			s := of.NewCTStates()
			of.VerifSetCTStates(s, d0, m0)
			ctOps[c](s)
			d, m := of.VerifCTStates(s)
			rs[c] = uint64(d) | uint64(m)<<32
		}
		o.Add(fmt.Sprintf("(Fan %d %d %s)", d0, m0, intList(rs)),
			map[string]interface{}{"kind": "state-x-op", "data0": d0, "mask0": m0, "results_data_or_mask_shl32": rs},
			"state-x-op", fmt.Sprintf("%d", st))
	}
	// (b) every call sequence up to length 4 from a fresh builder, (c) longer random ones
	emit := func(kind string, codes []uint64, withEnc bool) error {
		s := of.NewCTStates()
		for _, c := range codes {
			ctOps[c](s)
		}
		d, m := of.VerifCTStates(s)
		encTerm := "[]"
		var enc []byte
		if withEnc {
			var err error
			enc, err = ctEncode(s)
			if err != nil {
				return err
			}
			encTerm = packBytes(enc)
		}
		key := fmt.Sprint(codes)
		o.Add(fmt.Sprintf("(Seq 0 0 %s %d %d %s)", intList(codes), d, m, encTerm),
			map[string]interface{}{"kind": kind, "ops": names(codes), "data": d, "mask": m, "field_bytes": hexs(enc)},
			kind, key)
		return nil
	}
	maxLen := 4
	for L := 1; L <= maxLen; L++ {
		total := 1
		for i := 0; i < L; i++ {
			total *= 16
		}
		for base := 0; base < total; base += 256 {
			n := 256
			if total < n {
				n = total
			}
			rs := make([]uint64, n)
			for j := 0; j < n; j++ {
				codes := make([]uint64, L)
				x := base + j
				for k := L - 1; k >= 0; k-- {
					codes[k] = uint64(x % 16)
					x /= 16
				}
				s := of.NewCTStates()
				for _, c := range codes {
					ctOps[c](s)
				}
				d, m := of.VerifCTStates(s)
				rs[j] = uint64(d) | uint64(m)<<32
				if L <= 2 || (base+j)%97 == 0 {
					if err := emit(fmt.Sprintf("seq-len%d-with-encoding", L), codes, true); err != nil {
						return err
					}
				}
			}
			o.Add(fmt.Sprintf("(Block %d %d %s)", L, base, intList(rs)),
				map[string]interface{}{"kind": "all-seq-block", "length": L, "first_index": base, "count": n, "results_data_or_mask_shl32": rs},
				fmt.Sprintf("all-seq-len%d", L), fmt.Sprintf("%d", base))
		}
	}
	nrand := 1500
	if tier == "thorough" {
		nrand = 20000
	}
	for i := 0; i < nrand; i++ {
		L := 5 + rng.Intn(60)
		codes := make([]uint64, L)
		for k := range codes {
			codes[k] = uint64(rng.Intn(16))
		}
		if err := emit("random-seq", codes, true); err != nil {
			return err
		}
	}
	o.Meta["exhaustive"] = true
	o.Meta["inputs_total"] = 6561*16 + 69904 + nrand
	o.Meta["rule"] = "all 6561 builder states (each flag untouched/set/unset) x all 16 operations; all 69904 call sequences of length 1..4 from a fresh builder; random sequences of length 5..64; encoded NXM_NX_CT_STATE field bytes compared for every sequence of length <= 2, every 97th longer one and every random one; distinct by state / op sequence"
	return o.Close()
}
