package main

import (
	"encoding/binary"
	"fmt"
	"sort"
	"strings"
	"sync"

	of "github.com/contiv/libOpenflow/openflow13"
)

func init() { props["C15"] = runC15 }

func caseVariants(rng *Rng, name string) []string {
	mixed := []byte(name)
	for i := range mixed {
		if rng.Bool() {
			mixed[i] = strings.ToLower(string(mixed[i]))[0]
		}
	}
	return []string{name, strings.ToLower(name), string(mixed)}
}

func runC15(seed uint64, tier, dir, replay string) error {
	o := NewOut(dir, "C15", 8, "From LOF Require Import Corr.C15.", "check15")
	rng := NewRng(seed)
	names := of.VerifRegistryNames()
	sort.Strings(names)
	o.Add(fmt.Sprintf("(Count %d)", len(names)), map[string]interface{}{"kind": "count", "names": len(names)}, "count", "n")
	b01 := func(b bool) uint64 {
		if b {
			return 1
		}
		return 0
	}
	findCase := func(kind, name string, hm bool) {
		f, err := of.FindFieldHeaderByName(name, hm)
		obs := []uint64{0, 0, 0, 0, 0}
		if err == nil && f != nil {
			obs = []uint64{1, uint64(f.Class), uint64(f.Field), uint64(f.Length), b01(f.HasMask)}
			// modify the result in every field: later lookups must not see it
			f.Class, f.Field, f.Length, f.HasMask = ^f.Class, ^f.Field, ^f.Length, !f.HasMask
		}
		o.Add(fmt.Sprintf("(Find %s %d %s)", packBytes([]byte(name)), b01(hm), intList(obs)),
			map[string]interface{}{"kind": kind, "name": name, "mask": hm, "obs_found_class_field_length_hasmask": obs},
			kind, fmt.Sprintf("%s/%v", strings.ToUpper(name), hm))
	}
	for _, n := range names {
		c, f, l, hm, _ := of.VerifRegistryEntry(n)
		obs := []uint64{uint64(c), uint64(f), uint64(l), b01(hm)}
		o.Add(fmt.Sprintf("(Entry %s %s)", packBytes([]byte(n)), intList(obs)),
			map[string]interface{}{"kind": "entry", "name": n, "obs_class_field_length_hasmask": obs}, "entry", n)
	}
	rounds := 2
	if tier == "thorough" {
		rounds = 6
	}
	for r := 0; r < rounds; r++ {
		for _, n := range names {
			for _, v := range caseVariants(rng, n) {
				findCase("lookup", v, false)
				findCase("lookup", v, true)
			}
		}
	}
	// stored entries again, after all the results above were modified
	for _, n := range names {
		c, f, l, hm, _ := of.VerifRegistryEntry(n)
		obs := []uint64{uint64(c), uint64(f), uint64(l), b01(hm)}
		o.Add(fmt.Sprintf("(Entry %s %s)", packBytes([]byte(n)), intList(obs)),
			map[string]interface{}{"kind": "entry-after-mutation", "name": n, "obs_class_field_length_hasmask": obs}, "entry-after-mutation", n)
	}
	// names that are not registered
	for i := 0; i < 60; i++ {
		n := names[rng.Intn(len(names))]
		switch rng.Intn(4) {
		case 0:
			n = n + "X"
		case 1:
			n = n[1:]
		case 2:
			n = strings.Replace(n, "_", "-", 1)
		case 3:
			n = fmt.Sprintf("NXM_NX_REG%d", 16+rng.Intn(100))
		}
		findCase("unknown-name", n, rng.Bool())
	}
	// header packing: boundary and random headers and words
	nw := 3000
	if tier == "thorough" {
		nw = 60000
	}
	for i := 0; i < nw; i++ {
		mf := &of.MatchField{Class: uint16(rng.Bits(16)), Field: uint8(rng.Bits(7)), HasMask: rng.Bool(), Length: uint8(rng.Bits(8))}
		w := mf.MarshalHeader()
		hdr := []uint64{uint64(mf.Class), uint64(mf.Field), b01(mf.HasMask), uint64(mf.Length)}
		o.Add(fmt.Sprintf("(Pack %s %d)", intList(hdr), w),
			map[string]interface{}{"kind": "pack", "class_field_hasmask_length": hdr, "word": w}, "pack", fmt.Sprint(hdr))
		word := uint32(rng.Bits(32))
		var b [4]byte
		binary.BigEndian.PutUint32(b[:], word)
		g := new(of.MatchField)
		if err := g.UnmarshalHeader(b[:]); err != nil {
			return err
		}
		obs := []uint64{uint64(g.Class), uint64(g.Field), b01(g.HasMask), uint64(g.Length)}
		o.Add(fmt.Sprintf("(Unpack %d %s)", word, intList(obs)),
			map[string]interface{}{"kind": "unpack", "word": word, "class_field_hasmask_length": obs}, "unpack", fmt.Sprint(word))
	}
	// concurrent lookups and modifications of the results (the race detector watches
	// when the harness is built with -race); results are compared with a sequential run
	workers := 32
	var wg sync.WaitGroup
	bad := make(chan string, workers)
	for g := 0; g < workers; g++ {
		wg.Add(1)
		go func(g int) {
			defer wg.Done()
			r := NewRng(seed + uint64(g)*7919)
			for i := 0; i < 2000; i++ {
				n := names[r.Intn(len(names))]
				hm := r.Bool()
				f, err := of.FindFieldHeaderByName(n, hm)
				c, fl, l, _, _ := of.VerifRegistryEntry(n)
				want := l
				if hm {
					want = l * 2
				}
				if err != nil || f.Class != c || f.Field != fl || f.Length != want || f.HasMask != hm {
					select {
					case bad <- fmt.Sprintf("goroutine %d: lookup %s mask=%v gave %+v", g, n, hm, f):
					default:
					}
					return
				}
				f.Class, f.Field, f.Length, f.HasMask = ^f.Class, ^f.Field, ^f.Length, !f.HasMask
			}
		}(g)
	}
	wg.Wait()
	close(bad)
	var dv []map[string]interface{}
	for b := range bad {
		dv = append(dv, map[string]interface{}{"what": "concurrent lookup saw a modified or wrong entry: " + b, "sig": "concurrent-lookup"})
	}
	if len(dv) > 0 {
		o.Meta["direct_violations"] = dv
	}
	o.Meta["exhaustive"] = true
	o.Meta["rule"] = fmt.Sprintf("every registered name (%d, dumped through the verif accessor) as stored entry; every name x mask on/off x {upper, lower, mixed case} through FindFieldHeaderByName, each result modified in every field afterwards and the stored entries re-read at the end; 60 unregistered names; %d random/boundary headers through MarshalHeader and words through UnmarshalHeader; 32 goroutines x 2000 concurrent lookups+modifications; distinct by upper-cased name x mask / header / word", len(names), nw)
	return o.Close()
}
