package main

// Worker subprocess: decodes one input per request line under recover; the parent enforces
// a wall-clock limit per case and the worker a heap limit, so a hanging or exploding case
// is recorded (HANG / OOM) instead of taking the harness down.

import (
	"bufio"
	"bytes"
	"encoding/hex"
	"fmt"
	"io"
	"os"
	"os/exec"
	"runtime"
	"strings"
	"syscall"
	"time"

	"github.com/contiv/libOpenflow/common"
	of "github.com/contiv/libOpenflow/openflow13"
	"github.com/contiv/libOpenflow/protocol"
	"github.com/contiv/libOpenflow/util"
)

// outcome codes: 0 value, 1 error, 2 panic, 3 hang (timeout), 4 memory, 5 neither value nor error
type decFn func(b []byte) (ok bool, v util.Message, extra string)

func um(m util.Message) decFn {
	return func(b []byte) (bool, util.Message, string) {
		panic("unused")
	}
}

var decoders = map[string]func(b []byte) (err error, v util.Message, extra string){
	"eth": func(b []byte) (error, util.Message, string) {
		v := new(protocol.Ethernet)
		return v.UnmarshalBinary(b), v, ""
	},
	"vlan": func(b []byte) (error, util.Message, string) {
		v := new(protocol.VLAN)
		return v.UnmarshalBinary(b), v, ""
	},
	"arp": func(b []byte) (error, util.Message, string) {
		v := new(protocol.ARP)
		return v.UnmarshalBinary(b), v, ""
	},
	"ip4": func(b []byte) (error, util.Message, string) {
		v := new(protocol.IPv4)
		return v.UnmarshalBinary(b), v, ""
	},
	"ip6": func(b []byte) (error, util.Message, string) {
		v := new(protocol.IPv6)
		return v.UnmarshalBinary(b), v, ""
	},
	"icmp": func(b []byte) (error, util.Message, string) {
		v := protocol.NewICMP()
		return v.UnmarshalBinary(b), v, ""
	},
	"udp": func(b []byte) (error, util.Message, string) {
		v := protocol.NewUDP()
		return v.UnmarshalBinary(b), v, ""
	},
	"tcp": func(b []byte) (error, util.Message, string) {
		v := protocol.NewTCP()
		return v.UnmarshalBinary(b), v, ""
	},
	"hbh": func(b []byte) (error, util.Message, string) {
		v := protocol.NewHopByHopHeader()
		return v.UnmarshalBinary(b), v, ""
	},
	"routing": func(b []byte) (error, util.Message, string) {
		v := protocol.NewRoutingHeader()
		return v.UnmarshalBinary(b), v, ""
	},
	"fragment": func(b []byte) (error, util.Message, string) {
		v := protocol.NewFragmentHeader()
		return v.UnmarshalBinary(b), v, ""
	},
	"option": func(b []byte) (error, util.Message, string) {
		v := new(protocol.Option)
		return v.UnmarshalBinary(b), v, ""
	},
	"igmp12": func(b []byte) (error, util.Message, string) {
		v := new(protocol.IGMPv1or2)
		return v.UnmarshalBinary(b), v, ""
	},
	"igmp3q": func(b []byte) (error, util.Message, string) {
		v := new(protocol.IGMPv3Query)
		return v.UnmarshalBinary(b), v, ""
	},
	"igmp3gr": func(b []byte) (error, util.Message, string) {
		v := new(protocol.IGMPv3GroupRecord)
		return v.UnmarshalBinary(b), v, ""
	},
	"igmp3r": func(b []byte) (error, util.Message, string) {
		v := new(protocol.IGMPv3MembershipReport)
		return v.UnmarshalBinary(b), v, ""
	},
	"dhcp": func(b []byte) (error, util.Message, string) {
		v := new(protocol.DHCP)
		_, err := v.Write(b)
		return err, wrapRW(v), ""
	},
	"dhcpopts": func(b []byte) (error, util.Message, string) {
		_, err := protocol.DHCPParseOptions(b)
		return err, nil, ""
	},
	"lldp": func(b []byte) (error, util.Message, string) {
		v := new(protocol.LLDP)
		_, err := v.Write(b)
		return err, wrapRW(v), ""
	},
	"lldpchassis": func(b []byte) (error, util.Message, string) {
		v := new(protocol.ChassisTLV)
		_, err := v.Write(b)
		return err, wrapRW(v), ""
	},
	"lldpport": func(b []byte) (error, util.Message, string) {
		v := new(protocol.PortTLV)
		_, err := v.Write(b)
		return err, wrapRW(v), ""
	},
	"lldpttl": func(b []byte) (error, util.Message, string) {
		v := new(protocol.TTLTLV)
		_, err := v.Write(b)
		return err, wrapRW(v), ""
	},
	"parse": func(b []byte) (error, util.Message, string) {
		m, err := of.Parse(b)
		if err == nil && (m == nil || isNilMsg(m)) {
			return nil, nil, "neither"
		}
		return err, m, ""
	},
	// the frame as the stream hands it over: a slice of a pooled buffer, with capacity (and stale
	// bytes of earlier frames) behind its length
	"parsespare": func(b []byte) (error, util.Message, string) {
		back := make([]byte, len(b)+96)
		copy(back, b)
		for i := len(b); i < len(back); i++ {
			back[i] = byte(0xa5 ^ i*29)
		}
		m, err := of.Parse(back[:len(b)])
		if err == nil && (m == nil || isNilMsg(m)) {
			return nil, nil, "neither"
		}
		return err, m, ""
	},
	"hello": func(b []byte) (error, util.Message, string) {
		v := new(common.Hello)
		return v.UnmarshalBinary(b), v, ""
	},
}

func isNilMsg(m util.Message) bool {
	defer func() { recover() }()
	return fmt.Sprintf("%p", m) == "0x0" || fmt.Sprintf("%v", m) == "<nil>"
}

func workerMain() {
	go func() { // heap watchdog
		var ms runtime.MemStats
		for {
			time.Sleep(50 * time.Millisecond)
			runtime.ReadMemStats(&ms)
			if ms.HeapAlloc > 1<<30 {
				os.Exit(97)
			}
		}
	}()
	in := bufio.NewReaderSize(os.Stdin, 1<<20)
	out := bufio.NewWriter(os.Stdout)
	for {
		line, err := in.ReadString('\n')
		if err != nil {
			return
		}
		parts := strings.Fields(line)
		if len(parts) < 1 {
			continue
		}
		var b []byte
		if len(parts) > 1 {
			b, _ = hex.DecodeString(parts[1])
		}
		if parts[0] == "scribble" {
			fmt.Fprintln(out, scribble(b))
			out.Flush()
			continue
		}
		exact := make([]byte, len(b)) // exact capacity
		copy(exact, b)
		outcome, re, extra, lenv, chash := 0, []byte(nil), "", -1, "-"
		var ms0, ms1 runtime.MemStats
		runtime.ReadMemStats(&ms0)
		cpu0 := cpuTime()
		cpu1 := cpu0
		ms1 = ms0
		func() {
			defer func() {
				if r := recover(); r != nil {
					outcome, extra = 2, strings.ReplaceAll(fmt.Sprint(r), " ", "_")
				}
			}()
			err, v, ex := decoders[parts[0]](exact)
			// the decode alone is measured (re-encoding a value nested d deep costs d times its size
			// in this library's style of encoding - not the parser's business)
			runtime.ReadMemStats(&ms1)
			cpu1 = cpuTime()
			if ex == "neither" {
				outcome = 5
				return
			}
			if err != nil {
				outcome = 1
				return
			}
			if v != nil { // re-encode what was decoded (its own panics are reported separately)
				func() {
					defer func() {
						if r := recover(); r != nil {
							extra = "reencode-panic"
						}
					}()
					chash = canonHash(canonOf(v))
					lenv = int(v.Len())
					re, _ = v.MarshalBinary()
					extra = fmt.Sprintf("%T", v)
					if e, ok := v.(*protocol.Ethernet); ok {
						extra = payloadTag(e)
					}
				}()
			}
		}()
		if extra == "" {
			extra = "-"
		}
		// memory proportional to the input: everything allocated by the decode against 512 bytes per input byte plus 256 KiB (decoding a 64 KiB frame of 5-byte match fields allocates about 130 bytes per input byte)
		if alloc := ms1.TotalAlloc - ms0.TotalAlloc; outcome < 2 && alloc > uint64(len(b))*512+256<<10 {
			outcome, extra = 4, fmt.Sprintf("allocated_%d_MiB_for_%d_bytes", alloc>>20, len(b))
		}
		// time proportional to the input: processor time of this process (not wall-clock time, which
		// depends on what else the machine is doing) against 30 microseconds per input byte plus 0.4 s
		cpu, budget := cpu1-cpu0, time.Duration(len(b))*30*time.Microsecond+400*time.Millisecond
		// the processor time is that of the whole process, the collector's background work on what
		// earlier inputs left behind included: a decode over the budget is measured again (twice at
		// most, after a completed collection) and the smallest measurement counts - what the decoder
		// itself costs is the same every time
		for try := 0; try < 2 && outcome < 2 && cpu > budget; try++ {
			runtime.GC()
			again := make([]byte, len(b))
			copy(again, b)
			c0 := cpuTime()
			func() {
				defer func() { recover() }()
				decoders[parts[0]](again)
			}()
			if c := cpuTime() - c0; c < cpu {
				cpu = c
			}
		}
		if outcome < 2 && cpu > budget {
			outcome, extra = 3, fmt.Sprintf("cpu_%d_ms_for_%d_bytes", cpu.Milliseconds(), len(b))
		}
		fmt.Fprintf(out, "%d %s %s %d %s\n", outcome, hex.EncodeToString(re)+".", extra, lenv, chash)
		out.Flush()
	}
}

// cpuTime: user + system processor time consumed by this process so far
func cpuTime() time.Duration {
	var ru syscall.Rusage
	if syscall.Getrusage(syscall.RUSAGE_SELF, &ru) != nil {
		return 0
	}
	return time.Duration(ru.Utime.Nano() + ru.Stime.Nano())
}

func payloadTag(e *protocol.Ethernet) string {
	tag := func(m util.Message) string {
		switch m.(type) {
		case *protocol.ICMP:
			return "1"
		case *protocol.UDP:
			return "2"
		case *protocol.ARP:
			return "3"
		case *protocol.IPv4:
			return "4"
		case *protocol.IPv6:
			return "6"
		}
		return "0"
	}
	t := tag(e.Data)
	switch d := e.Data.(type) {
	case *protocol.IPv4:
		t += tag(d.Data)
	case *protocol.IPv6:
		t += tag(d.Data)
	default:
		t += "0"
	}
	return "tag" + t
}

// ---------------------------------------------------------------- parent side

type Worker struct {
	cmd *exec.Cmd
	in  io.WriteCloser
	out *bufio.Reader
}

type wres struct {
	outcome int
	re      []byte
	extra   string
	lenv    int
	chash   string
}

func startWorker() (*Worker, error) {
	exe, _ := os.Executable()
	cmd := exec.Command(exe, "worker")
	in, _ := cmd.StdinPipe()
	outp, _ := cmd.StdoutPipe()
	cmd.Stderr = io.Discard
	if err := cmd.Start(); err != nil {
		return nil, err
	}
	return &Worker{cmd: cmd, in: in, out: bufio.NewReaderSize(outp, 1<<20)}, nil
}

func (w *Worker) kill() {
	w.cmd.Process.Kill()
	w.cmd.Wait()
}

// WorkerPool runs decode requests; a request that exceeds the limit is a HANG (3), a worker
// that dies with code 97 an OOM (4).
type WorkerPool struct{ w *Worker }

func (p *WorkerPool) Run(dec string, b []byte) wres {
	if p.w == nil {
		w, err := startWorker()
		if err != nil {
			panic(err)
		}
		p.w = w
	}
	fmt.Fprintf(p.w.in, "%s %s\n", dec, hex.EncodeToString(b))
	type rl struct {
		line string
		err  error
	}
	ch := make(chan rl, 1)
	go func() {
		l, err := p.w.out.ReadString('\n')
		ch <- rl{l, err}
	}()
	select {
	case r := <-ch:
		if r.err != nil {
			code := 4
			p.w.cmd.Wait()
			if p.w.cmd.ProcessState != nil && p.w.cmd.ProcessState.ExitCode() != 97 {
				code = 2 // the worker died some other way (fatal error): count as a crash
			}
			p.w = nil
			return wres{outcome: code, extra: "worker-died"}
		}
		var o, lv int
		var reh, ex, ch string
		fmt.Sscanf(r.line, "%d %s %s %d %s", &o, &reh, &ex, &lv, &ch)
		re, _ := hex.DecodeString(strings.TrimSuffix(reh, "."))
		return wres{o, re, ex, lv, ch}
	case <-time.After(3 * time.Second):
		p.w.kill()
		p.w = nil
		return wres{outcome: 3, extra: "timeout"}
	}
}

func (p *WorkerPool) Close() {
	if p.w != nil {
		p.w.in.Close()
		p.w.kill()
	}
}

// scribble: C12.  Parse the frame twice from two private copies (one of them inside a larger
// buffer, as the stream's pooled buffers are); dump and encode the first message as the
// reference; overwrite every byte of the second copy's backing array with its complement,
// dump; overwrite it with noise, dump and encode.  A decoder that kept a view of any
// non-empty part of its input shows up as a changed dump or encoding (the complement changes
// every byte).
func scribble(b []byte) (line string) {
	outcome, re, lenv, dumpEq, encEq, extra := 0, []byte(nil), 0, 1, 1, "-"
	defer func() {
		if r := recover(); r != nil {
			line = fmt.Sprintf("2 . %s 0 0/0", strings.ReplaceAll(fmt.Sprint(r), " ", "_"))
		}
	}()
	ref := append(make([]byte, 0, len(b)), b...)
	back := make([]byte, len(b)+96)
	copy(back[32:], b)
	in := back[32 : 32+len(b)] // spare capacity behind, other data in front
	mRef, errRef := of.Parse(ref)
	m, err := of.Parse(in)
	if (errRef == nil) != (err == nil) {
		return "5 . nondeterministic 0 0/0"
	}
	if err != nil {
		return "1 . - 0 1/1"
	}
	if m == nil || isNilMsg(m) {
		return "5 . neither 0 0/0"
	}
	canonAll = true
	defer func() { canonAll = false }()
	d0 := canonString(mRef)
	if canonString(m) != d0 {
		return "5 . nondeterministic-dump 0 0/0"
	}
	for i := range back {
		back[i] = ^back[i]
	}
	if canonString(m) != d0 {
		dumpEq, extra = 0, "complement"
	}
	x := uint64(len(b))*0x9e3779b97f4a7c15 + 1
	for i := range back {
		x ^= x << 13
		x ^= x >> 7
		x ^= x << 17
		back[i] = byte(x)
	}
	if dumpEq == 1 && canonString(m) != d0 {
		dumpEq, extra = 0, "noise"
	}
	reRef, e1 := mRef.MarshalBinary()
	re, e2 := m.MarshalBinary()
	lenv = int(m.Len())
	if (e1 == nil) != (e2 == nil) || !bytes.Equal(re, reRef) {
		encEq = 0
	}
	if e2 != nil {
		re = nil
	}
	return fmt.Sprintf("%d %s. %s %d %d/%d", outcome, hex.EncodeToString(re), extra, lenv, dumpEq, encEq)
}
