package main

// Extra input families for C07 / C08: frames at the 64 KiB limit for every list-bearing
// message, extreme IPv6 extension-header lengths on packets long enough to carry them, and
// every 16-bit position of a frame set to 0 / 0xffff.

import (
	"encoding/binary"
	"fmt"
)

func ofFrame(ty uint8, length int, body []byte, buflen int) []byte {
	b := make([]byte, 8, 8+len(body))
	b[0], b[1] = 4, ty
	binary.BigEndian.PutUint16(b[2:], uint16(length))
	binary.BigEndian.PutUint32(b[4:], 0x01020304)
	b = append(b, body...)
	for len(b) < buflen {
		b = append(b, 0)
	}
	return b[:buflen]
}

func rep(elem []byte, upto int) []byte {
	var b []byte
	for len(b)+len(elem) <= upto {
		b = append(b, elem...)
	}
	return b
}

type named struct {
	kind string
	b    []byte
}

// giantFrames: each list decoder walked up to (and past) the 64 KiB limit
func giantFrames(all bool) []named {
	var out []named
	add := func(kind string, b []byte) { out = append(out, named{"giant/" + kind, b}) }
	u16 := func(v int) []byte { return []byte{byte(v >> 8), byte(v)} }
	// multipart replies: zero records of every statistics type
	for mt := 0; mt <= 5; mt++ {
		for _, lb := range [][2]int{{65535, 65535}, {65535, 65600}, {65528, 65528}} {
			if !all && lb[0] != 65535 {
				continue
			}
			body := append(u16(mt), 0, 0, 0, 0, 0, 0)
			if mt == 1 { // minimal flow-stats records: length 56, empty OXM match
				r := make([]byte, 56)
				r[1] = 56
				r[48+1], r[48+3] = 1, 4
				body = append(body, rep(r, 65400)...)
			}
			add("multipart-reply", ofFrame(19, lb[0], body, lb[1]))
		}
	}
	gotoI := []byte{0, 1, 0, 8, 7, 0, 0, 0}
	outA := []byte{0, 0, 0, 16, 0, 0, 0, 1, 0xff, 0xff, 0, 0, 0, 0, 0, 0}
	emptyMatch := []byte{0, 1, 0, 4, 0, 0, 0, 0}
	fm := make([]byte, 40) // flow-mod fixed part after the header
	// flow-mod: many instructions
	add("flow-mod/instructions", ofFrame(14, 65528, append(append(append([]byte{}, fm...), emptyMatch...), rep(gotoI, 65528-56)...), 65528))
	// flow-mod: one apply-actions instruction with a list of actions up to the limit
	{
		acts := rep(outA, 65528-56-8)
		in := append([]byte{0, 4}, u16(8+len(acts))...)
		in = append(in, 0, 0, 0, 0)
		body := append(append(append([]byte{}, fm...), emptyMatch...), append(in, acts...)...)
		add("flow-mod/actions", ofFrame(14, 8+len(body), body, 8+len(body)))
	}
	// flow-mod: a match with fields up to the limit
	{
		f := []byte{0x80, 0, 0, 4, 0, 0, 0, 1}
		fs := rep(f, 65400)
		m := append(append([]byte{0, 1}, u16(4+len(fs))...), fs...)
		for len(m)%8 != 0 {
			m = append(m, 0)
		}
		body := append(append([]byte{}, fm...), m...)
		add("flow-mod/match", ofFrame(14, 8+len(body), body, 8+len(body)))
	}
	// group-mod: buckets without actions
	{
		bk := []byte{0, 16, 0, 0, 0, 0, 0, 0, 0, 0, 0, 0, 0, 0, 0, 0}
		body := append([]byte{0, 0, 0, 0, 0, 0, 0, 1}, rep(bk, 65520-16)...)
		add("group-mod/buckets", ofFrame(15, 8+len(body), body, 8+len(body)))
		if all { // one bucket with actions up to the limit
			acts := rep(outA, 65400)
			b1 := append(append(u16(16+len(acts)), 0, 0, 0, 0, 0, 0, 0, 0, 0, 0, 0, 0, 0, 0), acts...)
			body := append([]byte{0, 0, 0, 0, 0, 0, 0, 1}, b1...)
			add("group-mod/bucket-actions", ofFrame(15, 8+len(body), body, 8+len(body)))
		}
	}
	// hello: version bitmaps
	add("hello/elements", ofFrame(0, 65528, rep([]byte{0, 1, 0, 8, 0, 0, 0, 0x10}, 65520), 65528))
	// packet-out: actions then data
	{
		acts := rep(outA, 65400)
		body := append(append([]byte{0xff, 0xff, 0xff, 0xff, 0, 0, 0, 1}, u16(len(acts))...), 0, 0, 0, 0, 0, 0)
		body = append(body, acts...)
		add("packet-out/actions", ofFrame(13, 8+len(body), body, 8+len(body)))
	}
	// features reply: ports
	add("features-reply/ports", ofFrame(6, 32+64*1023, make([]byte, 24+64*1023), 32+64*1023))
	// tlv table mod / reply: maps (identical ones, and pairwise different ones)
	{
		mp := []byte{0xff, 0xff, 1, 4, 0, 1, 0, 0}
		body := append([]byte{0, 0, 0x23, 0x20, 0, 0, 0, 24, 0, 0, 0, 0, 0, 0, 0, 0}, rep(mp, 65400)...)
		add("tlv-table-mod/maps", ofFrame(4, 8+len(body), body, 8+len(body)))
		maps := rep(mp, 65400)
		for i := 0; i+8 <= len(maps); i += 8 { // class and index count up: no two maps alike
			maps[i], maps[i+1], maps[i+4], maps[i+5] = byte(i>>11), byte(i>>3), byte(i>>11), byte(i>>3)
		}
		body2 := append([]byte{0, 0, 0x23, 0x20, 0, 0, 0, 24, 0, 0, 0, 0, 0, 0, 0, 0}, maps...)
		add("tlv-table-mod/distinct-maps", ofFrame(4, 8+len(body2), body2, 8+len(body2)))
	}
	// bundle-add: a nested giant flow-mod, then properties
	if all {
		inner := ofFrame(14, 60000, append(append(append([]byte{}, fm...), emptyMatch...), rep(gotoI, 60000-56)...), 60000)
		prop := []byte{0xff, 0xff, 0, 16, 0, 0, 0, 1, 0, 0, 0, 2, 9, 9, 9, 9}
		body := append([]byte{0x4f, 0x4e, 0x46, 0, 0, 0, 8, 0xfd, 0, 0, 0, 7, 0, 0, 0, 0}, inner...)
		body = append(body, rep(prop, 5000)...)
		add("bundle-add/nested", ofFrame(4, 8+len(body), body, 8+len(body)))
	}
	return out
}

// deepFrames: nesting as deep as the frame allows - conntrack actions inside conntrack actions
// inside a packet-out, and bundle-adds inside bundle-adds around a barrier request
func deepFrames(all bool) []named {
	var out []named
	u16 := func(v int) []byte { return []byte{byte(v >> 8), byte(v)} }
	depths := []int{12, 28, 60, 400}
	if all {
		depths = []int{3, 8, 12, 20, 28, 40, 60, 150, 400, 2700}
	}
	for _, d := range depths {
		var acts []byte
		for k := 0; k < d; k++ { // from the innermost outwards
			ct := append([]byte{0xff, 0xff}, u16(24+len(acts))...)
			ct = append(ct, 0, 0, 0x23, 0x20, 0, 35, 0, 1, 0, 0, 0, 0, 0, 0, 0xff, 0, 0, 0, 0, 0)
			acts = append(ct, acts...)
		}
		if 24+len(acts) <= 65535 {
			body := append(append([]byte{0xff, 0xff, 0xff, 0xff, 0, 0, 0, 1}, u16(len(acts))...), 0, 0, 0, 0, 0, 0)
			body = append(body, acts...)
			out = append(out, named{fmt.Sprintf("deep/conntrack-%d", d), ofFrame(13, 8+len(body), body, 8+len(body))})
		}
		msg := []byte{4, 20, 0, 8, 0, 0, 0, 9} // barrier request
		for k := 0; k < d && len(msg)+24 <= 65535; k++ {
			b := append([]byte{4, 4}, u16(24+len(msg))...)
			b = append(b, 0, 0, 0, byte(k), 0x4f, 0x4e, 0x46, 0, 0, 0, 8, 0xfd, 0, 0, 0, 7, 0, 0, 0, 0)
			msg = append(b, msg...)
		}
		out = append(out, named{fmt.Sprintf("deep/bundle-add-%d", d), msg})
		// the same nest around a message the parser refuses (an error that travels up through every level)
		bad := []byte{4, 99, 0, 8, 0, 0, 0, 9}
		for k := 0; k < d && len(bad)+24 <= 65535; k++ {
			b := append([]byte{4, 4}, u16(24+len(bad))...)
			b = append(b, 0, 0, 0, byte(k), 0x4f, 0x4e, 0x46, 0, 0, 0, 8, 0xfd, 0, 0, 0, 7, 0, 0, 0, 0)
			bad = append(b, bad...)
		}
		out = append(out, named{fmt.Sprintf("deep/bundle-add-refused-%d", d), bad})
	}
	return out
}

// v6Extremes: Ethernet frames with IPv6 extension-header chains whose Hdr Ext Len takes the
// extreme values, long enough to hold them
func v6Extremes(all bool) []named {
	var out []named
	padTo := func(n int) []byte { // n bytes of options: PadN options
		var o []byte
		for n > 0 {
			if n == 1 {
				o = append(o, 0) // Pad1
				n--
				continue
			}
			k := n - 2
			if k > 200 {
				k = 200
			}
			o = append(o, 1, byte(k))
			o = append(o, make([]byte, k)...)
			n -= 2 + k
		}
		return o
	}
	hels := []int{0, 1, 31, 254, 255}
	nhs := []byte{0, 60, 43, 44, 59, 17}
	for _, h1 := range hels {
		for _, nh1 := range nhs {
			for _, h2 := range []int{0, 255} {
				if !all && !(h1 >= 254 || (h1 == 0 && h2 == 255)) {
					continue
				}
				var chain []byte
				chain = append(chain, nh1, byte(h1))
				chain = append(chain, padTo(8*(h1+1)-2)...)
				switch nh1 {
				case 0, 60:
					chain = append(chain, 59, byte(h2))
					chain = append(chain, padTo(8*(h2+1)-2)...)
				case 43:
					chain = append(chain, 59, byte(h2), 0, 0)
					chain = append(chain, make([]byte, 8*(h2+1)-4)...)
				case 44:
					chain = append(chain, 59, 0, 0, 0, 0, 0, 0, 1)
				case 17:
					chain = append(chain, 0, 1, 0, 2, 0, 8, 0, 0)
				}
				ip := make([]byte, 40)
				ip[0] = 0x60
				binary.BigEndian.PutUint16(ip[4:], uint16(len(chain)))
				ip[6], ip[7] = 0, 64
				ip[23], ip[39] = 1, 2
				eth := append([]byte{2, 0, 0, 0, 0, 1, 2, 0, 0, 0, 0, 2, 0x86, 0xdd}, ip...)
				eth = append(eth, chain...)
				out = append(out, named{"v6-extreme", eth})
			}
		}
	}
	return out
}

// packetIn wraps an Ethernet frame in a packet-in with an empty match
func packetIn(eth []byte) []byte {
	body := make([]byte, 16)
	body = append(body, 0, 1, 0, 4, 0, 0, 0, 0, 0, 0)
	body = append(body, eth...)
	return ofFrame(10, 8+len(body), body, 8+len(body))
}

// wordSweep: every 16-bit position at an even offset set to v
func wordSweep(b []byte, v uint16, maxn int, r *Rng) [][]byte {
	var out [][]byte
	var offs []int
	for k := 0; k+1 < len(b); k += 2 {
		offs = append(offs, k)
	}
	if len(offs) > maxn {
		for i := range offs { // sample without replacement
			j := i + r.Intn(len(offs)-i)
			offs[i], offs[j] = offs[j], offs[i]
		}
		offs = offs[:maxn]
	}
	for _, k := range offs {
		if binary.BigEndian.Uint16(b[k:]) == v {
			continue
		}
		c := append([]byte{}, b...)
		binary.BigEndian.PutUint16(c[k:], v)
		out = append(out, c)
	}
	return out
}
