package main

// Decode-side harness: C05 (library round trip through Parse), C07 (Parse is total),
// C04 (spec-conformant switch messages), C12 (parsed messages own their memory).

import (
	"strings"
	"fmt"
	"net"

	"github.com/contiv/libOpenflow/common"
	of "github.com/contiv/libOpenflow/openflow13"
	"github.com/contiv/libOpenflow/protocol"
	"github.com/contiv/libOpenflow/util"
)

func init() {
	props["C05"] = runC05
	props["C07"] = runC07
}

// switchMessage builds a switch-originated message with the library's own types
// helloElems: a hello whose element list was assigned by hand - version bitmaps of 0..4 words
func (g *G) helloElems() (*common.Hello, string, uint32) {
	h, _ := common.NewHello(4)
	h.Elements = []common.HelloElem{}
	var ets []string
	for k := g.r.Geom(2, 6); k > 0; k-- {
		v := common.NewHelloElemVersionBitmap()
		v.Bitmaps = []uint32{}
		nb := g.r.Intn(5)
		ws := make([]string, nb)
		for i := range ws {
			x := uint32(g.r.Bits(32))
			v.Bitmaps = append(v.Bitmaps, x)
			ws[i] = fmt.Sprint(x)
		}
		h.Elements = append(h.Elements, v)
		ets = append(ets, "["+strings.Join(ws, "; ")+"]")
	}
	return h, "[" + strings.Join(ets, "; ") + "]", h.Header.Xid
}

func (g *G) switchMessage() (util.Message, string) {
	if g.r.Intn(16) == 0 {
		h, _, _ := g.helloElems()
		return h, "hello/elements"
	}
	switch g.r.Intn(12) {
	case 0:
		f := of.NewFlowRemoved()
		f.Header.Type = of.Type_FlowRemoved
		f.Cookie, f.Priority, f.Reason, f.TableId = g.r.Bits(64), uint16(g.r.Bits(16)), uint8(g.r.Intn(4)), uint8(g.r.Bits(8))
		f.DurationSec, f.DurationNSec, f.IdleTimeout, f.HardTimeout = uint32(g.r.Bits(32)), uint32(g.r.Bits(32)), uint16(g.r.Bits(16)), uint16(g.r.Bits(16))
		f.PacketCount, f.ByteCount = g.r.Bits(64), g.r.Bits(64)
		g.matchInto(&f.Match, 3, 10)
		f.Header.Length = f.Len()
		return f, "flow-removed"
	case 1, 2:
		p := of.NewPacketIn()
		p.BufferId, p.TotalLen, p.Reason, p.TableId, p.Cookie = uint32(g.r.Bits(32)), uint16(g.r.Bits(16)), uint8(g.r.Intn(3)), uint8(g.r.Bits(8)), g.r.Bits(64)
		g.matchInto(&p.Match, 3, 10)
		e, k := g.ethernet()
		p.Data = *e
		p.Header.Length = p.Len()
		return p, "packet-in/" + k
	case 3:
		p := of.NewPortStatus()
		p.Header.Type = of.Type_PortStatus
		p.Reason = uint8(g.r.Intn(3))
		p.Desc = *g.phyPort()
		return p, "port-status"
	case 4:
		s := of.NewFeaturesReply()
		copy(s.DPID, g.r.Bytes(8))
		s.Buffers, s.NumTables, s.AuxilaryId, s.Capabilities, s.Actions = uint32(g.r.Bits(32)), uint8(g.r.Bits(8)), uint8(g.r.Bits(8)), uint32(g.r.Bits(32)), uint32(g.r.Bits(32))
		for i, n := 0, g.r.Geom(2, 6); i < n; i++ {
			s.Ports = append(s.Ports, *g.phyPort())
		}
		return s, "features-reply"
	case 5:
		e := of.NewErrorMsg()
		e.Header = of.NewOfp13Header()
		e.Header.Type = of.Type_Error
		e.Type, e.Code = uint16(g.r.Intn(14)), uint16(g.r.Bits(16))
		e.Data = *util.NewBuffer(g.r.Bytes(g.r.Geom(10, 80)))
		e.Header.Length = e.Len()
		return e, "error"
	case 6:
		e := of.NewBundleError()
		e.Header.Type = of.Type_Error
		e.Code = uint16(2300 + g.r.Intn(16))
		e.Data = *util.NewBuffer(g.r.Bytes(g.r.Geom(10, 80)))
		e.Header.Length = e.Len()
		return e, "experimenter-error"
	case 7:
		c := of.NewSetConfig()
		c.Header.Type = of.Type_GetConfigReply
		c.Flags, c.MissSendLen = uint16(g.r.Bits(16)), uint16(g.r.Bits(16))
		return c, "get-config-reply"
	case 8:
		h := of.NewOfp13Header()
		h.Type = []uint8{of.Type_EchoRequest, of.Type_EchoReply, of.Type_BarrierReply}[g.r.Intn(3)]
		return &h, fmt.Sprintf("header-only/%d", h.Type)
	case 9:
		n := g.r.Geom(2, 8)
		maps := make([]*of.TLVTableMap, n)
		for i := range maps {
			maps[i] = &of.TLVTableMap{OptClass: uint16(g.r.Bits(16)), OptType: uint8(g.r.Bits(8)), OptLength: uint8(g.r.Bits(8)), Index: uint16(g.r.Bits(16))}
		}
		v := of.NewNXTVendorHeader(of.Type_TlvTableReply)
		v.VendorData = &of.TLVTableReply{MaxSpace: uint32(g.r.Bits(32)), MaxFields: uint16(g.r.Bits(16)), TlvMaps: maps}
		return v, "nxt-tlv-table-reply"
	default:
		m := &of.MultipartReply{Header: of.NewOfp13Header()}
		m.Header.Type = of.Type_MultiPartReply
		m.Flags = uint16(g.r.Intn(2))
		switch g.r.Intn(5) {
		case 3: // port / table / queue statistics records (known finding D13)
			switch g.r.Intn(3) {
			case 0:
				m.Type = of.MultipartType_Port
				p := of.NewPortStats()
				p.PortNo, p.RxPackets, p.TxPackets, p.RxBytes, p.TxBytes = uint16(g.r.Bits(16)), g.r.Bits(64), g.r.Bits(64), g.r.Bits(64), g.r.Bits(64)
				m.Body = []util.Message{p}
			case 1:
				m.Type = of.MultipartType_Table
				t := of.NewTableStats()
				t.TableId, t.Wildcards, t.MaxEntries, t.ActiveCount, t.LookupCount, t.MatchedCount = uint8(g.r.Bits(8)), uint32(g.r.Bits(32)), uint32(g.r.Bits(32)), uint32(g.r.Bits(32)), g.r.Bits(64), g.r.Bits(64)
				copy(t.Name, []byte("table"))
				m.Body = []util.Message{t}
			default:
				m.Type = of.MultipartType_Queue
				q := &of.QueueStats{PortNo: uint16(g.r.Bits(16)), QueueId: uint32(g.r.Bits(32)), TxBytes: g.r.Bits(64), TxPackets: g.r.Bits(64), TxErrors: g.r.Bits(64)}
				m.Body = []util.Message{q}
			}
			return m, "multipart-reply/port-table-queue"
		case 4:
			m.Type = of.MultipartType_Desc
			d := of.NewDescStats()
			m.Body = []util.Message{d}
			return m, "multipart-reply/desc"
		case 0:
			m.Type = of.MultipartType_Desc
			d := of.NewDescStats()
			copy(d.MfrDesc, g.r.Bytes(40))
			copy(d.HWDesc, g.r.Bytes(40))
			copy(d.SWDesc, g.r.Bytes(40))
			copy(d.SerialNum, g.r.Bytes(20))
			copy(d.DPDesc, g.r.Bytes(40))
			m.Body = []util.Message{d}
			return m, "multipart-reply/desc"
		case 1:
			m.Type = of.MultipartType_Aggregate
			a := of.NewAggregateStats()
			a.PacketCount, a.ByteCount, a.FlowCount = g.r.Bits(64), g.r.Bits(64), uint32(g.r.Bits(32))
			m.Body = []util.Message{a}
			return m, "multipart-reply/aggregate"
		default:
			m.Type = of.MultipartType_Flow
			for i, n := 0, g.r.Geom(2, 6); i < n; i++ {
				f := of.NewFlowStats()
				f.TableId, f.DurationSec, f.DurationNSec, f.Priority = uint8(g.r.Bits(8)), uint32(g.r.Bits(32)), uint32(g.r.Bits(32)), uint16(g.r.Bits(16))
				f.IdleTimeout, f.HardTimeout, f.Flags = uint16(g.r.Bits(16)), uint16(g.r.Bits(16)), uint16(g.r.Bits(16))
				f.Cookie, f.PacketCount, f.ByteCount = g.r.Bits(64), g.r.Bits(64), g.r.Bits(64)
				g.matchInto(&f.Match, 2, 8)
				for k, ni := 0, g.r.Geom(2, 4); k < ni; k++ {
					in, _ := g.instr()
					f.Instructions = append(f.Instructions, in)
				}
				f.Length = f.Len()
				m.Body = append(m.Body, f)
			}
			return m, "multipart-reply/flow"
		}
	}
}

func (g *G) phyPort() *of.PhyPort {
	p := of.NewPhyPort()
	p.PortNo = uint32(g.r.Bits(32))
	copy(p.HWAddr, g.r.Bytes(6))
	copy(p.Name, []byte(fmt.Sprintf("port%d", g.r.Intn(100000))))
	p.Config, p.State, p.Curr, p.Advertised = uint32(g.r.Bits(32)), uint32(g.r.Bits(32)), uint32(g.r.Bits(32)), uint32(g.r.Bits(32))
	p.Supported, p.Peer, p.CurrSpeed, p.MaxSpeed = uint32(g.r.Bits(32)), uint32(g.r.Bits(32)), uint32(g.r.Bits(32)), uint32(g.r.Bits(32))
	return p
}

var _ = net.IP{}
var _ = protocol.IPv4_MSG
var _ = common.Header{}

// anyMessage: controller-side (library recipe) or switch-side (library types)
func (g *G) anyMessage() (util.Message, string) {
	m, k, _ := g.anyMessageR()
	return m, k
}

// anyMessageR also returns the recipe of a controller-side message as a Gallina term
// "(xid, recipe)" ("" for switch-side messages, which have no recipe model)
func (g *G) anyMessageR() (util.Message, string, string) {
	if g.r.Intn(24) == 0 { // a bundle-add with experimenter properties (no recipe model: the properties are outside Model/Build.v)
		inner, _, ik, _ := g.message(1)
		ba := &of.BundleAdd{BundleID: uint32(g.r.Bits(32)), Flags: uint16(g.r.Intn(4)), Message: inner}
		for k := 1 + g.r.Intn(3); k > 0; k-- {
			p := of.NewBundlePropertyExperimenter()
			p.ExperimenterID, p.ExperimenterType = uint32(g.r.Bits(32)), uint32(g.r.Bits(32))
			if g.r.Bool() {
				p.Length = p.Len()
			}
			ba.Properties = append(ba.Properties, *p)
		}
		return of.NewBundleAdd(ba), "bundle-add+properties(" + ik + ")", ""
	}
	if g.r.Intn(2) == 0 {
		depth := 2
		if g.r.Intn(25) == 0 {
			depth = 4 // bundles in bundles, conntrack actions in conntrack actions
		}
		if g.r.Intn(30) == 0 {
			g.r.boost = 64 // one list of this message has more than 255 elements
		}
		m, t, k, xid := g.message(depth)
		g.r.boost = 0
		return m, k, fmt.Sprintf("%d %s", xid, t)
	}
	m, k := g.switchMessage()
	return m, k, ""
}

func marshalSafe(m util.Message) (b []byte, ok bool) {
	defer func() {
		if r := recover(); r != nil {
			ok = false
		}
	}()
	b, err := m.MarshalBinary()
	return b, err == nil
}

func runC05(seed uint64, tier, dir, replay string) error {
	o := NewOut(dir, "C05", 16, "From LOF Require Import Corr.Dec.", "check05")
	o.hyp = "thm_hyp05"
	rng := NewRng(seed)
	g := NewG(rng)
	g.exact = true
	pool := &WorkerPool{}
	defer pool.Close()
	n := 900
	if tier == "thorough" {
		n = 25000
	}
	for i := 0; i < n; i++ {
		m, kind, recipe := g.anyMessageR()
		b, ok := marshalSafe(m)
		if !ok || len(b) > 65535 {
			o.Add(fmt.Sprintf("(Par %s 9 %s 0 0 0)", packBytes(nil), packBytes(nil)), map[string]interface{}{"kind": "msg:" + kind, "encode_failed": true}, "msg:"+kind, "encode-failed")
			continue
		}
		want := canonHash(m)
		r := pool.Run("parse", b)
		same := 0
		if r.chash == want {
			same = 1
		}
		js := map[string]interface{}{"kind": "msg:" + kind, "bytes": hexs(b), "outcome": r.outcome, "reencoded": hexs(r.re), "fields_equal": same == 1, "detail": r.extra}
		if same == 0 && r.outcome == 0 {
			js["fields_before"] = canonString(m)
		}
		term := fmt.Sprintf("(Par %s %d %s %d 1 %d)", packBytes(b), r.outcome, packBytes(r.re), max0(r.lenv), same)
		if recipe != "" { // the recipe rides along: the general theorem's hypothesis is evaluated on it
			term = fmt.Sprintf("(ParM %s %s %d %s %d 1 %d)", recipe, packBytes(b), r.outcome, packBytes(r.re), max0(r.lenv), same)
			js["recipe"] = recipe
		}
		o.Add(term, js, "msg:"+kind, fmt.Sprintf("%d/%d", len(b)/64, r.outcome))
	}
	o.Meta["rule"] = "random values of every kind Parse dispatches on (controller-side: API recipes of hello, echo, features/get-config/barrier requests, set-config, flow-mod with every action/instruction/match-field kind, group-mod, packet-out, port-mod, multipart requests, NXT and bundle messages incl. nesting; switch-side: flow-removed, packet-in with Ethernet payloads, port-status, features reply, error, experimenter error, get-config reply, multipart replies desc/aggregate/flow with instructions, tlv-table reply) encoded, parsed through the entry point, re-encoded; canonical field dump before/after; every nested element kind sits at random positions of mixed lists; distinct by kind x size bucket x outcome"
	return o.Close()
}

func runC07(seed uint64, tier, dir, replay string) error {
	o := NewOut(dir, "C07", 16, "From LOF Require Import Corr.Dec.", "check07")
	rng := NewRng(seed)
	g := NewG(rng)
	pool := &WorkerPool{}
	defer pool.Close()
	nbase := 60
	per := 14
	if tier == "thorough" {
		nbase, per = 900, 30
	}
	var direct []map[string]interface{}
	outcomes := map[string]int{}
	modelToo := true
	goOnly := 0
	add := func(kind, ik string, in []byte) {
		r := pool.Run("parse", in)
		oc := []string{"message", "error", "panic", "hang", "memory", "neither"}[r.outcome]
		outcomes[oc]++
		js := map[string]interface{}{"kind": "parse:" + kind, "input_kind": ik, "input": hexs(in), "outcome": oc, "detail": r.extra}
		term := fmt.Sprintf("(Par %s %d %s %d 0 0)", packBytes(in), r.outcome, packBytes(nil), max0(r.lenv))
		if !modelToo {
			term = fmt.Sprintf("(GoOnly %d)", r.outcome)
			js["model_evaluated"] = false
			goOnly++
		}
		idx := o.Add(term, js, "parse:"+kind, fmt.Sprintf("%s/%s/%d", ik, oc, len(in)/32))
		if r.outcome >= 2 && len(direct) < 40 {
			direct = append(direct, map[string]interface{}{"what": fmt.Sprintf("Parse: %s on %d bytes of a %s frame (%s)", oc, len(in), kind, r.extra), "index": idx, "case": js})
		}
		// the same frame as the stream hands it over - with spare capacity behind its length; the
		// model (exact-capacity slices) makes no claim there, the property's oracle applies
		if ik != "giant" && ik != "type-sweep" {
			rs := pool.Run("parsespare", in)
			ocs := []string{"message", "error", "panic", "hang", "memory", "neither"}[rs.outcome]
			outcomes["spare:"+ocs]++
			if rs.outcome >= 2 {
				jss := map[string]interface{}{"kind": "parse-spare:" + kind, "input_kind": ik, "input": hexs(in), "outcome": ocs, "detail": rs.extra, "model_evaluated": false}
				i2 := o.Add(fmt.Sprintf("(GoOnly %d)", rs.outcome), jss, "parse-spare:"+kind, fmt.Sprintf("%s/%s", ik, ocs))
				goOnly++
				if len(direct) < 40 {
					direct = append(direct, map[string]interface{}{"what": fmt.Sprintf("Parse on a buffer with spare capacity: %s on %d bytes of a %s frame (%s)", ocs, len(in), kind, rs.extra), "index": i2, "case": jss})
				}
			}
		}
	}
	// every message type byte on a minimal and on a longer frame
	for t := 0; t < 256; t++ {
		for _, n := range []int{8, 64} {
			b := make([]byte, n)
			copy(b, rng.Bytes(n))
			b[0], b[1], b[2], b[3] = 4, byte(t), byte(n>>8), byte(n)
			add("type-sweep", "type-sweep", b)
		}
	}
	for _, n := range []int{0, 1, 2, 3, 4, 5, 6, 7} {
		add("short", "short", rng.Bytes(n))
	}
	// every multipart type (0..16 and experimenter) as request and reply, with bodies of several sizes
	for _, ty := range []byte{18, 19} {
		for mt := 0; mt <= 17; mt++ {
			m := mt
			if mt == 17 {
				m = 0xffff
			}
			for _, bl := range []int{0, 4, 8, 24, 64, 200} {
				b := make([]byte, 16+bl)
				copy(b[16:], rng.Bytes(bl))
				if bl >= 24 && rng.Bool() { // a plausible record length in front
					b[16], b[17] = byte(bl>>8), byte(bl)
				}
				b[0], b[1], b[2], b[3] = 4, ty, byte(len(b)>>8), byte(len(b))
				b[8], b[9] = byte(m>>8), byte(m)
				add("multipart-type-sweep", "multipart-type-sweep", b)
			}
		}
	}
	for i := 0; i < nbase; i++ {
		m, kind := g.anyMessage()
		b, ok := marshalSafe(m)
		if !ok || len(b) < 8 {
			continue
		}
		add(kind, "valid", b)
		if len(b) > 4096 { // a long-list message: the model's cost is quadratic in the frame size, so only a few variants
			for k := 0; k < 6; k++ {
				add(kind, "truncation", b[:rng.Intn(len(b))])
			}
			for k := 0; k < 6; k++ {
				add(kind, "mutated", g.mutate(b))
			}
			continue
		}
		// truncation at every offset (short frames) or sampled
		step := 1
		if len(b) > 160 {
			step = len(b) / 120
		}
		for k := 0; k < len(b); k += step {
			add(kind, "truncation", b[:k])
		}
		// every 16-bit aligned length-like position set to 0, 1, max, off-by-one: sampled positions in the first 96 bytes
		for k := 0; k < per; k++ {
			c := append([]byte{}, b...)
			pos := rng.Intn(min(len(c)-1, 96))
			switch rng.Intn(5) {
			case 0:
				c[pos], c[pos+1] = 0, 0
			case 1:
				c[pos], c[pos+1] = 0, 1
			case 2:
				c[pos], c[pos+1] = 0xff, 0xff
			case 3:
				v := int(c[pos])<<8 | int(c[pos+1])
				v += []int{-1, 1, -8, 8}[rng.Intn(4)]
				c[pos], c[pos+1] = byte(v>>8), byte(v)
			case 4:
				c[pos] = byte(rng.U64())
			}
			add(kind, "field-corruption", c)
		}
		for k := 0; k < 3; k++ {
			add(kind, "mutated", g.mutate(b))
		}
	}
	// every 16-bit position of whole frames set to 0 and to 0xffff
	nsweep, maxoff := 24, 260
	if tier == "thorough" {
		nsweep, maxoff = 400, 2000
	}
	for i := 0; i < nsweep; i++ {
		m, kind := g.anyMessage()
		b, ok := marshalSafe(m)
		if !ok || len(b) < 8 || len(b) > 4096 {
			continue
		}
		for _, c := range wordSweep(b, 0, maxoff, rng) {
			add(kind, "word-zeroed", c)
		}
		for _, c := range wordSweep(b, 0xffff, maxoff/2, rng) {
			add(kind, "word-maxed", c)
		}
	}
	// one frame of every controller-side message kind, whatever the seed: every 16-bit position set
	// to 0, 8 and 0xffff (the length field of every element of every kind is among them)
	for k := 0; k < 17; k++ {
		g.forceKind = k
		m, _, kind, _ := g.message(2)
		g.forceKind = -1
		b, ok := marshalSafe(m)
		if !ok || len(b) < 8 || len(b) > 1500 {
			continue
		}
		for _, v := range []uint16{0, 8, 0xffff} {
			for _, c := range wordSweep(b, v, 160, rng) {
				add(kind, "kind-word-sweep", c)
			}
		}
	}
	// nested containers: a conntrack action around one or two actions of every kind, inside a
	// packet-out; every 16-bit position of the frame set to 0, 8 and 0xffff (the nested
	// action's own length field is among them)
	nnest := 36
	if tier == "thorough" {
		nnest = 600
	}
	for i := 0; i < nnest; i++ {
		ct := of.NewNXActionConnTrack()
		for k := 0; k <= i%2; k++ {
			a, _ := g.action(0)
			ct.AddAction(a)
		}
		g.flushLate()
		po := of.NewPacketOut()
		po.AddAction(ct)
		b, ok := marshalSafe(po)
		if !ok || len(b) < 8 || len(b) > 400 {
			continue
		}
		for _, v := range []uint16{0, 8, 0xffff} {
			for _, c := range wordSweep(b, v, 200, rng) {
				add("packet-out/ct-nested", "nested-word-sweep", c)
			}
		}
	}
	// list decoders at the 64 KiB limit; extreme IPv6 extension-header lengths in packet-ins
	// (the model's loops re-slice from the start of the frame, which costs it a minute per
	// 64 KiB frame: at the quick tier only the description-statistics frames go through the
	// model, the others are judged on the implementation's outcome alone)
	for i, nb := range giantFrames(tier == "thorough") {
		modelToo = tier == "thorough" || i < 1
		add(nb.kind, "giant", nb.b)
	}
	// nesting as deep as a frame allows
	for _, nb := range deepFrames(tier == "thorough") {
		modelToo = len(nb.b) < 4000 // the model re-slices at every level: beyond, the frame is judged on the implementation's outcome alone
		add(nb.kind, "deep", nb.b)
	}
	modelToo = true
	o.Meta["implementation_only_cases"] = goOnly
	for _, nb := range v6Extremes(tier == "thorough") {
		add(nb.kind, "v6-extreme", packetIn(nb.b))
	}
	if len(direct) > 0 {
		o.Meta["direct_violations"] = direct
	}
	o.Meta["outcomes"] = outcomes
	o.Meta["rule"] = "the parser entry point on: all 256 message-type bytes on 8- and 64-byte frames; inputs of 0..7 bytes; multipart requests and replies of every multipart type 0..16 and experimenter with bodies of 0..200 bytes; for random valid frames of every kind (see C05) the frame itself, its truncation at every offset (sampled above 160 bytes), 16-bit positions in the first 96 bytes set to 0 / 1 / 0xffff / +-1 / +-8 / a random byte, and structure-blind mutations; every 16-bit position at an even offset of whole frames set to 0 and to 0xffff (sampled above 260 positions); one frame of every controller-side message kind with every 16-bit position set to 0, 8 and 0xffff; packet-outs carrying a conntrack action around one or two nested actions of every kind, every 16-bit position set to 0, 8 and 0xffff; frames at the 64 KiB limit for every list decoder (multipart records of each type with the length field at 65535 and buffers of 65535 and 65600 bytes, instructions, actions, match fields, buckets, hello elements, ports, tlv maps, a nested bundle; tlv maps also pairwise different); conntrack actions nested 12..400 deep (thorough: up to 2700) and bundle-adds nested as deep; packet-ins whose IPv6 extension headers carry Hdr Ext Len 0/1/31/254/255 on packets long enough to hold them; every frame (except the 64 KiB ones) is parsed a second time from a buffer with 96 bytes of spare capacity holding other data, as the stream's pooled buffers have (oracle only; recorded when it fails); each parse runs in a worker subprocess under a 3 s wall-clock limit, a 1 GiB heap limit and an allocation budget of 512 bytes per input byte + 256 KiB and a processor-time budget of 30 us per input byte + 0.4 s (ten times what the slowest legitimate decode needs); distinct by kind x input kind x outcome x size bucket"
	return o.Close()
}

func max0(x int) int {
	if x < 0 {
		return 0
	}
	return x
}

func init() {
	props["dbgparse"] = func(seed uint64, tier, dir, replay string) error {
		b, _ := hexDecode(replay)
		m, err := of.Parse(b)
		fmt.Println("err:", err)
		if m != nil {
			fmt.Println(canonString(m))
		}
		return nil
	}
}
