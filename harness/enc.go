package main

// Encode-side harness shared by C01, C02, C03, C06, C13: build a value through the API,
// run Len()/MarshalBinary() on it, record every result and the stand-alone encodings of
// its direct children.

import (
	"fmt"
	"reflect"
	"unsafe"

	"github.com/contiv/libOpenflow/common"
	of "github.com/contiv/libOpenflow/openflow13"
	"github.com/contiv/libOpenflow/protocol"
	"github.com/contiv/libOpenflow/util"
)

func init() {
	for _, p := range []string{"C01", "C02", "C03", "C06", "C13"} {
		p := p
		props[p] = func(seed uint64, tier, dir, replay string) error { return runEnc(p, seed, tier, dir) }
	}
}

// unexported field access (read-only) for children enumeration
func fieldOf(v interface{}, name string) reflect.Value {
	rv := reflect.ValueOf(v).Elem()
	f := rv.FieldByName(name)
	return reflect.NewAt(f.Type(), unsafe.Pointer(f.UnsafeAddr())).Elem()
}

// children returns the direct children of a container and the size of its own header
func children(v util.Message) (hs int, kids []util.Message, ok bool) {
	switch x := v.(type) {
	case *of.FlowMod:
		m := x.Match
		kids = append(kids, &m)
		for _, i := range x.Instructions {
			kids = append(kids, i)
		}
		return 48, kids, true
	case *of.GroupMod:
		for i := range x.Buckets {
			kids = append(kids, &x.Buckets[i])
		}
		return 16, kids, true
	case *of.PacketOut:
		for _, a := range x.Actions {
			kids = append(kids, a)
		}
		if x.Data != nil {
			kids = append(kids, x.Data)
		}
		return 24, kids, true
	case *of.InstrActions:
		for _, a := range x.Actions {
			kids = append(kids, a)
		}
		return 8, kids, true
	case *of.Bucket:
		for _, a := range x.Actions {
			kids = append(kids, a)
		}
		return 16, kids, true
	case *of.Match:
		for i := range x.Fields {
			kids = append(kids, &x.Fields[i])
		}
		return 4, kids, true
	case *of.MatchField:
		kids = append(kids, x.Value)
		if x.HasMask && x.Mask != nil {
			kids = append(kids, x.Mask)
		}
		return 4, kids, true
	case *of.ActionSetField:
		f := x.Field
		return 4, []util.Message{&f}, true
	case *of.NXActionRegLoad2:
		return 10, []util.Message{x.DstField}, true
	case *of.NXActionConnTrack:
		acts := fieldOf(x, "actions").Interface().([]of.Action)
		for _, a := range acts {
			kids = append(kids, a)
		}
		return 24, kids, true
	case *of.NXActionLearn:
		for _, s := range x.LearnSpecs {
			kids = append(kids, s)
		}
		return 32, kids, true
	case *of.MultipartRequest:
		if x.Body != nil {
			kids = append(kids, x.Body)
		}
		return 16, kids, true
	case *of.VendorHeader:
		if x.VendorData != nil {
			kids = append(kids, x.VendorData)
		}
		return 16, kids, true
	case *common.Hello:
		for _, e := range x.Elements {
			kids = append(kids, e)
		}
		return 8, kids, true
	case *protocol.Ethernet:
		// header, then the payload - itself taken apart down to its own headers and children, each
		// child in its stand-alone encoding (a container of containers: frame > IPv6 > extension
		// headers > options)
		hs = len(x.HWDst) + len(x.HWSrc) + 2
		if x.VLANID.VID != 0 || x.VLANID.PCP != 0 || x.VLANID.DEI != 0 {
			hs += 4
		}
		if x.Data != nil {
			kids = pktPieces(x.Data)
		}
		return hs, kids, true
	}
	return 0, nil, false
}

// ownHeader: the first n bytes of the stand-alone encoding of m (its header, as it writes it itself)
func ownHeader(m util.Message, n int) util.Message {
	var b []byte
	func() {
		defer func() { recover() }()
		b, _ = m.MarshalBinary()
	}()
	if len(b) > n {
		b = b[:n]
	}
	return util.NewBuffer(append([]byte{}, b...))
}

// pktPieces: a packet header value as the sequence own header, children (in the order of the next-header
// chain), payload; anything that is not a container of values is one piece
func pktPieces(m util.Message) []util.Message {
	switch x := m.(type) {
	case *protocol.IPv6:
		if x == nil || x.Data == nil {
			return []util.Message{m}
		}
		ps := []util.Message{ownHeader(x, 40)}
		nxt := x.NextHeader
		for k := 0; k < 3; k++ {
			switch {
			case nxt == protocol.Type_HBH && x.HbhHeader != nil:
				ps = append(ps, ownHeader(x.HbhHeader, 2))
				for _, o := range x.HbhHeader.Options {
					ps = append(ps, o)
				}
				nxt = x.HbhHeader.NextHeader
			case nxt == protocol.Type_Routing && x.RoutingHeader != nil:
				ps = append(ps, x.RoutingHeader)
				nxt = x.RoutingHeader.NextHeader
			case nxt == protocol.Type_Fragment && x.FragmentHeader != nil:
				ps = append(ps, x.FragmentHeader)
				nxt = x.FragmentHeader.NextHeader
			default:
				k = 3
			}
		}
		return append(ps, x.Data)
	}
	return []util.Message{m}
}

type obsT struct {
	isBytes bool
	outcome int
	n       uint16
	b       []byte
}

func runOps(v util.Message, ops []int) []obsT {
	res := make([]obsT, 0, len(ops))
	for _, op := range ops {
		o := obsT{isBytes: op == 1}
		func() {
			defer func() {
				if r := recover(); r != nil {
					o.outcome = 2
				}
			}()
			if op == 0 {
				o.n = v.Len()
			} else {
				b, err := v.MarshalBinary()
				if err != nil {
					o.outcome = 1
				}
				o.b = append([]byte{}, b...)
			}
		}()
		res = append(res, o)
	}
	return res
}

func obsTerm(res []obsT) string {
	ts := make([]string, len(res))
	for i, o := range res {
		if o.isBytes {
			ts[i] = fmt.Sprintf("(OBytes %d %s)", o.outcome, packBytes(o.b))
		} else {
			ts[i] = fmt.Sprintf("(OLen %d %d)", o.outcome, o.n)
		}
	}
	return listT(ts)
}

func obsJSON(res []obsT) []interface{} {
	js := make([]interface{}, len(res))
	for i, o := range res {
		if o.isBytes {
			js[i] = map[string]interface{}{"op": "MarshalBinary", "outcome": o.outcome, "bytes": hexs(o.b)}
		} else {
			js[i] = map[string]interface{}{"op": "Len", "outcome": o.outcome, "len": o.n}
		}
	}
	return js
}

func runEnc(prop string, seed uint64, tier, dir string) error {
	runner := map[string]string{"C01": "check01", "C02": "check02", "C03": "check03", "C06": "check06", "C13": "check13"}[prop]
	o := NewOut(dir, prop, 16, "From LOF Require Import Corr.Enc.", runner)
	if prop == "C02" || prop == "C03" {
		o.hyp = "thm_hyp"
	}
	rng := NewRng(seed)
	g := NewG(rng)
	n := 1200
	if tier == "thorough" {
		n = 30000
	}
	kindTotals := map[string]int{}
	for i := 0; i < n; i++ {
		g.kinds = map[string]int{}
		var pktFirst []byte
		var v util.Message
		var term, kind string
		which := rng.Intn(10)
		if prop == "C01" {
			which = 0
		}
		if (prop == "C13" && rng.Intn(5) == 0) || (prop == "C06" && rng.Intn(6) == 0) {
			which = 99 // a packet of package protocol
		}
		if (prop == "C13" || prop == "C06") && rng.Intn(8) == 0 {
			which = 98 // a value of a record kind of package protocol (IGMP, DHCP, LLDP, 802.1Q tag, IPv6 option)
		}
		if which < 5 && rng.Intn(12) == 0 {
			which = 97 // a hello whose element list was assigned by hand
		}
		switch {
		case which == 97:
			h, t, xid := g.helloElems()
			v, term, kind = h, fmt.Sprintf("(EHello %d %s)", xid, t), "msg:hello/elements"
		case which == 98:
			ks := recKinds
			if prop == "C06" { // the TLVs have no Len method
				ks = []string{"vlan", "option", "igmp12", "igmp3q", "igmp3gr", "igmp3r", "dhcp", "lldp"}
			}
			k := ks[rng.Intn(len(ks))]
			m, t := g.recValue(k)
			v, term, kind = m, "(ERec "+t+")", "record:"+k
		case which == 99:
			e, k := g.ethernet()
			var first []byte
			func() { // a panic of the first encoding is recorded as an empty first encoding (the replay disagrees)
				defer func() { recover() }()
				first, _ = e.MarshalBinary()
			}()
			pktFirst = first
			v, term, kind = e, "(EPkt "+bterm(first)+")", "packet:"+k
		case which < 5:
			depth := 2
			if rng.Intn(25) == 0 {
				depth = 4 // bundles in bundles, conntrack actions in conntrack actions
			}
			if rng.Intn(30) == 0 {
				rng.boost = 64 // one list of this message has more than 255 elements
			}
			if i < 34 { // and every message kind twice with a long list, whatever the seed
				g.forceKind = i % 17
				rng.boost = 64
			}
			m, t, k, xid := g.message(depth)
			rng.boost = 0
			v, term, kind = m, fmt.Sprintf("(EMsg %d %s)", xid, t), "msg:"+k
			if prop == "C13" && (rng.Intn(4) == 0 || (i >= 17 && i < 34)) {
				// the same operations on the value obtained by DECODING the message
				if b, ok := marshalSafe(m); ok && len(b) < 65536 {
					if d, err := of.Parse(b); err == nil && d != nil {
						v, term, kind = d, fmt.Sprintf("(EDec %d %s)", xid, t), "decoded:"+k
					}
				}
			}
		case which < 7 && rng.Intn(8) == 0:
			a, t := g.deepCT(3+rng.Intn(4), rng.Bool())
			v, term, kind = a, "(EAct "+t+")", "element:action/deep-conntrack"
		case which < 7:
			a, t := g.action(2)
			if len(g.late) > 0 && rng.Bool() {
				// sized and encoded once while still incomplete: it must not remember anything of that
				func() {
					defer func() { recover() }()
					a.Len()
					a.MarshalBinary()
				}()
				g.use("history:encoded-before-complete")
			}
			g.flushLate()
			v, term, kind = a, "(EAct "+t+")", "element:action"
		case which == 7:
			f, t := g.mf()
			v, term, kind = f, "(EMf "+t+")", "element:match-field"
		case which == 8:
			in, t := g.instr()
			v, term, kind = in, "(EInstr "+t+")", "element:instruction"
		default:
			if rng.Bool() {
				b, t := g.bucket()
				v, term, kind = b, "(EBucket "+t+")", "element:bucket"
			} else {
				m := of.NewMatch()
				t := g.matchInto(m, 3, 10)
				v, term, kind = m, "(EMatch "+t+")", "element:match"
			}
		}
		ops := []int{0, 1, 0}
		if prop == "C13" {
			ops = make([]int, 2+rng.Intn(7))
			for k := range ops {
				ops[k] = rng.Intn(2)
			}
		}
		// children encodings are taken from a second, identical... no: from the same value,
		// after the operations (sizing/encoding a child must not disturb it: C13)
		res := runOps(v, ops)
		if ep, ok := v.(*protocol.Ethernet); ok && ep != nil && pktFirst != nil {
			res = append([]obsT{{isBytes: true, b: pktFirst}}, res...)
			ops = append([]int{1}, ops...)
		}
		hs, kids, isCont := children(v)
		kidTerms := []string{}
		var kidHex []string
		if isCont && prop == "C06" {
			for _, k := range kids {
				var kb []byte
				func() {
					defer func() { recover() }()
					kb, _ = k.MarshalBinary()
				}()
				kidTerms = append(kidTerms, packBytes(kb))
				kidHex = append(kidHex, hexs(kb))
			}
		} else {
			hs = 0
			// not a container (or not C06): the whole encoding is "header"; checked with h = |bytes|
			for _, r := range res {
				if r.isBytes {
					hs = len(r.b)
					break
				}
			}
		}
		shape := kind
		for k := range g.kinds {
			kindTotals[k] += g.kinds[k]
		}
		ks := make([]string, 0, len(g.kinds))
		for k := range g.kinds {
			ks = append(ks, k)
		}
		js := map[string]interface{}{"kind": kind, "recipe": term, "ops": ops, "results": obsJSON(res), "header_size": hs, "children": kidHex}
		for _, r := range res {
			if r.outcome == 2 {
				js["panic"] = true
			}
		}
		shape = fmt.Sprintf("%s/%d/%v", kind, len(ks), len(term)/40)
		o.Add(fmt.Sprintf("(Enc %s %s %d %s)", term, obsTerm(res), hs, listT(kidTerms)), js, kind, shape)
	}
	o.Meta["element_kinds_used"] = kindTotals
	o.Meta["rule"] = "random recipes of API calls (constructors, setter calls, field assignments, adders incl. prepend) for every controller-originated message kind; for C13 also the values obtained by parsing the encodings of built messages; for C06 / C13 also Ethernet frames (for C06 taken apart into frame header, IPv6 header, extension headers in next-header order, options and payload, each in its stand-alone encoding) and values of the record kinds of package protocol (IGMP v1-v3, DHCP with options, LLDP, 802.1Q tag, IPv6 option); (flow-mod with all commands 0..255, group-mod, packet-out, port-mod, multipart requests, NXT vendor messages, bundle control, bundle add nesting depth <= 2) and stand-alone elements (all action kinds incl. conntrack nesting, match fields through every constructor, instructions, buckets, matches); boundary-biased field values, geometric list sizes; a case is distinct by kind x number of element kinds used x recipe size bucket"
	return o.Close()
}
