package main

// C12: a parsed message owns its memory.
//
// (a) direct: every generated frame is parsed from a buffer that is then overwritten (by the
//     complement of every byte, then by noise); the canonical dump of every field (pads and
//     private fields included) and the re-encoding must not move (worker mode "scribble").
// (b) histories: the real util.MessageStream over a scripted connection with the real parser;
//     more frames than the pool has buffers, so every buffer is recycled several times while
//     the earlier messages are still held; afterwards every delivered message must still
//     encode to what a private parse of its own frame encodes to.
// The re-encoding observed after the overwrite is also what the model (a pure function of the
// original bytes) computes: Corr.Dec.check12.

import (
	"bytes"
	"encoding/binary"
	"strings"
	"fmt"
	"time"

	of "github.com/contiv/libOpenflow/openflow13"
	"github.com/contiv/libOpenflow/util"
)

func init() { props["C12"] = runC12 }

func (g *G) ownFrame() ([]byte, string, bool) {
	var m util.Message
	var kind string
	switch g.r.Intn(10) {
	case 0, 1, 2: // packet-in with a layered packet
		p := of.NewPacketIn()
		p.BufferId, p.TotalLen, p.Reason, p.TableId, p.Cookie = uint32(g.r.Bits(32)), uint16(g.r.Bits(16)), uint8(g.r.Intn(3)), uint8(g.r.Bits(8)), g.r.Bits(64)
		g.matchInto(&p.Match, 3, 10)
		e, k := g.ethernet()
		p.Data = *e
		p.Header.Length = p.Len()
		m, kind = p, "packet-in/"+k
	default:
		m, kind = g.anyMessage()
	}
	b, ok := marshalSafe(m)
	if !ok || len(b) > 65535 || len(b) < 8 {
		return nil, kind, false
	}
	if strings.HasPrefix(kind, "bundle-add") && g.r.Bool() {
		// experimenter properties behind the bundled message (their payload is a private
		// field, so they are appended on the wire)
		for i, n := 0, 1+g.r.Intn(3); i < n && len(b) < 60000; i++ {
			k := g.r.Geom(6, 40)
			p := make([]byte, 12, 12+k)
			binary.BigEndian.PutUint16(p[0:], 0xffff)
			binary.BigEndian.PutUint16(p[2:], uint16(12+k))
			binary.BigEndian.PutUint32(p[4:], uint32(g.r.Bits(32)))
			binary.BigEndian.PutUint32(p[8:], uint32(g.r.Bits(32)))
			b = append(b, append(p, g.r.Bytes(k)...)...)
		}
		binary.BigEndian.PutUint16(b[2:], uint16(len(b)))
		kind += "+properties"
	}
	return b, kind, true
}

func runC12(seed uint64, tier, dir, replay string) error {
	o := NewOut(dir, "C12", 16, "From LOF Require Import Corr.Dec.", "check12")
	rng := NewRng(seed)
	g := NewG(rng)
	g.exact = true
	pool := &WorkerPool{}
	defer pool.Close()
	n, hist := 700, 6
	if tier == "thorough" {
		n, hist = 20000, 80
	}
	var direct []map[string]interface{}
	emit := func(b []byte, kind, how string, oc int, re []byte, lenv, dumpEq, encEq int, detail string) {
		js := map[string]interface{}{"kind": "own:" + kind, "how": how, "bytes": hexs(b), "outcome": oc, "encoding_after_overwrite": hexs(re),
			"fields_unchanged": dumpEq == 1, "encoding_unchanged": encEq == 1, "detail": detail}
		idx := o.Add(fmt.Sprintf("(Own %s %d %s %d %d %d)", packBytes(b), oc, packBytes(re), max0(lenv), dumpEq, encEq), js, "own:"+kind, fmt.Sprintf("%s/%d/%d", how, len(b)/64, oc))
		if oc == 0 && (dumpEq == 0 || encEq == 0) && len(direct) < 40 {
			direct = append(direct, map[string]interface{}{"what": fmt.Sprintf("a parsed %s message changed when its input buffer was overwritten (%s, %s)", kind, how, detail), "index": idx, "case": js})
		}
	}
	for i := 0; i < n; i++ {
		b, kind, ok := g.ownFrame()
		if !ok {
			continue
		}
		r := pool.Run("scribble", b)
		var de, ee int
		fmt.Sscanf(r.chash, "%d/%d", &de, &ee)
		emit(b, kind, "direct", r.outcome, r.re, r.lenv, de, ee, r.extra)
	}
	// histories through the stream
	recycled := 0
	for h := 0; h < hist; h++ {
		nf := 60 + rng.Intn(120)
		var frames [][]byte
		var kinds []string
		var stream []byte
		for len(frames) < nf {
			b, kind, ok := g.ownFrame()
			if !ok || len(b) > 1800 {
				continue
			}
			if m, err := of.Parse(append([]byte{}, b...)); err != nil || m == nil {
				continue // only frames the parser accepts are delivered
			}
			frames = append(frames, b)
			kinds = append(kinds, kind)
			stream = append(stream, b...)
		}
		conn := &scriptConn{chunks: split(rng, append([]byte{}, stream...), 1+rng.Intn(3)), closed: make(chan struct{})}
		ms := util.NewMessageStream(conn, ofParser{})
		var got []util.Message
		timeout := time.After(20 * time.Second)
	loop:
		for len(got) < nf {
			select {
			case m := <-ms.Inbound:
				got = append(got, m)
			case <-ms.Error:
				break loop
			case <-timeout:
				break loop
			}
		}
		ms.Shutdown <- true
		conn.Close()
		if len(got) != nf {
			o.Meta["history_incomplete"] = fmt.Sprintf("history %d delivered %d of %d frames", h, len(got), nf)
			continue // delivery is C10's subject
		}
		recycled += nf
		// several parser goroutines: delivery order is not frame order; pair every message
		// with a frame whose private parse dumps the same, the leftovers with each other
		canonAll = true
		refs := map[string][]int{}
		for i := range frames {
			ref, _ := of.Parse(append([]byte{}, frames[i]...))
			d := canonString(ref)
			refs[d] = append(refs[d], i)
		}
		pair := make([]int, len(got))
		used := make([]bool, nf)
		var loose []int
		for j, m := range got {
			d := canonString(m)
			if l := refs[d]; len(l) > 0 {
				pair[j], refs[d] = l[0], l[1:]
				used[l[0]] = true
			} else {
				pair[j] = -1
				loose = append(loose, j)
			}
		}
		for _, j := range loose {
			for i := range used {
				if !used[i] {
					used[i], pair[j] = true, i
					break
				}
			}
		}
		for j, m := range got {
			i := pair[j]
			ref, _ := of.Parse(append([]byte{}, frames[i]...))
			de, ee := 1, 1
			if canonString(m) != canonString(ref) {
				de = 0
			}
			if m == nil || isNilMsg(m) { // the parser was given something else than the frame
				canonAll = false
				emit(frames[i], kinds[i], "stream", 0, nil, 0, 0, 0, fmt.Sprintf("history %d, message %d of %d: a nil message was delivered", h, j, nf))
				canonAll = true
				continue
			}
			re, ok1 := marshalSafe(m)
			rr, ok2 := marshalSafe(ref)
			if ok1 != ok2 || !bytes.Equal(re, rr) {
				ee = 0
			}
			lenv := 0
			func() { defer func() { recover() }(); lenv = int(m.Len()) }()
			if de == 0 || ee == 0 || j%16 == 0 {
				canonAll = false
				emit(frames[i], kinds[i], "stream", 0, re, lenv, de, ee, fmt.Sprintf("history %d, message %d of %d", h, j, nf))
				canonAll = true
			}
		}
		canonAll = false
	}
	if len(direct) > 0 {
		o.Meta["direct_violations"] = direct
	}
	o.Meta["stream_messages_checked"] = recycled
	o.Meta["rule"] = "frames of every kind the parser accepts (see C05; packet-in frames with layered Ethernet/VLAN/IPv4/IPv6/ARP/ICMP/UDP payloads weighted up; vendor and bundle messages with nested messages): parsed from a slice inside a larger buffer, every byte of the buffer complemented and then overwritten with noise, all fields (private and pad fields included) dumped before and after, re-encoding compared with that of an undisturbed parse; histories: 60-180 frames through the real MessageStream with the real parser (the pool has 50 buffers, so each is recycled while earlier messages are held), every delivered message compared with a private parse of its frame after the whole history; distinct by kind x size bucket x path"
	return o.Close()
}
