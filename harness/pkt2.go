package main

// Well-formed values of the packet kinds that are not reached from the Ethernet decoder
// (IGMP, DHCP, LLDP TLVs, stand-alone 802.1Q tag and IPv6 option): the Go value, its term
// for the model (constructors of Corr/Pkt.v's prec), and a util.Message view of the
// Read/Write kinds so that the worker can re-encode what it decoded.

import (
	"fmt"
	"net"
	"strings"

	"github.com/contiv/libOpenflow/protocol"
	"github.com/contiv/libOpenflow/util"
)

// rwMsg presents a Read/Len value (DHCP, LLDP and its TLVs) as a util.Message
type reader interface {
	Read(b []byte) (int, error)
}
type rwMsg struct {
	inner reader
	size  func() uint16
}

func (m *rwMsg) Len() uint16 {
	if m.size != nil {
		return m.size()
	}
	return 0
}
func (m *rwMsg) MarshalBinary() ([]byte, error) {
	b := make([]byte, 70000)
	n, err := m.inner.Read(b)
	if err != nil {
		return nil, err
	}
	return b[:n], nil
}
func (m *rwMsg) UnmarshalBinary(b []byte) error { return nil }

func wrapRW(v interface{}) util.Message {
	switch x := v.(type) {
	case *protocol.DHCP:
		return &rwMsg{inner: x, size: x.Len}
	case *protocol.LLDP:
		return &rwMsg{inner: x, size: x.Len}
	case *protocol.ChassisTLV:
		return &rwMsg{inner: x}
	case *protocol.PortTLV:
		return &rwMsg{inner: x}
	case *protocol.TTLTLV:
		return &rwMsg{inner: x}
	}
	return nil
}

// canonOf: the value whose fields are compared (the inner value of a wrapper)
func canonOf(m util.Message) interface{} {
	if w, ok := m.(*rwMsg); ok {
		return w.inner
	}
	return m
}

var recKinds = []string{"vlan", "option", "igmp12", "igmp3q", "igmp3gr", "igmp3r", "dhcp", "lldp", "lldpchassis", "lldpport", "lldpttl"}

// ipForm: an IPv4 address in its 4-byte or, one time in three, its 16-byte (IPv4-mapped) form;
// the encoders go through To4, the decoders give the 4-byte form back
func (g *G) ipForm(b []byte) net.IP {
	if g.r.Intn(3) == 0 {
		return net.IPv4(b[0], b[1], b[2], b[3])
	}
	return net.IP(append([]byte{}, b...))
}

func (g *G) bytesList(n int) ([]net.IP, []string) {
	ips := make([]net.IP, n)
	ts := make([]string, n)
	for i := range ips {
		b := g.r.Bytes(4)
		ips[i] = g.ipForm(b)
		ts[i] = packBytes(b)
	}
	return ips, ts
}

func (g *G) groupRecord() (protocol.IGMPv3GroupRecord, string) {
	n := g.r.Geom(2, 12)
	srcs, sts := g.bytesList(n)
	mc := g.r.Bytes(4)
	ty := uint8(g.r.Bits(8))
	if g.r.Intn(3) > 0 {
		ty = uint8(1 + g.r.Intn(6))
	}
	r := protocol.NewGroupRecord(ty, g.ipForm(mc), srcs)
	var aux []string
	if g.r.Intn(4) == 0 { // auxiliary data words
		na := 1 + g.r.Intn(3)
		r.AuxDataLen = uint8(na)
		for i := 0; i < na; i++ {
			w := uint32(g.r.Bits(32))
			r.AuxData = append(r.AuxData, w)
			aux = append(aux, fmt.Sprint(w))
		}
	}
	return r, fmt.Sprintf("(PGr %d %d %d %s %s [%s]%%uint63)", r.Type, r.AuxDataLen, r.NumberOfSources, packBytes(mc), listT(sts), strings.Join(aux, ";"))
}

func (g *G) tlvParts() (ty uint8, ln uint16, sub uint8, data []byte) {
	data = g.r.Bytes(g.r.Geom(6, 40))
	if g.r.Intn(10) == 0 {
		data = g.r.Bytes(200 + g.r.Intn(312))
	}
	return uint8(g.r.Bits(7)), uint16(len(data)), uint8(g.r.Bits(8)), data
}

// recValue builds a well-formed value of the kind: the util.Message (or wrapper) and its term
func (g *G) recValue(kind string) (util.Message, string) {
	switch kind {
	case "vlan":
		v := protocol.NewVLAN()
		v.TPID, v.PCP, v.DEI, v.VID = uint16(g.r.Bits(16)), uint8(g.r.Bits(3)), uint8(g.r.Bits(1)), uint16(g.r.Bits(12))
		return v, fmt.Sprintf("(PVlan %d %d %d %d)", v.TPID, v.PCP, v.DEI, v.VID)
	case "option":
		d := g.r.Bytes(g.r.Geom(4, 255))
		o := &protocol.Option{Type: uint8(g.r.Bits(8)), Length: uint8(len(d)), Data: d}
		return o, fmt.Sprintf("(PV6opt %d %d %s)", o.Type, o.Length, packBytes(d))
	case "igmp12":
		gr := g.r.Bytes(4)
		var p *protocol.IGMPv1or2
		switch g.r.Intn(5) {
		case 0:
			p = protocol.NewIGMPv1Query(g.ipForm(gr))
		case 1:
			p = protocol.NewIGMPv1Report(g.ipForm(gr))
		case 2:
			p = protocol.NewIGMPv2Query(g.ipForm(gr), uint8(g.r.Bits(8)))
		case 3:
			p = protocol.NewIGMPv2Report(g.ipForm(gr))
		default:
			p = protocol.NewIGMPv2Leave(g.ipForm(gr))
		}
		p.Checksum = uint16(g.r.Bits(16))
		if g.r.Intn(4) == 0 {
			p.Type, p.MaxResponseTime = uint8(g.r.Bits(8)), uint8(g.r.Bits(8))
		}
		return p, fmt.Sprintf("(PIgmp12 %d %d %d %s)", p.Type, p.MaxResponseTime, p.Checksum, packBytes(gr))
	case "igmp3q":
		n := g.r.Geom(3, 40)
		srcs, sts := g.bytesList(n)
		gr := g.r.Bytes(4)
		p := protocol.NewIGMPv3Query(g.ipForm(gr), uint8(g.r.Bits(8)), uint8(g.r.Bits(8)), srcs)
		p.Checksum, p.SuppressRouterProcessing, p.RobustnessValue = uint16(g.r.Bits(16)), g.r.Bool(), uint8(g.r.Bits(3))
		if g.r.Intn(4) == 0 {
			p.Type = uint8(g.r.Bits(8))
		}
		s := 0
		if p.SuppressRouterProcessing {
			s = 1
		}
		return p, fmt.Sprintf("(PIgmp3q %d %d %d %s %d %d %d %d %s)", p.Type, p.MaxResponseTime, p.Checksum, packBytes(gr), s, p.RobustnessValue,
			p.IntervalTime, p.NumberOfSources, listT(sts))
	case "igmp3gr":
		r, t := g.groupRecord()
		return &r, t
	case "igmp3r":
		ng := g.r.Geom(2, 10)
		grs := make([]protocol.IGMPv3GroupRecord, ng)
		ts := make([]string, ng)
		for i := range grs {
			grs[i], ts[i] = g.groupRecord()
		}
		p := protocol.NewIGMPv3Report(grs)
		p.Checksum = uint16(g.r.Bits(16))
		if g.r.Intn(4) == 0 {
			p.Type = uint8(g.r.Bits(8))
		}
		return p, fmt.Sprintf("(PReport %d %d %d %s)", p.Type, p.Checksum, p.NumberOfGroups, listT(ts))
	case "dhcp":
		hw := g.r.Bytes([]int{6, 6, 6, 0, 1, 8, 16}[g.r.Intn(7)])
		var d *protocol.DHCP
		xid := uint32(1 + g.r.Bits(31))
		switch g.r.Intn(6) {
		case 0:
			d, _ = protocol.NewDHCPDiscover(xid, net.HardwareAddr(hw))
		case 1:
			d, _ = protocol.NewDHCPOffer(xid, net.HardwareAddr(hw))
		case 2:
			d, _ = protocol.NewDHCPRequest(xid, net.HardwareAddr(hw))
		case 3:
			d, _ = protocol.NewDHCPAck(xid, net.HardwareAddr(hw))
		case 4:
			d, _ = protocol.NewDHCPNak(xid, net.HardwareAddr(hw))
		default:
			d, _ = protocol.NewDHCP(xid, protocol.DHCPOperation(g.r.Bits(8)), protocol.DHCP_HW_ETHERNET)
			d.HardwareLen, d.ClientHWAddr = uint8(len(hw)), net.HardwareAddr(hw)
		}
		d.HardwareOpts, d.Secs, d.Flags = uint8(g.r.Bits(8)), uint16(g.r.Bits(16)), uint16(g.r.Bits(16))
		d.ClientIP, d.YourIP, d.ServerIP, d.GatewayIP = net.IP(g.r.Bytes(4)), net.IP(g.r.Bytes(4)), net.IP(g.r.Bytes(4)), net.IP(g.r.Bytes(4))
		copy(d.ServerName[:], g.r.Bytes(g.r.Intn(65)))
		copy(d.File[:], g.r.Bytes(g.r.Intn(129)))
		for k := g.r.Geom(3, 14); k > 0; k-- {
			switch g.r.Intn(8) {
			case 0:
				d.Options = append(d.Options, protocol.DHCPNewOption(protocol.DHCP_OPT_PAD, []byte{}))
			case 1:
				o, _ := protocol.DHCPIP4Option(byte(1+g.r.Intn(250)), g.ipForm(g.r.Bytes(4)))
				d.Options = append(d.Options, o)
			case 2:
				ips, _ := g.bytesList(g.r.Intn(5))
				o, _ := protocol.DHCPIP4sOption(byte(1+g.r.Intn(250)), ips)
				d.Options = append(d.Options, o)
			case 3:
				o, _ := protocol.DHCPStringOption(byte(1+g.r.Intn(250)), string(g.r.Bytes(g.r.Geom(8, 60))))
				d.Options = append(d.Options, o)
			case 4:
				d.Options = append(d.Options, protocol.DHCPNewOption(byte(1+g.r.Intn(254)), g.r.Bytes([]int{0, 1, 252, 253}[g.r.Intn(4)])))
			default:
				d.Options = append(d.Options, protocol.DHCPNewOption(byte(1+g.r.Intn(254)), g.r.Bytes(g.r.Geom(5, 100))))
			}
		}
		ots := make([]string, len(d.Options))
		for i, o := range d.Options {
			ots[i] = fmt.Sprintf("(%d%%uint63, %s)", o.OptionType(), packBytes(o.Bytes()))
		}
		nums := []uint64{uint64(d.Operation), uint64(d.HardwareType), uint64(d.HardwareLen), uint64(d.HardwareOpts), uint64(d.Xid), uint64(d.Secs), uint64(d.Flags)}
		t := fmt.Sprintf("(PDhcp %s %s %s %s %s %s %s %s %s)", intList(nums), packBytes(d.ClientIP), packBytes(d.YourIP), packBytes(d.ServerIP),
			packBytes(d.GatewayIP), packBytes(d.ClientHWAddr), packBytes(d.ServerName[:]), packBytes(d.File[:]), listT(ots))
		return wrapRW(d), t
	case "lldpchassis":
		ty, ln, sub, data := g.tlvParts()
		v := &protocol.ChassisTLV{Type: ty, Length: ln, Subtype: sub, Data: data}
		return wrapRW(v), fmt.Sprintf("(PTlv %d %d %d %s)", ty, ln, sub, packBytes(data))
	case "lldpport":
		ty, ln, sub, data := g.tlvParts()
		v := &protocol.PortTLV{Type: ty, Length: ln, Subtype: sub, Data: data}
		return wrapRW(v), fmt.Sprintf("(PTlv %d %d %d %s)", ty, ln, sub, packBytes(data))
	case "lldpttl":
		v := &protocol.TTLTLV{Type: uint8(g.r.Bits(7)), Length: uint16(g.r.Bits(9)), Seconds: uint16(g.r.Bits(16))}
		return wrapRW(v), fmt.Sprintf("(PTtl %d %d %d)", v.Type, v.Length, v.Seconds)
	case "lldp":
		t1, l1, s1, d1 := g.tlvParts()
		t2, l2, s2, d2 := g.tlvParts()
		v := &protocol.LLDP{Chassis: protocol.ChassisTLV{Type: t1, Length: l1, Subtype: s1, Data: d1},
			Port: protocol.PortTLV{Type: t2, Length: l2, Subtype: s2, Data: d2},
			TTL:  protocol.TTLTLV{Type: uint8(g.r.Bits(7)), Length: uint16(g.r.Bits(9)), Seconds: uint16(g.r.Bits(16))}}
		return wrapRW(v), fmt.Sprintf("(PLldp (PTlv %d %d %d %s) (PTlv %d %d %d %s) (PTtl %d %d %d))", t1, l1, s1, packBytes(d1), t2, l2, s2, packBytes(d2),
			v.TTL.Type, v.TTL.Length, v.TTL.Seconds)
	}
	panic("recValue: " + kind)
}
