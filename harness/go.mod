module verifharness

go 1.19

require (
	github.com/contiv/libOpenflow v0.0.0
	github.com/sirupsen/logrus v1.9.0
)

require (
	golang.org/x/exp v0.0.0-20230420155350-5d9e357047b1 // indirect
	golang.org/x/sys v0.1.0 // indirect
)

replace github.com/contiv/libOpenflow => /repo
