package main

import (
	"fmt"

	"github.com/contiv/libOpenflow/ofbase"
)

func init() { props["C19"] = runC19 }

type wop struct {
	kind  int
	x     uint64
	hi    uint64
	bytes []byte
}

func flatScript(ws []wop) []uint64 {
	var f []uint64
	for _, w := range ws {
		switch w.kind {
		case 1, 2, 3:
			f = append(f, uint64(w.kind), w.x)
		case 4:
			f = append(f, 4, w.x>>32, w.x&0xffffffff)
		case 5:
			f = append(f, 5, w.hi>>32, w.hi&0xffffffff, w.x>>32, w.x&0xffffffff)
		case 6:
			words := packWords(w.bytes)
			f = append(f, 6, uint64(len(words)))
			f = append(f, words...)
		case 7:
			f = append(f, 7)
		}
	}
	return f
}

func packWords(b []byte) []uint64 {
	ws := []uint64{uint64(len(b))}
	for i := 0; i < len(b); i += 7 {
		var w uint64
		for k := 0; k < 7; k++ {
			w <<= 8
			if i+k < len(b) {
				w |= uint64(b[i+k])
			}
		}
		ws = append(ws, w)
	}
	return ws
}

func runC19(seed uint64, tier, dir, replay string) error {
	o := NewOut(dir, "C19", 16, "From LOF Require Import Corr.C19.", "check19")
	rng := NewRng(seed)
	nScripts := 1500
	if tier == "thorough" {
		nScripts = 20000
	}
	for i := 0; i < nScripts; i++ {
		n := 1 + rng.Geom(6, 24)
		ws := make([]wop, n)
		shape := ""
		for k := range ws {
			kind := 1 + rng.Intn(7)
			w := wop{kind: kind}
			switch kind {
			case 1:
				w.x = rng.Bits(8)
			case 2:
				w.x = rng.Bits(16)
			case 3:
				w.x = rng.Bits(32)
			case 4:
				w.x = rng.Bits(64)
			case 5:
				w.x, w.hi = rng.Bits(64), rng.Bits(64)
			case 6:
				w.bytes = rng.Bytes(rng.Geom(5, 40))
			}
			ws[k] = w
			shape += fmt.Sprint(kind)
		}
		e := ofbase.NewEncoder()
		for _, w := range ws {
			switch w.kind {
			case 1:
				if rng.Bool() {
					e.PutChar(byte(w.x))
				} else {
					e.PutUint8(uint8(w.x))
				}
			case 2:
				e.PutUint16(uint16(w.x))
			case 3:
				e.PutUint32(uint32(w.x))
			case 4:
				e.PutUint64(w.x)
			case 5:
				e.PutUint128(ofbase.Uint128{Hi: w.hi, Lo: w.x})
			case 6:
				e.Write(w.bytes)
			case 7:
				e.SkipAlign()
			}
		}
		enc := append([]byte{}, e.Bytes()...)
		buf := make([]byte, len(enc)) // exact capacity
		copy(buf, enc)
		d := ofbase.NewDecoder(buf)
		rb := make([]wop, 0, n)
		offs := make([]uint64, 0, n)
		var perr interface{}
		func() {
			defer func() { perr = recover() }()
			for _, w := range ws {
				r := wop{kind: w.kind}
				switch w.kind {
				case 1:
					if rng.Bool() {
						r.x = uint64(d.ReadByte())
					} else {
						r.x = uint64(d.ReadUint8())
					}
				case 2:
					r.x = uint64(d.ReadUint16())
				case 3:
					r.x = uint64(d.ReadUint32())
				case 4:
					r.x = d.ReadUint64()
				case 5:
					v := d.ReadUint128()
					r.x, r.hi = v.Lo, v.Hi
				case 6:
					r.bytes = append([]byte{}, d.Read(len(w.bytes))...)
				case 7:
					d.SkipAlign()
				}
				rb = append(rb, r)
				offs = append(offs, uint64(d.Offset()))
			}
		}()
		js := map[string]interface{}{"kind": "script", "script": flatScript(ws), "encoded": hexs(enc), "offsets": offs}
		if perr != nil {
			js["panic"] = fmt.Sprint(perr)
		}
		o.Add(fmt.Sprintf("(Script %s %s %s %s)", intList(flatScript(ws)), packBytes(enc), intList(flatScript(rb)), intList(offs)),
			js, "script", shape)
	}
	// sliced decoders: every offset mod 8 x every rewind 0..7 x lengths x reads
	addSl := func(blen, off, ln, rw, k, ln2, rw2 int) {
		d := ofbase.NewDecoder(make([]byte, blen))
		d.Skip(off)
		var obs []uint64
		func() {
			defer func() { recover() }()
			c := d.SliceDecoder(ln, rw)
			for i := 0; i < k; i++ {
				c.ReadByte()
			}
			c.SkipAlign()
			cb, co := c.BaseOffset(), c.Offset()
			g := c.SliceDecoder(ln2, rw2)
			g.Skip(1)
			g.SkipAlign()
			obs = []uint64{uint64(cb), uint64(co), uint64(d.Offset()), uint64(g.BaseOffset()), uint64(g.Offset()), uint64(c.Offset())}
		}()
		if obs == nil {
			return // out of the buffer: a panic, as the model also says; not in the property's domain
		}
		args := []uint64{uint64(blen), uint64(off), uint64(ln), uint64(rw), uint64(k), uint64(ln2), uint64(rw2)}
		o.Add(fmt.Sprintf("(Sl %s %s)", intList(args), intList(obs)),
			map[string]interface{}{"kind": "slice", "args_buflen_off_len_rewind_reads_len2_rewind2": args, "obs": obs},
			"slice", fmt.Sprint(off%8, rw, k%8, (ln-rw)%8, rw2))
	}
	for off := 0; off < 16; off++ {
		for rw := 0; rw < 8; rw++ {
			for _, L := range []int{24, 25, 31, 32, 40} {
				for k := 0; k <= 8; k += 1 + rng.Intn(2) {
					rw2 := rng.Intn(8)
					addSl(128, off, L+rw, rw, k, rw2+1+rng.Intn(8), rw2)
				}
			}
		}
	}
	// header decode: every length 0..9 (several contents), plus positions moved by Skip
	for n := 0; n <= 12; n++ {
		reps := 12
		for r := 0; r < reps; r++ {
			b := rng.Bytes(n)
			skip := 0
			if r >= 8 {
				skip = rng.Intn(9) - 4
			}
			buf := make([]byte, n)
			copy(buf, b)
			d := ofbase.NewDecoder(buf)
			d.Skip(skip)
			var h ofbase.Header
			var err error
			var pan interface{}
			func() {
				defer func() { pan = recover() }()
				err = h.Decode(d)
			}()
			e := uint64(0)
			if err != nil {
				e = 1
			}
			if pan != nil {
				e = 2
			}
			obs := []uint64{e, uint64(h.Version), uint64(h.Type), uint64(h.Length), uint64(h.Xid)}
			if e != 0 {
				obs = []uint64{e, 0, 0, 0, 0}
			}
			o.Add(fmt.Sprintf("(Hd %s %d %s)", packBytes(b), skip+16, intList(obs)),
				map[string]interface{}{"kind": "header", "bytes": hexs(b), "skip": skip, "obs_err_version_type_length_xid": obs},
				"header", fmt.Sprint(n, skip))
		}
	}
	o.Meta["rule"] = "random write scripts (1..25 typed writes of 8/16/32/64/128-bit values, raw byte runs, alignment skips; boundary-biased values) encoded with ofbase.Encoder and read back with ofbase.Decoder from an exact-capacity copy; sliced decoders at every offset mod 8 x every rewind 0..7 with a nested second slice; Header.Decode on every length 0..12 incl. positions moved by Skip(-4..4); distinct by op-kind sequence / (offset mod 8, rewind, reads, length mod 8) / (length, skip)"
	return o.Close()
}
