// Command srcfacts re-reads the library's sources (go/parser + go/ast only) and emits the
// facts that sampling cannot settle as a Coq file (LOFGen.SrcFacts):
//   - how the transaction-id counter is advanced in common.NewHeaderGenerator;
//   - the inventory of package-level variables of the five packages with every write site
//     outside their declaration and whether each access goes through sync/atomic;
//   - whether FindFieldHeaderByName returns a fresh record (a composite literal) or hands
//     out the registry's own entry.
// It is syntactic and conservative: what it cannot classify is emitted as Unknown, which
// blocks the theorems stated over these definitions.
package main

import (
	"fmt"
	"go/ast"
	"go/parser"
	"go/token"
	"os"
	"path/filepath"
	"sort"
	"strings"
)

type write struct {
	kind string // WPlain WAtomic WIndexStore WIncDec WAddrTaken WDelete
	pos  string
}

func main() {
	root := os.Args[1]
	pkgs := []string{"common", "openflow13", "protocol", "util", "ofbase"}
	fset := token.NewFileSet()
	vars := map[string][]write{} // pkg.name -> writes
	globalType := map[string]string{}
	var order []string
	xidDraw := "Unknown"
	lookupFresh := "Unknown"
	for _, pkg := range pkgs {
		files, _ := filepath.Glob(filepath.Join(root, pkg, "*.go"))
		sort.Strings(files)
		var parsed []*ast.File
		for _, f := range files {
			if strings.HasSuffix(f, "_test.go") {
				continue
			}
			src, err := os.ReadFile(f)
			if err != nil {
				continue
			}
			if strings.Contains(string(src[:min(len(src), 200)]), "go:build verif") {
				continue // the verification hooks themselves
			}
			af, err := parser.ParseFile(fset, f, src, 0)
			if err != nil {
				fmt.Fprintln(os.Stderr, "parse error:", err)
				os.Exit(1)
			}
			parsed = append(parsed, af)
		}
		local := map[string]bool{}
		for _, af := range parsed {
			for _, d := range af.Decls {
				gd, ok := d.(*ast.GenDecl)
				if !ok || gd.Tok != token.VAR {
					continue
				}
				for _, sp := range gd.Specs {
					for _, n := range sp.(*ast.ValueSpec).Names {
						if n.Name == "_" {
							continue
						}
						key := pkg + "." + n.Name
						local[n.Name] = true
						if vs := sp.(*ast.ValueSpec); vs.Type != nil {
							globalType[key] = typeName(vs.Type)
						}
						vars[key] = nil
						order = append(order, key)
					}
				}
			}
		}
		// write sites
		for _, af := range parsed {
			for _, d := range af.Decls {
				fd, ok := d.(*ast.FuncDecl)
				if !ok || fd.Body == nil {
					continue
				}
				shadow := map[string]bool{}
				if fd.Type.Params != nil {
					for _, p := range fd.Type.Params.List {
						for _, n := range p.Names {
							shadow[n.Name] = true
						}
					}
				}
				isGlobal := func(e ast.Expr) (string, bool) {
					id, ok := e.(*ast.Ident)
					if !ok || !local[id.Name] || shadow[id.Name] {
						return "", false
					}
					return pkg + "." + id.Name, true
				}
				rootOf := func(e ast.Expr) ast.Expr {
					for {
						switch x := e.(type) {
						case *ast.IndexExpr:
							e = x.X
						case *ast.SelectorExpr:
							e = x.X
						case *ast.StarExpr:
							e = x.X
						case *ast.ParenExpr:
							e = x.X
						default:
							return e
						}
					}
				}
				atomicArgs := map[ast.Expr]bool{}
				ast.Inspect(fd.Body, func(n ast.Node) bool {
					switch x := n.(type) {
					case *ast.AssignStmt:
						if x.Tok == token.DEFINE {
							for _, l := range x.Lhs {
								if id, ok := l.(*ast.Ident); ok {
									shadow[id.Name] = true
								}
							}
							return true
						}
						for _, l := range x.Lhs {
							if k, ok := isGlobal(rootOf(l)); ok {
								kind := "WPlain"
								if _, isIdx := l.(*ast.IndexExpr); isIdx {
									kind = "WIndexStore"
								}
								vars[k] = append(vars[k], write{kind, fset.Position(x.Pos()).String()})
							}
						}
					case *ast.IncDecStmt:
						if k, ok := isGlobal(rootOf(x.X)); ok {
							vars[k] = append(vars[k], write{"WIncDec", fset.Position(x.Pos()).String()})
						}
					case *ast.CallExpr:
						if sel, ok := x.Fun.(*ast.SelectorExpr); ok {
							if pid, ok := sel.X.(*ast.Ident); ok && pid.Name == "atomic" {
								for _, a := range x.Args {
									if u, ok := a.(*ast.UnaryExpr); ok && u.Op == token.AND {
										atomicArgs[u] = true
										if k, ok := isGlobal(rootOf(u.X)); ok && !strings.HasPrefix(sel.Sel.Name, "Load") {
											vars[k] = append(vars[k], write{"WAtomic", fset.Position(x.Pos()).String()})
										}
									}
								}
							}
						}
						// a method of a package-level sync/atomic value (v.Add, v.Store, v.Swap, v.CompareAndSwap)
						if sel, ok := x.Fun.(*ast.SelectorExpr); ok {
							if k, ok := isGlobal(sel.X); ok && strings.HasPrefix(globalType[k], "atomic.") && sel.Sel.Name != "Load" {
								vars[k] = append(vars[k], write{"WAtomic", fset.Position(x.Pos()).String()})
							}
						}
						if id, ok := x.Fun.(*ast.Ident); ok && id.Name == "delete" && len(x.Args) > 0 {
							if k, ok := isGlobal(rootOf(x.Args[0])); ok {
								vars[k] = append(vars[k], write{"WDelete", fset.Position(x.Pos()).String()})
							}
						}
					case *ast.UnaryExpr:
						if x.Op == token.AND && !atomicArgs[x] {
							if k, ok := isGlobal(rootOf(x.X)); ok {
								vars[k] = append(vars[k], write{"WAddrTaken", fset.Position(x.Pos()).String()})
							}
						}
					}
					return true
				})
				// the two functions of interest
				if pkg == "common" && fd.Name.Name == "NewHeaderGenerator" {
					xidDraw = classifyXid(fd, func(name string) (string, bool) {
						if !local[name] {
							return "", false
						}
						return globalType[pkg+"."+name], true
					})
				}
				if pkg == "openflow13" && fd.Name.Name == "FindFieldHeaderByName" {
					lookupFresh = classifyLookup(fd)
				}
			}
		}
	}
	views := retentionSites(root, fset)
	fmt.Println("(* generated by harness/srcfacts from the working tree of /repo - do not edit *)")
	fmt.Println("From Coq Require Import List String.")
	fmt.Println("From LOF Require Import Model.SrcTypes.")
	fmt.Println("Import ListNotations.")
	fmt.Println("Local Open Scope string_scope.")
	fmt.Printf("Definition xid_draw : xid_draw_kind := %s.\n", map[string]string{"AtomicAdd32": "AtomicAdd32", "ReadThenWrite": "ReadThenWrite"}[xidDraw]+map[bool]string{true: "", false: "UnknownDraw"}[xidDraw == "AtomicAdd32" || xidDraw == "ReadThenWrite"])
	fmt.Printf("Definition lookup_result : lookup_kind := %s.\n", lookupFresh)
	fmt.Println("Definition inventory : list (string * list (write_kind * string)) := [")
	for i, k := range order {
		ws := vars[k]
		parts := make([]string, len(ws))
		for j, w := range ws {
			parts[j] = fmt.Sprintf("(%s, \"%s\")", w.kind, strings.TrimPrefix(w.pos, root+"/"))
		}
		sep := ";"
		if i == len(order)-1 {
			sep = ""
		}
		fmt.Printf("  (\"%s\", [%s])%s\n", k, strings.Join(parts, "; "), sep)
	}
	fmt.Println("].")
	fmt.Println("(* util.MessageStream.parse hands the buffer back (Reset, send on pool.Empty) only after the parser returned *)")
	fmt.Printf("Definition recycle_after_parse : bool := %v.\n", recycleAfterParse(root, fset))
	fmt.Println("(* decoder sites reachable from Parse that keep a view of the input buffer instead of a copy *)")
	fmt.Println("Definition view_sites : list string := [")
	for i, v := range views {
		sep := ";"
		if i == len(views)-1 {
			sep = ""
		}
		fmt.Printf("  \"%s\"%s\n", strings.ReplaceAll(v, "\"", "'"), sep)
	}
	fmt.Println("].")
}

// ---------------------------------------------------------------- retention analysis
//
// Decoders reachable from openflow13.Parse: closure over (a) functions called by name,
// (b) T.UnmarshalBinary for every type T that a reachable function creates (new(T), &T{},
// T{}, NewT()) or that is the type of a struct field of a reachable type.  In each of them an
// expression rooted at a []byte parameter (or at a local alias of one) is a retention site
// when it is stored: assigned to a field / element, appended as an element (no ...), put in a
// composite literal, or wrapped by a Buffer constructor whose result is stored in a field.
// Uses that copy are fine: copy(), append(dst, src...), binary.*.UintN, net.IPv4(...),
// indexing, (*Buffer).Write, passing on to another decoder (analysed in turn).
type fnKey struct{ pkg, recv, name string }

func retentionSites(root string, fset *token.FileSet) []string {
	pkgs := []string{"common", "openflow13", "protocol", "util"}
	funcs := map[fnKey]*ast.FuncDecl{}
	structFields := map[string][]string{} // pkg.T -> field type names (pkg-qualified when local)
	ctorOf := map[string]string{}         // pkg.NewT -> pkg.T (by "returns *T" / body creates T)
	for _, pkg := range pkgs {
		files, _ := filepath.Glob(filepath.Join(root, pkg, "*.go"))
		for _, f := range files {
			if strings.HasSuffix(f, "_test.go") {
				continue
			}
			src, _ := os.ReadFile(f)
			if strings.Contains(string(src[:min(len(src), 200)]), "go:build verif") {
				continue
			}
			af, err := parser.ParseFile(fset, f, src, 0)
			if err != nil {
				continue
			}
			for _, d := range af.Decls {
				switch x := d.(type) {
				case *ast.FuncDecl:
					recv := ""
					if x.Recv != nil && len(x.Recv.List) > 0 {
						recv = typeName(x.Recv.List[0].Type)
					}
					funcs[fnKey{pkg, recv, x.Name.Name}] = x
					if recv == "" && x.Type.Results != nil && len(x.Type.Results.List) > 0 {
						if tn := typeName(x.Type.Results.List[0].Type); tn != "" {
							ctorOf[pkg+"."+x.Name.Name] = qualify(pkg, tn)
						}
					}
				case *ast.GenDecl:
					for _, sp := range x.Specs {
						ts, ok := sp.(*ast.TypeSpec)
						if !ok {
							continue
						}
						if st, ok := ts.Type.(*ast.StructType); ok {
							for _, fl := range st.Fields.List {
								if tn := typeName(fl.Type); tn != "" {
									structFields[pkg+"."+ts.Name.Name] = append(structFields[pkg+"."+ts.Name.Name], qualify(pkg, tn))
								}
							}
						}
					}
				}
			}
		}
	}
	reach := map[fnKey]bool{}
	types := map[string]bool{}
	var todo []fnKey
	addFn := func(k fnKey) {
		if _, ok := funcs[k]; ok && !reach[k] {
			reach[k] = true
			todo = append(todo, k)
		}
	}
	var addType func(t string)
	addType = func(t string) {
		if types[t] {
			return
		}
		types[t] = true
		parts := strings.SplitN(t, ".", 2)
		if len(parts) == 2 {
			addFn(fnKey{parts[0], parts[1], "UnmarshalBinary"})
			addFn(fnKey{parts[0], parts[1], "UnmarshalHeader"})
		}
		for _, ft := range structFields[t] {
			addType(ft)
		}
	}
	addFn(fnKey{"openflow13", "", "Parse"})
	for len(todo) > 0 {
		k := todo[len(todo)-1]
		todo = todo[:len(todo)-1]
		fd := funcs[k]
		if fd.Body == nil {
			continue
		}
		ast.Inspect(fd.Body, func(n ast.Node) bool {
			switch x := n.(type) {
			case *ast.CallExpr:
				switch f := x.Fun.(type) {
				case *ast.Ident:
					if f.Name == "new" && len(x.Args) == 1 {
						if tn := typeName(x.Args[0]); tn != "" {
							addType(qualify(k.pkg, tn))
						}
					}
					addFn(fnKey{k.pkg, "", f.Name})
					if t, ok := ctorOf[k.pkg+"."+f.Name]; ok {
						addType(t)
					}
				case *ast.SelectorExpr:
					if p, ok := f.X.(*ast.Ident); ok {
						addFn(fnKey{p.Name, "", f.Sel.Name})
						if t, ok := ctorOf[p.Name+"."+f.Sel.Name]; ok {
							addType(t)
						}
					}
				}
			case *ast.CompositeLit:
				if tn := typeName(x.Type); tn != "" {
					addType(qualify(k.pkg, tn))
				}
			}
			return true
		})
	}
	var sites []string
	keys := make([]fnKey, 0, len(reach))
	for k := range reach {
		keys = append(keys, k)
	}
	sort.Slice(keys, func(i, j int) bool { return fmt.Sprint(keys[i]) < fmt.Sprint(keys[j]) })
	for _, k := range keys {
		fd := funcs[k]
		if fd.Body == nil || fd.Type.Params == nil {
			continue
		}
		tainted := map[string]bool{}
		for _, p := range fd.Type.Params.List {
			if at, ok := p.Type.(*ast.ArrayType); ok && at.Len == nil {
				if id, ok := at.Elt.(*ast.Ident); ok && id.Name == "byte" {
					for _, n := range p.Names {
						tainted[n.Name] = true
					}
				}
			}
		}
		if len(tainted) == 0 {
			continue
		}
		var view func(e ast.Expr) bool // is e a view of the input?
		view = func(e ast.Expr) bool {
			switch x := e.(type) {
			case *ast.Ident:
				return tainted[x.Name]
			case *ast.SliceExpr:
				return view(x.X)
			case *ast.ParenExpr:
				return view(x.X)
			case *ast.StarExpr:
				return view(x.X)
			case *ast.UnaryExpr:
				return view(x.X)
			case *ast.CallExpr: // conversions such as net.IP(data[a:b]) and Buffer constructors keep the view
				if id, ok := x.Fun.(*ast.Ident); ok && id.Name == "append" && len(x.Args) > 0 && view(x.Args[0]) {
					return true // appending onto a sub-slice of the input writes into (and keeps) the input's array
				}
				if len(x.Args) == 1 && view(x.Args[0]) {
					name := ""
					switch f := x.Fun.(type) {
					case *ast.Ident:
						name = f.Name
					case *ast.SelectorExpr:
						name = f.Sel.Name
					}
					switch name {
					case "NewBuffer", "NewReader", "IP", "HardwareAddr":
						return true
					}
				}
			}
			return false
		}
		where := func(n ast.Node) string {
			return fmt.Sprintf("%s.%s%s at %s", k.pkg, map[bool]string{true: k.recv + ".", false: ""}[k.recv != ""], k.name, strings.TrimPrefix(fset.Position(n.Pos()).String(), root+"/"))
		}
		ast.Inspect(fd.Body, func(n ast.Node) bool {
			switch x := n.(type) {
			case *ast.AssignStmt:
				for i, r := range x.Rhs {
					if i >= len(x.Lhs) || !view(r) {
						continue
					}
					if id, ok := x.Lhs[i].(*ast.Ident); ok { // a local alias
						tainted[id.Name] = true
					} else {
						sites = append(sites, where(x)+": stores a sub-slice of the input")
					}
				}
			case *ast.CallExpr:
				if id, ok := x.Fun.(*ast.Ident); ok && id.Name == "append" && x.Ellipsis == token.NoPos {
					for _, a := range x.Args[1:] {
						if view(a) {
							sites = append(sites, where(x)+": appends a sub-slice of the input as an element")
						}
					}
				}
			case *ast.KeyValueExpr:
				if view(x.Value) {
					sites = append(sites, where(x)+": composite literal keeps a sub-slice of the input")
				}
			case *ast.ReturnStmt:
				for _, r := range x.Results {
					if view(r) {
						sites = append(sites, where(x)+": returns a sub-slice of the input")
					}
				}
			}
			return true
		})
	}
	return sites
}

func typeName(e ast.Expr) string {
	switch x := e.(type) {
	case *ast.Ident:
		return x.Name
	case *ast.StarExpr:
		return typeName(x.X)
	case *ast.SelectorExpr:
		if p, ok := x.X.(*ast.Ident); ok {
			return p.Name + "." + x.Sel.Name
		}
	case *ast.ArrayType:
		return typeName(x.Elt)
	}
	return ""
}

func qualify(pkg, t string) string {
	if strings.Contains(t, ".") {
		return t
	}
	return pkg + "." + t
}

// classifyXid looks at how the closure returned by NewHeaderGenerator obtains the id
// classifyXid: how the generator draws an id from its package-level counter (whatever the
// counter is called).  AtomicAdd32: the only use of a package-level variable is
// atomic.AddUint32(&v, 1), or v.Add(1) on a variable of type atomic.Uint32.  ReadThenWrite: the
// counter is also read or written plainly.  Anything else: Unknown.
func classifyXid(fd *ast.FuncDecl, global func(string) (string, bool)) string {
	seenAtomic, seenPlain := false, false
	atomicUse := map[*ast.Ident]bool{}
	isOne := func(e ast.Expr) bool {
		if lit, ok := e.(*ast.BasicLit); ok {
			return lit.Value == "1"
		}
		if c, ok := e.(*ast.CallExpr); ok && len(c.Args) == 1 { // uint32(1)
			if lit, ok := c.Args[0].(*ast.BasicLit); ok {
				return lit.Value == "1"
			}
		}
		return false
	}
	ast.Inspect(fd.Body, func(n ast.Node) bool {
		x, ok := n.(*ast.CallExpr)
		if !ok {
			return true
		}
		sel, ok := x.Fun.(*ast.SelectorExpr)
		if !ok {
			return true
		}
		if pid, ok := sel.X.(*ast.Ident); ok && pid.Name == "atomic" && sel.Sel.Name == "AddUint32" && len(x.Args) == 2 {
			if u, ok := x.Args[0].(*ast.UnaryExpr); ok && u.Op == token.AND {
				if id, ok := u.X.(*ast.Ident); ok {
					if t, isG := global(id.Name); isG && (t == "uint32" || t == "") && isOne(x.Args[1]) {
						seenAtomic = true
						atomicUse[id] = true
					}
				}
			}
		}
		if id, ok := sel.X.(*ast.Ident); ok && sel.Sel.Name == "Add" && len(x.Args) == 1 {
			if t, isG := global(id.Name); isG && t == "atomic.Uint32" && isOne(x.Args[0]) {
				seenAtomic = true
				atomicUse[id] = true
			}
		}
		return true
	})
	// every other mention of a package-level variable is a plain access
	ast.Inspect(fd.Body, func(n ast.Node) bool {
		if id, ok := n.(*ast.Ident); ok && !atomicUse[id] {
			if _, isG := global(id.Name); isG && id.Obj == nil {
				seenPlain = true
			} else if isG && id.Obj != nil && id.Obj.Kind == ast.Var {
				if _, isSpec := id.Obj.Decl.(*ast.ValueSpec); isSpec {
					seenPlain = true
				}
			}
		}
		return true
	})
	switch {
	case seenAtomic && !seenPlain:
		return "AtomicAdd32"
	case seenPlain:
		return "ReadThenWrite"
	}
	return "Unknown"
}

// classifyLookup: every return of a non-nil first result must be &MatchField{...} (a fresh
// composite literal)
func classifyLookup(fd *ast.FuncDecl) string {
	fresh, shared := false, false
	// what each local variable was assigned
	assigned := map[string][]ast.Expr{}
	ast.Inspect(fd.Body, func(n ast.Node) bool {
		switch a := n.(type) {
		case *ast.AssignStmt:
			if len(a.Lhs) == len(a.Rhs) {
				for i, l := range a.Lhs {
					if id, ok := l.(*ast.Ident); ok {
						assigned[id.Name] = append(assigned[id.Name], a.Rhs[i])
					}
				}
			} else {
				for _, l := range a.Lhs { // multi-value call: not classified
					if id, ok := l.(*ast.Ident); ok {
						assigned[id.Name] = append(assigned[id.Name], nil)
					}
				}
			}
		case *ast.ValueSpec:
			for i, id := range a.Names {
				if i < len(a.Values) {
					assigned[id.Name] = append(assigned[id.Name], a.Values[i])
				}
			}
		}
		return true
	})
	isFresh := func(e ast.Expr) bool {
		switch x := e.(type) {
		case *ast.UnaryExpr: // &T{...}
			_, ok := x.X.(*ast.CompositeLit)
			return ok && x.Op == token.AND
		case *ast.CallExpr: // new(T)
			id, ok := x.Fun.(*ast.Ident)
			return ok && id.Name == "new"
		}
		return false
	}
	ast.Inspect(fd.Body, func(n ast.Node) bool {
		if _, isLit := n.(*ast.FuncLit); isLit {
			return false
		}
		r, ok := n.(*ast.ReturnStmt)
		if !ok || len(r.Results) == 0 {
			return true
		}
		switch x := r.Results[0].(type) {
		case *ast.Ident:
			if x.Name == "nil" {
				break
			}
			rhs := assigned[x.Name] // a local that only ever holds a freshly allocated record
			ok := len(rhs) > 0
			for _, e := range rhs {
				if e == nil || !isFresh(e) {
					ok = false
				}
			}
			if ok {
				fresh = true
			} else {
				shared = true
			}
		default:
			if isFresh(x) {
				fresh = true
			} else {
				shared = true
			}
		}
		return true
	})
	if shared {
		return "SharedEntry"
	}
	if fresh {
		return "FreshRecord"
	}
	return "UnknownLookup"
}

func min(a, b int) int {
	if a < b {
		return a
	}
	return b
}

// recycleAfterParse: in (*MessageStream).parse every b.Reset() and every send on pool.Empty
// comes after the call of the parser, and the parser is given the buffer's bytes directly.
func recycleAfterParse(root string, fset *token.FileSet) bool {
	src, err := os.ReadFile(filepath.Join(root, "util", "stream.go"))
	if err != nil {
		return false
	}
	af, err := parser.ParseFile(fset, filepath.Join(root, "util", "stream.go"), src, 0)
	if err != nil {
		return false
	}
	ok := false
	for _, d := range af.Decls {
		fd, isf := d.(*ast.FuncDecl)
		if !isf || fd.Name.Name != "parse" || fd.Recv == nil || fd.Body == nil {
			continue
		}
		var parsePos []token.Pos
		var recycle []token.Pos
		aliased := false
		ast.Inspect(fd.Body, func(n ast.Node) bool {
			switch x := n.(type) {
			case *ast.CallExpr:
				if se, isSel := x.Fun.(*ast.SelectorExpr); isSel {
					switch se.Sel.Name {
					case "Parse":
						parsePos = append(parsePos, x.End())
						// the argument must be b.Bytes() itself, not a saved slice
						if len(x.Args) != 1 {
							aliased = true
						} else if c, isCall := x.Args[0].(*ast.CallExpr); !isCall {
							aliased = true
						} else if s2, is2 := c.Fun.(*ast.SelectorExpr); !is2 || s2.Sel.Name != "Bytes" {
							aliased = true
						}
					case "Reset", "Truncate":
						recycle = append(recycle, x.Pos())
					}
				}
			case *ast.SendStmt:
				if se, isSel := x.Chan.(*ast.SelectorExpr); isSel && se.Sel.Name == "Empty" {
					recycle = append(recycle, x.Pos())
				}
			}
			return true
		})
		ok = len(parsePos) == 1 && len(recycle) >= 1 && !aliased
		for _, r := range recycle {
			if r < parsePos[0] {
				ok = false
			}
		}
	}
	return ok
}
