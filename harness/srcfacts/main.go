// Command srcfacts re-reads the library's sources (go/parser + go/ast only) and emits the
// facts that sampling cannot settle as a Coq file (LOFGen.SrcFacts):
//   - how the transaction-id counter is advanced in common.NewHeaderGenerator;
//   - the inventory of package-level variables of the five packages with every write site
//     outside their declaration and whether each access goes through sync/atomic;
//   - whether FindFieldHeaderByName returns a fresh record (a composite literal) or hands
//     out the registry's own entry.
// It is syntactic and conservative: what it cannot classify is emitted as Unknown, which
// blocks the theorems stated over these definitions.
package main

import (
	"fmt"
	"go/ast"
	"go/parser"
	"go/token"
	"os"
	"path/filepath"
	"sort"
	"strings"
)

type write struct {
	kind string // WPlain WAtomic WIndexStore WIncDec WAddrTaken WDelete
	pos  string
}

func main() {
	root := os.Args[1]
	pkgs := []string{"common", "openflow13", "protocol", "util", "ofbase"}
	fset := token.NewFileSet()
	vars := map[string][]write{} // pkg.name -> writes
	var order []string
	xidDraw := "Unknown"
	lookupFresh := "Unknown"
	for _, pkg := range pkgs {
		files, _ := filepath.Glob(filepath.Join(root, pkg, "*.go"))
		sort.Strings(files)
		var parsed []*ast.File
		for _, f := range files {
			if strings.HasSuffix(f, "_test.go") {
				continue
			}
			src, err := os.ReadFile(f)
			if err != nil {
				continue
			}
			if strings.Contains(string(src[:min(len(src), 200)]), "go:build verif") {
				continue // the verification hooks themselves
			}
			af, err := parser.ParseFile(fset, f, src, 0)
			if err != nil {
				fmt.Fprintln(os.Stderr, "parse error:", err)
				os.Exit(1)
			}
			parsed = append(parsed, af)
		}
		local := map[string]bool{}
		for _, af := range parsed {
			for _, d := range af.Decls {
				gd, ok := d.(*ast.GenDecl)
				if !ok || gd.Tok != token.VAR {
					continue
				}
				for _, sp := range gd.Specs {
					for _, n := range sp.(*ast.ValueSpec).Names {
						if n.Name == "_" {
							continue
						}
						key := pkg + "." + n.Name
						local[n.Name] = true
						vars[key] = nil
						order = append(order, key)
					}
				}
			}
		}
		// write sites
		for _, af := range parsed {
			for _, d := range af.Decls {
				fd, ok := d.(*ast.FuncDecl)
				if !ok || fd.Body == nil {
					continue
				}
				shadow := map[string]bool{}
				if fd.Type.Params != nil {
					for _, p := range fd.Type.Params.List {
						for _, n := range p.Names {
							shadow[n.Name] = true
						}
					}
				}
				isGlobal := func(e ast.Expr) (string, bool) {
					id, ok := e.(*ast.Ident)
					if !ok || !local[id.Name] || shadow[id.Name] {
						return "", false
					}
					return pkg + "." + id.Name, true
				}
				rootOf := func(e ast.Expr) ast.Expr {
					for {
						switch x := e.(type) {
						case *ast.IndexExpr:
							e = x.X
						case *ast.SelectorExpr:
							e = x.X
						case *ast.StarExpr:
							e = x.X
						case *ast.ParenExpr:
							e = x.X
						default:
							return e
						}
					}
				}
				atomicArgs := map[ast.Expr]bool{}
				ast.Inspect(fd.Body, func(n ast.Node) bool {
					switch x := n.(type) {
					case *ast.AssignStmt:
						if x.Tok == token.DEFINE {
							for _, l := range x.Lhs {
								if id, ok := l.(*ast.Ident); ok {
									shadow[id.Name] = true
								}
							}
							return true
						}
						for _, l := range x.Lhs {
							if k, ok := isGlobal(rootOf(l)); ok {
								kind := "WPlain"
								if _, isIdx := l.(*ast.IndexExpr); isIdx {
									kind = "WIndexStore"
								}
								vars[k] = append(vars[k], write{kind, fset.Position(x.Pos()).String()})
							}
						}
					case *ast.IncDecStmt:
						if k, ok := isGlobal(rootOf(x.X)); ok {
							vars[k] = append(vars[k], write{"WIncDec", fset.Position(x.Pos()).String()})
						}
					case *ast.CallExpr:
						if sel, ok := x.Fun.(*ast.SelectorExpr); ok {
							if pid, ok := sel.X.(*ast.Ident); ok && pid.Name == "atomic" {
								for _, a := range x.Args {
									if u, ok := a.(*ast.UnaryExpr); ok && u.Op == token.AND {
										atomicArgs[u] = true
										if k, ok := isGlobal(rootOf(u.X)); ok && !strings.HasPrefix(sel.Sel.Name, "Load") {
											vars[k] = append(vars[k], write{"WAtomic", fset.Position(x.Pos()).String()})
										}
									}
								}
							}
						}
						if id, ok := x.Fun.(*ast.Ident); ok && id.Name == "delete" && len(x.Args) > 0 {
							if k, ok := isGlobal(rootOf(x.Args[0])); ok {
								vars[k] = append(vars[k], write{"WDelete", fset.Position(x.Pos()).String()})
							}
						}
					case *ast.UnaryExpr:
						if x.Op == token.AND && !atomicArgs[x] {
							if k, ok := isGlobal(rootOf(x.X)); ok {
								vars[k] = append(vars[k], write{"WAddrTaken", fset.Position(x.Pos()).String()})
							}
						}
					}
					return true
				})
				// the two functions of interest
				if pkg == "common" && fd.Name.Name == "NewHeaderGenerator" {
					xidDraw = classifyXid(fd)
				}
				if pkg == "openflow13" && fd.Name.Name == "FindFieldHeaderByName" {
					lookupFresh = classifyLookup(fd)
				}
			}
		}
	}
	fmt.Println("(* generated by harness/srcfacts from the working tree of /repo - do not edit *)")
	fmt.Println("From Coq Require Import List String.")
	fmt.Println("From LOF Require Import Model.SrcTypes.")
	fmt.Println("Import ListNotations.")
	fmt.Println("Local Open Scope string_scope.")
	fmt.Printf("Definition xid_draw : xid_draw_kind := %s.\n", map[string]string{"AtomicAdd32": "AtomicAdd32", "ReadThenWrite": "ReadThenWrite"}[xidDraw]+map[bool]string{true: "", false: "UnknownDraw"}[xidDraw == "AtomicAdd32" || xidDraw == "ReadThenWrite"])
	fmt.Printf("Definition lookup_result : lookup_kind := %s.\n", lookupFresh)
	fmt.Println("Definition inventory : list (string * list (write_kind * string)) := [")
	for i, k := range order {
		ws := vars[k]
		parts := make([]string, len(ws))
		for j, w := range ws {
			parts[j] = fmt.Sprintf("(%s, \"%s\")", w.kind, strings.TrimPrefix(w.pos, root+"/"))
		}
		sep := ";"
		if i == len(order)-1 {
			sep = ""
		}
		fmt.Printf("  (\"%s\", [%s])%s\n", k, strings.Join(parts, "; "), sep)
	}
	fmt.Println("].")
}

// classifyXid looks at how the closure returned by NewHeaderGenerator obtains the id
func classifyXid(fd *ast.FuncDecl) string {
	res := "Unknown"
	seenAtomic, seenPlain := false, false
	ast.Inspect(fd.Body, func(n ast.Node) bool {
		switch x := n.(type) {
		case *ast.CallExpr:
			if sel, ok := x.Fun.(*ast.SelectorExpr); ok {
				if pid, ok := sel.X.(*ast.Ident); ok && pid.Name == "atomic" && sel.Sel.Name == "AddUint32" && len(x.Args) == 2 {
					if u, ok := x.Args[0].(*ast.UnaryExpr); ok && u.Op == token.AND {
						if id, ok := u.X.(*ast.Ident); ok && id.Name == "messageXid" {
							if lit, ok := x.Args[1].(*ast.BasicLit); ok && lit.Value == "1" {
								seenAtomic = true
							}
						}
					}
				}
			}
		case *ast.IncDecStmt:
			if id, ok := x.X.(*ast.Ident); ok && id.Name == "messageXid" {
				seenPlain = true
			}
		case *ast.AssignStmt:
			for _, l := range x.Lhs {
				if id, ok := l.(*ast.Ident); ok && id.Name == "messageXid" {
					seenPlain = true
				}
			}
			// a plain read of the counter into the id (xid := messageXid ...)
			for _, r := range x.Rhs {
				ast.Inspect(r, func(m ast.Node) bool {
					if id, ok := m.(*ast.Ident); ok && id.Name == "messageXid" {
						if _, isCall := r.(*ast.CallExpr); !isCall {
							seenPlain = true
						}
					}
					return true
				})
			}
		}
		return true
	})
	switch {
	case seenAtomic && !seenPlain:
		res = "AtomicAdd32"
	case seenPlain:
		res = "ReadThenWrite"
	}
	return res
}

// classifyLookup: every return of a non-nil first result must be &MatchField{...} (a fresh
// composite literal)
func classifyLookup(fd *ast.FuncDecl) string {
	fresh, shared := false, false
	ast.Inspect(fd.Body, func(n ast.Node) bool {
		r, ok := n.(*ast.ReturnStmt)
		if !ok || len(r.Results) == 0 {
			return true
		}
		switch x := r.Results[0].(type) {
		case *ast.Ident:
			if x.Name != "nil" {
				shared = true
			}
		case *ast.UnaryExpr:
			if _, ok := x.X.(*ast.CompositeLit); ok && x.Op == token.AND {
				fresh = true
			} else {
				shared = true
			}
		default:
			shared = true
		}
		return true
	})
	if shared {
		return "SharedEntry"
	}
	if fresh {
		return "FreshRecord"
	}
	return "UnknownLookup"
}

func min(a, b int) int {
	if a < b {
		return a
	}
	return b
}
