package main

// C08 (packet decoders are total) and C09 (round trip, bit lanes, demux) for package protocol.

import (
	"fmt"
	"net"

	"github.com/contiv/libOpenflow/protocol"
	"github.com/contiv/libOpenflow/util"
)

func init() {
	props["C08"] = runC08
	props["C09"] = runC09
}

var pktDecCode = map[string]int{"eth": 0, "arp": 1, "ip4": 2, "ip6": 3, "icmp": 4, "udp": 5, "tcp": 6, "hbh": 7, "routing": 8, "fragment": 9,
	"vlan": 100, "option": 101, "igmp12": 102, "igmp3q": 103, "igmp3gr": 104, "igmp3r": 105, "dhcp": 106, "dhcpopts": 107,
	"lldp": 108, "lldpchassis": 109, "lldpport": 110, "lldpttl": 111}

// ---- generators of well-formed packets (Go values) ----

func (g *G) l4(kind int) (util.Message, int) {
	switch kind {
	case 1:
		i := protocol.NewICMP()
		i.Type, i.Code, i.Checksum = uint8(g.r.Bits(8)), uint8(g.r.Bits(8)), uint16(g.r.Bits(16))
		i.Data = g.r.Bytes(g.r.Geom(8, 64))
		return i, 1
	case 2:
		u := protocol.NewUDP()
		u.PortSrc, u.PortDst, u.Length, u.Checksum = uint16(g.r.Bits(16)), uint16(g.r.Bits(16)), uint16(g.r.Bits(16)), uint16(g.r.Bits(16))
		u.Data = g.r.Bytes(g.r.Geom(8, 64))
		return u, 2
	default:
		return util.NewBuffer(g.r.Bytes(g.r.Geom(8, 64))), 0
	}
}

func (g *G) ipv4() *protocol.IPv4 {
	ip := protocol.NewIPv4()
	ip.Version = 4
	nopt := g.r.Intn(3) * 4 * g.r.Intn(4)
	if nopt > 40 {
		nopt = 40
	}
	ip.IHL = uint8(5 + nopt/4)
	ip.DSCP, ip.ECN = uint8(g.r.Bits(6)), uint8(g.r.Bits(2))
	ip.Length, ip.Id = uint16(g.r.Bits(16)), uint16(g.r.Bits(16))
	ip.Flags, ip.FragmentOffset = uint16(g.r.Bits(3)), uint16(g.r.Bits(13))
	ip.TTL, ip.Checksum = uint8(g.r.Bits(8)), uint16(g.r.Bits(16))
	copy(ip.NWSrc, g.r.Bytes(4))
	copy(ip.NWDst, g.r.Bytes(4))
	ip.Options = *util.NewBuffer(g.r.Bytes(nopt))
	k := g.r.Intn(3)
	d, _ := g.l4(k)
	ip.Data = d
	ip.Protocol = []uint8{uint8(2 + g.r.Intn(200)), 1, 17}[k]
	if k == 0 && (ip.Protocol == 1 || ip.Protocol == 17) {
		ip.Protocol = 6
	}
	return ip
}

func (g *G) ipv6() *protocol.IPv6 {
	ip := new(protocol.IPv6)
	ip.Version, ip.TrafficClass, ip.FlowLabel = 6, uint8(g.r.Bits(8)), uint32(g.r.Bits(20))
	ip.Length, ip.HopLimit = uint16(g.r.Bits(16)), uint8(g.r.Bits(8))
	ip.NWSrc, ip.NWDst = net.IP(g.r.Bytes(16)), net.IP(g.r.Bytes(16))
	k := g.r.Intn(3)
	d, _ := g.l4(k)
	ip.Data = d
	final := []uint8{uint8(60 + g.r.Intn(150)), 58, 17}[k]
	// extension header chain: each kind at most once, any order
	order := []int{0, 1, 2}
	for i := 2; i > 0; i-- {
		j := g.r.Intn(i + 1)
		order[i], order[j] = order[j], order[i]
	}
	n := g.r.Intn(4)
	chain := order[:n]
	codes := []uint8{protocol.Type_HBH, protocol.Type_Routing, protocol.Type_Fragment}
	next := final
	for i := len(chain) - 1; i >= 0; i-- {
		switch chain[i] {
		case 0:
			h := protocol.NewHopByHopHeader()
			h.NextHeader = next
			// options tiling the header exactly
			h.HEL = uint8(g.r.Intn(3))
			room := 8*(int(h.HEL)+1) - 2
			for room > 0 {
				l := g.r.Intn(room - 1)
				if room-2-l == 1 {
					l++
				}
				if l > room-2 {
					l = room - 2
				}
				// option types incl. 0 (Pad1 on the wire, but an ordinary type-length-data option to this
				// library) and 1 (PadN)
				ty := g.r.Intn(222)
				if ty > 200 {
					ty = 0
				}
				h.Options = append(h.Options, &protocol.Option{Type: uint8(ty), Length: uint8(l), Data: g.r.Bytes(l)})
				room -= 2 + l
			}
			ip.HbhHeader = h
		case 1:
			h := protocol.NewRoutingHeader()
			h.NextHeader = next
			h.HEL = uint8(g.r.Intn(3))
			h.RoutingType, h.SegmentsLeft = uint8(g.r.Bits(8)), uint8(g.r.Bits(8))
			h.Data = util.NewBuffer(g.r.Bytes(8*(int(h.HEL)+1) - 4))
			ip.RoutingHeader = h
		case 2:
			h := protocol.NewFragmentHeader()
			h.NextHeader = next
			h.Reserved, h.FragmentOffset, h.MoreFragments, h.Identification = uint8(g.r.Bits(8)), uint16(g.r.Bits(13)), g.r.Bool(), uint32(g.r.Bits(32))
			ip.FragmentHeader = h
		}
		next = codes[chain[i]]
	}
	ip.NextHeader = next
	return ip
}

func (g *G) arp() *protocol.ARP {
	a, _ := protocol.NewARP(1 + g.r.Intn(2))
	a.HWType, a.ProtoType = uint16(g.r.Bits(16)), uint16(g.r.Bits(16))
	copy(a.HWSrc, g.r.Bytes(6))
	copy(a.HWDst, g.r.Bytes(6))
	copy(a.IPSrc, g.r.Bytes(4))
	copy(a.IPDst, g.r.Bytes(4))
	return a
}

// ethernet draws a frame; vid 0 with a non-zero priority is the known-finding shape
func (g *G) ethernet() (*protocol.Ethernet, string) {
	e := protocol.NewEthernet()
	copy(e.HWDst, g.r.Bytes(6))
	copy(e.HWSrc, g.r.Bytes(6))
	kind := "untagged"
	if g.r.Bool() {
		e.VLANID.VID = uint16(1 + g.r.Intn(4095))
		e.VLANID.PCP, e.VLANID.DEI = uint8(g.r.Bits(3)), uint8(g.r.Bits(1))
		kind = "tagged"
	}
	switch g.r.Intn(5) {
	case 0:
		e.Ethertype, e.Data = protocol.IPv4_MSG, g.ipv4()
		kind += "/ipv4"
	case 1:
		e.Ethertype, e.Data = protocol.IPv6_MSG, g.ipv6()
		kind += "/ipv6"
	case 2:
		e.Ethertype, e.Data = protocol.ARP_MSG, g.arp()
		kind += "/arp"
	default:
		e.Ethertype = uint16(0x0600 + g.r.Intn(0xf000))
		if e.Ethertype == 0x8100 || e.Ethertype == 0x0800 || e.Ethertype == 0x86dd || e.Ethertype == 0x0806 {
			e.Ethertype = 0x88cc
		}
		if (e.VLANID.VID != 0 || e.VLANID.PCP != 0 || e.VLANID.DEI != 0) && g.r.Intn(4) == 0 {
			// stacked tags (QinQ): behind the first tag comes another tag protocol id; the rest is opaque
			e.Ethertype = []uint16{0x8100, 0x88a8}[g.r.Intn(2)]
			kind += "-stacked"
		}
		e.Data = util.NewBuffer(g.r.Bytes(g.r.Geom(20, 100)))
		kind += "/opaque"
	}
	return e, kind
}

func (g *G) validPacket(dec string) []byte {
	var m util.Message
	switch dec {
	case "eth":
		m, _ = g.ethernet()
	case "arp":
		m = g.arp()
	case "ip4":
		m = g.ipv4()
	case "ip6":
		m = g.ipv6()
	case "icmp":
		m, _ = g.l4(1)
	case "udp":
		m, _ = g.l4(2)
	case "tcp":
		t := protocol.NewTCP()
		t.PortSrc, t.PortDst, t.SeqNum, t.AckNum = uint16(g.r.Bits(16)), uint16(g.r.Bits(16)), uint32(g.r.Bits(32)), uint32(g.r.Bits(32))
		t.HdrLen, t.Code, t.WinSize, t.Checksum, t.UrgFlag = uint8(g.r.Bits(4)), uint8(g.r.Bits(6)), uint16(g.r.Bits(16)), uint16(g.r.Bits(16)), uint16(g.r.Bits(16))
		t.Data = g.r.Bytes(g.r.Geom(8, 40))
		m = t
	case "hbh":
		return g.ipv6Ext(0)
	case "routing":
		return g.ipv6Ext(1)
	case "fragment":
		return g.ipv6Ext(2)
	case "igmp12", "igmp3q", "igmp3gr", "igmp3r":
		m, _ = g.recValue(dec)
	case "vlan", "option", "dhcp", "lldp", "lldpchassis", "lldpport", "lldpttl":
		m, _ = g.recValue(dec)
	case "dhcpopts":
		m, _ = g.recValue("dhcp")
		var b []byte
		func() {
			defer func() { recover() }()
			b, _ = m.MarshalBinary()
		}()
		if len(b) > 240 {
			return b[240:]
		}
		return b
	default:
		return g.r.Bytes(g.r.Geom(40, 300))
	}
	var b []byte
	func() {
		defer func() { recover() }()
		b, _ = m.MarshalBinary()
	}()
	return b
}

func (g *G) ipv6Ext(k int) []byte {
	for {
		ip := g.ipv6()
		var m util.Message
		switch k {
		case 0:
			if ip.HbhHeader != nil {
				m = ip.HbhHeader
			}
		case 1:
			if ip.RoutingHeader != nil {
				m = ip.RoutingHeader
			}
		case 2:
			if ip.FragmentHeader != nil {
				m = ip.FragmentHeader
			}
		}
		if m != nil {
			b, _ := m.MarshalBinary()
			return append(b, g.r.Bytes(g.r.Intn(20))...)
		}
	}
}

// mutate produces malformed variants of a valid packet
func (g *G) mutate(b []byte) []byte {
	c := append([]byte{}, b...)
	if len(c) == 0 {
		return c
	}
	switch g.r.Intn(6) {
	case 0: // truncate
		return c[:g.r.Intn(len(c))]
	case 1: // set a byte in the first 64 to a boundary value (length-like fields live there)
		i := g.r.Intn(min(len(c), 64))
		c[i] = []byte{0, 1, 0x7f, 0x80, 0xfe, 0xff}[g.r.Intn(6)]
	case 2: // random byte flips
		for k := 0; k < 1+g.r.Intn(4); k++ {
			c[g.r.Intn(len(c))] = byte(g.r.U64())
		}
	case 3: // boundary byte then truncate
		i := g.r.Intn(min(len(c), 64))
		c[i] = []byte{0, 1, 0xfe, 0xff}[g.r.Intn(4)]
		return c[:g.r.Intn(len(c)+1)]
	case 4: // extend
		c = append(c, g.r.Bytes(g.r.Intn(40))...)
	case 5: // two boundary bytes
		for k := 0; k < 2; k++ {
			c[g.r.Intn(min(len(c), 48))] = []byte{0, 1, 0xfe, 0xff}[g.r.Intn(4)]
		}
	}
	return c
}

func runC08(seed uint64, tier, dir, replay string) error {
	o := NewOut(dir, "C08", 16, "From LOF Require Import Corr.Pkt.", "check08")
	rng := NewRng(seed)
	g := NewG(rng)
	pool := &WorkerPool{}
	defer pool.Close()
	per := 180
	if tier == "thorough" {
		per = 4000
	}
	names := []string{"eth", "arp", "ip4", "ip6", "icmp", "udp", "tcp", "hbh", "routing", "fragment", "vlan", "option",
		"igmp12", "igmp3q", "igmp3gr", "igmp3r", "dhcp", "dhcpopts", "lldp", "lldpchassis", "lldpport", "lldpttl"}
	var direct []map[string]interface{}
	outcomes := map[string]int{}
	for _, dec := range names {
		// truncation of one valid packet at every offset
		base := g.validPacket(dec)
		var inputs [][]byte
		var kinds []string
		// three valid packets of different shapes, each cut at every offset; for Ethernet one
		// of them is tagged and one is not
		bases := [][]byte{base, g.validPacket(dec), g.validPacket(dec)}
		if dec == "eth" {
			for tries := 0; tries < 50 && !(len(bases[1]) > 13 && bases[1][12] == 0x81 && bases[1][13] == 0); tries++ {
				bases[1] = g.validPacket(dec)
			}
			for tries := 0; tries < 50 && len(bases[2]) > 13 && bases[2][12] == 0x81 && bases[2][13] == 0; tries++ {
				bases[2] = g.validPacket(dec)
			}
		}
		if dec == "ip4" { // one of them with options
			for tries := 0; tries < 50 && !(len(bases[1]) > 0 && bases[1][0]&15 > 5); tries++ {
				bases[1] = g.validPacket(dec)
			}
		}
		for _, bb := range bases {
			for k := 0; k <= len(bb) && k <= 120; k++ {
				inputs = append(inputs, bb[:k])
				kinds = append(kinds, "truncation")
			}
		}
		// every 16-bit field in the first 12 bytes at every small value (a length smaller than the
		// header it sits in, between two header sizes, just beyond the data)
		for _, bb := range bases[:2] {
			for pos := 0; pos+1 < len(bb) && pos < 12; pos += 2 {
				for v := 0; v <= 72; v++ {
					c := append([]byte{}, bb...)
					c[pos], c[pos+1] = 0, byte(v)
					inputs = append(inputs, c)
					kinds = append(kinds, "small-length-sweep")
				}
			}
		}
		// every length-like byte position x boundary values on the first bytes
		for i := 0; i < len(base) && i < 24; i++ {
			for _, v := range []byte{0, 1, 0xfe, 0xff} {
				c := append([]byte{}, base...)
				c[i] = v
				inputs = append(inputs, c)
				kinds = append(kinds, "boundary-byte")
			}
		}
		for k := 0; k < per; k++ {
			v := g.validPacket(dec)
			if k%4 == 0 {
				inputs = append(inputs, v)
				kinds = append(kinds, "valid")
			} else {
				inputs = append(inputs, g.mutate(v))
				kinds = append(kinds, "mutated")
			}
		}
		if dec == "igmp3q" || dec == "igmp3gr" {
			// source counts whose size computation wraps around 16 bits, on data of several lengths
			for _, cnt := range []int{16381, 16382, 16383, 32768, 49150, 65535} {
				for _, ln := range []int{12, 16, 24, 64, 300} {
					c := make([]byte, ln)
					copy(c, base)
					if dec == "igmp3q" {
						c[0] = 0x11
						c[10], c[11] = byte(cnt>>8), byte(cnt)
					} else {
						c[1] = byte(cnt) // aux data length
						c[2], c[3] = byte(cnt>>8), byte(cnt)
					}
					inputs = append(inputs, c)
					kinds = append(kinds, "count-wrap")
				}
			}
		}
		if dec == "igmp3r" {
			// a group record of exactly 65536 bytes (16382 sources): its 16-bit size is 0
			for _, ng := range []int{3, 200, 65535} {
				c := make([]byte, 8+65536)
				c[0], c[6], c[7] = 0x22, byte(ng>>8), byte(ng)
				c[8], c[10], c[11] = 1, 0x3f, 0xfe
				inputs = append(inputs, c)
				kinds = append(kinds, "record-size-wrap")
			}
		}
		if dec == "eth" {
			for _, nb := range v6Extremes(tier == "thorough") {
				inputs = append(inputs, nb.b)
				kinds = append(kinds, "v6-extreme")
			}
		}
		if dec == "ip6" {
			for _, nb := range v6Extremes(tier == "thorough") {
				inputs = append(inputs, nb.b[14:])
				kinds = append(kinds, "v6-extreme")
			}
		}
		for i, in := range inputs {
			r := pool.Run(dec, in)
			oc := []string{"value", "error", "panic", "hang", "memory", "neither"}[r.outcome]
			outcomes[dec+"/"+oc]++
			cmp := 0
			if kinds[i] == "valid" && r.outcome == 0 && pktDecCode[dec] < 100 {
				cmp = 1
			}
			js := map[string]interface{}{"kind": "decode:" + dec, "input_kind": kinds[i], "input": hexs(in), "outcome": oc, "reencoded": hexs(r.re), "detail": r.extra}
			term := fmt.Sprintf("(Pk %d %s %d %s %d)", pktDecCode[dec], packBytes(in), r.outcome, packBytes(r.re), cmp)
			if pktDecCode[dec] >= 100 {
				// the record kinds: the model decodes every input; the re-encoding and the reported size of
				// whatever was decoded are compared too (inputs below 64 KiB: beyond, the 16-bit sizes wrap)
				cmp = 0
				if r.outcome == 0 && r.extra != "reencode-panic" && len(in) < 65536 {
					cmp = 2
					if r.lenv < 0 || dec == "lldpchassis" || dec == "lldpport" || dec == "lldpttl" || dec == "dhcpopts" {
						cmp = 1
					}
				}
				js["reported_len"] = r.lenv
				term = fmt.Sprintf("(Pk2 %d %s %d %s %d %d)", pktDecCode[dec], packBytes(in), r.outcome, packBytes(r.re), max0(r.lenv), cmp)
			}
			idx := o.Add(term, js, "decode:"+dec, fmt.Sprintf("%s/%s/%d", kinds[i], oc, len(in)/8))
			if r.outcome >= 2 {
				direct = append(direct, map[string]interface{}{"what": fmt.Sprintf("%s decoder: %s on %d bytes (%s)", dec, oc, len(in), r.extra), "index": idx, "case": js})
			}
		}
	}
	if len(direct) > 40 {
		direct = direct[:40]
	}
	if len(direct) > 0 {
		o.Meta["direct_violations"] = direct
	}
	o.Meta["outcomes"] = outcomes
	o.Meta["rule"] = "per decoder (Ethernet+VLAN, ARP, IPv4, IPv6, ICMP, UDP, TCP, hop-by-hop, routing, fragment, VLAN, IPv6 option, IGMPv1/2, IGMPv3 query / group record / report, DHCP, DHCP options, LLDP and its three TLVs): truncation of three valid packets of different shapes (Ethernet: tagged and untagged) at every offset (<=120), every 16-bit field of the first 12 bytes at every value 0..72, every one of the first 24 bytes set to 0/1/0xfe/0xff, random valid packets and structure-aware mutations (truncate, boundary bytes, flips, extension); Ethernet/IPv6 packets whose extension headers carry Hdr Ext Len 0/1/31/254/255 and are long enough to hold them; IGMPv3 source / aux counts at the values where 16-bit size arithmetic wraps, a membership report holding a group record of exactly 65536 bytes; for the kinds not reached from Ethernet (802.1Q tag, IPv6 option, IGMP, DHCP, LLDP) the valid packets are encodings of generated well-formed values and the model's re-encoding and reported size of every decoded value are compared with the implementation's; each decode runs in a worker subprocess under a 3 s wall-clock limit, a 1 GiB heap limit and an allocation budget of 512 bytes per input byte + 256 KiB and a processor-time budget of 30 us per input byte + 0.4 s (ten times what the slowest legitimate decode needs); distinct by decoder x input kind x outcome x size bucket"
	return o.Close()
}

func runC09(seed uint64, tier, dir, replay string) error {
	o := NewOut(dir, "C09", 16, "From LOF Require Import Corr.Pkt.", "check09")
	rng := NewRng(seed)
	g := NewG(rng)
	pool := &WorkerPool{}
	defer pool.Close()
	n := 700
	if tier == "thorough" {
		n = 20000
	}
	var directEnc []map[string]interface{}
	// (a) frames: encode -> decode -> encode, demux tag, reported size
	for i := 0; i < n; i++ {
		e, kind := g.ethernet()
		if rng.Intn(12) == 0 { // the priority-tag shape: vid 0, priority set
			e.VLANID.VID, e.VLANID.PCP = 0, uint8(1+rng.Intn(7))
			kind = "priority-tagged" + kind[len(kind)-len(kind[indexByte(kind, '/'):]):]
		}
		b, err, pan := marshalGuard(e)
		if pan != "" {
			directEnc = append(directEnc, map[string]interface{}{"what": fmt.Sprintf("encoding a %s frame panics: %s", kind, pan), "index": -1,
				"case": map[string]interface{}{"kind": "frame:" + kind, "fields": canonString(e), "panic": pan}})
			continue
		}
		if err != nil {
			continue
		}
		tagged := 0
		if e.VLANID.VID != 0 || e.VLANID.PCP != 0 || e.VLANID.DEI != 0 {
			tagged = 1
		}
		want := canonHash(e)
		r := pool.Run("eth", b)
		same := 0
		if r.chash == want {
			same = 1
		}
		tag := 0
		fmt.Sscanf(r.extra, "tag%d", &tag)
		js := map[string]interface{}{"kind": "frame:" + kind, "bytes": hexs(b), "len": e.Len(), "reencoded": hexs(r.re), "payload_tag": r.extra, "outcome": r.outcome, "fields_equal": same == 1,
			"vlan": map[string]interface{}{"vid": e.VLANID.VID, "pcp": e.VLANID.PCP, "dei": e.VLANID.DEI}}
		if same == 0 {
			js["fields_before"] = canonString(e)
		}
		o.Add(fmt.Sprintf("(Frame %s %d %d %s %d %d %d %d %d %d)", packBytes(b), e.Len(), r.outcome, packBytes(r.re), tag, r.lenv,
			tagged, uint64(e.VLANID.PCP)<<13|uint64(e.VLANID.DEI)<<12|uint64(e.VLANID.VID), e.Ethertype, same),
			js, "frame:"+kind, fmt.Sprintf("%d/%d", len(b)/16, tag))
	}
	// (b) bit lanes, exhaustively for the 8/16-bit groups
	addLane := func(name string, code int, words []uint64) {
		o.Add(fmt.Sprintf("(Lane %d %s)", code, intList(words)), map[string]interface{}{"kind": "lane:" + name, "count": len(words)}, "lane:"+name, fmt.Sprint(words[0]))
	}
	// VLAN TCI: all 65536 words decoded, and re-encoded
	for base := 0; base < 65536; base += 2048 {
		ws := make([]uint64, 0, 2048)
		for k := 0; k < 2048; k++ {
			w := uint16(base + k)
			v := new(protocol.VLAN)
			v.UnmarshalBinary([]byte{0x81, 0, byte(w >> 8), byte(w)})
			re, _ := v.MarshalBinary()
			ws = append(ws, uint64(w)|uint64(v.PCP)<<16|uint64(v.DEI)<<24|uint64(v.VID)<<32|uint64(re[2])<<56>>8|uint64(re[3])<<40>>0&0)
			ws[len(ws)-1] = uint64(w) | uint64(v.PCP)<<16 | uint64(v.DEI)<<20 | uint64(v.VID)<<24 | (uint64(re[2])<<8|uint64(re[3]))<<40
		}
		addLane("vlan-tci", 0, ws)
	}
	// IPv4 byte 0, byte 1, flags/fragment word
	{
		ws := make([]uint64, 0, 256)
		for b := 0; b < 256; b++ {
			hdr := make([]byte, 20)
			hdr[0], hdr[1] = byte(b)&0xf0|5, byte(b)
			ip := new(protocol.IPv4)
			ip.UnmarshalBinary(hdr)
			hdr2 := make([]byte, 20)
			hdr2[0] = byte(b)
			ip2 := new(protocol.IPv4)
			func() { defer func() { recover() }(); ip2.UnmarshalBinary(append(hdr2, make([]byte, 60)...)) }()
			ws = append(ws, uint64(b)|uint64(ip.DSCP)<<8|uint64(ip.ECN)<<16|uint64(ip2.Version)<<24|uint64(ip2.IHL)<<32)
		}
		addLane("ipv4-bytes", 1, ws)
	}
	for base := 0; base < 65536; base += 2048 {
		ws := make([]uint64, 0, 2048)
		for k := 0; k < 2048; k++ {
			w := uint16(base + k)
			hdr := make([]byte, 20)
			hdr[0], hdr[6], hdr[7] = 0x45, byte(w>>8), byte(w)
			ip := new(protocol.IPv4)
			ip.UnmarshalBinary(hdr)
			re, _ := ip.MarshalBinary()
			ws = append(ws, uint64(w)|uint64(ip.Flags)<<16|uint64(ip.FragmentOffset)<<24|(uint64(re[6])<<8|uint64(re[7]))<<40)
		}
		addLane("ipv4-flags-frag", 2, ws)
	}
	// IPv6 fragment offset / M
	for base := 0; base < 65536; base += 2048 {
		ws := make([]uint64, 0, 2048)
		for k := 0; k < 2048; k++ {
			w := uint16(base + k)
			h := protocol.NewFragmentHeader()
			h.UnmarshalBinary([]byte{0, 0, byte(w >> 8), byte(w), 0, 0, 0, 0})
			re, _ := h.MarshalBinary()
			m := uint64(0)
			if h.MoreFragments {
				m = 1
			}
			ws = append(ws, uint64(w)|uint64(h.FragmentOffset)<<16|m<<32|(uint64(re[2])<<8|uint64(re[3]))<<40)
		}
		addLane("ipv6-frag", 3, ws)
	}
	// TCP offset / flags bytes
	{
		ws := make([]uint64, 0, 256)
		for b := 0; b < 256; b++ {
			hdr := make([]byte, 20)
			hdr[12], hdr[13] = byte(b), byte(b)
			t := protocol.NewTCP()
			t.UnmarshalBinary(hdr)
			re, _ := t.MarshalBinary()
			ws = append(ws, uint64(b)|uint64(t.HdrLen)<<8|uint64(t.Code)<<16|uint64(re[12])<<24|uint64(re[13])<<32)
		}
		addLane("tcp-bytes", 4, ws)
	}
	// IPv6 first word: random and boundary words
	{
		ws := make([]uint64, 0, 2048)
		for k := 0; k < 2048; k++ {
			w := uint32(rng.Bits(32))
			hdr := make([]byte, 40)
			hdr[0], hdr[1], hdr[2], hdr[3] = byte(w>>24), byte(w>>16), byte(w>>8), byte(w)
			hdr[6] = 59
			ip := new(protocol.IPv6)
			ip.UnmarshalBinary(hdr)
			re, _ := ip.MarshalBinary()
			rw := uint64(re[0])<<24 | uint64(re[1])<<16 | uint64(re[2])<<8 | uint64(re[3])
			ws = append(ws, uint64(w), uint64(ip.Version)|uint64(ip.TrafficClass)<<8|uint64(ip.FlowLabel)<<16, rw)
		}
		addLane("ipv6-word0", 5, ws)
	}
	// IGMPv3 S / QRV byte
	{
		ws := make([]uint64, 0, 256)
		for b := 0; b < 256; b++ {
			d := make([]byte, 12)
			d[8] = byte(b)
			q := new(protocol.IGMPv3Query)
			q.UnmarshalBinary(d)
			re, _ := q.MarshalBinary()
			s := uint64(0)
			if q.SuppressRouterProcessing {
				s = 1
			}
			ws = append(ws, uint64(b)|s<<8|uint64(q.RobustnessValue)<<16|uint64(re[8])<<24)
		}
		addLane("igmpv3-sqrv", 6, ws)
	}
	// (c) the kinds that are not reached from the Ethernet decoder: well-formed values through
	// encode -> decode -> encode, with the value itself given to the model
	nrec := 60
	if tier == "thorough" {
		nrec = 1500
	}
	for _, kind := range recKinds {
		for i := 0; i < nrec; i++ {
			m, term := g.recValue(kind)
			want := canonHash(canonOf(m))
			len0 := 0
			func() {
				defer func() { recover() }()
				len0 = int(m.Len())
			}()
			b, err, pan := marshalGuard(m)
			if pan != "" {
				directEnc = append(directEnc, map[string]interface{}{"what": fmt.Sprintf("encoding a %s value panics: %s", kind, pan), "index": -1,
					"case": map[string]interface{}{"kind": "value:" + kind, "fields": canonString(canonOf(m)), "panic": pan}})
				continue
			}
			if err != nil {
				directEnc = append(directEnc, map[string]interface{}{"what": fmt.Sprintf("encoding a well-formed %s value fails: %v", kind, err), "index": -1,
					"case": map[string]interface{}{"kind": "value:" + kind, "fields": canonString(canonOf(m))}})
				continue
			}
			r := pool.Run(kind, b)
			same := 0
			if r.chash == want {
				same = 1
			}
			js := map[string]interface{}{"kind": "value:" + kind, "fields": canonString(canonOf(m)), "bytes": hexs(b), "len": len0, "outcome": r.outcome,
				"reencoded": hexs(r.re), "len_after": r.lenv, "fields_equal": same == 1}
			o.Add(fmt.Sprintf("(Rt %s %s %d %d %s %d %d)", term, packBytes(b), len0, r.outcome, packBytes(r.re), max0(r.lenv), same),
				js, "value:"+kind, fmt.Sprintf("%d", len(b)/16))
		}
	}
	if len(directEnc) > 0 {
		o.Meta["direct_violations"] = directEnc
	}
	o.Meta["rule"] = "random well-formed values of the kinds not reached from Ethernet (802.1Q tag, IPv6 option, IGMP v1/v2 through every constructor, IGMPv3 query / group record with auxiliary words / report, DHCP through every constructor with pad, address, address-list, string and raw options of 0..253 bytes, LLDP chassis / port / TTL TLVs and the LLDP header) through encode -> decode -> encode, the value itself evaluated by the model (encoding, reported size, decode of the encoding); random well-formed Ethernet frames (untagged / tagged incl. the priority-tag shape VID 0, payloads IPv4 with options + ICMP/UDP/opaque, IPv6 with extension-header chains of length 0..3 in all orders each header at most once, ARP, opaque) through MarshalBinary -> UnmarshalBinary -> MarshalBinary with the payload decoder chosen and the reported size; bit lanes exhaustively for VLAN TCI, IPv4 version/IHL, DSCP/ECN, flags/fragment offset, IPv6 fragment offset/M, TCP offset/flags, IGMPv3 S/QRV, sampled for the IPv6 first word; distinct by frame kind x size bucket x payload tag / lane block"
	o.Meta["exhaustive"] = false
	return o.Close()
}

func indexByte(s string, c byte) int {
	for i := 0; i < len(s); i++ {
		if s[i] == c {
			return i
		}
	}
	return 0
}

// marshalGuard encodes and reports a panic as text
func marshalGuard(m util.Message) (b []byte, err error, pan string) {
	defer func() {
		if r := recover(); r != nil {
			pan = fmt.Sprint(r)
		}
	}()
	b, err = m.MarshalBinary()
	return
}
