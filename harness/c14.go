package main

import (
	"bytes"
	"fmt"
	"github.com/contiv/libOpenflow/protocol"
	"sort"
	"sync"

	"github.com/contiv/libOpenflow/common"
	of "github.com/contiv/libOpenflow/openflow13"
	"github.com/contiv/libOpenflow/util"
)

func init() { props["C14"] = runC14 }

// draw n ids on g goroutines starting from counter value c0; returns the sorted ids
func drawIDs(c0 uint32, g, per int) []uint32 {
	common.VerifSetXid(c0)
	all := make([][]uint32, g)
	var wg sync.WaitGroup
	start := make(chan struct{})
	for i := 0; i < g; i++ {
		wg.Add(1)
		go func(i int) {
			defer wg.Done()
			ids := make([]uint32, per)
			// the generator of whatever protocol version: one goroutine in four draws through a
			// generator of its own for version 1, 4 or 5 - the ids of the process share one counter
			var gen func() common.Header
			if i%4 == 3 {
				gen = common.NewHeaderGenerator([]int{1, 4, 5}[i/4%3])
			}
			<-start
			for k := range ids {
				if gen != nil {
					ids[k] = gen().Xid
				} else {
					ids[k] = of.NewOfp13Header().Xid
				}
			}
			all[i] = ids
		}(i)
	}
	close(start)
	wg.Wait()
	var flat []uint32
	for _, a := range all {
		flat = append(flat, a...)
	}
	sort.Slice(flat, func(i, j int) bool { return flat[i] < flat[j] })
	return flat
}

func runC14(seed uint64, tier, dir, replay string) error {
	o := NewOut(dir, "C14", 8, "From LOF Require Import Corr.C14.", "check14")
	rng := NewRng(seed)
	// (a) ids: many goroutines, several starting points incl. the wrap-around edge
	rounds := 12
	big := 10000
	if tier == "thorough" {
		rounds, big = 60, 100000
	}
	for r := 0; r < rounds; r++ {
		g := []int{2, 3, 4, 8, 16, 32, 64}[rng.Intn(7)]
		per := 1 + rng.Intn(60)
		c0 := uint32(rng.Bits(32))
		switch rng.Intn(4) {
		case 0:
			c0 = uint32(0xffffffff) - uint32(rng.Intn(g*per+1)) // wraps inside this round
		case 1:
			c0 = 0
		}
		ids := drawIDs(c0, g, per)
		xs := make([]uint64, len(ids))
		for i, v := range ids {
			xs[i] = uint64(v)
		}
		o.Add(fmt.Sprintf("(Draws %d %d %s)", c0, len(ids), intList(xs)),
			map[string]interface{}{"kind": "draws", "goroutines": g, "per_goroutine": per, "counter_before": c0, "ids_sorted_head": ids[:min(len(ids), 8)]},
			"draws", fmt.Sprintf("%d/%d/%v", g, per, c0 > 0xffff0000))
	}
	// large rounds: only the statistics travel
	for _, g := range []int{2, 16, 64} {
		c0 := uint32(rng.Bits(31))
		ids := drawIDs(c0, g, big/g)
		distinct := 1
		for i := 1; i < len(ids); i++ {
			if ids[i] != ids[i-1] {
				distinct++
			}
		}
		o.Add(fmt.Sprintf("(DrawStats %d %d %d %d %d)", c0, len(ids), distinct, ids[0], ids[len(ids)-1]),
			map[string]interface{}{"kind": "draw-stats", "goroutines": g, "count": len(ids), "distinct": distinct, "min": ids[0], "max": ids[len(ids)-1], "counter_before": c0},
			"draw-stats", fmt.Sprint(g))
	}
	// (b) independent values built, encoded and parsed concurrently = sequentially
	workers := 32
	jobsPer := 25
	if tier == "thorough" {
		jobsPer = 200
	}
	type job struct{ seed uint64 }
	runJob := func(s uint64) []byte {
		g := NewG(NewRng(s))
		var out bytes.Buffer
		for k := 0; k < 4; k++ {
			var m util.Message
			func() {
				defer func() {
					if r := recover(); r != nil {
						out.WriteString("PANIC")
					}
				}()
				mm, _, _, _ := g.message(0)
				m = mm
				b, _ := m.MarshalBinary()
				if len(b) >= 8 {
					copy(b[4:8], []byte{0, 0, 0, 0}) // forget the transaction id
				}
				out.Write(b)
				if p, err := of.Parse(b); err == nil && p != nil {
					rb, _ := p.MarshalBinary()
					out.Write(rb)
				}
				f, _ := g.mf()
				fb, _ := f.MarshalBinary()
				out.Write(fb)
				// packet headers too: a frame through encode and decode, a registry lookup by a
				// lower-case name, and DHCP messages with a library-drawn id (the id is erased: only
				// the library's state behind it is of interest here)
				e, _ := g.ethernet()
				if eb, err := e.MarshalBinary(); err == nil {
					out.Write(eb)
					d := new(protocol.Ethernet)
					if d.UnmarshalBinary(eb) == nil {
						rb, _ := d.MarshalBinary()
						out.Write(rb)
					}
				}
				if h, err := of.FindFieldHeaderByName([]string{"nxm_nx_reg3", "Nxm_Nx_Ct_Mark", "oxm_of_eth_dst", "NXM_NX_XXREG1"}[g.r.Intn(4)], g.r.Bool()); err == nil {
					out.Write([]byte{byte(h.Class >> 8), byte(h.Class), h.Field, h.Length})
				}
				if dh, err := protocol.NewDHCPDiscover(0, g.r.Bytes(6)); err == nil {
					dh.Xid = 0
					db := make([]byte, dh.Len())
					n, _ := dh.Read(db)
					out.Write(db[:n])
				}
			}()
		}
		return out.Bytes()
	}
	seeds := make([][]uint64, workers)
	ref := make([][][]byte, workers)
	for w := range seeds {
		seeds[w] = make([]uint64, jobsPer)
		ref[w] = make([][]byte, jobsPer)
		for k := range seeds[w] {
			seeds[w][k] = rng.U64()
			ref[w][k] = runJob(seeds[w][k])
		}
	}
	got := make([][][]byte, workers)
	var wg sync.WaitGroup
	for w := 0; w < workers; w++ {
		wg.Add(1)
		go func(w int) {
			defer wg.Done()
			got[w] = make([][]byte, jobsPer)
			for k, s := range seeds[w] {
				got[w][k] = runJob(s)
			}
		}(w)
	}
	wg.Wait()
	mismatch := 0
	for w := range got {
		for k := range got[w] {
			if !bytes.Equal(got[w][k], ref[w][k]) {
				mismatch++
			}
		}
	}
	o.Add(fmt.Sprintf("(Conc %d %d %d)", workers, workers*jobsPer, mismatch),
		map[string]interface{}{"kind": "concurrent-work", "goroutines": workers, "jobs": workers * jobsPer, "mismatches": mismatch}, "concurrent-work", "w")
	o.Meta["rule"] = "transaction ids drawn by 2..64 goroutines (through NewOfp13Header and through generators of their own for versions 1, 4 and 5) from random counter values incl. values that wrap inside the round (all ids travel, sorted) and large rounds (statistics only); 32 goroutines building, encoding and parsing independent messages of all controller kinds, match fields, Ethernet frames, DHCP messages with library-drawn ids and registry lookups by mixed-case names, compared byte for byte (ids erased) with a sequential run of the same jobs; the harness is built with -race; distinct by goroutines x draws x wrap"
	return o.Close()
}
