package main

// Generators of controller-side values: every generator calls the real constructors /
// adders of the library and, in step, writes the recipe of those calls as a Gallina term
// of Model/Build.v. All randomness comes from the one Rng.

import (
	"fmt"
	"net"
	"sort"
	"strings"

	"github.com/contiv/libOpenflow/common"
	of "github.com/contiv/libOpenflow/openflow13"
	"github.com/contiv/libOpenflow/util"
)

type G struct {
	exact      bool // addresses exactly as wide as their fields (for field-by-field round trips)
	r          *Rng
	names      []string
	kinds      map[string]int // element kinds used in the current case
	swXid      uint32
	swRecipe   string   // Gallina term of the last switch-side value ("" when it has no recipe model)
	late       []func() // nested actions a conntrack action still has to receive, after it was handed to its container
	deferFlush int      // > 0: flushLate is postponed (the bundle-add builder completes the inner message after wrapping it)
	forceKind  int      // >= 0: the next message() builds this kind
}

func NewG(r *Rng) *G {
	n := of.VerifRegistryNames()
	sort.Strings(n)
	return &G{r: r, names: n, kinds: map[string]int{}, forceKind: -1}
}

func (g *G) use(k string) { g.kinds[k]++ }

// flushLate performs the held-back ct.AddAction calls: the conntrack action grows after it has
// been added to its instruction / bucket / packet-out / enclosing conntrack action.  The
// recipe is the same as for the bottom-up order: the encoding must not depend on the order.
func (g *G) flushLate() {
	if g.deferFlush > 0 { // an enclosing builder wants the value wrapped (and sized) before it is completed
		return
	}
	for len(g.late) > 0 {
		f := g.late[0]
		g.late = g.late[1:]
		f()
	}
}

func bterm(b []byte) string { return "(unpack " + packBytes(b) + ")" }
func boolt(b bool) string {
	if b {
		return "true"
	}
	return "false"
}
func optN(has bool, v uint64) string {
	if has {
		return fmt.Sprintf("(Some %d)", v)
	}
	return "None"
}
func listT(xs []string) string { return "[" + strings.Join(xs, "; ") + "]" }

// ip4 returns a net.IP in one of its representations and the bytes To4() gives
func (g *G) ip4() (net.IP, []byte) {
	b := g.r.Bytes(4)
	switch g.r.Intn(3) {
	case 0:
		ip := net.IP(append([]byte{}, b...))
		return ip, b
	default:
		ip := net.IPv4(b[0], b[1], b[2], b[3]) // 16-byte form
		return ip, b
	}
}

// ------------------------------------------------------------------ match fields

type mfCtor struct {
	code  int
	width int
	fl    int // 0 uint, 1 bytes, 2 ip4, 3 vlan
	mask  bool
	mk    func(g *G, v uint64, vb []byte, ip net.IP, hasMask bool, m uint64, mb []byte, mip net.IP) *of.MatchField
}

func hw(b []byte) net.HardwareAddr { return net.HardwareAddr(b) }

var mfCtors = []mfCtor{
	{0, 4, 0, false, func(g *G, v uint64, vb []byte, ip net.IP, h bool, m uint64, mb []byte, mip net.IP) *of.MatchField {
		return of.NewInPortField(uint32(v))
	}},
	{1, 6, 1, true, func(g *G, v uint64, vb []byte, ip net.IP, h bool, m uint64, mb []byte, mip net.IP) *of.MatchField {
		if h {
			x := hw(mb)
			return of.NewEthDstField(hw(vb), &x)
		}
		return of.NewEthDstField(hw(vb), nil)
	}},
	{2, 6, 1, true, func(g *G, v uint64, vb []byte, ip net.IP, h bool, m uint64, mb []byte, mip net.IP) *of.MatchField {
		if h {
			x := hw(mb)
			return of.NewEthSrcField(hw(vb), &x)
		}
		return of.NewEthSrcField(hw(vb), nil)
	}},
	{3, 2, 0, false, func(g *G, v uint64, vb []byte, ip net.IP, h bool, m uint64, mb []byte, mip net.IP) *of.MatchField {
		return of.NewEthTypeField(uint16(v))
	}},
	{4, 2, 3, true, func(g *G, v uint64, vb []byte, ip net.IP, h bool, m uint64, mb []byte, mip net.IP) *of.MatchField {
		if h {
			x := uint16(m)
			return of.NewVlanIdField(uint16(v), &x)
		}
		return of.NewVlanIdField(uint16(v), nil)
	}},
	{5, 4, 0, false, func(g *G, v uint64, vb []byte, ip net.IP, h bool, m uint64, mb []byte, mip net.IP) *of.MatchField {
		return of.NewMplsLabelField(uint32(v))
	}},
	{6, 1, 0, false, func(g *G, v uint64, vb []byte, ip net.IP, h bool, m uint64, mb []byte, mip net.IP) *of.MatchField {
		return of.NewMplsBosField(uint8(v))
	}},
	{7, 4, 2, true, func(g *G, v uint64, vb []byte, ip net.IP, h bool, m uint64, mb []byte, mip net.IP) *of.MatchField {
		if h {
			return of.NewIpv4SrcField(ip, &mip)
		}
		return of.NewIpv4SrcField(ip, nil)
	}},
	{8, 4, 2, true, func(g *G, v uint64, vb []byte, ip net.IP, h bool, m uint64, mb []byte, mip net.IP) *of.MatchField {
		if h {
			return of.NewIpv4DstField(ip, &mip)
		}
		return of.NewIpv4DstField(ip, nil)
	}},
	{9, 16, 1, true, func(g *G, v uint64, vb []byte, ip net.IP, h bool, m uint64, mb []byte, mip net.IP) *of.MatchField {
		if h {
			x := net.IP(mb)
			return of.NewIpv6SrcField(net.IP(vb), &x)
		}
		return of.NewIpv6SrcField(net.IP(vb), nil)
	}},
	{10, 16, 1, true, func(g *G, v uint64, vb []byte, ip net.IP, h bool, m uint64, mb []byte, mip net.IP) *of.MatchField {
		if h {
			x := net.IP(mb)
			return of.NewIpv6DstField(net.IP(vb), &x)
		}
		return of.NewIpv6DstField(net.IP(vb), nil)
	}},
	{11, 4, 0, true, func(g *G, v uint64, vb []byte, ip net.IP, h bool, m uint64, mb []byte, mip net.IP) *of.MatchField {
		if h {
			x := uint32(m)
			return of.NewIPV6FlowLabelField(uint32(v), &x)
		}
		return of.NewIPV6FlowLabelField(uint32(v), nil)
	}},
	{12, 1, 0, false, func(g *G, v uint64, vb []byte, ip net.IP, h bool, m uint64, mb []byte, mip net.IP) *of.MatchField {
		return of.NewIpProtoField(uint8(v))
	}},
	{13, 1, 0, false, func(g *G, v uint64, vb []byte, ip net.IP, h bool, m uint64, mb []byte, mip net.IP) *of.MatchField {
		return of.NewIpDscpField(uint8(v))
	}},
	{14, 8, 0, false, func(g *G, v uint64, vb []byte, ip net.IP, h bool, m uint64, mb []byte, mip net.IP) *of.MatchField {
		return of.NewTunnelIdField(v)
	}},
	{15, 8, 0, true, func(g *G, v uint64, vb []byte, ip net.IP, h bool, m uint64, mb []byte, mip net.IP) *of.MatchField {
		if h {
			return of.NewMetadataField(v, &m)
		}
		return of.NewMetadataField(v, nil)
	}},
	{16, 2, 0, false, func(g *G, v uint64, vb []byte, ip net.IP, h bool, m uint64, mb []byte, mip net.IP) *of.MatchField {
		return of.NewTcpSrcField(uint16(v))
	}},
	{17, 2, 0, false, func(g *G, v uint64, vb []byte, ip net.IP, h bool, m uint64, mb []byte, mip net.IP) *of.MatchField {
		return of.NewTcpDstField(uint16(v))
	}},
	{18, 2, 0, false, func(g *G, v uint64, vb []byte, ip net.IP, h bool, m uint64, mb []byte, mip net.IP) *of.MatchField {
		return of.NewUdpSrcField(uint16(v))
	}},
	{19, 2, 0, false, func(g *G, v uint64, vb []byte, ip net.IP, h bool, m uint64, mb []byte, mip net.IP) *of.MatchField {
		return of.NewUdpDstField(uint16(v))
	}},
	{20, 2, 0, true, func(g *G, v uint64, vb []byte, ip net.IP, h bool, m uint64, mb []byte, mip net.IP) *of.MatchField {
		if h {
			x := uint16(m)
			return of.NewTcpFlagsField(uint16(v), &x)
		}
		return of.NewTcpFlagsField(uint16(v), nil)
	}},
	{21, 2, 0, false, func(g *G, v uint64, vb []byte, ip net.IP, h bool, m uint64, mb []byte, mip net.IP) *of.MatchField {
		return of.NewArpOperField(uint16(v))
	}},
	{22, 4, 2, true, func(g *G, v uint64, vb []byte, ip net.IP, h bool, m uint64, mb []byte, mip net.IP) *of.MatchField {
		if h {
			return of.NewTunnelIpv4SrcField(ip, &mip)
		}
		return of.NewTunnelIpv4SrcField(ip, nil)
	}},
	{23, 4, 2, true, func(g *G, v uint64, vb []byte, ip net.IP, h bool, m uint64, mb []byte, mip net.IP) *of.MatchField {
		if h {
			return of.NewTunnelIpv4DstField(ip, &mip)
		}
		return of.NewTunnelIpv4DstField(ip, nil)
	}},
	{24, 2, 0, false, func(g *G, v uint64, vb []byte, ip net.IP, h bool, m uint64, mb []byte, mip net.IP) *of.MatchField {
		return of.NewSctpDstField(uint16(v))
	}},
	{25, 2, 0, false, func(g *G, v uint64, vb []byte, ip net.IP, h bool, m uint64, mb []byte, mip net.IP) *of.MatchField {
		return of.NewSctpSrcField(uint16(v))
	}},
	{26, 6, 1, false, func(g *G, v uint64, vb []byte, ip net.IP, h bool, m uint64, mb []byte, mip net.IP) *of.MatchField {
		return of.NewArpThaField(hw(vb))
	}},
	{27, 6, 1, false, func(g *G, v uint64, vb []byte, ip net.IP, h bool, m uint64, mb []byte, mip net.IP) *of.MatchField {
		return of.NewArpShaField(hw(vb))
	}},
	{28, 4, 2, false, func(g *G, v uint64, vb []byte, ip net.IP, h bool, m uint64, mb []byte, mip net.IP) *of.MatchField {
		return of.NewArpTpaField(ip)
	}},
	{29, 4, 2, false, func(g *G, v uint64, vb []byte, ip net.IP, h bool, m uint64, mb []byte, mip net.IP) *of.MatchField {
		return of.NewArpSpaField(ip)
	}},
	{30, 4, 0, false, func(g *G, v uint64, vb []byte, ip net.IP, h bool, m uint64, mb []byte, mip net.IP) *of.MatchField {
		return of.NewActsetOutputField(uint32(v))
	}},
	{31, 1, 0, false, func(g *G, v uint64, vb []byte, ip net.IP, h bool, m uint64, mb []byte, mip net.IP) *of.MatchField {
		return of.NewIcmpCodeField(uint8(v))
	}},
	{32, 1, 0, false, func(g *G, v uint64, vb []byte, ip net.IP, h bool, m uint64, mb []byte, mip net.IP) *of.MatchField {
		return of.NewIcmpTypeField(uint8(v))
	}},
	{36, 2, 0, false, func(g *G, v uint64, vb []byte, ip net.IP, h bool, m uint64, mb []byte, mip net.IP) *of.MatchField {
		return of.NewCTZoneMatchField(uint16(v))
	}},
	{37, 4, 0, true, func(g *G, v uint64, vb []byte, ip net.IP, h bool, m uint64, mb []byte, mip net.IP) *of.MatchField {
		if h {
			x := uint32(m)
			return of.NewCTMarkMatchField(uint32(v), &x)
		}
		return of.NewCTMarkMatchField(uint32(v), nil)
	}},
	{38, 16, 1, true, func(g *G, v uint64, vb []byte, ip net.IP, h bool, m uint64, mb []byte, mip net.IP) *of.MatchField {
		var l, k [16]byte
		copy(l[:], vb)
		copy(k[:], mb)
		if h {
			return of.NewCTLabelMatchField(l, &k)
		}
		return of.NewCTLabelMatchField(l, nil)
	}},
	{39, 4, 0, false, func(g *G, v uint64, vb []byte, ip net.IP, h bool, m uint64, mb []byte, mip net.IP) *of.MatchField {
		return of.NewConjIDMatchField(uint32(v))
	}},
	{40, 6, 1, true, func(g *G, v uint64, vb []byte, ip net.IP, h bool, m uint64, mb []byte, mip net.IP) *of.MatchField {
		if h {
			return of.NewNxARPShaMatchField(hw(vb), hw(mb))
		}
		return of.NewNxARPShaMatchField(hw(vb), nil)
	}},
	{41, 6, 1, true, func(g *G, v uint64, vb []byte, ip net.IP, h bool, m uint64, mb []byte, mip net.IP) *of.MatchField {
		if h {
			return of.NewNxARPThaMatchField(hw(vb), hw(mb))
		}
		return of.NewNxARPThaMatchField(hw(vb), nil)
	}},
	{42, 4, 2, true, func(g *G, v uint64, vb []byte, ip net.IP, h bool, m uint64, mb []byte, mip net.IP) *of.MatchField {
		if h {
			return of.NewNxARPSpaMatchField(ip, mip)
		}
		return of.NewNxARPSpaMatchField(ip, nil)
	}},
	{43, 4, 2, true, func(g *G, v uint64, vb []byte, ip net.IP, h bool, m uint64, mb []byte, mip net.IP) *of.MatchField {
		if h {
			return of.NewNxARPTpaMatchField(ip, mip)
		}
		return of.NewNxARPTpaMatchField(ip, nil)
	}},
}

// mf draws one match field through a random constructor
func (g *G) mf() (*of.MatchField, string) {
	switch g.r.Intn(12) {
	case 0: // register with optional range
		idx := g.r.Intn(16)
		data := uint32(g.r.Bits(32))
		if g.r.Bool() {
			s := g.r.Intn(32)
			e := s + g.r.Intn(32-s)
			g.use("mf:reg-ranged")
			return of.NewRegMatchField(idx, data, of.NewNXRange(s, e)), fmt.Sprintf("(MFReg %d %d (Some (%d, %d)%%Z))", idx, data, s, e)
		}
		g.use("mf:reg")
		return of.NewRegMatchField(idx, data, nil), fmt.Sprintf("(MFReg %d %d None)", idx, data)
	case 1: // tunnel metadata
		idx := g.r.Intn(8)
		n := 1 + g.r.Intn(60)
		data := g.r.Bytes(n)
		var mask []byte
		if g.r.Bool() {
			mask = g.r.Bytes(n)
		}
		g.use("mf:tun-metadata")
		return of.NewTunMetadataField(idx, data, mask), fmt.Sprintf("(MFTunMeta %d %s %s)", idx, bterm(data), bterm(mask))
	case 2: // ct_state through the builder
		s := of.NewCTStates()
		for i, n := 0, g.r.Intn(6); i < n; i++ {
			ctOps[g.r.Intn(16)](s)
		}
		d, m := of.VerifCTStates(s)
		g.use("mf:ct-state")
		return of.NewCTStateMatchField(s), fmt.Sprintf("(MFCtState %d %d)", d, m)
	}
	c := mfCtors[g.r.Intn(len(mfCtors))]
	hasMask := c.mask && g.r.Bool()
	var v, m uint64
	var vb, mb, ipb, mipb []byte
	var ip, mip net.IP
	var vt, mt string
	switch c.fl {
	case 0, 3:
		v, m = g.r.Bits(uint(8*c.width)), g.r.Bits(uint(8*c.width))
		vt, mt = fmt.Sprintf("(AN %d)", v), fmt.Sprintf("(AN %d)", m)
	case 1:
		n := c.width
		if !g.exact && g.r.Intn(8) == 0 && c.code != 38 {
			n = g.r.Intn(c.width + 3) // short or long address: copy() pads / cuts
		}
		vb, mb = g.r.Bytes(n), g.r.Bytes(c.width)
		vt, mt = "(AB "+bterm(vb)+")", "(AB "+bterm(mb)+")"
	case 2:
		ip, ipb = g.ip4()
		mip, mipb = g.ip4()
		vt, mt = "(AB "+bterm(ipb)+")", "(AB "+bterm(mipb)+")"
	}
	f := c.mk(g, v, vb, ip, hasMask, m, mb, mip)
	g.use(fmt.Sprintf("mf:ctor%d/mask=%v", c.code, hasMask))
	if hasMask {
		return f, fmt.Sprintf("(MFStd %d %s (Some %s))", c.code, vt, mt)
	}
	return f, fmt.Sprintf("(MFStd %d %s None)", c.code, vt)
}

// fh draws a field header the way callers get one: by name from the registry
func (g *G) fh() (*of.MatchField, string) {
	name := g.names[g.r.Intn(len(g.names))]
	hm := g.r.Bool()
	f, _ := of.FindFieldHeaderByName(name, hm)
	return f, fmt.Sprintf("(%d, %d, %s, %d)", f.Class, f.Field, boolt(f.HasMask), f.Length)
}

// ------------------------------------------------------------------ actions

func (g *G) action(depth int) (of.Action, string) {
	n := 26
	k := g.r.Intn(n)
	if depth <= 0 && k == 10 {
		k = 0
	}
	switch k {
	case 0:
		p, ml := uint32(g.r.Bits(32)), uint16(256)
		if g.r.Intn(2) == 0 { // the reserved port numbers: OFPP_MAX .. OFPP_ANY
			p = []uint32{0xffffff00, 0xfffffff8, 0xfffffff9, 0xfffffffa, 0xfffffffb, 0xfffffffc, 0xfffffffd, 0xfffffffe, 0xffffffff}[g.r.Intn(9)]
		}
		a := of.NewActionOutput(p)
		if g.r.Bool() {
			ml = uint16(g.r.Bits(16))
			if g.r.Intn(3) == 0 || (p >= 0xfffffff8 && g.r.Bool()) { // around OFPCML_MAX (0xffe5) .. OFPCML_NO_BUFFER (0xffff)
				ml = uint16(0xffe0 + g.r.Intn(32))
			}
			a.MaxLen = ml
		}
		g.use("act:output")
		return a, fmt.Sprintf("(AOutput %d %d)", p, ml)
	case 1:
		q := uint32(g.r.Bits(32))
		g.use("act:set-queue")
		return of.NewActionSetQueue(q), fmt.Sprintf("(ASetQueue %d)", q)
	case 2:
		q := uint32(g.r.Bits(32))
		g.use("act:group")
		return of.NewActionGroup(q), fmt.Sprintf("(AGroup %d)", q)
	case 3:
		g.use("act:dec-nw-ttl")
		return of.NewActionDecNwTtl(), "ADecNwTtl"
	case 4:
		g.use("act:pop-vlan")
		return of.NewActionPopVlan(), "APopVlan"
	case 5:
		e := uint16(g.r.Bits(16))
		g.use("act:push-vlan")
		return of.NewActionPushVlan(e), fmt.Sprintf("(APushVlan %d)", e)
	case 6:
		e := uint16(g.r.Bits(16))
		g.use("act:push-mpls")
		return of.NewActionPushMpls(e), fmt.Sprintf("(APushMpls %d)", e)
	case 7:
		e := uint16(g.r.Bits(16))
		g.use("act:pop-mpls")
		return of.NewActionPopMpls(e), fmt.Sprintf("(APopMpls %d)", e)
	case 8:
		f, t := g.mf()
		g.use("act:set-field")
		if g.r.Intn(5) == 0 { // built around another field first, then given its field through the exported member
			other, _ := g.mf()
			a := of.NewActionSetField(*other)
			a.Field = *f
			g.use("history:set-field-reassigned")
			return a, "(ASetField " + t + ")"
		}
		return of.NewActionSetField(*f), "(ASetField " + t + ")"
	case 9:
		c, nc, id := uint8(g.r.Bits(8)), uint8(g.r.Bits(8)), uint32(g.r.Bits(32))
		g.use("act:nx-conjunction")
		return of.NewNXActionConjunction(c, nc, id), fmt.Sprintf("(AConj %d %d %d)", c, nc, id)
	case 10:
		a := of.NewNXActionConnTrack()
		var sets []string
		for i, n := 0, g.r.Intn(5); i < n; i++ {
			switch g.r.Intn(5) {
			case 0:
				a.Commit()
				sets = append(sets, "CtCommit")
			case 1:
				a.Force()
				sets = append(sets, "CtForce")
			case 2:
				t := uint8(g.r.Bits(8))
				a.Table(t)
				sets = append(sets, fmt.Sprintf("(CtTable %d)", t))
			case 3:
				z := uint16(g.r.Bits(16))
				a.ZoneImm(z)
				sets = append(sets, fmt.Sprintf("(CtZoneImm %d)", z))
			case 4:
				f, ft := g.fh()
				s := g.r.Intn(32)
				e := s + g.r.Intn(32-s)
				a.ZoneRange(f, of.NewNXRange(s, e))
				sets = append(sets, fmt.Sprintf("(CtZoneRange %s %d%%Z %d%%Z)", ft, s, e))
			}
		}
		alg := uint16(0)
		if g.r.Intn(4) == 0 {
			alg = uint16(g.r.Bits(16))
			a.Alg = alg
		}
		var kids []string
		nk := g.r.Geom(2, 6)
		hold := 0 // the last `hold` nested actions are added only after the container is complete
		if nk > 0 && g.r.Intn(3) == 0 {
			hold = 1 + g.r.Intn(nk)
			g.use("history:late-growth")
		}
		variadic := hold == 0 && nk > 0 && g.r.Intn(4) == 0
		list := make([]of.Action, 0, nk+3) // the caller's own slice, with room to spare
		for i := 0; i < nk; i++ {
			ka, kt := g.action(depth - 1)
			if variadic {
				list = append(list, ka)
			} else if i >= nk-hold {
				late := ka
				g.late = append(g.late, func() { a.AddAction(late) })
			} else {
				a.AddAction(ka)
			}
			kids = append(kids, kt)
		}
		if variadic {
			// all nested actions in one call from the caller's slice, which the caller then goes on using:
			// the action must have taken the elements, not the slice
			a.AddAction(list...)
			for i := range list {
				list[i] = of.NewActionGroup(0xdeadbeef)
			}
			list = append(list, of.NewActionDecNwTtl())
			_ = list
			g.use("history:ct-variadic-slice-reused")
		}
		g.use("act:nx-ct")
		return a, fmt.Sprintf("(ACT %s %d %s)", listT(sets), alg, listT(kids))
	case 11:
		f, ft := g.fh()
		ofs, v := uint16(g.r.Bits(16)), g.r.Bits(64)
		g.use("act:nx-reg-load")
		return of.NewNXActionRegLoad(ofs, f, v), fmt.Sprintf("(ARegLoad %d %s %d)", ofs, ft, v)
	case 12:
		s, st := g.fh()
		d, dt := g.fh()
		nb, so, do := uint16(g.r.Bits(16)), uint16(g.r.Bits(16)), uint16(g.r.Bits(16))
		g.use("act:nx-reg-move")
		return of.NewNXActionRegMove(nb, so, do, s, d), fmt.Sprintf("(ARegMove %d %d %d %s %s)", nb, so, do, st, dt)
	case 13:
		p := uint16(g.r.Bits(16))
		g.use("act:nx-resubmit")
		return of.NewNXActionResubmit(p), fmt.Sprintf("(AResubmit %d)", p)
	case 14:
		p, t := uint16(g.r.Bits(16)), uint8(g.r.Bits(8))
		switch g.r.Intn(3) {
		case 0:
			g.use("act:nx-resubmit-table")
			return of.NewNXActionResubmitTableAction(p, t), fmt.Sprintf("(AResubmitTable %d %d)", p, t)
		case 1:
			g.use("act:nx-resubmit-ct")
			return of.NewNXActionResubmitTableCT(p, t), fmt.Sprintf("(AResubmitCT %d %d)", p, t)
		default:
			g.use("act:nx-resubmit-ct-noinport")
			return of.NewNXActionResubmitTableCTNoInPort(t), fmt.Sprintf("(AResubmitCTNoInPort %d)", t)
		}
	case 15:
		a := of.NewNXActionCTNAT()
		var sets []string
		// flag setters and range setters in any order; a range setter sometimes twice (last value counts)
		order := []int{0, 1, 2, 3, 4, 5, 6, 7, 8, 9, 10}
		for i := len(order) - 1; i > 0; i-- {
			j := g.r.Intn(i + 1)
			order[i], order[j] = order[j], order[i]
		}
		for _, o := range order {
			if g.r.Intn(3) == 0 {
				continue
			}
			if o >= 5 {
				// a range part may be set more than once (the last value counts, the part is there once)
				// and the action may be sized between two setters
				if g.r.Intn(4) == 0 {
					q := uint16(g.r.Bits(16))
					switch o {
					case 5:
						a.SetRangeIPv4Min(net.IP(g.r.Bytes(4)))
					case 6:
						a.SetRangeIPv4Max(net.IP(g.r.Bytes(4)))
					case 7:
						a.SetRangeIPv6Min(net.IP(g.r.Bytes(16)))
					case 8:
						a.SetRangeIPv6Max(net.IP(g.r.Bytes(16)))
					case 9:
						a.SetRangeProtoMin(&q)
					case 10:
						a.SetRangeProtoMax(&q)
					}
					g.use("history:nat-part-set-twice")
				}
				if g.r.Intn(4) == 0 {
					a.Len()
					g.use("history:nat-sized-between-setters")
				}
			}
			switch o {
			case 0:
				a.SetSNAT()
				sets = append(sets, "NatSNAT")
			case 1:
				a.SetDNAT()
				sets = append(sets, "NatDNAT")
			case 2:
				a.SetProtoHash()
				sets = append(sets, "NatProtoHash")
			case 3:
				a.SetRandom()
				sets = append(sets, "NatRandom")
			case 4:
				a.SetPersistent()
				sets = append(sets, "NatPersistent")
			case 5:
				ip, b := g.ip4()
				a.SetRangeIPv4Min(ip)
				sets = append(sets, "(NatIP4Min "+bterm(b)+")")
			case 6:
				ip, b := g.ip4()
				a.SetRangeIPv4Max(ip)
				sets = append(sets, "(NatIP4Max "+bterm(b)+")")
			case 7:
				b := g.r.Bytes(16)
				a.SetRangeIPv6Min(net.IP(b))
				sets = append(sets, "(NatIP6Min "+bterm(b)+")")
			case 8:
				b := g.r.Bytes(16)
				a.SetRangeIPv6Max(net.IP(b))
				sets = append(sets, "(NatIP6Max "+bterm(b)+")")
			case 9:
				p := uint16(g.r.Bits(16))
				a.SetRangeProtoMin(&p)
				sets = append(sets, fmt.Sprintf("(NatProtoMin %d)", p))
			case 10:
				p := uint16(g.r.Bits(16))
				a.SetRangeProtoMax(&p)
				sets = append(sets, fmt.Sprintf("(NatProtoMax %d)", p))
			}
		}
		g.use("act:nx-nat")
		return a, "(ANat " + listT(sets) + ")"
	case 16:
		f, ft := g.fh()
		ofs := uint16(g.r.Bits(16))
		if g.r.Bool() {
			g.use("act:nx-output-reg")
			return of.NewOutputFromField(f, ofs), fmt.Sprintf("(AOutputReg %s %d None)", ft, ofs)
		}
		ml := uint16(g.r.Bits(16))
		g.use("act:nx-output-reg-maxlen")
		return of.NewOutputFromFieldWithMaxLen(f, ofs, ml), fmt.Sprintf("(AOutputReg %s %d (Some %d))", ft, ofs, ml)
	case 17:
		g.use("act:nx-ct-clear")
		return of.NewNXActionCTClear(), "ACtClear"
	case 18:
		g.use("act:nx-dec-ttl")
		return of.NewNXActionDecTTL(), "ADecTtl"
	case 19:
		n := g.r.Geom(3, 9)
		ids := make([]uint16, n)
		ts := make([]string, n)
		for i := range ids {
			ids[i] = uint16(g.r.Bits(16))
			ts[i] = fmt.Sprint(ids[i])
		}
		c := uint16(n)
		g.use(fmt.Sprintf("act:nx-dec-ttl-cnt-ids/%d", n%4))
		return of.NewNXActionDecTTLCntIDs(c, ids...), fmt.Sprintf("(ADecTtlCntIds %d %s)", c, listT(ts))
	case 20:
		a := of.NewNXActionLearn()
		a.IdleTimeout, a.HardTimeout, a.Priority = uint16(g.r.Bits(16)), uint16(g.r.Bits(16)), uint16(g.r.Bits(16))
		a.Cookie, a.Flags, a.TableID = g.r.Bits(64), uint16(g.r.Bits(16)), uint8(g.r.Bits(8))
		a.FinIdleTimeout, a.FinHardTimeout = uint16(g.r.Bits(16)), uint16(g.r.Bits(16))
		var specs []string
		for i, n := 0, g.r.Geom(2, 6); i < n; i++ {
			hk := g.r.Intn(5)
			nbits := uint16(1 + g.r.Intn(128))
			sf, sft := g.fh()
			df, dft := g.fh()
			so, do := uint16(g.r.Bits(16)), uint16(g.r.Bits(16))
			sv := g.r.Bytes(2 * ((int(nbits) + 15) / 16))
			sp := &of.NXLearnSpec{}
			switch hk {
			case 0:
				sp.Header = of.NewLearnHeaderMatchFromValue(nbits)
			case 1:
				sp.Header = of.NewLearnHeaderMatchFromField(nbits)
			case 2:
				sp.Header = of.NewLearnHeaderLoadFromValue(nbits)
			case 3:
				sp.Header = of.NewLearnHeaderLoadFromField(nbits)
			case 4:
				sp.Header = of.NewLearnHeaderOutputFromField(nbits)
			}
			if hk == 0 || hk == 2 {
				sp.SrcValue = sv
			} else {
				sp.SrcField = &of.NXLearnSpecField{Field: sf, Ofs: so}
			}
			if hk != 4 {
				sp.DstField = &of.NXLearnSpecField{Field: df, Ofs: do}
			}
			a.LearnSpecs = append(a.LearnSpecs, sp)
			specs = append(specs, fmt.Sprintf("(LSpec %d %d (%s, %d) (%s, %d) %s)", hk, nbits, sft, so, dft, do, bterm(sv)))
		}
		g.use("act:nx-learn")
		return a, fmt.Sprintf("(ALearn %d %d %d %d %d %d %d %d %s)", a.IdleTimeout, a.HardTimeout, a.Priority, a.Cookie, a.Flags, a.TableID, a.FinIdleTimeout, a.FinHardTimeout, listT(specs))
	case 21:
		a := of.NewNXActionNote()
		a.Note = g.r.Bytes(g.r.Geom(7, 40))
		g.use(fmt.Sprintf("act:nx-note/%d", len(a.Note)%8))
		return a, "(ANote " + bterm(a.Note) + ")"
	case 22:
		f, t := g.mf()
		g.use("act:nx-reg-load2")
		if g.r.Intn(5) == 0 { // the destination field replaced after construction
			other, _ := g.mf()
			a := of.NewNXActionRegLoad2(other)
			a.DstField = f
			g.use("history:reg-load2-reassigned")
			return a, "(ARegLoad2 " + t + ")"
		}
		return of.NewNXActionRegLoad2(f), "(ARegLoad2 " + t + ")"
	case 23:
		id, ml, r := uint16(g.r.Bits(16)), uint16(g.r.Bits(16)), uint8(g.r.Bits(8))
		a := of.NewNXActionController(id)
		a.MaxLen, a.Reason = ml, r
		g.use("act:nx-controller")
		return a, fmt.Sprintf("(AController %d %d %d)", id, ml, r)
	default:
		p := uint32(g.r.Bits(32))
		g.use("act:output")
		return of.NewActionOutput(p), fmt.Sprintf("(AOutput %d 256)", p)
	}
}

// deepCT: conntrack actions nested `depth` deep around one leaf action; outerFirst attaches every
// level to its parent before it has received its own child (the encoding must not depend on it)
func (g *G) deepCT(depth int, outerFirst bool) (of.Action, string) {
	leaf, lt := g.action(0)
	cts := make([]*of.NXActionConnTrack, depth)
	for i := range cts {
		cts[i] = of.NewNXActionConnTrack()
	}
	if outerFirst {
		for i := 0; i+1 < depth; i++ {
			cts[i].AddAction(cts[i+1])
		}
		if g.r.Bool() { // sized and encoded once before the innermost action arrives
			func() {
				defer func() { recover() }()
				cts[0].Len()
				cts[0].MarshalBinary()
			}()
		}
		cts[depth-1].AddAction(leaf)
	} else {
		cts[depth-1].AddAction(leaf)
		for i := depth - 2; i >= 0; i-- {
			cts[i].AddAction(cts[i+1])
		}
	}
	g.flushLate()
	t := lt
	for i := 0; i < depth; i++ {
		t = "(ACT [] 0 [" + t + "])"
	}
	g.use("act:nx-ct-deep")
	return cts[0], t
}

func (g *G) actions(mean, cap, depth int) ([]of.Action, []string) {
	n := g.r.Geom(mean, cap)
	as := make([]of.Action, n)
	ts := make([]string, n)
	for i := range as {
		as[i], ts[i] = g.action(depth)
	}
	return as, ts
}

// ------------------------------------------------------------------ instructions, buckets, match

func (g *G) instr() (of.Instruction, string) {
	switch g.r.Intn(5) {
	case 0:
		t := uint8(g.r.Bits(8))
		g.use("instr:goto")
		return of.NewInstrGotoTable(t), fmt.Sprintf("(IGoto %d)", t)
	case 1:
		m, k := g.r.Bits(64), g.r.Bits(64)
		g.use("instr:write-metadata")
		return of.NewInstrWriteMetadata(m, k), fmt.Sprintf("(IWriteMeta %d %d)", m, k)
	default:
		apply := g.r.Bool()
		var in *of.InstrActions
		name := "IWrite"
		if apply {
			in = of.NewInstrApplyActions()
			name = "IApply"
		} else {
			in = of.NewInstrWriteActions()
		}
		as, ts := g.actions(3, 10, 2)
		calls := make([]string, len(as))
		for i, a := range as {
			pre := g.r.Intn(3) == 0
			in.AddAction(a, pre)
			calls[i] = fmt.Sprintf("(%s, %s)", ts[i], boolt(pre))
		}
		g.flushLate()
		g.use("instr:" + name)
		return in, fmt.Sprintf("(%s %s)", name, listT(calls))
	}
}

func (g *G) bucket() (*of.Bucket, string) {
	b := of.NewBucket()
	w, p, gr := uint16(0), uint32(of.P_ANY), uint32(of.OFPG_ANY)
	if g.r.Bool() {
		w, p, gr = uint16(g.r.Bits(16)), uint32(g.r.Bits(32)), uint32(g.r.Bits(32))
		b.Weight, b.WatchPort, b.WatchGroup = w, p, gr
	}
	as, ts := g.actions(3, 8, 2)
	for _, a := range as {
		b.AddAction(a)
	}
	g.flushLate()
	g.use("bucket")
	return b, fmt.Sprintf("(BK %d %d %d %s)", w, p, gr, listT(ts))
}

func (g *G) matchInto(m *of.Match, mean, cap int) string {
	n := g.r.Geom(mean, cap)
	ts := make([]string, n)
	for i := 0; i < n; i++ {
		f, t := g.mf()
		m.AddField(*f)
		ts[i] = t
	}
	return listT(ts)
}

// ------------------------------------------------------------------ messages

// message returns the built message, the recipe term, a kind name and the xid read back
func (g *G) message(depth int) (util.Message, string, string, uint32) {
	k := g.r.Intn(17)
	if g.forceKind >= 0 { // the caller wants this message kind (once)
		k = g.forceKind
		g.forceKind = -1
	}
	if depth <= 0 && k == 16 {
		k = 3
	}
	switch k {
	case 0:
		h, _ := common.NewHello(4)
		return h, "MHello", "hello", h.Xid
	case 1:
		var h *common.Header
		var ty int
		switch g.r.Intn(5) {
		case 0:
			h, ty = of.NewEchoRequest(), 2
		case 1:
			h, ty = of.NewEchoReply(), 3
		case 2:
			h, ty = of.NewFeaturesRequest(), 5
		case 3:
			h, ty = of.NewConfigRequest(), 7
		default:
			x := of.NewOfp13Header()
			x.Type = of.Type_BarrierRequest
			h, ty = &x, 20
		}
		return h, fmt.Sprintf("(MHeader %d)", ty), fmt.Sprintf("header-only/%d", ty), h.Xid
	case 2:
		c := of.NewSetConfig()
		c.Flags, c.MissSendLen = uint16(g.r.Bits(16)), uint16(g.r.Bits(16))
		return c, fmt.Sprintf("(MSetConfig %d %d)", c.Flags, c.MissSendLen), "set-config", c.Xid
	case 3, 4, 5, 6:
		f := of.NewFlowMod()
		cmd := uint8(g.r.Intn(5))
		if g.r.Intn(6) == 0 {
			cmd = uint8(g.r.Bits(8))
		}
		f.Command = cmd
		cookie, cmask, table := uint64(0), uint64(0), uint8(0)
		idle, hard, prio, buf := uint16(0), uint16(0), uint16(1000), uint32(0xffffffff)
		op, og, fl := uint32(of.P_ANY), uint32(of.OFPG_ANY), uint16(0)
		if g.r.Intn(3) != 0 {
			cookie, cmask, table = g.r.Bits(64), g.r.Bits(64), uint8(g.r.Bits(8))
			idle, hard, prio, buf = uint16(g.r.Bits(16)), uint16(g.r.Bits(16)), uint16(g.r.Bits(16)), uint32(g.r.Bits(32))
			op, og, fl = uint32(g.r.Bits(32)), uint32(g.r.Bits(32)), uint16(g.r.Bits(16))
			f.Cookie, f.CookieMask, f.TableId = cookie, cmask, table
			f.IdleTimeout, f.HardTimeout, f.Priority, f.BufferId = idle, hard, prio, buf
			f.OutPort, f.OutGroup, f.Flags = op, og, fl
		}
		mt := g.matchInto(&f.Match, 3, 12)
		n := g.r.Geom(2, 6)
		its := make([]string, n)
		for i := 0; i < n; i++ {
			in, t := g.instr()
			f.AddInstruction(in)
			its[i] = t
		}
		return f, fmt.Sprintf("(MFlowMod %d %d %d %d %d %d %d %d %d %d %d %s %s)", cookie, cmask, table, cmd, idle, hard, prio, buf, op, og, fl, mt, listT(its)),
			fmt.Sprintf("flow-mod/cmd%d", min(int(cmd), 5)), f.Xid
	case 7, 8:
		gm := of.NewGroupMod()
		cmd := uint16(g.r.Intn(3))
		if g.r.Intn(6) == 0 {
			cmd = uint16(g.r.Bits(16))
		}
		gm.Command = cmd
		ty, gid := uint8(g.r.Intn(4)), uint32(g.r.Bits(32))
		gm.Type, gm.GroupId = ty, gid
		n := g.r.Geom(2, 6)
		bts := make([]string, n)
		for i := 0; i < n; i++ {
			b, t := g.bucket()
			gm.AddBucket(*b)
			bts[i] = t
		}
		return gm, fmt.Sprintf("(MGroupMod %d %d %d %s)", cmd, ty, gid, listT(bts)), fmt.Sprintf("group-mod/cmd%d", min(int(cmd), 3)), gm.Xid
	case 9, 10:
		p := of.NewPacketOut()
		buf, ip := uint32(0xffffffff), uint32(of.P_ANY)
		if g.r.Bool() {
			buf, ip = uint32(g.r.Bits(32)), uint32(g.r.Bits(32))
			p.BufferId, p.InPort = buf, ip
		}
		as, ts := g.actions(3, 10, 2)
		for _, a := range as {
			p.AddAction(a)
		}
		g.flushLate()
		if g.r.Intn(4) == 0 {
			return p, fmt.Sprintf("(MPacketOut %d %d %s None)", buf, ip, listT(ts)), "packet-out/no-data", p.Xid
		}
		data := g.r.Bytes(g.r.Geom(30, 300))
		if g.r.Intn(4) == 0 { // the payload set twice: the second call replaces the first
			p.SetData(g.r.Bytes(1 + g.r.Intn(40)))
			g.use("history:set-data-twice")
		}
		p.SetData(data)
		return p, fmt.Sprintf("(MPacketOut %d %d %s (Some %s))", buf, ip, listT(ts), bterm(data)), "packet-out", p.Xid
	case 11:
		port := g.r.Intn(1 << 20)
		p := of.NewPortMod(port)
		hwl := []int{6, 6, 6, 6, 0, 3, 8}[g.r.Intn(7)] // the address slot is 6 bytes whatever the slice holds
		if g.exact {
			hwl = 6 // a round trip gives the slot back
		}
		hwb := g.r.Bytes(hwl)
		p.HWAddr = hwb
		p.Config, p.Mask, p.Advertise = uint32(g.r.Bits(32)), uint32(g.r.Bits(32)), uint32(g.r.Bits(32))
		return p, fmt.Sprintf("(MPortMod %d %s %d %d %d)", port, bterm(hwb), p.Config, p.Mask, p.Advertise), "port-mod", p.Xid
	case 12:
		m := &of.MultipartRequest{Header: of.NewOfp13Header()}
		m.Header.Type = of.Type_MultiPartRequest
		m.Flags = uint16(g.r.Bits(16))
		var bt, kind string
		switch g.r.Intn(6) {
		case 0:
			m.Type, kind, bt = of.MultipartType_Desc, "desc", "BNone"
		case 1:
			m.Type, kind, bt = of.MultipartType_Table, "table", "BNone"
		case 2:
			b := of.NewFlowStatsRequest()
			b.TableId, b.OutPort, b.OutGroup, b.Cookie, b.CookieMask = uint8(g.r.Bits(8)), uint32(g.r.Bits(32)), uint32(g.r.Bits(32)), g.r.Bits(64), g.r.Bits(64)
			mt := g.matchInto(&b.Match, 2, 8)
			m.Type, kind, m.Body = of.MultipartType_Flow, "flow", b
			bt = fmt.Sprintf("(BFlow %d %d %d %d %d %s)", b.TableId, b.OutPort, b.OutGroup, b.Cookie, b.CookieMask, mt)
		case 3:
			b := of.NewAggregateStatsRequest()
			b.TableId, b.OutPort, b.OutGroup, b.Cookie, b.CookieMask = uint8(g.r.Bits(8)), uint32(g.r.Bits(32)), uint32(g.r.Bits(32)), g.r.Bits(64), g.r.Bits(64)
			mt := g.matchInto(&b.Match, 2, 8)
			m.Type, kind, m.Body = of.MultipartType_Aggregate, "aggregate", b
			bt = fmt.Sprintf("(BAgg %d %d %d %d %d %s)", b.TableId, b.OutPort, b.OutGroup, b.Cookie, b.CookieMask, mt)
		case 4:
			b := of.NewPortStatsRequest()
			b.PortNo = uint16(g.r.Bits(16))
			m.Type, kind, m.Body = of.MultipartType_Port, "port", b
			bt = fmt.Sprintf("(BPort %d)", b.PortNo)
		default:
			b := of.NewQueueStatsRequest()
			b.PortNo, b.QueueId = uint16(g.r.Bits(16)), uint32(g.r.Bits(32))
			m.Type, kind, m.Body = of.MultipartType_Queue, "queue", b
			bt = fmt.Sprintf("(BQueue %d %d)", b.PortNo, b.QueueId)
		}
		return m, fmt.Sprintf("(MMultipart %d %d %s)", m.Type, m.Flags, bt), "multipart-request/" + kind, m.Header.Xid
	case 13:
		id := uint16(g.r.Bits(16))
		v := of.NewSetControllerID(id)
		return v, fmt.Sprintf("(MSetControllerID %d)", id), "nxt-set-controller-id", v.Header.Xid
	case 14:
		if g.r.Intn(3) == 0 {
			v := of.NewTLVTableRequest()
			return v, "MTlvTableReq", "nxt-tlv-table-request", v.Header.Xid
		}
		n := g.r.Geom(2, 8)
		maps := make([]*of.TLVTableMap, n)
		ts := make([]string, n)
		for i := range maps {
			maps[i] = &of.TLVTableMap{OptClass: uint16(g.r.Bits(16)), OptType: uint8(g.r.Bits(8)), OptLength: uint8(g.r.Bits(8)), Index: uint16(g.r.Bits(16))}
			ts[i] = fmt.Sprintf("(%d, %d, %d, %d)", maps[i].OptClass, maps[i].OptType, maps[i].OptLength, maps[i].Index)
		}
		cmd := uint16(g.r.Intn(3))
		v := of.NewTLVTableModMessage(of.NewTLVTableMod(cmd, maps))
		return v, fmt.Sprintf("(MTlvTableMod %d %s)", cmd, listT(ts)), "nxt-tlv-table-mod", v.Header.Xid
	case 15:
		bc := &of.BundleControl{BundleID: uint32(g.r.Bits(32)), Type: uint16(g.r.Intn(8)), Flags: uint16(g.r.Intn(4))}
		v := of.NewBundleControl(bc)
		return v, fmt.Sprintf("(MBundleCtrl %d %d %d)", bc.BundleID, bc.Type, bc.Flags), "bundle-control", v.Header.Xid
	default:
		g.deferFlush++
		inner, it, ik, ixid := g.message(depth - 1)
		g.deferFlush--
		ba := &of.BundleAdd{BundleID: uint32(g.r.Bits(32)), Flags: uint16(g.r.Intn(4)), Message: inner}
		v := of.NewBundleAdd(ba)
		if len(g.late) > 0 && g.deferFlush == 0 {
			// the embedded message still has nested actions to receive: the bundle is sized (and sometimes
			// encoded) around the incomplete message first - it must not remember anything of that
			func() {
				defer func() { recover() }()
				v.Len()
				if g.r.Bool() {
					v.MarshalBinary()
				}
			}()
			g.use("history:bundle-sized-before-complete")
		}
		g.flushLate()
		return v, fmt.Sprintf("(MBundleAdd %d %d %d %s)", ba.BundleID, ba.Flags, ixid, it), "bundle-add(" + ik + ")", v.Header.Xid
	}
}

func min(a, b int) int {
	if a < b {
		return a
	}
	return b
}
