package main

import (
	"fmt"

	of "github.com/contiv/libOpenflow/openflow13"
)

func init() { props["C16"] = runC16 }

// C16: exhaustive in both tiers. 528 ranges through every helper and through the
// encoded mask of NewRegMatchField; all 65536 (ofs, nbits) pairs / words.
func runC16(seed uint64, tier, dir, replay string) error {
	o := NewOut(dir, "C16", 16, "From LOF Require Import Corr.C16.", "check16")
	rng := NewRng(seed)
	for s := 0; s <= 31; s++ {
		for e := s; e <= 31; e++ {
			r := of.NewNXRange(s, e)
			r2 := of.NewNXRangeByOfsNBits(s, e-s+1)
			idx := rng.Intn(16)
			data := uint32(rng.Bits(32))
			f := of.NewRegMatchField(idx, data, r)
			enc, err := f.MarshalBinary()
			if err != nil || len(enc) != 12 {
				return fmt.Errorf("NewRegMatchField(%d,%d,(%d,%d)) encodes to %x (%v)", idx, data, s, e, enc, err)
			}
			encMask := uint64(enc[8])<<24 | uint64(enc[9])<<16 | uint64(enc[10])<<8 | uint64(enc[11])
			obs := []uint64{uint64(s), uint64(e),
				uint64(r.ToUint32Mask()), uint64(r.ToOfsBits()), uint64(r.GetOfs()), uint64(r.GetNbits()),
				uint64(r2.ToUint32Mask()), uint64(r2.ToOfsBits()), uint64(r2.GetOfs()), uint64(r2.GetNbits()),
				encMask}
			o.Add("(Range "+intList(obs)+")",
				map[string]interface{}{"kind": "range", "start": s, "end": e, "obs": obs, "reg": idx, "field_bytes": hexs(enc)},
				"range", fmt.Sprintf("%d-%d", s, e))
		}
	}
	const block = 2048
	for base := 0; base < 65536; base += block {
		words := make([]uint64, block)
		for k := 0; k < block; k++ {
			w := uint16(base + k)
			ofs, nbits := w>>6, (w&63)+1
			se := of.NewNXRange(int(ofs), int(ofs)+int(nbits)-1) // the same range by first and last bit
			words[k] = uint64(of.VerifEncodeOfsNbits(ofs, nbits)) | uint64(of.VerifDecodeOfs(w))<<16 | uint64(of.VerifDecodeNbits(w))<<32 | uint64(se.ToOfsBits())<<40
		}
		o.Add(fmt.Sprintf("(Pairs %d %s)", base, intList(words)),
			map[string]interface{}{"kind": "pairs", "base": base, "count": block, "packing": "enc(ofs=w>>6,nbits=(w&63)+1) | decodeOfs(w)<<16 | decodeNbits(w)<<32 | NewNXRange(ofs,ofs+nbits-1).ToOfsBits()<<40"},
			"pairs", fmt.Sprintf("%d", base))
	}
	o.Meta["exhaustive"] = true
	o.Meta["rule"] = "all 528 ranges 0<=first<=last<=31 through NewNXRange, NewNXRangeByOfsNBits, ToUint32Mask, ToOfsBits, GetOfs, GetNbits and the mask bytes of NewRegMatchField; all 65536 (ofs<1024, 1<=nbits<=64) pairs through encodeOfsNbits and through NewNXRange(first,last).ToOfsBits, and all 65536 words through decodeOfs/decodeNbits (32 blocks of 2048); a case is distinct by its range / block"
	o.Meta["inputs_total"] = 528 + 65536
	return o.Close()
}
