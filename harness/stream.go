package main

// C10 / C11: the real util.MessageStream over a scripted in-memory net.Conn.

import (
	"bytes"
	"encoding/binary"
	"errors"
	"fmt"
	"io"
	"net"
	"runtime"
	"sort"
	"sync"
	"sync/atomic"
	"time"

	of "github.com/contiv/libOpenflow/openflow13"
	"github.com/contiv/libOpenflow/util"
)

func init() {
	props["C10"] = runC10
	props["C11"] = runC11
}

type scriptConn struct {
	mu          sync.Mutex
	chunks      [][]byte
	idx         int
	fail        bool // after the chunks: a read error (else block until closed)
	errWithData bool // the failing Read also delivers the last chunk (n > 0 together with the error)
	eof         bool // the failure is io.EOF (the peer closed the connection), not some other error
	closed      chan struct{}
	once        sync.Once
	writes      [][]byte
	yieldRd     bool
}

type addr struct{}

func (addr) Network() string { return "script" }
func (addr) String() string  { return "script" }

func (c *scriptConn) Read(p []byte) (int, error) {
	if c.yieldRd {
		runtime.Gosched()
	}
	c.mu.Lock()
	if c.idx < len(c.chunks) {
		ch := c.chunks[c.idx]
		n := copy(p, ch)
		if n < len(ch) {
			c.chunks[c.idx] = ch[n:]
		} else {
			c.idx++
		}
		last := c.idx >= len(c.chunks)
		c.mu.Unlock()
		if last && c.fail && c.errWithData {
			return n, c.failure()
		}
		return n, nil
	}
	c.mu.Unlock()
	if c.fail {
		return 0, c.failure()
	}
	<-c.closed
	return 0, errors.New("use of closed network connection")
}
func (c *scriptConn) failure() error {
	if c.eof {
		return io.EOF
	}
	return errors.New("scripted connection failure")
}
func (c *scriptConn) Write(b []byte) (int, error) {
	if len(b) > 1000 {
		runtime.Gosched() // a large write takes its time
		time.Sleep(50 * time.Microsecond)
	}
	if len(b) == 0 { // nothing to send (a message that could not be encoded): not a frame
		return 0, nil
	}
	c.mu.Lock()
	c.writes = append(c.writes, append([]byte{}, b...))
	c.mu.Unlock()
	return len(b), nil
}

// badMsg: a message whose encoding fails (any util.Message can be submitted); it has nothing to
// be written, and must not keep later messages from being written
type badMsg struct{}

func (badMsg) Len() uint16                               { return 0 }
func (badMsg) MarshalBinary() ([]byte, error)            { return nil, errors.New("cannot be encoded") }
func (badMsg) UnmarshalBinary(b []byte) error            { return nil }
func (c *scriptConn) Close() error                       { c.once.Do(func() { close(c.closed) }); return nil }
func (c *scriptConn) LocalAddr() net.Addr                { return addr{} }
func (c *scriptConn) RemoteAddr() net.Addr               { return addr{} }
func (c *scriptConn) SetDeadline(t time.Time) error      { return nil }
func (c *scriptConn) SetReadDeadline(t time.Time) error  { return nil }
func (c *scriptConn) SetWriteDeadline(t time.Time) error { return nil }

// rawParser hands the frame over as an opaque message that owns its bytes
type rawParser struct{ slow bool }

func (p rawParser) Parse(b []byte) (util.Message, error) {
	if p.slow {
		runtime.Gosched()
	}
	return util.NewBuffer(append([]byte{}, b...)), nil
}

// libParser hands the frame to the library's own opaque-payload decoder (what the error,
// packet-in and packet-out decoders do with the tail of a frame)
type libParser struct{ slow bool }

func (p libParser) Parse(b []byte) (util.Message, error) {
	if p.slow {
		runtime.Gosched()
	}
	m := new(util.Buffer)
	err := m.UnmarshalBinary(b)
	return m, err
}

type ofParser struct{}

func (ofParser) Parse(b []byte) (util.Message, error) { return of.Parse(b) }

// frame i of a trial: a well-formed frame whose content is a function of (trial, i)
func mkFrame(trial uint64, i, size int) []byte {
	f := make([]byte, size)
	r := NewRng(trial*1000003 + uint64(i))
	for k := range f {
		f[k] = byte(r.U64())
	}
	f[0], f[1] = 4, 2
	binary.BigEndian.PutUint16(f[2:], uint16(size))
	binary.BigEndian.PutUint32(f[4:], uint32(i)) // the frame's number rides in the xid
	return f
}

func split(r *Rng, stream []byte, mode int) [][]byte {
	var chunks [][]byte
	pos := 0
	for pos < len(stream) {
		var n int
		switch mode {
		case 0:
			n = 1 // byte by byte
		case 1:
			n = 1 + r.Intn(7) // tiny
		case 2:
			n = 1 + r.Intn(3000) // up to beyond the read buffer
		default:
			n = len(stream)
		}
		if pos+n > len(stream) {
			n = len(stream) - pos
		}
		chunks = append(chunks, stream[pos:pos+n])
		pos += n
	}
	return chunks
}

func runC10(seed uint64, tier, dir, replay string) error {
	o := NewOut(dir, "C10", 8, "From LOF Require Import Corr.Stream.", "check10")
	rng := NewRng(seed)
	trials := 70
	if tier == "thorough" {
		trials = 1200
	}
	for t := 0; t < trials; t++ {
		nf := 1 + rng.Intn(40)
		long := t%4 == 3  // more frames than the pool has buffers: every buffer is recycled
		large := t%8 == 7 // more frames above the pool buffer capacity than the pool has buffers
		if long {
			nf = 60 + rng.Intn(140)
		}
		if large {
			nf = 52 + rng.Intn(12)
		}
		sizes := make([]int, nf)
		var stream []byte
		frames := make([][]byte, nf)
		for i := range sizes {
			c := rng.Intn(6)
			if long && c < 3 {
				c = 3
			}
			if large {
				c = 2
			}
			switch c {
			case 0:
				sizes[i] = 8
			case 1:
				sizes[i] = 2040 + rng.Intn(20) // around the pool buffer capacity
			case 2:
				sizes[i] = 2049 + rng.Intn(4000) // beyond it
				if large {
					sizes[i] = 2049 + rng.Intn(300)
				}
			default:
				sizes[i] = 8 + rng.Intn(300)
			}
			frames[i] = mkFrame(uint64(t)+seed, i, sizes[i])
			stream = append(stream, frames[i]...)
		}
		// cut: the connection delivers only the first k bytes
		k := len(stream)
		failed := 0
		mode := rng.Intn(4)
		if large && mode < 2 { // 130 KB byte by byte would only slow the model down
			mode += 2
		}
		cut := rng.Intn(3)
		if large && t%16 == 15 {
			cut = 2 // every second large history arrives completely
		}
		switch cut {
		case 0: // failure after a random byte
			k = rng.Intn(len(stream) + 1)
			failed = 1
		case 1: // failure inside the first frame's header or right after a frame
			if rng.Bool() {
				k = rng.Intn(min(len(stream), 9))
			} else {
				k = 0
				for i := 0; i <= rng.Intn(nf); i++ {
					k += sizes[i]
				}
				k = min(k, len(stream))
			}
			failed = 1
		}
		conn := &scriptConn{chunks: split(rng, append([]byte{}, stream[:k]...), mode), fail: failed == 1, closed: make(chan struct{}), yieldRd: rng.Bool()}
		conn.errWithData = failed == 1 && rng.Intn(3) == 0 // io.Reader allows n > 0 together with the error
		conn.eof = rng.Bool()                              // a closed connection reads as io.EOF
		old := runtime.GOMAXPROCS([]int{1, 2, 4, 16}[rng.Intn(4)])
		var prs util.Parser = rawParser{slow: rng.Bool()}
		if rng.Bool() {
			prs = libParser{slow: rng.Bool()}
		}
		s := util.NewMessageStream(conn, prs)
		// expected number of whole frames inside k bytes
		whole, acc := 0, 0
		for _, sz := range sizes {
			if acc+sz <= k {
				acc += sz
				whole++
			} else {
				break
			}
		}
		var got []int
		var kept []util.Message
		intact := 1
		nerr := 0
		slowConsumer := rng.Intn(4) == 0
		deadline := time.After(5 * time.Second)
		quiet := time.Duration(150) * time.Millisecond
	loop:
		for {
			var idle <-chan time.Time
			if (failed == 0 && len(kept) >= whole) || (failed == 1 && nerr > 0 && (len(kept) >= whole || conn.errWithData)) {
				idle = time.After(quiet)
			}
			select {
			case m := <-s.Inbound:
				if slowConsumer {
					runtime.Gosched()
				}
				kept = append(kept, m) // looked at only when the history is over: it must still be what was delivered
			case <-s.Error:
				nerr++
			case <-idle:
				break loop
			case <-deadline:
				break loop
			}
		}
		for _, m := range kept {
			b, _ := m.MarshalBinary()
			id := -1
			if len(b) >= 8 {
				id = int(binary.BigEndian.Uint32(b[4:]))
			}
			if id < 0 || id >= nf || !bytes.Equal(b, frames[id]) {
				intact = 0
			}
			got = append(got, id)
		}
		// let the stream shut down (after a failure the reader has already asked for it)
		if failed == 0 {
			s.Shutdown <- true
		}
		runtime.GOMAXPROCS(old)
		sort.Ints(got)
		ids := make([]uint64, len(got))
		for i, g := range got {
			ids[i] = uint64(g + 1)
		}
		szs := make([]uint64, nf)
		for i, z := range sizes {
			szs[i] = uint64(z)
		}
		o.Add(fmt.Sprintf("(Inb %s %d %d %s %d %d)", intList(szs), k, failed, intList(ids), nerr, intact),
			map[string]interface{}{"kind": "inbound", "frame_sizes": sizes, "bytes_delivered_by_connection": k, "failure_injected": failed == 1, "chunk_mode": []string{"byte-by-byte", "tiny", "up-to-3000", "one-chunk"}[mode],
				"delivered_ids": got, "errors_published": nerr, "contents_intact": intact == 1},
			"inbound", fmt.Sprintf("%d/%d/%d/%d", nf/8, mode, failed, whole))
	}
	// the de-framer on concrete bytes: what the parser goroutines were handed
	for t := 0; t < 40; t++ {
		nf := 1 + rng.Intn(5)
		var stream []byte
		for i := 0; i < nf; i++ {
			stream = append(stream, mkFrame(uint64(t)+seed+77, i, 8+rng.Intn(40))...)
		}
		chunks := split(rng, append([]byte{}, stream...), rng.Intn(3))
		rec := &recParser{}
		conn := &scriptConn{chunks: chunks, closed: make(chan struct{})}
		cts := make([]string, len(chunks))
		for i, c := range chunks {
			cts[i] = packBytes(c)
		}
		s := util.NewMessageStream(conn, rec)
		for i := 0; i < nf; i++ {
			select {
			case <-s.Inbound:
			case <-time.After(3 * time.Second):
			}
		}
		s.Shutdown <- true
		rec.mu.Lock()
		bufs := rec.seen
		rec.mu.Unlock()
		sort.Slice(bufs, func(i, j int) bool { return bytes.Compare(bufs[i][4:], bufs[j][4:]) < 0 })
		bts := make([]string, len(bufs))
		for i, b := range bufs {
			bts[i] = packBytes(b)
		}
		o.Add(fmt.Sprintf("(Defr %s %s)", listT(cts), listT(bts)),
			map[string]interface{}{"kind": "deframe", "chunks": len(chunks), "frames": nf, "buffers_seen_by_parsers": len(bufs)}, "deframe", fmt.Sprint(nf, len(chunks)))
	}
	o.Meta["rule"] = "real util.MessageStream over a scripted net.Conn: 1..40 well-formed frames of 8..6048 bytes (incl. sizes around and beyond the 2 KiB pool buffers), every fourth history 60-200 small frames (more than the pool has buffers), every eighth 52-63 frames above 2 KiB, the byte stream cut into reads byte-by-byte / 1..7 / 1..3000 / one chunk, a connection failure after a random byte, inside the first header, or exactly after a frame, reported by a Read of its own or together with the last bytes, as io.EOF or as another error; GOMAXPROCS 1/2/4/16, yields injected in Read, in the parser and in the consumer; every delivered message kept until the history is over and then compared byte for byte with its frame (parsers: a copying one and the library's own opaque-payload decoder); the buffers handed to the parser goroutines compared with the model's de-framer on the same chunks; distinct by frames x chunk mode x failure x whole frames"
	return o.Close()
}

type recParser struct {
	mu   sync.Mutex
	seen [][]byte
}

func (p *recParser) Parse(b []byte) (util.Message, error) {
	p.mu.Lock()
	p.seen = append(p.seen, append([]byte{}, b...))
	p.mu.Unlock()
	return util.NewBuffer(append([]byte{}, b...)), nil
}

func runC11(seed uint64, tier, dir, replay string) error {
	o := NewOut(dir, "C11", 8, "From LOF Require Import Corr.Stream.", "check11")
	rng := NewRng(seed)
	trials := 40
	if tier == "thorough" {
		trials = 600
	}
	g := NewG(rng)
	for t := 0; t < trials; t++ {
		np := 1 + rng.Intn(32)
		seqs := make([][]util.Message, np)
		encs := make([][][]byte, np)
		idOf := map[string]uint64{}
		var seqIDs [][]uint64
		next := uint64(1)
		for p := range seqs {
			n := 1 + rng.Intn(40)
			var ids []uint64
			for k := 0; k < n; k++ {
				var m util.Message
				if rng.Intn(3) == 0 {
					m, _, _, _ = g.message(1) // real messages of mixed kinds
				} else {
					sz := 8 + rng.Intn(200)
					switch rng.Intn(6) {
					case 0:
						sz = 2040 + rng.Intn(20) // around the buffer capacity
					case 1:
						sz = 2049 + rng.Intn(4000) // beyond it
					}
					m = util.NewBuffer(mkFrame(uint64(t)*7919+seed, int(next), sz))
				}
				b, _ := m.MarshalBinary()
				// make every encoding unique so that frames on the wire can be attributed
				if len(b) >= 8 {
					binary.BigEndian.PutUint32(b[4:], uint32(next))
					m = util.NewBuffer(b)
				}
				seqs[p] = append(seqs[p], m)
				encs[p] = append(encs[p], b)
				idOf[string(b)] = next
				ids = append(ids, next)
				next++
			}
			seqIDs = append(seqIDs, ids)
		}
		conn := &scriptConn{closed: make(chan struct{})}
		old := runtime.GOMAXPROCS([]int{1, 2, 4, 16}[rng.Intn(4)])
		s := util.NewMessageStream(conn, rawParser{})
		unencodable := rng.Intn(4) == 0
		var stalled int32
		var wg sync.WaitGroup
		for p := range seqs {
			wg.Add(1)
			go func(p int) {
				defer wg.Done()
				submit := func(m util.Message) bool { // a writer that has stopped taking messages shows as a stall
					select {
					case s.Outbound <- m:
						return true
					case <-time.After(3 * time.Second):
						atomic.StoreInt32(&stalled, 1)
						return false
					}
				}
				for k, m := range seqs[p] {
					if unencodable && p == 0 && (k == 0 || k == len(seqs[p])/2) {
						if !submit(badMsg{}) { // two messages without an encoding among the others
							return
						}
					}
					if !submit(m) {
						return
					}
				}
			}(p)
		}
		wg.Wait()
		total := int(next - 1)
		for w := 0; w < 400; w++ {
			conn.mu.Lock()
			n := len(conn.writes)
			conn.mu.Unlock()
			if n >= total {
				break
			}
			time.Sleep(5 * time.Millisecond)
		}
		s.Shutdown <- true
		runtime.GOMAXPROCS(old)
		conn.mu.Lock()
		writes := conn.writes
		conn.mu.Unlock()
		// each Write must be exactly one submitted encoding; also re-frame the whole wire by header length
		whole := 1
		if atomic.LoadInt32(&stalled) == 1 {
			whole = 0 // the writer stopped taking messages
		}
		var wire []byte
		var wireIDs []uint64
		for _, w := range writes {
			if _, ok := idOf[string(w)]; !ok {
				whole = 0
			}
			wire = append(wire, w...)
		}
		for pos := 0; pos+4 <= len(wire); {
			l := int(binary.BigEndian.Uint16(wire[pos+2:]))
			if l < 8 || pos+l > len(wire) {
				whole = 0
				break
			}
			id, ok := idOf[string(wire[pos:pos+l])]
			if !ok {
				whole = 0
				id = 0
			}
			wireIDs = append(wireIDs, id)
			pos += l
		}
		st := make([]string, len(seqIDs))
		for i, ids := range seqIDs {
			st[i] = intList(ids)
		}
		o.Add(fmt.Sprintf("(Outb %s %s %d)", listT(st), intList(wireIDs), whole),
			map[string]interface{}{"kind": "outbound", "producers": np, "messages": total, "writes": len(writes), "frames_on_wire": len(wireIDs), "whole_frames": whole == 1},
			"outbound", fmt.Sprintf("%d/%d", np, total/16))
	}
	o.Meta["rule"] = "real util.MessageStream: 1..32 producer goroutines each submitting 1..40 messages (opaque frames of 8..6048 bytes incl. sizes around and beyond 2 KiB, and real controller messages of mixed kinds; in one history out of four also two messages whose encoding fails) to Outbound concurrently, GOMAXPROCS 1/2/4/16; every Write of the scripted connection must be exactly one submitted encoding, the recorded byte stream re-framed by header length must be a merge of the producers' sequences; distinct by producers x message-count bucket"
	return o.Close()
}
