// Command harness drives the real libOpenflow (built from /repo's working tree with
// -tags verif) and writes what it observed as Coq case files plus a JSON description.
package main

import (
	"encoding/json"
	"flag"
	"fmt"
	"io"
	"os"
	"path/filepath"
	"sort"
	"strings"

	log "github.com/sirupsen/logrus"
)

// ---------------------------------------------------------------- PRNG (splitmix64)

type Rng struct {
	s     uint64
	boost int // when > 0 the next Geom draw is a long list (256 .. 255+boost elements), once
}

func NewRng(seed uint64) *Rng { return &Rng{s: seed*0x9E3779B97F4A7C15 + 0x1234567} }
func (r *Rng) U64() uint64 {
	r.s += 0x9E3779B97F4A7C15
	z := r.s
	z = (z ^ (z >> 30)) * 0xBF58476D1CE4E5B9
	z = (z ^ (z >> 27)) * 0x94D049BB133111EB
	return z ^ (z >> 31)
}
func (r *Rng) Intn(n int) int {
	if n <= 0 {
		return 0
	}
	return int(r.U64() % uint64(n))
}
func (r *Rng) Bool() bool    { return r.U64()&1 == 1 }
func (r *Rng) Chance(p int) bool { return r.Intn(100) < p } // p percent

// Bits draws a w-bit value biased to boundary patterns: 0, 1, max-1, max, single bits.
func (r *Rng) Bits(w uint) uint64 {
	var max uint64
	if w >= 64 {
		max = ^uint64(0)
	} else {
		max = (uint64(1) << w) - 1
	}
	switch r.Intn(10) {
	case 0:
		return 0
	case 1:
		return 1 & max
	case 2:
		return max
	case 3:
		return max - 1
	case 4:
		return (uint64(1) << uint(r.Intn(int(w)))) & max
	case 5: // just below the maximum: where protocols keep their reserved values (ports 0xffffff00.., max_len 0xffe5..)
		d := uint64(r.Intn(300))
		if d > max {
			d = max
		}
		return max - d
	default:
		return r.U64() & max
	}
}
func (r *Rng) Bytes(n int) []byte {
	b := make([]byte, n)
	for i := range b {
		b[i] = byte(r.U64())
	}
	if n > 0 {
		switch r.Intn(8) {
		case 0:
			for i := range b {
				b[i] = 0
			}
		case 1:
			for i := range b {
				b[i] = 0xff
			}
		}
	}
	return b
}

// Geom draws a small size: geometric with mean about m, capped.
func (r *Rng) Geom(m, cap int) int {
	if r.boost > 0 && cap >= 6 { // armed: this one list is long (more than 255 elements)
		n := 256 + r.Intn(r.boost)
		r.boost = 0
		return n
	}
	n := 0
	for n < cap && r.Intn(m+1) != 0 {
		n++
	}
	return n
}

// ---------------------------------------------------------------- output

// Out collects cases, spreads them over shards and writes cases_NN.v + cases.json.
type Out struct {
	dir      string
	prop     string
	shards   int
	header   string // Coq header (imports) for each shard
	runner   string
	hyp      string // optional: Coq predicate on cases = hypothesis of the property's theorem // Coq function of type case -> verdict
	terms    [][]string
	idx      [][]int
	n        int
	jsons    []interface{}
	keepJSON int
	kinds    map[string]int
	distinct map[string]bool
	Meta     map[string]interface{}
}

func NewOut(dir, prop string, shards int, header, runner string) *Out {
	o := &Out{dir: dir, prop: prop, shards: shards, header: header, runner: runner,
		kinds: map[string]int{}, distinct: map[string]bool{}, Meta: map[string]interface{}{}, keepJSON: 1 << 30}
	o.terms = make([][]string, shards)
	o.idx = make([][]int, shards)
	return o
}

// Add records one case: its Coq term, a JSON form for replay/evidence, the kind it
// exercises (for the distribution) and a shape signature (for distinct counting;
// "" = trivial, not counted).
func (o *Out) Add(term string, js interface{}, kind, shape string) int {
	s := o.n % o.shards
	o.terms[s] = append(o.terms[s], term)
	o.idx[s] = append(o.idx[s], o.n)
	o.jsons = append(o.jsons, js)
	o.kinds[kind]++
	if shape != "" {
		o.distinct[kind+"/"+shape] = true
	}
	o.n++
	return o.n - 1
}

func (o *Out) Close() error {
	for s := 0; s < o.shards; s++ {
		if len(o.terms[s]) == 0 {
			continue
		}
		var b strings.Builder
		b.WriteString(o.header)
		b.WriteString("\n")
		names := make([]string, 0, len(o.terms[s]))
		for i, t := range o.terms[s] {
			fmt.Fprintf(&b, "Definition c%d := %s.\n", i, t)
			names = append(names, fmt.Sprintf("(%d%%uint63, c%d)", o.idx[s][i], i))
		}
		// chunk the list literal so that Coq's list notation does not nest too deep
		var chunks []string
		for i := 0; i < len(names); i += 200 {
			j := i + 200
			if j > len(names) {
				j = len(names)
			}
			chunks = append(chunks, "["+strings.Join(names[i:j], "; ")+"]")
		}
		fmt.Fprintf(&b, "Definition cases := List.concat [%s].\n", strings.Join(chunks, ";\n "))
		fmt.Fprintf(&b, "Definition R := Eval vm_compute in (run_cases %s cases).\nPrint R.\n", o.runner)
		if o.hyp != "" { // on how many cases the property theorem's hypothesis holds
			fmt.Fprintf(&b, "Definition H := Eval vm_compute in (count_hyp %s cases).\nPrint H.\n", o.hyp)
		}
		if err := os.WriteFile(filepath.Join(o.dir, fmt.Sprintf("cases_%02d.v", s)), []byte(b.String()), 0o644); err != nil {
			return err
		}
	}
	kinds := make([]string, 0, len(o.kinds))
	for k := range o.kinds {
		kinds = append(kinds, k)
	}
	sort.Strings(kinds)
	o.Meta["property"] = o.prop
	o.Meta["evaluations"] = o.n
	o.Meta["distinct_nontrivial"] = len(o.distinct)
	o.Meta["kinds"] = o.kinds
	mf, _ := json.MarshalIndent(o.Meta, "", " ")
	if err := os.WriteFile(filepath.Join(o.dir, "meta.json"), mf, 0o644); err != nil {
		return err
	}
	f, err := os.Create(filepath.Join(o.dir, "cases.json"))
	if err != nil {
		return err
	}
	defer f.Close()
	enc := json.NewEncoder(f)
	for i, j := range o.jsons {
		if err := enc.Encode(map[string]interface{}{"i": i, "case": j}); err != nil {
			return err
		}
	}
	return nil
}

// ---------------------------------------------------------------- Coq term helpers

// packBytes renders a byte string as a Coq term of type list int (Uint63), seven bytes
// per word, first word = length. Transport.unpack turns it back into list byte.
func packBytes(b []byte) string {
	var sb strings.Builder
	sb.WriteString("[")
	fmt.Fprintf(&sb, "%d", len(b))
	for i := 0; i < len(b); i += 7 {
		var w uint64
		for k := 0; k < 7; k++ {
			w <<= 8
			if i+k < len(b) {
				w |= uint64(b[i+k])
			}
		}
		fmt.Fprintf(&sb, ";%d", w)
	}
	sb.WriteString("]%uint63")
	return sb.String()
}

func intList(xs []uint64) string {
	parts := make([]string, len(xs))
	for i, x := range xs {
		parts[i] = fmt.Sprintf("%d", x)
	}
	return "[" + strings.Join(parts, ";") + "]%uint63"
}

func hexs(b []byte) string { return fmt.Sprintf("%x", b) }

// ---------------------------------------------------------------- main

type propFn func(seed uint64, tier string, dir string, replay string) error

var props = map[string]propFn{}

func main() {
	log.SetOutput(io.Discard)
	log.SetLevel(log.PanicLevel)
	if len(os.Args) < 2 {
		fmt.Fprintln(os.Stderr, "usage: harness <property> -seed N -tier quick|thorough -out DIR [-replay FILE]")
		os.Exit(2)
	}
	prop := os.Args[1]
	if prop == "worker" {
		workerMain()
		return
	}
	fs := flag.NewFlagSet(prop, flag.ExitOnError)
	seed := fs.Uint64("seed", 1, "PRNG seed")
	tier := fs.String("tier", "quick", "quick|thorough")
	dir := fs.String("out", ".", "output directory")
	replay := fs.String("replay", "", "replay file")
	fs.Parse(os.Args[2:])
	fn, ok := props[prop]
	if !ok {
		fmt.Fprintln(os.Stderr, "unknown property", prop)
		os.Exit(2)
	}
	if err := fn(*seed, *tier, *dir, *replay); err != nil {
		fmt.Fprintln(os.Stderr, "harness error:", err)
		os.Exit(3)
	}
}
