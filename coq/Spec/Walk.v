(* An independent decoder of controller-originated OpenFlow 1.3 messages, written from the
   specifications (OpenFlow 1.3.5 section 7, OVS nicira-ext.h / ofp-actions.c for the NX
   actions and NXT messages, ONF bundle extension) and not from the library: it walks the
   bytes using only declared lengths and type codes.  It fails unless every declared
   length equals the extent occupied, every padding byte is zero, every type/subtype code
   is a defined one, and the walk ends exactly at the end of the message.
   The result is a wire tree (Model/Wire.v's type is reused as the carrier; the field
   tables below are the specification's, written separately from Wire.layout).
   The standards are not available in this sandbox; the tables are part of the trusted base. *)
From Coq Require Import NArith Arith List Bool.
From Coq.Strings Require Import Byte.
From LOF Require Import Base.Bytes Model.Wire.
Import ListNotations.
Local Open Scope N_scope.

Definition obind {A B} (o : option A) (f : A -> option B) : option B :=
  match o with Some a => f a | None => None end.
Notation "x <-- e ;; k" := (obind e (fun x => k)) (at level 61, e at next level, right associativity).
Notation "' p <-- e ;; k" := (obind e (fun x => match x with p => k end))
  (at level 61, p pattern, e at next level, right associativity).
Definition guard (b : bool) : option unit := if b then Some tt else None.

Definition all_zero (l : list byte) : bool := forallb (fun b => Byte.eqb b x00) l.
Definition blen (l : list byte) : N := N.of_nat (length l).
Definition take (n : N) (l : list byte) : option (list byte * list byte) :=
  if n <=? blen l then Some (firstn (N.to_nat n) l, skipn (N.to_nat n) l) else None.
Definition num (w : nat) (l : list byte) : option (N * list byte) :=
  '(a, r) <-- take (N.of_nat w) l ;; Some (be_value a, r).

(* fixed fields per the specification tables *)
Fixpoint sfields (l : list fld) (bs : list byte) : option (list val * list byte) :=
  match l with
  | [] => Some ([], bs)
  | FU w :: l' => '(n, r) <-- num w bs ;; '(vs, r') <-- sfields l' r ;; Some (VN n :: vs, r')
  | FZ k :: l' => '(z, r) <-- take (N.of_nat k) bs ;; _ <-- guard (all_zero z) ;; sfields l' r
  | FB k :: l' => '(b, r) <-- take (N.of_nat k) bs ;; '(vs, r') <-- sfields l' r ;; Some (VB b :: vs, r')
  | FV :: l' => '(vs, r') <-- sfields l' [] ;; Some (VB bs :: vs, r')
  end.

Definition S_acthdr := [FU 2; FU 2].
Definition S_nxhdr := [FU 2; FU 2; FU 4; FU 2].
Definition S_ofhdr := [FU 1; FU 1; FU 2; FU 4].

(* ---------------------------------------------------------------- OXM / match *)
(* struct ofp_match: type(2)=OFPMT_OXM(1) length(2, excluding padding) oxm fields, zero
   padded to 8. OXM TLV: class(16) field(7) hasmask(1) length(8) payload. *)
Definition oxm_class_ok (c f : N) : bool :=
  (N.eqb c 0 && (f <? 18)) || N.eqb c 1 ||
  (N.eqb c 32768 && ((f <=? 39) || N.eqb f 41 || N.eqb f 42 || N.eqb f 43)) ||
  N.eqb c 65535.

Definition sdec_oxm (bs : list byte) : option (tree * list byte) :=
  '(c, r1) <-- num 2 bs ;; '(fh, r2) <-- num 1 r1 ;; '(len, r3) <-- num 1 r2 ;;
  '(p, rest) <-- take len r3 ;;
  _ <-- guard (oxm_class_ok c (fh / 2)) ;;
  let hm := N.odd fh in
  _ <-- guard (negb hm || N.even len) ;;
  let half := N.to_nat (len / 2) in
  Some (T KMatchField [VN c; VN fh; VN len; VB (if hm then firstn half p else p); VB (if hm then skipn half p else [])] [], rest).

Fixpoint sdec_oxms (fuel : nat) (bs : list byte) : option (list tree) :=
  match fuel with
  | O => None
  | S fuel' =>
    match bs with
    | [] => Some []
    | _ => '(f, r) <-- sdec_oxm bs ;; _ <-- guard (length r <? length bs)%nat ;;
           fs <-- sdec_oxms fuel' r ;; Some (f :: fs)
    end
  end.

Definition sdec_match (bs : list byte) : option (tree * list byte) :=
  '(ty, r1) <-- num 2 bs ;; '(len, r2) <-- num 2 r1 ;;
  _ <-- guard (N.eqb ty 1 && (4 <=? len)) ;;
  '(body, r3) <-- take (len - 4) r2 ;;
  fs <-- sdec_oxms (S (length body)) body ;;
  '(pad, rest) <-- take (round8 len - len) r3 ;;
  _ <-- guard (all_zero pad) ;;
  Some (T KMatch [VN ty; VN len] fs, rest).

(* ---------------------------------------------------------------- actions *)
(* fixed-size standard actions: struct ofp_action_* *)
Definition std_action (ty : N) : option (kind * list fld * N) :=
  match ty with
  | 0 => Some (KActOutput, S_acthdr ++ [FU 4; FU 2; FZ 6], 16)     (* ofp_action_output *)
  | 17 | 19 => Some (KActPush, S_acthdr ++ [FU 2; FZ 2], 8)        (* ofp_action_push *)
  | 18 => Some (KActPopVlan, S_acthdr ++ [FZ 4], 8)                (* ofp_action_header *)
  | 20 => Some (KActPopMpls, S_acthdr ++ [FU 2; FZ 2], 8)          (* ofp_action_pop_mpls *)
  | 21 => Some (KActSetQueue, S_acthdr ++ [FU 4], 8)               (* ofp_action_set_queue *)
  | 22 => Some (KActGroup, S_acthdr ++ [FU 4], 8)                  (* ofp_action_group *)
  | 24 => Some (KActDecNwTtl, S_acthdr ++ [FZ 4], 8)               (* ofp_action_header *)
  | _ => None
  end.

(* fixed-size Nicira actions: struct nx_action_* *)
Definition nx_action (sub : N) : option (kind * list fld * N) :=
  match sub with
  | 1 => Some (KNxResubmit, S_nxhdr ++ [FU 2; FZ 4], 16)                       (* nx_action_resubmit, table must be 0 *)
  | 14 | 44 => Some (KNxResubmitTable, S_nxhdr ++ [FU 2; FU 1; FZ 3], 16)      (* nx_action_resubmit *)
  | 6 => Some (KNxRegMove, S_nxhdr ++ [FU 2; FU 2; FU 2; FU 4; FU 4], 24)      (* nx_action_reg_move *)
  | 7 => Some (KNxRegLoad, S_nxhdr ++ [FU 2; FU 4; FU 8], 24)                  (* nx_action_reg_load *)
  | 15 => Some (KNxOutputReg, S_nxhdr ++ [FU 2; FU 4; FU 2; FZ 6], 24)         (* nx_action_output_reg *)
  | 18 => Some (KNxDecTtl, S_nxhdr ++ [FU 2; FZ 4], 16)                        (* nx_action header + pad *)
  | 20 => Some (KNxController, S_nxhdr ++ [FU 2; FU 2; FU 1; FZ 1], 16)        (* nx_action_controller *)
  | 34 => Some (KNxConjunction, S_nxhdr ++ [FU 1; FU 1; FU 4], 16)             (* nx_action_conjunction *)
  | 43 => Some (KNxCtClear, S_nxhdr ++ [FZ 6], 16)                             (* nx_action header + pad *)
  | _ => None
  end.

(* learn flow_mod_spec: header(16): n_bits(11) | dst(2)<<11 | src(1)<<13; src immediate:
   2*ceil(n_bits/16) bytes, src field: header(4)+ofs(2); dst match/load: header(4)+ofs(2);
   dst output: nothing *)
Definition sdec_lspec (bs : list byte) : option (tree * list byte) :=
  '(w, r1) <-- num 2 bs ;;
  let nbits := N.land w 2047 in
  let src := N.testbit w 13 in
  let dst := N.land (N.shiftr w 11) 3 in
  _ <-- guard ((dst <? 3) && negb (N.testbit w 14) && negb (N.testbit w 15)) ;;
  let n := (if src then 2 * ((nbits + 15) / 16) else 6) + (if N.eqb dst 2 then 0 else 6) in
  '(body, rest) <-- take n r1 ;;
  Some (T KLearnSpec [VN w; VB body] [], rest).

Fixpoint sdec_lspecs (fuel : nat) (bs : list byte) : option (list tree) :=
  match fuel with
  | O => None
  | S fuel' =>
    if (length bs <? 2)%nat then (if all_zero bs then Some [] else None) else
    match num 2 bs with
    | Some (0, _) => if all_zero bs then Some [] else None
    | _ => '(s, r) <-- sdec_lspec bs ;; ss <-- sdec_lspecs fuel' r ;; Some (s :: ss)
    end
  end.

(* NAT range parts in the order of the presence bits *)
Definition nat_parts (present : N) (bs : list byte) : option (list tree * list byte) :=
  let part (bit : N) (w : N) (acc : option (list tree * list byte)) :=
    '(ts, r) <-- acc ;;
    if N.testbit present bit then '(p, r') <-- take w r ;; Some (ts ++ [T KRaw [VB p] []], r') else Some (ts, r) in
  part 5 2 (part 4 2 (part 3 16 (part 2 16 (part 1 4 (part 0 4 (Some ([], bs))))))).

Fixpoint sdec_action (fuel : nat) (bs : list byte) : option (tree * list byte) :=
  match fuel with
  | O => None
  | S fuel' =>
    '(ty, r1) <-- num 2 bs ;; '(len, _) <-- num 2 r1 ;;
    _ <-- guard ((8 <=? len) && N.eqb (len mod 8) 0) ;;
    '(body, rest) <-- take len bs ;;
    let actions_in (b : list byte) :=
      (fix go (f : nat) (b : list byte) : option (list tree) :=
         match f with
         | O => None
         | S f' => match b with
                   | [] => Some []
                   | _ => '(a, r) <-- sdec_action fuel' b ;; _ <-- guard (length r <? length b)%nat ;;
                          l <-- go f' r ;; Some (a :: l)
                   end
         end) (S (length b)) b in
    if N.eqb ty 25 then
      (* ofp_action_set_field: header then one OXM, zero padded *)
      '(vs, r) <-- sfields S_acthdr body ;; '(f, pad) <-- sdec_oxm r ;;
      _ <-- guard (all_zero pad && (length pad <? 8)%nat) ;;
      Some (T KActSetField vs [f], rest)
    else if N.eqb ty 65535 then
      '(hv, r) <-- sfields S_nxhdr body ;;
      match hv with
      | [_; _; VN vendor; VN sub] =>
        _ <-- guard (N.eqb vendor 8992) ;;
        if N.eqb sub 35 then                      (* nx_action_conntrack + nested actions *)
          '(vs, r') <-- sfields [FU 2; FU 4; FU 2; FU 1; FZ 3; FU 2] r ;;
          ks <-- actions_in r' ;; Some (T KNxConnTrack (hv ++ vs) ks, rest)
        else if N.eqb sub 36 then                 (* nx_action_nat *)
          '(vs, r') <-- sfields [FZ 2; FU 2; FU 2] r ;;
          match vs with
          | [VN flags; VN present] =>
            _ <-- guard (present <? 64) ;;
            '(ps, pad) <-- nat_parts present r' ;;
            _ <-- guard (all_zero pad && (length pad <? 8)%nat) ;;
            Some (T KNxNat (hv ++ vs) ps, rest)
          | _ => None
          end
        else if N.eqb sub 16 then                 (* nx_action_learn + flow_mod_specs *)
          '(vs, r') <-- sfields [FU 2; FU 2; FU 2; FU 8; FU 2; FU 1; FZ 1; FU 2; FU 2] r ;;
          ss <-- sdec_lspecs (S (length r')) r' ;; Some (T KNxLearn (hv ++ vs) ss, rest)
        else if N.eqb sub 33 then                 (* nx_action_reg_load2: header then OXM, zero padded *)
          '(f, pad) <-- sdec_oxm r ;; _ <-- guard (all_zero pad && (length pad <? 8)%nat) ;;
          Some (T KNxRegLoad2 hv [f], rest)
        else if N.eqb sub 8 then                  (* nx_action_note: everything after the header *)
          Some (T KNxNote (hv ++ [VB r]) [], rest)
        else if N.eqb sub 21 then                 (* nx_action_cnt_ids: n ids then zero padding *)
          '(vs, r') <-- sfields [FU 2; FZ 4] r ;;
          match vs with
          | [VN n] => '(ids, pad) <-- take (2 * n) r' ;;
                      _ <-- guard (all_zero pad && (length pad <? 8)%nat) ;;
                      Some (T KNxDecTtlCntIds (hv ++ [VN n; VB ids]) [], rest)
          | _ => None
          end
        else
          '(k, l, sz) <-- nx_action sub ;; _ <-- guard (N.eqb len sz) ;;
          '(vs, r') <-- sfields l body ;; _ <-- guard (match r' with [] => true | _ => false end) ;;
          Some (T k vs [], rest)
      | _ => None
      end
    else
      '(k, l, sz) <-- std_action ty ;; _ <-- guard (N.eqb len sz) ;;
      '(vs, r') <-- sfields l body ;; _ <-- guard (match r' with [] => true | _ => false end) ;;
      Some (T k vs [], rest)
  end.

Fixpoint sdec_actions (fuel : nat) (bs : list byte) : option (list tree) :=
  match fuel with
  | O => None
  | S fuel' =>
    match bs with
    | [] => Some []
    | _ => '(a, r) <-- sdec_action (S (length bs)) bs ;; _ <-- guard (length r <? length bs)%nat ;;
           l <-- sdec_actions fuel' r ;; Some (a :: l)
    end
  end.

(* ---------------------------------------------------------------- instructions, buckets *)
Definition sdec_instr (bs : list byte) : option (tree * list byte) :=
  '(ty, r1) <-- num 2 bs ;; '(len, _) <-- num 2 r1 ;;
  _ <-- guard (8 <=? len) ;;
  '(body, rest) <-- take len bs ;;
  if N.eqb ty 1 then                               (* ofp_instruction_goto_table *)
    _ <-- guard (N.eqb len 8) ;; '(vs, _) <-- sfields [FU 2; FU 2; FU 1; FZ 3] body ;; Some (T KInstrGoto vs [], rest)
  else if N.eqb ty 2 then                          (* ofp_instruction_write_metadata *)
    _ <-- guard (N.eqb len 24) ;; '(vs, _) <-- sfields [FU 2; FU 2; FZ 4; FU 8; FU 8] body ;; Some (T KInstrWriteMeta vs [], rest)
  else if (N.eqb ty 3 || N.eqb ty 4 || N.eqb ty 5)%bool then   (* ofp_instruction_actions *)
    '(vs, r) <-- sfields [FU 2; FU 2; FZ 4] body ;;
    ks <-- sdec_actions (S (length r)) r ;; Some (T KInstrActions vs ks, rest)
  else None.

Fixpoint sdec_instrs (fuel : nat) (bs : list byte) : option (list tree) :=
  match fuel with
  | O => None
  | S fuel' =>
    match bs with
    | [] => Some []
    | _ => '(i, r) <-- sdec_instr bs ;; _ <-- guard (length r <? length bs)%nat ;;
           l <-- sdec_instrs fuel' r ;; Some (i :: l)
    end
  end.

(* struct ofp_bucket: len weight watch_port watch_group pad[4] actions; len multiple of 8 *)
Definition sdec_bucket (bs : list byte) : option (tree * list byte) :=
  '(len, _) <-- num 2 bs ;;
  _ <-- guard ((16 <=? len) && N.eqb (len mod 8) 0) ;;
  '(body, rest) <-- take len bs ;;
  '(vs, r) <-- sfields [FU 2; FU 2; FU 4; FU 4; FZ 4] body ;;
  ks <-- sdec_actions (S (length r)) r ;; Some (T KBucket vs ks, rest).

Fixpoint sdec_buckets (fuel : nat) (bs : list byte) : option (list tree) :=
  match fuel with
  | O => None
  | S fuel' =>
    match bs with
    | [] => Some []
    | _ => '(b, r) <-- sdec_bucket bs ;; _ <-- guard (length r <? length bs)%nat ;;
           l <-- sdec_buckets fuel' r ;; Some (b :: l)
    end
  end.

(* ---------------------------------------------------------------- messages *)
(* hello elements: type(2) length(2, excluding padding) body, padded to 8 *)
Fixpoint sdec_hello_elems (fuel : nat) (bs : list byte) : option (list tree) :=
  match fuel with
  | O => None
  | S fuel' =>
    match bs with
    | [] => Some []
    | _ => '(ty, r1) <-- num 2 bs ;; '(len, r2) <-- num 2 r1 ;;
           _ <-- guard ((4 <=? len) && N.eqb ty 1 && N.eqb ((len - 4) mod 4) 0) ;;
           '(body, r3) <-- take (len - 4) r2 ;; '(pad, rest) <-- take (round8 len - len) r3 ;;
           _ <-- guard (all_zero pad) ;;
           l <-- sdec_hello_elems fuel' rest ;; Some (T KHelloElemBitmap [VN ty; VN len; VB body] [] :: l)
    end
  end.

Fixpoint sdec_tlvmaps (fuel : nat) (bs : list byte) : option (list tree) :=
  match fuel with
  | O => None
  | S fuel' =>
    match bs with
    | [] => Some []
    | _ => '(vs, r) <-- sfields [FU 2; FU 1; FU 1; FU 2; FZ 2] bs ;; l <-- sdec_tlvmaps fuel' r ;; Some (T KTlvMap vs [] :: l)
    end
  end.

(* multipart request bodies of OpenFlow 1.3 (ofp_flow_stats_request, ofp_aggregate_stats_request,
   ofp_port_stats_request: port_no(4) pad(4), ofp_queue_stats_request: port_no(4) queue_id(4)) *)
Definition sdec_mp_body (ty : N) (bs : list byte) : option (list tree) :=
  if (N.eqb ty 0 || N.eqb ty 3)%bool then (match bs with [] => Some [] | _ => None end)
  else if (N.eqb ty 1 || N.eqb ty 2)%bool then
    '(vs, r) <-- sfields [FU 1; FZ 3; FU 4; FU 4; FZ 4; FU 8; FU 8] bs ;;
    '(m, rest) <-- sdec_match r ;; _ <-- guard (match rest with [] => true | _ => false end) ;;
    Some [T (if N.eqb ty 1 then KFlowStatsReq else KAggStatsReq) vs [m]]
  else if N.eqb ty 4 then
    '(vs, r) <-- sfields [FU 4; FZ 4] bs ;; _ <-- guard (match r with [] => true | _ => false end) ;; Some [T KPortStatsReq vs []]
  else if N.eqb ty 5 then
    '(vs, r) <-- sfields [FU 4; FU 4] bs ;; _ <-- guard (match r with [] => true | _ => false end) ;; Some [T KQueueStatsReq vs []]
  else None.

Definition NX_VENDOR : N := 8992.        (* 0x00002320 *)
Definition ONF_VENDOR : N := 1330529792. (* 0x4f4e4600 *)

Fixpoint sdec_msg (fuel : nat) (bs : list byte) : option (tree * list byte) :=
  match fuel with
  | O => None
  | S fuel' =>
    '(hv, _) <-- sfields S_ofhdr bs ;;
    match hv with
    | [VN ver; VN ty; VN len; VN xid] =>
      _ <-- guard (N.eqb ver 4 && (8 <=? len)) ;;
      '(msg, rest) <-- take len bs ;;
      let body := skipn 8 msg in
      if N.eqb ty 0 then
        es <-- sdec_hello_elems (S (length body)) body ;; Some (T KHello hv es, rest)
      else if (N.eqb ty 2 || N.eqb ty 3 || N.eqb ty 5 || N.eqb ty 7 || N.eqb ty 20)%bool then
        _ <-- guard (N.eqb len 8) ;; Some (T KHeaderOnly hv [], rest)
      else if N.eqb ty 9 then                    (* ofp_switch_config *)
        '(vs, r) <-- sfields [FU 2; FU 2] body ;; _ <-- guard (match r with [] => true | _ => false end) ;;
        Some (T KSwitchConfig (hv ++ vs) [], rest)
      else if N.eqb ty 14 then                   (* ofp_flow_mod *)
        '(vs, r) <-- sfields [FU 8; FU 8; FU 1; FU 1; FU 2; FU 2; FU 2; FU 4; FU 4; FU 4; FU 2; FZ 2] body ;;
        '(m, r') <-- sdec_match r ;; is <-- sdec_instrs (S (length r')) r' ;;
        Some (T KFlowMod (hv ++ vs) (m :: is), rest)
      else if N.eqb ty 15 then                   (* ofp_group_mod *)
        '(vs, r) <-- sfields [FU 2; FU 1; FU 1; FU 4] body ;;
        bks <-- sdec_buckets (S (length r)) r ;; Some (T KGroupMod (hv ++ vs) bks, rest)
      else if N.eqb ty 13 then                   (* ofp_packet_out *)
        '(vs, r) <-- sfields [FU 4; FU 4; FU 2; FZ 6] body ;;
        match vs with
        | [_; _; VN alen] =>
          '(ab, data) <-- take alen r ;;
          acts <-- sdec_actions (S (length ab)) ab ;;
          Some (T KPacketOut (hv ++ vs) (acts ++ match data with [] => [] | _ => [T KRaw [VB data] []] end), rest)
        | _ => None
        end
      else if N.eqb ty 16 then                   (* ofp_port_mod *)
        '(vs, r) <-- sfields [FU 4; FZ 4; FB 6; FZ 2; FU 4; FU 4; FU 4; FZ 4] body ;;
        _ <-- guard (match r with [] => true | _ => false end) ;; Some (T KPortMod (hv ++ vs) [], rest)
      else if N.eqb ty 18 then                   (* ofp_multipart_request *)
        '(vs, r) <-- sfields [FU 2; FU 2; FZ 4] body ;;
        match vs with
        | [VN mpty; _] => b <-- sdec_mp_body mpty r ;; Some (T KMultipartReq (hv ++ vs) b, rest)
        | _ => None
        end
      else if N.eqb ty 4 then                    (* ofp_experimenter_header *)
        '(vs, r) <-- sfields [FU 4; FU 4] body ;;
        match vs with
        | [VN vendor; VN et] =>
          if N.eqb vendor NX_VENDOR then
            if N.eqb et 20 then                  (* nx_controller_id: zero[6] controller_id *)
              '(cv, r') <-- sfields [FZ 6; FU 2] r ;; _ <-- guard (match r' with [] => true | _ => false end) ;;
              Some (T KVendor (hv ++ vs) [T KControllerID cv []], rest)
            else if N.eqb et 24 then             (* nx_tlv_table_mod: command pad[6] maps *)
              '(cv, r') <-- sfields [FU 2; FZ 6] r ;; ms <-- sdec_tlvmaps (S (length r')) r' ;;
              Some (T KVendor (hv ++ vs) [T KTlvTableMod cv ms], rest)
            else if N.eqb et 25 then
              _ <-- guard (match r with [] => true | _ => false end) ;; Some (T KVendor (hv ++ vs) [], rest)
            else None
          else if N.eqb vendor ONF_VENDOR then
            if N.eqb et 2300 then                (* onf bundle control: bundle_id type flags *)
              '(cv, r') <-- sfields [FU 4; FU 2; FU 2] r ;; _ <-- guard (match r' with [] => true | _ => false end) ;;
              Some (T KVendor (hv ++ vs) [T KBundleCtrl cv []], rest)
            else if N.eqb et 2301 then           (* onf bundle add: bundle_id pad[2] flags message properties *)
              '(cv, r') <-- sfields [FU 4; FZ 2; FU 2] r ;;
              '(inner, props) <-- sdec_msg fuel' r' ;;
              _ <-- guard (match props with [] => true | _ => false end) ;;
              Some (T KVendor (hv ++ vs) [T KBundleAdd cv [inner]], rest)
            else None
          else None
        | _ => None
        end
      else None
    | _ => None
    end
  end.

(* a whole message: decoded, nothing left over *)
Definition spec_decode (bs : list byte) : option tree :=
  match sdec_msg (S (length bs)) bs with
  | Some (t, []) => Some t
  | _ => None
  end.

(* the walker of C02: the same walk with the tree forgotten *)
Definition spec_walk (bs : list byte) : bool :=
  match spec_decode bs with Some _ => true | None => false end.

(* what the independent decoder is expected to return for the value the API calls built:
   the built value after MarshalBinary's write-backs, with two presentation differences -
   a note's trailing padding belongs to the note on the wire, a slot filled by copy() is
   seen at its fixed width, and an empty packet-out payload is no payload *)
Fixpoint canon (t : tree) : tree :=
  match t with
  | T k vs kids =>
    let kids' := map canon kids in
    match k with
    | KNxNote => match vs with
                 | [a; b; c; d; VB note] => T k [a; b; c; d; VB (note ++ zeros (pad8 (10 + length note)))] kids'
                 | _ => T k vs kids' end
    | KPortMod => match vs with
                  | h1 :: h2 :: h3 :: h4 :: p :: VB hw :: rest => T k (h1 :: h2 :: h3 :: h4 :: p :: VB (fit 6 hw) :: rest) kids'
                  | _ => T k vs kids' end
    | KPacketOut => T k vs (filter (fun x => match x with T KRaw [VB []] [] => false | _ => true end) kids')
    | _ => T k vs kids'
    end
  end.

