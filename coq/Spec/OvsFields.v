(* Specification table: Open vSwitch / OpenFlow 1.3 match-field names -> (class, field
   number, payload width in bytes). Transcribed from OpenFlow 1.3.5 section 7.2.3.7
   (table 12, OXM_OF_*, class 0x8000) and Open vSwitch include/openvswitch/meta-flow.h
   (NXM_OF_*, class 0; NXM_NX_*, class 1), written from knowledge of those documents -
   the documents themselves are not available in this sandbox (trusted base).
   Widths worth a remark: ipv6_label is a 32-bit field (low 20 bits used);
   tun_metadataN is be1024 of which 992 bits (124 bytes) are usable; pbb_isid is 3. *)
From Coq Require Import NArith List String.
Import ListNotations.
Local Open Scope N_scope.
Local Open Scope string_scope.

Definition NXM0 : N := 0.
Definition NXM1 : N := 1.
Definition OFB : N := 32768. (* 0x8000 *)

Definition ovs_fields : list (string * (N * N * N)) := [
  ("NXM_OF_IN_PORT", (NXM0, 0, 2));
  ("NXM_OF_ETH_DST", (NXM0, 1, 6));
  ("NXM_OF_ETH_SRC", (NXM0, 2, 6));
  ("NXM_OF_ETH_TYPE", (NXM0, 3, 2));
  ("NXM_OF_VLAN_TCI", (NXM0, 4, 2));
  ("NXM_OF_IP_TOS", (NXM0, 5, 1));
  ("NXM_OF_IP_PROTO", (NXM0, 6, 1));
  ("NXM_OF_IP_SRC", (NXM0, 7, 4));
  ("NXM_OF_IP_DST", (NXM0, 8, 4));
  ("NXM_OF_TCP_SRC", (NXM0, 9, 2));
  ("NXM_OF_TCP_DST", (NXM0, 10, 2));
  ("NXM_OF_UDP_SRC", (NXM0, 11, 2));
  ("NXM_OF_UDP_DST", (NXM0, 12, 2));
  ("NXM_OF_ICMP_TYPE", (NXM0, 13, 1));
  ("NXM_OF_ICMP_CODE", (NXM0, 14, 1));
  ("NXM_OF_ARP_OP", (NXM0, 15, 2));
  ("NXM_OF_ARP_SPA", (NXM0, 16, 4));
  ("NXM_OF_ARP_TPA", (NXM0, 17, 4));
  ("NXM_NX_REG0", (NXM1, 0, 4));
  ("NXM_NX_REG1", (NXM1, 1, 4));
  ("NXM_NX_REG2", (NXM1, 2, 4));
  ("NXM_NX_REG3", (NXM1, 3, 4));
  ("NXM_NX_REG4", (NXM1, 4, 4));
  ("NXM_NX_REG5", (NXM1, 5, 4));
  ("NXM_NX_REG6", (NXM1, 6, 4));
  ("NXM_NX_REG7", (NXM1, 7, 4));
  ("NXM_NX_REG8", (NXM1, 8, 4));
  ("NXM_NX_REG9", (NXM1, 9, 4));
  ("NXM_NX_REG10", (NXM1, 10, 4));
  ("NXM_NX_REG11", (NXM1, 11, 4));
  ("NXM_NX_REG12", (NXM1, 12, 4));
  ("NXM_NX_REG13", (NXM1, 13, 4));
  ("NXM_NX_REG14", (NXM1, 14, 4));
  ("NXM_NX_REG15", (NXM1, 15, 4));
  ("NXM_NX_TUN_ID", (NXM1, 16, 8));
  ("NXM_NX_ARP_SHA", (NXM1, 17, 6));
  ("NXM_NX_ARP_THA", (NXM1, 18, 6));
  ("NXM_NX_IPV6_SRC", (NXM1, 19, 16));
  ("NXM_NX_IPV6_DST", (NXM1, 20, 16));
  ("NXM_NX_ICMPV6_TYPE", (NXM1, 21, 1));
  ("NXM_NX_ICMPV6_CODE", (NXM1, 22, 1));
  ("NXM_NX_ND_TARGET", (NXM1, 23, 16));
  ("NXM_NX_ND_SLL", (NXM1, 24, 6));
  ("NXM_NX_ND_TLL", (NXM1, 25, 6));
  ("NXM_NX_IP_FRAG", (NXM1, 26, 1));
  ("NXM_NX_IPV6_LABEL", (NXM1, 27, 4));
  ("NXM_NX_IP_ECN", (NXM1, 28, 1));
  ("NXM_NX_IP_TTL", (NXM1, 29, 1));
  ("NXM_NX_MPLS_TTL", (NXM1, 30, 1));
  ("NXM_NX_TUN_IPV4_SRC", (NXM1, 31, 4));
  ("NXM_NX_TUN_IPV4_DST", (NXM1, 32, 4));
  ("NXM_NX_PKT_MARK", (NXM1, 33, 4));
  ("NXM_NX_TCP_FLAGS", (NXM1, 34, 2));
  ("NXM_NX_CONJ_ID", (NXM1, 37, 4));
  ("NXM_NX_TUN_GBP_ID", (NXM1, 38, 2));
  ("NXM_NX_TUN_GBP_FLAGS", (NXM1, 39, 1));
  ("NXM_NX_TUN_METADATA0", (NXM1, 40, 124));
  ("NXM_NX_TUN_METADATA1", (NXM1, 41, 124));
  ("NXM_NX_TUN_METADATA2", (NXM1, 42, 124));
  ("NXM_NX_TUN_METADATA3", (NXM1, 43, 124));
  ("NXM_NX_TUN_METADATA4", (NXM1, 44, 124));
  ("NXM_NX_TUN_METADATA5", (NXM1, 45, 124));
  ("NXM_NX_TUN_METADATA6", (NXM1, 46, 124));
  ("NXM_NX_TUN_METADATA7", (NXM1, 47, 124));
  ("NXM_NX_TUN_FLAGS", (NXM1, 104, 2));
  ("NXM_NX_CT_STATE", (NXM1, 105, 4));
  ("NXM_NX_CT_ZONE", (NXM1, 106, 2));
  ("NXM_NX_CT_MARK", (NXM1, 107, 4));
  ("NXM_NX_CT_LABEL", (NXM1, 108, 16));
  ("NXM_NX_TUN_IPV6_SRC", (NXM1, 109, 16));
  ("NXM_NX_TUN_IPV6_DST", (NXM1, 110, 16));
  ("NXM_NX_XXREG0", (NXM1, 111, 16));
  ("NXM_NX_XXREG1", (NXM1, 112, 16));
  ("NXM_NX_XXREG2", (NXM1, 113, 16));
  ("NXM_NX_XXREG3", (NXM1, 114, 16));
  ("NXM_NX_CT_NW_PROTO", (NXM1, 119, 1));
  ("NXM_NX_CT_NW_SRC", (NXM1, 120, 4));
  ("NXM_NX_CT_NW_DST", (NXM1, 121, 4));
  ("NXM_NX_CT_IPV6_SRC", (NXM1, 122, 16));
  ("NXM_NX_CT_IPV6_DST", (NXM1, 123, 16));
  ("NXM_NX_CT_TP_SRC", (NXM1, 124, 2));
  ("NXM_NX_CT_TP_DST", (NXM1, 125, 2));
  ("OXM_OF_IN_PORT", (OFB, 0, 4));
  ("OXM_OF_IN_PHY_PORT", (OFB, 1, 4));
  ("OXM_OF_METADATA", (OFB, 2, 8));
  ("OXM_OF_ETH_DST", (OFB, 3, 6));
  ("OXM_OF_ETH_SRC", (OFB, 4, 6));
  ("OXM_OF_ETH_TYPE", (OFB, 5, 2));
  ("OXM_OF_VLAN_VID", (OFB, 6, 2));
  ("OXM_OF_VLAN_PCP", (OFB, 7, 1));
  ("OXM_OF_IP_DSCP", (OFB, 8, 1));
  ("OXM_OF_IP_ECN", (OFB, 9, 1));
  ("OXM_OF_IP_PROTO", (OFB, 10, 1));
  ("OXM_OF_IPV4_SRC", (OFB, 11, 4));
  ("OXM_OF_IPV4_DST", (OFB, 12, 4));
  ("OXM_OF_TCP_SRC", (OFB, 13, 2));
  ("OXM_OF_TCP_DST", (OFB, 14, 2));
  ("OXM_OF_UDP_SRC", (OFB, 15, 2));
  ("OXM_OF_UDP_DST", (OFB, 16, 2));
  ("OXM_OF_SCTP_SRC", (OFB, 17, 2));
  ("OXM_OF_SCTP_DST", (OFB, 18, 2));
  ("OXM_OF_ICMPV4_TYPE", (OFB, 19, 1));
  ("OXM_OF_ICMPV4_CODE", (OFB, 20, 1));
  ("OXM_OF_ARP_OP", (OFB, 21, 2));
  ("OXM_OF_ARP_SPA", (OFB, 22, 4));
  ("OXM_OF_ARP_TPA", (OFB, 23, 4));
  ("OXM_OF_ARP_SHA", (OFB, 24, 6));
  ("OXM_OF_ARP_THA", (OFB, 25, 6));
  ("OXM_OF_IPV6_SRC", (OFB, 26, 16));
  ("OXM_OF_IPV6_DST", (OFB, 27, 16));
  ("OXM_OF_IPV6_FLABEL", (OFB, 28, 4));
  ("OXM_OF_ICMPV6_TYPE", (OFB, 29, 1));
  ("OXM_OF_ICMPV6_CODE", (OFB, 30, 1));
  ("OXM_OF_IPV6_ND_TARGET", (OFB, 31, 16));
  ("OXM_OF_IPV6_ND_SLL", (OFB, 32, 6));
  ("OXM_OF_IPV6_ND_TLL", (OFB, 33, 6));
  ("OXM_OF_MPLS_LABEL", (OFB, 34, 4));
  ("OXM_OF_MPLS_TC", (OFB, 35, 1));
  ("OXM_OF_MPLS_BOS", (OFB, 36, 1));
  ("OXM_OF_PBB_ISID", (OFB, 37, 3));
  ("OXM_OF_TUNNEL_ID", (OFB, 38, 8));
  ("OXM_OF_IPV6_EXTHDR", (OFB, 39, 2))].

Fixpoint spec_lookup (k : string) (l : list (string * (N * N * N))) : option (N * N * N) :=
  match l with
  | [] => None
  | (n, v) :: r => if String.eqb n k then Some v else spec_lookup k r
  end.

Definition spec_entry (name : string) : option (N * N * N) := spec_lookup name ovs_fields.

(* the 32-bit OXM/NXM header: class(16) | field(7) | hasmask(1) | length(8) *)
Definition spec_header (c f : N) (hm : bool) (len : N) : N :=
  c * 65536 + f * 512 + (if hm then 256 else 0) + len.
