(* The independent decoder (Spec/Walk.v) against the model's encoder: the generic
   table lemma and its instances for the fixed-layout actions and instructions. *)
From Coq Require Import NArith ZArith Arith List Bool Lia ZifyN ZifyBool ZifyNat.
From Coq.Strings Require Import Byte.
From LOF Require Import Base.Bytes Model.Wire Model.Build Spec.Walk Proofs.WireP.
Import ListNotations.
Open Scope N_scope.

Lemma take_app a b : take (blen a) (a ++ b) = Some (a, b).
Proof.
  unfold take, blen. rewrite app_length, Nat2N.inj_add. replace (_ <=? _) with true by lia.
  rewrite Nat2N.id, firstn_app, Nat.sub_diag, firstn_all, skipn_app, Nat.sub_diag, skipn_all. cbn. rewrite app_nil_r. reflexivity.
Qed.

Lemma num_be w x r : x < 256 ^ N.of_nat w -> num w (be_bytes w x ++ r) = Some (x, r).
Proof.
  intros H. unfold num. pose proof (take_app (be_bytes w x) r) as Ht. unfold blen in Ht.
  rewrite length_be_bytes in Ht. rewrite Ht. cbn [obind]. rewrite be_value_be_bytes by exact H. reflexivity.
Qed.

Lemma all_zero_zeros k : all_zero (zeros k) = true.
Proof. induction k as [|k IH]; cbn; [reflexivity|exact IH]. Qed.

(* layouts made of numbers and zero padding only *)
Fixpoint plain (l : list fld) : bool :=
  match l with [] => true | FU _ :: r | FZ _ :: r => plain r | _ => false end.

(* the table lemma: reading a plain layout back from its own encoding *)
Lemma sfields_enc l : forall vs rest, plain l = true -> vals_ok l vs = true ->
  sfields l (enc_fields l vs ++ rest) = Some (vs, rest).
Proof.
  induction l as [|f l IH]; intros vs rest Hp Hv; cbn [sfields enc_fields vals_ok plain] in *.
  - destruct vs; [reflexivity|discriminate Hv].
  - destruct f as [w|k|k|]; try discriminate Hp.
    + destruct vs as [|[n|b] vs']; try discriminate Hv. apply andb_true_iff in Hv as [Hn Hv].
      rewrite <- app_assoc, num_be by lia. cbn [obind]. rewrite IH by assumption. reflexivity.
    + rewrite <- app_assoc. pose proof (take_app (zeros k) (enc_fields l vs ++ rest)) as Ht.
      unfold blen in Ht. rewrite length_zeros in Ht. rewrite Ht. cbn [obind].
      rewrite all_zero_zeros. cbn [guard obind]. apply IH; assumption.
Qed.

(* a childless element with a plain layout *)
Definition simple (t : tree) : bool :=
  match t with
  | T k vs [] => plain (layout k) && vals_ok (layout k) vs && negb (align8 k)
  | _ => false
  end.

Lemma simple_wire k vs : simple (T k vs []) = true -> wire (T k vs []) = enc_fields (layout k) vs.
Proof.
  cbn [simple wire flat_map]. intros H. apply andb_true_iff in H as [_ Ha]. apply negb_true_iff in Ha.
  rewrite Ha, app_nil_r. reflexivity.
Qed.

(* fixed-size standard action: type code and length field announce what follows *)
Lemma sdec_std_action k ty len rest0 fuel rest :
  let t := T k (VN ty :: VN len :: rest0) [] in
  simple t = true -> std_action ty = Some (k, layout k, len) -> size t = len -> ty <> 25 -> ty <> 65535 ->
  sdec_action (S fuel) (wire t ++ rest) = Some (t, rest).
Proof.
  intros t Hs Hd Hsz H25 Hx. subst t.
  pose proof (simple_wire k _ Hs) as Hw.
  assert (Hl : exists l', layout k = FU 2 :: FU 2 :: l').
  { destruct ty as [|p]; cbn in Hd; try discriminate Hd;
      repeat (destruct p as [p|p|]; try discriminate Hd); inversion Hd; subst; eexists; reflexivity. }
  destruct Hl as [l' Hl].
  cbn [simple] in Hs. apply andb_true_iff in Hs as [Hs _]. apply andb_true_iff in Hs as [Hp Hv].
  assert (Hty : ty < 65536 /\ len < 65536).
  { rewrite Hl in Hv. cbn [vals_ok] in Hv. change (256 ^ N.of_nat 2) with 65536 in Hv. lia. }
  assert (Hlen8 : (8 <=? len) && (len mod 8 =? 0) = true).
  { destruct ty as [|p]; cbn in Hd; try discriminate Hd;
      repeat (destruct p as [p|p|]; try discriminate Hd); inversion Hd; subst; reflexivity. }
  cbn [sdec_action]. rewrite Hw.
  set (E := enc_fields (layout k) (VN ty :: VN len :: rest0)) in *.
  assert (HE : E = be_bytes 2 ty ++ be_bytes 2 len ++ enc_fields l' rest0)
    by (subst E; rewrite Hl; reflexivity).
  assert (Hn1 : num 2 (E ++ rest) = Some (ty, be_bytes 2 len ++ enc_fields l' rest0 ++ rest)).
  { rewrite HE, <- !app_assoc. apply num_be. change (256 ^ N.of_nat 2) with 65536. lia. }
  assert (Hn2 : num 2 (be_bytes 2 len ++ enc_fields l' rest0 ++ rest) = Some (len, enc_fields l' rest0 ++ rest)).
  { apply num_be. change (256 ^ N.of_nat 2) with 65536. lia. }
  assert (Htake : take len (E ++ rest) = Some (E, rest)).
  { assert (Hb : blen E = len) by (unfold size in Hsz; rewrite Hw in Hsz; exact Hsz).
    pose proof (take_app E rest) as Ht. rewrite Hb in Ht. exact Ht. }
  assert (Hf : sfields (layout k) E = Some (VN ty :: VN len :: rest0, [])).
  { pose proof (sfields_enc (layout k) (VN ty :: VN len :: rest0) [] Hp Hv) as Hf. rewrite app_nil_r in Hf. exact Hf. }
  rewrite Hn1. cbn [obind]. rewrite Hn2. cbn [obind]. rewrite Hlen8. cbn [guard obind].
  rewrite Htake. cbn [obind].
  replace (ty =? 25) with false by lia. replace (ty =? 65535) with false by lia.
  rewrite Hd. cbn [obind]. rewrite N.eqb_refl. cbn [guard obind].
  rewrite Hf. cbn [obind guard]. reflexivity.
Qed.

(* the seven standard fixed-size action constructors, for all argument values in range *)
Definition std_arec_ok (a : arec) : bool :=
  match a with
  | AOutput p ml => (p <? 4294967296) && (ml <? 65536)
  | ASetQueue q | AGroup q => q <? 4294967296
  | ADecNwTtl | APopVlan => true
  | APushVlan e | APushMpls e | APopMpls e => e <? 65536
  | _ => false
  end.

Theorem sdec_built_std_action a fuel rest : std_arec_ok a = true ->
  sdec_action (S fuel) (wire (build_a a) ++ rest) = Some (build_a a, rest).
Proof.
  intros H. destruct a; try discriminate H; cbn [std_arec_ok build_a] in *;
    apply sdec_std_action; try reflexivity; try lia.
  all: cbn [simple layout acthdr app plain vals_ok align8 negb andb].
  all: change (256 ^ N.of_nat 2) with 65536; change (256 ^ N.of_nat 4) with 4294967296.
  all: lia.
Qed.

(* a list of such actions is walked element by element to the exact end *)
Theorem sdec_built_std_actions acts : forallb std_arec_ok acts = true ->
  forall fuel, (length (flat_map wire (map build_a acts)) < fuel)%nat ->
  sdec_actions fuel (flat_map wire (map build_a acts)) = Some (map build_a acts).
Proof.
  induction acts as [|a r IH]; intros H fuel Hf; cbn [map flat_map forallb] in *.
  - destruct fuel; [lia|reflexivity].
  - apply andb_true_iff in H as [Ha Hr]. destruct fuel as [|fuel]; [lia|]. cbn [sdec_actions].
    assert (Hf' : (length (wire (build_a a)) + length (flat_map wire (map build_a r)) < S fuel)%nat)
      by (rewrite <- app_length; exact Hf).
    assert (Hne : wire (build_a a) <> []) by (destruct a; try discriminate Ha; discriminate).
    destruct (wire (build_a a) ++ flat_map wire (map build_a r)) as [|b0 l0] eqn:E.
    { apply app_eq_nil in E as [E _]. contradiction. }
    assert (Hpos : (0 < length (wire (build_a a)))%nat) by (destruct (wire (build_a a)); [contradiction|cbn; lia]).
    rewrite <- E. rewrite sdec_built_std_action by exact Ha. cbn [obind].
    rewrite app_length.
    replace (_ <? _)%nat with true by (symmetry; apply Nat.ltb_lt; lia).
    cbn [guard obind]. rewrite IH; [reflexivity|exact Hr|lia].
Qed.

(* known finding D10, as a refutation of the full statement: a port statistics request is
   not decoded to the value that was supplied *)
Lemma c03_refuted_by_port_stats_request :
  let t := build_m 7 (MMultipart 4 0 (BPort 1)) in
  spec_decode (fst (marshal t)) = Some (T KMultipartReq [VN 4; VN 18; VN 24; VN 7; VN 4; VN 0] [T KPortStatsReq [VN 65536] []]) /\
  snd (marshal t) = T KMultipartReq [VN 4; VN 18; VN 24; VN 7; VN 4; VN 0] [T KPortStatsReq [VN 1] []].
Proof. vm_compute. split; reflexivity. Qed.

(* non-vacuity of the whole stack: a flow-mod with masked fields, nested conntrack + NAT,
   learn, note and set-field actions is decoded by the independent decoder to exactly the
   value the API calls built *)
Example full_stack_example :
  let m := MFlowMod 1 2 3 0 4 5 6 7 8 9 10
             [MFStd 1 (AB []) (Some (AB [])); MFReg 3 7 (Some (4%Z, 9%Z)); MFStd 7 (AB []) None; MFTunMeta 2 [x01; x02; x03] []]
             [IApply [(ACT [CtCommit; CtZoneImm 5] 0 [ANat [NatSNAT; NatIP4Min []; NatProtoMax 9]; ASetField (MFStd 3 (AN 2048) None)], false);
                      (ADecTtlCntIds 3 [1; 2; 3], true); (ANote [x0a; x0b; x0c; x0d; x0e; x0f], false);
                      (ALearn 1 2 3 4 5 6 7 8 [LSpec 0 16 ((0,0,false,0),0) ((1,3,false,4),0) [x01;x02]; LSpec 4 8 ((1,2,false,4),0) ((0,0,false,0),0) []], false)];
              IGoto 4; IWriteMeta 5 6] in
  let t := build_m 99 m in
  spec_decode (fst (marshal t)) = Some (snd (marshal t)).
Proof. vm_compute. reflexivity. Qed.
