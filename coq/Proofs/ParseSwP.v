(* Switch-originated messages: spec-conformant bytes (written here with the layout tables,
   independently of the decoders) are parsed to the value that was written. Concrete values
   by vm_compute; the known finding D37 as a refutation. *)
From Coq Require Import NArith ZArith List Bool.
From Coq.Strings Require Import Byte.
From LOF Require Import Base.Bytes Base.Res Model.Wire Model.Build Model.Proto Model.Parse.
Import ListNotations.
Open Scope N_scope.

Definition port1 : tree :=
  T KPhyPort [VN 7; VB [x01;x02;x03;x04;x05;x06]; VB (fit 16 [x65;x74;x68;x30]); VN 1; VN 2; VN 3; VN 4; VN 5; VN 6; VN 7; VN 8] [].
Definition m_of (fs : list mfrec) : tree := build_match fs.

Definition sw_examples : list tree :=
  [ (* port-status *)
    T KPortStatus [VN 4; VN 12; VN 80; VN 9; VN 2] [port1] ;
    (* flow-removed with a masked match *)
    T KFlowRemoved [VN 4; VN 11; VN 72; VN 10; VN 11; VN 12; VN 1; VN 2; VN 3; VN 4; VN 5; VN 6; VN 7; VN 8]
      [m_of [MFStd 0 (AN 5) None; MFStd 7 (AB [x0a;x00;x00;x01]) (Some (AB [xff;xff;xff;x00]))]] ;
    (* packet-in carrying a VLAN-tagged IPv4/UDP frame *)
    T KPacketIn [VN 4; VN 10; VN 98; VN 11; VN 4294967295; VN 60; VN 1; VN 0; VN 99]
      [m_of [MFStd 0 (AN 5) None]; T KPad2 [] [];
       T KEth [VB [x01;x02;x03;x04;x05;x06]; VB [x0a;x0b;x0c;x0d;x0e;x0f]]
         [T KVlan [VN 33024; VN (pack_tci 5 1 100)] []; T KU16 [VN 2048] [];
          T KIp4 [VN 69; VN 0; VN 32; VN 7; VN 16384; VN 64; VN 17; VN 0; VB [x0a;x00;x00;x01]; VB [x0a;x00;x00;x02]; VB []]
            [T KUdp [VN 53; VN 4242; VN 12; VN 0; VB [x01;x02;x03;x04]] []]]] ;
    (* features reply with two ports *)
    T KFeatures [VN 4; VN 6; VN 160; VN 12; VB [x00;x00;x00;x00;x00;x00;x00;x2a]; VN 256; VN 254; VN 0; VN 79; VN 0] [port1; port1] ;
    (* multipart reply: flow statistics with an apply-actions instruction *)
    T KMultipartReply [VN 4; VN 19; VN 104; VN 13; VN 1; VN 0]
      [T KFlowStats [VN 88; VN 3; VN 0; VN 10; VN 20; VN 100; VN 0; VN 0; VN 1; VN 42; VN 1000; VN 64000]
         [m_of [MFStd 3 (AN 2048) None]; build_i (IApply [(AOutput 1 128, false); (ASetQueue 3, false)])]] ;
    (* error with data; experimenter error *)
    T KError [VN 4; VN 1; VN 16; VN 14; VN 3; VN 2; VB [x0a;x0b;x0c;x0d]] [] ;
    T KVendorError [VN 4; VN 1; VN 20; VN 15; VN 65535; VN 2301; VN 1330529792; VB [x0a;x0b;x0c;x0d]] [] ].

Lemma sw_examples_ok : Forall (fun t => parse_top (wire t) = Ok t) sw_examples.
Proof. repeat constructor; vm_compute; reflexivity. Qed.

(* a hello whose version bitmap is followed by an element of an unknown type: the unknown
   element is skipped, the bitmap is what the element's own length says *)
Lemma hello_unknown_element_skipped :
  parse_top ([x04; x00; x00; x18; x00; x00; x00; x01] ++ [x00; x01; x00; x08; x00; x00; x00; x12] ++ [x00; x07; x00; x06; xaa; xbb; x00; x00])
  = Ok (T KHello [VN 4; VN 0; VN 24; VN 1] [T KHelloElemBitmap [VN 1; VN 8; VB [x00; x00; x00; x12]] []]).
Proof. vm_compute. reflexivity. Qed.

(* D37: an echo request with a body is parsed to the bare header - the body is not in the
   parsed value *)
Lemma echo_body_dropped :
  parse_top [x04; x02; x00; x0c; x00; x00; x00; x01; xde; xad; xbe; xef] = Ok (T KHeaderOnly [VN 4; VN 2; VN 12; VN 1] []) /\
  wire (T KHeaderOnly [VN 4; VN 2; VN 12; VN 1] []) <> [x04; x02; x00; x0c; x00; x00; x00; x01; xde; xad; xbe; xef].
Proof. split; [vm_compute; reflexivity|vm_compute; discriminate]. Qed.
