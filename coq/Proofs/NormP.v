(* MarshalBinary's write-backs (Model/Wire.v: norm): they change no size, keep values
   consistent, and doing them twice is the same as doing them once. *)
From Coq Require Import NArith ZArith List Bool Lia ZifyN ZifyBool ZifyNat.
From Coq.Strings Require Import Byte.
From LOF Require Import Base.Bytes Model.Wire Proofs.WireP.
Import ListNotations.
Open Scope N_scope.

Lemma set_nth_num l : forall vs i n x, vals_shape l vs = true -> nth_error vs i = Some (VN n) ->
  vals_shape l (set_nth i (VN x) vs) = true /\ fields_len l (set_nth i (VN x) vs) = fields_len l vs /\
  length (enc_fields l (set_nth i (VN x) vs)) = length (enc_fields l vs).
Proof.
  induction l as [|f l IH]; intros vs i n x Hs Hn.
  - destruct vs; [destruct i; discriminate Hn|discriminate Hs].
  - destruct f as [w|k|k|]; cbn [vals_shape fields_len enc_fields] in *.
    + destruct vs as [|[m|bs] vs']; try discriminate Hs. destruct i as [|i]; cbn [set_nth nth_error] in *.
      * repeat split; [exact Hs|rewrite !app_length, !length_be_bytes; reflexivity].
      * destruct (IH vs' i n x Hs Hn) as [H1 [H2 H3]]. repeat split; [exact H1|rewrite H2; reflexivity|].
        rewrite !app_length, H3. reflexivity.
    + destruct (IH vs i n x Hs Hn) as [H1 [H2 H3]]. repeat split; [exact H1|rewrite H2; reflexivity|].
      rewrite !app_length, H3. reflexivity.
    + destruct vs as [|[m|bs] vs']; try discriminate Hs. destruct i as [|i]; cbn [set_nth nth_error] in *; [discriminate Hn|].
      destruct (IH vs' i n x Hs Hn) as [H1 [H2 H3]]. repeat split; [exact H1|rewrite H2; reflexivity|].
      rewrite !app_length, H3. reflexivity.
    + destruct vs as [|[m|bs] vs']; try discriminate Hs. destruct i as [|i]; cbn [set_nth nth_error] in *; [discriminate Hn|].
      destruct (IH vs' i n x Hs Hn) as [H1 [H2 H3]]. repeat split; [exact H1|rewrite H2; reflexivity|].
      rewrite !app_length, H3. reflexivity.
Qed.

Lemma writeback_slot_num k i vs : writeback k = Some i -> vals_shape (layout k) vs = true ->
  exists n, nth_error vs i = Some (VN n).
Proof.
  intros Hw Hs. destruct k; try discriminate Hw; injection Hw as <-;
    destruct vs as [|[a|a] [|[b|b] [|[c|c] vs']]]; try discriminate Hs; cbn [nth_error]; eauto.
Qed.

Lemma set_nth_twice {A} i (x y : A) l : set_nth i x (set_nth i y l) = set_nth i x l.
Proof. revert i. induction l as [|a r IH]; intros [|i]; cbn [set_nth]; try reflexivity. rewrite IH. reflexivity. Qed.

Lemma vnum_set_nth_same i x vs n : nth_error vs i = Some (VN n) -> vnum (set_nth i (VN x) vs) i = x.
Proof.
  unfold vnum. revert i. induction vs as [|a r IH]; intros [|i] H; cbn [set_nth nth nth_error] in *; try discriminate H; [reflexivity|].
  apply IH, H.
Qed.

Fixpoint shaped (t : tree) : bool :=
  match t with T k vs kids => vals_shape (layout k) vs && forallb shaped kids end.

Lemma consistent_shaped : forall t, consistent t = true -> shaped t = true.
Proof.
  induction t as [k vs kids IH] using tree_ind'. intros H. rewrite consistent_unfold in H.
  apply andb_true_iff in H as [Ho Hk]. unfold own_ok in Ho. apply andb_true_iff in Ho as [Hv _].
  cbn [shaped]. rewrite Hv. cbn [andb]. apply forallb_forall. intros x Hx.
  rewrite Forall_forall in IH. rewrite forallb_forall in Hk. apply IH; [exact Hx|apply Hk, Hx].
Qed.

(* what norm does to the value list of a node whose children are already normalised *)
Definition norm_vals (k : kind) (vs : list val) (kids' : list tree) : list val :=
  match writeback k with Some i => set_nth i (VN (glen (T k vs kids'))) vs | None => vs end.

Lemma norm_unfold k vs kids : norm (T k vs kids) = T k (norm_vals k vs (map norm kids)) (map norm kids).
Proof. cbn [norm]. unfold norm_vals. destruct (writeback k); reflexivity. Qed.

Lemma norm_vals_shape k vs kids' : vals_shape (layout k) vs = true ->
  vals_shape (layout k) (norm_vals k vs kids') = true /\
  fields_len (layout k) (norm_vals k vs kids') = fields_len (layout k) vs /\
  length (enc_fields (layout k) (norm_vals k vs kids')) = length (enc_fields (layout k) vs).
Proof.
  intros Hs. unfold norm_vals. destruct (writeback k) as [i|] eqn:Ew; [|auto].
  destruct (writeback_slot_num k i vs Ew Hs) as [n Hn]. eapply set_nth_num; eassumption.
Qed.

Lemma forallb_map {A B} (f : A -> B) (p : B -> bool) l : forallb p (map f l) = forallb (fun x => p (f x)) l.
Proof. induction l as [|x r IH]; cbn [map forallb]; [reflexivity|]. rewrite IH. reflexivity. Qed.

Lemma map_ext_forall {A B} (f g : A -> B) l : Forall (fun x => f x = g x) l -> map f l = map g l.
Proof. induction 1 as [|x r Hx _ IH]; cbn [map]; [reflexivity|]. rewrite Hx, IH. reflexivity. Qed.

(* sizes, Len() answers and shapes are untouched by the write-backs *)
Lemma norm_keeps : forall t, shaped t = true ->
  shaped (norm t) = true /\ size (norm t) = size t /\ glen (norm t) = glen t.
Proof.
  induction t as [k vs kids IH] using tree_ind'. intros H. cbn [shaped] in H.
  apply andb_true_iff in H as [Hv Hk]. rewrite norm_unfold.
  assert (Hall : Forall (fun x => shaped (norm x) = true /\ size (norm x) = size x /\ glen (norm x) = glen x) kids).
  { rewrite Forall_forall in IH |- *. rewrite forallb_forall in Hk. intros x Hx. apply IH; [exact Hx|apply Hk, Hx]. }
  destruct (norm_vals_shape k vs (map norm kids) Hv) as [Hs' [Hf' _]].
  assert (Hsz : sumN (map size (map norm kids)) = sumN (map size kids)).
  { rewrite map_map. apply sum_map_ext. eapply Forall_impl; [|exact Hall]. intros x [_ [Hx _]]. exact Hx. }
  assert (Hgl : sumN (map glen (map norm kids)) = sumN (map glen kids)).
  { rewrite map_map. apply sum_map_ext. eapply Forall_impl; [|exact Hall]. intros x [_ [_ Hx]]. exact Hx. }
  split; [|split].
  - cbn [shaped]. rewrite Hs'. cbn [andb]. rewrite forallb_map. apply forallb_forall. intros x Hx.
    rewrite Forall_forall in Hall. apply Hall, Hx.
  - rewrite !size_unfold by assumption. unfold body_len. rewrite Hf', Hsz. reflexivity.
  - cbn [glen]. unfold norm_vals. destruct (lenrule_of k) eqn:Er.
    + assert (Hw : writeback k = None) by (destruct k; try discriminate Er; reflexivity). rewrite Hw. reflexivity.
    + assert (Hw : writeback k = Some 1%nat) by (destruct k; try discriminate Er; reflexivity). rewrite Hw.
      destruct (writeback_slot_num k 1%nat vs Hw Hv) as [n Hn]. rewrite (vnum_set_nth_same 1%nat _ vs n Hn).
      cbn [glen]. rewrite Er. apply round8_idem.
    + fold (norm_vals k vs (map norm kids)). rewrite Hf', Hgl. reflexivity.
Qed.

(* the value the write-back stores is the element's own Len() *)
Lemma norm_glen_arg k vs kids : Forall (fun x => shaped x = true) kids ->
  glen (T k vs (map norm kids)) = glen (T k vs kids).
Proof.
  intros H. cbn [glen]. destruct (lenrule_of k); try reflexivity.
  assert (Hgl : sumN (map glen (map norm kids)) = sumN (map glen kids)).
  { rewrite map_map. apply sum_map_ext. eapply Forall_impl; [|exact H]. intros x Hx. apply norm_keeps, Hx. }
  rewrite Hgl. reflexivity.
Qed.

(* MarshalBinary twice is MarshalBinary once *)
Theorem norm_idem : forall t, shaped t = true -> norm (norm t) = norm t.
Proof.
  induction t as [k vs kids IH] using tree_ind'. intros H. cbn [shaped] in H.
  apply andb_true_iff in H as [Hv Hk].
  assert (Hall : Forall (fun x => shaped x = true) kids).
  { apply Forall_forall. rewrite forallb_forall in Hk. exact Hk. }
  assert (Hkk : map norm (map norm kids) = map norm kids).
  { rewrite map_map. apply map_ext_forall. rewrite Forall_forall in IH, Hall |- *. intros x Hx. apply IH; [exact Hx|apply Hall, Hx]. }
  rewrite !norm_unfold, Hkk. f_equal.
  unfold norm_vals. destruct (writeback k) as [i|] eqn:Ew; [|reflexivity].
  destruct (writeback_slot_num k i vs Ew Hv) as [n Hn].
  rewrite set_nth_twice. f_equal. f_equal.
  set (g1 := glen (T k vs (map norm kids))).
  cbn [glen]. destruct (lenrule_of k) eqn:Er.
  - exfalso. destruct k; try discriminate Er; discriminate Ew.
  - assert (i = 1%nat) as -> by (destruct k; try discriminate Er; injection Ew as <-; reflexivity).
    rewrite (vnum_set_nth_same 1%nat g1 vs n Hn). subst g1. cbn [glen]. rewrite Er. apply round8_idem.
  - destruct (set_nth_num (layout k) vs i n g1 Hv Hn) as [_ [Hf _]]. rewrite Hf. subst g1. cbn [glen]. rewrite Er. reflexivity.
Qed.

Lemma norm_consistent : forall t, consistent t = true -> consistent (norm t) = true.
Proof.
  induction t as [k vs kids IH] using tree_ind'. intros H.
  pose proof (consistent_shaped _ H) as Hsh.
  destruct (norm_keeps _ Hsh) as [Hsh' [Hsz _]].
  rewrite consistent_unfold in H. apply andb_true_iff in H as [Ho Hk].
  rewrite norm_unfold in *. rewrite consistent_unfold. apply andb_true_iff. split.
  - unfold own_ok in *. apply andb_true_iff in Ho as [Hv Hl].
    destruct (norm_vals_shape k vs (map norm kids) Hv) as [Hs' [Hf' _]]. rewrite Hs'. cbn [andb].
    assert (Hbl : body_len (T k (norm_vals k vs (map norm kids)) (map norm kids)) = body_len (T k vs kids)).
    { unfold body_len. rewrite Hf'. f_equal. rewrite map_map. apply sum_map_ext.
      cbn [shaped] in Hsh. apply andb_true_iff in Hsh as [_ Hshk]. rewrite forallb_forall in Hshk.
      apply Forall_forall. intros x Hx. apply norm_keeps, Hshk, Hx. }
    destruct (lenrule_of k) eqn:Er.
    + assert (Hw : writeback k = None) by (destruct k; try discriminate Er; reflexivity).
      unfold norm_vals in *. rewrite Hw in *. rewrite Hsz. exact Hl.
    + assert (Hw : writeback k = Some 1%nat) by (destruct k; try discriminate Er; reflexivity).
      rewrite Hbl. unfold norm_vals. rewrite Hw.
      destruct (writeback_slot_num k 1%nat vs Hw Hv) as [n Hn]. rewrite (vnum_set_nth_same 1%nat _ vs n Hn).
      cbn [glen]. rewrite Er. rewrite round8_idem. exact Hl.
    + rewrite Hbl. exact Hl.
  - rewrite forallb_map. apply forallb_forall. intros x Hx. rewrite Forall_forall in IH. rewrite forallb_forall in Hk.
    apply IH; [exact Hx|apply Hk, Hx].
Qed.

(* Len() before = bytes produced = Len() after, for every consistent value *)
Theorem marshal_len : forall t, consistent t = true ->
  glen t = N.of_nat (length (fst (marshal t))) /\ glen (snd (marshal t)) = glen t /\
  marshal (snd (marshal t)) = marshal t.
Proof.
  intros t H. pose proof (consistent_shaped t H) as Hs. destruct (norm_keeps t Hs) as [_ [Hsz Hgl]].
  unfold marshal. cbn [fst snd]. rewrite (norm_idem t Hs). repeat split.
  - rewrite (glen_size t H). unfold size in Hsz. symmetry. exact Hsz.
  - exact Hgl.
Qed.

(* messages: version and type bytes are the stored ones and the length field of the
   encoding is the number of bytes produced *)
Definition is_msg_kind (k : kind) : bool :=
  match k with
  | KHello | KSwitchConfig | KFlowMod | KGroupMod | KPacketOut | KPortMod | KMultipartReq | KVendor => true
  | _ => false
  end.

Theorem msg_framing : forall k v ty len xid rest kids,
  is_msg_kind k = true -> consistent (T k (VN v :: VN ty :: VN len :: VN xid :: rest) kids) = true ->
  let t := T k (VN v :: VN ty :: VN len :: VN xid :: rest) kids in
  exists tail, fst (marshal t) = be8 v ++ be8 ty ++ be16 (glen t) ++ be32 xid ++ tail /\
               glen t = N.of_nat (length (fst (marshal t))).
Proof.
  intros k v ty len xid rest kids Hk Hc t.
  destruct (marshal_len t Hc) as [Hlen _]. split with (x := skipn 8 (fst (marshal t))). split; [|exact Hlen].
  unfold marshal. cbn [fst]. subst t. rewrite norm_unfold.
  assert (Hw : writeback k = Some 2%nat) by (destruct k; try discriminate Hk; reflexivity).
  unfold norm_vals. rewrite Hw. cbn [set_nth].
  assert (Hg : glen (T k (VN v :: VN ty :: VN len :: VN xid :: rest) (map norm kids)) =
               glen (T k (VN v :: VN ty :: VN len :: VN xid :: rest) kids)).
  { apply norm_glen_arg. pose proof (consistent_shaped _ Hc) as Hs. cbn [shaped] in Hs.
    apply andb_true_iff in Hs as [_ Hs]. apply Forall_forall. rewrite forallb_forall in Hs. exact Hs. }
  rewrite Hg. set (g := glen _).
  assert (Hl : exists l', layout k = FU 1 :: FU 1 :: FU 2 :: FU 4 :: l') by (destruct k; try discriminate Hk; eexists; reflexivity).
  destruct Hl as [l' Hl]. cbn [wire]. rewrite Hl. cbn [enc_fields].
  assert (Ha : align8 k = false) by (destruct k; try discriminate Hk; reflexivity). rewrite Ha.
  rewrite <- !app_assoc. cbn [be_bytes app skipn]. reflexivity.
Qed.

(* any history of Len()/MarshalBinary() calls: every Len() gives the same number, every
   MarshalBinary() the same bytes *)
Lemma run_ops_const ops : forall s g nt, shaped s = true -> glen s = g -> norm s = nt -> norm nt = nt ->
  glen nt = g -> shaped nt = true ->
  run_ops s ops = map (fun o => match o with OpLen => RLen g | OpMarshal => RBytes (wire nt) end) ops.
Proof.
  induction ops as [|o r IH]; intros s g nt Hs Hg Hn Hnn Hgn Hsn; cbn [run_ops map]; [reflexivity|].
  destruct o.
  - rewrite Hg. f_equal. apply IH; assumption.
  - unfold marshal. cbn [fst snd]. rewrite Hn. f_equal. apply IH; try assumption.
Qed.

Theorem ops_repeatable : forall t ops, consistent t = true ->
  run_ops t ops = map (fun o => match o with OpLen => RLen (glen t) | OpMarshal => RBytes (fst (marshal t)) end) ops.
Proof.
  intros t ops H. pose proof (consistent_shaped t H) as Hs. destruct (norm_keeps t Hs) as [Hsn [_ Hgl]].
  unfold marshal. cbn [fst]. apply run_ops_const; try assumption; try reflexivity.
  apply norm_idem, Hs.
Qed.
