(* Every value the constructors and adders can build is consistent (Proofs/WireP.v), and
   every action they build occupies a whole number of 8-byte words. *)
From Coq Require Import NArith ZArith List Bool Lia ZifyN ZifyBool ZifyNat.
From Coq.Strings Require Import Byte.
From LOF Require Import Base.Bytes Model.Wire Model.Build Proofs.WireP.
Import ListNotations.
Open Scope N_scope.
Ltac Zify.zify_post_hook ::= Z.div_mod_to_equations.

(* ---- induction over action recipes (conntrack nests actions) ---- *)
Section ArecInd.
  Variable P : arec -> Prop.
  Hypothesis Hct : forall sets alg kids, Forall P kids -> P (ACT sets alg kids).
  Hypothesis Hother : forall a, (forall sets alg kids, a <> ACT sets alg kids) -> P a.
  Fixpoint arec_ind' (a : arec) : P a.
  Proof.
    destruct a; try (apply Hother; intros; discriminate).
    apply Hct. induction kids as [|x r IH]; constructor; [apply arec_ind'|exact IH].
  Defined.
End ArecInd.

(* ---- recipe well-formedness: the only restriction is on NAT, whose range setters add to
        the stored length on every call (each may be called at most once) ---- *)
Definition parts_len (s : natst) : N :=
  (match n_ip4min s with Some _ => 4 | None => 0 end) + (match n_ip4max s with Some _ => 4 | None => 0 end) +
  (match n_ip6min s with Some _ => 16 | None => 0 end) + (match n_ip6max s with Some _ => 16 | None => 0 end) +
  (match n_pmin s with Some _ => 2 | None => 0 end) + (match n_pmax s with Some _ => 2 | None => 0 end).
Definition nat_ok (sets : list natset) : bool :=
  let s := fold_left nat_apply sets nat0 in N.eqb (n_len s) (16 + parts_len s).

Fixpoint wf_a (a : arec) : bool :=
  match a with
  | ANat sets => nat_ok sets
  | ACT _ _ kids => forallb wf_a kids
  | _ => true
  end.
Definition wf_calls (l : list (arec * bool)) : bool := forallb (fun c => wf_a (fst c)) l.
Definition wf_i (i : irec) : bool :=
  match i with IApply l | IWrite l => wf_calls l | _ => true end.
Definition wf_b (b : brec) : bool := match b with BK _ _ _ acts => forallb wf_a acts end.
Fixpoint wf_m (m : mrec) : bool :=
  match m with
  | MFlowMod _ _ _ _ _ _ _ _ _ _ _ _ is => forallb wf_i is
  | MGroupMod _ _ _ bs => forallb wf_b bs
  | MPacketOut _ _ acts _ => forallb wf_a acts
  | MBundleAdd _ _ _ m' => wf_m m'
  | MHeader ty => existsb (N.eqb ty) [2; 3; 5; 7; 20]   (* echo request/reply, features/get-config/barrier request *)
  | _ => true
  end.

(* ---- match fields ---- *)
Lemma mk_mf_ok c f hm len v m : consistent (mk_mf c f hm len v m) = true.
Proof. reflexivity. Qed.

Lemma build_mf_ok f : consistent (build_mf f) = true.
Proof.
  destruct f as [ctor v m|idx data rng|idx data mask|d m]; cbn [build_mf].
  - destruct (mf_table ctor) as [[[[c f] w] fl]|]; [|reflexivity]. destruct m; apply mk_mf_ok.
  - destruct rng as [[s e]|]; apply mk_mf_ok.
  - apply mk_mf_ok.
  - apply mk_mf_ok.
Qed.

Lemma sum_sizes_mult8 l : Forall (fun t => size t mod 8 = 0) l -> sumN (map size l) mod 8 = 0.
Proof.
  induction 1 as [|x r Hx _ IH]; cbn [map sumN fold_right]; [reflexivity|].
  unfold sumN in IH. lia.
Qed.

Lemma length_ids_bytes ids : length (ids_bytes ids) = (2 * length ids)%nat.
Proof.
  induction ids as [|x r IH]; cbn [ids_bytes flat_map length]; [reflexivity|].
  rewrite app_length. fold (ids_bytes r). rewrite IH. cbn. lia.
Qed.

Lemma forall_consistent_glen l : forallb consistent l = true -> sumN (map glen l) = sumN (map size l).
Proof.
  intros H. apply sum_map_ext. rewrite forallb_forall in H. apply Forall_forall. intros x Hx. apply glen_size, H, Hx.
Qed.

Lemma lspec_ok s : consistent (build_lspec s) = true.
Proof. destruct s. reflexivity. Qed.

Lemma forallb_map_true {A} (f : A -> tree) l : (forall x, consistent (f x) = true) -> forallb consistent (map f l) = true.
Proof. intros H. induction l as [|x r IH]; cbn [map forallb]; [reflexivity|]. rewrite H, IH. reflexivity. Qed.

Lemma opt_raw_ok w o : forallb consistent (opt_raw w o) = true.
Proof. destruct o; reflexivity. Qed.
Lemma opt_rawN_ok o : forallb consistent (opt_rawN o) = true.
Proof. destruct o; reflexivity. Qed.

Lemma sum_opt_raw w o : sumN (map size (opt_raw w o)) = match o with Some _ => N.of_nat w | None => 0 end.
Proof.
  destruct o as [b|]; [|reflexivity]. cbn [opt_raw map sumN fold_right]. unfold size, raw. cbn [wire layout enc_fields align8 flat_map].
  rewrite !app_nil_r, length_fit. lia.
Qed.
Lemma sum_opt_rawN o : sumN (map size (opt_rawN o)) = match o with Some _ => 2 | None => 0 end.
Proof. destruct o as [b|]; reflexivity. Qed.

Lemma sumN_app a b : sumN (a ++ b) = sumN a + sumN b.
Proof. unfold sumN. induction a as [|x r IH]; cbn [app fold_right]; [reflexivity|]. rewrite IH. lia. Qed.

Lemma nat_tree_ok s : N.eqb (n_len s) (16 + parts_len s) = true ->
  consistent (nat_tree s) = true /\ size (nat_tree s) mod 8 = 0.
Proof.
  intros H. apply N.eqb_eq in H. unfold nat_tree.
  set (kids := opt_raw 4 (n_ip4min s) ++ _).
  assert (Hk : forallb consistent kids = true).
  { subst kids. rewrite !forallb_app, !opt_raw_ok, !opt_rawN_ok. reflexivity. }
  assert (Hs : sumN (map size kids) = parts_len s).
  { subst kids. rewrite !map_app, !sumN_app, !sum_opt_raw, !sum_opt_rawN. unfold parts_len.
    change (N.of_nat 4) with 4. change (N.of_nat 16) with 16. lia. }
  split.
  - rewrite consistent_unfold, Hk, andb_true_r. unfold own_ok.
    cbn [nx app layout nxhdr vals_shape lenrule_of andb body_len]. cbn [fields_len N.of_nat].
    rewrite Hs. apply N.eqb_eq. cbn [vnum nth]. rewrite H. reflexivity.
  - rewrite size_unfold by reflexivity. cbn [align8]. apply round8_mult.
Qed.

(* ---- actions ---- *)
Lemma build_a_ok : forall a, wf_a a = true ->
  consistent (build_a a) = true /\ size (build_a a) mod 8 = 0.
Proof.
  induction a as [sets alg kids IH|a Hn] using arec_ind'; intros Hwf.
  - (* conntrack *)
    cbn [wf_a] in Hwf. cbn [build_a].
    destruct (fold_left ct_apply sets (0, 0, 0, 255)) as [[[flags zsrc] zofs] tbl].
    assert (Hall : Forall (fun t => consistent t = true /\ size t mod 8 = 0) (map build_a kids)).
    { rewrite forallb_forall in Hwf. rewrite Forall_forall in IH. apply Forall_forall. intros t Ht.
      apply in_map_iff in Ht as [a [<- Ha]]. apply IH; [exact Ha|apply Hwf, Ha]. }
    assert (Hc : forallb consistent (map build_a kids) = true).
    { apply forallb_forall. intros t Ht. rewrite Forall_forall in Hall. apply Hall, Ht. }
    assert (H8 : sumN (map size (map build_a kids)) mod 8 = 0).
    { apply sum_sizes_mult8. eapply Forall_impl; [|exact Hall]. intros t [_ Ht]. exact Ht. }
    set (ks := map build_a kids) in *.
    assert (Hsz : size (T KNxConnTrack (nx 35 (24 + sumN (map glen ks)) ++ [VN flags; VN zsrc; VN zofs; VN tbl; VN alg]) ks)
                  = 24 + sumN (map size ks)).
    { rewrite size_unfold by reflexivity. cbn [align8 body_len nx app layout nxhdr fields_len N.of_nat]. lia. }
    split.
    + rewrite consistent_unfold, Hc, andb_true_r. unfold own_ok. rewrite Hsz.
      cbn [nx app layout nxhdr vals_shape lenrule_of andb vnum nth].
      apply N.eqb_eq. rewrite (forall_consistent_glen ks Hc). reflexivity.
    + rewrite Hsz. lia.
  - assert (simple : forall t, consistent t = true -> size t mod 8 = 0 -> consistent t = true /\ size t mod 8 = 0)
      by (intros t H1 H2; split; assumption).
    destruct a; cbn [build_a wf_a] in *;
      [> apply simple; reflexivity | apply simple; reflexivity | apply simple; reflexivity
       | apply simple; reflexivity | apply simple; reflexivity | apply simple; reflexivity
       | apply simple; reflexivity | apply simple; reflexivity
       | (* set-field *) idtac
       | apply simple; reflexivity
       | exfalso; eapply Hn; reflexivity
       | apply simple; reflexivity | apply simple; reflexivity | apply simple; reflexivity
       | apply simple; reflexivity | apply simple; reflexivity | apply simple; reflexivity
       | (* nat *) apply nat_tree_ok; exact Hwf
       | (* output reg *) destruct maxlen; apply simple; reflexivity
       | apply simple; reflexivity | apply simple; reflexivity
       | (* dec_ttl_cnt_ids *) idtac
       | (* learn *) idtac
       | (* note *) idtac
       | (* reg_load2 *) idtac
       | apply simple; reflexivity ].
    + (* set-field *)
      split.
      * rewrite consistent_unfold. cbn [forallb]. rewrite build_mf_ok. reflexivity.
      * rewrite size_unfold by reflexivity. cbn [align8]. apply round8_mult.
    + (* dec_ttl_cnt_ids *)
      assert (Hsz : size (T KNxDecTtlCntIds (nx 21 (round8 (16 + 2 * N.of_nat (length ids))) ++ [VN c; VB (ids_bytes ids)]) [])
                    = round8 (16 + 2 * N.of_nat (length ids))).
      { rewrite size_unfold by reflexivity. cbn [align8 body_len nx app layout nxhdr fields_len map sumN fold_right].
        rewrite length_ids_bytes. f_equal. lia. }
      split.
      * rewrite consistent_unfold. cbn [forallb]. rewrite andb_true_r. unfold own_ok. rewrite Hsz.
        cbn [nx app layout nxhdr vals_shape lenrule_of andb vnum nth]. apply N.eqb_refl.
      * rewrite Hsz. apply round8_mult.
    + (* learn *)
      split.
      * rewrite consistent_unfold. rewrite (forallb_map_true build_lspec specs lspec_ok). reflexivity.
      * rewrite size_unfold by reflexivity. cbn [align8]. apply round8_mult.
    + (* note *)
      split; [reflexivity|]. rewrite size_unfold by reflexivity. cbn [align8]. apply round8_mult.
    + (* reg_load2 *)
      split.
      * rewrite consistent_unfold. cbn [forallb]. rewrite build_mf_ok. reflexivity.
      * rewrite size_unfold by reflexivity. cbn [align8]. apply round8_mult.
Qed.

Lemma build_a_list_ok acts : forallb wf_a acts = true ->
  forallb consistent (map build_a acts) = true /\ sumN (map size (map build_a acts)) mod 8 = 0.
Proof.
  intros H. rewrite forallb_forall in H. split.
  - apply forallb_forall. intros t Ht. apply in_map_iff in Ht as [a [<- Ha]]. apply build_a_ok, H, Ha.
  - apply sum_sizes_mult8. apply Forall_forall. intros t Ht. apply in_map_iff in Ht as [a [<- Ha]]. apply build_a_ok, H, Ha.
Qed.

(* ---- instructions, buckets, match ---- *)
Lemma fold_add_action_forall (P : tree -> Prop) calls : forall acc,
  Forall P acc -> Forall (fun c => P (fst c)) calls -> Forall P (fold_left add_action calls acc).
Proof.
  induction calls as [|c r IH]; intros acc Ha Hc; cbn [fold_left]; [exact Ha|].
  apply Forall_cons_iff in Hc as [Hc Hr]. apply IH; [|exact Hr].
  unfold add_action. destruct (snd c); [constructor; assumption|apply Forall_app; split; [assumption|constructor; [assumption|constructor]]].
Qed.

Lemma instr_actions_ok ty calls : wf_calls calls = true -> consistent (instr_actions ty calls) = true.
Proof.
  intros H. unfold instr_actions. rewrite consistent_unfold.
  assert (Hf : Forall (fun t => consistent t = true)
                 (fold_left add_action (map (fun c => (build_a (fst c), snd c)) calls) [])).
  { apply fold_add_action_forall; [constructor|]. apply Forall_forall. intros c Hc.
    apply in_map_iff in Hc as [c0 [<- Hc0]]. cbn [fst]. unfold wf_calls in H. rewrite forallb_forall in H.
    apply build_a_ok, (H c0 Hc0). }
  apply andb_true_iff. split; [reflexivity|]. apply forallb_forall. rewrite Forall_forall in Hf. exact Hf.
Qed.

Lemma build_i_ok i : wf_i i = true -> consistent (build_i i) = true.
Proof. destruct i; cbn [build_i wf_i]; intros H; try reflexivity; apply instr_actions_ok, H. Qed.

Lemma build_b_ok b : wf_b b = true -> consistent (build_b b) = true.
Proof.
  destruct b as [w p g acts]. cbn [wf_b build_b]. intros H. destruct (build_a_list_ok acts H) as [Hc H8].
  rewrite consistent_unfold, Hc, andb_true_r. unfold own_ok.
  cbn [layout vals_shape lenrule_of lenround align8 andb negb body_len fields_len N.of_nat].
  apply N.eqb_eq. lia.
Qed.

Lemma build_match_ok fs : consistent (build_match fs) = true.
Proof. unfold build_match. rewrite consistent_unfold. rewrite (forallb_map_true build_mf fs build_mf_ok). reflexivity. Qed.

(* ---- messages ---- *)
Lemma build_body_ok b : forallb consistent (build_body b) = true.
Proof.
  destruct b; cbn [build_body forallb]; try reflexivity;
    rewrite consistent_unfold; cbn [forallb]; rewrite build_match_ok; reflexivity.
Qed.

Lemma forallb_map_wf {A} (f : A -> tree) (wf : A -> bool) l :
  (forall x, wf x = true -> consistent (f x) = true) -> forallb wf l = true -> forallb consistent (map f l) = true.
Proof.
  intros H Hl. induction l as [|x r IH]; cbn [map forallb] in *; [reflexivity|].
  apply andb_true_iff in Hl as [Hx Hr]. rewrite H, IH by assumption. reflexivity.
Qed.

Theorem build_m_ok : forall m xid, wf_m m = true -> consistent (build_m xid m) = true.
Proof.
  induction m as [| | | | | | | | | | | |id fl xin m' IH]; intros xid Hwf; cbn [build_m wf_m] in *; try reflexivity.
  - (* flow-mod *)
    rewrite consistent_unfold. cbn [forallb]. rewrite build_match_ok.
    rewrite (forallb_map_wf build_i wf_i is build_i_ok Hwf). reflexivity.
  - (* group-mod *)
    rewrite consistent_unfold. rewrite (forallb_map_wf build_b wf_b bs build_b_ok Hwf). reflexivity.
  - (* packet-out *)
    destruct (build_a_list_ok acts Hwf) as [Hc _].
    rewrite consistent_unfold, forallb_app, Hc. destruct data; reflexivity.
  - (* multipart *)
    rewrite consistent_unfold, build_body_ok. reflexivity.
  - (* tlv table mod *)
    rewrite consistent_unfold. cbn [forallb]. rewrite consistent_unfold.
    assert (H : forallb consistent (map (fun p : N * N * N * N => let '(c, t, l, i) := p in T KTlvMap [VN c; VN t; VN l; VN i] []) maps) = true).
    { apply forallb_map_true. intros [[[c t] l] i]. reflexivity. }
    rewrite H. reflexivity.
  - (* bundle add *)
    rewrite consistent_unfold. cbn [forallb]. rewrite consistent_unfold. cbn [forallb]. rewrite (IH xin Hwf). reflexivity.
Qed.

(* non-vacuity: a flow-mod with nested conntrack/NAT actions is well-formed *)
Example wf_example :
  wf_m (MFlowMod 1 2 3 0 4 5 6 7 8 9 10 [MFStd 1 (AB []) None; MFReg 3 7 (Some (4, 9)%Z)]
          [IApply [(ACT [CtCommit; CtZoneImm 5] 0 [ANat [NatSNAT; NatIP4Min []; NatProtoMax 9]], false);
                   (ADecTtlCntIds 3 [1; 2; 3], true)]; IGoto 4]) = true.
Proof. vm_compute. reflexivity. Qed.
