From Coq Require Import NArith List String Ascii Bool Lia ZArith ZifyN ZifyBool.
From LOF Require Import Model.Registry Spec.OvsFields.
Import ListNotations.
Local Open Scope string_scope.
Open Scope N_scope.
Ltac Zify.zify_post_hook ::= Z.div_mod_to_equations.

(* ---- (a) every registered name carries the class, number and width the spec gives;
        finite domain (the registered names), decided by computation and lifted ---- *)
Definition entry_ok (e : string * (N * N * N)) : bool :=
  match spec_entry (fst e) with
  | Some (c, f, w) => let '(c', f', w') := snd e in N.eqb c c' && N.eqb f f' && N.eqb w w' && (w <? 128)
  | None => false
  end.

Lemma registry_sweep : forallb entry_ok registry = true.
Proof. vm_compute. reflexivity. Qed.

Lemma registry_matches_spec name c f w : In (name, (c, f, w)) registry ->
  spec_entry name = Some (c, f, w) /\ w < 128.
Proof.
  intros Hin. pose proof registry_sweep as H. rewrite forallb_forall in H.
  specialize (H _ Hin). unfold entry_ok in H. cbn [fst snd] in H.
  destruct (spec_entry name) as [[[c0 f0] w0]|]; [|discriminate H].
  apply andb_true_iff in H as [H Hw]. apply andb_true_iff in H as [H H3].
  apply andb_true_iff in H as [H1 H2].
  apply N.eqb_eq in H1, H2, H3. apply N.ltb_lt in Hw. subst. split; [reflexivity|exact Hw].
Qed.

(* no name is registered twice, so "In" and "lookup" agree *)
Fixpoint names_nodup (seen : list string) (l : list (string * (N * N * N))) : bool :=
  match l with
  | [] => true
  | (n, _) :: r => negb (existsb (String.eqb n) seen) && names_nodup (n :: seen) r
  end.
Lemma registry_nodup : names_nodup [] registry = true.
Proof. vm_compute. reflexivity. Qed.

Lemma lookup_in k l v : lookup k l = Some v -> In (k, v) l.
Proof.
  induction l as [|[n x] r IH]; cbn [lookup]; [discriminate|].
  destruct (String.eqb n k) eqn:E.
  - intros H. inversion H; subst. apply String.eqb_eq in E. subst. left. reflexivity.
  - intros H. right. apply IH, H.
Qed.

(* the lookup: case-insensitive, fresh record, width doubled with the mask flag *)
Lemma find_spec name hm h : FindFieldHeaderByName name hm = Some h ->
  exists c f w, spec_entry (upper name) = Some (c, f, w) /\
    fh_class h = c /\ fh_field h = f /\ fh_hasmask h = hm /\
    fh_length h = (if hm then 2 * w else w) /\ fh_length h < 256.
Proof.
  unfold FindFieldHeaderByName. destruct (lookup (upper name) registry) as [[[c f] w]|] eqn:E; [|discriminate].
  intros H. inversion H; subst; clear H. cbn [fh_class fh_field fh_hasmask fh_length].
  apply lookup_in in E. destruct (registry_matches_spec _ _ _ _ E) as [Hs Hw].
  exists c, f, w. repeat split; try assumption; destruct hm; lia.
Qed.

Lemma upper_idem s : upper (upper s) = upper s.
Proof.
  induction s as [|c r IH]; cbn [upper]; [reflexivity|]. rewrite IH. f_equal.
  unfold upper_ascii. destruct (N.leb 97 (N_of_ascii c) && N.leb (N_of_ascii c) 122) eqn:E.
  - rewrite N_ascii_embedding by (pose proof (N_ascii_bounded c); lia).
    replace (N.leb 97 (N_of_ascii c - 32) && _) with false by lia. reflexivity.
  - rewrite E. reflexivity.
Qed.

Lemma find_case_insensitive a b hm : upper a = upper b ->
  FindFieldHeaderByName a hm = FindFieldHeaderByName b hm.
Proof. unfold FindFieldHeaderByName. intros ->. reflexivity. Qed.

(* every registered name is found (the table's keys are upper case already) *)
Definition key_upper (e : string * (N * N * N)) : bool := String.eqb (upper (fst e)) (fst e).
Lemma registry_keys_upper : forallb key_upper registry = true.
Proof. vm_compute. reflexivity. Qed.

(* ---- (b) header word: pack and unpack are inverse, by algebra on N ---- *)
Lemma lor_add a b k : b < 2 ^ k -> N.lor (a * 2 ^ k) b = a * 2 ^ k + b.
Proof.
  intros Hb. assert (H : N.land (a * 2 ^ k) b = 0).
  { apply N.bits_inj. intros n. rewrite N.land_spec, N.bits_0.
    destruct (N.ltb_spec n k) as [Hlt|Hge].
    - rewrite N.mul_pow2_bits_low by lia. reflexivity.
    - replace (N.testbit b n) with false; [apply andb_false_r|].
      symmetry. destruct (N.eq_dec b 0) as [->|Hnz]; [apply N.bits_0|].
      apply N.bits_above_log2. apply N.lt_le_trans with k; [|exact Hge].
      apply N.log2_lt_pow2; lia. }
  rewrite N.add_nocarry_lxor by exact H. symmetry. apply N.lxor_lor. exact H.
Qed.

Lemma marshal_is_spec h : fh_wf h = true ->
  MarshalHeader h = spec_header (fh_class h) (fh_field h) (fh_hasmask h) (fh_length h).
Proof.
  unfold fh_wf, MarshalHeader, spec_header. intros H.
  destruct h as [c f hm l]. cbn [fh_class fh_field fh_hasmask fh_length] in *.
  rewrite !N.shiftl_mul_pow2. change (2 ^ 16) with 65536. change (2 ^ 9) with 512.
  rewrite (N.mod_small (c * 65536)) by lia. rewrite (N.mod_small (f * 512)) by lia.
  replace (c * 65536) with (c * 2 ^ 16) by (change (2 ^ 16) with 65536; lia).
  rewrite lor_add by (change (2 ^ 16) with 65536; lia).
  replace (c * 2 ^ 16 + f * 512) with ((c * 128 + f) * 2 ^ 9) by (change (2 ^ 16) with 65536; change (2 ^ 9) with 512; lia).
  rewrite lor_add by (change (2 ^ 9) with 512; destruct hm; lia).
  replace ((c * 128 + f) * 2 ^ 9 + (if hm then 256 else 0)) with ((c * 256 + f * 2 + (if hm then 1 else 0)) * 2 ^ 8)
    by (change (2 ^ 9) with 512; change (2 ^ 8) with 256; destruct hm; lia).
  rewrite lor_add by (change (2 ^ 8) with 256; lia).
  change (2 ^ 8) with 256. destruct hm; lia.
Qed.

Lemma unpack_pack h : fh_wf h = true -> UnmarshalHeader (MarshalHeader h) = h.
Proof.
  intros H. rewrite marshal_is_spec by exact H. unfold fh_wf in H.
  destruct h as [c f hm l]. cbn [fh_class fh_field fh_hasmask fh_length] in *.
  unfold UnmarshalHeader, spec_header.
  set (w := c * 65536 + f * 512 + (if hm then 256 else 0) + l).
  assert (Hb : (w / 256) mod 256 = f * 2 + (if hm then 1 else 0)) by (subst w; destruct hm; lia).
  rewrite Hb. f_equal.
  - subst w. destruct hm; lia.
  - destruct hm; lia.
  - replace (f * 2 + (if hm then 1 else 0)) with ((if hm then 1 else 0) + 2 * f) by lia.
    rewrite N.odd_add_mul_2. destruct hm; reflexivity.
  - subst w. destruct hm; lia.
Qed.

Lemma unmarshal_wf w : w < 4294967296 -> fh_wf (UnmarshalHeader w) = true.
Proof. intros H. unfold fh_wf, UnmarshalHeader. cbn [fh_class fh_field fh_length]. lia. Qed.

Lemma pack_unpack w : w < 4294967296 -> MarshalHeader (UnmarshalHeader w) = w.
Proof.
  intros H. rewrite marshal_is_spec by (apply unmarshal_wf, H).
  unfold UnmarshalHeader, spec_header. cbn [fh_class fh_field fh_hasmask fh_length].
  set (b2 := (w / 256) mod 256).
  assert (Hodd : (if N.odd b2 then 256 else 0) = (b2 mod 2) * 256).
  { rewrite <- N.bit0_mod, N.bit0_odd. destruct (N.odd b2); reflexivity. }
  rewrite Hodd. subst b2. lia.
Qed.

Example registry_examples :
  FindFieldHeaderByName "nxm_nx_reg3" true =
    Some {| fh_class := 1 ; fh_field := 3 ; fh_hasmask := true ; fh_length := 8 |} /\
  FindFieldHeaderByName "OXM_OF_IPV6_SRC" false =
    Some {| fh_class := 32768 ; fh_field := 26 ; fh_hasmask := false ; fh_length := 16 |} /\
  FindFieldHeaderByName "NXM_NX_NOPE" false = None /\
  MarshalHeader {| fh_class := 1 ; fh_field := 105 ; fh_hasmask := true ; fh_length := 8 |} = 119560.
Proof. vm_compute. repeat split. Qed.
