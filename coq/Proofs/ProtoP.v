(* Package protocol: the modelled decoders are total (value or error on every byte string:
   never a panic, never out of fuel), and the bit-lane functions are exact. *)
From Coq Require Import NArith ZArith List Bool Lia ZifyN ZifyBool ZifyNat.
From Coq.Strings Require Import Byte.
From LOF Require Import Base.Bytes Base.Res Model.Wire Model.Proto.
Import ListNotations.
Open Scope N_scope.
Ltac Zify.zify_post_hook ::= Z.div_mod_to_equations.

Definition safe {A} (r : res A) : Prop := r <> Panic /\ r <> Fuel.

Lemma safe_ok {A} (a : A) : safe (Ok a). Proof. split; discriminate. Qed.
Lemma safe_err {A} : safe (@Err A). Proof. split; discriminate. Qed.

Lemma safe_bind {A B} (r : res A) (f : A -> res B) :
  safe r -> (forall a, r = Ok a -> safe (f a)) -> safe (bind r f).
Proof.
  intros [H1 H2] Hf. destruct r; cbn [bind]; try (split; discriminate); try congruence.
  apply Hf. reflexivity.
Qed.

(* ---- primitives under their guards ---- *)
Lemma at_ok d i : i < blen d -> at_ d i = Ok (b2n (nth (N.to_nat i) d x00)).
Proof. intros H. unfold at_. replace (i <? blen d) with true by lia. reflexivity. Qed.
Lemma uat_ok w d a : a + w <= blen d -> uat w d a = Ok (be_value (firstn (N.to_nat w) (skipn (N.to_nat a) d))).
Proof. intros H. unfold uat. replace (a + w <=? blen d) with true by lia. reflexivity. Qed.
Lemma sl_ok d a b : a <= b -> b <= blen d -> sl d a b = Ok (firstn (N.to_nat (b - a)) (skipn (N.to_nat a) d)).
Proof. intros H1 H2. unfold sl. replace ((a <=? b) && (b <=? blen d)) with true by lia. reflexivity. Qed.
Lemma from_ok d a : a <= blen d -> from d a = Ok (skipn (N.to_nat a) d).
Proof. intros H. unfold from. replace (a <=? blen d) with true by lia. reflexivity. Qed.

Lemma blen_skipn d a : a <= blen d -> blen (skipn (N.to_nat a) d) = blen d - a.
Proof. unfold blen. intros H. rewrite skipn_length. lia. Qed.

Ltac prim :=
  match goal with
  | |- context [at_ ?d ?i] => rewrite (at_ok d i) by lia
  | |- context [uat ?w ?d ?a] => rewrite (uat_ok w d a) by lia
  | |- context [sl ?d ?a ?b] => rewrite (sl_ok d a b) by lia
  | |- context [from ?d ?a] => rewrite (from_ok d a) by lia
  end; cbn [bind].

(* ---- leaf decoders ---- *)
Lemma dec_icmp_safe d : safe (dec_icmp d).
Proof.
  unfold dec_icmp. destruct (blen d <? 4) eqn:E; [apply safe_err|]. repeat prim. apply safe_ok.
Qed.
Lemma dec_udp_safe d : safe (dec_udp d).
Proof.
  unfold dec_udp. destruct (blen d <? 8) eqn:E; [apply safe_err|]. repeat prim. apply safe_ok.
Qed.
Lemma dec_tcp_safe d : safe (dec_tcp d).
Proof.
  unfold dec_tcp. destruct (blen d <? 20) eqn:E; [apply safe_err|]. repeat prim. apply safe_ok.
Qed.

Lemma dec_arp_safe d : safe (dec_arp d).
Proof.
  unfold dec_arp. destruct (blen d <? 8) eqn:E; [apply safe_err|].
  do 5 prim.
  set (hl := b2n (nth (N.to_nat 4) d x00)). set (pl := b2n (nth (N.to_nat 5) d x00)).
  destruct (blen d - 8 <? hl * 2 + pl * 2) eqn:G; [apply safe_err|].
  repeat prim. apply safe_ok.
Qed.

Lemma dec_fragment_safe d : safe (dec_fragment d).
Proof.
  unfold dec_fragment. destruct (blen d <? 8) eqn:E; [apply safe_err|]. repeat prim. apply safe_ok.
Qed.

Lemma dec_routing_safe d : safe (dec_routing d).
Proof.
  unfold dec_routing. destruct (blen d <? 4) eqn:E; [apply safe_err|]. do 2 prim.
  set (hel := b2n (nth (N.to_nat 1) d x00)). destruct (blen d <? 8 * (hel + 1)) eqn:G; [apply safe_err|].
  repeat prim. apply safe_ok.
Qed.

Lemma check_opts_safe fuel : forall n size o, (length o < fuel)%nat -> safe (check_opts fuel n size o).
Proof.
  induction fuel as [|f IH]; intros n size o Hf; [lia|]. cbn [check_opts].
  destruct (size <=? n); [apply safe_ok|]. destruct (blen o <? 2) eqn:E; [apply safe_err|].
  prim. set (l := b2n (nth (N.to_nat 1) o x00)). destruct (blen o - 2 <? l) eqn:G; [apply safe_err|].
  prim. apply IH. rewrite skipn_length. unfold blen in *. lia.
Qed.

Lemma dec_hbh_safe d : safe (dec_hbh d).
Proof.
  unfold dec_hbh. destruct (blen d <? 2) eqn:E; [apply safe_err|]. do 2 prim.
  set (hel := b2n (nth (N.to_nat 1) d x00)). destruct (blen d <? 8 * (hel + 1)) eqn:G; [apply safe_err|].
  do 2 prim. apply safe_bind.
  - apply check_opts_safe. rewrite skipn_length. lia.
  - intros a _. apply safe_ok.
Qed.

(* sizes of extension headers: at least 8 bytes, inside the data *)
Lemma dec_hbh_size d t nh size : dec_hbh d = Ok (t, nh, size) -> 8 <= size <= blen d.
Proof.
  unfold dec_hbh. destruct (blen d <? 2) eqn:E; [discriminate|]. do 2 prim.
  set (hel := b2n (nth (N.to_nat 1) d x00)). destruct (blen d <? 8 * (hel + 1)) eqn:G; [discriminate|].
  do 2 prim. destruct (check_opts _ _ _ _); cbn [bind]; try discriminate. intros H.
  assert (Hs : size = 8 * (hel + 1)) by congruence. lia.
Qed.
Lemma dec_routing_size d t nh size : dec_routing d = Ok (t, nh, size) -> 8 <= size <= blen d.
Proof.
  unfold dec_routing. destruct (blen d <? 4) eqn:E; [discriminate|]. do 2 prim.
  set (hel := b2n (nth (N.to_nat 1) d x00)). destruct (blen d <? 8 * (hel + 1)) eqn:G; [discriminate|].
  repeat prim. intros H. assert (Hs : size = 8 * (hel + 1)) by congruence. lia.
Qed.
Lemma dec_fragment_size d t nh size : dec_fragment d = Ok (t, nh, size) -> 8 <= size <= blen d.
Proof.
  unfold dec_fragment. destruct (blen d <? 8) eqn:E; [discriminate|]. repeat prim. intros H.
  assert (Hs : size = 8) by congruence. lia.
Qed.

(* the next-header chain: every extension header consumes at least 8 bytes, so the fuel
   S |data| is never exhausted, whatever the header-length bytes say *)
Lemma dec_chain_safe fuel : forall nh d, (length d < fuel)%nat -> safe (dec_chain fuel nh d).
Proof.
  induction fuel as [|f IH]; intros nh d Hf; [lia|]. cbn [dec_chain].
  assert (ext : forall r, safe r -> (forall t n s, r = Ok (t, n, s) -> 8 <= s <= blen d) ->
            safe ('(h, nh', size) <- r ;; rest <- from d size ;; l <- dec_chain f nh' rest ;; Ok (h :: l))%res).
  { intros r Hr Hs. apply safe_bind; [exact Hr|]. intros [[h nh'] size] Er. specialize (Hs _ _ _ Er).
    prim. apply safe_bind; [|intros; apply safe_ok]. apply IH. rewrite skipn_length. unfold blen in *. lia. }
  destruct (nh =? 0); [apply ext; [apply dec_hbh_safe|apply dec_hbh_size]|].
  destruct (nh =? 43); [apply ext; [apply dec_routing_safe|apply dec_routing_size]|].
  destruct (nh =? 44); [apply ext; [apply dec_fragment_safe|apply dec_fragment_size]|].
  destruct (nh =? 58); [apply safe_bind; [apply dec_icmp_safe|intros; apply safe_ok]|].
  destruct (nh =? 17); [apply safe_bind; [apply dec_udp_safe|intros; apply safe_ok]|].
  apply safe_ok.
Qed.

Lemma dec_ip6_safe d : safe (dec_ip6 d).
Proof.
  unfold dec_ip6. destruct (blen d <? 40) eqn:E; [apply safe_err|]. repeat prim.
  apply safe_bind; [|intros; apply safe_ok]. apply dec_chain_safe. lia.
Qed.

Lemma dec_ip4_safe d : safe (dec_ip4 d).
Proof.
  unfold dec_ip4. destruct (blen d <? 20) eqn:E; [apply safe_err|]. do 10 prim.
  set (ihl := N.land (b2n (nth (N.to_nat 0) d x00)) 15).
  destruct ((ihl <? 5) || (blen d <? ihl * 4)) eqn:G; [apply safe_err|].
  do 2 prim. apply safe_bind; [|intros; apply safe_ok].
  destruct (_ =? 1); [apply dec_icmp_safe|]. destruct (_ =? 17); [apply dec_udp_safe|apply safe_ok].
Qed.

Lemma dec_payload_safe et d : safe (dec_payload et d).
Proof.
  unfold dec_payload. destruct (et =? 2048); [apply dec_ip4_safe|]. destruct (et =? 34525); [apply dec_ip6_safe|].
  destruct (et =? 2054); [apply dec_arp_safe|apply safe_ok].
Qed.

Theorem dec_eth_safe d : safe (dec_eth d).
Proof.
  unfold dec_eth. destruct (blen d <? 14) eqn:E; [apply safe_err|]. do 3 prim.
  destruct (_ =? 33024).
  - destruct (blen d <? 18) eqn:G; [apply safe_err|]. do 3 prim.
    apply safe_bind; [apply dec_payload_safe|intros; apply safe_ok].
  - prim. apply safe_bind; [apply dec_payload_safe|intros; apply safe_ok].
Qed.

(* ---- bit lanes: unpacking what was packed, for all values in the lane widths.
        The 8/16-bit groups are finite: complete sweeps lifted with forallb_forall. ---- *)
Fixpoint nr (k : nat) (start : N) : list N :=
  match k with O => [] | S k' => start :: nr k' (N.succ start) end.
Definition nrange (n : N) : list N := nr (N.to_nat n) 0.
Lemma nr_in k : forall s x, s <= x -> x < s + N.of_nat k -> In x (nr k s).
Proof.
  induction k as [|k IH]; intros s x H1 H2; [lia|]. cbn [nr]. destruct (N.eq_dec s x) as [->|Hne]; [left; reflexivity|].
  right. apply IH; lia.
Qed.
Lemma nrange_in n x : x < n -> In x (nrange n).
Proof. intros H. unfold nrange. apply nr_in; lia. Qed.

(* generic lifting of a complete sweep (the bounds stay abstract here, so checking these
   lemmas never unfolds a range) *)
Lemma sweep1_lift (n : N) (p : N -> bool) : forallb p (nrange n) = true -> forall x, x < n -> p x = true.
Proof. intros H x Hx. rewrite forallb_forall in H. apply H, nrange_in, Hx. Qed.
Lemma sweep2_lift (na nb : N) (p : N -> N -> bool) :
  forallb (fun a => forallb (p a) (nrange nb)) (nrange na) = true -> forall a b, a < na -> b < nb -> p a b = true.
Proof. intros H a b Ha Hb. apply (sweep1_lift nb (p a)); [|exact Hb]. apply (sweep1_lift na _ H a Ha). Qed.
Lemma sweep3_lift (na nb nc : N) (p : N -> N -> N -> bool) :
  forallb (fun a => forallb (fun b => forallb (p a b) (nrange nc)) (nrange nb)) (nrange na) = true ->
  forall a b c, a < na -> b < nb -> c < nc -> p a b c = true.
Proof. intros H a b c Ha Hb Hc. apply (sweep1_lift nc (p a b)); [|exact Hc]. apply (sweep2_lift na nb _ H a b Ha Hb). Qed.

Definition tci_ok (p d v : N) : bool :=
  let '(p', d', v') := unpack_tci (pack_tci p d v) in N.eqb p' p && N.eqb d' d && N.eqb v' v.
Lemma tci_sweep_true : forallb (fun p => forallb (fun d => forallb (tci_ok p d) (nrange 4096)) (nrange 2)) (nrange 8) = true.
Proof. vm_compute. reflexivity. Qed.

Lemma tci_lanes pcp dei vid : pcp < 8 -> dei < 2 -> vid < 4096 ->
  unpack_tci (pack_tci pcp dei vid) = (pcp, dei, vid).
Proof.
  intros Hp Hd Hv. pose proof (sweep3_lift 8 2 4096 tci_ok tci_sweep_true pcp dei vid Hp Hd Hv) as H.
  unfold tci_ok in H. destruct (unpack_tci (pack_tci pcp dei vid)) as [[p' d'] v'].
  apply andb_true_iff in H as [H H3]. apply andb_true_iff in H as [H1 H2].
  apply N.eqb_eq in H1, H2, H3. subst. reflexivity.
Qed.

(* and the other direction: every 16-bit word is the packing of its three lanes *)
Definition tci_word_ok (w : N) : bool :=
  let '(p, d, v) := unpack_tci w in N.eqb (pack_tci p d v) w && (p <? 8) && (d <? 2) && (v <? 4096).
Lemma tci_words_sweep_true : forallb tci_word_ok (nrange 65536) = true. Proof. vm_compute. reflexivity. Qed.
Lemma tci_words w : w < 65536 -> let '(p, d, v) := unpack_tci w in pack_tci p d v = w /\ p < 8 /\ d < 2 /\ v < 4096.
Proof.
  intros Hw. pose proof (sweep1_lift 65536 tci_word_ok tci_words_sweep_true w Hw) as H. unfold tci_word_ok in H.
  destruct (unpack_tci w) as [[p d] v].
  apply andb_true_iff in H as [H H4]. apply andb_true_iff in H as [H H3]. apply andb_true_iff in H as [H1 H2].
  apply N.eqb_eq in H1. lia.
Qed.

Definition two_ok (pack : N -> N -> N) (unpack : N -> N * N) (a b : N) : bool :=
  let '(a', b') := unpack (pack a b) in N.eqb a' a && N.eqb b' b.
Lemma two_lane_lift pack unpack (na nb : N) :
  forallb (fun a => forallb (two_ok pack unpack a) (nrange nb)) (nrange na) = true ->
  forall a b, a < na -> b < nb -> unpack (pack a b) = (a, b).
Proof.
  intros H a b Ha Hb. pose proof (sweep2_lift na nb _ H a b Ha Hb) as G. unfold two_ok in G.
  destruct (unpack (pack a b)) as [a' b']. apply andb_true_iff in G as [H1 H2]. apply N.eqb_eq in H1, H2. subst. reflexivity.
Qed.

Lemma vihl_sweep : forallb (fun a => forallb (two_ok pack_vihl unpack_vihl a) (nrange 16)) (nrange 16) = true. Proof. vm_compute. reflexivity. Qed.
Lemma tos_sweep : forallb (fun a => forallb (two_ok pack_tos unpack_tos a) (nrange 4)) (nrange 64) = true. Proof. vm_compute. reflexivity. Qed.
Lemma frag_sweep : forallb (fun a => forallb (two_ok pack_frag unpack_frag a) (nrange 8192)) (nrange 8) = true. Proof. vm_compute. reflexivity. Qed.

Lemma vihl_lanes v ihl : v < 16 -> ihl < 16 -> unpack_vihl (pack_vihl v ihl) = (v, ihl).
Proof. exact (two_lane_lift pack_vihl unpack_vihl 16 16 vihl_sweep v ihl). Qed.
Lemma tos_lanes dscp ecn : dscp < 64 -> ecn < 4 -> unpack_tos (pack_tos dscp ecn) = (dscp, ecn).
Proof. exact (two_lane_lift pack_tos unpack_tos 64 4 tos_sweep dscp ecn). Qed.
Lemma frag_lanes flags off : flags < 8 -> off < 8192 -> unpack_frag (pack_frag flags off) = (flags, off).
Proof. exact (two_lane_lift pack_frag unpack_frag 8 8192 frag_sweep flags off). Qed.

Definition frag6_ok (off : N) : bool :=
  forallb (fun m => let '(o, m') := unpack_frag6 (pack_frag6 off m) in N.eqb o off && Bool.eqb m' m) [true; false].
Lemma frag6_sweep_true : forallb frag6_ok (nrange 8192) = true. Proof. vm_compute. reflexivity. Qed.
Lemma frag6_lanes off more : off < 8192 -> unpack_frag6 (pack_frag6 off more) = (off, more).
Proof.
  intros Ho. pose proof (sweep1_lift 8192 frag6_ok frag6_sweep_true off Ho) as H. unfold frag6_ok in H.
  rewrite forallb_forall in H. specialize (H more ltac:(destruct more; cbn; auto)).
  destruct (unpack_frag6 (pack_frag6 off more)) as [o m'].
  apply andb_true_iff in H as [H1 H2]. apply N.eqb_eq in H1. apply Bool.eqb_prop in H2. subst. reflexivity.
Qed.

Definition tcp_off_ok (hl : N) : bool := N.eqb (unpack_tcp_off (pack_tcp_off hl)) hl.
Definition tcp_code_ok (c : N) : bool := N.eqb (mask_tcp_code c) c.
Lemma tcp_off_sweep : forallb tcp_off_ok (nrange 16) = true. Proof. vm_compute. reflexivity. Qed.
Lemma tcp_code_sweep : forallb tcp_code_ok (nrange 64) = true. Proof. vm_compute. reflexivity. Qed.
Lemma tcp_lanes hl code : hl < 16 -> code < 64 -> unpack_tcp_off (pack_tcp_off hl) = hl /\ mask_tcp_code code = code.
Proof.
  intros Hh Hc. pose proof (sweep1_lift 16 tcp_off_ok tcp_off_sweep hl Hh) as H1.
  pose proof (sweep1_lift 64 tcp_code_ok tcp_code_sweep code Hc) as H2.
  unfold tcp_off_ok, tcp_code_ok in *. apply N.eqb_eq in H1, H2. split; assumption.
Qed.

Definition sqrv_ok (q : N) : bool :=
  forallb (fun s => let '(s', q') := unpack_sqrv (pack_sqrv s q) in Bool.eqb s' s && N.eqb q' q) [true; false].
Lemma sqrv_sweep_true : forallb sqrv_ok (nrange 8) = true. Proof. vm_compute. reflexivity. Qed.
Lemma sqrv_lanes s qrv : qrv < 8 -> unpack_sqrv (pack_sqrv s qrv) = (s, qrv).
Proof.
  intros Hq. pose proof (sweep1_lift 8 sqrv_ok sqrv_sweep_true qrv Hq) as H. unfold sqrv_ok in H.
  rewrite forallb_forall in H. specialize (H s ltac:(destruct s; cbn; auto)).
  destruct (unpack_sqrv (pack_sqrv s qrv)) as [s' q']. apply andb_true_iff in H as [H1 H2].
  apply Bool.eqb_prop in H1. apply N.eqb_eq in H2. subst. reflexivity.
Qed.

(* IPv6 first word: the two bytes that carry nibbles are swept (version x class x top flow
   nibble = 65536 combinations), the 16 low flow-label bits follow by arithmetic *)
Definition v6_bytes (v tc fh : N) : N * N :=
  (N.lor (N.lor ((v * 16) mod 256) (N.land (tc / 16) 15)) 0, N.lor (N.land (tc * 16) 240) (fh mod 256)).
Definition v6_ok (v tc fh : N) : bool :=
  let '(b0, b1) := v6_bytes v tc fh in
  (b0 <? 256) && (b1 <? 256) && N.eqb (b0 / 16) v && N.eqb (N.lor ((N.land b0 15) * 16) (b1 / 16)) tc && N.eqb (b1 mod 16) fh.
Lemma v6_sweep_true : forallb (fun v => forallb (fun tc => forallb (v6_ok v tc) (nrange 16)) (nrange 256)) (nrange 16) = true.
Proof. vm_compute. reflexivity. Qed.

Lemma v6_lanes v tc fl : v < 16 -> tc < 256 -> fl < 1048576 -> unpack_v6 (pack_v6 v tc fl) = (v, tc, fl).
Proof.
  intros Hv Ht Hf.
  pose proof (sweep3_lift 16 256 16 v6_ok v6_sweep_true v tc (fl / 65536) Hv Ht ltac:(lia)) as H.
  unfold v6_ok, v6_bytes in H. unfold unpack_v6, pack_v6.
  rewrite (N.mod_small (fl / 65536) 256) in * by lia.
  set (b0 := N.lor (N.lor ((v * 16) mod 256) (N.land (tc / 16) 15)) 0) in *.
  set (b1 := N.lor (N.land (tc * 16) 240) (fl / 65536)) in *.
  apply andb_true_iff in H as [H H5]. apply andb_true_iff in H as [H H4]. apply andb_true_iff in H as [H H3].
  apply andb_true_iff in H as [H1 H2]. apply N.eqb_eq in H3, H4, H5.
  set (w := b0 * 16777216 + b1 * 65536 + fl mod 65536).
  assert (E0 : w / 16777216 = b0) by (subst w; lia).
  assert (E1 : (w / 65536) mod 256 = b1) by (subst w; lia).
  rewrite E0, E1, H3, H4. f_equal.
  change 1048575 with (N.ones 20). rewrite N.land_ones. change (2 ^ 20) with 1048576. subst w. lia.
Qed.

(* ---- payload demultiplexing is decided by the ethertype after any tag, the IPv4
        protocol byte and the IPv6 next-header chain, and by nothing else ---- *)
Lemma eth_demux_untagged d : 14 <= blen d -> be_value (firstn 2 (skipn 12 d)) <> 33024 ->
  dec_eth d =
  (p <- dec_payload (be_value (firstn 2 (skipn 12 d))) (skipn 14 d) ;;
   Ok (T KEth [VB (firstn 6 d); VB (firstn 6 (skipn 6 d))] [T KU16 [VN (be_value (firstn 2 (skipn 12 d)))] []; p]))%res.
Proof.
  intros H Ht. unfold dec_eth. replace (blen d <? 14) with false by lia. do 3 prim.
  change (N.to_nat 2) with 2%nat. change (N.to_nat 12) with 12%nat.
  apply N.eqb_neq in Ht. rewrite Ht. prim. reflexivity.
Qed.

Lemma eth_demux_tagged d : 18 <= blen d -> be_value (firstn 2 (skipn 12 d)) = 33024 ->
  exists kids, dec_eth d =
  (p <- dec_payload (be_value (firstn 2 (skipn 16 d))) (skipn 18 d) ;;
   Ok (T KEth [VB (firstn 6 d); VB (firstn 6 (skipn 6 d))] (kids ++ [T KU16 [VN (be_value (firstn 2 (skipn 16 d)))] []; p])))%res.
Proof.
  intros H Ht. unfold dec_eth. replace (blen d <? 14) with false by lia. do 3 prim.
  change (N.to_nat 2) with 2%nat. change (N.to_nat 12) with 12%nat. rewrite Ht. cbn [N.eqb Pos.eqb].
  replace (blen d <? 18) with false by lia. do 3 prim.
  eexists. reflexivity.
Qed.

Lemma payload_by_ethertype et d :
  dec_payload et d = if N.eqb et 2048 then dec_ip4 d else if N.eqb et 34525 then dec_ip6 d
                     else if N.eqb et 2054 then dec_arp d else Ok (raw d).
Proof. reflexivity. Qed.

Lemma chain_step_l4 fuel nh d : nh <> 0 -> nh <> 43 -> nh <> 44 ->
  dec_chain (S fuel) nh d =
  if N.eqb nh 58 then (p <- dec_icmp d ;; Ok [p])%res else if N.eqb nh 17 then (p <- dec_udp d ;; Ok [p])%res else Ok [raw d].
Proof.
  intros H0 H43 H44. cbn [dec_chain]. apply N.eqb_neq in H0, H43, H44. rewrite H0, H43, H44. reflexivity.
Qed.

(* non-vacuity: concrete frames are decoded and re-encoded to the same bytes *)
Example eth_roundtrip_examples :
  let udp := be16 53 ++ be16 4242 ++ be16 12 ++ be16 0 ++ [x01; x02; x03; x04] in
  let ip4 := [x45; x00] ++ be16 32 ++ be16 7 ++ be16 16384 ++ [x40; x11] ++ be16 0 ++ [x0a; x00; x00; x01; x0a; x00; x00; x02] ++ udp in
  let frame := [x01; x02; x03; x04; x05; x06; x0a; x0b; x0c; x0d; x0e; x0f] ++ be16 33024 ++ be16 (pack_tci 5 1 100) ++ be16 2048 ++ ip4 in
  match dec_eth frame with Ok t => wire t = frame | _ => False end.
Proof. vm_compute. reflexivity. Qed.

Lemma zero_tag_lost :
  let frame := zeros 12 ++ be16 33024 ++ be16 0 ++ be16 35020 ++ [x01; x02] in
  exists t, dec_eth frame = Ok t /\ wire t <> frame.
Proof. eexists. split; [vm_compute; reflexivity|]. vm_compute. discriminate. Qed.

(* a priority tag (VLAN id 0, priority set) survives the round trip *)
Example priority_tag_kept :
  let frame := zeros 12 ++ be16 33024 ++ be16 (pack_tci 5 0 0) ++ be16 35020 ++ [x01; x02] in
  match dec_eth frame with Ok t => wire t = frame | _ => False end.
Proof. vm_compute. reflexivity. Qed.
