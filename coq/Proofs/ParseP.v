(* The parser entry point (Model/Parse.v). *)
From Coq Require Import NArith List Bool Lia.
From Coq.Strings Require Import Byte.
From LOF Require Import Base.Bytes Base.Res Model.Wire Model.Proto Model.Parse.
Import ListNotations.
Open Scope N_scope.

Lemma recover_not_panic {A} (r : res A) : recover r <> Panic.
Proof. destruct r; discriminate. Qed.

(* whatever the bytes: the entry point never lets a panic out *)
Lemma parse_never_panics fuel d : parse fuel d <> Panic.
Proof. destruct fuel; cbn [parse]; [discriminate|apply recover_not_panic]. Qed.

Lemma parse_top_never_panics d : parse_top d <> Panic.
Proof. apply parse_never_panics. Qed.

(* inputs too short to carry a type byte are errors *)
Lemma parse_short d : (length d < 2)%nat -> parse_top d = Err.
Proof.
  intros H. unfold parse_top. cbn [parse]. unfold parse_body, at_, blen.
  replace (1 <? N.of_nat (length d)) with false by lia. reflexivity.
Qed.
