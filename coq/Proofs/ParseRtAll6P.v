(* C05 for all recipes: flow-mod, group-mod, packet-out, bundle-add; the theorem. *)
From Coq Require Import NArith ZArith Arith List Bool Lia ZifyN ZifyBool ZifyNat.
From Coq.Strings Require Import Byte.
From LOF Require Import Base.Bytes Base.Res Model.Wire Model.Build Model.Proto Model.Parse Spec.Walk
  Proofs.WireP Proofs.BuildP Proofs.NormP Proofs.WalkP Proofs.WalkAllP Proofs.WalkMsgP Proofs.SegP
  Proofs.ParseRtAllP Proofs.ParseRtAll2P Proofs.ParseRtAll3P Proofs.ParseRtAll4P Proofs.ParseRtAll5P Proofs.FramingP.
Import ListNotations.
Open Scope N_scope.
Ltac Zify.zify_post_hook ::= Z.div_mod_to_equations.
Local Notation blen := Proto.blen.
Local Notation raw := Build.raw.

Definition pflowmod_ok (c cm t cmd idle hard prio buf op og fl : N) (fs : list mfrec) (is : list irec) : bool :=
  (c <? 18446744073709551616) && (cm <? 18446744073709551616) && (t <? 256) && (cmd <? 256) && (idle <? 65536) && (hard <? 65536) &&
  (prio <? 65536) && (buf <? 4294967296) && (op <? 4294967296) && (og <? 4294967296) && (fl <? 65536) &&
  pmatch_ok fs && forallb pinstr_ok is &&
  (glen (build_match fs) + sumN (map glen (map build_i is)) <? 65000).

Lemma pinstr_ok_wf i : pinstr_ok i = true -> wf_i i = true.
Proof.
  destruct i as [t|m mask|calls|calls]; cbn [pinstr_ok wf_i]; intros H; try reflexivity;
    apply andb_true_iff in H as [H _]; unfold wf_calls; rewrite forallb_forall in *; intros x Hx; apply act_ok_wf, pact_ok_act_ok, H, Hx.
Qed.

Lemma ninstrs_len is : forallb pinstr_ok is = true ->
  blen (flat_map wire (ninstrs is)) = sumN (map glen (map build_i is)) /\ (length is <= length (flat_map wire (ninstrs is)))%nat /\
  sumN (map glen (map norm (map build_i is))) = sumN (map glen (map build_i is)).
Proof.
  intros H. unfold ninstrs.
  assert (Hci : forallb consistent (map build_i is) = true).
  { clear - H. induction is as [|i r IH]; cbn [map forallb] in *; [reflexivity|]. apply andb_true_iff in H as [Hi Hr].
    rewrite (build_i_ok i (pinstr_ok_wf i Hi)), (IH Hr). reflexivity. }
  destruct (sum_norm _ Hci) as [Hs1 Hs2]. repeat split; [unfold blen; exact Hs2| |exact Hs1].
  clear - H. induction is as [|i r IH]; cbn [map flat_map length forallb] in *; [lia|]. apply andb_true_iff in H as [Hi Hr].
  rewrite app_length. destruct (built_instr_len i Hi) as [Hg Hpos]. unfold blen in Hg. specialize (IH Hr). lia.
Qed.

Lemma parse_body_flowmod pi c cm t cmd idle hard prio buf op og fl fs is xid :
  pflowmod_ok c cm t cmd idle hard prio buf op og fl fs is = true -> xid < 4294967296 ->
  parse_body pi (wire (norm (build_m xid (MFlowMod c cm t cmd idle hard prio buf op og fl fs is)))) =
  Ok (canon (norm (build_m xid (MFlowMod c cm t cmd idle hard prio buf op og fl fs is)))).
Proof.
  intros H Hx. unfold pflowmod_ok in H. repeat (apply andb_true_iff in H as [H ?]).
  match goal with Hm : pmatch_ok fs = true |- _ => rename Hm into Hfs end.
  match goal with Hm : forallb pinstr_ok is = true |- _ => rename Hm into His end.
  cbn [build_m].
  set (vals := [VN c; VN cm; VN t; VN cmd; VN idle; VN hard; VN prio; VN buf; VN op; VN og; VN fl]).
  set (l' := [FU 8; FU 8; FU 1; FU 1; FU 2; FU 2; FU 2; FU 4; FU 4; FU 4; FU 2; FZ 2]).
  destruct (msg_form KFlowMod 14 xid l' vals (build_match fs :: map build_i is) eq_refl eq_refl eq_refl eq_refl eq_refl) as [Hn Hw].
  rewrite Hn, Hw. clear Hn Hw.
  destruct (norm_build_match fs) as [Hmn Hmc]. destruct (build_match_size fs (pmatch_ok_match_ok fs Hfs)) as [Hms _].
  destruct (ninstrs_len is His) as (Hl1 & Hl2 & Hl3).
  cbn [map flat_map sumN fold_right canon]. rewrite Hmn, Hmc. fold (sumN (map glen (map norm (map build_i is)))). rewrite Hl3.
  fold (ninstrs is). set (X := flat_map wire (ninstrs is)) in *. set (M := wire (build_match fs)) in *.
  replace (fields_len l' vals) with 40 by reflexivity.
  set (L := 8 + 40 + (glen (build_match fs) + sumN (map glen (map build_i is)))).
  assert (HLlt : L < 65536) by (subst L; lia).
  set (F := enc_fields l' vals). assert (HF : blen F = 40) by reflexivity.
  pb_start 14 L xid (F ++ M ++ X).
  assert (Hrv : read_vals (msgbytes 14 L xid (F ++ M ++ X)) [(8, 8); (16, 8); (24, 1); (25, 1); (26, 2); (28, 2); (30, 2); (32, 4); (36, 4); (40, 4); (44, 2)] = Ok vals).
  { unfold msgbytes, F, l', vals. cbn [enc_fields]. rewrite <- ?app_assoc. cbn [read_vals app]. seg. reflexivity. }
  rewrite Hrv. cbn [bind].
  replace (msgbytes 14 L xid (F ++ M ++ X)) with ((be_bytes 1 4 ++ be_bytes 1 14 ++ be_bytes 2 L ++ be_bytes 4 xid ++ F) ++ M ++ X)
    by (unfold msgbytes; rewrite <- !app_assoc; reflexivity).
  set (P := be_bytes 1 4 ++ be_bytes 1 14 ++ be_bytes 2 L ++ be_bytes 4 xid ++ F). assert (HP : blen P = 48) by reflexivity.
  pose proof (from_skip P (M ++ X) 48 48 HP) as Hfs48. rewrite Hfs48 by lia. change (48 - 48) with 0. rewrite from_zero. cbn [bind].
  unfold M at 1. rewrite dec_built_match by exact Hfs. cbn [bind]. unfold hdr_len. cbn [vnum nth].
  replace (P ++ M ++ X) with ((P ++ M) ++ X ++ []) by (rewrite app_nil_r, <- app_assoc; reflexivity).
  pose proof (dec_instrs_built is His (S (length ((P ++ M) ++ X ++ []))) (P ++ M) []) as HH. fold X in HH.
  assert (HPM : blen (P ++ M) = 48 + glen (build_match fs)) by (rewrite blen_app, HP, Hms; reflexivity).
  rewrite HPM in HH.
  replace (48 + glen (build_match fs) + blen X) with L in HH by (subst L; lia).
  rewrite HH by (rewrite !app_length; lia). cbn [bind]. reflexivity.
Qed.

Definition pgroupmod_ok (cmd ty g : N) (bs : list brec) : bool :=
  (cmd <? 65536) && (ty <? 256) && (g <? 4294967296) && forallb pbucket_ok bs && (sumN (map glen (map build_b bs)) <? 65000).

Lemma pbucket_ok_wf b : pbucket_ok b = true -> wf_b b = true.
Proof.
  destruct b as [w p g acts]. cbn [pbucket_ok wf_b]. intros H. repeat (apply andb_true_iff in H as [H ?]).
  match goal with Hx : forallb pact_ok acts = true |- _ => rename Hx into Ha end.
  rewrite forallb_forall in *. intros x Hx. apply act_ok_wf, pact_ok_act_ok, Ha, Hx.
Qed.

Lemma nbuckets_len bs : forallb pbucket_ok bs = true ->
  blen (flat_map wire (nbuckets bs)) = sumN (map glen (map build_b bs)) /\ (length bs <= length (flat_map wire (nbuckets bs)))%nat /\
  sumN (map glen (map norm (map build_b bs))) = sumN (map glen (map build_b bs)).
Proof.
  intros H. unfold nbuckets.
  assert (Hci : forallb consistent (map build_b bs) = true).
  { clear - H. induction bs as [|b r IH]; cbn [map forallb] in *; [reflexivity|]. apply andb_true_iff in H as [Hb Hr].
    rewrite (build_b_ok b (pbucket_ok_wf b Hb)), (IH Hr). reflexivity. }
  destruct (sum_norm _ Hci) as [Hs1 Hs2]. repeat split; [unfold Proto.blen; exact Hs2| |exact Hs1].
  clear - H. induction bs as [|b r IH]; cbn [map flat_map length forallb] in *; [lia|]. apply andb_true_iff in H as [Hb Hr].
  rewrite app_length. destruct (built_bucket_len b Hb) as [Hg Hpos]. unfold Proto.blen in Hg. specialize (IH Hr). lia.
Qed.

Lemma parse_body_groupmod pi cmd ty g bs xid : pgroupmod_ok cmd ty g bs = true -> xid < 4294967296 ->
  parse_body pi (wire (norm (build_m xid (MGroupMod cmd ty g bs)))) = Ok (canon (norm (build_m xid (MGroupMod cmd ty g bs)))).
Proof.
  intros H Hx. unfold pgroupmod_ok in H. repeat (apply andb_true_iff in H as [H ?]).
  match goal with Hm : forallb pbucket_ok bs = true |- _ => rename Hm into Hbs end.
  cbn [build_m]. set (vals := [VN cmd; VN ty; VN 0; VN g]). set (l' := [FU 2; FU 1; FU 1; FU 4]).
  destruct (msg_form KGroupMod 15 xid l' vals (map build_b bs) eq_refl eq_refl eq_refl eq_refl eq_refl) as [Hn Hw].
  rewrite Hn, Hw. clear Hn Hw. destruct (nbuckets_len bs Hbs) as (Hl1 & Hl2 & Hl3). cbn [canon]. rewrite Hl3.
  fold (nbuckets bs). set (X := flat_map wire (nbuckets bs)) in *.
  replace (fields_len l' vals) with 8 by reflexivity. set (L := 8 + 8 + sumN (map glen (map build_b bs))).
  set (F := enc_fields l' vals).
  pb_start 15 L xid (F ++ X).
  assert (Hrv : read_vals (msgbytes 15 L xid (F ++ X)) [(8, 2); (10, 1); (11, 1); (12, 4)] = Ok vals).
  { unfold msgbytes, F, l', vals. cbn [enc_fields]. rewrite <- ?app_assoc. cbn [read_vals app]. seg. reflexivity. }
  rewrite Hrv. cbn [bind]. unfold hdr_len. cbn [vnum nth].
  replace (msgbytes 15 L xid (F ++ X)) with ((be_bytes 1 4 ++ be_bytes 1 15 ++ be_bytes 2 L ++ be_bytes 4 xid ++ F) ++ X ++ [])
    by (unfold msgbytes; rewrite app_nil_r, <- !app_assoc; reflexivity).
  set (P := be_bytes 1 4 ++ be_bytes 1 15 ++ be_bytes 2 L ++ be_bytes 4 xid ++ F). assert (HP : blen P = 16) by reflexivity.
  pose proof (dec_buckets_built bs Hbs (S (length (P ++ X ++ []))) P []) as HH. fold X in HH. rewrite HP in HH.
  replace (16 + blen X) with L in HH by (subst L; lia).
  rewrite HH by (rewrite !app_length; lia). cbn [bind]. reflexivity.
Qed.

(* packet-out: what Parse returns always carries a payload child, possibly empty *)
Definition ppacketout_ok (buf ip : N) (acts : list arec) (data : option (list byte)) : bool :=
  (buf <? 4294967296) && (ip <? 4294967296) && forallb pact_ok acts &&
  (sumN (map glen (map build_a acts)) + N.of_nat (length (match data with Some d => d | None => [] end)) <? 65000).

Definition packetout_view (xid buf ip : N) (acts : list arec) (data : option (list byte)) : tree :=
  let L := 24 + sumN (map glen (map build_a acts)) + N.of_nat (length (match data with Some d => d | None => [] end)) in
  T KPacketOut ([VN 4; VN 13; VN L; VN xid] ++ [VN buf; VN ip; VN (sumN (map glen (map build_a acts)))])
    (map canon (nacts acts) ++ [raw (match data with Some d => d | None => [] end)]).

Lemma parse_body_packetout pi buf ip acts data xid : ppacketout_ok buf ip acts data = true -> xid < 4294967296 ->
  parse_body pi (wire (norm (build_m xid (MPacketOut buf ip acts data)))) = Ok (packetout_view xid buf ip acts data).
Proof.
  intros H Hx. unfold ppacketout_ok in H. repeat (apply andb_true_iff in H as [H ?]).
  match goal with Hm : forallb pact_ok acts = true |- _ => rename Hm into Hacts end.
  cbn [build_m]. set (ks := map build_a acts) in *.
  set (dk := match data with Some d => [raw d] | None => [] end).
  set (vals := [VN buf; VN ip; VN (sumN (map glen ks))]). set (l' := [FU 4; FU 4; FU 2; FZ 6]).
  destruct (msg_form KPacketOut 13 xid l' vals (ks ++ dk) eq_refl eq_refl eq_refl eq_refl eq_refl) as [Hn Hw].
  rewrite Hn, Hw. clear Hn Hw.
  destruct (nacts_len acts Hacts) as [Hlen Hcnt]. fold ks in Hlen.
  assert (Hwf : forallb wf_a acts = true) by (apply (forallb_imp pact_ok wf_a); [intros x Hx'; apply act_ok_wf, pact_ok_act_ok, Hx'|exact Hacts]).
  assert (Hck : forallb consistent ks = true).
  { subst ks. clear - Hwf. induction acts as [|a r IH]; cbn [map forallb] in *; [reflexivity|]. apply andb_true_iff in Hwf as [Ha Hr].
    destruct (build_a_ok a Ha) as [Hc _]. rewrite Hc, (IH Hr). reflexivity. }
  destruct (sum_norm _ Hck) as [Hs1 _].
  set (D := match data with Some d => d | None => [] end) in *.
  assert (Hdk : map norm dk = dk /\ sumN (map glen dk) = N.of_nat (length D) /\ flat_map wire dk = D).
  { subst dk D. destruct data as [d|]; cbn [map norm writeback flat_map raw sumN fold_right glen lenrule_of layout fields_len lenround align8 wire enc_fields];
      rewrite ?app_nil_r; repeat split; try reflexivity. lia. }
  destruct Hdk as (Hd1 & Hd2 & Hd3).
  rewrite !map_app, Hd1, flat_map_app, sumN_app, Hs1, Hd2, Hd3.
  change (map norm ks) with (nacts acts). set (X := flat_map wire (nacts acts)) in *.
  replace (fields_len l' vals) with 16 by reflexivity.
  set (L := 8 + 16 + (sumN (map glen ks) + N.of_nat (length D))).
  set (F := enc_fields l' vals).
  pb_start 13 L xid (F ++ X ++ D).
  unfold msgbytes, F, l', vals. cbn [enc_fields]. rewrite <- ?app_assoc. cbn [app]. seg.
  match goal with |- context [dec_actions ?fu ?d 24 ?lim] =>
    replace d with ((be_bytes 1 4 ++ be_bytes 1 13 ++ be_bytes 2 L ++ be_bytes 4 xid ++ be_bytes 4 buf ++ be_bytes 4 ip ++ be_bytes 2 (sumN (map glen ks)) ++ zeros 6) ++ X ++ D)
      by (rewrite <- !app_assoc; reflexivity) end.
  set (P := be_bytes 1 4 ++ be_bytes 1 13 ++ be_bytes 2 L ++ be_bytes 4 xid ++ be_bytes 4 buf ++ be_bytes 4 ip ++ be_bytes 2 (sumN (map glen ks)) ++ zeros 6).
  assert (HP : blen P = 24) by reflexivity.
  pose proof (dec_actions_built acts Hacts (S (length (P ++ X ++ D))) P D) as HH. fold X in HH. rewrite HP in HH. rewrite Hlen in HH.
  rewrite HH by (rewrite !app_length; lia). cbn [bind].
  pose proof (sum_glen_canon_acts acts Hacts) as Hsc. fold X in Hsc. rewrite Hsc, Hlen.
  replace (24 + sumN (map glen ks)) with (blen (P ++ X)) by (rewrite blen_app, HP, Hlen; reflexivity).
  replace (P ++ X ++ D) with ((P ++ X) ++ D) by (rewrite <- app_assoc; reflexivity).
  rewrite (from_skip (P ++ X) D _ (blen (P ++ X)) eq_refl) by lia. rewrite N.sub_diag, from_zero. cbn [bind].
  unfold packetout_view. fold ks. fold D. subst L.
  replace (8 + 16 + (sumN (map glen ks) + N.of_nat (length D))) with (24 + sumN (map glen ks) + N.of_nat (length D)) by lia. reflexivity.
Qed.

(* ---------------------------------------------------------------- every message *)
(* what the parser returns for the bytes of a built message: the wire reader's view (canon),
   a packet-out always carries a payload child, nested bundled messages likewise *)
Fixpoint pview (xid : N) (m : mrec) : tree :=
  match m with
  | MPacketOut buf ip acts data => packetout_view xid buf ip acts data
  | MBundleAdd id fl xin m' =>
    T KVendor ([VN 4; VN 4; VN (24 + glen (build_m xin m')); VN xid] ++ [VN 1330529792; VN 2301]) [T KBundleAdd [VN id; VN fl] [pview xin m']]
  | _ => canon (norm (build_m xid m))
  end.

Fixpoint pmsg_ok (m : mrec) : bool :=
  match m with
  | MHello | MTlvTableReq => true
  | MHeader ty => existsb (N.eqb ty) [2; 3; 5; 7; 20]
  | MSetConfig f ms => (f <? 65536) && (ms <? 65536)
  | MFlowMod c cm t cmd idle hard prio buf op og fl fs is => pflowmod_ok c cm t cmd idle hard prio buf op og fl fs is
  | MGroupMod cmd ty g bs => pgroupmod_ok cmd ty g bs
  | MPacketOut buf ip acts data => ppacketout_ok buf ip acts data
  | MPortMod p hw c mk adv => (p <? 4294967296) && (c <? 4294967296) && (mk <? 4294967296) && (adv <? 4294967296)
  | MMultipart ty fl b => pbody_ok ty b && (fl <? 65536)
  | MSetControllerID id => id <? 65536
  | MTlvTableMod cmd maps => (cmd <? 65536) && forallb map_ok maps && (N.of_nat (length maps) <? 8000)
  | MBundleCtrl id ty fl => (id <? 4294967296) && (ty <? 65536) && (fl <? 65536)
  | MBundleAdd id fl xin m' =>
    (id <? 4294967296) && (fl <? 65536) && (xin <? 4294967296) && pmsg_ok m' && (glen (build_m xin m') <? 65000) &&
    (* the parsed inner message reports the length of the bytes it was parsed from (true of every
       view; kept as a computable side condition) *)
    (glen (pview xin m') =? glen (build_m xin m'))
  end.

Lemma pmsg_ok_wf m : pmsg_ok m = true -> wf_m m = true.
Proof.
  induction m as [| | | | | | | | | | | |id fl xin m' IH]; cbn [pmsg_ok wf_m]; intros H; try reflexivity; try exact H.
  - unfold pflowmod_ok in H. repeat (apply andb_true_iff in H as [H ?]).
    match goal with Hm : forallb pinstr_ok _ = true |- _ => apply (forallb_imp pinstr_ok wf_i _ pinstr_ok_wf Hm) end.
  - unfold pgroupmod_ok in H. repeat (apply andb_true_iff in H as [H ?]).
    match goal with Hm : forallb pbucket_ok _ = true |- _ => apply (forallb_imp pbucket_ok wf_b _ pbucket_ok_wf Hm) end.
  - unfold ppacketout_ok in H. repeat (apply andb_true_iff in H as [H ?]).
    match goal with Hm : forallb pact_ok _ = true |- _ => apply (forallb_imp pact_ok wf_a _ (fun x Hx => act_ok_wf x (pact_ok_act_ok x Hx)) Hm) end.
  - repeat (apply andb_true_iff in H as [H ?]). apply IH. assumption.
Qed.

Theorem parse_built_msg : forall m, pmsg_ok m = true -> forall xid fuel, xid < 4294967296 -> (mdepth m < fuel)%nat ->
  parse fuel (wire (norm (build_m xid m))) = Ok (pview xid m).
Proof.
  induction m as [| | | | | | | | | | | |id fl xin m' IH]; cbn [pmsg_ok]; intros H xid fuel Hx Hd;
    (destruct fuel as [|fuel]; [lia|]); cbn [parse pview].
  - rewrite parse_body_hello by exact Hx. reflexivity.
  - rewrite parse_body_header_only by assumption. reflexivity.
  - apply andb_true_iff in H as [H1 H2]. rewrite parse_body_setconfig by lia. reflexivity.
  - rewrite parse_body_flowmod by assumption. reflexivity.
  - rewrite parse_body_groupmod by assumption. reflexivity.
  - rewrite parse_body_packetout by assumption. reflexivity.
  - repeat (apply andb_true_iff in H as [H ?]). rewrite parse_body_portmod by lia. reflexivity.
  - apply andb_true_iff in H as [H1 H2]. rewrite parse_body_multipart by (try exact H1; lia).
    cbn [recover]. f_equal. (* the multipart request is its own view *)
    destruct b as [|t p g c m fs|t p g c m fs|p|p q]; cbn [pbody_ok] in H1; try discriminate; cbn [build_m build_body].
    + reflexivity.
    + repeat (apply andb_true_iff in H1 as [H1 ?]).
      match goal with Hm : pmatch_ok fs = true |- _ => destruct (sdec_flowreq KFlowStatsReq t p g c m fs (or_introl eq_refl)) as (Hkn & Hkc & _); try lia; try apply pmatch_ok_match_ok, Hm end.
      rewrite norm_msg by reflexivity. cbn [map canon]. rewrite Hkn, Hkc. reflexivity.
    + repeat (apply andb_true_iff in H1 as [H1 ?]).
      match goal with Hm : pmatch_ok fs = true |- _ => destruct (sdec_flowreq KAggStatsReq t p g c m fs (or_intror eq_refl)) as (Hkn & Hkc & _); try lia; try apply pmatch_ok_match_ok, Hm end.
      rewrite norm_msg by reflexivity. cbn [map canon]. rewrite Hkn, Hkc. reflexivity.
  - rewrite parse_body_setcontrollerid by lia. reflexivity.
  - repeat (apply andb_true_iff in H as [H ?]). rewrite parse_body_tlvtablemod by (try assumption; lia).
    cbn [recover build_m]. f_equal.
    change (map (fun p : N * N * N * N => let '(c, t, l, i) := p in T KTlvMap [VN c; VN t; VN l; VN i] []) maps) with (map mk_map maps).
    rewrite norm_msg by reflexivity. cbn [map canon norm writeback]. rewrite norm_mk_maps, canon_mk_maps. reflexivity.
  - rewrite parse_body_tlvtablereq by exact Hx. reflexivity.
  - repeat (apply andb_true_iff in H as [H ?]). rewrite parse_body_bundlectrl by lia. reflexivity.
  - (* bundle-add *)
    repeat (apply andb_true_iff in H as [H ?]).
    match goal with Hm : pmsg_ok m' = true |- _ => rename Hm into Hin end.
    match goal with Hm : (glen (pview xin m') =? glen (build_m xin m')) = true |- _ => apply N.eqb_eq in Hm; rename Hm into Hgv end.
    cbn [mdepth] in Hd. cbn [build_m]. set (inner := build_m xin m') in *.
    assert (Hci : consistent inner = true) by (apply build_m_ok, pmsg_ok_wf, Hin).
    destruct (norm_len inner Hci) as [Hg Hl].
    destruct (msg_form KVendor 4 xid [FU 4; FU 4] [VN 1330529792; VN 2301] [T KBundleAdd [VN id; VN fl] [inner]] eq_refl eq_refl eq_refl eq_refl eq_refl) as [Hn Hw].
    rewrite Hn, Hw. clear Hn Hw.
    cbn [map norm writeback flat_map wire layout enc_fields align8 fields_len glen lenrule_of lenround sumN fold_right].
    rewrite Hg, !app_nil_r. nats. set (W := wire (norm inner)) in *.
    set (L := 8 + (4 + (4 + 0)) + (4 + (2 + (2 + 0)) + (glen inner + 0) + 0)). rewrite <- !app_assoc.
    rewrite parse_body_vendor by (try (subst L; lia); blens; nats; unfold Proto.blen; subst L; lia).
    replace (16 <? L) with true by (subst L; lia).
    unfold dec_vendor_data. cbn [N.eqb Pos.eqb]. seg.
    (* the embedded message's own header gives its length *)
    destruct (built_framing m' xin (pmsg_ok_wf _ Hin) ltac:(lia)) as [tail [HWf _]]. fold inner in HWf.
    change (fst (marshal inner)) with W in HWf. unfold be8, be16, be32 in HWf.
    assert (Hge : 8 <= glen inner).
    { rewrite <- Hl. unfold W in HWf |- *. rewrite HWf. rewrite !app_length, !length_be_bytes. lia. }
    replace (blen (be_bytes 4 id ++ zeros 2 ++ be_bytes 2 fl ++ W) <? 12) with false by (blens; nats; unfold Proto.blen; lia).
    rewrite HWf. seg. rewrite <- HWf.
    replace ((glen inner <? 8) || (blen (be_bytes 4 id ++ zeros 2 ++ be_bytes 2 fl ++ W) - 8 <? glen inner)) with false
      by (blens; nats; unfold Proto.blen; lia).
    rewrite (sl_skip (be_bytes 4 id) _ 8 (8 + glen inner) 4) by (first [apply blen_be|lia]).
    rewrite (sl_skip (zeros 2) _ (8 - 4) (8 + glen inner - 4) 2) by (first [apply blen_zeros|lia]).
    rewrite (sl_skip (be_bytes 2 fl) _ (8 - 4 - 2) (8 + glen inner - 4 - 2) 2) by (first [apply blen_be|lia]).
    replace (8 - 4 - 2 - 2) with 0 by lia. replace (8 + glen inner - 4 - 2 - 2) with (glen inner) by lia.
    rewrite (sl_all W (glen inner)) by (unfold Proto.blen; lia). cbn [bind].
    assert (Hpi : parse fuel W = Ok (pview xin m')) by (apply IH; [exact Hin|lia|lia]).
    rewrite Hpi. cbn [bind].
    destruct (length (be_bytes 4 id ++ zeros 2 ++ be_bytes 2 fl ++ W)) eqn:El.
    { apply (f_equal N.of_nat) in El. fold (blen (be_bytes 4 id ++ zeros 2 ++ be_bytes 2 fl ++ W)) in El. revert El. blens. nats. lia. }
    cbn [dec_props]. replace (blen (be_bytes 4 id ++ zeros 2 ++ be_bytes 2 fl ++ W) <=? 8 + glen inner) with true by (blens; nats; unfold Proto.blen; lia).
    cbn [bind recover]. subst L.
    replace (8 + (4 + (4 + 0)) + (4 + (2 + (2 + 0)) + (glen inner + 0) + 0)) with (24 + glen inner) by lia. reflexivity.
Qed.
