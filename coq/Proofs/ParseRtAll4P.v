(* C05 for all recipes, continued: action lists, instructions, buckets. *)
From Coq Require Import NArith ZArith Arith List Bool Lia ZifyN ZifyBool ZifyNat.
From Coq.Strings Require Import Byte.
From LOF Require Import Base.Bytes Base.Res Model.Wire Model.Build Model.Proto Model.Parse Spec.Walk
  Proofs.WireP Proofs.BuildP Proofs.NormP Proofs.WalkP Proofs.WalkAllP Proofs.WalkMsgP Proofs.SegP
  Proofs.ParseRtAllP Proofs.ParseRtAll2P Proofs.ParseRtAll3P.
Import ListNotations.
Open Scope N_scope.
Ltac Zify.zify_post_hook ::= Z.div_mod_to_equations.
Local Notation blen := Proto.blen.

Definition nacts (acts : list arec) : list tree := map norm (map build_a acts).

Lemma dec_actions_built acts : forallb pact_ok acts = true -> forall fuel P Y, (length acts < fuel)%nat ->
  dec_actions fuel (P ++ flat_map wire (nacts acts) ++ Y) (blen P) (blen P + blen (flat_map wire (nacts acts))) =
  Ok (map canon (nacts acts), false).
Proof.
  unfold nacts. induction acts as [|a r IH]; intros H fuel P Y Hf; cbn [map flat_map forallb length] in *.
  - destruct fuel; [lia|]. cbn [dec_actions]. rewrite blen_nil. replace (blen P + 0 <=? blen P) with true by lia. reflexivity.
  - apply andb_true_iff in H as [Ha Hr]. destruct fuel as [|fuel]; [lia|]. cbn [dec_actions].
    set (w := wire (norm (build_a a))) in *. set (X := flat_map wire (map norm (map build_a r))) in *.
    destruct (built_action_len a Ha) as [Hg Hpos]. fold w in Hg.
    pose proof (adepth_le_wire a (pact_ok_act_ok a Ha)) as Hdep. fold w in Hdep.
    rewrite blen_app. replace (blen P + (blen w + blen X) <=? blen P) with false by lia.
    rewrite (from_skip P _ (blen P) (blen P)) by (try reflexivity; lia). rewrite N.sub_diag, from_zero. cbn [bind].
    rewrite <- app_assoc.
    assert (Hda : dec_action (S (length (P ++ w ++ X ++ Y))) (w ++ X ++ Y) = Ok (canon (norm (build_a a))))
      by (unfold w at 2; apply dec_built_action; [exact Ha|rewrite !app_length; lia]).
    rewrite Hda.
    replace (glen (canon (norm (build_a a))) =? 0) with false by lia. rewrite Hg.
    replace (blen P + blen w) with (blen (P ++ w)) by (rewrite blen_app; reflexivity).
    replace (blen P + (blen w + blen X)) with (blen (P ++ w) + blen X) by (rewrite blen_app; lia).
    replace (P ++ w ++ X ++ Y) with ((P ++ w) ++ X ++ Y) by (rewrite <- app_assoc; reflexivity).
    unfold X. rewrite IH by (try exact Hr; lia). cbn [bind]. reflexivity.
Qed.

Lemma nacts_len acts : forallb pact_ok acts = true ->
  blen (flat_map wire (nacts acts)) = sumN (map glen (map build_a acts)) /\ (length acts <= length (flat_map wire (nacts acts)))%nat.
Proof.
  intros H. unfold nacts. split.
  - unfold blen. apply flat_norm_len. apply (forallb_imp pact_ok wf_a); [intros x Hx; apply act_ok_wf, pact_ok_act_ok, Hx|exact H].
  - induction acts as [|a r IH]; cbn [map flat_map length forallb] in *; [lia|]. apply andb_true_iff in H as [Ha Hr].
    rewrite app_length. destruct (built_action_len a Ha) as [Hg Hpos]. unfold blen in Hg. specialize (IH Hr). lia.
Qed.

(* ---------------------------------------------------------------- instructions *)
Definition pinstr_ok (i : irec) : bool :=
  match i with
  | IGoto t => t <? 256
  | IWriteMeta m mask => (m <? 18446744073709551616) && (mask <? 18446744073709551616)
  | IApply calls | IWrite calls =>
    forallb (fun c => pact_ok (fst c)) calls && (sumN (map glen (map build_a (call_order calls))) <? 65000)
  end.

Lemma forallb_fold_add_p calls : forall acc, forallb pact_ok acc = true -> forallb (fun c => pact_ok (fst c)) calls = true ->
  forallb pact_ok (fold_left add_arec calls acc) = true.
Proof.
  induction calls as [|c r IH]; intros acc Ha Hc; cbn [fold_left forallb] in *; [exact Ha|].
  apply andb_true_iff in Hc as [Hc1 Hc2]. apply IH; [|exact Hc2].
  unfold add_arec. destruct (snd c); [cbn [forallb]; rewrite Hc1, Ha; reflexivity|].
  rewrite forallb_app, Ha. cbn [forallb]. rewrite Hc1. reflexivity.
Qed.

Lemma dec_instr_actions ty calls rest : (ty = 3 \/ ty = 4 \/ ty = 5) ->
  forallb (fun c => pact_ok (fst c)) calls = true -> sumN (map glen (map build_a (call_order calls))) < 65000 ->
  dec_instr (wire (norm (instr_actions ty calls)) ++ rest) = Ok (canon (norm (instr_actions ty calls))).
Proof.
  intros Hty Hc Hsz. rewrite instr_actions_form. set (acts := call_order calls) in *.
  assert (Hacts : forallb pact_ok acts = true) by (apply forallb_fold_add_p; [reflexivity|exact Hc]).
  destruct (nacts_len acts Hacts) as [Hlen Hcnt].
  set (L := 8 + sumN (map glen (map build_a acts))) in *.
  assert (Hn : norm (T KInstrActions [VN ty; VN L] (map build_a acts)) = T KInstrActions [VN ty; VN L] (nacts acts)) by reflexivity.
  rewrite Hn. cbn [canon]. set (X := flat_map wire (nacts acts)) in *.
  assert (Hw : wire (T KInstrActions [VN ty; VN L] (nacts acts)) = be_bytes 2 ty ++ be_bytes 2 L ++ zeros 4 ++ X).
  { cbn [wire layout enc_fields align8]. rewrite <- !app_assoc. reflexivity. }
  rewrite Hw. rewrite <- !app_assoc. unfold dec_instr.
  rewrite (uat_here' 2 2 ty _ eq_refl) by (change (256 ^ 2) with 65536; lia). cbn [bind]. cbv zeta.
  replace (ty =? 1) with false by lia. replace (ty =? 2) with false by lia.
  replace ((ty =? 3) || (ty =? 4) || (ty =? 5))%bool with true by lia.
  rewrite bind_sl_discard by (blens; nats; lia).
  rewrite (uat_skip 2 (be_bytes 2 ty) _ 2 2) by (try apply blen_be; lia). change (2 - 2) with 0.
  rewrite (uat_here' 2 2 L _ eq_refl) by (change (256 ^ 2) with 65536; lia). cbn [bind vnum nth].
  replace (be_bytes 2 ty ++ be_bytes 2 L ++ zeros 4 ++ X ++ rest) with ((be_bytes 2 ty ++ be_bytes 2 L ++ zeros 4) ++ X ++ rest)
    by (rewrite <- !app_assoc; reflexivity).
  set (P := be_bytes 2 ty ++ be_bytes 2 L ++ zeros 4). assert (HP : blen P = 8) by reflexivity.
  pose proof (dec_actions_built acts Hacts (S (length (P ++ X ++ rest))) P rest) as HH. fold X in HH.
  rewrite HP in HH. replace (8 + blen X) with L in HH by lia.
  rewrite HH by (rewrite !app_length; lia). cbn [bind]. reflexivity.
Qed.

Theorem dec_built_instr i rest : pinstr_ok i = true ->
  dec_instr (wire (norm (build_i i)) ++ rest) = Ok (canon (norm (build_i i))).
Proof.
  destruct i as [t|m mask|calls|calls]; cbn [pinstr_ok build_i]; intros H.
  - replace (canon (norm (T KInstrGoto [VN 1; VN 8; VN t] []))) with (T KInstrGoto [VN 1; VN 8; VN t] []) by reflexivity.
    replace (norm (T KInstrGoto [VN 1; VN 8; VN t] [])) with (T KInstrGoto [VN 1; VN 8; VN t] []) by reflexivity.
    cbn [wire layout enc_fields align8 flat_map]. rewrite !app_nil_r. rewrite <- !app_assoc. unfold dec_instr.
    dispatch16. dec_walk. reflexivity.
  - apply andb_true_iff in H as [H1 H2].
    replace (canon (norm (T KInstrWriteMeta [VN 2; VN 24; VN m; VN mask] []))) with (T KInstrWriteMeta [VN 2; VN 24; VN m; VN mask] []) by reflexivity.
    replace (norm (T KInstrWriteMeta [VN 2; VN 24; VN m; VN mask] [])) with (T KInstrWriteMeta [VN 2; VN 24; VN m; VN mask] []) by reflexivity.
    cbn [wire layout enc_fields align8 flat_map]. rewrite !app_nil_r. rewrite <- !app_assoc. unfold dec_instr.
    dispatch16. dec_walk. reflexivity.
  - apply andb_true_iff in H as [H1 H2]. apply dec_instr_actions; [tauto|exact H1|lia].
  - apply andb_true_iff in H as [H1 H2]. apply dec_instr_actions; [tauto|exact H1|lia].
Qed.

Lemma sum_glen_canon_acts acts : forallb pact_ok acts = true ->
  sumN (map glen (map canon (nacts acts))) = blen (flat_map wire (nacts acts)).
Proof.
  unfold nacts. induction acts as [|a r IH]; intros H; cbn [map flat_map forallb sumN fold_right] in *; [reflexivity|].
  apply andb_true_iff in H as [Ha Hr]. destruct (built_action_len a Ha) as [Hg _]. unfold sumN in IH. rewrite Hg, (IH Hr), blen_app. reflexivity.
Qed.

Lemma built_instr_len i : pinstr_ok i = true ->
  glen (canon (norm (build_i i))) = blen (wire (norm (build_i i))) /\ 0 < glen (canon (norm (build_i i))).
Proof.
  destruct i as [t|m mask|calls|calls]; cbn [pinstr_ok build_i]; intros H; try (split; reflexivity).
  all: apply andb_true_iff in H as [H1 H2]; rewrite instr_actions_form.
  all: assert (Hacts : forallb pact_ok (call_order calls) = true) by (apply forallb_fold_add_p; [reflexivity|exact H1]).
  all: pose proof (sum_glen_canon_acts _ Hacts) as Hs.
  all: match goal with |- context [T KInstrActions ?vs (map build_a ?acts)] =>
         replace (norm (T KInstrActions vs (map build_a acts))) with (T KInstrActions vs (nacts acts)) by reflexivity end.
  all: cbn [canon glen lenrule_of layout fields_len lenround align8 wire enc_fields]; rewrite Hs; blens; nats; split; lia.
Qed.

Definition ninstrs (is : list irec) : list tree := map norm (map build_i is).

Lemma dec_instrs_built is : forallb pinstr_ok is = true -> forall fuel P Y, (length is < fuel)%nat ->
  dec_instrs fuel (P ++ flat_map wire (ninstrs is) ++ Y) (blen P) (blen P + blen (flat_map wire (ninstrs is))) =
  Ok (map canon (ninstrs is), false).
Proof.
  unfold ninstrs. induction is as [|i r IH]; intros H fuel P Y Hf; cbn [map flat_map forallb length] in *.
  - destruct fuel; [lia|]. cbn [dec_instrs]. rewrite blen_nil. replace (blen P + 0 <=? blen P) with true by lia. reflexivity.
  - apply andb_true_iff in H as [Hi Hr]. destruct fuel as [|fuel]; [lia|]. cbn [dec_instrs].
    set (w := wire (norm (build_i i))) in *. set (X := flat_map wire (map norm (map build_i r))) in *.
    destruct (built_instr_len i Hi) as [Hg Hpos]. fold w in Hg.
    rewrite blen_app. replace (blen P + (blen w + blen X) <=? blen P) with false by lia.
    rewrite (from_skip P _ (blen P) (blen P)) by (try reflexivity; lia). rewrite N.sub_diag, from_zero. cbn [bind].
    rewrite <- app_assoc.
    assert (Hdi : dec_instr (w ++ X ++ Y) = Ok (canon (norm (build_i i)))) by (unfold w; apply dec_built_instr, Hi).
    rewrite Hdi. cbn [bind]. replace (glen (canon (norm (build_i i))) =? 0) with false by lia. rewrite Hg.
    replace (blen P + blen w) with (blen (P ++ w)) by (rewrite blen_app; reflexivity).
    replace (blen P + (blen w + blen X)) with (blen (P ++ w) + blen X) by (rewrite blen_app; lia).
    replace (P ++ w ++ X ++ Y) with ((P ++ w) ++ X ++ Y) by (rewrite <- app_assoc; reflexivity).
    unfold X. rewrite IH by (try exact Hr; lia). cbn [bind]. reflexivity.
Qed.

(* ---------------------------------------------------------------- buckets *)
Definition pbucket_ok (b : brec) : bool :=
  match b with BK w p g acts =>
    (w <? 65536) && (p <? 4294967296) && (g <? 4294967296) && forallb pact_ok acts &&
    (sumN (map glen (map build_a acts)) <? 65000)
  end.

Lemma norm_bucket w p g acts : forallb pact_ok acts = true ->
  norm (build_b (BK w p g acts)) = T KBucket [VN (16 + sumN (map glen (map build_a acts))); VN w; VN p; VN g] (nacts acts).
Proof.
  intros Hacts. cbn [build_b norm writeback set_nth]. f_equal. f_equal. f_equal.
  cbn [glen lenrule_of layout fields_len lenround]. nats.
  assert (Hwf : forallb wf_a acts = true) by (apply (forallb_imp pact_ok wf_a); [intros x Hx; apply act_ok_wf, pact_ok_act_ok, Hx|exact Hacts]).
  destruct (flat_norm_len acts Hwf) as [Hlen H8].
  assert (Hg : sumN (map glen (map norm (map build_a acts))) = sumN (map glen (map build_a acts))).
  { clear - Hwf. induction acts as [|a r IH]; [reflexivity|]. cbn [forallb] in Hwf. apply andb_true_iff in Hwf as [Ha Hr].
    cbn [map sumN fold_right]. unfold sumN in IH. rewrite (IH Hr). f_equal.
    destruct (build_a_ok a Ha) as [Hc _]. destruct (norm_keeps _ (consistent_shaped _ Hc)) as (_ & _ & Hg). exact Hg. }
  rewrite Hg. apply round8_fix. lia.
Qed.

Theorem dec_built_bucket b rest : pbucket_ok b = true ->
  dec_bucket (wire (norm (build_b b)) ++ rest) = Ok (canon (norm (build_b b)), false).
Proof.
  destruct b as [w p g acts]. cbn [pbucket_ok]. intros H.
  repeat (apply andb_true_iff in H as [H ?]).
  match goal with Hx : forallb pact_ok acts = true |- _ => rename Hx into Hacts end.
  rewrite (norm_bucket w p g acts Hacts). destruct (nacts_len acts Hacts) as [Hlen Hcnt].
  set (L := 16 + sumN (map glen (map build_a acts))). cbn [canon]. set (X := flat_map wire (nacts acts)) in *.
  assert (Hw : wire (T KBucket [VN L; VN w; VN p; VN g] (nacts acts)) = be_bytes 2 L ++ be_bytes 2 w ++ be_bytes 4 p ++ be_bytes 4 g ++ zeros 4 ++ X).
  { cbn [wire layout enc_fields align8]. rewrite <- !app_assoc. reflexivity. }
  rewrite Hw, <- !app_assoc. unfold dec_bucket. seg.
  replace (be_bytes 2 L ++ be_bytes 2 w ++ be_bytes 4 p ++ be_bytes 4 g ++ zeros 4 ++ X ++ rest)
    with ((be_bytes 2 L ++ be_bytes 2 w ++ be_bytes 4 p ++ be_bytes 4 g ++ zeros 4) ++ X ++ rest) by (rewrite <- !app_assoc; reflexivity).
  set (P := be_bytes 2 L ++ be_bytes 2 w ++ be_bytes 4 p ++ be_bytes 4 g ++ zeros 4). assert (HP : blen P = 16) by reflexivity.
  pose proof (dec_actions_built acts Hacts (S (length (P ++ X ++ rest))) P rest) as HH. fold X in HH.
  rewrite HP in HH. replace (16 + blen X) with L in HH by (subst L; lia).
  rewrite HH by (rewrite !app_length; lia). cbn [bind]. reflexivity.
Qed.

Lemma built_bucket_len b : pbucket_ok b = true ->
  glen (canon (norm (build_b b))) = blen (wire (norm (build_b b))) /\ 0 < glen (canon (norm (build_b b))).
Proof.
  destruct b as [w p g acts]. cbn [pbucket_ok]. intros H. repeat (apply andb_true_iff in H as [H ?]).
  match goal with Hx : forallb pact_ok acts = true |- _ => rename Hx into Hacts end.
  rewrite (norm_bucket w p g acts Hacts). destruct (nacts_len acts Hacts) as [Hlen Hcnt].
  pose proof (sum_glen_canon_acts _ Hacts) as Hs.
  assert (Hwf : forallb wf_a acts = true) by (apply (forallb_imp pact_ok wf_a); [intros x Hx; apply act_ok_wf, pact_ok_act_ok, Hx|exact Hacts]).
  destruct (flat_norm_len acts Hwf) as [_ H8].
  cbn [canon glen lenrule_of layout fields_len lenround wire enc_fields align8]. rewrite Hs, Hlen. blens. nats. rewrite Hlen.
  rewrite round8_fix by lia. split; lia.
Qed.

Definition nbuckets (bs : list brec) : list tree := map norm (map build_b bs).

Lemma dec_buckets_built bs : forallb pbucket_ok bs = true -> forall fuel P Y, (length bs < fuel)%nat ->
  dec_buckets fuel (P ++ flat_map wire (nbuckets bs) ++ Y) (blen P) (blen P + blen (flat_map wire (nbuckets bs))) =
  Ok (map canon (nbuckets bs)).
Proof.
  unfold nbuckets. induction bs as [|b r IH]; intros H fuel P Y Hf; cbn [map flat_map forallb length] in *.
  - destruct fuel; [lia|]. cbn [dec_buckets]. rewrite blen_nil. replace (blen P + 0 <=? blen P) with true by lia. reflexivity.
  - apply andb_true_iff in H as [Hb Hr]. destruct fuel as [|fuel]; [lia|]. cbn [dec_buckets].
    set (w := wire (norm (build_b b))) in *. set (X := flat_map wire (map norm (map build_b r))) in *.
    destruct (built_bucket_len b Hb) as [Hg Hpos]. fold w in Hg.
    rewrite blen_app. replace (blen P + (blen w + blen X) <=? blen P) with false by lia.
    rewrite (from_skip P _ (blen P) (blen P)) by (try reflexivity; lia). rewrite N.sub_diag, from_zero. cbn [bind].
    rewrite <- app_assoc.
    assert (Hdb : dec_bucket (w ++ X ++ Y) = Ok (canon (norm (build_b b)), false)) by (unfold w; apply dec_built_bucket, Hb).
    rewrite Hdb. cbn [bind]. rewrite Hg.
    replace (blen P + blen w) with (blen (P ++ w)) by (rewrite blen_app; reflexivity).
    replace (blen P + (blen w + blen X)) with (blen (P ++ w) + blen X) by (rewrite blen_app; lia).
    replace (P ++ w ++ X ++ Y) with ((P ++ w) ++ X ++ Y) by (rewrite <- app_assoc; reflexivity).
    unfold X. rewrite IH by (try exact Hr; lia). cbn [bind]. reflexivity.
Qed.
