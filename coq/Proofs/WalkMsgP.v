(* The independent decoder inverts the encoder on every message the constructors build. *)
From Coq Require Import NArith ZArith Arith List Bool Lia ZifyN ZifyBool ZifyNat.
From Coq.Strings Require Import Byte.
From LOF Require Import Base.Bytes Model.Wire Model.Build Spec.Walk Proofs.WireP Proofs.BuildP Proofs.NormP Proofs.WalkP Proofs.WalkAllP.
Import ListNotations.
Open Scope N_scope.
Ltac Zify.zify_post_hook ::= Z.div_mod_to_equations.

(* ---------------------------------------------------------------- messages *)
Definition msgbytes (ty L xid : N) (B : list byte) : list byte :=
  be_bytes 1 4 ++ be_bytes 1 ty ++ be_bytes 2 L ++ be_bytes 4 xid ++ B.

Lemma sdec_msg_prologue ty L xid B fuel rest :
  ty < 256 -> L < 65536 -> xid < 4294967296 -> 8 + Walk.blen B = L ->
  sdec_msg (S fuel) (msgbytes ty L xid B ++ rest) =
  (let hv := [VN 4; VN ty; VN L; VN xid] in let len := L in let body := B in
      if N.eqb ty 0 then
        es <-- sdec_hello_elems (S (length body)) body ;; Some (T KHello hv es, rest)
      else if (N.eqb ty 2 || N.eqb ty 3 || N.eqb ty 5 || N.eqb ty 7 || N.eqb ty 20)%bool then
        _ <-- guard (N.eqb len 8) ;; Some (T KHeaderOnly hv [], rest)
      else if N.eqb ty 9 then
        '(vs, r) <-- sfields [FU 2; FU 2] body ;; _ <-- guard (match r with [] => true | _ => false end) ;;
        Some (T KSwitchConfig (hv ++ vs) [], rest)
      else if N.eqb ty 14 then
        '(vs, r) <-- sfields [FU 8; FU 8; FU 1; FU 1; FU 2; FU 2; FU 2; FU 4; FU 4; FU 4; FU 2; FZ 2] body ;;
        '(m, r') <-- sdec_match r ;; is <-- sdec_instrs (S (length r')) r' ;;
        Some (T KFlowMod (hv ++ vs) (m :: is), rest)
      else if N.eqb ty 15 then
        '(vs, r) <-- sfields [FU 2; FU 1; FU 1; FU 4] body ;;
        bks <-- sdec_buckets (S (length r)) r ;; Some (T KGroupMod (hv ++ vs) bks, rest)
      else if N.eqb ty 13 then
        '(vs, r) <-- sfields [FU 4; FU 4; FU 2; FZ 6] body ;;
        match vs with
        | [_; _; VN alen] =>
          '(ab, data) <-- take alen r ;;
          acts <-- sdec_actions (S (length ab)) ab ;;
          Some (T KPacketOut (hv ++ vs) (acts ++ match data with [] => [] | _ => [T KRaw [VB data] []] end), rest)
        | _ => None
        end
      else if N.eqb ty 16 then
        '(vs, r) <-- sfields [FU 4; FZ 4; FB 6; FZ 2; FU 4; FU 4; FU 4; FZ 4] body ;;
        _ <-- guard (match r with [] => true | _ => false end) ;; Some (T KPortMod (hv ++ vs) [], rest)
      else if N.eqb ty 18 then
        '(vs, r) <-- sfields [FU 2; FU 2; FZ 4] body ;;
        match vs with
        | [VN mpty; _] => b <-- sdec_mp_body mpty r ;; Some (T KMultipartReq (hv ++ vs) b, rest)
        | _ => None
        end
      else if N.eqb ty 4 then
        '(vs, r) <-- sfields [FU 4; FU 4] body ;;
        match vs with
        | [VN vendor; VN et] =>
          if N.eqb vendor NX_VENDOR then
            if N.eqb et 20 then
              '(cv, r') <-- sfields [FZ 6; FU 2] r ;; _ <-- guard (match r' with [] => true | _ => false end) ;;
              Some (T KVendor (hv ++ vs) [T KControllerID cv []], rest)
            else if N.eqb et 24 then
              '(cv, r') <-- sfields [FU 2; FZ 6] r ;; ms <-- sdec_tlvmaps (S (length r')) r' ;;
              Some (T KVendor (hv ++ vs) [T KTlvTableMod cv ms], rest)
            else if N.eqb et 25 then
              _ <-- guard (match r with [] => true | _ => false end) ;; Some (T KVendor (hv ++ vs) [], rest)
            else None
          else if N.eqb vendor ONF_VENDOR then
            if N.eqb et 2300 then
              '(cv, r') <-- sfields [FU 4; FU 2; FU 2] r ;; _ <-- guard (match r' with [] => true | _ => false end) ;;
              Some (T KVendor (hv ++ vs) [T KBundleCtrl cv []], rest)
            else if N.eqb et 2301 then
              '(cv, r') <-- sfields [FU 4; FZ 2; FU 2] r ;;
              '(inner, props) <-- sdec_msg fuel r' ;;
              _ <-- guard (match props with [] => true | _ => false end) ;;
              Some (T KVendor (hv ++ vs) [T KBundleAdd cv [inner]], rest)
            else None
          else None
        | _ => None
        end
      else None).
Proof.
  intros Hty HL Hx Hlen. cbn [sdec_msg].
  assert (Hh : sfields S_ofhdr (msgbytes ty L xid B ++ rest) = Some ([VN 4; VN ty; VN L; VN xid], B ++ rest)).
  { unfold msgbytes. rewrite <- !app_assoc.
    change (be_bytes 1 4 ++ be_bytes 1 ty ++ be_bytes 2 L ++ be_bytes 4 xid ++ B ++ rest)
      with (enc_fields ofhdr [VN 4; VN ty; VN L; VN xid] ++ (B ++ rest)).
    apply sfields_enc; [reflexivity|]. cbn [ofhdr vals_ok]. change (256 ^ N.of_nat 1) with 256. change (256 ^ N.of_nat 2) with 65536. change (256 ^ N.of_nat 4) with 4294967296.
    replace (4 <? 256) with true by reflexivity. replace (ty <? 256) with true by lia. replace (L <? 65536) with true by lia. replace (xid <? 4294967296) with true by lia. reflexivity. }
  rewrite Hh. cbn [obind]. replace ((4 =? 4) && (8 <=? L)) with true by lia. cbn [guard obind].
  pose proof (take_app (msgbytes ty L xid B) rest) as Ht.
  assert (Hb : Walk.blen (msgbytes ty L xid B) = L).
  { unfold msgbytes, Walk.blen in *. rewrite !app_length, !length_be_bytes. lia. }
  rewrite Hb in Ht. rewrite Ht. cbn [obind].
  assert (Hsk : skipn 8 (msgbytes ty L xid B) = B).
  { unfold msgbytes. rewrite !app_assoc. apply skipn_app_exact. rewrite !app_length, !length_be_bytes. reflexivity. }
  rewrite Hsk. reflexivity.
Qed.

(* the bytes of a message whose own fields start with the OpenFlow header *)
Lemma wire_msg k ty L xid l' vals kids : layout k = ofhdr ++ l' -> align8 k = false ->
  wire (T k ([VN 4; VN ty; VN L; VN xid] ++ vals) kids) = msgbytes ty L xid (enc_fields l' vals ++ flat_map wire kids).
Proof.
  intros Hl Ha. cbn [wire]. rewrite Ha, Hl. unfold msgbytes, ofhdr. cbn [app enc_fields]. rewrite <- !app_assoc. reflexivity.
Qed.

Lemma norm_msg k ty xid vals kids : writeback k = Some 2%nat ->
  norm (T k (hdr ty xid ++ vals) kids) =
  T k ([VN 4; VN ty; VN (glen (T k (hdr ty xid ++ vals) (map norm kids))); VN xid] ++ vals) (map norm kids).
Proof. intros H. rewrite norm_unfold. unfold norm_vals. rewrite H. reflexivity. Qed.

(* messages without lists *)
Lemma vals_ok_shape l : forall vs, vals_ok l vs = true -> vals_shape l vs = true.
Proof.
  induction l as [|f l IH]; intros vs Hv; cbn [vals_ok vals_shape] in *; [exact Hv|].
  destruct f; [destruct vs as [|[n|b] vs]; try discriminate; apply andb_true_iff in Hv as [_ Hv]; apply IH, Hv
              |apply IH, Hv|destruct vs as [|[n|b] vs]; try discriminate; apply IH, Hv|destruct vs as [|[n|b] vs]; try discriminate; apply IH, Hv].
Qed.

Lemma sdec_simple_msg k ty xid l' vals :
  layout k = ofhdr ++ l' -> align8 k = false -> writeback k = Some 2%nat -> lenrule_of k = LComputed -> lenround k = false ->
  plain l' = true -> vals_ok l' vals = true -> ty < 256 -> xid < 4294967296 ->
  forall L, L = 8 + fields_len l' vals -> L < 65536 ->
  norm (T k (hdr ty xid ++ vals) []) = T k ([VN 4; VN ty; VN L; VN xid] ++ vals) [] /\
  wire (T k ([VN 4; VN ty; VN L; VN xid] ++ vals) []) = msgbytes ty L xid (enc_fields l' vals) /\
  8 + Walk.blen (enc_fields l' vals) = L /\
  sfields l' (enc_fields l' vals) = Some (vals, []).
Proof.
  intros Hl Ha Hw Hr Hro Hp Hv Hty Hx L HL HL2.
  assert (Hfl : forall ln, fields_len (layout k) ([VN 4; VN ty; VN ln; VN xid] ++ vals) = 8 + fields_len l' vals).
  { intros ln. rewrite Hl. cbn [ofhdr app fields_len]. change (N.of_nat 1) with 1. change (N.of_nat 2) with 2. change (N.of_nat 4) with 4. lia. }
  split; [|split; [|split]].
  - rewrite norm_msg by exact Hw. cbn [map]. f_equal. cbn [glen]. rewrite Hr, Hro. unfold hdr.
    rewrite (Hfl 8). cbn [map sumN fold_right]. rewrite HL. replace (8 + fields_len l' vals + 0) with (8 + fields_len l' vals) by lia. reflexivity.
  - rewrite (wire_msg k ty L xid l' vals [] Hl Ha). cbn [flat_map]. rewrite app_nil_r. reflexivity.
  - unfold Walk.blen. rewrite (enc_fields_len l' vals) by (apply vals_ok_shape, Hv).
    lia.
  - pose proof (sfields_enc l' vals [] Hp Hv) as H. rewrite app_nil_r in H. exact H.
Qed.

Lemma msg_form k ty xid l' vals kids :
  layout k = ofhdr ++ l' -> align8 k = false -> writeback k = Some 2%nat -> lenrule_of k = LComputed -> lenround k = false ->
  let L := 8 + fields_len l' vals + sumN (map glen (map norm kids)) in
  norm (T k (hdr ty xid ++ vals) kids) = T k ([VN 4; VN ty; VN L; VN xid] ++ vals) (map norm kids) /\
  wire (T k ([VN 4; VN ty; VN L; VN xid] ++ vals) (map norm kids)) = msgbytes ty L xid (enc_fields l' vals ++ flat_map wire (map norm kids)).
Proof.
  intros Hl Ha Hw Hr Hro L. split.
  - rewrite norm_msg by exact Hw. f_equal. cbn [glen]. rewrite Hr, Hro, Hl. unfold hdr. cbn [ofhdr app fields_len].
    change (N.of_nat 1) with 1. change (N.of_nat 2) with 2. change (N.of_nat 4) with 4. subst L.
    replace (1 + (1 + (2 + (4 + fields_len l' vals))) + sumN (map glen (map norm kids))) with (8 + fields_len l' vals + sumN (map glen (map norm kids))) by lia.
    reflexivity.
  - apply wire_msg; assumption.
Qed.

(* header-only messages *)
Lemma sdec_header_only ty xid fuel rest : existsb (N.eqb ty) [2; 3; 5; 7; 20] = true -> xid < 4294967296 ->
  sdec_msg (S fuel) (wire (norm (build_m xid (MHeader ty))) ++ rest) = Some (canon (norm (build_m xid (MHeader ty))), rest).
Proof.
  intros Hty Hx. cbn [build_m].
  replace (norm (T KHeaderOnly (hdr ty xid) [])) with (T KHeaderOnly (hdr ty xid) []) by reflexivity.
  cbn [canon map]. 
  assert (Hw : wire (T KHeaderOnly (hdr ty xid) []) = msgbytes ty 8 xid []).
  { unfold hdr. replace [VN 4; VN ty; VN 8; VN xid] with ([VN 4; VN ty; VN 8; VN xid] ++ []) by apply app_nil_r.
    rewrite (wire_msg KHeaderOnly ty 8 xid [] [] [] eq_refl eq_refl). reflexivity. }
  rewrite Hw. cbn [existsb] in Hty. rewrite sdec_msg_prologue; try lia; [|reflexivity].
  cbv zeta. replace (ty =? 0) with false by lia.
  replace ((ty =? 2) || (ty =? 3) || (ty =? 5) || (ty =? 7) || (ty =? 20)) with true by lia.
  reflexivity.
Qed.

(* set-config *)
Lemma sdec_setconfig f ms xid fuel rest : f < 65536 -> ms < 65536 -> xid < 4294967296 ->
  sdec_msg (S fuel) (wire (norm (build_m xid (MSetConfig f ms))) ++ rest) = Some (canon (norm (build_m xid (MSetConfig f ms))), rest).
Proof.
  intros Hf Hm Hx. cbn [build_m].
  assert (Hv : vals_ok [FU 2; FU 2] [VN f; VN ms] = true).
  { cbn [vals_ok]. change (256 ^ N.of_nat 2) with 65536. replace (f <? 65536) with true by lia. replace (ms <? 65536) with true by lia. reflexivity. }
  destruct (sdec_simple_msg KSwitchConfig 9 xid [FU 2; FU 2] [VN f; VN ms] eq_refl eq_refl eq_refl eq_refl eq_refl eq_refl Hv
              ltac:(lia) Hx 12 eq_refl ltac:(lia)) as (Hn & Hw & Hb & Hs).
  rewrite Hn. cbn [canon map]. rewrite Hw. rewrite sdec_msg_prologue; try lia; try exact Hb.
  cbv zeta. cbn [N.eqb Pos.eqb orb]. rewrite Hs. cbn [obind guard]. reflexivity.
Qed.

(* the experimenter messages with a fixed body *)
Lemma sdec_setcontrollerid id xid fuel rest : id < 65536 -> xid < 4294967296 ->
  sdec_msg (S fuel) (wire (norm (build_m xid (MSetControllerID id))) ++ rest) = Some (canon (norm (build_m xid (MSetControllerID id))), rest).
Proof.
  intros Hi Hx. cbn [build_m].
  destruct (msg_form KVendor 4 xid [FU 4; FU 4] [VN NXID; VN 20] [T KControllerID [VN id] []] eq_refl eq_refl eq_refl eq_refl eq_refl) as [Hn Hw].
  rewrite Hn, Hw. cbn [canon map norm writeback flat_map wire layout enc_fields align8 fields_len glen lenrule_of lenround sumN fold_right].
  rewrite !app_nil_r. change (N.of_nat 2) with 2. change (N.of_nat 4) with 4. change (N.of_nat 6) with 6.
  replace (8 + (4 + (4 + 0)) + (6 + (2 + 0) + 0 + 0)) with 24 by reflexivity.
  rewrite sdec_msg_prologue; try lia; [|unfold Walk.blen; rewrite !app_length, !length_be_bytes, length_zeros; reflexivity].
  cbv zeta. cbn [N.eqb Pos.eqb orb]. rewrite <- !app_assoc.
  change (be_bytes 4 NXID ++ be_bytes 4 20 ++ zeros 6 ++ be_bytes 2 id) with (enc_fields [FU 4; FU 4] [VN NXID; VN 20] ++ (zeros 6 ++ be_bytes 2 id)).
  rewrite sfields_enc by reflexivity. cbn [obind]. unfold NX_VENDOR, NXID. cbn [N.eqb Pos.eqb].
  change (zeros 6 ++ be_bytes 2 id) with (enc_fields [FZ 6; FU 2] [VN id] ++ []).
  rewrite sfields_enc; [|reflexivity|cbn [vals_ok]; change (256 ^ N.of_nat 2) with 65536; replace (id <? 65536) with true by lia; reflexivity].
  cbn [obind guard]. reflexivity.
Qed.

Lemma sdec_bundlectrl id ty fl xid fuel rest : id < 4294967296 -> ty < 65536 -> fl < 65536 -> xid < 4294967296 ->
  sdec_msg (S fuel) (wire (norm (build_m xid (MBundleCtrl id ty fl))) ++ rest) = Some (canon (norm (build_m xid (MBundleCtrl id ty fl))), rest).
Proof.
  intros Hi Ht Hf Hx. cbn [build_m].
  destruct (msg_form KVendor 4 xid [FU 4; FU 4] [VN 1330529792; VN 2300] [T KBundleCtrl [VN id; VN ty; VN fl] []] eq_refl eq_refl eq_refl eq_refl eq_refl) as [Hn Hw].
  rewrite Hn, Hw. cbn [canon map norm writeback flat_map wire layout enc_fields align8 fields_len glen lenrule_of lenround sumN fold_right].
  rewrite !app_nil_r. change (N.of_nat 2) with 2. change (N.of_nat 4) with 4.
  replace (8 + (4 + (4 + 0)) + (4 + (2 + (2 + 0)) + 0 + 0)) with 24 by reflexivity.
  rewrite sdec_msg_prologue; try lia; [|unfold Walk.blen; rewrite !app_length, !length_be_bytes; reflexivity].
  cbv zeta. cbn [N.eqb Pos.eqb orb]. rewrite <- !app_assoc.
  change (be_bytes 4 1330529792 ++ be_bytes 4 2300 ++ be_bytes 4 id ++ be_bytes 2 ty ++ be_bytes 2 fl)
    with (enc_fields [FU 4; FU 4] [VN 1330529792; VN 2300] ++ (be_bytes 4 id ++ be_bytes 2 ty ++ be_bytes 2 fl)).
  rewrite sfields_enc by reflexivity. cbn [obind]. unfold NX_VENDOR, ONF_VENDOR. cbn [N.eqb Pos.eqb].
  change (be_bytes 4 id ++ be_bytes 2 ty ++ be_bytes 2 fl) with (enc_fields [FU 4; FU 2; FU 2] [VN id; VN ty; VN fl] ++ []).
  rewrite sfields_enc; [|reflexivity|].
  2:{ cbn [vals_ok]. change (256 ^ N.of_nat 2) with 65536. change (256 ^ N.of_nat 4) with 4294967296.
      replace (id <? 4294967296) with true by lia. replace (ty <? 65536) with true by lia. replace (fl <? 65536) with true by lia. reflexivity. }
  cbn [obind guard]. reflexivity.
Qed.

Lemma sdec_tlvtablereq xid fuel rest : xid < 4294967296 ->
  sdec_msg (S fuel) (wire (norm (build_m xid MTlvTableReq)) ++ rest) = Some (canon (norm (build_m xid MTlvTableReq)), rest).
Proof.
  intros Hx. cbn [build_m].
  destruct (msg_form KVendor 4 xid [FU 4; FU 4] [VN NXID; VN 25] [] eq_refl eq_refl eq_refl eq_refl eq_refl) as [Hn Hw].
  rewrite Hn, Hw. cbn [canon map flat_map enc_fields fields_len sumN fold_right].
  rewrite !app_nil_r. change (N.of_nat 4) with 4. replace (8 + (4 + (4 + 0)) + 0) with 16 by reflexivity.
  rewrite sdec_msg_prologue; try lia; [|reflexivity].
  cbv zeta. cbn [N.eqb Pos.eqb orb].
  change (be_bytes 4 NXID ++ be_bytes 4 25) with (enc_fields [FU 4; FU 4] [VN NXID; VN 25] ++ []).
  rewrite sfields_enc by reflexivity. cbn [obind]. unfold NX_VENDOR, NXID. cbn [N.eqb Pos.eqb guard obind]. reflexivity.
Qed.

Lemma sdec_hello xid fuel rest : xid < 4294967296 ->
  sdec_msg (S fuel) (wire (norm (build_m xid MHello)) ++ rest) = Some (canon (norm (build_m xid MHello)), rest).
Proof.
  intros Hx. cbn [build_m].
  replace (hdr 0 xid) with (hdr 0 xid ++ []) by apply app_nil_r.
  destruct (msg_form KHello 0 xid [] [] [T KHelloElemBitmap [VN 1; VN 8; VB (be32 18)] []] eq_refl eq_refl eq_refl eq_refl eq_refl) as [Hn Hw].
  set (E := T KHelloElemBitmap [VN 1; VN 8; VB (be32 18)] []) in *.
  assert (HL : 8 + fields_len [] [] + sumN (map glen (map norm [E])) = 16) by reflexivity.
  assert (HB : enc_fields [] [] ++ flat_map wire (map norm [E]) = be_bytes 2 1 ++ be_bytes 2 8 ++ be32 18) by reflexivity.
  assert (HN : map norm [E] = [E]) by reflexivity.
  rewrite HL, HB, HN in *. rewrite Hn, Hw. cbn [canon map]. rewrite !app_nil_r. subst E. cbn [canon map].
  rewrite sdec_msg_prologue; try lia; [|reflexivity].
  cbv zeta. cbn [N.eqb]. 
  replace (sdec_hello_elems (S (length (be_bytes 2 1 ++ be_bytes 2 8 ++ be32 18))) (be_bytes 2 1 ++ be_bytes 2 8 ++ be32 18))
    with (Some [T KHelloElemBitmap [VN 1; VN 8; VB (be32 18)] []]) by (vm_compute; reflexivity).
  reflexivity.
Qed.

(* port-mod: the hardware address slot is seen at its fixed width *)
Lemma sdec_portmod p hw c mk adv xid fuel rest : p < 4294967296 -> c < 4294967296 -> mk < 4294967296 -> adv < 4294967296 -> xid < 4294967296 ->
  sdec_msg (S fuel) (wire (norm (build_m xid (MPortMod p hw c mk adv))) ++ rest) = Some (canon (norm (build_m xid (MPortMod p hw c mk adv))), rest).
Proof.
  intros Hp Hc Hm Ha Hx. cbn [build_m].
  destruct (msg_form KPortMod 16 xid [FU 4; FZ 4; FB 6; FZ 2; FU 4; FU 4; FU 4; FZ 4] [VN p; VB hw; VN c; VN mk; VN adv] [] eq_refl eq_refl eq_refl eq_refl eq_refl) as [Hn Hw].
  rewrite Hn, Hw. cbn [canon map flat_map enc_fields fields_len sumN fold_right app].
  rewrite !app_nil_r. change (N.of_nat 2) with 2. change (N.of_nat 4) with 4. change (N.of_nat 6) with 6.
  replace (8 + (4 + (4 + (6 + (2 + (4 + (4 + (4 + (4 + 0)))))))) + 0) with 40 by reflexivity.
  rewrite sdec_msg_prologue; try lia.
  2:{ unfold Walk.blen. rewrite !app_length, !length_be_bytes, !length_zeros, length_fit. reflexivity. }
  cbv zeta. cbn [N.eqb Pos.eqb orb].
  cbn [sfields]. rewrite num_be by (change (256 ^ N.of_nat 4) with 4294967296; lia). cbn [obind].
  rewrite (take_zeros_pad 4). cbn [obind]. rewrite all_zero_zeros. cbn [guard obind].
  rewrite (take_fit 6). cbn [obind]. rewrite (take_zeros_pad 2). cbn [obind]. rewrite all_zero_zeros. cbn [guard obind].
  rewrite num_be by (change (256 ^ N.of_nat 4) with 4294967296; lia). cbn [obind].
  rewrite num_be by (change (256 ^ N.of_nat 4) with 4294967296; lia). cbn [obind].
  assert (Hl : forall X, num 4 (be_bytes 4 adv ++ X) = Some (adv, X)) by (intros X; apply num_be; change (256 ^ N.of_nat 4) with 4294967296; lia).
  rewrite Hl. cbn [obind].
  pose proof (take_zeros_pad 4 []) as Hz. rewrite app_nil_r in Hz. rewrite Hz. cbn [obind]. rewrite all_zero_zeros. cbn [guard obind]. reflexivity.
Qed.

(* tlv-table-mod: a list of 8-byte maps *)
Definition mk_map (p : N * N * N * N) : tree := let '(c, t, l, i) := p in T KTlvMap [VN c; VN t; VN l; VN i] [].
Definition map_ok (p : N * N * N * N) : bool := let '(c, t, l, i) := p in (c <? 65536) && (t <? 256) && (l <? 256) && (i <? 65536).

Lemma wire_mk_map p : wire (mk_map p) = enc_fields [FU 2; FU 1; FU 1; FU 2; FZ 2] (tvals (mk_map p)) /\ length (wire (mk_map p)) = 8%nat.
Proof. destruct p as [[[c t] l] i]. cbn [mk_map wire layout enc_fields align8 flat_map tvals]. rewrite !app_nil_r. split; reflexivity. Qed.

Lemma sdec_tlvmaps_built maps : forallb map_ok maps = true ->
  forall fuel, (length maps < fuel)%nat ->
  sdec_tlvmaps fuel (flat_map wire (map mk_map maps)) = Some (map mk_map maps).
Proof.
  induction maps as [|p r IH]; intros H fuel Hf; cbn [map flat_map forallb length] in *.
  - destruct fuel; [lia|reflexivity].
  - apply andb_true_iff in H as [Hp Hr]. destruct fuel as [|fuel]; [lia|]. cbn [sdec_tlvmaps].
    destruct (wire_mk_map p) as [Hw Hl]. 
    destruct (wire (mk_map p) ++ flat_map wire (map mk_map r)) as [|b0 l0] eqn:E.
    { apply (f_equal (@length byte)) in E. rewrite app_length, Hl in E. discriminate. }
    rewrite <- E, Hw. destruct p as [[[c t] l] i]. cbn [mk_map tvals map_ok] in *.
    repeat (apply andb_true_iff in Hp as [Hp ?]).
    rewrite sfields_enc; [|reflexivity|].
    2:{ cbn [vals_ok]. change (256 ^ N.of_nat 1) with 256. change (256 ^ N.of_nat 2) with 65536.
        repeat (apply andb_true_iff; split); try assumption; reflexivity. }
    cbn [obind]. rewrite IH by (try exact Hr; lia). reflexivity.
Qed.

Lemma norm_mk_maps maps : map norm (map mk_map maps) = map mk_map maps.
Proof. induction maps as [|[[[c t] l] i] r IH]; cbn [map]; [reflexivity|]. rewrite IH. reflexivity. Qed.
Lemma canon_mk_maps maps : map canon (map mk_map maps) = map mk_map maps.
Proof. induction maps as [|[[[c t] l] i] r IH]; cbn [map]; [reflexivity|]. rewrite IH. reflexivity. Qed.
Lemma glen_mk_maps maps : sumN (map glen (map mk_map maps)) = 8 * N.of_nat (length maps).
Proof. induction maps as [|[[[c t] l] i] r IH]; cbn [map sumN fold_right length]; [reflexivity|]. unfold sumN in IH. rewrite IH. cbn [mk_map glen lenrule_of layout fields_len lenround align8 map sumN fold_right]. lia. Qed.
Lemma len_mk_maps maps : length (flat_map wire (map mk_map maps)) = (8 * length maps)%nat.
Proof. induction maps as [|p r IH]; cbn [map flat_map length]; [reflexivity|]. rewrite app_length, IH. destruct (wire_mk_map p) as [_ Hl]. rewrite Hl. lia. Qed.

Lemma sdec_tlvtablemod cmd maps xid fuel rest : cmd < 65536 -> forallb map_ok maps = true -> N.of_nat (length maps) < 8000 -> xid < 4294967296 ->
  sdec_msg (S fuel) (wire (norm (build_m xid (MTlvTableMod cmd maps))) ++ rest) = Some (canon (norm (build_m xid (MTlvTableMod cmd maps))), rest).
Proof.
  intros Hc Hm Hsz Hx. cbn [build_m]. fold mk_map.
  change (map (fun p : N * N * N * N => let '(c, t, l, i) := p in T KTlvMap [VN c; VN t; VN l; VN i] []) maps) with (map mk_map maps).
  destruct (msg_form KVendor 4 xid [FU 4; FU 4] [VN NXID; VN 24] [T KTlvTableMod [VN cmd] (map mk_map maps)] eq_refl eq_refl eq_refl eq_refl eq_refl) as [Hn Hw].
  rewrite Hn, Hw. clear Hn Hw.
  cbn [canon map norm writeback flat_map wire layout enc_fields align8 fields_len glen lenrule_of lenround sumN fold_right].
  rewrite norm_mk_maps, canon_mk_maps, glen_mk_maps. rewrite !app_nil_r.
  change (N.of_nat 2) with 2. change (N.of_nat 4) with 4. change (N.of_nat 6) with 6.
  set (X := flat_map wire (map mk_map maps)). pose proof (len_mk_maps maps) as HX. fold X in HX.
  set (L := 8 + (4 + (4 + 0)) + (2 + (6 + 0) + 8 * N.of_nat (length maps) + 0)).
  rewrite sdec_msg_prologue; try (subst L; lia).
  2:{ unfold Walk.blen. rewrite !app_length, !length_be_bytes, length_zeros, HX. subst L. lia. }
  cbv zeta. cbn [N.eqb Pos.eqb orb]. rewrite <- !app_assoc.
  change (be_bytes 4 NXID ++ be_bytes 4 24 ++ be_bytes 2 cmd ++ zeros 6 ++ X)
    with (enc_fields [FU 4; FU 4] [VN NXID; VN 24] ++ (be_bytes 2 cmd ++ zeros 6 ++ X)).
  rewrite sfields_enc by reflexivity. cbn [obind]. unfold NX_VENDOR, NXID. cbn [N.eqb Pos.eqb].
  change (be_bytes 2 cmd ++ zeros 6 ++ X) with (enc_fields [FU 2; FZ 6] [VN cmd] ++ X).
  rewrite sfields_enc; [|reflexivity|cbn [vals_ok]; change (256 ^ N.of_nat 2) with 65536; replace (cmd <? 65536) with true by lia; reflexivity].
  cbn [obind]. unfold X. rewrite sdec_tlvmaps_built by (try exact Hm; rewrite len_mk_maps; lia). cbn [obind]. reflexivity.
Qed.

(* multipart requests *)
Lemma norm_build_match fs : norm (build_match fs) = build_match fs /\ canon (build_match fs) = build_match fs.
Proof.
  unfold build_match. cbn [norm writeback canon]. split; f_equal.
  - induction fs as [|f r IH]; cbn [map]; [reflexivity|]. rewrite norm_build_mf, IH. reflexivity.
  - induction fs as [|f r IH]; cbn [map]; [reflexivity|]. rewrite IH. f_equal.
    destruct f as [ctor v m|idx data rng|idx data mask|d m]; cbn [build_mf];
      [destruct (mf_table ctor) as [[[[c0 f0] w0] fl0]|]; [destruct m|]|destruct rng as [[s e]|]| |]; reflexivity.
Qed.

Lemma build_match_size fs : match_ok fs = true ->
  glen (build_match fs) = N.of_nat (length (wire (build_match fs))) /\ glen (build_match fs) < 65544.
Proof.
  intros H. apply andb_true_iff in H as [Hf Hl].
  assert (Hc : consistent (build_match fs) = true).
  { unfold build_match. rewrite consistent_unfold. rewrite (forallb_map_true build_mf fs build_mf_ok), andb_true_r.
    unfold own_ok. cbn [layout vals_shape lenrule_of andb]. reflexivity. }
  split; [apply glen_size, Hc|].
  unfold build_match. cbn [glen lenrule_of layout fields_len lenround align8]. change (N.of_nat 2) with 2.
  pose proof (round8_ge (2 + (2 + 0) + sumN (map glen (map build_mf fs)))). lia.
Qed.

Definition body_ok (ty : N) (b : mpbody) : bool :=
  match b with
  | BNone => (ty =? 0) || (ty =? 3)
  | BFlow t p g c m fs => (ty =? 1) && (t <? 256) && (p <? 4294967296) && (g <? 4294967296) && (c <? 18446744073709551616) && (m <? 18446744073709551616) && match_ok fs && (glen (build_match fs) <? 65000)
  | BAgg t p g c m fs => (ty =? 2) && (t <? 256) && (p <? 4294967296) && (g <? 4294967296) && (c <? 18446744073709551616) && (m <? 18446744073709551616) && match_ok fs && (glen (build_match fs) <? 65000)
  | _ => false
  end.

Lemma sdec_flowreq k t p g c m fs : (k = KFlowStatsReq \/ k = KAggStatsReq) ->
  t < 256 -> p < 4294967296 -> g < 4294967296 -> c < 18446744073709551616 -> m < 18446744073709551616 -> match_ok fs = true ->
  let kid := T k [VN t; VN p; VN g; VN c; VN m] [build_match fs] in
  norm kid = kid /\ canon kid = kid /\ glen kid = 32 + glen (build_match fs) /\
  N.of_nat (length (wire kid)) = 32 + glen (build_match fs) /\
  sdec_mp_body (match k with KFlowStatsReq => 1 | _ => 2 end) (wire kid) = Some [kid].
Proof.
  intros Hk Ht Hp Hg Hc Hm Hfs kid. destruct (norm_build_match fs) as [Hn Hcn]. destruct (build_match_size fs Hfs) as [Hsz _].
  assert (Hw : wire kid = enc_fields [FU 1; FZ 3; FU 4; FU 4; FZ 4; FU 8; FU 8] [VN t; VN p; VN g; VN c; VN m] ++ wire (build_match fs)).
  { subst kid. destruct Hk as [-> | ->]; cbn [wire layout align8 flat_map]; rewrite app_nil_r; reflexivity. }
  repeat split.
  - subst kid. destruct Hk as [-> | ->]; cbn [norm writeback map]; rewrite Hn; reflexivity.
  - subst kid. destruct Hk as [-> | ->]; cbn [canon map]; rewrite Hcn; reflexivity.
  - subst kid. destruct Hk as [-> | ->]; cbn [glen lenrule_of layout fields_len lenround align8 map sumN fold_right];
      change (N.of_nat 1) with 1; change (N.of_nat 3) with 3; change (N.of_nat 4) with 4; change (N.of_nat 8) with 8; lia.
  - rewrite Hw, app_length, Nat2N.inj_add, <- Hsz. 
    replace (length (enc_fields [FU 1; FZ 3; FU 4; FU 4; FZ 4; FU 8; FU 8] [VN t; VN p; VN g; VN c; VN m])) with 32%nat by reflexivity. lia.
  - unfold sdec_mp_body. replace (((match k with KFlowStatsReq => 1 | _ => 2 end) =? 0) || ((match k with KFlowStatsReq => 1 | _ => 2 end) =? 3)) with false by (destruct Hk as [-> | ->]; reflexivity).
    replace (((match k with KFlowStatsReq => 1 | _ => 2 end) =? 1) || ((match k with KFlowStatsReq => 1 | _ => 2 end) =? 2)) with true by (destruct Hk as [-> | ->]; reflexivity).
    rewrite Hw. rewrite sfields_enc; [|reflexivity|].
    2:{ cbn [vals_ok]. change (256 ^ N.of_nat 1) with 256. change (256 ^ N.of_nat 4) with 4294967296. change (256 ^ N.of_nat 8) with 18446744073709551616.
        replace (t <? 256) with true by lia. replace (p <? 4294967296) with true by lia. replace (g <? 4294967296) with true by lia.
        replace (c <? 18446744073709551616) with true by lia. replace (m <? 18446744073709551616) with true by lia. reflexivity. }
    cbn [obind]. pose proof (sdec_built_match fs [] Hfs) as Hd. rewrite app_nil_r in Hd. rewrite Hd. cbn [obind guard].
    subst kid. destruct Hk as [-> | ->]; reflexivity.
Qed.

Lemma sdec_multipart ty fl b xid fuel rest : body_ok ty b = true -> fl < 65536 -> xid < 4294967296 ->
  sdec_msg (S fuel) (wire (norm (build_m xid (MMultipart ty fl b))) ++ rest) = Some (canon (norm (build_m xid (MMultipart ty fl b))), rest).
Proof.
  intros Hb Hfl Hx. cbn [build_m].
  destruct (msg_form KMultipartReq 18 xid [FU 2; FU 2; FZ 4] [VN ty; VN fl] (build_body b) eq_refl eq_refl eq_refl eq_refl eq_refl) as [Hn Hw].
  rewrite Hn, Hw. clear Hn Hw. cbn [canon fields_len enc_fields]. change (N.of_nat 2) with 2. change (N.of_nat 4) with 4.
  destruct b as [|t p g c m fs|t p g c m fs|p|p q]; cbn [body_ok build_body] in *; try discriminate.
  - (* no body *)
    cbn [map flat_map sumN fold_right]. rewrite !app_nil_r.
    replace (8 + (2 + (2 + (4 + 0))) + 0) with 16 by reflexivity.
    rewrite sdec_msg_prologue; try lia; [|reflexivity].
    cbv zeta. cbn [N.eqb Pos.eqb orb].
    change (be_bytes 2 ty ++ be_bytes 2 fl ++ zeros 4) with (enc_fields [FU 2; FU 2; FZ 4] [VN ty; VN fl] ++ []).
    rewrite sfields_enc; [|reflexivity|cbn [vals_ok]; change (256 ^ N.of_nat 2) with 65536; replace (ty <? 65536) with true by lia; replace (fl <? 65536) with true by lia; reflexivity].
    cbn [obind]. unfold sdec_mp_body. rewrite Hb. reflexivity.
  - (* flow statistics request *)
    repeat (apply andb_true_iff in Hb as [Hb ?]). apply N.eqb_eq in Hb. subst ty.
    destruct (sdec_flowreq KFlowStatsReq t p g c m fs (or_introl eq_refl)) as (Hkn & Hkc & Hkg & Hkl & Hkd); try lia; try assumption.
    match goal with Hx : match_ok fs = true |- _ => destruct (build_match_size fs Hx) as [_ Hms] end.
    set (kid := T KFlowStatsReq [VN t; VN p; VN g; VN c; VN m] [build_match fs]) in *.
    cbn [map flat_map sumN fold_right]. rewrite Hkn, Hkc, Hkg, !app_nil_r.
    set (L := 8 + (2 + (2 + (4 + 0))) + (32 + glen (build_match fs) + 0)).
    rewrite sdec_msg_prologue; try (subst L; lia).
    2:{ unfold Walk.blen. rewrite !app_length, !length_be_bytes, length_zeros. subst L. cbn [length]. lia. }
    cbv zeta. cbn [N.eqb Pos.eqb orb]. rewrite <- !app_assoc.
    change (be_bytes 2 1 ++ be_bytes 2 fl ++ zeros 4 ++ wire kid) with (enc_fields [FU 2; FU 2; FZ 4] [VN 1; VN fl] ++ wire kid).
    rewrite sfields_enc; [|reflexivity|cbn [vals_ok]; change (256 ^ N.of_nat 2) with 65536; replace (fl <? 65536) with true by lia; reflexivity].
    cbn [obind]. cbn [N.eqb] in Hkd. rewrite Hkd. reflexivity.
  - (* aggregate statistics request *)
    repeat (apply andb_true_iff in Hb as [Hb ?]). apply N.eqb_eq in Hb. subst ty.
    destruct (sdec_flowreq KAggStatsReq t p g c m fs (or_intror eq_refl)) as (Hkn & Hkc & Hkg & Hkl & Hkd); try lia; try assumption.
    match goal with Hx : match_ok fs = true |- _ => destruct (build_match_size fs Hx) as [_ Hms] end.
    set (kid := T KAggStatsReq [VN t; VN p; VN g; VN c; VN m] [build_match fs]) in *.
    cbn [map flat_map sumN fold_right]. rewrite Hkn, Hkc, Hkg, !app_nil_r.
    set (L := 8 + (2 + (2 + (4 + 0))) + (32 + glen (build_match fs) + 0)).
    rewrite sdec_msg_prologue; try (subst L; lia).
    2:{ unfold Walk.blen. rewrite !app_length, !length_be_bytes, length_zeros. subst L. cbn [length]. lia. }
    cbv zeta. cbn [N.eqb Pos.eqb orb]. rewrite <- !app_assoc.
    change (be_bytes 2 2 ++ be_bytes 2 fl ++ zeros 4 ++ wire kid) with (enc_fields [FU 2; FU 2; FZ 4] [VN 2; VN fl] ++ wire kid).
    rewrite sfields_enc; [|reflexivity|cbn [vals_ok]; change (256 ^ N.of_nat 2) with 65536; replace (fl <? 65536) with true by lia; reflexivity].
    cbn [obind]. cbn [N.eqb] in Hkd. rewrite Hkd. reflexivity.
Qed.

(* ---------------------------------------------------------------- messages with lists *)
Lemma norm_len t : consistent t = true -> glen (norm t) = glen t /\ N.of_nat (length (wire (norm t))) = glen t.
Proof.
  intros Hc. destruct (norm_keeps _ (consistent_shaped _ Hc)) as (_ & Hs & Hg). split; [exact Hg|].
  unfold size in Hs. rewrite Hs. symmetry. apply glen_size, Hc.
Qed.

Lemma sum_norm l : forallb consistent l = true ->
  sumN (map glen (map norm l)) = sumN (map glen l) /\ N.of_nat (length (flat_map wire (map norm l))) = sumN (map glen l).
Proof.
  induction l as [|t r IH]; intros H; cbn [map flat_map forallb sumN fold_right] in *; [split; reflexivity|].
  apply andb_true_iff in H as [Ht Hr]. destruct (IH Hr) as [I1 I2]. destruct (norm_len t Ht) as [N1 N2].
  unfold sumN in *. rewrite N1, I1, app_length, Nat2N.inj_add, N2, I2. split; reflexivity.
Qed.

Lemma instr_ok_wf i : instr_ok i = true -> wf_i i = true.
Proof.
  destruct i as [t|m mask|calls|calls]; cbn [instr_ok wf_i]; intros H; try reflexivity;
    apply andb_true_iff in H as [H _]; unfold wf_calls; rewrite forallb_forall in *; intros x Hx; apply act_ok_wf, H, Hx.
Qed.
Lemma bucket_ok_wf b : bucket_ok b = true -> wf_b b = true.
Proof.
  destruct b as [w p g acts]. cbn [bucket_ok wf_b]. intros H. repeat (apply andb_true_iff in H as [H ?]).
  match goal with Hx : forallb act_ok acts = true |- _ => rename Hx into Ha end.
  rewrite forallb_forall in *. intros x Hx. apply act_ok_wf, Ha, Hx.
Qed.

Lemma forallb_impl {A} (p q : A -> bool) l : (forall x, p x = true -> q x = true) -> forallb p l = true -> forallb q l = true.
Proof. intros Hpq H. rewrite forallb_forall in *. intros x Hx. apply Hpq, H, Hx. Qed.

Definition flowmod_ok (c cm t cmd idle hard prio buf op og fl : N) (fs : list mfrec) (is : list irec) : bool :=
  (c <? 18446744073709551616) && (cm <? 18446744073709551616) && (t <? 256) && (cmd <? 256) && (idle <? 65536) && (hard <? 65536) &&
  (prio <? 65536) && (buf <? 4294967296) && (op <? 4294967296) && (og <? 4294967296) && (fl <? 65536) &&
  match_ok fs && forallb instr_ok is &&
  (glen (build_match fs) + sumN (map glen (map build_i is)) <? 65000).

Lemma sdec_flowmod c cm t cmd idle hard prio buf op og fl fs is xid fuel rest :
  flowmod_ok c cm t cmd idle hard prio buf op og fl fs is = true -> xid < 4294967296 ->
  sdec_msg (S fuel) (wire (norm (build_m xid (MFlowMod c cm t cmd idle hard prio buf op og fl fs is))) ++ rest) =
  Some (canon (norm (build_m xid (MFlowMod c cm t cmd idle hard prio buf op og fl fs is))), rest).
Proof.
  intros H Hx. unfold flowmod_ok in H. repeat (apply andb_true_iff in H as [H ?]).
  match goal with Hm : match_ok fs = true |- _ => rename Hm into Hfs end.
  match goal with Hm : forallb instr_ok is = true |- _ => rename Hm into His end.
  cbn [build_m].
  set (vals := [VN c; VN cm; VN t; VN cmd; VN idle; VN hard; VN prio; VN buf; VN op; VN og; VN fl]).
  set (l' := [FU 8; FU 8; FU 1; FU 1; FU 2; FU 2; FU 2; FU 4; FU 4; FU 4; FU 2; FZ 2]).
  destruct (msg_form KFlowMod 14 xid l' vals (build_match fs :: map build_i is) eq_refl eq_refl eq_refl eq_refl eq_refl) as [Hn Hw].
  rewrite Hn, Hw. clear Hn Hw.
  destruct (norm_build_match fs) as [Hmn Hmc]. destruct (build_match_size fs Hfs) as [Hms _].
  assert (Hci : forallb consistent (map build_i is) = true).
  { clear - His. induction is as [|i r IH]; cbn [map forallb] in *; [reflexivity|]. apply andb_true_iff in His as [Hi Hr].
    rewrite (build_i_ok i (instr_ok_wf i Hi)), (IH Hr). reflexivity. }
  destruct (sum_norm _ Hci) as [Hs1 Hs2].
  cbn [map flat_map sumN fold_right canon]. rewrite Hmn, Hmc. fold (sumN (map glen (map norm (map build_i is)))). rewrite Hs1.
  set (X := flat_map wire (map norm (map build_i is))) in *.
  set (F := enc_fields l' vals). assert (HF : length F = 40%nat) by reflexivity.
  replace (fields_len l' vals) with 40 by reflexivity.
  set (L := 8 + 40 + (glen (build_match fs) + sumN (map glen (map build_i is)))).
  rewrite sdec_msg_prologue; try (subst L; lia).
  2:{ unfold Walk.blen. rewrite !app_length, HF. subst L. lia. }
  cbv zeta. cbn [N.eqb Pos.eqb orb]. subst F. fold l'.
  rewrite sfields_enc; [|reflexivity|].
  2:{ subst vals l'. cbn [vals_ok]. change (256 ^ N.of_nat 1) with 256. change (256 ^ N.of_nat 2) with 65536. change (256 ^ N.of_nat 4) with 4294967296. change (256 ^ N.of_nat 8) with 18446744073709551616.
      repeat (apply andb_true_iff; split); try assumption; reflexivity. }
  cbn [obind]. rewrite sdec_built_match by exact Hfs. cbn [obind].
  unfold X. rewrite sdec_instrs_built by (try exact His; lia). cbn [obind]. reflexivity.
Qed.

Definition groupmod_ok (cmd ty g : N) (bs : list brec) : bool :=
  (cmd <? 65536) && (ty <? 256) && (g <? 4294967296) && forallb bucket_ok bs && (sumN (map glen (map build_b bs)) <? 65000).

Lemma sdec_groupmod cmd ty g bs xid fuel rest : groupmod_ok cmd ty g bs = true -> xid < 4294967296 ->
  sdec_msg (S fuel) (wire (norm (build_m xid (MGroupMod cmd ty g bs))) ++ rest) = Some (canon (norm (build_m xid (MGroupMod cmd ty g bs))), rest).
Proof.
  intros H Hx. unfold groupmod_ok in H. repeat (apply andb_true_iff in H as [H ?]).
  match goal with Hm : forallb bucket_ok bs = true |- _ => rename Hm into Hbs end.
  cbn [build_m].
  set (vals := [VN cmd; VN ty; VN 0; VN g]). set (l' := [FU 2; FU 1; FU 1; FU 4]).
  destruct (msg_form KGroupMod 15 xid l' vals (map build_b bs) eq_refl eq_refl eq_refl eq_refl eq_refl) as [Hn Hw].
  rewrite Hn, Hw. clear Hn Hw.
  assert (Hcb : forallb consistent (map build_b bs) = true).
  { clear - Hbs. induction bs as [|b r IH]; cbn [map forallb] in *; [reflexivity|]. apply andb_true_iff in Hbs as [Hb Hr].
    rewrite (build_b_ok b (bucket_ok_wf b Hb)), (IH Hr). reflexivity. }
  destruct (sum_norm _ Hcb) as [Hs1 Hs2]. cbn [canon]. rewrite Hs1.
  set (X := flat_map wire (map norm (map build_b bs))) in *.
  set (F := enc_fields l' vals). assert (HF : length F = 8%nat) by reflexivity.
  replace (fields_len l' vals) with 8 by reflexivity.
  set (L := 8 + 8 + sumN (map glen (map build_b bs))).
  rewrite sdec_msg_prologue; try (subst L; lia).
  2:{ unfold Walk.blen. rewrite !app_length, HF. subst L. lia. }
  cbv zeta. cbn [N.eqb Pos.eqb orb]. subst F. fold l'.
  rewrite sfields_enc; [|reflexivity|].
  2:{ subst vals l'. cbn [vals_ok]. change (256 ^ N.of_nat 1) with 256. change (256 ^ N.of_nat 2) with 65536. change (256 ^ N.of_nat 4) with 4294967296.
      repeat (apply andb_true_iff; split); try assumption; reflexivity. }
  cbn [obind]. unfold X. rewrite sdec_buckets_built by (try exact Hbs; lia). cbn [obind]. reflexivity.
Qed.

Lemma tkind_canon t : tkind (canon t) = tkind t.
Proof. destruct t as [k vs kids]. destruct k; cbn [canon tkind]; try reflexivity;
  repeat (match goal with |- context [match ?x with _ => _ end] => destruct x end; cbn [tkind]; try reflexivity). Qed.
Lemma tkind_norm t : tkind (norm t) = tkind t.
Proof. destruct t as [k vs kids]. rewrite norm_unfold. reflexivity. Qed.
Lemma tkind_build_a a : tkind (build_a a) <> KRaw.
Proof.
  destruct a; cbn [build_a tkind]; try discriminate.
  - destruct (fold_left ct_apply sets (0, 0, 0, 255)) as [[[? ?] ?] ?]. discriminate.
Qed.
Lemma filter_keeps_actions acts :
  filter (fun x : tree => match x with T KRaw [VB []] [] => false | _ => true end) (map canon (map norm (map build_a acts))) =
  map canon (map norm (map build_a acts)).
Proof.
  induction acts as [|a r IH]; cbn [map filter]; [reflexivity|]. rewrite IH.
  pose proof (tkind_build_a a) as Hk. rewrite <- (tkind_norm (build_a a)), <- (tkind_canon (norm (build_a a))) in Hk.
  destruct (canon (norm (build_a a))) as [k vs kids]. cbn [tkind] in Hk. destruct k; try reflexivity. contradiction.
Qed.

(* packet-out: the action list, then the payload; an empty payload is no payload *)
Definition packetout_ok (buf ip : N) (acts : list arec) (data : option (list byte)) : bool :=
  (buf <? 4294967296) && (ip <? 4294967296) && forallb act_ok acts &&
  (sumN (map glen (map build_a acts)) + N.of_nat (length (match data with Some d => d | None => [] end)) <? 65000).

Lemma sdec_packetout buf ip acts data xid fuel rest : packetout_ok buf ip acts data = true -> xid < 4294967296 ->
  sdec_msg (S fuel) (wire (norm (build_m xid (MPacketOut buf ip acts data))) ++ rest) = Some (canon (norm (build_m xid (MPacketOut buf ip acts data))), rest).
Proof.
  intros H Hx. unfold packetout_ok in H. repeat (apply andb_true_iff in H as [H ?]).
  match goal with Hm : forallb act_ok acts = true |- _ => rename Hm into Hacts end.
  cbn [build_m]. set (ks := map build_a acts) in *.
  set (dk := match data with Some d => [raw d] | None => [] end).
  set (vals := [VN buf; VN ip; VN (sumN (map glen ks))]). set (l' := [FU 4; FU 4; FU 2; FZ 6]).
  destruct (msg_form KPacketOut 13 xid l' vals (ks ++ dk) eq_refl eq_refl eq_refl eq_refl eq_refl) as [Hn Hw].
  rewrite Hn, Hw. clear Hn Hw.
  assert (Hwf : forallb wf_a acts = true) by (apply (forallb_impl act_ok wf_a); [apply act_ok_wf|exact Hacts]).
  destruct (flat_norm_len acts Hwf) as [Hlen H8]. fold ks in Hlen, H8.
  assert (Hck : forallb consistent ks = true).
  { subst ks. clear - Hwf. induction acts as [|a r IH]; cbn [map forallb] in *; [reflexivity|]. apply andb_true_iff in Hwf as [Ha Hr].
    destruct (build_a_ok a Ha) as [Hc _]. rewrite Hc, (IH Hr). reflexivity. }
  destruct (sum_norm _ Hck) as [Hs1 _].
  assert (Hdk : map norm dk = dk /\ sumN (map glen dk) = N.of_nat (length (flat_map wire dk)) /\
                flat_map wire dk = match data with Some d => d | None => [] end).
  { subst dk. destruct data as [d|]; cbn [map norm writeback flat_map raw sumN fold_right glen lenrule_of layout fields_len lenround align8 wire enc_fields];
      rewrite ?app_nil_r; repeat split; try reflexivity. cbn [app length]. lia. }
  destruct Hdk as (Hd1 & Hd2 & Hd3).
  rewrite !map_app, Hd1, flat_map_app, sumN_app, Hs1, Hd2, Hd3.
  set (D := match data with Some d => d | None => [] end) in *.
  set (X := flat_map wire (map norm ks)) in *.
  set (F := enc_fields l' vals). assert (HF : length F = 16%nat) by reflexivity.
  replace (fields_len l' vals) with 16 by reflexivity.
  set (L := 8 + 16 + (sumN (map glen ks) + N.of_nat (length D))).
  rewrite sdec_msg_prologue; try (subst L; lia).
  2:{ unfold Walk.blen. rewrite !app_length, HF. subst L. lia. }
  cbv zeta. cbn [N.eqb Pos.eqb orb]. subst F. fold l'.
  rewrite sfields_enc; [|reflexivity|].
  2:{ subst vals l'. cbn [vals_ok]. change (256 ^ N.of_nat 2) with 65536. change (256 ^ N.of_nat 4) with 4294967296.
      replace (sumN (map glen ks) <? 65536) with true by lia. repeat (apply andb_true_iff; split); try assumption; reflexivity. }
  cbn [obind]. subst vals. cbv iota beta.
  pose proof (take_app X D) as Ht. unfold Walk.blen in Ht. rewrite Hlen in Ht. rewrite Ht. cbn [obind].
  unfold X, ks. rewrite sdec_built_actions by (try exact Hacts; fold ks; lia). cbn [obind]. fold ks.
  cbn [canon]. f_equal. f_equal. f_equal. rewrite map_app, filter_app.
  unfold ks. rewrite (filter_keeps_actions acts). f_equal.
  subst dk D. destruct data as [[|d0 d]|]; reflexivity.
Qed.

(* ---------------------------------------------------------------- every message *)
Fixpoint msg_ok (m : mrec) : bool :=
  match m with
  | MHello | MTlvTableReq => true
  | MHeader ty => existsb (N.eqb ty) [2; 3; 5; 7; 20]
  | MSetConfig f ms => (f <? 65536) && (ms <? 65536)
  | MFlowMod c cm t cmd idle hard prio buf op og fl fs is => flowmod_ok c cm t cmd idle hard prio buf op og fl fs is
  | MGroupMod cmd ty g bs => groupmod_ok cmd ty g bs
  | MPacketOut buf ip acts data => packetout_ok buf ip acts data
  | MPortMod p hw c mk adv => (p <? 4294967296) && (c <? 4294967296) && (mk <? 4294967296) && (adv <? 4294967296)
  | MMultipart ty fl b => body_ok ty b && (fl <? 65536)
  | MSetControllerID id => id <? 65536
  | MTlvTableMod cmd maps => (cmd <? 65536) && forallb map_ok maps && (N.of_nat (length maps) <? 8000)
  | MBundleCtrl id ty fl => (id <? 4294967296) && (ty <? 65536) && (fl <? 65536)
  | MBundleAdd id fl xin m' => (id <? 4294967296) && (fl <? 65536) && (xin <? 4294967296) && msg_ok m' && (glen (build_m xin m') <? 65000)
  end.

Fixpoint mdepth (m : mrec) : nat := match m with MBundleAdd _ _ _ m' => S (mdepth m') | _ => 0%nat end.

Lemma msg_ok_wf m : msg_ok m = true -> wf_m m = true.
Proof.
  induction m as [| | | | | | | | | | | |id fl xin m' IH]; cbn [msg_ok wf_m]; intros H; try reflexivity; try exact H.
  - unfold flowmod_ok in H. repeat (apply andb_true_iff in H as [H ?]).
    match goal with Hm : forallb instr_ok _ = true |- _ => apply (forallb_impl instr_ok wf_i _ instr_ok_wf Hm) end.
  - unfold groupmod_ok in H. repeat (apply andb_true_iff in H as [H ?]).
    match goal with Hm : forallb bucket_ok _ = true |- _ => apply (forallb_impl bucket_ok wf_b _ bucket_ok_wf Hm) end.
  - unfold packetout_ok in H. repeat (apply andb_true_iff in H as [H ?]).
    match goal with Hm : forallb act_ok _ = true |- _ => apply (forallb_impl act_ok wf_a _ act_ok_wf Hm) end.
  - repeat (apply andb_true_iff in H as [H ?]). apply IH. assumption.
Qed.

Theorem sdec_built_msg : forall m, msg_ok m = true -> forall xid fuel rest, xid < 4294967296 -> (mdepth m <= fuel)%nat ->
  sdec_msg (S fuel) (wire (norm (build_m xid m)) ++ rest) = Some (canon (norm (build_m xid m)), rest).
Proof.
  induction m as [| | | | | | | | | | | |id fl xin m' IH]; cbn [msg_ok]; intros H xid fuel rest Hx Hd.
  - apply sdec_hello, Hx.
  - apply sdec_header_only; assumption.
  - apply andb_true_iff in H as [H1 H2]. apply sdec_setconfig; lia.
  - apply sdec_flowmod; assumption.
  - apply sdec_groupmod; assumption.
  - apply sdec_packetout; assumption.
  - repeat (apply andb_true_iff in H as [H ?]). apply sdec_portmod; lia.
  - apply andb_true_iff in H as [H1 H2]. apply sdec_multipart; [exact H1|lia|exact Hx].
  - apply sdec_setcontrollerid; lia.
  - repeat (apply andb_true_iff in H as [H ?]). apply sdec_tlvtablemod; try assumption; lia.
  - apply sdec_tlvtablereq, Hx.
  - repeat (apply andb_true_iff in H as [H ?]). apply sdec_bundlectrl; lia.
  - (* bundle-add: the bundled message is a whole message of its own *)
    repeat (apply andb_true_iff in H as [H ?]).
    match goal with Hm : msg_ok m' = true |- _ => rename Hm into Hin end.
    cbn [mdepth] in Hd. destruct fuel as [|fuel]; [lia|].
    cbn [build_m]. set (inner := build_m xin m') in *.
    assert (Hci : consistent inner = true) by (apply build_m_ok, msg_ok_wf, Hin).
    destruct (norm_len inner Hci) as [Hg Hl].
    destruct (msg_form KVendor 4 xid [FU 4; FU 4] [VN 1330529792; VN 2301] [T KBundleAdd [VN id; VN fl] [inner]] eq_refl eq_refl eq_refl eq_refl eq_refl) as [Hn Hw].
    rewrite Hn, Hw. clear Hn Hw.
    cbn [canon map norm writeback flat_map wire layout enc_fields align8 fields_len glen lenrule_of lenround sumN fold_right].
    rewrite Hg, !app_nil_r. change (N.of_nat 2) with 2. change (N.of_nat 4) with 4.
    set (W := wire (norm inner)) in *.
    set (L := 8 + (4 + (4 + 0)) + (4 + (2 + (2 + 0)) + (glen inner + 0) + 0)).
    rewrite sdec_msg_prologue; try (subst L; lia).
    2:{ unfold Walk.blen. rewrite !app_length, !length_be_bytes, length_zeros. subst L. lia. }
    cbv zeta. cbn [N.eqb Pos.eqb orb]. rewrite <- !app_assoc.
    change (be_bytes 4 1330529792 ++ be_bytes 4 2301 ++ be_bytes 4 id ++ zeros 2 ++ be_bytes 2 fl ++ W)
      with (enc_fields [FU 4; FU 4] [VN 1330529792; VN 2301] ++ (be_bytes 4 id ++ zeros 2 ++ be_bytes 2 fl ++ W)).
    rewrite sfields_enc by reflexivity. cbn [obind]. unfold NX_VENDOR, ONF_VENDOR. cbn [N.eqb Pos.eqb].
    change (be_bytes 4 id ++ zeros 2 ++ be_bytes 2 fl ++ W) with (enc_fields [FU 4; FZ 2; FU 2] [VN id; VN fl] ++ W).
    rewrite sfields_enc; [|reflexivity|].
    2:{ cbn [vals_ok]. change (256 ^ N.of_nat 2) with 65536. change (256 ^ N.of_nat 4) with 4294967296.
        replace (id <? 4294967296) with true by lia. replace (fl <? 65536) with true by lia. reflexivity. }
    cbn [obind]. pose proof (IH Hin xin fuel [] ltac:(lia) ltac:(lia)) as Hd'. fold inner in Hd'. fold W in Hd'. rewrite app_nil_r in Hd'.
    rewrite Hd'. cbn [obind guard]. reflexivity.
Qed.

Lemma mdepth_le m : forall xid, N.of_nat (mdepth m) <= glen (build_m xid m).
Proof.
  induction m as [| | | | | | | | | | | |id fl xin m' IH]; intros xid; cbn [mdepth]; try lia.
  specialize (IH xin). cbn [build_m glen lenrule_of layout lenround align8 map sumN fold_right hdr app fields_len ofhdr].
  set (g := glen (build_m xin m')) in *. change (N.of_nat 1) with 1. change (N.of_nat 2) with 2. change (N.of_nat 4) with 4. lia.
Qed.

(* C03 for every message the constructors build *)
Theorem spec_decode_built m xid : msg_ok m = true -> xid < 4294967296 ->
  spec_decode (fst (marshal (build_m xid m))) = Some (canon (snd (marshal (build_m xid m)))).
Proof.
  intros Hok Hx. unfold marshal. cbn [fst snd]. unfold spec_decode.
  assert (Hc : consistent (build_m xid m) = true) by (apply build_m_ok, msg_ok_wf, Hok).
  destruct (norm_len _ Hc) as [_ Hl]. pose proof (mdepth_le m xid) as Hd.
  pose proof (sdec_built_msg m Hok xid (length (wire (norm (build_m xid m)))) [] Hx ltac:(lia)) as H.
  rewrite app_nil_r in H. rewrite H. reflexivity.
Qed.

(* C02 for every message the constructors build *)
Theorem spec_walk_built m xid : msg_ok m = true -> xid < 4294967296 ->
  spec_walk (fst (marshal (build_m xid m))) = true.
Proof. intros Hok Hx. unfold spec_walk. rewrite (spec_decode_built m xid Hok Hx). reflexivity. Qed.

Lemma c03_example_ok :
  let r := MFlowMod 1 2 3 0 4 5 6 7 8 9 10
    [MFStd 1 (AB []) (Some (AB [])); MFReg 3 7 (Some (4%Z, 9%Z)); MFStd 7 (AB []) None; MFTunMeta 2 [x01; x02; x03] []]
    [IApply [(ACT [CtCommit; CtZoneImm 5] 0 [ANat [NatSNAT; NatIP4Min []; NatProtoMax 9]; ASetField (MFStd 3 (AN 2048) None)], false);
             (ADecTtlCntIds 3 [1; 2; 3], true); (ANote [x0a; x0b; x0c; x0d; x0e; x0f], false);
             (ALearn 1 2 3 4 5 6 7 8 [LSpec 0 16 ((0,0,false,0),0) ((1,3,false,4),0) [x01;x02]; LSpec 4 8 ((1,2,false,4),0) ((0,0,false,0),0) []], false)];
     IGoto 4; IWriteMeta 5 6] in
  msg_ok r = true /\ msg_ok (MBundleAdd 1 2 3 r) = true.
Proof. vm_compute. split; reflexivity. Qed.
