(* C04 for all switch-side values, continued: flow-statistics replies, tlv-table reply, the theorem. *)
From Coq Require Import NArith ZArith Arith List Bool Lia ZifyN ZifyBool ZifyNat.
From Coq.Strings Require Import Byte.
From LOF Require Import Base.Bytes Base.Res Model.Wire Model.Build Model.BuildSw Model.Proto Model.Parse Spec.Walk
  Proofs.WireP Proofs.BuildP Proofs.NormP Proofs.WalkP Proofs.WalkAllP Proofs.WalkMsgP Proofs.SegP
  Proofs.ParseRtAllP Proofs.ParseRtAll2P Proofs.ParseRtAll3P Proofs.ParseRtAll4P Proofs.ParseRtAll5P Proofs.ParseRtAll6P
  Proofs.ParseSwAllP Proofs.ParseSwAll2P Proofs.ParseSwHelloP.
Import ListNotations.
Open Scope N_scope.
Ltac Zify.zify_post_hook ::= Z.div_mod_to_equations.
Local Notation blen := Proto.blen.

Definition flowstat_ok (f : flowstat) : bool :=
  (fs_table f <? 256) && (fs_dsec f <? 4294967296) && (fs_dnsec f <? 4294967296) && (fs_prio f <? 65536) && (fs_idle f <? 65536) &&
  (fs_hard f <? 65536) && (fs_flags f <? 65536) && (fs_cookie f <? 18446744073709551616) && (fs_pkts f <? 18446744073709551616) &&
  (fs_bytes f <? 18446744073709551616) && pmatch_ok (fs_match f) && forallb pinstr_ok (fs_instrs f) &&
  (glen (build_match (fs_match f)) + sumN (map glen (map build_i (fs_instrs f))) <? 60000).

Lemma flowstat_norm f : flowstat_ok f = true ->
  norm (flowstat_tree f) =
  T KFlowStats [VN (48 + glen (build_match (fs_match f)) + sumN (map glen (map build_i (fs_instrs f)))); VN (fs_table f); VN 0; VN (fs_dsec f); VN (fs_dnsec f);
                VN (fs_prio f); VN (fs_idle f); VN (fs_hard f); VN (fs_flags f); VN (fs_cookie f); VN (fs_pkts f); VN (fs_bytes f)]
    (build_match (fs_match f) :: ninstrs (fs_instrs f)).
Proof.
  intros H. unfold flowstat_tree. cbn [norm writeback map]. destruct (norm_build_match (fs_match f)) as [Hn _]. rewrite Hn.
  cbn [sumN fold_right]. unfold ninstrs. f_equal. f_equal. f_equal. unfold sumN. lia.
Qed.

Lemma sum_glen_canon_instrs is : forallb pinstr_ok is = true ->
  sumN (map glen (map canon (ninstrs is))) = blen (flat_map wire (ninstrs is)).
Proof.
  unfold ninstrs. induction is as [|i r IH]; intros H; cbn [map flat_map forallb sumN fold_right] in *; [reflexivity|].
  apply andb_true_iff in H as [Hi Hr]. destruct (built_instr_len i Hi) as [Hg _]. unfold sumN in IH. rewrite Hg, (IH Hr), blen_app. reflexivity.
Qed.

Lemma dec_built_flowstat f rest : flowstat_ok f = true ->
  dec_flowstats (wire (norm (flowstat_tree f)) ++ rest) = Ok (flowstat_view f, false) /\
  glen (flowstat_view f) = blen (wire (norm (flowstat_tree f))) /\ 56 <= glen (flowstat_view f) < 65000.
Proof.
  intros H. rewrite (flowstat_norm f H). unfold flowstat_ok in H. repeat (apply andb_true_iff in H as [H ?]).
  match goal with Hm : pmatch_ok _ = true |- _ => rename Hm into Hfs end.
  match goal with Hm : forallb pinstr_ok _ = true |- _ => rename Hm into His end.
  destruct (match_facts _ Hfs) as (Hn & Hg & _ & Hg8). destruct (ninstrs_len _ His) as (Hl1 & Hl2 & Hl3).
  set (M := build_match (fs_match f)) in *. set (X := flat_map wire (ninstrs (fs_instrs f))) in *. set (W := wire M) in *.
  set (Sg := sumN (map glen (map build_i (fs_instrs f)))) in *. set (L := 48 + glen M + Sg).
  set (vals := [VN L; VN (fs_table f); VN 0; VN (fs_dsec f); VN (fs_dnsec f); VN (fs_prio f); VN (fs_idle f); VN (fs_hard f); VN (fs_flags f);
                VN (fs_cookie f); VN (fs_pkts f); VN (fs_bytes f)]).
  assert (Hw : wire (T KFlowStats vals (M :: ninstrs (fs_instrs f))) =
               enc_fields [FU 2; FU 1; FU 1; FU 4; FU 4; FU 2; FU 2; FU 2; FU 2; FZ 4; FU 8; FU 8; FU 8] vals ++ W ++ X).
  { cbn [wire layout align8 flat_map]. reflexivity. }
  rewrite Hw. set (F := enc_fields [FU 2; FU 1; FU 1; FU 4; FU 4; FU 2; FU 2; FU 2; FU 2; FZ 4; FU 8; FU 8; FU 8] vals).
  assert (HF : blen F = 48) by reflexivity.
  pose proof (sum_glen_canon_instrs (fs_instrs f) His) as Hsc. fold X in Hsc.
  assert (Hgv : glen (flowstat_view f) = L).
  { unfold flowstat_view. change (map norm (map build_i (fs_instrs f))) with (ninstrs (fs_instrs f)). fold M. fold Sg. cbn [glen lenrule_of layout fields_len lenround align8 map sumN fold_right].
    fold (sumN (map glen (map canon (ninstrs (fs_instrs f))))). rewrite Hsc, Hl1. nats. subst L. lia. }
  split; [|split].
  - unfold dec_flowstats.
    assert (Hrv : read_vals ((F ++ W ++ X) ++ rest) [(0, 2); (2, 1); (3, 1); (4, 4); (8, 4); (12, 2); (14, 2); (16, 2); (18, 2)] =
                    Ok [VN L; VN (fs_table f); VN 0; VN (fs_dsec f); VN (fs_dnsec f); VN (fs_prio f); VN (fs_idle f); VN (fs_hard f); VN (fs_flags f)] /\
                  read_vals ((F ++ W ++ X) ++ rest) [(24, 8); (32, 8); (40, 8)] = Ok [VN (fs_cookie f); VN (fs_pkts f); VN (fs_bytes f)] /\
                  from ((F ++ W ++ X) ++ rest) 48 = Ok (W ++ X ++ rest) /\ 24 <= blen ((F ++ W ++ X) ++ rest)).
    { unfold F, vals. cbn [enc_fields app]. rewrite <- ?app_assoc. cbn [read_vals app].
      assert (HLlt : L < 65536) by (subst L; lia).
      repeat split; try (seg; reflexivity). blens. nats. lia. }
    destruct Hrv as (R1 & R2 & R3 & R4). rewrite R1. cbn [bind]. rewrite bind_sl_discard by lia. rewrite R2. cbn [bind]. rewrite R3. cbn [bind].
    assert (Hdm : dec_match (W ++ X ++ rest) = Ok (M, false)) by (unfold W, M; apply dec_built_match, Hfs).
    rewrite Hdm. cbn [bind vnum nth].
    replace ((F ++ W ++ X) ++ rest) with ((F ++ W) ++ X ++ rest) by (rewrite <- !app_assoc; reflexivity).
    pose proof (dec_instrs_built (fs_instrs f) His (Datatypes.S (length ((F ++ W) ++ X ++ rest))) (F ++ W) rest) as HH. fold X in HH.
    assert (HFW : blen (F ++ W) = 48 + glen M) by (rewrite blen_app, HF, Hg; reflexivity).
    rewrite HFW in HH. replace (48 + glen M + blen X) with L in HH by (subst L; lia).
    rewrite HH by (rewrite !app_length; lia). cbn [bind]. unfold flowstat_view. change (map norm (map build_i (fs_instrs f))) with (ninstrs (fs_instrs f)). fold M. fold Sg. reflexivity.
  - rewrite Hgv. blens. rewrite HF, <- Hg, Hl1. subst L. lia.
  - rewrite Hgv. subst L. lia.
Qed.

Definition nrecs (recs : list flowstat) : list tree := map norm (map flowstat_tree recs).

Lemma dec_mprecords_flow recs : forallb flowstat_ok recs = true -> forall fuel P, (length recs < fuel)%nat ->
  dec_mprecords fuel (P ++ flat_map wire (nrecs recs)) 1 (blen P + blen (flat_map wire (nrecs recs))) (blen P) =
  Ok (map flowstat_view recs, false).
Proof.
  unfold nrecs. induction recs as [|f r IH]; intros H fuel P Hf; cbn [map flat_map forallb length] in *.
  - destruct fuel; [lia|]. cbn [dec_mprecords]. rewrite blen_nil. replace (blen P + 0 <=? blen P) with true by lia. reflexivity.
  - apply andb_true_iff in H as [Hf1 Hr]. destruct fuel as [|fuel]; [lia|]. cbn [dec_mprecords].
    set (w := wire (norm (flowstat_tree f))) in *. set (X := flat_map wire (map norm (map flowstat_tree r))) in *.
    destruct (dec_built_flowstat f X Hf1) as (Hd & Hg & Hlo & Hhi). fold w in Hd, Hg.
    rewrite blen_app. replace (blen P + (blen w + blen X) <=? blen P) with false by lia.
    rewrite (from_skip P _ (blen P) (blen P)) by (try reflexivity; lia). rewrite N.sub_diag, from_zero. cbn [bind N.eqb Pos.eqb].
    rewrite Hd. cbn [bind]. replace (glen (flowstat_view f) =? 0) with false by lia. rewrite Hg.
    replace (blen P + blen w) with (blen (P ++ w)) by (rewrite blen_app; reflexivity).
    replace (blen P + (blen w + blen X)) with (blen (P ++ w) + blen X) by (rewrite blen_app; lia).
    rewrite app_assoc. unfold X. rewrite IH by (try exact Hr; lia). cbn [bind].
    destruct (map flowstat_view r); reflexivity.
Qed.

Lemma nrecs_len recs : forallb flowstat_ok recs = true ->
  blen (flat_map wire (nrecs recs)) = sumN (map glen (map flowstat_view recs)) /\ (length recs <= length (flat_map wire (nrecs recs)))%nat /\
  sumN (map glen (nrecs recs)) = sumN (map glen (map flowstat_view recs)).
Proof.
  unfold nrecs. induction recs as [|f r IH]; intros H; cbn [map flat_map forallb length sumN fold_right] in *; [repeat split; reflexivity || lia|].
  apply andb_true_iff in H as [Hf Hr]. destruct (IH Hr) as (I1 & I2 & I3).
  destruct (dec_built_flowstat f [] Hf) as (_ & Hg & Hlo & _).
  assert (Hgn : glen (norm (flowstat_tree f)) = glen (flowstat_view f)).
  { rewrite (flowstat_norm f Hf). unfold flowstat_view. change (map norm (map build_i (fs_instrs f))) with (ninstrs (fs_instrs f)). unfold flowstat_ok in Hf. repeat (apply andb_true_iff in Hf as [Hf ?]).
    match goal with Hm : forallb pinstr_ok _ = true |- _ => rename Hm into His end.
    cbn [glen lenrule_of layout fields_len lenround align8 map sumN fold_right].
    fold (sumN (map glen (ninstrs (fs_instrs f)))). fold (sumN (map glen (map canon (ninstrs (fs_instrs f))))).
    rewrite (sum_glen_canon_instrs _ His). destruct (ninstrs_len _ His) as (Hl1 & _ & Hl3). unfold ninstrs in *. rewrite Hl3, Hl1. reflexivity. }
  unfold sumN in *. rewrite blen_app, app_length, I1, I3, Hgn, <- Hg. unfold Proto.blen in *. repeat split; lia.
Qed.

Lemma sw_mp_flow pi fl recs xid : fl < 65536 -> forallb flowstat_ok recs = true -> sumN (map glen (map flowstat_view recs)) < 65000 -> xid < 4294967296 ->
  parse_body pi (wire (sw_tree xid (SMpFlow fl recs))) = Ok (sw_view xid (SMpFlow fl recs)).
Proof.
  intros Hfl Hrecs Hsz Hx. unfold sw_tree. cbn [sw_raw sw_view].
  destruct (msg_form KMultipartReply 19 xid [FU 2; FU 2; FZ 4] [VN 1; VN fl] (map flowstat_tree recs) eq_refl eq_refl eq_refl eq_refl eq_refl) as [Hn Hw].
  rewrite Hn, Hw. clear Hn Hw. destruct (nrecs_len recs Hrecs) as (Hl1 & Hl2 & Hl3).
  fold (nrecs recs). rewrite Hl3. set (X := flat_map wire (nrecs recs)) in *. set (Sg := sumN (map glen (map flowstat_view recs))) in *.
  cbn [fields_len enc_fields]. nats. set (L := 8 + (2 + (2 + (4 + 0))) + Sg).
  replace (16 + Sg) with L by (subst L; lia).
  rewrite !app_nil_r. pb_start 19 L xid ((be_bytes 2 1 ++ be_bytes 2 fl ++ zeros 4) ++ X).
  unfold msgbytes. rewrite <- ?app_assoc. seg. unfold hdr_len. cbn [vnum nth].
  replace (be_bytes 1 4 ++ be_bytes 1 19 ++ be_bytes 2 L ++ be_bytes 4 xid ++ be_bytes 2 1 ++ be_bytes 2 fl ++ zeros 4 ++ X)
    with ((be_bytes 1 4 ++ be_bytes 1 19 ++ be_bytes 2 L ++ be_bytes 4 xid ++ be_bytes 2 1 ++ be_bytes 2 fl ++ zeros 4) ++ X) by (rewrite <- !app_assoc; reflexivity).
  set (P := be_bytes 1 4 ++ be_bytes 1 19 ++ be_bytes 2 L ++ be_bytes 4 xid ++ be_bytes 2 1 ++ be_bytes 2 fl ++ zeros 4).
  assert (HP : blen P = 16) by reflexivity.
  pose proof (dec_mprecords_flow recs Hrecs (Datatypes.S (length (P ++ X))) P) as HH. fold X in HH. rewrite HP in HH.
  replace (16 + blen X) with L in HH by (subst L; lia).
  rewrite HH by (rewrite app_length; lia). cbn [bind]. reflexivity.
Qed.

Lemma sw_tlv_reply pi sp fl maps xid : sp < 4294967296 -> fl < 65536 -> forallb map_ok maps = true -> N.of_nat (length maps) < 8000 -> xid < 4294967296 ->
  parse_body pi (wire (sw_tree xid (STlvReply sp fl maps))) = Ok (sw_view xid (STlvReply sp fl maps)).
Proof.
  intros Hsp Hfl Hm Hsz Hx. unfold sw_tree. cbn [sw_raw sw_view]. unfold sw_tree. cbn [sw_raw].
  change (map (fun p : N * N * N * N => let '(c, t, l, i) := p in T KTlvMap [VN c; VN t; VN l; VN i] []) maps) with (map mk_map maps).
  destruct (msg_form KVendor 4 xid [FU 4; FU 4] [VN NXID; VN 26] [T KTlvTableReply [VN sp; VN fl] (map mk_map maps)] eq_refl eq_refl eq_refl eq_refl eq_refl) as [Hn Hw].
  rewrite Hn, Hw. clear Hn Hw.
  cbn [map norm writeback flat_map wire layout enc_fields align8 fields_len glen lenrule_of lenround sumN fold_right].
  rewrite norm_mk_maps, glen_mk_maps. rewrite !app_nil_r. nats. change (N.of_nat 10) with 10.
  set (X := flat_map wire (map mk_map maps)). pose proof (len_mk_maps maps) as HX. fold X in HX.
  set (L := 8 + (4 + (4 + 0)) + (4 + (2 + (10 + 0)) + 8 * N.of_nat (length maps) + 0)). rewrite <- !app_assoc. unfold NXID.
  rewrite parse_body_vendor by (try (subst L; lia); blens; nats; change (N.of_nat 10) with 10; unfold Proto.blen; subst L; lia).
  replace (16 <? L) with true by (subst L; lia).
  unfold dec_vendor_data. cbn [N.eqb Pos.eqb]. seg.
  replace (be_bytes 4 sp ++ be_bytes 2 fl ++ zeros 10 ++ X) with ((be_bytes 4 sp ++ be_bytes 2 fl ++ zeros 10) ++ X) by (rewrite <- !app_assoc; reflexivity).
  pose proof (dec_tlvmaps_built maps Hm (Datatypes.S (length ((be_bytes 4 sp ++ be_bytes 2 fl ++ zeros 10) ++ X))) (be_bytes 4 sp ++ be_bytes 2 fl ++ zeros 10)) as HH.
  fold X in HH. change (blen (be_bytes 4 sp ++ be_bytes 2 fl ++ zeros 10)) with 16 in HH. rewrite HH by (rewrite !app_length; lia). cbn [bind]. reflexivity.
Qed.

(* ---------------------------------------------------------------- every switch-side value *)
Definition sw_ok (s : swrec) : bool :=
  match s with
  | SHeaderOnly ty => (ty =? 2) || (ty =? 3) || (ty =? 21)
  | SGetConfigReply f m => (f <? 65536) && (m <? 65536)
  | SError ty c data => (ty <? 65535) && (c <? 65536) && (N.of_nat (length data) <? 65000)
  | SVendorError c e data => (c <? 65536) && (e <? 4294967296) && (N.of_nat (length data) <? 65000)
  | SPortStatus r p => (r <? 256) && port_ok p
  | SFeatures dp b nt aux caps rsv ports =>
    Nat.eqb (length dp) 8 && (b <? 4294967296) && (nt <? 256) && (aux <? 256) && (caps <? 4294967296) && (rsv <? 4294967296) &&
    forallb port_ok ports && (N.of_nat (length ports) <? 1000)
  | SFlowRemoved c pr r t ds dn i h pk bt fs =>
    (c <? 18446744073709551616) && (pr <? 65536) && (r <? 256) && (t <? 256) && (ds <? 4294967296) && (dn <? 4294967296) && (i <? 65536) && (h <? 65536) &&
    (pk <? 18446744073709551616) && (bt <? 18446744073709551616) && pmatch_ok fs && (glen (build_match fs) <? 65000)
  | SPacketIn b tot r t c fs _ =>
    (b <? 4294967296) && (tot <? 65536) && (r <? 256) && (t <? 256) && (c <? 18446744073709551616) && pmatch_ok fs && (glen (build_match fs) <? 30000)
  | SMpDesc fl a b c d e => (fl <? 65536) && Nat.eqb (length a) 256 && Nat.eqb (length b) 256 && Nat.eqb (length c) 256 && Nat.eqb (length d) 32 && Nat.eqb (length e) 256
  | SMpAggregate fl p b f => (fl <? 65536) && (p <? 18446744073709551616) && (b <? 18446744073709551616) && (f <? 4294967296)
  | SMpFlow fl recs => (fl <? 65536) && forallb flowstat_ok recs && (sumN (map glen (map flowstat_view recs)) <? 65000)
  | STlvReply sp fl maps => (sp <? 4294967296) && (fl <? 65536) && forallb map_ok maps && (N.of_nat (length maps) <? 8000)
  | SHello es => hello_ok es
  end.

(* the payload of a packet-in is a packet the packet decoder reads back (C09 is about those) *)
Definition sw_payload_ok (s : swrec) : Prop :=
  match s with SPacketIn _ _ _ _ _ _ eth => eth_ok eth | _ => True end.

Theorem parse_switch_value s xid : sw_ok s = true -> sw_payload_ok s -> xid < 4294967296 ->
  parse_top (wire (sw_tree xid s)) = Ok (sw_view xid s).
Proof.
  intros Hok Hpl Hx. unfold parse_top.
  assert (Hpb : forall pi, parse_body pi (wire (sw_tree xid s)) = Ok (sw_view xid s)).
  { intros pi. destruct s; cbn [sw_ok sw_payload_ok] in *; repeat (apply andb_true_iff in Hok as [Hok ?]).
    - apply sw_header_only; [lia|exact Hx].
    - apply sw_getconfig; lia.
    - apply sw_error; lia.
    - apply sw_vendor_error; lia.
    - apply sw_port_status; [lia|assumption|exact Hx].
    - match goal with Hd : Nat.eqb (length dpid) 8 = true |- _ => apply Nat.eqb_eq in Hd end. apply sw_features; try assumption; lia.
    - apply sw_flow_removed; try assumption; lia.
    - apply sw_packet_in; try assumption; lia.
    - repeat match goal with Hd : Nat.eqb _ _ = true |- _ => apply Nat.eqb_eq in Hd end. apply sw_mp_desc; try assumption; lia.
    - apply sw_mp_aggregate; lia.
    - apply sw_mp_flow; try assumption; lia.
    - apply sw_tlv_reply; try assumption; lia.
    - apply sw_hello; [|exact Hx]. first [assumption | (unfold hello_ok; apply andb_true_iff; split; assumption)]. }
  destruct (length (wire (sw_tree xid s))); cbn [parse]; rewrite Hpb; reflexivity.
Qed.
