(* Invariants of the inbound transition system, for every reachable state = every
   interleaving of the reader, the parser goroutines and the consumer. *)
From stdpp Require Import list.
From LOF Require Import Model.StreamSys.

Section SysP.
  Context {Frame Msg : Type}.
  Variable parse : Frame -> Msg.
  Variable capF capE capI : nat.
  Notation st := (@st Frame Msg).
  Notation step := (@step Frame Msg parse capF capE capI).
  Notation reach := (@reach Frame Msg parse capF capE capI).

  Lemma concat_map_mid {A B} (g : A -> list B) p1 x p2 :
    concat (map g (p1 ++ x :: p2)) = concat (map g p1) ++ g x ++ concat (map g p2).
  Proof. rewrite map_app, concat_app. simpl. reflexivity. Qed.

  (* I1: the set of buffers is conserved, each in exactly one place *)
  Definition inv_own (pool : list nat) (s : st) : Prop := owners s ≡ₚ pool.

  Lemma step_own pool s s' : inv_own pool s -> step s s' -> inv_own pool s'.
  Proof.
    unfold inv_own, owners. intros H Hs. destruct Hs; simpl in *;
      repeat match goal with
             | E : reader _ = _ |- _ => rewrite E in H
             | E : empty _ = _ |- _ => rewrite E in H
             | E : full _ = _ |- _ => rewrite E in H
             | E : parsers _ = _ |- _ => rewrite E in H
             end;
      rewrite ?concat_map_mid in *; simpl in *; rewrite <- H; solve_Permutation.
  Qed.

  Lemma reach_own pool s0 s : inv_own pool s0 -> reach s0 s -> inv_own pool s.
  Proof. intros H0 Hr. induction Hr; [exact H0|]. eapply step_own; eassumption. Qed.

  (* no buffer has two owners *)
  Corollary exclusive_ownership pool s0 s : NoDup pool -> inv_own pool s0 -> reach s0 s -> NoDup (owners s).
  Proof. intros Hn H0 Hr. pose proof (reach_own pool s0 s H0 Hr) as H. unfold inv_own in H. rewrite H. exact Hn. Qed.
End SysP.

Section Msgs.
  Context {Frame Msg : Type}.
  Variable parse : Frame -> Msg.
  Variable capF capE capI : nat.
  Notation st := (@st Frame Msg).
  Notation step := (@step Frame Msg parse capF capE capI).
  Notation reach := (@reach Frame Msg parse capF capE capI).

  Arguments bframes : simpl never.
  Lemma bframes_app (m : nat -> option Frame) a b : bframes m (a ++ b) = bframes m a ++ bframes m b.
  Proof. unfold bframes. rewrite map_app, concat_app. reflexivity. Qed.
  Lemma bframes_cons (m : nat -> option Frame) b l : bframes m (b :: l) = bframes m [b] ++ bframes m l.
  Proof. apply (bframes_app m [b] l). Qed.
  Lemma bframes_upd_notin (m : nat -> option Frame) b v bs : b ∉ bs -> bframes (upd m b v) bs = bframes m bs.
  Proof.
    induction bs as [|x r IH]; intros Hn; [reflexivity|]. unfold bframes in *. simpl.
    apply not_elem_of_cons in Hn as [Hx Hr]. rewrite IH by exact Hr. unfold upd at 1.
    destruct (Nat.eqb_spec x b) as [->|_]; [contradiction|reflexivity].
  Qed.
  Lemma bframes_upd_single (m : nat -> option Frame) b f : bframes (upd m b (Some f)) [b] = [f].
  Proof. unfold bframes, upd. simpl. rewrite Nat.eqb_refl. reflexivity. Qed.
  Lemma bframes_single (m : nat -> option Frame) b f : m b = Some f -> bframes m [b] = [f].
  Proof. intros H. unfold bframes. simpl. rewrite H. reflexivity. Qed.

  Lemma pending_sub_bufs (ps : list (@pst Msg)) x : x ∈ concat (map pst_pending ps) -> x ∈ concat (map pst_bufs ps).
  Proof.
    induction ps as [|p r IH]; simpl; [auto|]. rewrite !elem_of_app. intros [H|H]; [left|right; auto].
    destruct p; simpl in *; auto; inversion H.
  Qed.

  Definition inv_msgs (all : list Msg) (s : st) : Prop := all_msgs parse s ≡ₚ all.

  Lemma step_msgs all s s' : NoDup (owners s) -> inv_msgs all s -> step s s' -> inv_msgs all s'.
  Proof.
    unfold inv_msgs, all_msgs, owners. intros Hnd H Hs. rewrite <- H. clear H.
    destruct Hs as [s b f r Hr Hi Hc|s b e Hr He|s p1 p2 b fl Hp Hf|s p1 p2 b f Hp Hm|s p1 p2 b m Hp Hc|s p1 p2 b Hp Hc|s m r Hi];
      cbn [input reader full empty parsers inbound delivered mem].
    - (* fill *)
      rewrite Hr, Hi in *. cbn [reader_bufs app] in Hnd. apply NoDup_cons in Hnd as [Hb _].
      rewrite !not_elem_of_app in Hb. destruct Hb as [_ [Hbf Hbp]].
      rewrite bframes_upd_notin by (intros Hx; apply Hbp, pending_sub_bufs, Hx).
      rewrite bframes_app, bframes_upd_notin by exact Hbf. rewrite bframes_upd_single.
      rewrite map_app. simpl. rewrite <- !app_assoc. reflexivity.
    - (* take *) reflexivity.
    - (* recv *)
      rewrite Hp, Hf. rewrite !concat_map_mid. cbn [pst_msgs pst_pending]. rewrite ?app_nil_l.
      rewrite !bframes_app, (bframes_cons _ b fl), !map_app. solve_Permutation.
    - (* parse *)
      rewrite Hp. rewrite !concat_map_mid. cbn [pst_msgs pst_pending]. rewrite ?app_nil_l.
      rewrite !bframes_app, (bframes_single _ b f Hm), !map_app. cbn [map]. solve_Permutation.
    - (* send *)
      rewrite Hp in *. rewrite !concat_map_mid in *. cbn [pst_bufs pst_msgs pst_pending] in *. rewrite ?app_nil_l.
      apply NoDup_app in Hnd as (_ & _ & Hnd). apply NoDup_app in Hnd as (_ & _ & Hnd).
      apply NoDup_app in Hnd as (_ & HF & Hnd). apply NoDup_app in Hnd as (_ & HA & Hnd).
      apply NoDup_app in Hnd as (_ & HB & _).
      assert (Hbf : b ∉ full s).
      { intros Hx. apply (HF b Hx). rewrite !elem_of_app. right. left. constructor. }
      assert (Hb1 : b ∉ concat (map pst_pending p1)).
      { intros Hx. apply (HA b (pending_sub_bufs p1 b Hx)). rewrite elem_of_app. left. constructor. }
      assert (Hb2 : b ∉ concat (map pst_pending p2)).
      { intros Hx. apply (HB b); [constructor|]. apply pending_sub_bufs, Hx. }
      rewrite !bframes_app, !(bframes_upd_notin _ b None) by assumption.
      rewrite !map_app. solve_Permutation.
    - (* return *)
      rewrite Hp. rewrite !concat_map_mid. cbn [pst_msgs pst_pending]. reflexivity.
    - (* consume *)
      rewrite Hi. solve_Permutation.
  Qed.
End Msgs.

Section Main.
  Context {Frame Msg : Type}.
  Variable parse : Frame -> Msg.
  Variable capF capE capI : nat.
  Notation st := (@st Frame Msg).
  Notation step := (@step Frame Msg parse capF capE capI).
  Notation reach := (@reach Frame Msg parse capF capE capI).
  Notation init := (@init Frame Msg).
  Notation inv_own := (@inv_own Frame Msg).

  Lemma concat_replicate_idle {A} (g : @pst Msg -> list A) n : g PIdle = [] -> concat (map g (replicate n PIdle)) = [].
  Proof. intros H. induction n as [|n IH]; simpl; [reflexivity|]. rewrite H, IH. reflexivity. Qed.

  (* both invariants hold in every reachable state, i.e. under every interleaving *)
  Theorem inbound_invariants frames pool n s : NoDup pool ->
    reach (init frames pool n) s ->
    owners s ≡ₚ pool /\ NoDup (owners s) /\ all_msgs parse s ≡ₚ map parse frames.
  Proof.
    intros Hnd Hr.
    assert (H0o : inv_own pool (init frames pool n)).
    { unfold inv_own, owners, init. destruct pool as [|b e]; simpl;
        rewrite (concat_replicate_idle pst_bufs n eq_refl); rewrite ?app_nil_r; reflexivity. }
    assert (H0m : inv_msgs parse (map parse frames) (init frames pool n)).
    { unfold inv_msgs, all_msgs, init. destruct pool as [|b e]; simpl;
        rewrite (concat_replicate_idle pst_msgs n eq_refl), (concat_replicate_idle pst_pending n eq_refl); reflexivity. }
    induction Hr as [|s s' Hr IH Hs].
    - split; [exact H0o|]. split; [|exact H0m]. unfold inv_own in H0o. rewrite H0o. exact Hnd.
    - destruct IH as [Ho [Hn Hm]]. pose proof (step_own parse capF capE capI pool s s' Ho Hs) as Ho'.
      split; [exact Ho'|]. split; [unfold inv_own in Ho'; rewrite Ho'; exact Hnd|].
      exact (step_msgs parse capF capE capI (map parse frames) s s' Hn Hm Hs).
  Qed.

  (* nothing is delivered that is not the parse of a complete frame of the input, and no
     frame is delivered twice (multiset inclusion) *)
  Corollary delivered_are_frames frames pool n s : NoDup pool -> reach (init frames pool n) s ->
    delivered s ⊆+ map parse frames.
  Proof.
    intros Hnd Hr. destruct (inbound_invariants frames pool n s Hnd Hr) as [_ [_ Hm]].
    rewrite <- Hm. unfold all_msgs. apply submseteq_inserts_r. reflexivity.
  Qed.

  (* at quiescence exactly one message per frame has been delivered *)
  Corollary quiescent_all_delivered frames pool n s : NoDup pool -> reach (init frames pool n) s ->
    input s = [] -> full s = [] -> inbound s = [] -> Forall (fun p => p = PIdle \/ exists b, p = PRet b) (parsers s) ->
    delivered s ≡ₚ map parse frames.
  Proof.
    intros Hnd Hr Hi Hf Hb Hp. destruct (inbound_invariants frames pool n s Hnd Hr) as [_ [_ Hm]].
    rewrite <- Hm. unfold all_msgs. rewrite Hi, Hf, Hb.
    assert (H1 : concat (map pst_msgs (parsers s)) = []).
    { induction Hp as [|p r [->|[b ->]] _ IHp]; simpl; auto. }
    assert (H2 : concat (map pst_pending (parsers s)) = []).
    { induction Hp as [|p r [->|[b ->]] _ IHp]; simpl; auto. }
    rewrite H1, H2. simpl. rewrite !app_nil_r. reflexivity.
  Qed.
End Main.
