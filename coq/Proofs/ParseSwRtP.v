(* C05, switch-side half: a switch-side value parsed from its conformant frame re-encodes to
   the same bytes. *)
From Coq Require Import NArith ZArith Arith List Bool Lia.
From Coq.Strings Require Import Byte.
From LOF Require Import Base.Bytes Base.Res Model.Wire Model.Build Model.BuildSw Model.Proto Model.Parse
  Proofs.WireP Proofs.BuildP Proofs.NormP Proofs.ParseSwAllP Proofs.ParseSwAll2P Proofs.ParseSwAll3P.
Import ListNotations.
Open Scope N_scope.

(* the kinds whose parsed value is the written value itself *)
Definition sw_plain (s : swrec) : bool :=
  match s with SMpFlow _ _ => false | SPacketIn _ _ _ _ _ _ None => false | SHello _ => false | _ => true end.
Definition sw_payload_shaped (s : swrec) : Prop :=
  match s with SPacketIn _ _ _ _ _ _ (Some e) => shaped e = true | _ => True end.

Lemma forallb_map_const {A} (f : A -> tree) l : (forall x, shaped (f x) = true) -> forallb shaped (map f l) = true.
Proof. intros H. induction l as [|x l IH]; cbn [map forallb]; [reflexivity|]. rewrite H, IH. reflexivity. Qed.

Lemma sw_raw_shaped s xid : sw_plain s = true -> sw_payload_shaped s -> shaped (sw_raw xid s) = true.
Proof.
  intros Hp Hs. destruct s; cbn [sw_plain] in Hp; try discriminate Hp; cbn [sw_raw]; try reflexivity.
  - cbn [shaped hdr app layout vals_shape forallb]. rewrite forallb_map_const by (intros; reflexivity). reflexivity.
  - cbn [shaped app layout vals_shape forallb]. rewrite (consistent_shaped _ (build_match_ok _)). reflexivity.
  - destruct eth as [e|]; [|discriminate Hp]. cbn [sw_payload_shaped] in Hs.
    cbn [shaped app layout vals_shape forallb]. rewrite (consistent_shaped _ (build_match_ok _)), Hs. reflexivity.
  - cbn [shaped hdr app layout vals_shape forallb]. rewrite forallb_map_const; [reflexivity|]. intros [[[c t] l] i]. reflexivity.
Qed.

Theorem sw_roundtrip s xid : sw_ok s = true -> sw_payload_ok s -> sw_payload_shaped s -> sw_plain s = true -> xid < 4294967296 ->
  parse_top (wire (sw_tree xid s)) = Ok (sw_tree xid s) /\ fst (marshal (sw_tree xid s)) = wire (sw_tree xid s).
Proof.
  intros Hok Hpl Hsh Hp Hx. split.
  - rewrite (parse_switch_value s xid Hok Hpl Hx). destruct s; try reflexivity; try discriminate Hp.
    destruct eth; [reflexivity|discriminate Hp].
  - unfold marshal, sw_tree. cbn [fst]. rewrite norm_idem by (apply sw_raw_shaped; assumption). reflexivity.
Qed.

(* ---- flow statistics: the parsed records carry the instructions in their wire view; their
   re-encoding is the written record ---- *)
From LOF Require Import Proofs.WalkMsgP Proofs.ParseRtAllP Proofs.ParseRtAll4P Proofs.ParseRtAll6P Proofs.ParseRtAll7P.

Lemma flowstat_view_reenc f : flowstat_ok f = true ->
  wire (norm (flowstat_view f)) = wire (norm (flowstat_tree f)) /\ glen (norm (flowstat_view f)) = glen (norm (flowstat_tree f)).
Proof.
  intros Hf. rewrite (flowstat_norm f Hf). unfold flowstat_view.
  change (map norm (map build_i (fs_instrs f))) with (ninstrs (fs_instrs f)).
  assert (His : forallb wf_i (fs_instrs f) = true).
  { unfold flowstat_ok in Hf. repeat (apply andb_true_iff in Hf as [Hf ?]).
    match goal with Hm : forallb pinstr_ok _ = true |- _ => apply (forallb_imp pinstr_ok wf_i _ pinstr_ok_wf Hm) end. }
  destruct (flat_map_ext_R _ (Forall_R_instrs _ His)) as [Hw Hg]. fold (ninstrs (fs_instrs f)) in Hw, Hg.
  destruct (norm_build_match (fs_match f)) as [Hn _].
  cbn [norm writeback map]. rewrite Hn. split.
  - cbn [wire layout align8 flat_map]. rewrite Hw. reflexivity.
  - cbn [glen lenrule_of lenround align8 map sumN fold_right]. unfold sumN in Hg. rewrite Hg. reflexivity.
Qed.

Lemma flowstat_views_reenc recs : forallb flowstat_ok recs = true ->
  flat_map wire (map norm (map flowstat_view recs)) = flat_map wire (map norm (map flowstat_tree recs)) /\
  sumN (map glen (map norm (map flowstat_view recs))) = sumN (map glen (map norm (map flowstat_tree recs))).
Proof.
  induction recs as [|f r IH]; cbn [map flat_map forallb sumN fold_right]; intros H; [split; reflexivity|].
  apply andb_true_iff in H as [Hf Hr]. destruct (IH Hr) as [I1 I2]. destruct (flowstat_view_reenc f Hf) as [Hw Hg].
  unfold sumN in *. rewrite Hw, Hg, I1, I2. split; reflexivity.
Qed.

Theorem sw_flowstats_roundtrip fl recs xid : sw_ok (SMpFlow fl recs) = true -> xid < 4294967296 ->
  parse_top (wire (sw_tree xid (SMpFlow fl recs))) = Ok (sw_view xid (SMpFlow fl recs)) /\
  fst (marshal (sw_view xid (SMpFlow fl recs))) = wire (sw_tree xid (SMpFlow fl recs)).
Proof.
  intros Hok Hx. split; [apply parse_switch_value; [exact Hok|exact I|exact Hx]|].
  cbn [sw_ok] in Hok. repeat (apply andb_true_iff in Hok as [Hok ?]).
  match goal with Hm : forallb flowstat_ok recs = true |- _ => rename Hm into Hrecs end.
  unfold marshal, sw_tree. cbn [fst sw_raw sw_view].
  destruct (flowstat_views_reenc recs Hrecs) as [Hw Hg].
  destruct (msg_form KMultipartReply 19 xid [FU 2; FU 2; FZ 4] [VN 1; VN fl] (map flowstat_tree recs) eq_refl eq_refl eq_refl eq_refl eq_refl) as [Hn1 Hw1].
  destruct (msg_form KMultipartReply 19 xid [FU 2; FU 2; FZ 4] [VN 1; VN fl] (map flowstat_view recs) eq_refl eq_refl eq_refl eq_refl eq_refl) as [Hn2 Hw2].
  rewrite Hn1, Hw1.
  replace (norm (T KMultipartReply ([VN 4; VN 19; VN (16 + sumN (map glen (map flowstat_view recs))); VN xid] ++ [VN 1; VN fl]) (map flowstat_view recs)))
    with (norm (T KMultipartReply (hdr 19 xid ++ [VN 1; VN fl]) (map flowstat_view recs))) by reflexivity.
  rewrite Hn2, Hw2, Hw, Hg. reflexivity.
Qed.
