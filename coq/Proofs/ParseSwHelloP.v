(* C04, hello: every list of hello elements - version bitmaps with any number of words and
   elements of other types, each padded to 8 bytes - is parsed to its version bitmaps, in order. *)
From Coq Require Import NArith ZArith Arith List Bool Lia ZifyN ZifyBool ZifyNat.
From Coq.Strings Require Import Byte.
From LOF Require Import Base.Bytes Base.Res Model.Wire Model.Build Model.BuildSw Model.Proto Model.Parse
  Proofs.WireP Proofs.SegP Proofs.WalkMsgP Proofs.ParseRtAll5P.
Import ListNotations.
Open Scope N_scope.
Ltac Zify.zify_post_hook ::= Z.div_mod_to_equations.
Local Notation blen := Proto.blen.

Definition helem_ok (e : helem) : bool :=
  match e with
  | HBitmap ws => forallb (fun w => w <? 4294967296) ws && (N.of_nat (length ws) <? 1000)
  | HOther ty body => negb (N.eqb ty 1) && (ty <? 65536) && (N.of_nat (length body) <? 4000)
  end.
Definition ebytes (e : helem) : list byte := flat_map wire (helem_raw e).

Lemma blen_words ws : blen (List.concat (map be32 ws)) = 4 * N.of_nat (length ws).
Proof.
  induction ws as [|w ws IH]; cbn [map List.concat length]; [reflexivity|]. rewrite blen_app, IH. unfold be32. rewrite blen_be. lia.
Qed.
Lemma pad8_N n : N.of_nat (pad8 n) = round8 (N.of_nat n) - N.of_nat n.
Proof. unfold pad8, round8. lia. Qed.
Lemma round8_ge n : n <= round8 n < n + 8 /\ round8 n mod 8 = 0.
Proof. unfold round8. lia. Qed.

Lemma ebytes_bitmap ws :
  ebytes (HBitmap ws) = be_bytes 2 1 ++ be_bytes 2 (4 + 4 * N.of_nat (length ws)) ++ List.concat (map be32 ws) ++ zeros (pad8 (4 + 4 * length ws)).
Proof.
  unfold ebytes. cbn [helem_raw flat_map helem_bitmap_tree wire layout enc_fields align8]. rewrite !app_nil_r.
  assert (Hl : length (be_bytes 2 1 ++ be_bytes 2 (4 + 4 * N.of_nat (length ws)) ++ List.concat (map be32 ws)) = (4 + 4 * length ws)%nat).
  { rewrite !app_length, !length_be_bytes. pose proof (blen_words ws) as H. unfold Proto.blen in H. lia. }
  rewrite Hl, <- !app_assoc. reflexivity.
Qed.
Lemma ebytes_other ty body :
  ebytes (HOther ty body) = be_bytes 2 ty ++ be_bytes 2 (4 + N.of_nat (length body)) ++ body ++ zeros (pad8 (4 + length body)).
Proof. unfold ebytes. cbn [helem_raw flat_map wire layout enc_fields align8]. rewrite !app_nil_r. reflexivity. Qed.

Lemma ebytes_len e : blen (ebytes e) = match e with
                                       | HBitmap ws => round8 (4 + 4 * N.of_nat (length ws))
                                       | HOther _ body => round8 (4 + N.of_nat (length body)) end.
Proof.
  destruct e as [ws|ty body].
  - rewrite ebytes_bitmap. blens. rewrite blen_words, pad8_N. nats.
    pose proof (round8_ge (N.of_nat (4 + 4 * length ws))). replace (N.of_nat (4 + 4 * length ws)) with (4 + 4 * N.of_nat (length ws)) in * by lia. lia.
  - rewrite ebytes_other. blens. rewrite pad8_N. nats. unfold Proto.blen.
    pose proof (round8_ge (N.of_nat (4 + length body))). replace (N.of_nat (4 + length body)) with (4 + N.of_nat (length body)) in * by lia. lia.
Qed.

(* the element walk, from any offset: P is what lies before (header and earlier elements) *)
Lemma dec_hello_elems_built es : forallb helem_ok es = true -> forall fuel P, (length es < fuel)%nat ->
  dec_hello_elems fuel (P ++ flat_map ebytes es) (blen P) = Ok (flat_map helem_view es).
Proof.
  induction es as [|e r IH]; intros H fuel P Hf; (destruct fuel as [|f]; [cbn [length] in Hf; lia|]).
  - cbn [flat_map dec_hello_elems]. rewrite app_nil_r. replace (blen P <=? blen P) with true by lia. reflexivity.
  - cbn [forallb] in H. apply andb_true_iff in H as [He Hr]. cbn [length] in Hf. cbn [flat_map dec_hello_elems].
    set (X := flat_map ebytes r). pose proof (ebytes_len e) as Hlen.
    assert (Hge : 8 <= blen (ebytes e)).
    { rewrite Hlen. destruct e; [pose proof (round8_ge (4 + 4 * N.of_nat (length ws)))|pose proof (round8_ge (4 + N.of_nat (length body)))]; lia. }
    replace (blen (P ++ ebytes e ++ X) <=? blen P) with false by (rewrite !blen_app; lia).
    rewrite (from_skip P _ (blen P) (blen P) eq_refl) by lia. rewrite N.sub_diag, from_zero. cbn [bind].
    replace (blen (ebytes e ++ X) <? 4) with false by (rewrite blen_app; lia).
    assert (Hrec : dec_hello_elems f (P ++ ebytes e ++ X) (blen P + blen (ebytes e)) = Ok (flat_map helem_view r)).
    { rewrite app_assoc. replace (blen P + blen (ebytes e)) with (blen (P ++ ebytes e)) by (rewrite blen_app; reflexivity).
      apply IH; [exact Hr|lia]. }
    destruct e as [ws|ty body]; cbn [helem_ok] in He.
    + apply andb_true_iff in He as [Hw Hk]. rewrite ebytes_bitmap in *. rewrite <- !app_assoc.
      set (k := N.of_nat (length ws)) in *. set (W := List.concat (map be32 ws)) in *.
      assert (HW : blen W = 4 * k) by apply blen_words.
      set (Z := zeros (pad8 (4 + 4 * length ws))) in *.
      seg. pose proof (round8_ge (4 + 4 * k)) as Hr8.
      replace (4 + 4 * k <? 4) with false by lia. cbn [orb].
      match goal with |- context [if ?c then _ else _] => replace c with false by (blens; rewrite HW; nats; lia) end.
      cbn [N.eqb Pos.eqb].
      replace (4 + (4 + 4 * k - 4) / 4 * 4) with (4 + 4 * k) by lia.
      rewrite (sl_skip (be_bytes 2 1) _ 4 (4 + 4 * k) 2) by (first [apply blen_be|lia]).
      rewrite (sl_skip (be_bytes 2 (4 + 4 * k)) _ (4 - 2) (4 + 4 * k - 2) 2) by (first [apply blen_be|lia]).
      replace (4 - 2 - 2) with 0 by lia. replace (4 + 4 * k - 2 - 2) with (4 * k) by lia.
      rewrite (sl_here W _ (4 * k) HW). cbn [bind].
      replace (N.min (round8 (4 + 4 * k)) (blen (be_bytes 2 1 ++ be_bytes 2 (4 + 4 * k) ++ W ++ Z ++ X))) with (round8 (4 + 4 * k)).
      2:{ rewrite <- ?app_assoc in Hlen. rewrite (app_assoc W), (app_assoc (be_bytes 2 (4 + 4 * k))), (app_assoc (be_bytes 2 1)), blen_app.
          rewrite <- ?app_assoc. rewrite Hlen. lia. }
      rewrite <- Hlen. rewrite <- ?app_assoc in Hrec. rewrite Hrec. cbn [bind helem_view flat_map app]. reflexivity.
    + apply andb_true_iff in He as [He Hb]. apply andb_true_iff in He as [Hn1 Hty]. rewrite ebytes_other in *. rewrite <- !app_assoc.
      set (k := N.of_nat (length body)) in *. assert (HB : blen body = k) by reflexivity.
      set (Z := zeros (pad8 (4 + length body))) in *.
      seg. pose proof (round8_ge (4 + k)) as Hr8.
      replace (4 + k <? 4) with false by lia. cbn [orb].
      match goal with |- context [if ?c then _ else _] => replace c with false by (blens; rewrite HB; nats; lia) end.
      replace (ty =? 1) with false by (destruct (ty =? 1); [discriminate Hn1|reflexivity]).
      replace (N.min (round8 (4 + k)) (blen (be_bytes 2 ty ++ be_bytes 2 (4 + k) ++ body ++ Z ++ X))) with (round8 (4 + k)).
      2:{ rewrite <- ?app_assoc in Hlen. rewrite (app_assoc body), (app_assoc (be_bytes 2 (4 + k))), (app_assoc (be_bytes 2 ty)), blen_app.
          rewrite <- ?app_assoc. rewrite Hlen. lia. }
      rewrite <- Hlen. rewrite <- ?app_assoc in Hrec. rewrite Hrec. reflexivity.
Qed.

Lemma norm_helem_raw es : map norm (flat_map helem_raw es) = flat_map helem_raw es.
Proof.
  induction es as [|e r IH]; cbn [flat_map map]; [reflexivity|]. rewrite map_app, IH. f_equal. destruct e; reflexivity.
Qed.
Lemma wire_helem_raw es : flat_map wire (flat_map helem_raw es) = flat_map ebytes es.
Proof.
  induction es as [|e r IH]; cbn [flat_map]; [reflexivity|]. rewrite flat_map_app, IH. reflexivity.
Qed.
Lemma glen_helem_raw es : sumN (map glen (flat_map helem_raw es)) = blen (flat_map ebytes es).
Proof.
  induction es as [|e r IH]; cbn [flat_map map]; [reflexivity|]. rewrite map_app, blen_app, <- IH.
  unfold sumN. rewrite fold_right_app. fold (sumN (map glen (flat_map helem_raw r))).
  assert (Hs : forall l a, fold_right N.add a l = fold_right N.add 0 l + a).
  { induction l as [|x l IHl]; intros a; cbn [fold_right]; [lia|]. rewrite IHl. lia. }
  rewrite Hs. f_equal. destruct e as [ws|ty body].
  - rewrite ebytes_bitmap. cbn [helem_raw map helem_bitmap_tree glen lenrule_of layout fields_len lenround align8 sumN fold_right].
    blens. rewrite pad8_N. pose proof (blen_words ws) as HW. unfold Proto.blen in *. nats.
    pose proof (round8_ge (4 + 4 * N.of_nat (length ws))) as Hr.
    replace (N.of_nat (4 + 4 * length ws)) with (4 + 4 * N.of_nat (length ws)) by lia.
    replace (2 + (2 + (N.of_nat (length (List.concat (map be32 ws))) + 0)) + 0) with (4 + 4 * N.of_nat (length ws)) by lia.
    rewrite HW. lia.
  - rewrite ebytes_other. cbn [helem_raw map glen lenrule_of layout fields_len lenround align8 sumN fold_right].
    blens. unfold Proto.blen. rewrite ?app_length, ?length_be_bytes, ?length_zeros. unfold be16. rewrite ?length_be_bytes. nats. lia.
Qed.
Lemma ebytes_count es : 8 * N.of_nat (length es) <= blen (flat_map ebytes es).
Proof.
  induction es as [|e r IH]; cbn [flat_map length]; [unfold Proto.blen; cbn; lia|]. rewrite blen_app, (ebytes_len e).
  destruct e; [pose proof (round8_ge (4 + 4 * N.of_nat (length ws)))|pose proof (round8_ge (4 + N.of_nat (length body)))]; lia.
Qed.

Definition hello_ok (es : list helem) : bool := forallb helem_ok es && (8 + blen (flat_map ebytes es) <? 65536).

Lemma sw_hello pi es xid : hello_ok es = true -> xid < 4294967296 ->
  parse_body pi (wire (sw_tree xid (SHello es))) = Ok (sw_view xid (SHello es)).
Proof.
  intros H Hx. apply andb_true_iff in H as [Hes Hsz]. unfold sw_view, sw_tree. cbn [sw_raw].
  replace (hdr 0 xid) with (hdr 0 xid ++ []) by apply app_nil_r.
  destruct (msg_form KHello 0 xid [] [] (flat_map helem_raw es) eq_refl eq_refl eq_refl eq_refl eq_refl) as [Hn Hw].
  rewrite Hn, Hw. clear Hn Hw. rewrite norm_helem_raw, wire_helem_raw, glen_helem_raw.
  cbn [fields_len enc_fields app]. set (B := flat_map ebytes es) in *. set (L := 8 + 0 + blen B).
  pb_start 0 L xid B. unfold msgbytes.
  replace (be_bytes 1 4 ++ be_bytes 1 0 ++ be_bytes 2 L ++ be_bytes 4 xid ++ B)
    with ((be_bytes 1 4 ++ be_bytes 1 0 ++ be_bytes 2 L ++ be_bytes 4 xid) ++ B) by (rewrite <- !app_assoc; reflexivity).
  set (P := be_bytes 1 4 ++ be_bytes 1 0 ++ be_bytes 2 L ++ be_bytes 4 xid).
  assert (HP : blen P = 8) by reflexivity.
  pose proof (dec_hello_elems_built es Hes (Datatypes.S (length (P ++ B))) P) as HH. fold B in HH. rewrite HP in HH.
  pose proof (ebytes_count es) as Hc. fold B in Hc.
  rewrite HH by (rewrite app_length; unfold Proto.blen in Hc; lia). cbn [bind]. rewrite ?app_nil_r. reflexivity.
Qed.

Lemma hello_example_ok : hello_ok [HBitmap [18]; HOther 7 [xaa; xbb]; HBitmap [1; 2]; HBitmap []; HOther 0 []] = true.
Proof. vm_compute. reflexivity. Qed.

(* conformant frames the decoders refuse (known findings D49, D50), by computation *)
Lemma short_packet_in_refused :
  parse_top ([x04; x0a; x00; x32; x00; x00; x00; x01] ++ [xff; xff; xff; xff; x00; x08; x00; x00] ++ zeros 8
             ++ [x00; x01; x00; x0c; x80; x00; x00; x04; x00; x00; x00; x07; x00; x00; x00; x00] ++ zeros 2
             ++ [x01; x02; x03; x04; x05; x06; x07; x08]) = Err.
Proof. vm_compute. reflexivity. Qed.
Lemma port_desc_reply_refused :
  parse_top ([x04; x13; x00; x50; x00; x00; x00; x01] ++ [x00; x0d; x00; x00; x00; x00; x00; x00] ++ zeros 64) = Err.
Proof. vm_compute. reflexivity. Qed.
