(* C09: decoding the encoding of a well-formed packet gives the packet back (for all frames of
   the modelled kinds: Ethernet with or without 802.1Q tag, ARP, IPv4 with options, IPv6 with
   any extension-header chain, ICMP, UDP, opaque payloads).  Packets are given as recipes
   (field values); [eth_tree] is the decoded form, [wire (eth_tree p)] the frame. *)
From Coq Require Import NArith ZArith Arith List Bool Lia ZifyN ZifyBool ZifyNat.
From Coq.Strings Require Import Byte.
From LOF Require Import Base.Bytes Base.Res Model.Wire Model.Proto Proofs.WireP Proofs.SegP.
Import ListNotations.
Open Scope N_scope.
Ltac Zify.zify_post_hook ::= Z.div_mod_to_equations.

Ltac walk :=
  repeat first
    [ ifblen
    | seg_step; cbn [bind]
    | progress cbn [bind N.eqb Pos.eqb orb andb negb app] ].

(* ---------------------------------------------------------------- layer 4 *)
Inductive l4 := L4Icmp (ty code cs : N) (rest : list byte) | L4Udp (sp dp ln cs : N) (rest : list byte) | L4Raw (bs : list byte).
Definition l4_tree (p : l4) : tree :=
  match p with
  | L4Icmp ty code cs rest => T KIcmp [VN ty; VN code; VN cs; VB rest] []
  | L4Udp sp dp ln cs rest => T KUdp [VN sp; VN dp; VN ln; VN cs; VB rest] []
  | L4Raw bs => raw bs
  end.
Definition l4_ok (p : l4) : bool :=
  match p with
  | L4Icmp ty code cs _ => (ty <? 256) && (code <? 256) && (cs <? 65536)
  | L4Udp sp dp ln cs _ => (sp <? 65536) && (dp <? 65536) && (ln <? 65536) && (cs <? 65536)
  | L4Raw _ => true
  end.
(* the protocol / next-header number that selects this payload's decoder (raw: any other) *)
Definition l4_sel (icmp_no : N) (p : l4) (n : N) : bool :=
  match p with L4Icmp _ _ _ _ => n =? icmp_no | L4Udp _ _ _ _ _ => n =? 17 | L4Raw _ => negb ((n =? icmp_no) || (n =? 17)) end.

Lemma wire_l4 p : wire (l4_tree p) =
  match p with
  | L4Icmp ty code cs rest => be_bytes 1 ty ++ be_bytes 1 code ++ be_bytes 2 cs ++ rest
  | L4Udp sp dp ln cs rest => be_bytes 2 sp ++ be_bytes 2 dp ++ be_bytes 2 ln ++ be_bytes 2 cs ++ rest
  | L4Raw bs => bs
  end.
Proof. destruct p; cbn [l4_tree raw wire layout enc_fields align8 flat_map]; rewrite ?app_nil_r; reflexivity. Qed.

Lemma dec_icmp_rt ty code cs rest : l4_ok (L4Icmp ty code cs rest) = true -> dec_icmp (wire (l4_tree (L4Icmp ty code cs rest))) = Ok (l4_tree (L4Icmp ty code cs rest)).
Proof.
  cbn [l4_ok]. intros H. repeat (apply andb_true_iff in H as [H ?]). rewrite wire_l4. unfold dec_icmp. walk. reflexivity.
Qed.
Lemma dec_udp_rt sp dp ln cs rest : l4_ok (L4Udp sp dp ln cs rest) = true -> dec_udp (wire (l4_tree (L4Udp sp dp ln cs rest))) = Ok (l4_tree (L4Udp sp dp ln cs rest)).
Proof.
  cbn [l4_ok]. intros H. repeat (apply andb_true_iff in H as [H ?]). rewrite wire_l4. unfold dec_udp. walk. reflexivity.
Qed.

(* the payload dispatch of IPv4 (ICMP = 1) and of the end of an IPv6 chain (ICMPv6 = 58) *)
Lemma dec_l4_v4 p pr : l4_ok p = true -> l4_sel 1 p pr = true ->
  (if N.eqb pr 1 then dec_icmp (wire (l4_tree p)) else if N.eqb pr 17 then dec_udp (wire (l4_tree p)) else Ok (raw (wire (l4_tree p)))) = Ok (l4_tree p).
Proof.
  intros Hok Hs. destruct p; cbn [l4_sel] in Hs.
  - apply N.eqb_eq in Hs. subst pr. cbn [N.eqb Pos.eqb]. apply dec_icmp_rt, Hok.
  - apply N.eqb_eq in Hs. subst pr. cbn [N.eqb Pos.eqb]. apply dec_udp_rt, Hok.
  - apply negb_true_iff, orb_false_iff in Hs as [H1 H2]. rewrite H1, H2, wire_l4. reflexivity.
Qed.

(* ---------------------------------------------------------------- ARP, IPv4 *)
Record arprec := { a_ht : N ; a_pt : N ; a_op : N ; a_sha : list byte ; a_spa : list byte ; a_tha : list byte ; a_tpa : list byte }.
Definition arp_tree (a : arprec) : tree :=
  T KArp [VN (a_ht a); VN (a_pt a); VN 6; VN 4; VN (a_op a); VB (a_sha a); VB (a_spa a); VB (a_tha a); VB (a_tpa a)] [].
Definition arp_ok (a : arprec) : bool :=
  (a_ht a <? 65536) && (a_pt a <? 65536) && (a_op a <? 65536) && Nat.eqb (length (a_sha a)) 6 && Nat.eqb (length (a_spa a)) 4 &&
  Nat.eqb (length (a_tha a)) 6 && Nat.eqb (length (a_tpa a)) 4.

Lemma fit_exact k (b : list byte) : length b = k -> fit k b = b.
Proof. intros H. unfold fit. rewrite firstn_app, H, Nat.sub_diag, firstn_all2 by lia. cbn. apply app_nil_r. Qed.

Lemma dec_arp_rt a : arp_ok a = true -> dec_arp (wire (arp_tree a)) = Ok (arp_tree a).
Proof.
  unfold arp_ok. intros H. repeat (apply andb_true_iff in H as [H ?]).
  repeat match goal with Hx : Nat.eqb _ _ = true |- _ => apply Nat.eqb_eq in Hx end.
  assert (B1 : blen (a_sha a) = 6) by (unfold blen; lia). assert (B2 : blen (a_spa a) = 4) by (unfold blen; lia).
  assert (B3 : blen (a_tha a) = 6) by (unfold blen; lia). assert (B4 : blen (a_tpa a) = 4) by (unfold blen; lia).
  unfold arp_tree. cbn [wire layout enc_fields align8 flat_map]. rewrite !app_nil_r.
  unfold dec_arp. walk.
  replace (blen (be_bytes 2 (a_ht a) ++ be_bytes 2 (a_pt a) ++ be_bytes 1 6 ++ be_bytes 1 4 ++ be_bytes 2 (a_op a) ++ a_sha a ++ a_spa a ++ a_tha a ++ a_tpa a) - 8 <? 6 * 2 + 4 * 2)
    with false by (blens; nats; lia).
  change (8 + 6) with 14. change (14 + 4) with 18. change (18 + 6) with 24. change (24 + 4) with 28.
  walk. rewrite (sl_all (a_tpa a) 4 B4). cbn [bind]. rewrite (fit_exact 6 (a_sha a)), (fit_exact 4 (a_spa a)), (fit_exact 6 (a_tha a)), (fit_exact 4 (a_tpa a)) by assumption. reflexivity.
Qed.

Record ip4rec := { i4_b0 : N ; i4_b1 : N ; i4_len : N ; i4_id : N ; i4_ff : N ; i4_ttl : N ; i4_pr : N ; i4_cs : N ;
                   i4_src : list byte ; i4_dst : list byte ; i4_opts : list byte ; i4_pl : l4 }.
Definition ip4_tree (i : ip4rec) : tree :=
  T KIp4 [VN (i4_b0 i); VN (i4_b1 i); VN (i4_len i); VN (i4_id i); VN (i4_ff i); VN (i4_ttl i); VN (i4_pr i); VN (i4_cs i);
          VB (i4_src i); VB (i4_dst i); VB (i4_opts i)] [l4_tree (i4_pl i)].
Definition ip4_ok (i : ip4rec) : bool :=
  (i4_b0 i <? 256) && (5 <=? N.land (i4_b0 i) 15) && (i4_b1 i <? 256) && (i4_len i <? 65536) && (i4_id i <? 65536) && (i4_ff i <? 65536) &&
  (i4_ttl i <? 256) && (i4_pr i <? 256) && (i4_cs i <? 65536) && Nat.eqb (length (i4_src i)) 4 && Nat.eqb (length (i4_dst i)) 4 &&
  (N.of_nat (length (i4_opts i)) =? N.land (i4_b0 i) 15 * 4 - 20) && l4_ok (i4_pl i) && l4_sel 1 (i4_pl i) (i4_pr i).

Lemma dec_ip4_rt i : ip4_ok i = true -> dec_ip4 (wire (ip4_tree i)) = Ok (ip4_tree i).
Proof.
  unfold ip4_ok. intros H. repeat (apply andb_true_iff in H as [H ?]).
  repeat match goal with Hx : Nat.eqb _ _ = true |- _ => apply Nat.eqb_eq in Hx end.
  match goal with Hx : (N.of_nat (length (i4_opts i)) =? _) = true |- _ => apply N.eqb_eq in Hx; rename Hx into Hopt end.
  match goal with Hx : l4_ok _ = true |- _ => rename Hx into Hl4 end.
  match goal with Hx : l4_sel _ _ _ = true |- _ => rename Hx into Hsel end.
  assert (B1 : blen (i4_src i) = 4) by (unfold blen; lia). assert (B2 : blen (i4_dst i) = 4) by (unfold blen; lia).
  assert (Hihl : N.land (i4_b0 i) 15 < 16) by (change 15 with (N.ones 4); rewrite N.land_ones; apply N.mod_lt; discriminate).
  set (ihl := N.land (i4_b0 i) 15) in *.
  assert (B3 : blen (i4_opts i) = ihl * 4 - 20) by (unfold blen; exact Hopt).
  unfold ip4_tree. cbn [wire layout enc_fields align8 flat_map]. rewrite (fit_exact 4 (i4_src i)), (fit_exact 4 (i4_dst i)) by assumption.
  rewrite !app_nil_r, <- !app_assoc. set (P := wire (l4_tree (i4_pl i))).
  unfold dec_ip4. walk. fold ihl.
  replace (ihl <? 5) with false by lia. cbn [orb].
  match goal with |- context [blen ?d <? ihl * 4] => replace (blen d <? ihl * 4) with false by (blens; nats; lia) end.
  (* the options: data[20:IHL*4]; the payload from there *)
  rewrite (sl_skip (be_bytes 1 (i4_b0 i)) _ 20 (ihl * 4) 1) by (try apply blen_be; lia). change (20 - 1) with 19.
  rewrite (sl_skip (be_bytes 1 (i4_b1 i)) _ 19 (ihl * 4 - 1) 1) by (try apply blen_be; lia). change (19 - 1) with 18.
  rewrite (sl_skip (be_bytes 2 (i4_len i)) _ 18 _ 2) by (try apply blen_be; lia). change (18 - 2) with 16.
  rewrite (sl_skip (be_bytes 2 (i4_id i)) _ 16 _ 2) by (try apply blen_be; lia). change (16 - 2) with 14.
  rewrite (sl_skip (be_bytes 2 (i4_ff i)) _ 14 _ 2) by (try apply blen_be; lia). change (14 - 2) with 12.
  rewrite (sl_skip (be_bytes 1 (i4_ttl i)) _ 12 _ 1) by (try apply blen_be; lia). change (12 - 1) with 11.
  rewrite (sl_skip (be_bytes 1 (i4_pr i)) _ 11 _ 1) by (try apply blen_be; lia). change (11 - 1) with 10.
  rewrite (sl_skip (be_bytes 2 (i4_cs i)) _ 10 _ 2) by (try apply blen_be; lia). change (10 - 2) with 8.
  rewrite (sl_skip (i4_src i) _ 8 _ 4) by (try exact B1; lia). change (8 - 4) with 4.
  rewrite (sl_skip (i4_dst i) _ 4 _ 4) by (try exact B2; lia). change (4 - 4) with 0.
  rewrite (sl_here (i4_opts i) P) by lia. cbn [bind].
  rewrite (from_skip (be_bytes 1 (i4_b0 i)) _ (ihl * 4) 1) by (try apply blen_be; lia).
  rewrite (from_skip (be_bytes 1 (i4_b1 i)) _ _ 1) by (try apply blen_be; lia).
  rewrite (from_skip (be_bytes 2 (i4_len i)) _ _ 2) by (try apply blen_be; lia).
  rewrite (from_skip (be_bytes 2 (i4_id i)) _ _ 2) by (try apply blen_be; lia).
  rewrite (from_skip (be_bytes 2 (i4_ff i)) _ _ 2) by (try apply blen_be; lia).
  rewrite (from_skip (be_bytes 1 (i4_ttl i)) _ _ 1) by (try apply blen_be; lia).
  rewrite (from_skip (be_bytes 1 (i4_pr i)) _ _ 1) by (try apply blen_be; lia).
  rewrite (from_skip (be_bytes 2 (i4_cs i)) _ _ 2) by (try apply blen_be; lia).
  rewrite (from_skip (i4_src i) _ _ 4) by (try exact B1; lia).
  rewrite (from_skip (i4_dst i) _ _ 4) by (try exact B2; lia).
  rewrite (from_skip (i4_opts i) P _ (ihl * 4 - 20)) by (try exact B3; lia).
  replace (ihl * 4 - 1 - 1 - 2 - 2 - 2 - 1 - 1 - 2 - 4 - 4 - (ihl * 4 - 20)) with 0 by lia. rewrite from_zero. cbn [bind].
  unfold P. rewrite (dec_l4_v4 _ _ Hl4 Hsel). cbn [bind]. reflexivity.
Qed.

(* ---------------------------------------------------------------- IPv6 extension headers *)
(* options inside a hop-by-hop header: each is a type byte, a length byte and that many data
   bytes (this decoder reads a length byte behind every type, Pad1 included) *)
Fixpoint opts_wf (fuel : nat) (o : list byte) : bool :=
  match fuel with
  | O => false
  | S f => match o with
           | [] => true
           | [_] => false
           | _ :: l :: r => (b2n l <=? blen r) && opts_wf f (skipn (N.to_nat (b2n l)) r)
           end
  end.

Lemma check_opts_wf f : forall o rest n size, opts_wf f o = true -> n + blen o = size ->
  check_opts f n size (o ++ rest) = Ok tt.
Proof.
  induction f as [|f IH]; intros o rest n size Hw Hn; [discriminate|]. cbn [check_opts opts_wf] in *.
  destruct o as [|t [|l r]]; try discriminate.
  - cbn [blen length] in Hn. replace (size <=? n) with true by (unfold blen in Hn; cbn in Hn; lia). reflexivity.
  - apply andb_true_iff in Hw as [Hl Hr].
    assert (Hb : blen (t :: l :: r) = 2 + blen r) by (unfold blen; cbn [length]; lia).
    replace (size <=? n) with false by lia.
    replace (blen ((t :: l :: r) ++ rest) <? 2) with false by (rewrite blen_app, Hb; lia).
    assert (Hat : at_ ((t :: l :: r) ++ rest) 1 = Ok (b2n l)).
    { unfold at_. rewrite blen_app, Hb. replace (1 <? 2 + blen r + blen rest) with true by lia. reflexivity. }
    rewrite Hat. cbn [bind]. replace (blen ((t :: l :: r) ++ rest) - 2 <? b2n l) with false by (rewrite blen_app, Hb; lia).
    assert (Hfrom : from ((t :: l :: r) ++ rest) (b2n l + 2) = Ok (skipn (N.to_nat (b2n l)) r ++ rest)).
    { unfold from. rewrite blen_app, Hb. replace (b2n l + 2 <=? 2 + blen r + blen rest) with true by lia. f_equal.
      replace (N.to_nat (b2n l + 2)) with (S (S (N.to_nat (b2n l)))) by lia. cbn [app skipn].
      rewrite skipn_app. f_equal. replace (N.to_nat (b2n l) - length r)%nat with 0%nat by (unfold blen in Hl; lia). reflexivity. }
    rewrite Hfrom. cbn [bind]. apply IH; [exact Hr|]. unfold blen in *. rewrite skipn_length. lia.
Qed.

Lemma opts_wf_mono f : forall o f', opts_wf f o = true -> (f <= f')%nat -> opts_wf f' o = true.
Proof.
  induction f as [|f IH]; intros o f' Hw Hf; [discriminate|]. destruct f' as [|f']; [lia|]. cbn [opts_wf] in *.
  destruct o as [|t [|l r]]; try discriminate; [reflexivity|].
  apply andb_true_iff in Hw as [Hl Hr]. rewrite Hl. cbn [andb]. apply IH; [exact Hr|lia].
Qed.

Inductive ext := XHbh (hel : N) (area : list byte) | XRouting (hel rt sg : N) (rest : list byte) | XFrag (rs fr id : N).
Definition ext_no (x : ext) : N := match x with XHbh _ _ => 0 | XRouting _ _ _ _ => 43 | XFrag _ _ _ => 44 end.
Definition ext_tree (nh : N) (x : ext) : tree :=
  match x with
  | XHbh hel area => T KHbh [VN nh; VN hel; VB area] []
  | XRouting hel rt sg rest => T KRouting [VN nh; VN hel; VN rt; VN sg; VB rest] []
  | XFrag rs fr id => T KFragment [VN nh; VN rs; VN fr; VN id] []
  end.
Definition ext_ok (x : ext) : bool :=
  match x with
  | XHbh hel area => (hel <? 256) && (N.of_nat (length area) =? 8 * (hel + 1) - 2) && opts_wf (S (length area)) area
  | XRouting hel rt sg rest => (hel <? 256) && (rt <? 256) && (sg <? 256) && (N.of_nat (length rest) =? 8 * (hel + 1) - 4)
  | XFrag rs fr id => (rs <? 256) && (fr <? 65536) && (id <? 4294967296)
  end.

(* the trees of a chain: every header names the next one; [fin] is the number behind the last *)
Fixpoint chain_trees (xs : list ext) (fin : N) (p : l4) : list tree :=
  match xs with
  | [] => [l4_tree p]
  | x :: r => ext_tree (match r with [] => fin | y :: _ => ext_no y end) x :: chain_trees r fin p
  end.
Definition chain_first (xs : list ext) (fin : N) : N := match xs with [] => fin | x :: _ => ext_no x end.
Definition fin_ok (fin : N) (p : l4) : bool :=
  (fin <? 256) && negb ((fin =? 0) || (fin =? 43) || (fin =? 44)) && l4_sel 58 p fin.

Lemma ext_size x nh : ext_ok x = true ->
  blen (wire (ext_tree nh x)) = match x with XHbh hel _ | XRouting hel _ _ _ => 8 * (hel + 1) | XFrag _ _ _ => 8 end.
Proof.
  destruct x; cbn [ext_ok ext_tree]; intros H; repeat (apply andb_true_iff in H as [H ?]);
    cbn [wire layout enc_fields align8 flat_map]; rewrite !app_nil_r; blens; nats; try reflexivity.
  all: match goal with Hx : (N.of_nat (length _) =? _) = true |- _ => apply N.eqb_eq in Hx end; unfold blen; lia.
Qed.

Lemma dec_chain_rt : forall xs fin p rest0 fuel, forallb ext_ok xs = true -> l4_ok p = true -> fin_ok fin p = true ->
  (length (flat_map wire (chain_trees xs fin p)) < fuel)%nat -> rest0 = [] ->
  dec_chain fuel (chain_first xs fin) (flat_map wire (chain_trees xs fin p) ++ rest0) = Ok (chain_trees xs fin p).
Proof.
  induction xs as [|x r IH]; intros fin p rest0 fuel Hxs Hp Hfin Hf ->; (destruct fuel as [|fuel]; [lia|]); cbn [chain_trees chain_first flat_map dec_chain].
  - (* the end of the chain *)
    rewrite !app_nil_r. unfold fin_ok in Hfin. apply andb_true_iff in Hfin as [Hfin Hsel]. apply andb_true_iff in Hfin as [Hlt Hne].
    apply negb_true_iff in Hne. apply orb_false_iff in Hne as [Hne H44]. apply orb_false_iff in Hne as [H0 H43]. rewrite H0, H43, H44.
    destruct p; cbn [l4_sel] in Hsel.
    + apply N.eqb_eq in Hsel. subst fin. cbn [N.eqb Pos.eqb]. rewrite dec_icmp_rt by exact Hp. reflexivity.
    + apply N.eqb_eq in Hsel. subst fin. cbn [N.eqb Pos.eqb]. rewrite dec_udp_rt by exact Hp. reflexivity.
    + apply negb_true_iff, orb_false_iff in Hsel as [H58 H17]. rewrite H58, H17, wire_l4. reflexivity.
  - cbn [forallb] in Hxs. apply andb_true_iff in Hxs as [Hx Hr].
    set (nh := match r with [] => fin | y :: _ => ext_no y end).
    assert (Hnh : nh = chain_first r fin) by reflexivity.
    assert (Hnhlt : nh < 256).
    { subst nh. destruct r as [|y r']; [unfold fin_ok in Hfin; repeat (apply andb_true_iff in Hfin as [Hfin ?]); lia|destruct y; cbn; lia]. }
    cbn [chain_trees flat_map] in Hf. fold nh in Hf. set (R := flat_map wire (chain_trees r fin p)) in *. rewrite !app_nil_r. rewrite app_length in Hf.
    pose proof (ext_size x nh Hx) as Hsz. unfold blen in Hsz.
    destruct x as [hel area|hel rt sg rest|rs fr id]; cbn [ext_no N.eqb Pos.eqb ext_ok ext_tree] in *.
    + (* hop-by-hop *)
      repeat (apply andb_true_iff in Hx as [Hx ?]).
      match goal with Hy : (N.of_nat (length area) =? _) = true |- _ => apply N.eqb_eq in Hy; rename Hy into Harea end.
      match goal with Hy : opts_wf _ area = true |- _ => rename Hy into Hopts end.
      assert (Ba : blen area = 8 * (hel + 1) - 2) by exact Harea.
      cbn [wire layout enc_fields align8 flat_map]. rewrite !app_nil_r, <- !app_assoc.
      unfold dec_hbh. walk.
      replace (blen (be_bytes 1 nh ++ be_bytes 1 hel ++ area ++ R) <? 8 * (hel + 1)) with false by (blens; nats; lia).
      rewrite (sl_skip (be_bytes 1 nh) _ 2 (8 * (hel + 1)) 1) by (try apply blen_be; lia). change (2 - 1) with 1.
      rewrite (sl_skip (be_bytes 1 hel) _ 1 (8 * (hel + 1) - 1) 1) by (try apply blen_be; lia). change (1 - 1) with 0.
      rewrite (sl_here area R) by lia. cbn [bind].
      rewrite (check_opts_wf _ area R 2 (8 * (hel + 1))); [|apply (opts_wf_mono _ _ _ Hopts); rewrite !app_length; cbn; lia|lia].
      cbn [bind].
      rewrite (from_skip (be_bytes 1 nh) _ (8 * (hel + 1)) 1) by (try apply blen_be; lia).
      rewrite (from_skip (be_bytes 1 hel) _ _ 1) by (try apply blen_be; lia).
      rewrite (from_skip area R _ (8 * (hel + 1) - 2)) by (try exact Ba; lia).
      replace (8 * (hel + 1) - 1 - 1 - (8 * (hel + 1) - 2)) with 0 by lia. rewrite from_zero. cbn [bind].
      rewrite Hnh. pose proof (IH fin p [] fuel Hr Hp Hfin) as HH. rewrite app_nil_r in HH. fold R in HH. rewrite HH by (try reflexivity; lia). reflexivity.
    + (* routing *)
      repeat (apply andb_true_iff in Hx as [Hx ?]).
      match goal with Hy : (N.of_nat (length rest) =? _) = true |- _ => apply N.eqb_eq in Hy; rename Hy into Hrest end.
      assert (Br : blen rest = 8 * (hel + 1) - 4) by exact Hrest.
      cbn [wire layout enc_fields align8 flat_map]. rewrite !app_nil_r, <- !app_assoc.
      unfold dec_routing. walk.
      replace (blen (be_bytes 1 nh ++ be_bytes 1 hel ++ be_bytes 1 rt ++ be_bytes 1 sg ++ rest ++ R) <? 8 * (hel + 1)) with false by (blens; nats; lia).
      walk.
      rewrite (sl_skip (be_bytes 1 nh) _ 4 (8 * (hel + 1)) 1) by (try apply blen_be; lia). change (4 - 1) with 3.
      rewrite (sl_skip (be_bytes 1 hel) _ 3 _ 1) by (try apply blen_be; lia). change (3 - 1) with 2.
      rewrite (sl_skip (be_bytes 1 rt) _ 2 _ 1) by (try apply blen_be; lia). change (2 - 1) with 1.
      rewrite (sl_skip (be_bytes 1 sg) _ 1 _ 1) by (try apply blen_be; lia). change (1 - 1) with 0.
      rewrite (sl_here rest R) by lia. cbn [bind].
      rewrite (from_skip (be_bytes 1 nh) _ (8 * (hel + 1)) 1) by (try apply blen_be; lia).
      rewrite (from_skip (be_bytes 1 hel) _ _ 1) by (try apply blen_be; lia).
      rewrite (from_skip (be_bytes 1 rt) _ _ 1) by (try apply blen_be; lia).
      rewrite (from_skip (be_bytes 1 sg) _ _ 1) by (try apply blen_be; lia).
      rewrite (from_skip rest R _ (8 * (hel + 1) - 4)) by (try exact Br; lia).
      replace (8 * (hel + 1) - 1 - 1 - 1 - 1 - (8 * (hel + 1) - 4)) with 0 by lia. rewrite from_zero. cbn [bind].
      rewrite Hnh. pose proof (IH fin p [] fuel Hr Hp Hfin) as HH. rewrite app_nil_r in HH. fold R in HH. rewrite HH by (try reflexivity; lia). reflexivity.
    + (* fragment *)
      repeat (apply andb_true_iff in Hx as [Hx ?]).
      cbn [wire layout enc_fields align8 flat_map]. rewrite !app_nil_r, <- !app_assoc.
      unfold dec_fragment. walk.
      rewrite Hnh. pose proof (IH fin p [] fuel Hr Hp Hfin) as HH. rewrite app_nil_r in HH. fold R in HH. rewrite HH by (try reflexivity; lia). reflexivity.
Qed.

(* ---------------------------------------------------------------- IPv6, Ethernet *)
Record ip6rec := { i6_w0 : N ; i6_len : N ; i6_hop : N ; i6_src : list byte ; i6_dst : list byte ;
                   i6_exts : list ext ; i6_fin : N ; i6_pl : l4 }.
Definition ip6_tree (i : ip6rec) : tree :=
  T KIp6 [VN (i6_w0 i); VN (i6_len i); VN (chain_first (i6_exts i) (i6_fin i)); VN (i6_hop i); VB (i6_src i); VB (i6_dst i)]
    (chain_trees (i6_exts i) (i6_fin i) (i6_pl i)).
Definition ip6_ok (i : ip6rec) : bool :=
  (i6_w0 i <? 4294967296) && (i6_len i <? 65536) && (i6_hop i <? 256) && Nat.eqb (length (i6_src i)) 16 && Nat.eqb (length (i6_dst i)) 16 &&
  forallb ext_ok (i6_exts i) && l4_ok (i6_pl i) && fin_ok (i6_fin i) (i6_pl i).

Lemma dec_ip6_rt i : ip6_ok i = true -> dec_ip6 (wire (ip6_tree i)) = Ok (ip6_tree i).
Proof.
  unfold ip6_ok. intros H. repeat (apply andb_true_iff in H as [H ?]).
  repeat match goal with Hx : Nat.eqb _ _ = true |- _ => apply Nat.eqb_eq in Hx end.
  match goal with Hx : forallb ext_ok _ = true |- _ => rename Hx into Hxs end.
  match goal with Hx : l4_ok _ = true |- _ => rename Hx into Hl4 end.
  match goal with Hx : fin_ok _ _ = true |- _ => rename Hx into Hfin end.
  assert (B1 : blen (i6_src i) = 16) by (unfold blen; lia). assert (B2 : blen (i6_dst i) = 16) by (unfold blen; lia).
  set (nh := chain_first (i6_exts i) (i6_fin i)).
  assert (Hnh : nh < 256).
  { subst nh. destruct (i6_exts i) as [|y r]; [unfold fin_ok in Hfin; repeat (apply andb_true_iff in Hfin as [Hfin ?]); cbn; lia|destruct y; cbn; lia]. }
  unfold ip6_tree. fold nh. cbn [wire layout enc_fields align8]. rewrite (fit_exact 16 (i6_src i)), (fit_exact 16 (i6_dst i)) by assumption.
  rewrite <- !app_assoc. cbn [app]. set (R := flat_map wire (chain_trees (i6_exts i) (i6_fin i) (i6_pl i))).
  unfold dec_ip6. walk.
  pose proof (dec_chain_rt (i6_exts i) (i6_fin i) (i6_pl i) [] (S (length R)) Hxs Hl4 Hfin) as HH. fold R in HH. fold nh in HH. rewrite app_nil_r in HH.
  rewrite HH by (try reflexivity; lia). cbn [bind]. reflexivity.
Qed.

Inductive l3 := L3Ip4 (i : ip4rec) | L3Ip6 (i : ip6rec) | L3Arp (a : arprec) | L3Raw (bs : list byte).
Definition l3_tree (p : l3) : tree :=
  match p with L3Ip4 i => ip4_tree i | L3Ip6 i => ip6_tree i | L3Arp a => arp_tree a | L3Raw bs => raw bs end.
Definition l3_ok (p : l3) : bool :=
  match p with L3Ip4 i => ip4_ok i | L3Ip6 i => ip6_ok i | L3Arp a => arp_ok a | L3Raw _ => true end.
Definition l3_sel (p : l3) (et : N) : bool :=
  match p with L3Ip4 _ => et =? 2048 | L3Ip6 _ => et =? 34525 | L3Arp _ => et =? 2054
             | L3Raw _ => negb ((et =? 2048) || (et =? 34525) || (et =? 2054)) end.

Lemma dec_payload_rt p et : l3_ok p = true -> l3_sel p et = true -> dec_payload et (wire (l3_tree p)) = Ok (l3_tree p).
Proof.
  intros Hok Hs. unfold dec_payload. destruct p; cbn [l3_sel l3_ok l3_tree] in *.
  - apply N.eqb_eq in Hs. subst et. cbn [N.eqb Pos.eqb]. apply dec_ip4_rt, Hok.
  - apply N.eqb_eq in Hs. subst et. cbn [N.eqb Pos.eqb]. apply dec_ip6_rt, Hok.
  - apply N.eqb_eq in Hs. subst et. cbn [N.eqb Pos.eqb]. apply dec_arp_rt, Hok.
  - apply negb_true_iff in Hs. apply orb_false_iff in Hs as [Hs H3]. apply orb_false_iff in Hs as [H1 H2]. rewrite H1, H2, H3.
    unfold raw. cbn [wire layout enc_fields align8 flat_map]. rewrite !app_nil_r. reflexivity.
Qed.

(* an Ethernet frame: addresses, an optional 802.1Q tag (a tag whose TCI is 0 - no VLAN, priority
   0, no DEI - is the untagged frame for this library), the ethertype, the payload *)
Record ethrec := { e_dst : list byte ; e_src : list byte ; e_tci : option N ; e_type : N ; e_pl : l3 }.
Definition eth_tree (e : ethrec) : tree :=
  T KEth [VB (e_dst e); VB (e_src e)]
    ((match e_tci e with Some tci => [T KVlan [VN 33024; VN tci] []] | None => [] end) ++ [T KU16 [VN (e_type e)] []; l3_tree (e_pl e)]).
Definition eth_ok (e : ethrec) : bool :=
  Nat.eqb (length (e_dst e)) 6 && Nat.eqb (length (e_src e)) 6 && (e_type e <? 65536) &&
  (match e_tci e with Some tci => (tci <? 65536) && negb (tci =? 0) | None => negb (e_type e =? 33024) end) &&
  l3_ok (e_pl e) && l3_sel (e_pl e) (e_type e).

Theorem dec_eth_rt e : eth_ok e = true -> dec_eth (wire (eth_tree e)) = Ok (eth_tree e).
Proof.
  unfold eth_ok. intros H. repeat (apply andb_true_iff in H as [H ?]).
  repeat match goal with Hx : Nat.eqb _ _ = true |- _ => apply Nat.eqb_eq in Hx end.
  match goal with Hx : l3_ok _ = true |- _ => rename Hx into Hl3 end.
  match goal with Hx : l3_sel _ _ = true |- _ => rename Hx into Hsel end.
  assert (B1 : blen (e_dst e) = 6) by (unfold blen; lia). assert (B2 : blen (e_src e) = 6) by (unfold blen; lia).
  pose proof (dec_payload_rt _ _ Hl3 Hsel) as Hp. set (P := wire (l3_tree (e_pl e))) in *.
  unfold eth_tree. destruct (e_tci e) as [tci|] eqn:Etci.
  - match goal with Hx : (_ && _) = true |- _ => apply andb_true_iff in Hx as [Ht Hv] end. apply negb_true_iff in Hv.
    cbn [app wire layout enc_fields align8 flat_map]. rewrite (fit_exact 6 (e_dst e)), (fit_exact 6 (e_src e)) by assumption.
    rewrite !app_nil_r, <- !app_assoc. cbn [app]. fold P.
    unfold dec_eth. walk. rewrite Hp. cbn [bind]. rewrite Hv. reflexivity.
  - match goal with Hx : negb (e_type e =? 33024) = true |- _ => apply negb_true_iff in Hx; rename Hx into Hne end.
    cbn [app wire layout enc_fields align8 flat_map]. rewrite (fit_exact 6 (e_dst e)), (fit_exact 6 (e_src e)) by assumption.
    rewrite !app_nil_r, <- !app_assoc. cbn [app]. fold P.
    unfold dec_eth. walk. rewrite Hne. walk. rewrite Hp. cbn [bind]. reflexivity.
Qed.

(* non-vacuity: a tagged IPv6 frame with a hop-by-hop header (Router Alert + PadN), a routing and a
   fragment header in front of UDP *)
Example eth_example_ok :
  eth_ok {| e_dst := [x01;x02;x03;x04;x05;x06]; e_src := [x0a;x0b;x0c;x0d;x0e;x0f]; e_tci := Some 40965; e_type := 34525;
            e_pl := L3Ip6 {| i6_w0 := 1610612736; i6_len := 44; i6_hop := 64; i6_src := zeros 16; i6_dst := zeros 16;
                             i6_exts := [XHbh 0 [x05;x02;x00;x00;x01;x00]; XRouting 1 0 0 (zeros 12); XFrag 0 8 77];
                             i6_fin := 17; i6_pl := L4Udp 53 4242 12 0 [x01;x02;x03;x04] |} |} = true.
Proof. vm_compute. reflexivity. Qed.

(* TCP (decoded on its own: the frame decoder does not descend into it) *)
Lemma dec_tcp_rt sp dp sq ak b12 code win cs urg rest :
  sp < 65536 -> dp < 65536 -> sq < 4294967296 -> ak < 4294967296 -> b12 < 256 -> code < 256 -> win < 65536 -> cs < 65536 -> urg < 65536 ->
  pack_tcp_off (unpack_tcp_off b12) = b12 -> mask_tcp_code code = code ->
  let t := T KTcp [VN sp; VN dp; VN sq; VN ak; VN b12; VN code; VN win; VN cs; VN urg; VB rest] [] in
  dec_tcp (wire t) = Ok t.
Proof.
  intros Hsp Hdp Hsq Hak Hb Hc Hw Hcs Hu Hoff Hcode t. subst t.
  cbn [wire layout enc_fields align8 flat_map]. rewrite !app_nil_r. unfold dec_tcp. walk. rewrite Hoff, Hcode. reflexivity.
Qed.
