(* C05 for all recipes: messages through the parser entry point. *)
From Coq Require Import NArith ZArith Arith List Bool Lia ZifyN ZifyBool ZifyNat.
From Coq.Strings Require Import Byte.
From LOF Require Import Base.Bytes Base.Res Model.Wire Model.Build Model.Proto Model.Parse Spec.Walk
  Proofs.WireP Proofs.BuildP Proofs.NormP Proofs.WalkP Proofs.WalkAllP Proofs.WalkMsgP Proofs.SegP
  Proofs.ParseRtAllP Proofs.ParseRtAll2P Proofs.ParseRtAll3P Proofs.ParseRtAll4P.
Import ListNotations.
Open Scope N_scope.
Ltac Zify.zify_post_hook ::= Z.div_mod_to_equations.
Local Notation blen := Proto.blen.

(* the header reads on the bytes of a message *)
Lemma msg_header_reads ty L xid B : ty < 256 -> L < 65536 -> xid < 4294967296 ->
  let d := msgbytes ty L xid B in
  at_ d 1 = Ok ty /\ dec_ofheader d = Ok [VN 4; VN ty; VN L; VN xid] /\ ofheader_lenient d = Ok [VN 4; VN ty; VN L; VN xid] /\
  blen d = 8 + blen B.
Proof.
  intros Ht HL Hx d. subst d. unfold msgbytes.
  assert (Hb : blen (be_bytes 1 4 ++ be_bytes 1 ty ++ be_bytes 2 L ++ be_bytes 4 xid ++ B) = 8 + blen B) by (blens; nats; lia).
  assert (Hh : dec_ofheader (be_bytes 1 4 ++ be_bytes 1 ty ++ be_bytes 2 L ++ be_bytes 4 xid ++ B) = Ok [VN 4; VN ty; VN L; VN xid]).
  { unfold dec_ofheader. rewrite Hb. replace (8 + blen B <? 4) with false by lia. seg. reflexivity. }
  repeat split; try assumption.
  - seg. reflexivity.
  - unfold ofheader_lenient. rewrite Hh. reflexivity.
Qed.

(* messages whose body is a fixed layout of numbers *)
Lemma parse_body_header_only pi ty xid : existsb (N.eqb ty) [2; 3; 5; 7; 20] = true -> xid < 4294967296 ->
  parse_body pi (wire (norm (build_m xid (MHeader ty)))) = Ok (norm (build_m xid (MHeader ty))).
Proof.
  intros Hty Hx. cbn [build_m]. cbn [existsb] in Hty.
  replace (norm (T KHeaderOnly (hdr ty xid) [])) with (T KHeaderOnly (hdr ty xid) []) by reflexivity.
  assert (Hw : wire (T KHeaderOnly (hdr ty xid) []) = msgbytes ty 8 xid []).
  { unfold hdr. replace [VN 4; VN ty; VN 8; VN xid] with ([VN 4; VN ty; VN 8; VN xid] ++ []) by apply app_nil_r.
    rewrite (wire_msg KHeaderOnly ty 8 xid [] [] [] eq_refl eq_refl). reflexivity. }
  rewrite Hw. destruct (msg_header_reads ty 8 xid [] ltac:(lia) ltac:(lia) Hx) as (H1 & H2 & H3 & H4).
  unfold parse_body. rewrite H1. cbn [bind].
  replace (ty =? 0) with false by lia. replace (ty =? 1) with false by lia.
  replace ((ty =? 2) || (ty =? 3) || (ty =? 5) || (ty =? 7) || (ty =? 20) || (ty =? 21)) with true by lia.
  rewrite H2. reflexivity.
Qed.

Ltac pb_start ty L xid B :=
  let H1 := fresh "H1" in let H2 := fresh "H2" in let H3 := fresh "H3" in let H4 := fresh "H4" in
  destruct (msg_header_reads ty L xid B ltac:(lia) ltac:(lia) ltac:(lia)) as (H1 & H2 & H3 & H4);
  unfold parse_body; rewrite H1; cbn [bind N.eqb Pos.eqb orb]; rewrite ?H2, ?H3; cbn [bind]; clear H1 H2 H3.

Lemma parse_body_setconfig pi f ms xid : f < 65536 -> ms < 65536 -> xid < 4294967296 ->
  parse_body pi (wire (norm (build_m xid (MSetConfig f ms)))) = Ok (norm (build_m xid (MSetConfig f ms))).
Proof.
  intros Hf Hm Hx. cbn [build_m].
  assert (Hv : vals_ok [FU 2; FU 2] [VN f; VN ms] = true).
  { cbn [vals_ok]. change (256 ^ N.of_nat 2) with 65536. replace (f <? 65536) with true by lia. replace (ms <? 65536) with true by lia. reflexivity. }
  destruct (sdec_simple_msg KSwitchConfig 9 xid [FU 2; FU 2] [VN f; VN ms] eq_refl eq_refl eq_refl eq_refl eq_refl eq_refl Hv
              ltac:(lia) Hx 12 eq_refl ltac:(lia)) as (Hn & Hw & Hb & Hs).
  rewrite Hn, Hw. pb_start 9 12 xid (enc_fields [FU 2; FU 2] [VN f; VN ms]).
  unfold msgbytes. cbn [enc_fields]. seg. reflexivity.
Qed.

Lemma parse_body_portmod pi p hw c mk adv xid : p < 4294967296 -> c < 4294967296 -> mk < 4294967296 -> adv < 4294967296 -> xid < 4294967296 ->
  parse_body pi (wire (norm (build_m xid (MPortMod p hw c mk adv)))) = Ok (canon (norm (build_m xid (MPortMod p hw c mk adv)))).
Proof.
  intros Hp Hc Hm Ha Hx. cbn [build_m].
  destruct (msg_form KPortMod 16 xid [FU 4; FZ 4; FB 6; FZ 2; FU 4; FU 4; FU 4; FZ 4] [VN p; VB hw; VN c; VN mk; VN adv] [] eq_refl eq_refl eq_refl eq_refl eq_refl) as [Hn Hw].
  rewrite Hn, Hw. cbn [canon map flat_map enc_fields fields_len sumN fold_right app]. rewrite !app_nil_r. nats.
  replace (8 + (4 + (4 + (6 + (2 + (4 + (4 + (4 + (4 + 0)))))))) + 0) with 40 by reflexivity.
  set (B := be_bytes 4 p ++ zeros 4 ++ fit 6 hw ++ zeros 2 ++ be_bytes 4 c ++ be_bytes 4 mk ++ be_bytes 4 adv ++ zeros 4).
  pb_start 16 40 xid B. unfold msgbytes, B. rewrite <- ?app_assoc.
  dec_walk.
  (* the address: data[16:] cut to 6 bytes *)
  assert (Hfit : forall Y, fit 6 (fit 6 hw ++ Y) = fit 6 hw).
  { intros Y. unfold fit at 1. rewrite <- app_assoc. apply firstn_app_exact. rewrite length_fit. reflexivity. }
  rewrite Hfit. reflexivity.
Qed.

(* experimenter messages: the body handed to decodeVendorData *)
Lemma parse_body_vendor pi v et L xid B' : v < 4294967296 -> et < 4294967296 -> L < 65536 -> xid < 4294967296 -> 16 + blen B' = L ->
  parse_body pi (msgbytes 4 L xid (be_bytes 4 v ++ be_bytes 4 et ++ B')) =
  (if 16 <? L then (ks <- dec_vendor_data pi et B' ;; Ok (T KVendor ([VN 4; VN 4; VN L; VN xid] ++ [VN v; VN et]) ks))%res
   else Ok (T KVendor ([VN 4; VN 4; VN L; VN xid] ++ [VN v; VN et]) [])).
Proof.
  intros Hv He HL Hx Hlen. pb_start 4 L xid (be_bytes 4 v ++ be_bytes 4 et ++ B').
  replace (blen (msgbytes 4 L xid (be_bytes 4 v ++ be_bytes 4 et ++ B')) <? 16) with false by (rewrite H4; blens; nats; lia).
  unfold msgbytes. rewrite <- ?app_assoc. seg. unfold hdr_len. cbn [vnum nth].
  destruct (16 <? L) eqn:E; [|reflexivity].
  rewrite (sl_skip (be_bytes 1 4) _ 16 L 1) by (try apply blen_be; lia). change (16 - 1) with 15.
  rewrite (sl_skip (be_bytes 1 4) _ 15 (L - 1) 1) by (try apply blen_be; lia). change (15 - 1) with 14.
  rewrite (sl_skip (be_bytes 2 L) _ 14 (L - 1 - 1) 2) by (try apply blen_be; lia). change (14 - 2) with 12.
  rewrite (sl_skip (be_bytes 4 xid) _ 12 (L - 1 - 1 - 2) 4) by (try apply blen_be; lia). change (12 - 4) with 8.
  rewrite (sl_skip (be_bytes 4 v) _ 8 (L - 1 - 1 - 2 - 4) 4) by (try apply blen_be; lia). change (8 - 4) with 4.
  rewrite (sl_skip (be_bytes 4 et) _ 4 (L - 1 - 1 - 2 - 4 - 4) 4) by (try apply blen_be; lia). change (4 - 4) with 0.
  pose proof (sl_here B' [] (L - 1 - 1 - 2 - 4 - 4 - 4)) as Hs. rewrite app_nil_r in Hs. rewrite Hs by lia. cbn [bind]. reflexivity.
Qed.

Lemma parse_body_setcontrollerid pi id xid : id < 65536 -> xid < 4294967296 ->
  parse_body pi (wire (norm (build_m xid (MSetControllerID id)))) = Ok (norm (build_m xid (MSetControllerID id))).
Proof.
  intros Hi Hx. cbn [build_m].
  destruct (msg_form KVendor 4 xid [FU 4; FU 4] [VN NXID; VN 20] [T KControllerID [VN id] []] eq_refl eq_refl eq_refl eq_refl eq_refl) as [Hn Hw].
  rewrite Hn, Hw. cbn [map norm writeback flat_map wire layout enc_fields align8 fields_len glen lenrule_of lenround sumN fold_right].
  rewrite !app_nil_r. nats. change (N.of_nat 6) with 6.
  replace (8 + (4 + (4 + 0)) + (6 + (2 + 0) + 0 + 0)) with 24 by reflexivity. rewrite <- !app_assoc.
  unfold NXID. rewrite parse_body_vendor by (try lia; blens; nats; reflexivity).
  cbn [N.ltb N.compare Pos.compare Pos.compare_cont]. unfold dec_vendor_data. cbn [N.eqb Pos.eqb].
  ifblen. seg. reflexivity.
Qed.

Lemma parse_body_bundlectrl pi id ty fl xid : id < 4294967296 -> ty < 65536 -> fl < 65536 -> xid < 4294967296 ->
  parse_body pi (wire (norm (build_m xid (MBundleCtrl id ty fl)))) = Ok (norm (build_m xid (MBundleCtrl id ty fl))).
Proof.
  intros Hi Ht Hf Hx. cbn [build_m].
  destruct (msg_form KVendor 4 xid [FU 4; FU 4] [VN 1330529792; VN 2300] [T KBundleCtrl [VN id; VN ty; VN fl] []] eq_refl eq_refl eq_refl eq_refl eq_refl) as [Hn Hw].
  rewrite Hn, Hw. cbn [map norm writeback flat_map wire layout enc_fields align8 fields_len glen lenrule_of lenround sumN fold_right].
  rewrite !app_nil_r. nats.
  replace (8 + (4 + (4 + 0)) + (4 + (2 + (2 + 0)) + 0 + 0)) with 24 by reflexivity. rewrite <- !app_assoc.
  rewrite parse_body_vendor by (try lia; blens; nats; reflexivity).
  cbn [N.ltb N.compare Pos.compare Pos.compare_cont]. unfold dec_vendor_data. cbn [N.eqb Pos.eqb].
  ifblen. cbn [read_vals]. seg. reflexivity.
Qed.

Lemma parse_body_tlvtablereq pi xid : xid < 4294967296 ->
  parse_body pi (wire (norm (build_m xid MTlvTableReq))) = Ok (norm (build_m xid MTlvTableReq)).
Proof.
  intros Hx. cbn [build_m].
  destruct (msg_form KVendor 4 xid [FU 4; FU 4] [VN NXID; VN 25] [] eq_refl eq_refl eq_refl eq_refl eq_refl) as [Hn Hw].
  rewrite Hn, Hw. cbn [map flat_map enc_fields fields_len sumN fold_right]. rewrite !app_nil_r. nats.
  replace (8 + (4 + (4 + 0)) + 0) with 16 by reflexivity.
  pose proof (parse_body_vendor pi 8992 25 16 xid [] ltac:(lia) ltac:(lia) ltac:(lia) Hx eq_refl) as H. rewrite app_nil_r in H.
  unfold NXID. rewrite H. reflexivity.
Qed.

(* tlv-table-mod *)
Lemma dec_tlvmaps_built maps : forallb map_ok maps = true -> forall fuel P, (length maps < fuel)%nat ->
  dec_tlvmaps fuel (P ++ flat_map wire (map mk_map maps)) (blen P) = Ok (map mk_map maps).
Proof.
  induction maps as [|p r IH]; intros H fuel P Hf; cbn [map flat_map forallb length] in *.
  - destruct fuel; [lia|]. cbn [dec_tlvmaps]. rewrite app_nil_r. replace (blen P <=? blen P) with true by lia. reflexivity.
  - apply andb_true_iff in H as [Hp Hr]. destruct fuel as [|fuel]; [lia|]. cbn [dec_tlvmaps].
    destruct (wire_mk_map p) as [Hw Hl].
    rewrite !blen_app. unfold blen at 2. rewrite Hl.
    replace (blen P + (N.of_nat 8 + blen (flat_map wire (map mk_map r))) <=? blen P) with false by lia.
    rewrite (from_skip P _ (blen P) (blen P)) by (try reflexivity; lia). rewrite N.sub_diag, from_zero. cbn [bind].
    rewrite !blen_app. unfold blen at 1. rewrite Hl. replace (N.of_nat 8 + blen (flat_map wire (map mk_map r)) <? 8) with false by lia.
    destruct p as [[[c t] l] i]. cbn [mk_map map_ok] in *. repeat (apply andb_true_iff in Hp as [Hp ?]).
    rewrite Hw. cbn [tvals enc_fields read_vals]. rewrite <- !app_assoc. cbn [app]. seg.
    replace (blen P + 8) with (blen (P ++ be_bytes 2 c ++ be_bytes 1 t ++ be_bytes 1 l ++ be_bytes 2 i ++ zeros 2)) by (blens; nats; lia).
    replace (P ++ be_bytes 2 c ++ be_bytes 1 t ++ be_bytes 1 l ++ be_bytes 2 i ++ zeros 2 ++ flat_map wire (map mk_map r))
      with ((P ++ be_bytes 2 c ++ be_bytes 1 t ++ be_bytes 1 l ++ be_bytes 2 i ++ zeros 2) ++ flat_map wire (map mk_map r))
      by (rewrite <- !app_assoc; reflexivity).
    rewrite IH by (try exact Hr; lia). cbn [bind]. reflexivity.
Qed.

Lemma parse_body_tlvtablemod pi cmd maps xid : cmd < 65536 -> forallb map_ok maps = true -> N.of_nat (length maps) < 8000 -> xid < 4294967296 ->
  parse_body pi (wire (norm (build_m xid (MTlvTableMod cmd maps)))) = Ok (norm (build_m xid (MTlvTableMod cmd maps))).
Proof.
  intros Hc Hm Hsz Hx. cbn [build_m].
  change (map (fun p : N * N * N * N => let '(c, t, l, i) := p in T KTlvMap [VN c; VN t; VN l; VN i] []) maps) with (map mk_map maps).
  destruct (msg_form KVendor 4 xid [FU 4; FU 4] [VN NXID; VN 24] [T KTlvTableMod [VN cmd] (map mk_map maps)] eq_refl eq_refl eq_refl eq_refl eq_refl) as [Hn Hw].
  rewrite Hn, Hw. clear Hn Hw.
  cbn [map norm writeback flat_map wire layout enc_fields align8 fields_len glen lenrule_of lenround sumN fold_right].
  rewrite norm_mk_maps, glen_mk_maps. rewrite !app_nil_r. nats. change (N.of_nat 6) with 6.
  set (X := flat_map wire (map mk_map maps)). pose proof (len_mk_maps maps) as HX. fold X in HX.
  set (L := 8 + (4 + (4 + 0)) + (2 + (6 + 0) + 8 * N.of_nat (length maps) + 0)). rewrite <- !app_assoc. unfold NXID.
  rewrite parse_body_vendor by (try (subst L; lia); blens; nats; unfold blen; subst L; lia).
  replace (16 <? L) with true by (subst L; lia).
  unfold dec_vendor_data. cbn [N.eqb Pos.eqb].
  replace (blen (be_bytes 2 cmd ++ zeros 6 ++ X) <? 8) with false by (blens; nats; lia).
  seg.
  replace (be_bytes 2 cmd ++ zeros 6 ++ X) with ((be_bytes 2 cmd ++ zeros 6) ++ X) by (rewrite <- app_assoc; reflexivity).
  pose proof (dec_tlvmaps_built maps Hm (S (length ((be_bytes 2 cmd ++ zeros 6) ++ X))) (be_bytes 2 cmd ++ zeros 6)) as HH.
  fold X in HH. change (blen (be_bytes 2 cmd ++ zeros 6)) with 8 in HH. rewrite HH by (rewrite !app_length; lia). cbn [bind]. reflexivity.
Qed.

Lemma parse_body_hello pi xid : xid < 4294967296 ->
  parse_body pi (wire (norm (build_m xid MHello))) = Ok (norm (build_m xid MHello)).
Proof.
  intros Hx. cbn [build_m].
  replace (hdr 0 xid) with (hdr 0 xid ++ []) by apply app_nil_r.
  destruct (msg_form KHello 0 xid [] [] [T KHelloElemBitmap [VN 1; VN 8; VB (be32 18)] []] eq_refl eq_refl eq_refl eq_refl eq_refl) as [Hn Hw].
  set (E := T KHelloElemBitmap [VN 1; VN 8; VB (be32 18)] []) in *.
  assert (HL : 8 + fields_len [] [] + sumN (map glen (map norm [E])) = 16) by reflexivity.
  assert (HB : enc_fields [] [] ++ flat_map wire (map norm [E]) = be_bytes 2 1 ++ be_bytes 2 8 ++ be32 18) by reflexivity.
  assert (HN : map norm [E] = [E]) by reflexivity.
  rewrite HL, HB, HN in *. rewrite Hn, Hw. rewrite !app_nil_r. subst E.
  set (B := be_bytes 2 1 ++ be_bytes 2 8 ++ be32 18).
  pb_start 0 16 xid B.
  (* the element walk on concrete element bytes behind a symbolic xid *)
  unfold msgbytes, B. 
  assert (He : forall X, blen X = 8 -> dec_hello_elems (S (length (X ++ be_bytes 2 1 ++ be_bytes 2 8 ++ be32 18))) (X ++ be_bytes 2 1 ++ be_bytes 2 8 ++ be32 18) 8 =
                        Ok [T KHelloElemBitmap [VN 1; VN 8; VB (be32 18)] []]).
  { intros X HX. cbn [dec_hello_elems]. rewrite blen_app, HX. change (blen (be_bytes 2 1 ++ be_bytes 2 8 ++ be32 18)) with 8.
    change (8 + 8 <=? 8) with false. cbv iota.
    rewrite (from_skip X _ 8 8) by (try exact HX; lia). change (8 - 8) with 0. rewrite from_zero. cbn [bind].
    replace (blen (be_bytes 2 1 ++ be_bytes 2 8 ++ be32 18) <? 4) with false by reflexivity.
    replace (uat 2 (be_bytes 2 1 ++ be_bytes 2 8 ++ be32 18) 0) with (Ok 1 : res N) by reflexivity. cbn [bind].
    replace (uat 2 (be_bytes 2 1 ++ be_bytes 2 8 ++ be32 18) 2) with (Ok 8 : res N) by reflexivity. cbn [bind].
    change (blen (be_bytes 2 1 ++ be_bytes 2 8 ++ be32 18)) with 8. cbn [N.ltb N.compare Pos.compare Pos.compare_cont orb N.eqb Pos.eqb].
    replace (sl (be_bytes 2 1 ++ be_bytes 2 8 ++ be32 18) 4 (4 + (8 - 4) / 4 * 4)) with (Ok (be32 18) : res (list byte)) by reflexivity. cbn [bind].
    destruct (length (X ++ be_bytes 2 1 ++ be_bytes 2 8 ++ be32 18)) eqn:El.
    { apply (f_equal N.of_nat) in El. fold (blen (X ++ be_bytes 2 1 ++ be_bytes 2 8 ++ be32 18)) in El. rewrite blen_app, HX in El. discriminate El. }
    cbn [dec_hello_elems]. rewrite blen_app, HX. change (blen (be_bytes 2 1 ++ be_bytes 2 8 ++ be32 18)) with 8.
    change (N.min (round8 8) 8) with 8. change (8 + 8 <=? 8 + 8) with true. cbn [bind]. reflexivity. }
  replace (be_bytes 1 4 ++ be_bytes 1 0 ++ be_bytes 2 16 ++ be_bytes 4 xid ++ be_bytes 2 1 ++ be_bytes 2 8 ++ be32 18)
    with ((be_bytes 1 4 ++ be_bytes 1 0 ++ be_bytes 2 16 ++ be_bytes 4 xid) ++ be_bytes 2 1 ++ be_bytes 2 8 ++ be32 18) by (rewrite <- !app_assoc; reflexivity).
  rewrite He by reflexivity. cbn [bind]. reflexivity.
Qed.

(* multipart requests *)
Definition pbody_ok (ty : N) (b : mpbody) : bool :=
  match b with
  | BNone => (ty =? 0) || (ty =? 3)
  | BFlow t p g c m fs => (ty =? 1) && (t <? 256) && (p <? 4294967296) && (g <? 4294967296) && (c <? 18446744073709551616) && (m <? 18446744073709551616) && pmatch_ok fs && (glen (build_match fs) <? 65000)
  | BAgg t p g c m fs => (ty =? 2) && (t <? 256) && (p <? 4294967296) && (g <? 4294967296) && (c <? 18446744073709551616) && (m <? 18446744073709551616) && pmatch_ok fs && (glen (build_match fs) <? 65000)
  | _ => false
  end.

Lemma dec_flowreq k ke t p g c m fs : (k = KFlowStatsReq \/ k = KAggStatsReq) ->
  t < 256 -> p < 4294967296 -> g < 4294967296 -> c < 18446744073709551616 -> m < 18446744073709551616 -> pmatch_ok fs = true ->
  dec_flowstats_req k ke (wire (T k [VN t; VN p; VN g; VN c; VN m] [build_match fs])) = Ok (T k [VN t; VN p; VN g; VN c; VN m] [build_match fs], false).
Proof.
  intros Hk Ht Hp Hg Hc Hm Hfs.
  assert (Hw : wire (T k [VN t; VN p; VN g; VN c; VN m] [build_match fs]) =
               be_bytes 1 t ++ zeros 3 ++ be_bytes 4 p ++ be_bytes 4 g ++ zeros 4 ++ be_bytes 8 c ++ be_bytes 8 m ++ wire (build_match fs)).
  { destruct Hk as [-> | ->]; cbn [wire layout align8 flat_map enc_fields]; rewrite <- !app_assoc, !app_nil_r; reflexivity. }
  rewrite Hw. unfold dec_flowstats_req. set (M := wire (build_match fs)).
  dec_walk. pose proof (dec_built_match fs [] Hfs) as Hd. rewrite app_nil_r in Hd. fold M in Hd. rewrite Hd. cbn [bind]. rewrite andb_false_r. reflexivity.
Qed.

Lemma parse_body_multipart pi ty fl b xid : pbody_ok ty b = true -> fl < 65536 -> xid < 4294967296 ->
  parse_body pi (wire (norm (build_m xid (MMultipart ty fl b)))) = Ok (norm (build_m xid (MMultipart ty fl b))).
Proof.
  intros Hb Hfl Hx. cbn [build_m].
  destruct (msg_form KMultipartReq 18 xid [FU 2; FU 2; FZ 4] [VN ty; VN fl] (build_body b) eq_refl eq_refl eq_refl eq_refl eq_refl) as [Hn Hw].
  rewrite Hn, Hw. clear Hn Hw. cbn [fields_len enc_fields]. nats.
  destruct b as [|t p g c m fs|t p g c m fs|p|p q]; cbn [pbody_ok build_body] in *; try discriminate.
  - cbn [map flat_map sumN fold_right]. rewrite !app_nil_r. replace (8 + (2 + (2 + (4 + 0))) + 0) with 16 by reflexivity.
    pb_start 18 16 xid (be_bytes 2 ty ++ be_bytes 2 fl ++ zeros 4). unfold msgbytes. rewrite <- ?app_assoc. seg. rewrite Hb. reflexivity.
  - repeat (apply andb_true_iff in Hb as [Hb ?]). apply N.eqb_eq in Hb. subst ty.
    match goal with Hx : pmatch_ok fs = true |- _ => rename Hx into Hfs end.
    destruct (sdec_flowreq KFlowStatsReq t p g c m fs (or_introl eq_refl)) as (Hkn & _ & Hkg & Hkl & _); try lia; try apply pmatch_ok_match_ok, Hfs.
    set (kid := T KFlowStatsReq [VN t; VN p; VN g; VN c; VN m] [build_match fs]) in *.
    cbn [map flat_map sumN fold_right]. rewrite Hkn, Hkg, !app_nil_r.
    set (L := 8 + (2 + (2 + (4 + 0))) + (32 + glen (build_match fs) + 0)).
    pb_start 18 L xid ((be_bytes 2 1 ++ be_bytes 2 fl ++ zeros 4) ++ wire kid). unfold msgbytes. rewrite <- ?app_assoc. seg.
    cbn [N.eqb Pos.eqb orb]. seg. unfold kid. rewrite dec_flowreq by (try lia; tauto || assumption). cbn [bind]. reflexivity.
  - repeat (apply andb_true_iff in Hb as [Hb ?]). apply N.eqb_eq in Hb. subst ty.
    match goal with Hx : pmatch_ok fs = true |- _ => rename Hx into Hfs end.
    destruct (sdec_flowreq KAggStatsReq t p g c m fs (or_intror eq_refl)) as (Hkn & _ & Hkg & Hkl & _); try lia; try apply pmatch_ok_match_ok, Hfs.
    set (kid := T KAggStatsReq [VN t; VN p; VN g; VN c; VN m] [build_match fs]) in *.
    cbn [map flat_map sumN fold_right]. rewrite Hkn, Hkg, !app_nil_r.
    set (L := 8 + (2 + (2 + (4 + 0))) + (32 + glen (build_match fs) + 0)).
    pb_start 18 L xid ((be_bytes 2 2 ++ be_bytes 2 fl ++ zeros 4) ++ wire kid). unfold msgbytes. rewrite <- ?app_assoc. seg.
    cbn [N.eqb Pos.eqb orb]. seg. unfold kid. rewrite dec_flowreq by (try lia; tauto || assumption). cbn [bind]. reflexivity.
Qed.
