(* C07, second half: the recursion fuel of the decode model is never exhausted - every loop
   of every nested decoder advances, and every nesting shortens the data. *)
From Coq Require Import NArith Arith List Bool Lia ZifyN ZifyBool ZifyNat.
From Coq.Strings Require Import Byte.
From LOF Require Import Base.Bytes Base.Res Model.Wire Model.Proto Model.Parse Proofs.ProtoP Proofs.ParseP.
Import ListNotations.
Open Scope N_scope.

Definition nf {A} (r : res A) : Prop := r <> Fuel.

Lemma nf_ok {A} (a : A) : nf (Ok a). Proof. discriminate. Qed.
Lemma nf_err {A} : nf (@Err A). Proof. discriminate. Qed.
Lemma nf_panic {A} : nf (@Panic A). Proof. discriminate. Qed.
Lemma nf_bind {A B} (e : res A) (k : A -> res B) : nf e -> (forall a, e = Ok a -> nf (k a)) -> nf (bind e k).
Proof. intros He Hk. destruct e; cbn; try discriminate; [apply Hk; reflexivity|contradiction]. Qed.

Lemma nf_at d i : nf (at_ d i). Proof. unfold at_. destruct (_ <? _); discriminate. Qed.
Lemma nf_uat w d a : nf (uat w d a). Proof. unfold uat. destruct (_ <=? _); discriminate. Qed.
Lemma nf_sl d a b : nf (sl d a b). Proof. unfold sl. repeat (destruct (_ <=? _) || destruct (_ <? _) || cbn); discriminate. Qed.
Lemma nf_from d a : nf (from d a). Proof. unfold from. repeat (destruct (_ <=? _) || destruct (_ <? _) || cbn); discriminate. Qed.

Lemma nf_read_vals d l : nf (read_vals d l).
Proof.
  induction l as [|[o w] l IH]; cbn [read_vals]; [apply nf_ok|].
  apply nf_bind; [apply nf_uat|intros x _]. apply nf_bind; [exact IH|intros vs _; apply nf_ok].
Qed.

Lemma nf_take_payload w s d : nf (take_payload w s d).
Proof. unfold take_payload. destruct s; try destruct (_ <? _); discriminate. Qed.

(* one step of the syntactic walk over a decoder's body *)
Ltac nfstep :=
  match goal with
  | |- nf (Ok _) => apply nf_ok
  | |- nf Err => apply nf_err
  | |- nf Panic => apply nf_panic
  | |- nf (bind _ _) => apply nf_bind; [|intros ? ?]
  | |- nf (at_ _ _) => apply nf_at
  | |- nf (uat _ _ _) => apply nf_uat
  | |- nf (sl _ _ _) => apply nf_sl
  | |- nf (from _ _) => apply nf_from
  | |- nf (read_vals _ _) => apply nf_read_vals
  | |- nf (take_payload _ _ _) => apply nf_take_payload
  | H : nf ?x |- nf ?x => exact H
  | |- nf (if ?c then _ else _) => destruct c
  | |- nf (let _ := _ in _) => cbv zeta
  | |- nf (match ?x with (_, _) => _ end) => destruct x
  | |- nf (match ?x with Some _ => _ | None => _ end) => destruct x
  end.
Ltac nfwalk := repeat nfstep.

Lemma nf_dec_ofheader d : nf (dec_ofheader d).
Proof. unfold dec_ofheader. nfwalk. Qed.
Lemma nf_ofheader_lenient d : nf (ofheader_lenient d).
Proof. unfold ofheader_lenient. pose proof (nf_dec_ofheader d). destruct (dec_ofheader d); try discriminate. contradiction. Qed.

Lemma nf_dec_mf d : nf (dec_mf d).
Proof. unfold dec_mf. nfwalk. Qed.

(* a property of whatever a decoder returns *)
Definition rall {A} (P : A -> Prop) (r : res A) : Prop := match r with Ok a => P a | _ => True end.
Lemma rall_bind {A B} (P : B -> Prop) (e : res A) (k : A -> res B) : (forall a, e = Ok a -> rall P (k a)) -> rall P (bind e k).
Proof. intros H. destruct e; cbn; try exact I. apply H; reflexivity. Qed.
Lemma rall_ok {A} (P : A -> Prop) r a : rall P r -> r = Ok a -> P a.
Proof. intros H ->. exact H. Qed.

Ltac rstep :=
  match goal with
  | |- rall _ (Ok _) => cbn [rall]
  | |- rall _ Err => exact I
  | |- rall _ Panic => exact I
  | |- rall _ Fuel => exact I
  | |- rall _ (bind _ _) => apply rall_bind; intros ? ?
  | |- rall _ (if ?c then _ else _) => destruct c
  | |- rall _ (let _ := _ in _) => cbv zeta
  | |- rall _ (match ?x with (_, _) => _ end) => destruct x
  | |- rall _ (match ?x with Some _ => _ | None => _ end) => destruct x
  end.
Ltac rwalk := repeat rstep.

(* a decoded match field reports at least its 4-byte header *)
Lemma dec_mf_len d : rall (fun t => 4 <= glen t) (dec_mf d).
Proof.
  unfold dec_mf. rwalk.
  all: cbn [glen lenrule_of layout fields_len lenround align8 map sumN fold_right]; lia.
Qed.

(* ---------------------------------------------------------------- loops
   Every loop walks an offset n through the data d: it stops when n reaches its limit, reads
   the rest of the data from n (a panic beyond the end) and advances by at least one byte.
   With fuel f it cannot run out when |d| + 2 <= f + n: the initial calls have f = |d| + 1
   and n >= 1. *)
Lemma from_le d n r : from d n = Ok r -> n <= blen d.
Proof. unfold from. destruct (n <=? blen d) eqn:E; [lia|discriminate]. Qed.
Lemma from_len d n r : from d n = Ok r -> blen r = blen d - n.
Proof.
  unfold from. destruct (n <=? blen d) eqn:E; [|discriminate]. intros H. injection H as <-.
  apply blen_skipn. lia.
Qed.

Lemma sl_len d a b r : sl d a b = Ok r -> blen r = b - a /\ a <= b /\ b <= blen d.
Proof.
  unfold sl. destruct ((a <=? b) && (b <=? blen d)) eqn:E; [|discriminate]. intros H. injection H as <-.
  apply andb_true_iff in E as [E1 E2]. unfold blen in *. rewrite firstn_length, skipn_length. lia.
Qed.

Lemma nf_dec_mfs d lim : forall f n, (1 <= f)%nat -> blen d + 2 <= N.of_nat f + n -> nf (dec_mfs f d n lim).
Proof.
  induction f as [|f IH]; intros n Hf Hm; [lia|]. cbn [dec_mfs].
  destruct (lim <=? n); [apply nf_ok|].
  apply nf_bind; [apply nf_from|intros r Hr]. apply from_le in Hr.
  pose proof (dec_mf_len r) as Hl. pose proof (nf_dec_mf r) as Hnf.
  destruct (dec_mf r) as [t| | |]; try discriminate; [|contradiction].
  cbn [rall] in Hl. apply nf_bind; [apply IH; lia|]. intros [l e] _. apply nf_ok.
Qed.

Lemma nf_dec_match d : nf (dec_match d).
Proof.
  unfold dec_match. nfwalk. apply nf_dec_mfs; [lia|]. unfold blen. lia.
Qed.

Lemma nf_dec_lspec d : nf (dec_lspec d).
Proof. unfold dec_lspec. nfwalk. Qed.
Lemma dec_lspec_len d : rall (fun t => 2 <= glen t) (dec_lspec d).
Proof.
  unfold dec_lspec. rwalk.
  all: cbn [glen lenrule_of layout fields_len lenround align8 map sumN fold_right]; lia.
Qed.

Lemma nf_dec_lspecs d len : forall f n, (1 <= f)%nat -> blen d + 2 <= N.of_nat f + n -> nf (dec_lspecs f d n len).
Proof.
  induction f as [|f IH]; intros n Hf Hm; [lia|]. cbn [dec_lspecs].
  destruct (_ || _); [apply nf_ok|].
  apply nf_bind; [apply nf_from|intros r Hr]. apply from_le in Hr.
  pose proof (dec_lspec_len r) as Hl. pose proof (nf_dec_lspec r) as Hnf.
  destruct (dec_lspec r) as [t| | |]; try discriminate; [|contradiction].
  cbn [rall bind] in *. apply nf_bind; [apply IH; lia|]. intros l _. apply nf_ok.
Qed.

Lemma nf_nat_part p b w d st : nf st -> nf (nat_part p b w d st).
Proof. intros H. unfold nat_part. nfwalk. Qed.

Lemma nf_ct_loop dec d len : (forall r, (length r < length d)%nat -> nf (dec r)) ->
  forall f n, (1 <= f)%nat -> 1 <= n -> blen d + 2 <= N.of_nat f + n -> nf (ct_loop dec f d len n).
Proof.
  intros Hdec. induction f as [|f IH]; intros n Hf Hn Hm; [lia|]. cbn [ct_loop].
  destruct (len <=? n); [apply nf_ok|].
  apply nf_bind; [apply nf_from|intros r Hr]. pose proof (from_len _ _ _ Hr) as Hlen. apply from_le in Hr.
  assert (Hnf : nf (dec r)) by (apply Hdec; unfold blen in *; lia).
  destruct (dec r) as [a| | |]; try discriminate; [|contradiction].
  destruct (N.eqb_spec (glen a) 0); [apply nf_err|].
  apply nf_bind; [apply IH; lia|]. intros [l n'] _. apply nf_ok.
Qed.

Ltac nfstep2 :=
  first [ nfstep
        | match goal with
          | |- nf (err_is_panic (dec_mf ?r)) => let H := fresh in pose proof (nf_dec_mf r) as H; unfold err_is_panic; destruct (dec_mf r); try discriminate; exact H
          | |- nf (dec_mf _) => apply nf_dec_mf
          | |- nf (dec_match _) => apply nf_dec_match
          | |- nf (dec_lspec _) => apply nf_dec_lspec
          | |- nf (dec_ofheader _) => apply nf_dec_ofheader
          | |- nf (ofheader_lenient _) => apply nf_ofheader_lenient
          | |- nf (nat_part _ _ _ _ _) => apply nf_nat_part
          | |- nf (dec_lspecs (S (length ?d)) ?d _ _) => apply nf_dec_lspecs; [lia|unfold blen; lia]
          end ].
Ltac nfwalk2 := repeat nfstep2.

Lemma nf_dec_action : forall fuel d, (length d < fuel)%nat -> nf (dec_action fuel d).
Proof.
  induction fuel as [|fuel IH]; intros d Hd; [lia|]. cbn [dec_action].
  nfwalk2.
  - unfold nxhdr_vals. nfwalk.
  - apply nf_ct_loop; [|lia|lia|unfold blen; lia]. intros r Hr. apply IH. lia.
Qed.

(* a list of actions *)
Lemma nf_dec_actions d lim : forall f n, (1 <= f)%nat -> blen d + 2 <= N.of_nat f + n -> nf (dec_actions f d n lim).
Proof.
  induction f as [|f IH]; intros n Hf Hm; [lia|]. cbn [dec_actions].
  destruct (lim <=? n); [apply nf_ok|].
  apply nf_bind; [apply nf_from|intros r Hr]. pose proof (from_len _ _ _ Hr) as Hlen. apply from_le in Hr.
  assert (Hnf : nf (dec_action (S (length d)) r)) by (apply nf_dec_action; unfold blen in *; lia).
  destruct (dec_action _ r) as [a| | |]; try discriminate; [|contradiction].
  destruct (N.eqb_spec (glen a) 0); [apply nf_ok|].
  apply nf_bind; [apply IH; lia|]. intros [l e] _. apply nf_ok.
Qed.


Ltac nfstep3 :=
  first [ nfstep2
        | match goal with
          | |- nf (dec_actions (S (length ?d)) ?d _ _) => apply nf_dec_actions; [lia|unfold blen; lia]
          end ].
Ltac nfwalk3 := repeat nfstep3.

Lemma nf_dec_instr d : nf (dec_instr d).
Proof. unfold dec_instr. nfwalk3. Qed.

Lemma nf_dec_instrs d lim : forall f n, (1 <= f)%nat -> blen d + 2 <= N.of_nat f + n -> nf (dec_instrs f d n lim).
Proof.
  induction f as [|f IH]; intros n Hf Hm; [lia|]. cbn [dec_instrs].
  destruct (lim <=? n); [apply nf_ok|].
  apply nf_bind; [apply nf_from|intros r Hr]. apply from_le in Hr.
  apply nf_bind; [apply nf_dec_instr|intros i _].
  destruct (N.eqb_spec (glen i) 0); [apply nf_ok|].
  apply nf_bind; [apply IH; lia|]. intros [l e] _. apply nf_ok.
Qed.

Lemma nf_dec_bucket d : nf (dec_bucket d).
Proof. unfold dec_bucket. nfwalk3. Qed.
Lemma dec_bucket_len d : rall (fun p => 16 <= glen (fst p)) (dec_bucket d).
Proof.
  unfold dec_bucket. rwalk. cbn [fst glen lenrule_of layout fields_len lenround]. unfold round8.
  set (s := sumN _). lia.
Qed.

Lemma nf_dec_buckets d lim : forall f n, (1 <= f)%nat -> blen d + 2 <= N.of_nat f + n -> nf (dec_buckets f d n lim).
Proof.
  induction f as [|f IH]; intros n Hf Hm; [lia|]. cbn [dec_buckets].
  destruct (lim <=? n); [apply nf_ok|].
  apply nf_bind; [apply nf_from|intros r Hr]. apply from_le in Hr.
  pose proof (dec_bucket_len r) as Hl. pose proof (nf_dec_bucket r) as Hnf.
  destruct (dec_bucket r) as [[b e]| | |]; try discriminate; [|contradiction].
  cbn [rall fst bind] in *. apply nf_bind; [apply IH; lia|]. intros l _. apply nf_ok.
Qed.

Lemma nf_dec_phyport d : nf (dec_phyport d).
Proof. unfold dec_phyport. nfwalk. Qed.

Lemma nf_dec_tlvmaps d : forall f n, (1 <= f)%nat -> blen d + 2 <= N.of_nat f + n -> nf (dec_tlvmaps f d n).
Proof.
  induction f as [|f IH]; intros n Hf Hm; [lia|]. cbn [dec_tlvmaps].
  destruct (_ <=? n); [apply nf_ok|].
  apply nf_bind; [apply nf_from|intros r Hr]. apply from_le in Hr.
  destruct (_ <? 8); [apply nf_err|].
  apply nf_bind; [apply nf_read_vals|intros vs _]. apply nf_bind; [apply IH; lia|intros l _; apply nf_ok].
Qed.

Lemma nf_dec_ports d : forall f n, (1 <= f)%nat -> blen d + 2 <= N.of_nat f + n -> nf (dec_ports f d n).
Proof.
  induction f as [|f IH]; intros n Hf Hm; [lia|]. cbn [dec_ports].
  destruct (_ <=? n); [apply nf_ok|].
  apply nf_bind; [apply nf_from|intros r Hr]. apply from_le in Hr.
  apply nf_bind; [apply nf_dec_phyport|intros p _]. apply nf_bind; [apply IH; lia|intros l _; apply nf_ok].
Qed.

Lemma nf_dec_hello_elems d : forall f n, (1 <= f)%nat -> blen d + 2 <= N.of_nat f + n -> nf (dec_hello_elems f d n).
Proof.
  induction f as [|f IH]; intros n Hf Hm; [lia|]. cbn [dec_hello_elems].
  destruct (_ <=? n); [apply nf_ok|].
  apply nf_bind; [apply nf_from|intros r Hr]. apply from_le in Hr.
  destruct (blen r <? 4) eqn:E4; [apply nf_err|].
  apply nf_bind; [apply nf_uat|intros ty _]. apply nf_bind; [apply nf_uat|intros len _].
  destruct ((len <? 4) || (blen r <? len)) eqn:El; [apply nf_err|].
  assert (Hadv : 1 <= N.min (round8 len) (blen r)) by (unfold round8; lia).
  cbv zeta. destruct (N.eqb ty 1).
  - apply nf_bind; [apply nf_sl|intros bm _]. apply nf_bind; [apply IH; lia|intros l _; apply nf_ok].
  - apply IH; lia.
Qed.

Ltac nfstep4 :=
  first [ nfstep3
        | match goal with
          | |- nf (dec_instrs (S (length ?d)) ?d _ _) => apply nf_dec_instrs; [lia|unfold blen; lia]
          | |- nf (dec_buckets (S (length ?d)) ?d _ _) => apply nf_dec_buckets; [lia|unfold blen; lia]
          | |- nf (dec_tlvmaps (S (length ?d)) ?d _) => apply nf_dec_tlvmaps; [lia|unfold blen; lia]
          | |- nf (dec_ports (S (length ?d)) ?d _) => apply nf_dec_ports; [lia|unfold blen; lia]
          | |- nf (dec_hello_elems (S (length ?d)) ?d _) => apply nf_dec_hello_elems; [lia|unfold blen; lia]
          | |- nf (dec_phyport _) => apply nf_dec_phyport
          | |- nf (dec_eth _) => apply dec_eth_safe
          end ].
Ltac nfwalk4 := repeat nfstep4.

Lemma nf_dec_flowstats_req k ke d : nf (dec_flowstats_req k ke d).
Proof. unfold dec_flowstats_req. nfwalk4. Qed.
Lemma nf_dec_flowstats d : nf (dec_flowstats d).
Proof. unfold dec_flowstats. nfwalk4. Qed.
Lemma nf_dec_portstats d : nf (dec_portstats d). Proof. unfold dec_portstats. nfwalk. Qed.
Lemma nf_dec_tablestats d : nf (dec_tablestats d). Proof. unfold dec_tablestats. nfwalk. Qed.
Lemma nf_dec_queuestats d : nf (dec_queuestats d). Proof. unfold dec_queuestats. nfwalk. Qed.
Lemma nf_dec_aggstats d : nf (dec_aggstats d). Proof. unfold dec_aggstats. nfwalk. Qed.
Lemma nf_dec_descstats d : nf (dec_descstats d). Proof. unfold dec_descstats. nfwalk. Qed.

Lemma nf_dec_mprecords d mt lim : forall f n, (1 <= f)%nat -> blen d + 2 <= N.of_nat f + n -> nf (dec_mprecords f d mt lim n).
Proof.
  induction f as [|f IH]; intros n Hf Hm; [lia|]. cbn [dec_mprecords].
  destruct (lim <=? n); [apply nf_ok|].
  apply nf_bind; [apply nf_from|intros r Hr]. apply from_le in Hr.
  apply nf_bind.
  { repeat match goal with |- nf (if ?c then _ else _) => destruct c end;
      first [apply nf_dec_flowstats | apply nf_panic | idtac];
      (apply nf_bind; [first [apply nf_dec_aggstats|apply nf_dec_descstats|apply nf_dec_portstats|apply nf_dec_tablestats|apply nf_dec_queuestats]|intros x _; apply nf_ok]). }
  intros [t e] _. destruct (N.eqb_spec (glen t) 0); [apply nf_ok|].
  apply nf_bind; [apply IH; lia|]. intros [l e'] _. apply nf_ok.
Qed.

Section Inner.
  Variable parse_inner : list byte -> res tree.
  Variable bound : nat.
  Hypothesis inner_nf : forall r, (length r < bound)%nat -> nf (parse_inner r).

  Lemma nf_dec_props d : forall f n, (1 <= f)%nat -> blen d + 2 <= N.of_nat f + n -> nf (dec_props f d n).
  Proof.
    induction f as [|f IH]; intros n Hf Hm; [lia|]. cbn [dec_props].
    destruct (_ <=? n); [apply nf_ok|].
    apply nf_bind; [apply nf_from|intros r Hr]. apply from_le in Hr.
    destruct (_ <? 12); [apply nf_err|].
    apply nf_bind; [apply nf_read_vals|intros vs _]. cbv zeta.
    apply nf_bind; [destruct (_ && _); [apply nf_sl|apply nf_ok]|intros data _].
    apply nf_bind; [apply IH; lia|intros l _; apply nf_ok].
  Qed.

  Lemma nf_dec_vendor_data et d : (length d < bound)%nat -> nf (dec_vendor_data parse_inner et d).
  Proof.
    intros Hb. unfold dec_vendor_data. nfwalk4.
    - match goal with H : sl d 8 _ = Ok ?r |- nf (parse_inner ?r) =>
        pose proof (sl_len _ _ _ _ H) as Hl; apply inner_nf; unfold blen in *; lia end.
    - apply nf_dec_props; [lia|unfold blen; lia].
  Qed.

  Lemma nf_parse_body d : (length d <= bound)%nat -> nf (parse_body parse_inner d).
  Proof.
    intros Hb. unfold parse_body. nfwalk4.
    all: try (apply nf_dec_flowstats_req).
    all: try (apply nf_dec_mprecords; [lia|unfold blen; lia]).
    match goal with H : sl d 16 ?b = Ok ?r |- nf (dec_vendor_data _ _ ?r) =>
      apply nf_dec_vendor_data; pose proof (sl_len _ _ _ _ H); unfold blen in *; lia end.
  Qed.
End Inner.

(* Parse nests itself through bundle-add on data at least 8 bytes shorter *)
Lemma nf_parse : forall fuel d, (length d < fuel)%nat -> nf (parse fuel d).
Proof.
  induction fuel as [|fuel IH]; intros d Hd; [lia|]. cbn [parse].
  assert (H : nf (parse_body (parse fuel) d)) by (apply (nf_parse_body (parse fuel) (length d)); [intros r Hr; apply IH; lia|lia]).
  destruct (parse_body (parse fuel) d); try discriminate. contradiction.
Qed.

Theorem parse_top_never_out_of_fuel d : parse_top d <> Fuel.
Proof. apply nf_parse. lia. Qed.


Theorem parse_top_message_or_error d : (exists t, parse_top d = Ok t) \/ parse_top d = Err.
Proof.
  pose proof (parse_top_never_out_of_fuel d) as Hf. pose proof (ParseP.parse_top_never_panics d) as Hp.
  destruct (parse_top d) as [t| | |]; [left; eexists; reflexivity|right; reflexivity|contradiction|contradiction].
Qed.
