(* C05 for all recipes: re-encoding what the parser returned gives the original bytes. *)
From Coq Require Import NArith ZArith Arith List Bool Lia ZifyN ZifyBool ZifyNat.
From Coq.Strings Require Import Byte.
From LOF Require Import Base.Bytes Base.Res Model.Wire Model.Build Model.Proto Model.Parse Spec.Walk
  Proofs.WireP Proofs.BuildP Proofs.NormP Proofs.WalkP Proofs.WalkAllP Proofs.WalkMsgP Proofs.SegP
  Proofs.ParseRtAllP Proofs.ParseRtAll2P Proofs.ParseRtAll3P Proofs.ParseRtAll4P Proofs.ParseRtAll5P Proofs.ParseRtAll6P.
Import ListNotations.
Open Scope N_scope.
Ltac Zify.zify_post_hook ::= Z.div_mod_to_equations.
Local Notation blen := Proto.blen.
Local Notation raw := Build.raw.

(* re-encoding the wire reader's view of x gives x's bytes and x's Len() *)
Definition R (x : tree) : Prop := wire (norm (canon x)) = wire x /\ glen (norm (canon x)) = glen x.

Lemma R_of_canon_id t : consistent t = true -> canon (norm t) = norm t -> R (norm t).
Proof.
  intros Hc Hid. unfold R. rewrite Hid. rewrite (norm_idem t (consistent_shaped t Hc)). split; reflexivity.
Qed.

Lemma flat_map_ext_R (ts : list tree) : Forall R ts ->
  flat_map wire (map norm (map canon ts)) = flat_map wire ts /\ sumN (map glen (map norm (map canon ts))) = sumN (map glen ts).
Proof.
  induction 1 as [|t r [Hw Hg] _ [IH1 IH2]]; cbn [map flat_map sumN fold_right]; [split; reflexivity|].
  unfold sumN in *. rewrite Hw, Hg, IH1, IH2. split; reflexivity.
Qed.

Lemma R_action : forall a, wf_a a = true -> R (norm (build_a a)).
Proof.
  induction a as [sets alg kids IH|a Hn] using arec_ind'; intros Hwf.
  - (* conntrack: own fields untouched, children by induction *)
    cbn [wf_a] in Hwf. cbn [build_a]. destruct (fold_left ct_apply sets (0, 0, 0, 255)) as [[[flags zsrc] zofs] tbl].
    set (vs := nx 35 (24 + sumN (map glen (map build_a kids))) ++ [VN flags; VN zsrc; VN zofs; VN tbl; VN alg]).
    replace (norm (T KNxConnTrack vs (map build_a kids))) with (T KNxConnTrack vs (map norm (map build_a kids))) by reflexivity.
    assert (HR : Forall R (map norm (map build_a kids))).
    { clear - IH Hwf. induction kids as [|k r IHr]; cbn [map]; constructor.
      - inversion IH as [|? ? Hk Hr']; subst. cbn [forallb] in Hwf. apply andb_true_iff in Hwf as [Hw1 _]. apply Hk, Hw1.
      - inversion IH as [|? ? Hk Hr']; subst. cbn [forallb] in Hwf. apply andb_true_iff in Hwf as [_ Hw2]. apply IHr; assumption. }
    destruct (flat_map_ext_R _ HR) as [Hw Hg]. unfold R. cbn [canon].
    replace (norm (T KNxConnTrack vs (map canon (map norm (map build_a kids)))))
      with (T KNxConnTrack vs (map norm (map canon (map norm (map build_a kids))))) by reflexivity.
    split; [|reflexivity]. cbn [wire align8]. rewrite Hw. reflexivity.
  - destruct (build_a_ok a Hwf) as [Hc _].
    destruct a; try (apply R_of_canon_id; [exact Hc|reflexivity]).
    + apply R_of_canon_id; [exact Hc|]. cbn [build_a norm writeback map canon]. rewrite norm_build_mf, canon_mf. reflexivity.
    + exfalso. eapply Hn. reflexivity.
    + apply R_of_canon_id; [exact Hc|]. cbn [build_a]. unfold nat_tree. cbn [norm writeback canon]. f_equal.
      destruct (n_ip4min _), (n_ip4max _), (n_ip6min _), (n_ip6max _), (n_pmin _), (n_pmax _); reflexivity.
    + apply R_of_canon_id; [exact Hc|]. cbn [build_a norm writeback canon]. f_equal. rewrite map_norm_lspecs.
      clear. induction specs as [|s r IH]; cbn [map]; [reflexivity|]. rewrite IH. destruct s. reflexivity.
    + (* note: the padding moves into the note *)
      clear Hc Hn Hwf. unfold R.
      assert (Hn : norm (build_a (ANote bs)) = T KNxNote (nx 8 (round8 (10 + N.of_nat (length bs))) ++ [VB bs]) []).
      { cbn [build_a norm writeback map]. unfold nx. cbn [app set_nth].
        cbn [glen lenrule_of layout nxhdr app fields_len lenround align8 map sumN fold_right]. nats.
        match goal with |- context [round8 ?x] => replace x with (10 + N.of_nat (length bs)) by lia end. reflexivity. }
      rewrite Hn. unfold nx. cbn [app canon map].
      set (p := pad8 (10 + length bs)).
      assert (Hp0 : pad8 (10 + length (bs ++ zeros p)) = 0%nat).
      { rewrite app_length, length_zeros. subst p. unfold pad8. pose proof (Nat.div_mod (10 + length bs + 7) 8).
        assert (Hm : ((10 + length bs + pad8 (10 + length bs)) mod 8 = 0)%nat).
        { unfold pad8. pose proof (Nat.div_mod (10 + length bs + 7) 8 ltac:(lia)). pose proof (Nat.mod_upper_bound (10 + length bs + 7) 8 ltac:(lia)).
          replace (10 + length bs + ((10 + length bs + 7) / 8 * 8 - (10 + length bs)))%nat with ((10 + length bs + 7) / 8 * 8)%nat by lia.
          apply Nat.mod_mul. lia. }
        unfold pad8 in Hm |- *.
        set (n := (10 + length bs + ((10 + length bs + 7) / 8 * 8 - (10 + length bs)))%nat) in *.
        replace (10 + (length bs + ((10 + length bs + 7) / 8 * 8 - (10 + length bs))))%nat with n by (subst n; lia).
        pose proof (Nat.div_mod n 8 ltac:(lia)). rewrite Hm in H0.
        replace ((n + 7) / 8)%nat with (n / 8)%nat; [lia|].
        replace (n + 7)%nat with (7 + (n / 8) * 8)%nat by lia. rewrite Nat.div_add by lia. reflexivity. }
      assert (Hr8 : round8 (10 + N.of_nat (length (bs ++ zeros p))) = round8 (10 + N.of_nat (length bs))).
      { rewrite app_length, length_zeros. subst p. rewrite Nat2N.inj_add, WalkAllP.pad8_round8.
        replace (N.of_nat (10 + length bs)) with (10 + N.of_nat (length bs)) by lia.
        pose proof (WalkAllP.round8_ge (10 + N.of_nat (length bs))) as (Ha & Hb & Hc').
        replace (10 + (N.of_nat (length bs) + (round8 (10 + N.of_nat (length bs)) - (10 + N.of_nat (length bs))))) with (round8 (10 + N.of_nat (length bs))) by lia.
        apply round8_idem. }
      assert (Hnn : norm (T KNxNote [VN 65535; VN (round8 (10 + N.of_nat (length bs))); VN NXID; VN 8; VB (bs ++ zeros p)] []) =
                    T KNxNote [VN 65535; VN (round8 (10 + N.of_nat (length bs))); VN NXID; VN 8; VB (bs ++ zeros p)] []).
      { cbn [norm writeback map set_nth]. cbn [glen lenrule_of layout nxhdr app fields_len lenround align8 map sumN fold_right]. nats.
        match goal with |- context [round8 ?x] => replace x with (10 + N.of_nat (length (bs ++ zeros p))) by lia end. rewrite Hr8. reflexivity. }
      rewrite Hnn. split.
      * pose proof (wire_nx_padded KNxNote (round8 (10 + N.of_nat (length bs))) 8 [FV] [] eq_refl eq_refl [VB (bs ++ zeros p)]) as W1.
        pose proof (wire_nx_padded KNxNote (round8 (10 + N.of_nat (length bs))) 8 [FV] [] eq_refl eq_refl [VB bs]) as W2.
        unfold nx in W1, W2. cbn [app] in W1, W2. rewrite W1, W2. cbn [enc_fields flat_map]. rewrite !app_nil_r.
        rewrite Hp0. fold p. cbn [zeros repeat]. rewrite app_nil_r. reflexivity.
      * cbn [glen lenrule_of layout nxhdr app fields_len lenround align8 map sumN fold_right]. nats.
        match goal with |- round8 ?x = round8 ?y => replace x with (10 + N.of_nat (length (bs ++ zeros p))) by lia; replace y with (10 + N.of_nat (length bs)) by lia end.
        exact Hr8.
    + apply R_of_canon_id; [exact Hc|]. rewrite norm_regload2. cbn [canon map]. rewrite canon_mf. reflexivity.
Qed.

(* a normalized node whose children re-encode to themselves does so too *)
Lemma glen_kids_sum k vs X Y : sumN (map glen X) = sumN (map glen Y) -> glen (T k vs X) = glen (T k vs Y).
Proof. intros H. cbn [glen]. rewrite H. reflexivity. Qed.

Lemma R_node k vs kids : canon (T k vs kids) = T k vs (map canon kids) -> norm (T k vs kids) = T k vs kids ->
  Forall R kids -> R (T k vs kids).
Proof.
  intros Hcan Hnorm HR. destruct (flat_map_ext_R _ HR) as [Hw Hg].
  rewrite norm_unfold in Hnorm. injection Hnorm as Hv Hk.
  unfold R. rewrite Hcan, norm_unfold. set (kids2 := map norm (map canon kids)) in *.
  assert (Hvals : norm_vals k vs kids2 = vs).
  { rewrite <- Hv at 2. unfold norm_vals. destruct (writeback k); [|reflexivity]. f_equal. f_equal.
    apply glen_kids_sum. rewrite Hk. exact Hg. }
  rewrite Hvals. split.
  - cbn [wire]. rewrite Hw. reflexivity.
  - apply glen_kids_sum. exact Hg.
Qed.

Lemma norm_norm t : consistent t = true -> norm (norm t) = norm t.
Proof. intros H. apply norm_idem, consistent_shaped, H. Qed.

Lemma Forall_R_actions acts : forallb wf_a acts = true -> Forall R (map norm (map build_a acts)).
Proof.
  induction acts as [|a r IH]; cbn [map forallb]; intros H; constructor; apply andb_true_iff in H as [H1 H2]; [apply R_action, H1|apply IH, H2].
Qed.

Lemma R_instr i : wf_i i = true -> R (norm (build_i i)).
Proof.
  intros Hwf. pose proof (build_i_ok i Hwf) as Hc.
  destruct i as [t|m mask|calls|calls]; try (apply R_of_canon_id; [exact Hc|reflexivity]).
  all: cbn [build_i wf_i] in *; rewrite instr_actions_form in *;
    match goal with |- context [T KInstrActions ?vs (map build_a ?acts)] =>
      replace (norm (T KInstrActions vs (map build_a acts))) with (T KInstrActions vs (map norm (map build_a acts))) by reflexivity;
      apply R_node; [reflexivity| |apply Forall_R_actions]
    end.
  all: try (match goal with |- norm (T KInstrActions ?vs (map norm (map build_a ?acts))) = _ =>
              change (T KInstrActions vs (map norm (map build_a acts))) with (norm (T KInstrActions vs (map build_a acts))); apply norm_norm, Hc end).
  all: unfold wf_calls in Hwf; unfold call_order;
    assert (Hgen : forall acc, forallb wf_a acc = true -> forallb wf_a (fold_left add_arec calls acc) = true);
    [ clear - Hwf; induction calls as [|c r IH]; intros acc Ha; cbn [fold_left forallb] in *; [exact Ha|];
      apply andb_true_iff in Hwf as [H1 H2]; apply IH; [exact H2|]; unfold add_arec; destruct (snd c);
      [cbn [forallb]; rewrite H1, Ha; reflexivity|rewrite forallb_app, Ha; cbn [forallb]; rewrite H1; reflexivity]
    | apply Hgen; reflexivity ].
Qed.

Lemma R_bucket b : wf_b b = true -> R (norm (build_b b)).
Proof.
  intros Hwf. pose proof (build_b_ok b Hwf) as Hc. destruct b as [w p g acts]. cbn [wf_b] in Hwf.
  remember (norm (build_b (BK w p g acts))) as nb eqn:E. pose proof E as E'.
  cbn [build_b] in E. rewrite norm_unfold in E. subst nb.
  apply R_node; [reflexivity| |apply Forall_R_actions, Hwf].
  rewrite <- norm_unfold. change (T KBucket [VN 16; VN w; VN p; VN g] (map build_a acts)) with (build_b (BK w p g acts)).
  apply norm_norm, Hc.
Qed.

(* ---------------------------------------------------------------- messages *)
Lemma R_match fs : R (build_match fs).
Proof.
  destruct (norm_build_match fs) as [Hn Hc]. unfold R. rewrite Hc, Hn. split; reflexivity.
Qed.

Lemma Forall_R_instrs is : forallb wf_i is = true -> Forall R (map norm (map build_i is)).
Proof.
  induction is as [|a r IH]; cbn [map forallb]; intros H; constructor; apply andb_true_iff in H as [H1 H2]; [apply R_instr, H1|apply IH, H2].
Qed.
Lemma Forall_R_buckets bs : forallb wf_b bs = true -> Forall R (map norm (map build_b bs)).
Proof.
  induction bs as [|a r IH]; cbn [map forallb]; intros H; constructor; apply andb_true_iff in H as [H1 H2]; [apply R_bucket, H1|apply IH, H2].
Qed.
Lemma Forall_R_maps maps : Forall R (map mk_map maps).
Proof. induction maps as [|[[[c t] l] i] r IH]; cbn [map]; constructor; [split; reflexivity|exact IH]. Qed.

Definition Rv (xid : N) (m : mrec) : Prop :=
  wire (norm (pview xid m)) = wire (norm (build_m xid m)) /\ glen (norm (pview xid m)) = glen (norm (build_m xid m)).

Lemma Rv_of_R xid m : pview xid m = canon (norm (build_m xid m)) -> R (norm (build_m xid m)) -> Rv xid m.
Proof. intros Hp [Hw Hg]. unfold Rv. rewrite Hp. split; assumption. Qed.

(* a normalized message node *)
Lemma R_msg_node xid m k vs kids : wf_m m = true -> norm (build_m xid m) = T k vs kids ->
  canon (T k vs kids) = T k vs (map canon kids) -> Forall R kids -> R (norm (build_m xid m)).
Proof.
  intros Hwf Hn Hcan HR. rewrite Hn. apply R_node; [exact Hcan| |exact HR].
  rewrite <- Hn. apply norm_norm, build_m_ok, Hwf.
Qed.

Lemma R_flowreq k t p g c m fs : (k = KFlowStatsReq \/ k = KAggStatsReq) -> R (T k [VN t; VN p; VN g; VN c; VN m] [build_match fs]).
Proof.
  intros Hk. destruct (norm_build_match fs) as [Hn Hc].
  apply R_node; [destruct Hk as [-> | ->]; reflexivity|destruct Hk as [-> | ->]; cbn [norm writeback map]; rewrite Hn; reflexivity|].
  constructor; [apply R_match|constructor].
Qed.

Lemma Rv_portmod p hw c mk adv xid : Rv xid (MPortMod p hw c mk adv).
Proof.
  unfold Rv. cbn [pview build_m].
  destruct (msg_form KPortMod 16 xid [FU 4; FZ 4; FB 6; FZ 2; FU 4; FU 4; FU 4; FZ 4] [VN p; VB hw; VN c; VN mk; VN adv] [] eq_refl eq_refl eq_refl eq_refl eq_refl) as [Hn _].
  rewrite Hn. cbn [map canon app fields_len sumN fold_right]. nats. change (N.of_nat 6) with 6.
  assert (Hfit : fit 6 (fit 6 hw) = fit 6 hw) by (unfold fit at 1; apply firstn_app_exact; rewrite length_fit; reflexivity).
  split.
  - cbn [norm writeback map set_nth wire layout ofhdr app enc_fields align8 flat_map glen lenrule_of fields_len lenround sumN fold_right]. rewrite Hfit. reflexivity.
  - reflexivity.
Qed.

Lemma Rv_packetout buf ip acts data xid : ppacketout_ok buf ip acts data = true -> Rv xid (MPacketOut buf ip acts data).
Proof.
  intros H. unfold ppacketout_ok in H. repeat (apply andb_true_iff in H as [H ?]).
  match goal with Hm : forallb pact_ok acts = true |- _ => rename Hm into Hacts end.
  assert (Hwf : forallb wf_a acts = true) by (apply (forallb_imp pact_ok wf_a); [intros x Hx'; apply act_ok_wf, pact_ok_act_ok, Hx'|exact Hacts]).
  unfold Rv. cbn [pview build_m]. unfold packetout_view. set (ks := map build_a acts) in *.
  set (D := match data with Some d => d | None => [] end) in *.
  set (dk := match data with Some d => [raw d] | None => [] end).
  set (vals := [VN buf; VN ip; VN (sumN (map glen ks))]). set (l' := [FU 4; FU 4; FU 2; FZ 6]).
  destruct (msg_form KPacketOut 13 xid l' vals (ks ++ dk) eq_refl eq_refl eq_refl eq_refl eq_refl) as [Hn Hw].
  rewrite Hn. clear Hn.
  assert (Hck : forallb consistent ks = true).
  { subst ks. clear - Hwf. induction acts as [|a r IH]; cbn [map forallb] in *; [reflexivity|]. apply andb_true_iff in Hwf as [Ha Hr].
    destruct (build_a_ok a Ha) as [Hc _]. rewrite Hc, (IH Hr). reflexivity. }
  destruct (sum_norm _ Hck) as [Hs1 _].
  assert (Hdk : map norm dk = dk /\ sumN (map glen dk) = N.of_nat (length D) /\ flat_map wire dk = D).
  { subst dk D. destruct data as [d|]; cbn [map norm writeback flat_map Build.raw sumN fold_right glen lenrule_of layout fields_len lenround align8 wire enc_fields];
      rewrite ?app_nil_r; repeat split; try reflexivity. lia. }
  destruct Hdk as (Hd1 & Hd2 & Hd3).
  destruct (flat_map_ext_R _ (Forall_R_actions acts Hwf)) as [HRw HRg]. fold ks in HRw, HRg.
  replace (fields_len l' vals) with 16 by reflexivity. rewrite !map_app, Hd1, sumN_app, Hs1, Hd2.
  set (L := 8 + 16 + (sumN (map glen ks) + N.of_nat (length D))).
  replace (24 + sumN (map glen ks) + N.of_nat (length D)) with L by (subst L; lia).
  (* the view, normalized *)
  assert (Hnv : norm (T KPacketOut ([VN 4; VN 13; VN L; VN xid] ++ vals) (map canon (nacts acts) ++ [raw D])) =
                T KPacketOut ([VN 4; VN 13; VN L; VN xid] ++ vals) (map norm (map canon (nacts acts)) ++ [raw D])).
  { rewrite norm_unfold, map_app. cbn [map norm writeback]. fold (raw D). f_equal. unfold norm_vals. cbn [writeback app set_nth]. f_equal. f_equal. f_equal.
    unfold vals. cbn [glen lenrule_of layout ofhdr app fields_len lenround align8]. rewrite map_app, sumN_app. unfold nacts. fold ks. rewrite HRg, Hs1.
    cbn [map sumN fold_right glen Build.raw lenrule_of layout fields_len lenround align8]. nats. subst L. f_equal.
    replace (glen (norm (raw D))) with (N.of_nat (length D)) by (cbn [Build.raw norm writeback map glen lenrule_of layout fields_len lenround align8 sumN fold_right]; lia). lia. }
  rewrite Hnv. split.
  - cbn [wire layout align8]. rewrite !flat_map_app. unfold nacts. fold ks. rewrite HRw, Hd3.
    cbn [flat_map wire Build.raw layout enc_fields align8]. rewrite !app_nil_r. reflexivity.
  - unfold vals. cbn [glen lenrule_of lenround align8]. rewrite !map_app, !sumN_app. unfold nacts. fold ks. rewrite HRg, Hs1, Hd2.
    cbn [map sumN fold_right glen Build.raw lenrule_of layout ofhdr app fields_len lenround align8]. nats. lia.
Qed.

Theorem Rv_all : forall m, pmsg_ok m = true -> forall xid, Rv xid m.
Proof.
  induction m as [| | | | | | | | | | | |id fl xin m' IH]; intros Hok xid; pose proof (pmsg_ok_wf _ Hok) as Hwf.
  - (* hello *) apply Rv_of_R; [reflexivity|]. eapply R_msg_node; [exact Hwf|cbn [build_m]; rewrite norm_unfold; reflexivity|reflexivity|].
    cbn [map]. constructor; [split; reflexivity|constructor].
  - (* header only *) apply Rv_of_R; [reflexivity|]. split; reflexivity.
  - (* set-config *) apply Rv_of_R; [reflexivity|]. eapply R_msg_node; [exact Hwf|cbn [build_m]; rewrite norm_unfold; reflexivity|reflexivity|constructor].
  - (* flow-mod *) apply Rv_of_R; [reflexivity|]. eapply R_msg_node; [exact Hwf|cbn [build_m]; rewrite norm_unfold; reflexivity|reflexivity|].
    cbn [map]. destruct (norm_build_match fs) as [Hn _]. rewrite Hn. constructor; [apply R_match|].
    apply Forall_R_instrs. cbn [wf_m] in Hwf. exact Hwf.
  - (* group-mod *) apply Rv_of_R; [reflexivity|]. eapply R_msg_node; [exact Hwf|cbn [build_m]; rewrite norm_unfold; reflexivity|reflexivity|].
    apply Forall_R_buckets. cbn [wf_m] in Hwf. exact Hwf.
  - (* packet-out *) apply Rv_packetout. exact Hok.
  - (* port-mod *) apply Rv_portmod.
  - (* multipart *) apply Rv_of_R; [reflexivity|]. cbn [pmsg_ok] in Hok. apply andb_true_iff in Hok as [Hb _].
    eapply R_msg_node; [exact Hwf|cbn [build_m]; rewrite norm_unfold; reflexivity|reflexivity|].
    destruct b as [|t p g c m0 fs|t p g c m0 fs|p|p q]; cbn [pbody_ok] in Hb; try discriminate; cbn [build_body map].
    + constructor.
    + destruct (norm_build_match fs) as [Hn _]. cbn [norm writeback map]. rewrite Hn. constructor; [apply R_flowreq; tauto|constructor].
    + destruct (norm_build_match fs) as [Hn _]. cbn [norm writeback map]. rewrite Hn. constructor; [apply R_flowreq; tauto|constructor].
  - (* set-controller-id *) apply Rv_of_R; [reflexivity|]. eapply R_msg_node; [exact Hwf|cbn [build_m]; rewrite norm_unfold; reflexivity|reflexivity|].
    cbn [map]. constructor; [split; reflexivity|constructor].
  - (* tlv-table-mod *) apply Rv_of_R; [reflexivity|]. eapply R_msg_node; [exact Hwf|cbn [build_m]; rewrite norm_unfold; reflexivity|reflexivity|].
    cbn [map norm writeback].
    change (map (fun p : N * N * N * N => let '(c, t, l, i) := p in T KTlvMap [VN c; VN t; VN l; VN i] []) maps) with (map mk_map maps).
    rewrite norm_mk_maps. constructor; [|constructor].
    apply R_node; [reflexivity|cbn [norm writeback]; rewrite norm_mk_maps; reflexivity|apply Forall_R_maps].
  - (* tlv-table-req *) apply Rv_of_R; [reflexivity|]. eapply R_msg_node; [exact Hwf|cbn [build_m]; rewrite norm_unfold; reflexivity|reflexivity|constructor].
  - (* bundle ctrl *) apply Rv_of_R; [reflexivity|]. eapply R_msg_node; [exact Hwf|cbn [build_m]; rewrite norm_unfold; reflexivity|reflexivity|].
    cbn [map]. constructor; [split; reflexivity|constructor].
  - (* bundle add: the bundled message by induction *)
    cbn [pmsg_ok] in Hok. repeat (apply andb_true_iff in Hok as [Hok ?]).
    match goal with Hm : pmsg_ok m' = true |- _ => rename Hm into Hin end.
    destruct (IH Hin xin) as [IHw IHg]. unfold Rv. cbn [pview build_m]. set (inner := build_m xin m') in *.
    assert (Hci : consistent inner = true) by (apply build_m_ok, pmsg_ok_wf, Hin).
    destruct (norm_len inner Hci) as [Hg Hl].
    destruct (msg_form KVendor 4 xid [FU 4; FU 4] [VN 1330529792; VN 2301] [T KBundleAdd [VN id; VN fl] [inner]] eq_refl eq_refl eq_refl eq_refl eq_refl) as [Hn _].
    rewrite Hn. clear Hn. cbn [map].
    replace (norm (T KBundleAdd [VN id; VN fl] [inner])) with (T KBundleAdd [VN id; VN fl] [norm inner]) by reflexivity.
    cbn [fields_len glen lenrule_of lenround layout align8 map sumN fold_right]. rewrite Hg. nats.
    replace (8 + (4 + (4 + 0)) + (4 + (2 + (2 + 0)) + (glen inner + 0) + 0)) with (24 + glen inner) by lia.
    assert (Hnv : norm (T KVendor ([VN 4; VN 4; VN (24 + glen inner); VN xid] ++ [VN 1330529792; VN 2301]) [T KBundleAdd [VN id; VN fl] [pview xin m']]) =
                  T KVendor ([VN 4; VN 4; VN (24 + glen inner); VN xid] ++ [VN 1330529792; VN 2301]) [T KBundleAdd [VN id; VN fl] [norm (pview xin m')]]).
    { rewrite norm_unfold. cbn [map norm writeback]. f_equal. unfold norm_vals. cbn [writeback app set_nth]. f_equal. f_equal. f_equal.
      cbn [glen lenrule_of layout ofhdr app fields_len lenround align8 map sumN fold_right]. rewrite IHg, Hg. nats. f_equal. lia. }
    rewrite Hnv. split.
    + cbn [wire layout align8 flat_map]. rewrite IHw. reflexivity.
    + cbn [glen lenrule_of layout ofhdr app fields_len lenround align8 map sumN fold_right]. rewrite IHg, Hg. reflexivity.
Qed.

(* C05 for every message the constructors build *)
Theorem parse_roundtrip m xid : pmsg_ok m = true -> xid < 4294967296 ->
  let bytes := fst (marshal (build_m xid m)) in
  parse_top bytes = Ok (pview xid m) /\ fst (marshal (pview xid m)) = bytes.
Proof.
  intros Hok Hx bytes. subst bytes. unfold marshal. cbn [fst]. split.
  - unfold parse_top. apply parse_built_msg; [exact Hok|exact Hx|].
    assert (Hc : consistent (build_m xid m) = true) by (apply build_m_ok, pmsg_ok_wf, Hok).
    destruct (norm_len _ Hc) as [_ Hl]. pose proof (mdepth_le m xid). lia.
  - destruct (Rv_all m Hok xid) as [Hw _]. exact Hw.
Qed.

Lemma c05_example_ok :
  let r := MFlowMod 1 2 3 0 4 5 6 7 8 9 10
    [MFStd 1 (AB []) (Some (AB [])); MFReg 3 7 (Some (4%Z, 9%Z)); MFStd 7 (AB []) None; MFTunMeta 2 [x01; x02; x03] []]
    [IApply [(ACT [CtCommit; CtZoneImm 5] 0 [ANat [NatSNAT; NatIP4Min []; NatProtoMax 9]; ASetField (MFStd 3 (AN 2048) None)], false);
             (ADecTtlCntIds 3 [1; 2; 3], true); (ANote [x0a; x0b; x0c; x0d; x0e; x0f; x10], false);
             (ALearn 1 2 3 4 5 6 7 8 [LSpec 0 16 ((0,0,false,0),0) ((1,3,false,4),0) [x01;x02]; LSpec 4 8 ((1,2,false,4),0) ((0,0,false,0),0) []], false)];
     IGoto 4; IWriteMeta 5 6] in
  pmsg_ok r = true /\ pmsg_ok (MBundleAdd 1 2 3 (MBundleAdd 4 5 6 (MPacketOut 1 2 [AOutput 3 4] None))) = true /\ pmsg_ok (MBundleAdd 1 2 3 r) = true.
Proof. vm_compute. repeat split; reflexivity. Qed.
