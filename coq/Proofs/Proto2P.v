(* Package protocol, second part (Model/Proto2.v): the decoders of IGMP, DHCP, LLDP, the
   stand-alone 802.1Q tag and IPv6 option are total - a value or an error on every byte string,
   never a panic, never out of fuel (the loops consume input in every iteration). *)
From Coq Require Import NArith ZArith List Bool Lia ZifyN ZifyBool ZifyNat.
From Coq.Strings Require Import Byte.
From LOF Require Import Base.Bytes Base.Res Model.Wire Model.Proto Model.Proto2 Proofs.ProtoP.
Import ListNotations.
Open Scope N_scope.
Ltac Zify.zify_post_hook ::= Z.div_mod_to_equations.

(* ---- the chunk readers under their guards ---- *)
Lemma chunks4_ok k : forall d, (4 * k <= length d)%nat -> exists l, chunks4 k d = Ok l /\ length l = k.
Proof.
  induction k as [|k IH]; intros d H; cbn [chunks4]; [exists []; split; reflexivity|].
  destruct d as [|a [|b [|c [|e r]]]]; cbn [length] in H; try lia.
  destruct (IH r) as [l [Hl Hn]]; [lia|]. rewrite Hl. cbn [bind]. eexists; split; [reflexivity|cbn [length]; lia].
Qed.
Lemma words4_ok k : forall d, (4 * k <= length d)%nat -> exists l, words4 k d = Ok l /\ length l = k.
Proof.
  induction k as [|k IH]; intros d H; cbn [words4]; [exists []; split; reflexivity|].
  destruct d as [|a [|b [|c [|e r]]]]; cbn [length] in H; try lia.
  destruct (IH r) as [l [Hl Hn]]; [lia|]. rewrite Hl. cbn [bind]. eexists; split; [reflexivity|cbn [length]; lia].
Qed.

Lemma dec_igmp12_safe d : safe (dec_igmp12 d).
Proof. unfold dec_igmp12. destruct (blen d <? 8) eqn:E; [apply safe_err|]. repeat prim. apply safe_ok. Qed.

Lemma dec_igmp3q_safe d : safe (dec_igmp3q d).
Proof.
  unfold dec_igmp3q. destruct (blen d <? 12) eqn:E; [apply safe_err|]. do 7 prim.
  set (ns := be_value _). destruct (blen d <? 12 + 4 * ns) eqn:G; [apply safe_err|]. prim.
  destruct (chunks4_ok (N.to_nat ns) (skipn (N.to_nat 12) d)) as [l [Hl _]].
  { rewrite skipn_length. unfold blen in *. lia. }
  rewrite Hl. cbn [bind]. apply safe_ok.
Qed.

Lemma dec_gr_safe d : safe (dec_gr d).
Proof.
  unfold dec_gr. destruct (blen d <? 8) eqn:E; [apply safe_err|]. do 4 prim.
  set (aux := b2n _). set (ns := be_value _).
  destruct (blen d <? 8 + 4 * aux + 4 * ns) eqn:G; [apply safe_err|]. prim.
  destruct (chunks4_ok (N.to_nat ns) (skipn (N.to_nat 8) d)) as [l [Hl _]].
  { rewrite skipn_length. unfold blen in *. lia. }
  rewrite Hl. cbn [bind]. prim.
  destruct (words4_ok (N.to_nat aux) (skipn (N.to_nat (8 + 4 * ns)) d)) as [w [Hw _]].
  { rewrite skipn_length. unfold blen in *. lia. }
  rewrite Hw. cbn [bind]. apply safe_ok.
Qed.

(* a decoded record lies inside the data and occupies at least 8 bytes *)
Lemma dec_gr_size d g : dec_gr d = Ok g -> 8 <= size_gr g <= blen d.
Proof.
  unfold dec_gr. destruct (blen d <? 8) eqn:E; [discriminate|]. do 4 prim.
  set (aux := b2n _). set (ns := be_value _).
  destruct (blen d <? 8 + 4 * aux + 4 * ns) eqn:G; [discriminate|]. prim.
  destruct (chunks4 _ _); cbn [bind]; try discriminate. prim.
  destruct (words4 _ _); cbn [bind]; try discriminate.
  intros H. injection H as <-. unfold size_gr. cbn [r_aux r_ns]. lia.
Qed.

Lemma dec_recs_safe fuel : forall k d, (length d < fuel)%nat -> safe (dec_recs fuel k d).
Proof.
  induction fuel as [|f IH]; intros k d Hf; [lia|]. cbn [dec_recs].
  destruct (k =? 0); [apply safe_ok|]. apply safe_bind; [apply dec_gr_safe|]. intros g Hg.
  pose proof (dec_gr_size d g Hg) as Hs. prim. apply safe_bind; [|intros; apply safe_ok].
  apply IH. rewrite skipn_length. unfold blen in *. lia.
Qed.

Lemma dec_report_safe d : safe (dec_report d).
Proof.
  unfold dec_report. destruct (blen d <? 8) eqn:E; [apply safe_err|]. repeat prim.
  apply safe_bind; [|intros; apply safe_ok]. apply dec_recs_safe. lia.
Qed.

Lemma parse_opts_safe fuel : forall o, (length o < fuel)%nat -> safe (parse_opts fuel o).
Proof.
  induction fuel as [|f IH]; intros o Hf; [lia|]. cbn [parse_opts].
  destruct o as [|t r]; [apply safe_ok|]. cbn [length] in Hf.
  destruct (b2n t =? 0). { apply safe_bind; [apply IH; lia|intros; apply safe_ok]. }
  destruct (b2n t =? 255); [apply safe_ok|]. destruct r as [|l r2]; [apply safe_ok|]. cbn [length] in Hf.
  destruct (blen r2 <? b2n l) eqn:G; [apply safe_err|]. do 2 prim.
  apply safe_bind; [|intros; apply safe_ok]. apply IH. rewrite skipn_length. lia.
Qed.

Lemma dec_dhcp_safe b : safe (dec_dhcp b).
Proof.
  unfold dec_dhcp. destruct (blen b <? 240) eqn:E; [apply safe_err|]. repeat prim.
  set (hl := b2n (nth (N.to_nat 2) b x00)). destruct (16 <? hl) eqn:G; [apply safe_err|].
  assert (Hc : blen (firstn (N.to_nat (44 - 28)) (skipn (N.to_nat 28) b)) = 16).
  { unfold blen in *. rewrite firstn_length, skipn_length. lia. }
  repeat prim. destruct (negb _); [apply safe_err|].
  apply safe_bind; [|intros; apply safe_ok]. apply parse_opts_safe. lia.
Qed.

Lemma dec_vlan_safe d : safe (dec_vlan d).
Proof.
  unfold dec_vlan. destruct (blen d <? 4) eqn:E; [apply safe_err|]. repeat prim.
  destruct (unpack_tci _) as [[p e] v]. apply safe_ok.
Qed.
Lemma dec_v6opt_safe d : safe (dec_v6opt d).
Proof.
  unfold dec_v6opt. destruct (blen d <? 2) eqn:E; [apply safe_err|]. do 2 prim.
  set (ln := b2n _). destruct (blen d - 2 <? ln) eqn:G; [apply safe_err|]. prim. apply safe_ok.
Qed.

(* the LLDP decoders are total functions returning (consumed, failed, value); as results
   they are a value or an error by construction; what they consume lies inside the data *)
Lemma res_of_safe {A} (x : N * bool * A) : safe (res_of x).
Proof. destruct x as [[n e] v]. cbn. destruct e; [apply safe_err|apply safe_ok]. Qed.
Lemma dec_tlv_consumed b : fst (fst (dec_tlv b)) <= blen b.
Proof.
  unfold dec_tlv. destruct (blen b <? 2) eqn:E; [cbn [fst]; lia|]. destruct (blen b <? 3) eqn:F; [cbn [fst]; lia|].
  destruct (blen b - 3 <? _) eqn:G; cbn [fst]; lia.
Qed.
Lemma dec_ttl_consumed b : fst (fst (dec_ttl b)) <= blen b.
Proof. unfold dec_ttl. destruct (blen b <? 2) eqn:E; [cbn [fst]; lia|]. destruct (blen b <? 4) eqn:F; cbn [fst]; lia. Qed.
Lemma dec_lldp_consumed b : fst (fst (dec_lldp b)) <= blen b.
Proof.
  unfold dec_lldp. pose proof (dec_tlv_consumed b) as H1. destruct (dec_tlv b) as [[m e1] ch]. cbn [fst] in H1.
  destruct (m =? 0); [cbn [fst]; lia|].
  pose proof (dec_tlv_consumed (skipn (N.to_nat m) b)) as H2. destruct (dec_tlv (skipn _ b)) as [[o e2] pt]. cbn [fst] in H2.
  rewrite blen_skipn in H2 by lia. destruct (o =? 0); [cbn [fst]; lia|].
  pose proof (dec_ttl_consumed (skipn (N.to_nat (m + o)) b)) as H3. destruct (dec_ttl (skipn _ b)) as [[p e3] tv]. cbn [fst] in H3.
  rewrite blen_skipn in H3 by lia. destruct (p =? 0); cbn [fst]; lia.
Qed.
