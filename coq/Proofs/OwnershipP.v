(* C12: owned cells are out of reach of later writes; a live view is not, and the complement
   overwrite used by the correspondence check exposes every one of them. *)
From Coq Require Import NArith Arith List Bool Lia.
From Coq.Strings Require Import Byte.
From LOF Require Import Base.Bytes Model.Ownership.
Import ListNotations.

Lemma resolve_own h h' c : is_own c = true -> resolve h c = resolve h' c.
Proof. destruct c; [reflexivity|discriminate]. Qed.

Theorem owned_stable m : owns m = true -> forall ops h, observe (hrun ops h) m = observe h m.
Proof.
  intros Ho ops h. unfold observe. f_equal. unfold owns in Ho. rewrite forallb_forall in Ho.
  apply map_ext_in. intros c Hc. apply resolve_own. apply Ho, Hc.
Qed.

Lemma compl_ne x : compl x <> x.
Proof. destruct x; vm_compute; discriminate. Qed.

Lemma firstn_map_compl_ne l : forall n, (0 < n)%nat -> (n <= length l)%nat -> firstn n (map compl l) <> firstn n l.
Proof.
  destruct l as [|x l]; intros n Hn Hl; cbn in Hl; [lia|].
  destruct n as [|n]; [lia|]. cbn. intros H. injection H as H _. exact (compl_ne x H).
Qed.

Lemma skipn_map {A B} (f : A -> B) l : forall n, skipn n (map f l) = map f (skipn n l).
Proof. induction l as [|x l IH]; intros [|n]; cbn; try reflexivity. apply IH. Qed.

Theorem view_exposed h b o l : (0 < l)%nat -> (o + l <= length (h b))%nat ->
  resolve (scribble b h) (View b o l) <> resolve h (View b o l).
Proof.
  intros Hl Hb. cbn [resolve scribble hstep]. rewrite Nat.eqb_refl, skipn_map.
  apply firstn_map_compl_ne; [exact Hl|]. rewrite skipn_length. lia.
Qed.

Section Policy.
  Variable site : Type.
  Variable copies : site -> bool.

  (* at parse time both policies show the same fields: nothing a test that only looks at
     the message right after decoding could tell apart *)
  Theorem decode_faithful buf h x :
    map (resolve h) (decode_cells site copies buf h x) = map (fun e => match e with (_, o, l) => firstn l (skipn o (h buf)) end) x.
  Proof.
    unfold decode_cells. rewrite map_map. apply map_ext. intros [[s o] l]. destruct (copies s); reflexivity.
  Qed.

  (* every site copies => the message never changes, whatever happens to any buffer *)
  Theorem copy_policy_stable buf h sc x : (forall s o l, In (s, o, l) x -> copies s = true) ->
    forall ops, observe (hrun ops h) (decoded site copies buf h sc x) = observe h (decoded site copies buf h sc x).
  Proof.
    intros Hc ops. apply owned_stable. unfold owns, decoded, decode_cells; cbn [cells].
    rewrite forallb_forall. intros c Hin. apply in_map_iff in Hin as [[[s o] l] [<- Hin]].
    rewrite (Hc s o l Hin). reflexivity.
  Qed.

  (* one exercised site that keeps a sub-slice => overwriting the buffer changes the message,
     and the complement overwrite is enough to see it *)
  Theorem alias_policy_exposed buf h sc x : existsb (live site copies buf h) x = true ->
    observe (scribble buf h) (decoded site copies buf h sc x) <> observe h (decoded site copies buf h sc x).
  Proof.
    intros He. apply existsb_exists in He as [[[s o] l] [Hin Hl]]. unfold live in Hl.
    apply andb_true_iff in Hl as [Hl Hb]. apply andb_true_iff in Hl as [Hs Hl].
    apply negb_true_iff in Hs. apply Nat.ltb_lt in Hl. apply Nat.leb_le in Hb.
    unfold observe, decoded; cbn [scalars cells]. intros H. injection H as H. clear sc.
    induction x as [|e x IH]; [destruct Hin|]. cbn [decode_cells map] in H. injection H as H1 H2.
    destruct Hin as [->|Hin]; [|exact (IH Hin H2)].
    rewrite Hs in H1. exact (view_exposed h buf o l Hl Hb H1).
  Qed.
End Policy.

(* non-vacuity: a frame with one field at bytes 2..5, copied or kept *)
Example policy_example :
  let h := fun b : nat => if Nat.eqb b 0 then [x01; x02; x03; x04; x05; x06] else [] in
  observe (scribble 0 h) (decoded unit (fun _ => true) 0 h [7%N] [(tt, 2%nat, 3%nat)]) = ([7%N], [[x03; x04; x05]]) /\
  observe (scribble 0 h) (decoded unit (fun _ => false) 0 h [7%N] [(tt, 2%nat, 3%nat)]) = ([7%N], [[xfc; xfb; xfa]]).
Proof. vm_compute. split; reflexivity. Qed.

(* the decode model of Model/Parse.v returns values: as a Go heap object, a tree whose byte
   fields are all Own cells.  That reading of the model is right exactly when no decoder keeps
   a sub-slice - which is what LOFGen.SrcFacts.view_sites = [] (re-extracted from the source on
   every run) and the overwrite runs of the correspondence check establish. *)
From LOF Require Import Model.Wire Base.Res Model.Parse Proofs.WireP.

Definition vcells (v : val) : list cell := match v with VN _ => [] | VB bs => [Own bs] end.
Definition vscalars (v : val) : list N := match v with VN n => [n] | VB _ => [] end.
Fixpoint tcells (t : tree) : list cell :=
  match t with T _ vs kids => flat_map vcells vs ++ flat_map tcells kids end.
Fixpoint tscalars (t : tree) : list N :=
  match t with T _ vs kids => flat_map vscalars vs ++ flat_map tscalars kids end.
Definition go_of (t : tree) : gomsg := {| scalars := tscalars t ; cells := tcells t |}.

Lemma go_of_owns t : owns (go_of t) = true.
Proof.
  unfold owns, go_of; cbn [cells]. induction t as [k vs kids IH] using tree_ind'. cbn [tcells].
  rewrite forallb_app. apply andb_true_iff. split.
  - induction vs as [|[n|bs] vs IHv]; cbn; auto.
  - induction IH as [|t kids Ht _ IHk]; [reflexivity|]. cbn [flat_map]. rewrite forallb_app, Ht, IHk. reflexivity.
Qed.

Theorem parsed_message_stable d t : parse_top d = Ok t ->
  forall ops h, observe (hrun ops h) (go_of t) = observe h (go_of t).
Proof. intros _ ops h. apply owned_stable, go_of_owns. Qed.
