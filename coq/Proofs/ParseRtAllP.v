(* The decode model (Model/Parse.v) inverts the encoder on everything the constructors build:
   C05 for all recipes. *)
From Coq Require Import NArith ZArith Arith List Bool Lia ZifyN ZifyBool ZifyNat.
From Coq.Strings Require Import Byte.
From LOF Require Import Base.Bytes Base.Res Model.Wire Model.Build Model.Proto Model.Parse Spec.Walk
  Proofs.WireP Proofs.BuildP Proofs.NormP Proofs.WalkP Proofs.WalkAllP Proofs.SegP.
Import ListNotations.
Open Scope N_scope.
Ltac Zify.zify_post_hook ::= Z.div_mod_to_equations.
Local Notation blen := Proto.blen.


(* resolve the dispatch on the leading 16-bit type first, so that only the live branch remains *)
Ltac dispatch16 :=
  match goal with
  | |- context [uat 2 (be_bytes 2 ?t ++ ?Y) 0] =>
    rewrite (uat_here' 2 2 t Y eq_refl) by (change (256 ^ 2) with 65536; lia)
  end; cbn [bind]; cbv zeta; cbn [N.eqb Pos.eqb orb negb].

Lemma dec_output p ml fuel rest : p < 4294967296 -> ml < 65536 ->
  dec_action (S fuel) (wire (build_a (AOutput p ml)) ++ rest) = Ok (build_a (AOutput p ml)).
Proof.
  intros Hp Hm. cbn [build_a wire layout acthdr app enc_fields align8 flat_map]. rewrite <- !app_assoc. cbn [app].
  cbn [dec_action]. dispatch16. repeat ifblen. Time seg. cbn [app]. reflexivity.
Qed.

(* what dec_action does with a Nicira action once its header has been read *)
Lemma dec_nx_prologue d L sub fuel :
  uat 2 d 0 = Ok 65535 -> uat 2 d 2 = Ok L -> uat 4 d 4 = Ok 8992 -> uat 2 d 8 = Ok sub -> 10 <= blen d ->
  dec_action (S fuel) d =
  (let hv := [VN 65535; VN L; VN 8992; VN sub] in let len := L in
       if N.eqb sub 35 then
         if blen d <? len then Err else
         fl <- uat 2 d 10 ;; zs <- uat 4 d 12 ;; zo <- uat 2 d 16 ;; rc <- at_ d 18 ;; _ <- sl d 19 22 ;; alg <- uat 2 d 22 ;;
         '(ks, n) <- ct_loop (dec_action fuel) (S (length d)) d len 24 ;;
         Ok (T KNxConnTrack ([VN (vnum hv 0); VN (n mod 65536); VN (vnum hv 2); VN (vnum hv 3)] ++ [VN fl; VN zs; VN zo; VN rc; VN alg]) ks)
       else if N.eqb sub 36 then
         let rl := round8 len mod 65536 in
         if blen d <? rl then Err else
         fl <- uat 2 d 12 ;; pr <- uat 2 d 14 ;;
         '(ps, _) <- nat_part pr 5 2 d (nat_part pr 4 2 d (nat_part pr 3 16 d (nat_part pr 2 16 d (nat_part pr 1 4 d (nat_part pr 0 4 d (Ok ([], 16))))))) ;;
         Ok (T KNxNat ([VN (vnum hv 0); VN rl; VN (vnum hv 2); VN (vnum hv 3)] ++ [VN fl; VN pr]) ps)
       else if N.eqb sub 16 then
         if blen d <? len then Err else
         vs <- read_vals d [(10, 2); (12, 2); (14, 2); (16, 8); (24, 2); (26, 1); (28, 2); (30, 2)] ;;
         ss <- dec_lspecs (S (length d)) d 32 len ;;
         Ok (T KNxLearn (hv ++ vs) ss)
       else if N.eqb sub 8 then
         if blen d <? len then Err else note <- sl d 10 len ;; Ok (T KNxNote (hv ++ [VB note]) [])
       else if N.eqb sub 33 then
         if blen d <? len then Err else r <- from d 10 ;; f <- dec_mf r ;; Ok (T KNxRegLoad2 hv [f])
       else if N.eqb sub 21 then
         if blen d <? len then Err else
         c <- uat 2 d 10 ;; ids <- sl d 16 (16 + 2 * c) ;; Ok (T KNxDecTtlCntIds (hv ++ [VN c; VB ids]) [])
       else
         match nx_fixed sub with
         | None => Panic
         | Some (k, offs) =>
           if blen d <? len then Err else
           if N.eqb sub 6 && (blen d <? 24) then (_ <- uat 2 d 14 ;; _ <- from d 20 ;; Err) else
           vs <- read_vals d offs ;;
           _ <- (if (N.eqb sub 7 || N.eqb sub 15 || N.eqb sub 32)%bool then sl d 12 16 else Ok []) ;;
           Ok (T k (hv ++ vs) [])
         end)%res.
Proof.
  intros H0 H2 H4 H8 Hb. cbn [dec_action]. rewrite H0. cbn [bind]. cbv zeta. cbn [N.eqb Pos.eqb orb].
  replace (blen d <? 10) with false by lia. rewrite H4. cbn [bind N.eqb Pos.eqb negb].
  unfold nxhdr_vals. rewrite H0, H2, H4, H8. cbn [bind vnum nth]. reflexivity.
Qed.

(* the header reads on the bytes of a Nicira action *)
Lemma nx_header_reads L sub B rest : L < 65536 -> sub < 65536 ->
  let d := nxbytes L sub B ++ rest in
  uat 2 d 0 = Ok 65535 /\ uat 2 d 2 = Ok L /\ uat 4 d 4 = Ok 8992 /\ uat 2 d 8 = Ok sub /\ blen d = 10 + blen B + blen rest.
Proof.
  intros HL Hs d. subst d. unfold nxbytes. rewrite <- !app_assoc. repeat split; try (seg; reflexivity).
  blens. change (N.of_nat 2) with 2. change (N.of_nat 4) with 4. lia.
Qed.

Lemma bind_sl_discard {B} d a b (K : res B) : a <= b -> b <= blen d -> (_ <- sl d a b ;; K)%res = K.
Proof. intros H1 H2. unfold sl. replace ((a <=? b) && (b <=? blen d)) with true by lia. reflexivity. Qed.

Ltac sl_discard :=
  match goal with
  | |- context [bind (sl ?d ?a ?b) (fun _ => ?K)] => rewrite (bind_sl_discard d a b K) by (try (blens; change (N.of_nat 1) with 1; change (N.of_nat 2) with 2; change (N.of_nat 4) with 4; change (N.of_nat 8) with 8; change (N.of_nat 6) with 6; change (N.of_nat 3) with 3); lia)
  end.

Ltac dec_walk :=
  repeat first
    [ ifblen
    | sl_discard
    | seg_step; cbn [bind]
    | progress cbn [bind N.eqb Pos.eqb orb andb negb vnum nth nx_fixed read_vals app] ].

(* wire form of a childless Nicira action that is not padded *)
Lemma wire_nx_plain k L sub l' vals : layout k = nxhdr ++ l' -> align8 k = false ->
  wire (T k (nx sub L ++ vals) []) = nxbytes L sub (enc_fields l' vals).
Proof.
  intros Hl Ha. cbn [wire]. rewrite Ha, Hl. unfold nx, nxbytes. cbn [nxhdr app enc_fields flat_map]. rewrite <- !app_assoc, app_nil_r. reflexivity.
Qed.

Lemma dec_fixed_action a fuel rest : fixed_arec_ok a = true ->
  dec_action (S fuel) (wire (build_a a) ++ rest) = Ok (build_a a).
Proof.
  intros H. destruct a; try discriminate H; cbn [fixed_arec_ok std_arec_ok] in H.
  (* the standard actions *)
  1-8: cbn [build_a wire layout acthdr app enc_fields align8 flat_map]; rewrite <- ?app_assoc; cbn [app];
       cbn [dec_action]; dispatch16; dec_walk; reflexivity.
  (* the Nicira ones *)
  all: cbn [build_a]; try replace (nx 43 16) with (nx 43 16 ++ []) by apply app_nil_r.
  all: match goal with |- context [wire (T ?k (nx ?sub ?L ++ ?vals) [])] =>
         rewrite (wire_nx_plain k L sub _ vals eq_refl eq_refl) end.
  all: match goal with |- context [nxbytes ?L ?sub ?B ++ ?rest] =>
         destruct (nx_header_reads L sub B rest ltac:(lia) ltac:(lia)) as (R0 & R2 & R4 & R8 & Rb);
         rewrite (dec_nx_prologue _ L sub fuel R0 R2 R4 R8) by (rewrite Rb; lia); clear R0 R2 R4 R8 end.
  all: cbv zeta; cbn [N.eqb Pos.eqb orb andb nx_fixed].
  all: rewrite Rb; clear Rb; cbn [enc_fields]; unfold nxbytes, nx; rewrite <- ?app_assoc; cbn [app].
  all: try destruct maxlen.
  all: dec_walk.
  all: reflexivity.
Qed.

(* ---------------------------------------------------------------- match fields *)
(* the decode table knows every constructor of the build table, with the same width *)
Definition mf_tables_agree (ctor : N) : bool :=
  match mf_table ctor with
  | None => true
  | Some (c, f, w, _) =>
    negb (c =? 65535) &&
    match mf_payload c f (N.of_nat w) false, mf_payload c f (2 * N.of_nat w) true with
    | Some (w1, _), Some (w2, _) => (w1 =? N.of_nat w) && (w2 =? N.of_nat w)
    | _, _ => false
    end
  end.
Lemma mf_tables_sweep : forallb mf_tables_agree (ProtoP.nrange 64) = true.
Proof. vm_compute. reflexivity. Qed.

Lemma take_payload_app w s v Y : N.of_nat (length v) = w -> take_payload w s (v ++ Y) = Ok v.
Proof.
  intros Hw. unfold take_payload. 
  assert (Hf : firstn (N.to_nat w) (v ++ Y) = v) by (apply firstn_app_exact; lia).
  destruct s.
  - rewrite blen_app. unfold blen at 1. replace (N.of_nat (length v) + blen Y <? w) with false by lia. rewrite Hf. reflexivity.
  - rewrite blen_app. unfold blen at 1. replace (N.of_nat (length v) + blen Y <? w) with false by lia. rewrite Hf. reflexivity.
  - unfold fit. rewrite <- app_assoc. rewrite firstn_app_exact by lia. reflexivity.
Qed.

Lemma dec_mk_mf c f (hm : bool) len (v m : list byte) rest w s :
  c < 65535 -> f < 128 -> len < 256 -> mf_payload c f len hm = Some (w, s) ->
  N.of_nat (length v) = w -> (if hm return Prop then N.of_nat (length m) = w else m = []) ->
  dec_mf (wire (mk_mf c f hm len v m) ++ rest) = Ok (mk_mf c f hm len v m).
Proof.
  intros Hc Hf Hlen Hp Hv Hm. rewrite wire_mk_mf.
  set (fh := (f * 2 + (if hm then 1 else 0)) mod 256).
  assert (Hfh : fh = f * 2 + (if hm then 1 else 0)) by (subst fh; destruct hm; lia).
  assert (Hfh2 : fh / 2 = f) by (rewrite Hfh; destruct hm; lia).
  assert (Hodd : N.odd fh = hm).
  { rewrite Hfh. destruct hm; [replace (f * 2 + 1) with (1 + 2 * f) by lia|replace (f * 2 + 0) with (0 + 2 * f) by lia]; rewrite N.odd_add_mul_2; reflexivity. }
  assert (Hfhlt : fh < 256) by (rewrite Hfh; destruct hm; lia).
  replace (len mod 256) with len by lia.
  rewrite <- !app_assoc. unfold dec_mf.
  rewrite (uat_here' 2 2 c _ eq_refl) by (change (256 ^ 2) with 65536; lia). cbn [bind].
  rewrite (at_skip (be_bytes 2 c) _ 2 2) by (try apply blen_be; lia). change (2 - 2) with 0.
  rewrite at_here by lia. cbn [bind].
  rewrite (at_skip (be_bytes 2 c) _ 3 2) by (try apply blen_be; lia). change (3 - 2) with 1.
  rewrite (at_skip (be_bytes 1 fh) _ 1 1) by (try apply blen_be; lia). change (1 - 1) with 0.
  rewrite at_here by lia. cbn [bind]. cbv zeta.
  replace (c =? 65535) with false by lia. cbn [bind]. rewrite Hfh2, Hodd, Hp.
  (* the payload starts after the 4-byte header *)
  assert (Hfrom4 : forall Y, from (be_bytes 2 c ++ be_bytes 1 fh ++ be_bytes 1 len ++ Y) 4 = Ok Y).
  { intros Y. rewrite (from_skip (be_bytes 2 c) _ 4 2) by (try apply blen_be; lia). change (4 - 2) with 2.
    rewrite (from_skip (be_bytes 1 fh) _ 2 1) by (try apply blen_be; lia). change (2 - 1) with 1.
    rewrite (from_skip (be_bytes 1 len) _ 1 1) by (try apply blen_be; lia). change (1 - 1) with 0. apply from_zero. }
  rewrite Hfrom4. cbn [bind]. rewrite take_payload_app by exact Hv. cbn [bind].
  unfold mk_mf. fold fh. replace (len mod 256) with len by lia.
  destruct hm.
  - assert (Hfromw : from (be_bytes 2 c ++ be_bytes 1 fh ++ be_bytes 1 len ++ v ++ m ++ rest) (4 + w) = Ok (m ++ rest)).
    { rewrite (from_skip (be_bytes 2 c) _ (4 + w) 2) by (try apply blen_be; lia). replace (4 + w - 2) with (2 + w) by lia.
      rewrite (from_skip (be_bytes 1 fh) _ (2 + w) 1) by (try apply blen_be; lia). replace (2 + w - 1) with (1 + w) by lia.
      rewrite (from_skip (be_bytes 1 len) _ (1 + w) 1) by (try apply blen_be; lia). replace (1 + w - 1) with w by lia.
      rewrite (from_skip v _ w w) by (unfold blen; lia). replace (w - w) with 0 by lia. apply from_zero. }
    rewrite Hfromw. cbn [bind]. rewrite take_payload_app by exact Hm. cbn [bind app]. reflexivity.
  - subst m. cbn [app]. reflexivity.
Qed.

Definition pmf_ok (r : mfrec) : bool :=
  match r with
  | MFStd ctor _ _ => match mf_table ctor with Some _ => true | None => false end
  | MFReg idx _ _ => idx <? 16
  | MFTunMeta idx data mask =>
    (idx <? 8) && (N.of_nat (length data) + N.of_nat (length mask) <? 256) &&
    (Nat.eqb (length mask) 0 || Nat.eqb (length mask) (length data))
  | MFCtState _ _ => true
  end.

Lemma pmf_ok_mf_ok r : pmf_ok r = true -> mf_ok r = true.
Proof.
  destruct r as [ctor v m|idx data rng|idx data mask|d m]; cbn [pmf_ok mf_ok]; intros H; try exact H; lia.
Qed.

Lemma mf_tables_agree_all ctor c f w fl : mf_table ctor = Some (c, f, w, fl) ->
  c < 65535 /\ (exists s, mf_payload c f (N.of_nat w) false = Some (N.of_nat w, s)) /\
  (exists s, mf_payload c f (2 * N.of_nat w) true = Some (N.of_nat w, s)).
Proof.
  intros E. assert (Hlt : ctor < 64).
  { destruct (N.ltb_spec ctor 64) as [H|H]; [exact H|]. exfalso.
    destruct ctor as [|p]; [lia|]. repeat (destruct p as [p|p|]; try (cbn in E; discriminate E); try lia). }
  pose proof (ProtoP.sweep1_lift 64 _ mf_tables_sweep ctor Hlt) as H. unfold mf_tables_agree in H. rewrite E in H.
  destruct (mf_table_legal _ _ _ _ _ E) as (Hc & _).
  apply andb_true_iff in H as [Hne H].
  destruct (mf_payload c f (N.of_nat w) false) as [[w1 s1]|]; [|discriminate].
  destruct (mf_payload c f (2 * N.of_nat w) true) as [[w2 s2]|]; [|discriminate].
  apply andb_true_iff in H as [H1 H2]. apply N.eqb_eq in H1, H2. subst.
  repeat split; [lia|eexists; reflexivity|eexists; reflexivity].
Qed.

Theorem dec_built_mf r rest : pmf_ok r = true -> dec_mf (wire (build_mf r) ++ rest) = Ok (build_mf r).
Proof.
  destruct r as [ctor v m|idx data rng|idx data mask|d m]; cbn [pmf_ok build_mf]; intros H.
  - destruct (mf_table ctor) as [[[[c f] w] fl]|] eqn:E; [|discriminate].
    destruct (mf_table_legal _ _ _ _ _ E) as (_ & Hf & _ & Hw).
    destruct (mf_tables_agree_all _ _ _ _ _ E) as (Hc & [s1 H1] & [s2 H2]).
    destruct m as [mk|].
    + replace (N.of_nat w * 2) with (2 * N.of_nat w) by lia.
      eapply dec_mk_mf; try exact H2; try lia; rewrite ?length_payload; reflexivity.
    + eapply dec_mk_mf; try exact H1; try lia; rewrite ?length_payload; reflexivity.
  - assert (Hp : forall l hm, mf_payload 1 idx l hm = Some (4, ErrShort)).
    { intros l hm. assert (Hi : idx < 16) by lia. clear - Hi. 
      destruct idx as [|p]; [reflexivity|]. repeat (destruct p as [p|p|]; try reflexivity; try lia). }
    destruct rng as [[s e]|]; eapply dec_mk_mf; try apply Hp; try lia; reflexivity.
  - apply andb_true_iff in H as [H H3]. apply andb_true_iff in H as [H1 H2].
    assert (Hp : forall l hm, mf_payload 1 (40 + idx) l hm = Some (if hm then l / 2 else l, ErrShort)).
    { intros l hm. assert (Hi : idx < 8) by lia. clear - Hi.
      destruct idx as [|p]; [reflexivity|]. repeat (destruct p as [p|p|]; try reflexivity; try lia). }
    destruct (Nat.eqb (length mask) 0) eqn:E0; cbn [negb].
    + apply Nat.eqb_eq in E0. destruct mask; [|discriminate]. eapply dec_mk_mf; try apply Hp; cbn [length] in *; try lia; reflexivity.
    + cbn [orb] in H3. apply Nat.eqb_eq in H3. eapply dec_mk_mf; try apply Hp; try lia.
  - eapply dec_mk_mf; try reflexivity; lia.
Qed.

Lemma dec_mfs_built fs : forallb pmf_ok fs = true -> forall fuel P S, (length fs < fuel)%nat ->
  dec_mfs fuel (P ++ flat_map wire (map build_mf fs) ++ S) (blen P) (blen P + blen (flat_map wire (map build_mf fs))) =
  Ok (map build_mf fs, false).
Proof.
  induction fs as [|f r IH]; intros H fuel P S Hf; cbn [map flat_map forallb length] in *.
  - destruct fuel; [lia|]. cbn [dec_mfs]. rewrite blen_nil. replace (blen P + 0 <=? blen P) with true by lia. reflexivity.
  - apply andb_true_iff in H as [Hf1 Hr]. destruct fuel as [|fuel]; [lia|]. cbn [dec_mfs].
    pose proof (length_wire_build_mf f (pmf_ok_mf_ok f Hf1)) as Hpos.
    rewrite blen_app. unfold blen at 2. replace (blen P + (N.of_nat (length (wire (build_mf f))) + _) <=? blen P) with false by lia.
    rewrite (from_skip P _ (blen P) (blen P)) by (try reflexivity; lia). rewrite N.sub_diag, from_zero. cbn [bind].
    rewrite <- app_assoc. rewrite dec_built_mf by exact Hf1.
    rewrite glen_build_mf. unfold size.
    replace (blen P + N.of_nat (length (wire (build_mf f)))) with (blen (P ++ wire (build_mf f))) by (rewrite blen_app; reflexivity).
    replace (blen P + (N.of_nat (length (wire (build_mf f))) + blen (flat_map wire (map build_mf r))))
      with (blen (P ++ wire (build_mf f)) + blen (flat_map wire (map build_mf r))) by (rewrite blen_app; unfold blen; lia).
    replace (P ++ wire (build_mf f) ++ flat_map wire (map build_mf r) ++ S) with ((P ++ wire (build_mf f)) ++ flat_map wire (map build_mf r) ++ S)
      by (rewrite <- app_assoc; reflexivity).
    replace (blen P + (blen (wire (build_mf f)) + blen (flat_map wire (map build_mf r))))
      with (blen (P ++ wire (build_mf f)) + blen (flat_map wire (map build_mf r))) by (rewrite blen_app; lia).
    rewrite IH by (try exact Hr; lia). cbn [bind]. reflexivity.
Qed.

Lemma forallb_imp {A} (p q : A -> bool) l : (forall x, p x = true -> q x = true) -> forallb p l = true -> forallb q l = true.
Proof. intros Hpq H. rewrite forallb_forall in *. intros x Hx. apply Hpq, H, Hx. Qed.

Definition pmatch_ok (fs : list mfrec) : bool :=
  forallb pmf_ok fs && (4 + sumN (map glen (map build_mf fs)) <? 65536).

Lemma pmatch_ok_match_ok fs : pmatch_ok fs = true -> match_ok fs = true.
Proof.
  intros H. apply andb_true_iff in H as [H1 H2]. unfold match_ok. rewrite H2, andb_true_r.
  apply (forallb_imp pmf_ok mf_ok); [apply pmf_ok_mf_ok|exact H1].
Qed.

Theorem dec_built_match fs rest : pmatch_ok fs = true ->
  dec_match (wire (build_match fs) ++ rest) = Ok (build_match fs, false).
Proof.
  intros H. apply andb_true_iff in H as [Hfs Hlen]. unfold build_match.
  set (ks := map build_mf fs) in *. set (len := 4 + sumN (map glen ks)) in *.
  assert (Hcons : forallb consistent ks = true) by (subst ks; apply forallb_map_true, build_mf_ok).
  pose proof (sum_glen_wire ks Hcons) as Hsum.
  cbn [wire layout enc_fields align8]. rewrite !app_nil_r. set (body := flat_map wire ks) in *.
  set (Z := zeros (pad8 (length ((be_bytes 2 1 ++ be_bytes 2 len) ++ body)))).
  unfold dec_match. rewrite <- !app_assoc.
  rewrite (uat_here' 2 2 1 _ eq_refl) by (change (256 ^ 2) with 65536; lia). cbn [bind].
  rewrite (uat_skip 2 (be_bytes 2 1) _ 2 2) by (try apply blen_be; lia). change (2 - 2) with 0.
  rewrite (uat_here' 2 2 len _ eq_refl) by (change (256 ^ 2) with 65536; lia). cbn [bind].
  replace (be_bytes 2 1 ++ be_bytes 2 len ++ body ++ Z ++ rest) with ((be_bytes 2 1 ++ be_bytes 2 len) ++ body ++ (Z ++ rest))
    by (rewrite <- !app_assoc; reflexivity).
  set (Hd := be_bytes 2 1 ++ be_bytes 2 len).
  assert (Hb4 : blen Hd = 4) by reflexivity.
  assert (Hfu : (length fs < S (length (Hd ++ body ++ Z ++ rest)))%nat).
  { rewrite !app_length. unfold body, ks. pose proof (lspecs_len []) as _. 
    assert (length fs <= length (flat_map wire (map build_mf fs)))%nat; [|lia].
    clear - Hfs. induction fs as [|f r IH]; cbn [map flat_map length forallb] in *; [lia|]. apply andb_true_iff in Hfs as [H1 H2].
    rewrite app_length. pose proof (length_wire_build_mf f (pmf_ok_mf_ok f H1)). specialize (IH H2). lia. }
  pose proof (dec_mfs_built fs Hfs _ Hd (Z ++ rest) Hfu) as HH. fold ks in HH. fold body in HH.
  rewrite Hb4 in HH. replace (4 + blen body) with len in HH by (subst len; unfold blen; lia).
  rewrite HH. cbn [bind]. reflexivity.
Qed.

(* ---------------------------------------------------------------- set-field, reg_load2, note, cnt_ids *)
Definition psetfield_ok (f : mfrec) : bool := pmf_ok f && (size (build_mf f) <? 65000).

Theorem dec_built_setfield f fuel rest : psetfield_ok f = true ->
  dec_action (S fuel) (wire (build_a (ASetField f)) ++ rest) = Ok (build_a (ASetField f)).
Proof.
  intros H. apply andb_true_iff in H as [Hf Hsz]. cbn [build_a]. rewrite glen_build_mf.
  set (m := build_mf f) in *. set (L := round8 (4 + size m)).
  pose proof (WalkAllP.round8_ge (4 + size m)) as (HL1 & HL2 & HL3). fold L in HL1, HL2, HL3.
  cbn [wire layout acthdr enc_fields align8 flat_map]. rewrite !app_nil_r. fold (wire m).
  set (Z := zeros (pad8 (length ((be_bytes 2 25 ++ be_bytes 2 L) ++ wire m)))).
  rewrite <- !app_assoc. cbn [dec_action]. dispatch16.
  assert (Hbl : (blen (be_bytes 2 25 ++ be_bytes 2 L ++ wire m ++ Z ++ rest) <? 4) = false) by (blens; nats; lia).
  rewrite Hbl.
  rewrite (uat_skip 2 (be_bytes 2 25) _ 2 2) by (try apply blen_be; lia). change (2 - 2) with 0.
  rewrite (uat_here' 2 2 L _ eq_refl) by (change (256 ^ 2) with 65536; lia). cbn [bind].
  rewrite (from_skip (be_bytes 2 25) _ 4 2) by (try apply blen_be; lia). change (4 - 2) with 2.
  rewrite (from_skip (be_bytes 2 L) _ 2 2) by (try apply blen_be; lia). change (2 - 2) with 0. rewrite from_zero. cbn [bind].
  subst m. rewrite dec_built_mf by exact Hf. cbn [err_is_panic bind]. reflexivity.
Qed.

Theorem dec_built_regload2 f fuel rest : psetfield_ok f = true ->
  dec_action (S fuel) (wire (norm (build_a (ARegLoad2 f))) ++ rest) = Ok (norm (build_a (ARegLoad2 f))).
Proof.
  intros H. apply andb_true_iff in H as [Hf Hsz]. rewrite norm_regload2.
  set (m := build_mf f) in *. set (L := round8 (10 + size m)).
  pose proof (WalkAllP.round8_ge (10 + size m)) as (HL1 & HL2 & HL3). fold L in HL1, HL2, HL3.
  replace (nx 33 L) with (nx 33 L ++ []) by apply app_nil_r.
  rewrite (wire_nx_padded KNxRegLoad2 L 33 [] [m] eq_refl eq_refl []).
  cbn [enc_fields flat_map app]. rewrite app_nil_r.
  set (B := wire m ++ zeros (pad8 (10 + length (wire m)))).
  destruct (nx_header_reads L 33 B rest ltac:(lia) ltac:(lia)) as (R0 & R2 & R4 & R8 & Rb).
  rewrite (dec_nx_prologue _ L 33 fuel R0 R2 R4 R8) by (rewrite Rb; lia). clear R0 R2 R4 R8.
  cbv zeta. cbn [N.eqb Pos.eqb].
  assert (HB : 10 + blen B = L).
  { subst B. pose proof (blen_padded (length (wire m)) (wire m) eq_refl 10%nat eq_refl) as Hp. exact Hp. }
  replace (blen (nxbytes L 33 B ++ rest) <? L) with false by (rewrite Rb; lia).
  unfold nxbytes. rewrite <- !app_assoc.
  rewrite (from_skip (be_bytes 2 65535) _ 10 2) by (try apply blen_be; lia). change (10 - 2) with 8.
  rewrite (from_skip (be_bytes 2 L) _ 8 2) by (try apply blen_be; lia). change (8 - 2) with 6.
  rewrite (from_skip (be_bytes 4 8992) _ 6 4) by (try apply blen_be; lia). change (6 - 4) with 2.
  rewrite (from_skip (be_bytes 2 33) _ 2 2) by (try apply blen_be; lia). change (2 - 2) with 0. rewrite from_zero. cbn [bind].
  subst B m. rewrite <- app_assoc. rewrite dec_built_mf by exact Hf. cbn [bind]. reflexivity.
Qed.


Theorem dec_built_note bs fuel rest : N.of_nat (length bs) <? 65000 = true ->
  dec_action (S fuel) (wire (norm (build_a (ANote bs))) ++ rest) = Ok (canon (norm (build_a (ANote bs)))).
Proof.
  intros Hsz.
  assert (Hn : norm (build_a (ANote bs)) = T KNxNote (nx 8 (round8 (10 + N.of_nat (length bs))) ++ [VB bs]) []).
  { cbn [build_a norm writeback map]. unfold nx. cbn [app set_nth].
    cbn [glen lenrule_of layout nxhdr app fields_len lenround align8 map sumN fold_right].
    change (N.of_nat 2) with 2. change (N.of_nat 4) with 4.
    match goal with |- context [round8 ?x] => replace x with (10 + N.of_nat (length bs)) by lia end. reflexivity. }
  rewrite Hn. set (L := round8 (10 + N.of_nat (length bs))).
  pose proof (WalkAllP.round8_ge (10 + N.of_nat (length bs))) as (HL1 & HL2 & HL3). fold L in HL1, HL2, HL3.
  rewrite (wire_nx_padded KNxNote L 8 [FV] [] eq_refl eq_refl [VB bs]).
  cbn [enc_fields flat_map]. rewrite !app_nil_r.
  set (B := bs ++ zeros (pad8 (10 + length bs))).
  assert (HB : 10 + blen B = L) by (subst B; exact (blen_padded (length bs) bs eq_refl 10%nat eq_refl)).
  destruct (nx_header_reads L 8 B rest ltac:(lia) ltac:(lia)) as (R0 & R2 & R4 & R8 & Rb).
  rewrite (dec_nx_prologue _ L 8 fuel R0 R2 R4 R8) by (rewrite Rb; lia). clear R0 R2 R4 R8.
  cbv zeta. cbn [N.eqb Pos.eqb].
  replace (blen (nxbytes L 8 B ++ rest) <? L) with false by (rewrite Rb; lia).
  unfold nxbytes. rewrite <- !app_assoc.
  rewrite (sl_skip (be_bytes 2 65535) _ 10 L 2) by (try apply blen_be; lia). change (10 - 2) with 8.
  rewrite (sl_skip (be_bytes 2 L) _ 8 (L - 2) 2) by (try apply blen_be; lia). change (8 - 2) with 6.
  rewrite (sl_skip (be_bytes 4 8992) _ 6 (L - 2 - 2) 4) by (try apply blen_be; lia). change (6 - 4) with 2.
  rewrite (sl_skip (be_bytes 2 8) _ 2 (L - 2 - 2 - 4) 2) by (try apply blen_be; lia). change (2 - 2) with 0.
  rewrite (sl_here B rest) by lia. cbn [bind]. unfold nx. cbn [canon app map]. reflexivity.
Qed.

Theorem dec_built_cntids c ids fuel rest : c = N.of_nat (length ids) -> c < 30000 ->
  dec_action (S fuel) (wire (norm (build_a (ADecTtlCntIds c ids))) ++ rest) = Ok (norm (build_a (ADecTtlCntIds c ids))).
Proof.
  intros Hc Hsz.
  assert (Hn : norm (build_a (ADecTtlCntIds c ids)) = build_a (ADecTtlCntIds c ids)) by reflexivity.
  rewrite Hn. cbn [build_a]. set (L := round8 (16 + 2 * N.of_nat (length ids))).
  pose proof (WalkAllP.round8_ge (16 + 2 * N.of_nat (length ids))) as (HL1 & HL2 & HL3). fold L in HL1, HL2, HL3.
  rewrite (wire_nx_padded KNxDecTtlCntIds L 21 [FU 2; FZ 4; FV] [] eq_refl eq_refl [VN c; VB (ids_bytes ids)]).
  cbn [enc_fields flat_map]. rewrite !app_nil_r.
  set (I := ids_bytes ids). assert (HI : length I = (2 * length ids)%nat) by apply length_ids_bytes.
  set (Z := zeros (pad8 (10 + length (be_bytes 2 c ++ zeros 4 ++ I)))).
  assert (Hlen : length (be_bytes 2 c ++ zeros 4 ++ I) = (6 + length I)%nat) by (rewrite !app_length, length_be_bytes, length_zeros; lia).
  assert (HB : 10 + blen ((be_bytes 2 c ++ zeros 4 ++ I) ++ Z) = L).
  { subst Z. rewrite (blen_padded _ _ eq_refl 10%nat eq_refl). rewrite Hlen, HI. subst L. f_equal. lia. }
  destruct (nx_header_reads L 21 ((be_bytes 2 c ++ zeros 4 ++ I) ++ Z) rest ltac:(lia) ltac:(lia)) as (R0 & R2 & R4 & R8 & Rb).
  rewrite (dec_nx_prologue _ L 21 fuel R0 R2 R4 R8) by (rewrite Rb; lia). clear R0 R2 R4 R8.
  cbv zeta. cbn [N.eqb Pos.eqb].
  replace (blen (nxbytes L 21 ((be_bytes 2 c ++ zeros 4 ++ I) ++ Z) ++ rest) <? L) with false by (rewrite Rb; lia).
  unfold nxbytes. rewrite <- !app_assoc.
  rewrite (uat_skip 2 (be_bytes 2 65535) _ 10 2) by (try apply blen_be; lia). change (10 - 2) with 8.
  rewrite (uat_skip 2 (be_bytes 2 L) _ 8 2) by (try apply blen_be; lia). change (8 - 2) with 6.
  rewrite (uat_skip 2 (be_bytes 4 8992) _ 6 4) by (try apply blen_be; lia). change (6 - 4) with 2.
  rewrite (uat_skip 2 (be_bytes 2 21) _ 2 2) by (try apply blen_be; lia). change (2 - 2) with 0.
  rewrite (uat_here' 2 2 c _ eq_refl) by (change (256 ^ 2) with 65536; lia). cbn [bind].
  rewrite (sl_skip (be_bytes 2 65535) _ 16 (16 + 2 * c) 2) by (try apply blen_be; lia). change (16 - 2) with 14.
  rewrite (sl_skip (be_bytes 2 L) _ 14 (16 + 2 * c - 2) 2) by (try apply blen_be; lia). change (14 - 2) with 12.
  rewrite (sl_skip (be_bytes 4 8992) _ 12 (16 + 2 * c - 2 - 2) 4) by (try apply blen_be; lia). change (12 - 4) with 8.
  rewrite (sl_skip (be_bytes 2 21) _ 8 (16 + 2 * c - 2 - 2 - 4) 2) by (try apply blen_be; lia). change (8 - 2) with 6.
  rewrite (sl_skip (be_bytes 2 c) _ 6 (16 + 2 * c - 2 - 2 - 4 - 2) 2) by (try apply blen_be; lia). change (6 - 2) with 4.
  rewrite (sl_skip (zeros 4) _ 4 (16 + 2 * c - 2 - 2 - 4 - 2 - 2) 4) by (try apply blen_zeros; lia). change (4 - 4) with 0.
  rewrite (sl_here I (Z ++ rest)) by (unfold blen; lia). cbn [bind]. unfold nx. cbn [app]. reflexivity.
Qed.

(* ---------------------------------------------------------------- learn *)
Definition lspec_parse_ok (hk nbits : N) : bool :=
  let w := lspec_word hk nbits mod 65536 in
  let src := N.testbit w 13 in let dst := N.testbit w 11 in let out := N.testbit w 12 in
  (N.land w 2047 =? nbits) && Bool.eqb src ((hk =? 0) || (hk =? 2)) && Bool.eqb out (hk =? 4) &&
  (N.land w 2047 + (if src && negb out then 8192 else 0) + (if dst then 2048 else 0) + (if out then 4096 else 0) =? w).
Lemma lspec_parse_sweep : forallb (fun hk => forallb (lspec_parse_ok hk) (ProtoP.nrange 2048)) (ProtoP.nrange 5) = true.
Proof. vm_compute. reflexivity. Qed.
Lemma lspec_parse_dec hk nbits : hk < 5 -> nbits < 2048 -> lspec_parse_ok hk nbits = true.
Proof. apply (ProtoP.sweep2_lift 5 2048 lspec_parse_ok lspec_parse_sweep). Qed.

Lemma dec_built_lspec s rest : lspec_wf s = true ->
  dec_lspec (wire (build_lspec s) ++ rest) = Ok (build_lspec s) /\ 8 <= blen (wire (build_lspec s)) /\
  glen (build_lspec s) = blen (wire (build_lspec s)).
Proof.
  destruct s as [hk nbits src dst sv]. cbn [lspec_wf]. intros H.
  apply andb_true_iff in H as [H H4]. apply andb_true_iff in H as [H H3]. apply andb_true_iff in H as [H1 H2].
  pose proof (lspec_parse_dec hk nbits ltac:(lia) ltac:(lia)) as Hw. unfold lspec_parse_ok in Hw. cbv zeta in Hw.
  set (w := lspec_word hk nbits mod 65536) in *.
  apply andb_true_iff in Hw as [Hw Hrec]. apply andb_true_iff in Hw as [Hw Hout]. apply andb_true_iff in Hw as [Hnb Hsrc].
  apply N.eqb_eq in Hnb, Hrec. apply Bool.eqb_prop in Hsrc, Hout. rewrite Hnb, Hsrc, Hout in Hrec.
  assert (Hwlt : w < 65536) by (subst w; lia).
  unfold build_lspec. fold w. cbv zeta.
  set (srcpart := if ((hk =? 0) || (hk =? 2))%bool then firstn (N.to_nat (2 * ((nbits + 15) / 16))) sv else lspec_field src).
  set (dstpart := if hk =? 4 then [] else lspec_field dst).
  assert (Hws : wire (T KLearnSpec [VN w; VB (srcpart ++ dstpart)] []) = be_bytes 2 w ++ srcpart ++ dstpart).
  { cbn [wire layout enc_fields align8 flat_map]. rewrite !app_nil_r. reflexivity. }
  assert (Hsl : blen srcpart = if ((hk =? 0) || (hk =? 2))%bool then 2 * ((nbits + 15) / 16) else 6).
  { subst srcpart. unfold blen. destruct ((hk =? 0) || (hk =? 2))%bool; [cbn [negb orb] in H4; rewrite firstn_length; lia|rewrite length_lspec_field; reflexivity]. }
  assert (Hdl : blen dstpart = if hk =? 4 then 0 else 6).
  { subst dstpart. unfold blen. destruct (hk =? 4); [reflexivity|]. rewrite length_lspec_field. reflexivity. }
  assert (Hk1 : 1 <= (nbits + 15) / 16) by lia.
  split; [|split].
  - rewrite Hws, <- !app_assoc. unfold dec_lspec.
    replace (blen (be_bytes 2 w ++ srcpart ++ dstpart ++ rest) <? 2) with false by (blens; nats; lia).
    rewrite (uat_here' 2 2 w _ eq_refl) by (change (256 ^ 2) with 65536; lia). cbn [bind]. cbv zeta.
    rewrite Hnb, Hsrc, Hout.
    destruct ((hk =? 0) || (hk =? 2))%bool eqn:Efv.
    + (* immediate source *)
      rewrite (sl_skip (be_bytes 2 w) _ 2 (2 + 2 * ((nbits + 15) / 16)) 2) by (try apply blen_be; lia). change (2 - 2) with 0.
      replace (2 + 2 * ((nbits + 15) / 16) - 2) with (2 * ((nbits + 15) / 16)) by lia.
      rewrite (sl_here srcpart _) by exact Hsl. cbn [bind].
      assert (Hne4 : (hk =? 4) = false) by lia. rewrite Hne4 in *. 
      rewrite (from_skip (be_bytes 2 w) _ (2 + 2 * ((nbits + 15) / 16)) 2) by (try apply blen_be; lia).
      replace (2 + 2 * ((nbits + 15) / 16) - 2) with (2 * ((nbits + 15) / 16)) by lia.
      rewrite (from_skip srcpart _ (2 * ((nbits + 15) / 16)) (2 * ((nbits + 15) / 16))) by (try exact Hsl; lia).
      rewrite N.sub_diag, from_zero. cbn [bind].
      replace (blen (dstpart ++ rest) <? 6) with false by (blens; rewrite Hdl; lia).
      rewrite (sl_skip (be_bytes 2 w) _ _ _ 2) by (try apply blen_be; lia).
      rewrite (sl_skip srcpart _ _ _ (2 * ((nbits + 15) / 16))) by (try exact Hsl; lia).
      replace (2 + 2 * ((nbits + 15) / 16) - 2 - 2 * ((nbits + 15) / 16)) with 0 by lia.
      replace (2 + 2 * ((nbits + 15) / 16) + 6 - 2 - 2 * ((nbits + 15) / 16)) with 6 by lia.
      rewrite (sl_here dstpart rest) by exact Hdl. cbn [bind]. rewrite Hrec. reflexivity.
    + (* source field *)
      rewrite (from_skip (be_bytes 2 w) _ 2 2) by (try apply blen_be; lia). change (2 - 2) with 0. rewrite from_zero. cbn [bind].
      replace (blen (srcpart ++ dstpart ++ rest) <? 6) with false by (blens; rewrite Hsl; lia).
      rewrite (sl_skip (be_bytes 2 w) _ 2 8 2) by (try apply blen_be; lia). change (2 - 2) with 0. change (8 - 2) with 6.
      rewrite (sl_here srcpart _) by exact Hsl. cbn [bind].
      destruct (hk =? 4) eqn:E4.
      * cbn [bind]. rewrite Hrec. reflexivity.
      * rewrite (from_skip (be_bytes 2 w) _ 8 2) by (try apply blen_be; lia). change (8 - 2) with 6.
        rewrite (from_skip srcpart _ 6 6) by (try exact Hsl; lia). change (6 - 6) with 0. rewrite from_zero. cbn [bind].
        replace (blen (dstpart ++ rest) <? 6) with false by (blens; rewrite Hdl; lia).
        rewrite (sl_skip (be_bytes 2 w) _ 8 (8 + 6) 2) by (try apply blen_be; lia). change (8 - 2) with 6. change (8 + 6 - 2) with 12.
        rewrite (sl_skip srcpart _ 6 12 6) by (try exact Hsl; lia). change (6 - 6) with 0. change (12 - 6) with 6.
        rewrite (sl_here dstpart rest) by exact Hdl. cbn [bind]. rewrite Hrec. reflexivity.
  - rewrite Hws. blens. nats. rewrite Hsl, Hdl. destruct ((hk =? 0) || (hk =? 2))%bool eqn:Efv, (hk =? 4) eqn:E4; lia.
  - cbn [glen lenrule_of layout fields_len lenround align8 map sumN fold_right]. rewrite Hws. blens. nats. unfold blen. rewrite app_length. lia.
Qed.
