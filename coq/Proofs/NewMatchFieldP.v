From Coq Require Import ZArith NArith List String Bool Lia ZifyN ZifyBool ZifyNat.
From Coq.Strings Require Import Byte.
From LOF Require Import Base.Bytes Base.Res Model.Registry Model.NewMatchField Proofs.RegistryP Spec.OvsFields.
Import ListNotations.
Local Open Scope string_scope.
Open Scope Z_scope.
Ltac Zify.zify_post_hook ::= Z.div_mod_to_equations.

Lemma bitlen_nonneg z : 0 <= bitlen z.
Proof. unfold bitlen. destruct (z =? 0); [lia|]. pose proof (Z.log2_nonneg (Z.abs z)). lia. Qed.

Lemma bitlen_le z n : 0 <= z -> 0 <= n -> (bitlen z <= n <-> z < 2 ^ n).
Proof.
  intros Hz Hn. unfold bitlen. destruct (Z.eqb_spec z 0) as [->|Hnz].
  - split; intros _; [apply Z.pow_pos_nonneg; lia|lia].
  - rewrite Z.abs_eq by lia. split; intros H.
    + apply Z.log2_lt_pow2; lia.
    + apply Z.log2_lt_pow2 in H; lia.
Qed.

Lemma big2byte_ok z W : 0 <= z -> bitlen z <= Z.of_N W * 8 ->
  big2byte z W = Ok (be_bytes (N.to_nat W) (Z.to_N z)).
Proof.
  intros Hz Hb. unfold big2byte, bytelen. replace (_ <=? _) with true by lia.
  rewrite Z.abs_eq by lia. reflexivity.
Qed.

Lemma big2byte_guarded z W : 0 <= z -> Z.of_N W * 8 <? bitlen z = false -> big2byte z W <> Panic.
Proof. intros Hz H. rewrite big2byte_ok by lia. discriminate. Qed.

Lemma rangeMask_nonneg s w : 0 <= s -> 0 <= w -> 0 <= rangeMask s w.
Proof.
  intros Hs Hw. unfold rangeMask. rewrite Z.shiftl_mul_pow2 by lia.
  rewrite Z.ones_equiv. pose proof (Z.pow_pos_nonneg 2 w). pose proof (Z.pow_pos_nonneg 2 s). nia.
Qed.

Lemma rangeMask_val s w : 0 <= s -> 0 <= w -> rangeMask s w = (2 ^ w - 1) * 2 ^ s.
Proof. intros Hs Hw. unfold rangeMask. rewrite Z.shiftl_mul_pow2 by lia. rewrite Z.ones_equiv. lia. Qed.

Lemma rangeMask_bitlen s w : 0 <= s -> 0 <= w -> bitlen (rangeMask s w) <= s + w.
Proof.
  intros Hs Hw. apply bitlen_le; [apply rangeMask_nonneg; lia|lia|].
  rewrite rangeMask_val by lia. rewrite Z.pow_add_r by lia.
  pose proof (Z.pow_pos_nonneg 2 w). pose proof (Z.pow_pos_nonneg 2 s). nia.
Qed.

(* a value inside the window survives the mask; one outside does not *)
Lemma window_keeps v s w : 0 <= v -> 0 <= s -> 0 <= w ->
  (Z.land (Z.shiftl v s) (rangeMask s w) = Z.shiftl v s <-> v < 2 ^ w).
Proof.
  intros Hv Hs Hw. unfold rangeMask. rewrite <- Z.shiftl_land, Z.land_ones by lia. split.
  - intros H. apply (f_equal (fun x => Z.shiftr x s)) in H. rewrite !Z.shiftr_shiftl_l in H by lia.
    rewrite Z.sub_diag in H. cbn [Z.shiftl] in H. pose proof (Z.mod_pos_bound v (2 ^ w) ltac:(apply Z.pow_pos_nonneg; lia)). lia.
  - intros H. rewrite Z.mod_small by lia. reflexivity.
Qed.

Lemma shifted_fits v s w n : 0 <= v -> 0 <= s -> 0 <= w -> v < 2 ^ w -> s + w <= n ->
  bitlen (Z.shiftl v s) <= n.
Proof.
  intros Hv Hs Hw Hlt Hn. apply bitlen_le.
  - apply Z.shiftl_nonneg. lia.
  - lia.
  - rewrite Z.shiftl_mul_pow2 by lia. apply Z.lt_le_trans with (2 ^ (w + s)).
    + rewrite Z.pow_add_r by lia. pose proof (Z.pow_pos_nonneg 2 s). nia.
    + apply Z.pow_le_mono_r; lia.
Qed.

(* ---- main lemma: the two-argument (and three-argument with flag 1) form ---- *)
Lemma window_form_ok name h v s w (tail : list Z) :
  FindFieldHeaderByName name true = Some h ->
  (tail = [] \/ tail = [1]) ->
  let W := (fh_length h / 2)%N in
  0 <= v < 2 ^ w -> 0 <= s -> 0 <= w -> s + w <= Z.of_N W * 8 ->
  NewMatchField name v (s :: w :: tail) =
  Ok {| gf_hdr := h ;
        gf_value := be_bytes (N.to_nat W) (Z.to_N (v * 2 ^ s)) ;
        gf_mask := Some (be_bytes (N.to_nat W) (Z.to_N ((2 ^ w - 1) * 2 ^ s))) |}.
Proof.
  intros Hf Ht W Hv Hs Hw Hfit. unfold NewMatchField.
  assert (Hlen : (3 <? Z.of_nat (List.length (s :: w :: tail))) = false) by (destruct Ht; subst; reflexivity).
  rewrite Hlen. cbn [List.length Nat.eqb negb]. rewrite Hf.
  replace (v <? 0) with false by lia. fold W.
  replace ((s <? 0) || (w <? 0) || (Z.of_N W * 8 <? s) || (Z.of_N W * 8 - s <? w)) with false by lia.
  assert (Hsh : (match tail with [flag] => flag =? 1 | _ => true end) = true) by (destruct Ht; subst; reflexivity).
  replace (match w :: tail with [_; flag] => flag =? 1 | _ => true end) with true
    by (destruct Ht; subst; reflexivity).
  assert (Hk : Z.land (Z.shiftl v s) (rangeMask s w) = Z.shiftl v s) by (apply window_keeps; lia).
  rewrite Hk, Z.eqb_refl. cbn [negb].
  pose proof (shifted_fits v s w (Z.of_N W * 8) ltac:(lia) Hs Hw ltac:(lia) Hfit) as Hb.
  replace (Z.of_N W * 8 <? bitlen (Z.shiftl v s)) with false by lia.
  rewrite big2byte_ok by (try apply rangeMask_nonneg; try (pose proof (rangeMask_bitlen s w Hs Hw)); lia).
  rewrite big2byte_ok by (try apply Z.shiftl_nonneg; lia). cbn [bind].
  rewrite rangeMask_val, Z.shiftl_mul_pow2 by lia. reflexivity.
Qed.

(* value and mask have the field's width, and the value has no bit outside the mask *)
Lemma window_value_inside_mask v s w : 0 <= v < 2 ^ w -> 0 <= s -> 0 <= w ->
  Z.land (v * 2 ^ s) (Z.lnot ((2 ^ w - 1) * 2 ^ s)) = 0.
Proof.
  intros Hv Hs Hw. rewrite <- rangeMask_val, <- Z.shiftl_mul_pow2 by lia.
  assert (H : Z.land (Z.shiftl v s) (rangeMask s w) = Z.shiftl v s) by (apply window_keeps; lia).
  rewrite <- H at 1. rewrite <- Z.land_assoc, Z.land_lnot_diag, Z.land_0_r. reflexivity.
Qed.

(* ---- inputs that cannot be represented are errors ---- *)
Lemma window_too_wide_value name v s w tail :
  (tail = [] \/ tail = [1]) -> 0 <= v -> 0 <= s -> 0 <= w -> 2 ^ w <= v ->
  NewMatchField name v (s :: w :: tail) = Err.
Proof.
  intros Ht Hv Hs Hw Hbig. unfold NewMatchField.
  replace (3 <? Z.of_nat (List.length (s :: w :: tail))) with false by (destruct Ht; subst; reflexivity).
  cbn [List.length Nat.eqb negb]. destruct (FindFieldHeaderByName name true) as [h|]; [|reflexivity].
  replace (v <? 0) with false by lia.
  destruct (_ || _); [reflexivity|].
  replace (match w :: tail with [_; flag] => flag =? 1 | _ => true end) with true
    by (destruct Ht; subst; reflexivity).
  assert (Hk : Z.land (Z.shiftl v s) (rangeMask s w) <> Z.shiftl v s).
  { intros H. apply window_keeps in H; lia. }
  apply Z.eqb_neq in Hk. rewrite Hk. reflexivity.
Qed.

Lemma window_beyond_field name h v s w tail :
  FindFieldHeaderByName name true = Some h -> Z.of_N (fh_length h / 2) * 8 < s + w ->
  NewMatchField name v (s :: w :: tail) = Err.
Proof.
  intros Hf Hbeyond. unfold NewMatchField. destruct (3 <? _); [reflexivity|].
  cbn [List.length Nat.eqb negb]. rewrite Hf. destruct (v <? 0); [reflexivity|].
  replace ((s <? 0) || (w <? 0) || _ || _) with true by lia. reflexivity.
Qed.

Lemma negative_is_error name v masks : v < 0 -> NewMatchField name v masks = Err.
Proof.
  intros Hv. unfold NewMatchField. destruct (3 <? _); [reflexivity|].
  destruct (FindFieldHeaderByName _ _); [|reflexivity]. replace (v <? 0) with true by lia. reflexivity.
Qed.

Lemma exact_too_wide name h v :
  FindFieldHeaderByName name false = Some h -> 2 ^ (Z.of_N (fh_length h) * 8) <= v ->
  NewMatchField name v [] = Err.
Proof.
  intros Hf Hbig. unfold NewMatchField. cbn [List.length Nat.eqb negb Z.of_nat]. change (3 <? 0) with false. cbv iota.
  rewrite Hf. assert (0 <= v) by (pose proof (Z.pow_pos_nonneg 2 (Z.of_N (fh_length h) * 8)); lia).
  replace (v <? 0) with false by lia.
  assert (Hb : ~ bitlen v <= Z.of_N (fh_length h) * 8) by (intros Hc; apply bitlen_le in Hc; lia).
  replace (_ <? bitlen v) with true by lia. reflexivity.
Qed.

Lemma exact_form_ok name h v :
  FindFieldHeaderByName name false = Some h -> 0 <= v < 2 ^ (Z.of_N (fh_length h) * 8) ->
  NewMatchField name v [] =
  Ok {| gf_hdr := h ; gf_value := be_bytes (N.to_nat (fh_length h)) (Z.to_N v) ; gf_mask := None |}.
Proof.
  intros Hf Hv. unfold NewMatchField. cbn [List.length Nat.eqb negb Z.of_nat]. change (3 <? 0) with false. cbv iota.
  rewrite Hf. replace (v <? 0) with false by lia.
  assert (Hb : bitlen v <= Z.of_N (fh_length h) * 8) by (apply bitlen_le; lia).
  replace (_ <? bitlen v) with false by lia. rewrite big2byte_ok by lia. reflexivity.
Qed.

(* ---- never a panic, whatever the arguments ---- *)
Lemma never_panics name v masks : NewMatchField name v masks <> Panic /\ NewMatchField name v masks <> Fuel.
Proof.
  unfold NewMatchField. destruct (3 <? _); [split; discriminate|].
  destruct (FindFieldHeaderByName _ _) as [h|]; [|split; discriminate].
  destruct (Z.ltb_spec v 0) as [Hneg|Hv]; [split; discriminate|].
  destruct masks as [|s rest].
  - destruct (_ <? bitlen v) eqn:E; [split; discriminate|].
    rewrite big2byte_ok by lia. cbn [bind]. split; discriminate.
  - set (W := (fh_length h / 2)%N). set (w := match rest with [] => bitlen v | w :: _ => w end).
    destruct ((s <? 0) || (w <? 0) || (Z.of_N W * 8 <? s) || (Z.of_N W * 8 - s <? w)) eqn:G; [split; discriminate|].
    set (value := if match rest with [_; flag] => flag =? 1 | _ => true end then Z.shiftl v s else v).
    destruct (negb _); [split; discriminate|].
    destruct (_ <? bitlen value) eqn:E; [split; discriminate|].
    assert (Hval : 0 <= value) by (subst value; destruct (match rest with [_; flag] => flag =? 1 | _ => true end); [apply Z.shiftl_nonneg|]; lia).
    rewrite (big2byte_ok (rangeMask s w)) by (try apply rangeMask_nonneg; try (pose proof (rangeMask_bitlen s w)); lia).
    rewrite big2byte_ok by lia. cbn [bind]. split; discriminate.
Qed.

(* ---- 32-bit registers: same bytes as the dedicated constructor ---- *)
Definition reg_find_ok (idx : nat) : bool :=
  match FindFieldHeaderByName (reg_name idx) true with
  | Some h => N.eqb (fh_class h) 1 && N.eqb (fh_field h) (N.of_nat idx) && fh_hasmask h && N.eqb (fh_length h) 8
  | None => false
  end.
Lemma reg_find_sweep : forallb reg_find_ok (seq 0 16) = true.
Proof. vm_compute. reflexivity. Qed.

Lemma reg_same_bytes idx v s w : (idx < 16)%nat -> 0 <= v < 2 ^ w -> 0 <= s -> 0 <= w -> s + w <= 32 ->
  exists f, NewMatchField (reg_name idx) v [s; w] = Ok f /\
  enc_genfield f = enc_reg_field idx (Z.to_N (v * 2 ^ s)) (Z.to_N ((2 ^ w - 1) * 2 ^ s)).
Proof.
  intros Hi Hv Hs Hw Hfit. pose proof reg_find_sweep as Hsw. rewrite forallb_forall in Hsw.
  specialize (Hsw idx ltac:(apply in_seq; lia)). unfold reg_find_ok in Hsw.
  destruct (FindFieldHeaderByName (reg_name idx) true) as [h|] eqn:Hf; [|discriminate Hsw].
  apply andb_true_iff in Hsw as [Hsw H4]. apply andb_true_iff in Hsw as [Hsw H3].
  apply andb_true_iff in Hsw as [H1 H2]. apply N.eqb_eq in H1, H2, H4.
  eexists. split.
  - apply (window_form_ok _ h v s w []); try assumption; [left; reflexivity|]. rewrite H4. cbn. lia.
  - unfold enc_genfield, enc_reg_field. cbn [gf_hdr gf_value gf_mask]. rewrite H1, H2, H3, H4.
    change (N.to_nat (8 / 2)) with 4%nat. reflexivity.
Qed.

Example nmf_examples :
  option_map enc_genfield (match NewMatchField "NXM_NX_REG0" 305419896 [0; 32] with Ok f => Some f | _ => None end)
    = Some (enc_reg_field 0 305419896 4294967295) /\
  NewMatchField "NXM_NX_REG0" 4 [0; 2] = Err /\
  NewMatchField "NXM_NX_REG0" 1 [31; 2] = Err /\
  NewMatchField "NXM_NX_REG0" (-1) [] = Err /\
  NewMatchField "OXM_OF_ETH_SRC" 1122867 [24; 24] = NewMatchField "oxm_of_eth_src" 18838582198272 [24; 24; 0].
Proof. vm_compute. repeat split; reflexivity. Qed.
