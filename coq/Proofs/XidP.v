From Coq Require Import NArith ZArith List Bool Lia ZifyN ZifyBool ZifyNat.
From LOF Require Import Model.SrcTypes Model.Xid.
Import ListNotations.
Open Scope N_scope.
Ltac Zify.zify_post_hook ::= Z.div_mod_to_equations.

(* the k-th id drawn from counter c is c + k (mod 2^32), whatever the schedule *)
Lemma ids_atomic sched : forall c, c < M32 ->
  ids (run_atomic c sched) = map (fun k => (c + N.of_nat k) mod M32) (seq 1 (length sched)).
Proof.
  induction sched as [|t r IH]; intros c Hc; cbn [run_atomic draw_atomic ids map length seq]; [reflexivity|].
  fold (ids (run_atomic ((c + 1) mod M32) r)). rewrite IH by (unfold M32; lia).
  replace (N.of_nat 1) with 1 by reflexivity. apply f_equal.
  rewrite <- (seq_shift (length r) 1), map_map. apply map_ext. intros k. unfold M32. rewrite Nat2N.inj_succ.
  rewrite N.add_mod_idemp_l by lia. f_equal. lia.
Qed.

Lemma nodup_map_inj {A B} (g : A -> B) l : NoDup l -> (forall x y, In x l -> In y l -> g x = g y -> x = y) -> NoDup (map g l).
Proof.
  induction 1 as [|a l Ha Hl IH]; intros Hi; cbn [map]; constructor.
  - intros Hin. apply in_map_iff in Hin as [y [Hy Hin]]. apply Ha.
    rewrite (Hi a y (or_introl eq_refl) (or_intror Hin) (eq_sym Hy)). exact Hin.
  - apply IH. intros x y Hx Hy. apply Hi; right; assumption.
Qed.

(* pairwise distinct for every schedule, up to 2^32 draws - also across the wrap of the
   32-bit counter *)
Theorem atomic_ids_distinct sched c : c < M32 -> N.of_nat (length sched) <= M32 ->
  NoDup (ids (run_atomic c sched)).
Proof.
  intros Hc Hn. rewrite ids_atomic by exact Hc. apply nodup_map_inj; [apply seq_NoDup|].
  intros x y Hx Hy H. apply in_seq in Hx, Hy. unfold M32 in *. lia.
Qed.

(* without atomicity two goroutines can draw the same id: the theorem above is not vacuous
   in the kind of draw *)
Example read_then_write_duplicates :
  ids (run_rw 10 (fun _ => 0) [SRead 0%nat; SRead 1%nat; SWrite 0%nat; SWrite 1%nat]) = [11; 11].
Proof. reflexivity. Qed.

(* ---- goroutines' outputs do not depend on the interleaving ---- *)
Section WorkP.
  Variable In Out : Type.
  Variable f : In -> N -> Out.
  Variable erase : Out -> Out.
  Hypothesis id_free : forall i x y, erase (f i x) = erase (f i y).

  (* the budget of a thread in a schedule that starts with step s *)
  Lemma budget_tail s r (jobs : nat -> list In) u :
    (length (filter (Nat.eqb u) (s :: r)) >= length (jobs u))%nat ->
    (length (filter (Nat.eqb u) r) >= length (if Nat.eqb u s then tl (jobs u) else jobs u))%nat.
  Proof.
    cbn [filter]. destruct (Nat.eqb u s); cbn [length]; [|auto]. destruct (jobs u); cbn [tl length]; lia.
  Qed.

  Lemma work_independent sched : forall c jobs t,
    (forall u, (length (filter (Nat.eqb u) sched) >= length (jobs u))%nat) ->
    outputs_of Out erase t (run_work In Out f c jobs sched) = sequential In Out f erase (jobs t).
  Proof.
    induction sched as [|s r IH]; intros c jobs t Hall.
    - specialize (Hall t). cbn in Hall. destruct (jobs t); [reflexivity|cbn in Hall; lia].
    - cbn [run_work]. destruct (jobs s) as [|j js] eqn:Ej.
      + apply IH. intros u. pose proof (budget_tail s r jobs u (Hall u)) as H.
        destruct (Nat.eqb u s) eqn:E; [|exact H]. apply Nat.eqb_eq in E. subst u. rewrite Ej in *. cbn in *. lia.
      + cbn [draw_atomic]. unfold outputs_of. cbn [filter fst].
        assert (Hrest : forall u, (length (filter (Nat.eqb u) r) >=
                          length ((fun u0 => if Nat.eqb u0 s then js else jobs u0) u))%nat).
        { intros u. pose proof (budget_tail s r jobs u (Hall u)) as H. cbn beta.
          destruct (Nat.eqb u s) eqn:E; [|exact H]. apply Nat.eqb_eq in E. subst u. rewrite Ej in H. exact H. }
        specialize (IH ((c + 1) mod M32) (fun u0 => if Nat.eqb u0 s then js else jobs u0) t Hrest).
        unfold outputs_of in IH. destruct (Nat.eqb s t) eqn:Est.
        * apply Nat.eqb_eq in Est. subst t. cbn [map snd]. rewrite IH, Nat.eqb_refl, Ej.
          unfold sequential. cbn [map]. f_equal. apply id_free.
        * rewrite IH. rewrite Nat.eqb_sym, Est. reflexivity.
  Qed.
End WorkP.
