(* C04 for all switch-side values, continued: flow-removed, packet-in, multipart replies, tlv reply. *)
From Coq Require Import NArith ZArith Arith List Bool Lia ZifyN ZifyBool ZifyNat.
From Coq.Strings Require Import Byte.
From LOF Require Import Base.Bytes Base.Res Model.Wire Model.Build Model.BuildSw Model.Proto Model.Parse Spec.Walk
  Proofs.WireP Proofs.BuildP Proofs.NormP Proofs.WalkP Proofs.WalkAllP Proofs.WalkMsgP Proofs.SegP
  Proofs.ParseRtAllP Proofs.ParseRtAll2P Proofs.ParseRtAll3P Proofs.ParseRtAll4P Proofs.ParseRtAll5P Proofs.ParseRtAll6P Proofs.ParseSwAllP.
Import ListNotations.
Open Scope N_scope.
Ltac Zify.zify_post_hook ::= Z.div_mod_to_equations.
Local Notation blen := Proto.blen.

Lemma match_facts fs : pmatch_ok fs = true ->
  norm (build_match fs) = build_match fs /\ glen (build_match fs) = blen (wire (build_match fs)) /\ glen (build_match fs) < 65544 /\ 8 <= glen (build_match fs).
Proof.
  intros H. destruct (norm_build_match fs) as [Hn _]. destruct (build_match_size fs (pmatch_ok_match_ok fs H)) as [Hs Hlt].
  repeat split; try assumption. unfold build_match. cbn [glen lenrule_of layout fields_len lenround align8]. nats.
  pose proof (WalkAllP.round8_ge (2 + (2 + 0) + sumN (map glen (map build_mf fs)))). lia.
Qed.

Lemma sw_flow_removed pi c pr r t ds dn i h pk bt fs xid :
  c < 18446744073709551616 -> pr < 65536 -> r < 256 -> t < 256 -> ds < 4294967296 -> dn < 4294967296 -> i < 65536 -> h < 65536 ->
  pk < 18446744073709551616 -> bt < 18446744073709551616 -> pmatch_ok fs = true -> glen (build_match fs) < 65000 -> xid < 4294967296 ->
  parse_body pi (wire (sw_tree xid (SFlowRemoved c pr r t ds dn i h pk bt fs))) = Ok (sw_view xid (SFlowRemoved c pr r t ds dn i h pk bt fs)).
Proof.
  intros Hc Hpr Hr Ht Hds Hdn Hi Hh Hpk Hbt Hfs Hsz Hx. unfold sw_view, sw_tree. cbn [sw_raw].
  destruct (match_facts fs Hfs) as (Hn & Hg & _ & Hg8). set (M := build_match fs) in *. set (L := 48 + glen M).
  set (vals := [VN c; VN pr; VN r; VN t; VN ds; VN dn; VN i; VN h; VN pk; VN bt]).
  replace (norm (T KFlowRemoved ([VN 4; VN 11; VN L; VN xid] ++ vals) [M])) with (T KFlowRemoved ([VN 4; VN 11; VN L; VN xid] ++ vals) [M])
    by (cbn [norm writeback map]; rewrite Hn; reflexivity).
  rewrite (wire_msg KFlowRemoved 11 L xid [FU 8; FU 2; FU 1; FU 1; FU 4; FU 4; FU 2; FU 2; FU 8; FU 8] vals [M] eq_refl eq_refl).
  cbn [flat_map]. rewrite app_nil_r. set (F := enc_fields [FU 8; FU 2; FU 1; FU 1; FU 4; FU 4; FU 2; FU 2; FU 8; FU 8] vals).
  pb_start 11 L xid (F ++ wire M).
  assert (Hrv : read_vals (msgbytes 11 L xid (F ++ wire M)) [(8, 8); (16, 2); (18, 1); (19, 1); (20, 4); (24, 4); (28, 2); (30, 2); (32, 8); (40, 8)] = Ok vals /\
                from (msgbytes 11 L xid (F ++ wire M)) 48 = Ok (wire M)).
  { unfold msgbytes, F, vals. cbn [enc_fields]. rewrite <- ?app_assoc. cbn [read_vals app]. set (W := wire M). split; seg; reflexivity. }
  destruct Hrv as [R1 R2]. rewrite R1. cbn [bind]. rewrite R2. cbn [bind].
  pose proof (dec_built_match fs [] Hfs) as Hd. rewrite app_nil_r in Hd. fold M in Hd. rewrite Hd. cbn [bind]. reflexivity.
Qed.

(* packet-in: relative to the packet decoder's reading of the payload *)
Definition eth_ok (eth : option tree) : Prop :=
  match eth with
  | Some e => dec_eth (wire e) = Ok e /\ wire e <> [] /\ size e < 30000 /\ norm e = e
  | None => True
  end.

Lemma sw_packet_in pi b tot r t c fs eth xid :
  b < 4294967296 -> tot < 65536 -> r < 256 -> t < 256 -> c < 18446744073709551616 -> pmatch_ok fs = true -> glen (build_match fs) < 30000 ->
  eth_ok eth -> xid < 4294967296 ->
  parse_body pi (wire (sw_tree xid (SPacketIn b tot r t c fs eth))) = Ok (sw_view xid (SPacketIn b tot r t c fs eth)).
Proof.
  intros Hb Htot Hr Ht Hc Hfs Hsz He Hx.
  destruct (match_facts fs Hfs) as (Hn & Hg & _ & Hg8). set (M := build_match fs) in *.
  set (vals := [VN b; VN tot; VN r; VN t; VN c]).
  set (E := match eth with Some e => wire e | None => [] end).
  set (L := 24 + glen M + 2 + match eth with Some e => size e | None => 0 end).
  assert (HL : L = 26 + glen M + blen E) by (unfold L, E; destruct eth; unfold size, Proto.blen; cbn [length]; lia).
  assert (HE : blen E < 30000) by (unfold E; destruct eth as [e|]; [destruct He as (_ & _ & He & _); exact He|cbn; lia]).
  assert (HLlt : L < 65536) by lia.
  set (ek := match eth with Some e => [e] | None => [] end).
  assert (Htree : sw_tree xid (SPacketIn b tot r t c fs eth) = T KPacketIn ([VN 4; VN 10; VN L; VN xid] ++ vals) ([M; T KPad2 [] []] ++ ek)).
  { unfold sw_tree. cbn [sw_raw]. fold M. fold L. fold vals. fold ek. cbn [norm writeback]. rewrite map_app. cbn [map norm writeback]. rewrite Hn. f_equal. f_equal. f_equal.
    unfold ek. destruct eth as [e|]; [destruct He as (_ & _ & _ & Hne); cbn [map]; rewrite Hne|]; reflexivity. }
  assert (Hview : sw_view xid (SPacketIn b tot r t c fs eth) =
                  T KPacketIn ([VN 4; VN 10; VN L; VN xid] ++ vals) [M; T KPad2 [] []; match eth with Some e => e | None => T KEth [VB []; VB []] [T KU16 [VN 0] []] end]).
  { unfold ek in *. destruct eth; unfold sw_view; rewrite Htree; reflexivity. }
  rewrite Htree, Hview. clear Htree Hview.
  rewrite (wire_msg KPacketIn 10 L xid [FU 4; FU 2; FU 1; FU 1; FU 8] vals ([M; T KPad2 [] []] ++ ek) eq_refl eq_refl).
  assert (Hk : flat_map wire ([M; T KPad2 [] []] ++ ek) = wire M ++ zeros 2 ++ E).
  { cbn [app flat_map]. unfold ek, E. destruct eth; cbn [flat_map wire layout enc_fields align8]; rewrite ?app_nil_r; reflexivity. }
  rewrite Hk. set (F := enc_fields [FU 4; FU 2; FU 1; FU 1; FU 8] vals). set (W := wire M) in *.
  pb_start 10 L xid (F ++ W ++ zeros 2 ++ E).
  assert (Hrv : read_vals (msgbytes 10 L xid (F ++ W ++ zeros 2 ++ E)) [(8, 4); (12, 2); (14, 1); (15, 1); (16, 8)] = Ok vals /\
                from (msgbytes 10 L xid (F ++ W ++ zeros 2 ++ E)) 24 = Ok (W ++ zeros 2 ++ E)).
  { unfold msgbytes, F, vals. cbn [enc_fields]. rewrite <- ?app_assoc. cbn [read_vals app]. split; seg; reflexivity. }
  destruct Hrv as [R1 R2]. rewrite R1. cbn [bind]. rewrite R2. cbn [bind].
  assert (Hdm : dec_match (W ++ zeros 2 ++ E) = Ok (M, false)) by (unfold W, M; apply dec_built_match, Hfs).
  rewrite Hdm. cbn [bind].
  replace (msgbytes 10 L xid (F ++ W ++ zeros 2 ++ E)) with ((be_bytes 1 4 ++ be_bytes 1 10 ++ be_bytes 2 L ++ be_bytes 4 xid ++ F) ++ W ++ zeros 2 ++ E)
    by (unfold msgbytes; rewrite <- !app_assoc; reflexivity).
  set (P := be_bytes 1 4 ++ be_bytes 1 10 ++ be_bytes 2 L ++ be_bytes 4 xid ++ F). assert (HP : blen P = 24) by reflexivity.
  rewrite Hg. fold W.
  rewrite (from_skip P _ (24 + blen W + 2) 24 HP) by lia. replace (24 + blen W + 2 - 24) with (blen W + 2) by lia.
  rewrite (from_skip W _ (blen W + 2) (blen W) eq_refl) by lia. replace (blen W + 2 - blen W) with 2 by lia.
  rewrite (from_skip (zeros 2) E 2 2) by (try apply blen_zeros; lia). change (2 - 2) with 0. rewrite from_zero. cbn [bind].
  rewrite (from_skip P _ (24 + blen W) 24 HP) by lia. replace (24 + blen W - 24) with (blen W) by lia.
  rewrite (from_skip W _ (blen W) (blen W) eq_refl) by lia. rewrite N.sub_diag, from_zero. cbn [bind].
  unfold E, ek. destruct eth as [e|].
  - destruct He as (Hde & Hne & _ & _). destruct (wire e) as [|b0 l0] eqn:Ew; [contradiction|]. rewrite Hde. cbn [bind app]. reflexivity.
  - cbn [app]. reflexivity.
Qed.

(* multipart replies *)
Lemma mp_reply_one pi mt fl (rec : tree) (dec : list byte -> res tree) xid :
  mt < 65536 -> fl < 65536 -> xid < 4294967296 -> norm rec = rec -> 0 < glen rec -> glen rec = blen (wire rec) -> glen rec < 65000 ->
  dec (wire rec) = Ok rec ->
  (forall r, (if N.eqb mt 2 then x <- dec_aggstats r ;; Ok (x, false)
              else if N.eqb mt 0 then x <- dec_descstats r ;; Ok (x, false)
              else if N.eqb mt 1 then dec_flowstats r
              else if N.eqb mt 4 then x <- dec_portstats r ;; Ok (x, false)
              else if N.eqb mt 3 then x <- dec_tablestats r ;; Ok (x, false)
              else if N.eqb mt 5 then x <- dec_queuestats r ;; Ok (x, false)
              else Panic)%res = (x <- dec r ;; Ok (x, false))%res) ->
  parse_body pi (wire (norm (T KMultipartReply (hdr 19 xid ++ [VN mt; VN fl]) [rec]))) =
  Ok (norm (T KMultipartReply (hdr 19 xid ++ [VN mt; VN fl]) [rec])).
Proof.
  intros Hmt Hfl Hx Hn Hpos Hg Hlt Hdec Hsel.
  destruct (msg_form KMultipartReply 19 xid [FU 2; FU 2; FZ 4] [VN mt; VN fl] [rec] eq_refl eq_refl eq_refl eq_refl eq_refl) as [Hnm Hw].
  rewrite Hnm, Hw. clear Hnm Hw. cbn [map flat_map fields_len enc_fields sumN fold_right]. rewrite Hn, !app_nil_r. nats.
  set (L := 8 + (2 + (2 + (4 + 0))) + (glen rec + 0)). set (W := wire rec) in *.
  pb_start 19 L xid ((be_bytes 2 mt ++ be_bytes 2 fl ++ zeros 4) ++ W).
  unfold msgbytes. rewrite <- ?app_assoc. seg. unfold hdr_len. cbn [vnum nth].
  replace (be_bytes 1 4 ++ be_bytes 1 19 ++ be_bytes 2 L ++ be_bytes 4 xid ++ be_bytes 2 mt ++ be_bytes 2 fl ++ zeros 4 ++ W)
    with ((be_bytes 1 4 ++ be_bytes 1 19 ++ be_bytes 2 L ++ be_bytes 4 xid ++ be_bytes 2 mt ++ be_bytes 2 fl ++ zeros 4) ++ W) by (rewrite <- !app_assoc; reflexivity).
  set (P := be_bytes 1 4 ++ be_bytes 1 19 ++ be_bytes 2 L ++ be_bytes 4 xid ++ be_bytes 2 mt ++ be_bytes 2 fl ++ zeros 4).
  assert (HP : blen P = 16) by reflexivity.
  destruct (length (P ++ W)) as [|f0] eqn:El.
  { apply (f_equal N.of_nat) in El. fold (blen (P ++ W)) in El. rewrite blen_app, HP in El. lia. }
  destruct f0 as [|f1].
  { apply (f_equal N.of_nat) in El. fold (blen (P ++ W)) in El. rewrite blen_app, HP in El. lia. }
  cbn [dec_mprecords]. replace (L <=? 16) with false by (subst L; lia).
  pose proof (from_skip P W 16 16 HP) as Hf. rewrite Hf by lia. change (16 - 16) with 0. rewrite from_zero. cbn [bind].
  rewrite Hsel, Hdec. cbn [bind]. replace (glen rec =? 0) with false by lia.
  replace (L <=? 16 + glen rec) with true by (subst L; lia). cbn [bind]. reflexivity.
Qed.

Lemma sw_mp_aggregate pi fl p b f xid : fl < 65536 -> p < 18446744073709551616 -> b < 18446744073709551616 -> f < 4294967296 -> xid < 4294967296 ->
  parse_body pi (wire (sw_tree xid (SMpAggregate fl p b f))) = Ok (sw_view xid (SMpAggregate fl p b f)).
Proof.
  intros Hfl Hp Hb Hf Hx. unfold sw_view, sw_tree. cbn [sw_raw].
  apply (mp_reply_one pi 2 fl (T KAggStats [VN p; VN b; VN f] []) dec_aggstats); try lia; try reflexivity.
  cbn [wire layout enc_fields align8 flat_map]. rewrite !app_nil_r. unfold dec_aggstats. cbn [read_vals].
  rewrite <- ?app_assoc. dec_walk. reflexivity.
Qed.

Lemma fit_app_exact k (a rest : list byte) : length a = k -> fit k (a ++ rest) = a.
Proof. intros H. unfold fit. rewrite <- app_assoc. apply firstn_app_exact. symmetry. exact H. Qed.

Lemma sw_mp_desc pi fl a b c d e xid : fl < 65536 -> length a = 256%nat -> length b = 256%nat -> length c = 256%nat -> length d = 32%nat -> length e = 256%nat ->
  xid < 4294967296 ->
  parse_body pi (wire (sw_tree xid (SMpDesc fl a b c d e))) = Ok (sw_view xid (SMpDesc fl a b c d e)).
Proof.
  intros Hfl Ha Hb Hc Hd He Hx. unfold sw_view, sw_tree. cbn [sw_raw].
  assert (Hw : wire (T KDescStats [VB a; VB b; VB c; VB d; VB e] []) = a ++ b ++ c ++ d ++ e).
  { cbn [wire layout enc_fields align8 flat_map]. rewrite (fit_exact 256 a Ha), (fit_exact 256 b Hb), (fit_exact 256 c Hc), (fit_exact 32 d Hd), (fit_exact 256 e He).
    rewrite !app_nil_r. reflexivity. }
  assert (Hba : blen a = 256) by (unfold Proto.blen; lia). assert (Hbb : blen b = 256) by (unfold Proto.blen; lia).
  assert (Hbc : blen c = 256) by (unfold Proto.blen; lia). assert (Hbd : blen d = 32) by (unfold Proto.blen; lia).
  assert (Hbe : blen e = 256) by (unfold Proto.blen; lia).
  apply (mp_reply_one pi 0 fl (T KDescStats [VB a; VB b; VB c; VB d; VB e] []) dec_descstats); try lia; try reflexivity.
  - rewrite Hw. blens. cbn [glen lenrule_of layout fields_len lenround align8 map sumN fold_right]. lia.
  - rewrite Hw. unfold dec_descstats. rewrite from_zero. cbn [bind].
    rewrite (from_skip a _ 256 256 Hba) by lia. change (256 - 256) with 0. rewrite from_zero. cbn [bind].
    rewrite (from_skip a _ 512 256 Hba) by lia. change (512 - 256) with 256.
    rewrite (from_skip b _ 256 256 Hbb) by lia. change (256 - 256) with 0. rewrite from_zero. cbn [bind].
    rewrite (from_skip a _ 768 256 Hba) by lia. change (768 - 256) with 512.
    rewrite (from_skip b _ 512 256 Hbb) by lia. change (512 - 256) with 256.
    rewrite (from_skip c _ 256 256 Hbc) by lia. change (256 - 256) with 0. rewrite from_zero. cbn [bind].
    rewrite (from_skip a _ 800 256 Hba) by lia. change (800 - 256) with 544.
    rewrite (from_skip b _ 544 256 Hbb) by lia. change (544 - 256) with 288.
    rewrite (from_skip c _ 288 256 Hbc) by lia. change (288 - 256) with 32.
    pose proof (from_skip d e 32 32 Hbd) as Hf. rewrite Hf by lia. change (32 - 32) with 0. rewrite from_zero. cbn [bind].
    rewrite (fit_app_exact 256 a _ Ha), (fit_app_exact 256 b _ Hb), (fit_app_exact 256 c _ Hc), (fit_app_exact 32 d _ Hd), (fit_exact 256 e He). reflexivity.
Qed.
