From Coq Require Import ZArith NArith List Bool Lia ZifyN ZifyBool ZifyNat.
From Coq.Strings Require Import Byte.
From LOF Require Import Base.Bytes Base.Res Model.Ofbase.
Import ListNotations.
Open Scope Z_scope.
Ltac Zify.zify_post_hook ::= Z.div_mod_to_equations.

(* ---- slicing a buffer at the position where some bytes were appended ---- *)
Lemma slice_app pre bs post :
  slice (pre ++ bs ++ post) (Z.of_nat (length pre)) (Z.of_nat (length pre) + Z.of_nat (length bs)) = Ok bs.
Proof.
  unfold slice. rewrite !app_length.
  replace ((0 <=? _) && _ && _) with true by lia.
  f_equal. replace (Z.to_nat (Z.of_nat (length pre))) with (length pre) by lia.
  rewrite skipn_app, skipn_all, Nat.sub_diag. cbn [skipn app].
  replace (Z.to_nat _) with (length bs) by lia.
  rewrite firstn_app, firstn_all, Nat.sub_diag. cbn [firstn]. apply app_nil_r.
Qed.

Lemma read_bytes_app pre bs post base :
  read_bytes {| dbuf := pre ++ bs ++ post ; doff := Z.of_nat (length pre) ; dbase := base |}
             (Z.of_nat (length bs)) =
  Ok (bs, {| dbuf := pre ++ bs ++ post ; doff := Z.of_nat (length (pre ++ bs)) ; dbase := base |}).
Proof.
  unfold read_bytes. cbn [dbuf doff]. rewrite slice_app. cbn [bind]. unfold advance. cbn [dbuf doff dbase].
  rewrite app_length. do 3 f_equal. lia.
Qed.

Lemma read_un_app w x pre post base : (x < 256 ^ N.of_nat w)%N ->
  read_un (Z.of_nat w) {| dbuf := pre ++ be_bytes w x ++ post ; doff := Z.of_nat (length pre) ; dbase := base |} =
  Ok (x, {| dbuf := pre ++ be_bytes w x ++ post ; doff := Z.of_nat (length (pre ++ be_bytes w x)) ; dbase := base |}).
Proof.
  intros Hx. unfold read_un.
  pose proof (read_bytes_app pre (be_bytes w x) post base) as H.
  rewrite length_be_bytes in H. rewrite H. cbn [bind]. rewrite be_value_be_bytes by exact Hx. reflexivity.
Qed.

Lemma read_u8_app x pre post base : (x < 256)%N ->
  read_u8 {| dbuf := pre ++ be8 x ++ post ; doff := Z.of_nat (length pre) ; dbase := base |} =
  Ok (x, {| dbuf := pre ++ be8 x ++ post ; doff := Z.of_nat (length (pre ++ be8 x)) ; dbase := base |}).
Proof.
  intros Hx. unfold read_u8, blen. cbn [dbuf doff]. rewrite !app_length.
  replace ((0 <=? _) && _) with true by (cbn [be8 be_bytes app length]; lia).
  rewrite Nat2Z.id. rewrite app_nth2 by lia. rewrite Nat.sub_diag.
  cbn [be8 be_bytes app nth]. rewrite b2n_n2b_small by exact Hx.
  unfold advance. cbn [dbuf doff dbase length]. do 3 f_equal. lia.
Qed.

(* the padding the encoder writes is the distance the (base 0) decoder skips *)
Lemma pad8_spec n : Z.of_nat (pad8 n) = Z.quot (Z.of_nat n + 7) 8 * 8 - Z.of_nat n.
Proof.
  unfold pad8. rewrite Z.quot_div_nonneg by lia.
  rewrite Nat2Z.inj_sub, Nat2Z.inj_mul, Nat2Z.inj_div, Nat2Z.inj_add; [reflexivity|].
  pose proof (Nat.div_mod (n + 7) 8 ltac:(lia)). pose proof (Nat.mod_upper_bound (n + 7) 8 ltac:(lia)). lia.
Qed.

(* one write followed by the matching read *)
Lemma read_one_step w pre post : wr_wf w = true ->
  exists bs, enc_step pre w = pre ++ bs /\
  read_one (rd_of w) {| dbuf := pre ++ bs ++ post ; doff := Z.of_nat (length pre) ; dbase := 0 |} =
  Ok (val_of w, {| dbuf := pre ++ bs ++ post ; doff := Z.of_nat (length (pre ++ bs)) ; dbase := 0 |}) /\
  Z.of_nat (length bs) = (match w with WAlign => Z.of_nat (pad8 (length pre)) | _ => rd_width (rd_of w) end).
Proof.
  intros Hwf. destruct w as [x|x|x|x|hi lo|bs|]; cbn [wr_wf] in Hwf; cbn [enc_step rd_of val_of read_one rd_width].
  - exists (be8 x). split; [reflexivity|]. rewrite read_u8_app by lia. split; reflexivity.
  - exists (be16 x). split; [reflexivity|]. change 2 with (Z.of_nat 2). unfold be16.
    rewrite read_un_app by (change (256 ^ N.of_nat 2)%N with 65536%N; lia). split; reflexivity.
  - exists (be32 x). split; [reflexivity|]. change 4 with (Z.of_nat 4). unfold be32.
    rewrite read_un_app by (change (256 ^ N.of_nat 4)%N with 4294967296%N; lia). split; reflexivity.
  - exists (be64 x). split; [reflexivity|]. change 8 with (Z.of_nat 8). unfold be64.
    rewrite read_un_app by (change (256 ^ N.of_nat 8)%N with 18446744073709551616%N; lia). split; reflexivity.
  - exists (be64 hi ++ be64 lo). split; [reflexivity|]. unfold read_u128. change 8 with (Z.of_nat 8). unfold be64.
    rewrite <- app_assoc.
    rewrite read_un_app by (change (256 ^ N.of_nat 8)%N with 18446744073709551616%N; lia). cbn [bind].
    rewrite (app_assoc pre (be_bytes 8 hi)).
    rewrite read_un_app by (change (256 ^ N.of_nat 8)%N with 18446744073709551616%N; lia). cbn [bind fst snd].
    rewrite <- !app_assoc. split; [reflexivity|]. rewrite app_length, !length_be_bytes. reflexivity.
  - exists bs. split; [reflexivity|]. rewrite read_bytes_app. split; reflexivity.
  - exists (zeros (pad8 (length pre))). split; [reflexivity|]. split; [|rewrite length_zeros; reflexivity].
    unfold skip_align, advance. cbn [dbuf doff dbase]. do 3 f_equal.
    rewrite app_length, length_zeros, Nat2Z.inj_add, pad8_spec. lia.
Qed.

Lemma enc_run_prefix ws : forall buf, exists tail, enc_run ws buf = buf ++ tail.
Proof.
  induction ws as [|w ws IH]; intros buf; cbn [enc_run fold_left].
  - exists []. symmetry. apply app_nil_r.
  - fold (enc_run ws (enc_step buf w)). destruct (IH (enc_step buf w)) as [t Ht]. rewrite Ht.
    destruct w; cbn [enc_step]; rewrite <- ?app_assoc; eexists; reflexivity.
Qed.

(* any sequence of typed writes is read back unchanged and in order, the position ending
   exactly after the last value; [pre] is whatever was written before, [post] whatever
   follows *)
Lemma write_read_all ws : forall pre post, forallb wr_wf ws = true ->
  read_all (map rd_of ws)
    {| dbuf := enc_run ws pre ++ post ; doff := Z.of_nat (length pre) ; dbase := 0 |} =
  Ok (map val_of ws,
      {| dbuf := enc_run ws pre ++ post ; doff := Z.of_nat (length (enc_run ws pre)) ; dbase := 0 |}).
Proof.
  induction ws as [|w ws IH]; intros pre post Hwf; cbn [map read_all enc_run fold_left].
  - reflexivity.
  - cbn [forallb] in Hwf. apply andb_true_iff in Hwf as [Hw Hws].
    fold (enc_run ws (enc_step pre w)).
    destruct (enc_run_prefix ws (enc_step pre w)) as [tail Ht].
    destruct (read_one_step w pre (tail ++ post) Hw) as [bs [Hs [Hr _]]].
    rewrite Ht, Hs, <- !app_assoc. rewrite Hr. cbn [bind].
    specialize (IH (pre ++ bs) post Hws). rewrite <- Hs, Ht, Hs in IH.
    rewrite <- !app_assoc in IH. rewrite IH. cbn [bind]. reflexivity.
Qed.

(* every read that succeeds advances by exactly the value's width and keeps the buffer *)
Lemma read_one_advances r d v d' : r <> RAlign -> read_one r d = Ok (v, d') ->
  doff d' = doff d + rd_width r /\ dbuf d' = dbuf d /\ dbase d' = dbase d.
Proof.
  intros Hr H. destruct r; cbn [read_one rd_width] in *; try congruence.
  - unfold read_u8 in H. destruct (_ && _); cbn [bind] in H; [|discriminate H]. inversion H; subst. cbn. auto.
  - unfold read_un, read_bytes in H. destruct (slice _ _ _); cbn [bind] in H; try discriminate H. inversion H; subst. cbn. auto.
  - unfold read_un, read_bytes in H. destruct (slice _ _ _); cbn [bind] in H; try discriminate H. inversion H; subst. cbn. auto.
  - unfold read_un, read_bytes in H. destruct (slice _ _ _); cbn [bind] in H; try discriminate H. inversion H; subst. cbn. auto.
  - unfold read_u128, read_un, read_bytes in H.
    destruct (slice _ _ _); cbn [bind] in H; try discriminate H. cbn [dbuf doff advance] in H.
    destruct (slice _ _ _); cbn [bind] in H; try discriminate H. inversion H; subst. cbn. repeat split; lia.
  - unfold read_bytes in H. destruct (slice _ _ _); cbn [bind] in H; try discriminate H. inversion H; subst. cbn. auto.
Qed.

(* alignment skip: to the next multiple of 8 of the absolute position, by 0..7, never back *)
Lemma skip_align_spec d : 0 <= abs_pos d ->
  abs_pos (skip_align d) mod 8 = 0 /\ 0 <= doff (skip_align d) - doff d <= 7 /\
  dbase (skip_align d) = dbase d /\ dbuf (skip_align d) = dbuf d.
Proof.
  unfold abs_pos, skip_align, advance. cbn [dbase doff dbuf]. intros H.
  rewrite Z.quot_div_nonneg by lia. repeat split; lia.
Qed.

Lemma skip_align_idem d : 0 <= abs_pos d -> abs_pos d mod 8 = 0 -> skip_align d = d.
Proof.
  unfold abs_pos, skip_align, advance. intros H H8. destruct d as [b o ba]. cbn [dbase doff dbuf] in *.
  f_equal. rewrite Z.quot_div_nonneg by lia. lia.
Qed.

(* a sliced decoder keeps counting from the start of the enclosing message *)
Lemma slice_decoder_pos d len rw c p : slice_decoder d len rw = Ok (c, p) ->
  abs_pos c = abs_pos d /\ abs_pos p = abs_pos d + (len - rw) /\
  Z.of_nat (length (dbuf c)) = len - rw /\ 0 <= len - rw.
Proof.
  unfold slice_decoder, slice. destruct (_ && _) eqn:E; cbn [bind]; [|discriminate].
  intros H. inversion H; subst. unfold abs_pos, advance. cbn [dbase doff dbuf].
  rewrite firstn_length, skipn_length. repeat split; lia.
Qed.

(* header: fewer than 8 readable bytes is an error, and no input panics *)
Lemma header_short d : dlength d < 8 -> header_decode d = Err.
Proof. intros H. unfold header_decode. replace (dlength d <? 8) with true by lia. reflexivity. Qed.

Lemma bind_not_fuel {A B} (r : res A) (f : A -> res B) :
  r <> Fuel -> (forall a, f a <> Fuel) -> bind r f <> Fuel.
Proof. intros Hr Hf. destruct r; cbn [bind]; try discriminate; [apply Hf|congruence]. Qed.

Lemma slice_not_fuel l a b : slice l a b <> Fuel.
Proof. unfold slice. destruct (_ && _); discriminate. Qed.

Lemma read_u8_not_fuel d : read_u8 d <> Fuel.
Proof. unfold read_u8. destruct (_ && _); discriminate. Qed.

Lemma read_un_not_fuel w d : read_un w d <> Fuel.
Proof.
  unfold read_un, read_bytes. apply bind_not_fuel.
  - apply bind_not_fuel; [apply slice_not_fuel|discriminate].
  - intros [bs d']. discriminate.
Qed.

Lemma header_never_panics d : header_decode d <> Panic /\ header_decode d <> Fuel.
Proof.
  unfold header_decode. destruct (dlength d <? 8); [split; discriminate|]. split.
  - destruct (header_decode_body d); cbn [recover]; discriminate.
  - assert (H : header_decode_body d <> Fuel).
    { unfold header_decode_body.
      apply bind_not_fuel; [apply read_u8_not_fuel|intros [v d1]].
      apply bind_not_fuel; [apply read_u8_not_fuel|intros [t d2]].
      apply bind_not_fuel; [apply read_un_not_fuel|intros [l d3]].
      apply bind_not_fuel; [apply read_un_not_fuel|intros [x d4]]. discriminate. }
    destruct (header_decode_body d); cbn [recover]; try discriminate. congruence.
Qed.

Lemma header_roundtrip v t l x post :
  (v < 256)%N -> (t < 256)%N -> (l < 65536)%N -> (x < 4294967296)%N ->
  exists d', header_decode (NewDecoder (be8 v ++ be8 t ++ be16 l ++ be32 x ++ post)) =
  Ok ({| h_version := v ; h_type := t ; h_length := l ; h_xid := x |}, d') /\ doff d' = 8.
Proof.
  intros Hv Ht Hl Hx.
  pose proof (write_read_all [W8 v; W8 t; W16 l; W32 x] [] post) as H.
  cbn [forallb wr_wf map rd_of val_of enc_run fold_left enc_step app length] in H.
  rewrite <- !app_assoc in H. cbn [app] in H.
  specialize (H ltac:(lia)). cbn [read_all read_one] in H.
  unfold header_decode, NewDecoder, dlength, blen. cbn [dbuf doff].
  match goal with |- context [?a <? 8] => replace (a <? 8) with false by
    (cbn [be8 be16 be32 be_bytes app length]; lia) end.
  unfold header_decode_body. change (Z.of_nat (@length byte [])) with 0 in H.
  destruct (read_u8 _) as [[a d1]| | |]; cbn [bind] in H |- *; try discriminate H.
  destruct (read_u8 d1) as [[b d2]| | |]; cbn [bind] in H |- *; try discriminate H.
  destruct (read_un 2 d2) as [[c d3]| | |]; cbn [bind] in H |- *; try discriminate H.
  destruct (read_un 4 d3) as [[e d4]| | |]; cbn [bind] in H |- *; try discriminate H.
  inversion H; subst. eexists. split; [reflexivity|]. cbn [doff be8 be16 be32 be_bytes app length]. reflexivity.
Qed.

Example ofbase_example :
  read_all [R16; RAlign; R8] (NewDecoder (enc_run [W16 513%N; WAlign; W8 7%N] [])) =
  Ok ([V16 513%N; VAlign; V8 7%N], {| dbuf := enc_run [W16 513%N; WAlign; W8 7%N] [] ; doff := 9 ; dbase := 0 |}).
Proof. vm_compute. reflexivity. Qed.
