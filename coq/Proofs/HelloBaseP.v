(* Hello messages with any list of version-bitmap elements, as a controller can build them:
   the value is consistent, hence sized and framed exactly (C01, C06, C13). *)
From Coq Require Import NArith ZArith Arith List Bool Lia.
From Coq.Strings Require Import Byte.
From LOF Require Import Base.Bytes Model.Wire Model.Build Model.BuildSw Proofs.WireP Proofs.NormP.
Import ListNotations.
Open Scope N_scope.

Definition hello_tree (xid : N) (es : list (list N)) : tree := T KHello (hdr 0 xid) (map helem_bitmap_tree es).

Lemma hello_shaped xid es : shaped (hello_tree xid es) = true.
Proof.
  unfold hello_tree. cbn [shaped]. replace (vals_shape (layout KHello) (hdr 0 xid)) with true by reflexivity. cbn [andb].
  induction es as [|e r IH]; cbn [map forallb]; [reflexivity|]. rewrite IH. reflexivity.
Qed.

(* sizes, framing (the generic theorems of C01 / C06 / C13 are about consistent trees) *)
Lemma hello_consistent xid es : consistent (hello_tree xid es) = true.
Proof.
  unfold hello_tree. rewrite consistent_unfold. replace (own_ok (T KHello (hdr 0 xid) (map helem_bitmap_tree es))) with true by reflexivity.
  cbn [andb]. induction es as [|e r IH]; cbn [map forallb]; [reflexivity|]. rewrite IH. rewrite andb_true_r. reflexivity.
Qed.

(* C01: version, type 0, length = bytes produced = Len(), xid *)
Theorem hello_framing xid es :
  let t := hello_tree xid es in
  exists tail, fst (marshal t) = be8 4 ++ be8 0 ++ be16 (glen t) ++ be32 xid ++ tail /\
               glen t = N.of_nat (length (fst (marshal t))).
Proof. exact (msg_framing KHello 4 0 0 xid [] (map helem_bitmap_tree es) eq_refl (hello_consistent xid es)). Qed.
