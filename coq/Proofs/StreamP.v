From Coq Require Import NArith ZArith List Bool Lia ZifyN ZifyBool ZifyNat.
From Coq.Strings Require Import Byte.
From LOF Require Import Base.Bytes Model.Stream.
Import ListNotations.
Open Scope N_scope.

(* ---- de-framer ---- *)
Lemma feed_app a : forall s b, feed s (a ++ b) =
  let '(s1, o1) := feed s a in let '(s2, o2) := feed s1 b in (s2, o1 ++ o2).
Proof.
  induction a as [|x a IH]; intros s b; cbn [app feed].
  - destruct (feed s b). reflexivity.
  - destruct (dstep s x) as [s1 o]. rewrite IH. destruct (feed s1 a) as [s2 o1]. destruct (feed s2 b) as [s3 o2].
    destruct o; reflexivity.
Qed.

(* chunk independence: only the concatenation of what the reads returned matters *)
Theorem feed_chunks_concat chunks : forall s, feed_chunks s chunks = feed s (List.concat chunks).
Proof.
  induction chunks as [|c r IH]; intros s; cbn [feed_chunks List.concat]; [reflexivity|].
  rewrite feed_app. destruct (feed s c) as [s1 o1]. rewrite IH. reflexivity.
Qed.

Lemma feed_cons s b r : feed s (b :: r) =
  let '(s1, o) := dstep s b in let '(s2, out) := feed s1 r in (s2, match o with Some f => f :: out | None => out end).
Proof. reflexivity. Qed.

Definition body_state (hb : list byte) (k : N) (buf : list byte) : dstate :=
  {| d_hdr := 4 ; d_hb := hb ; d_msg := k ; d_wedged := false ; d_buf := buf |}.

Lemma dstep_body hb k buf x : dstep (body_state hb k buf) x =
  if N.eqb k 1 then (dinit, Some (buf ++ [x])) else (body_state hb (k - 1) (buf ++ [x]), None).
Proof. reflexivity. Qed.

(* the body phase: with |body| bytes still to come, feeding them emits the buffer *)
Lemma body_phase : forall body hb buf, body <> [] ->
  feed (body_state hb (N.of_nat (length body)) buf) body = (dinit, [buf ++ body]).
Proof.
  induction body as [|x r IH]; intros hb buf Hne; [contradiction|].
  rewrite feed_cons, dstep_body. destruct r as [|y r'].
  - reflexivity.
  - replace (N.of_nat (length (x :: y :: r')) =? 1) with false by (cbn [length]; lia).
    replace (N.of_nat (length (x :: y :: r')) - 1) with (N.of_nat (length (y :: r'))) by (cbn [length]; lia).
    rewrite IH by discriminate. rewrite <- app_assoc. reflexivity.
Qed.

(* the header phase: four bytes whose last two say the length *)
Lemma header_phase b0 b1 b2 b3 rest : 4 < be_value [b2; b3] ->
  feed dinit (b0 :: b1 :: b2 :: b3 :: rest) =
  let '(s, out) := feed (body_state [b0; b1; b2; b3] (be_value [b2; b3] - 4) [b0; b1; b2; b3]) rest in (s, out).
Proof.
  intros H.
  do 4 (rewrite feed_cons; cbn [dstep dinit d_hdr d_hb d_msg d_wedged d_buf app Nat.ltb Nat.leb]).
  change (skipn 2 [b0; b1; b2; b3]) with [b2; b3]. replace (be_value [b2; b3] <=? 4) with false by lia.
  fold (body_state [b0; b1; b2; b3] (be_value [b2; b3] - 4) [b0; b1; b2; b3]).
  destruct (feed _ rest). reflexivity.
Qed.

(* one whole well-formed frame from the initial state: emitted intact, state back to initial *)
Lemma feed_frame f : wellframed f -> feed dinit f = (dinit, [f]).
Proof.
  intros [Hlen [Hmax Hfield]].
  destruct f as [|b0 [|b1 [|b2 [|b3 body]]]]; cbn [length] in Hlen; try lia.
  cbn [firstn skipn] in Hfield. cbn [length] in Hfield.
  rewrite header_phase by lia.
  replace (be_value [b2; b3] - 4) with (N.of_nat (length body)) by lia.
  rewrite body_phase by (destruct body; [cbn [length] in Hlen; lia|discriminate]). reflexivity.
Qed.

(* any sequence of well-formed frames, however the byte stream is cut into reads: exactly
   one buffer per frame, in order, each with exactly the frame's bytes *)
Theorem deframe_frames frames : Forall wellframed frames ->
  feed dinit (List.concat frames) = (dinit, frames).
Proof.
  induction 1 as [|f r Hf _ IH]; cbn [List.concat]; [reflexivity|].
  rewrite feed_app, (feed_frame f Hf), IH. reflexivity.
Qed.

Corollary deframe_chunks frames chunks : Forall wellframed frames ->
  List.concat chunks = List.concat frames -> feed_chunks dinit chunks = (dinit, frames).
Proof. intros H E. rewrite feed_chunks_concat, E. apply deframe_frames, H. Qed.

(* a proper prefix of a well-formed frame emits nothing *)
Lemma body_prefix : forall part hb buf k, (length part < k)%nat ->
  snd (feed (body_state hb (N.of_nat k) buf) part) = [].
Proof.
  induction part as [|x r IH]; intros hb buf k Hk; [reflexivity|].
  rewrite feed_cons, dstep_body. cbn [length] in Hk. replace (N.of_nat k =? 1) with false by lia.
  replace (N.of_nat k - 1) with (N.of_nat (k - 1)) by lia.
  specialize (IH hb (buf ++ [x]) (k - 1)%nat ltac:(lia)).
  destruct (feed _ r) as [s2 out]. cbn [snd] in *. exact IH.
Qed.

Lemma feed_partial f part tail : wellframed f -> f = part ++ tail -> tail <> [] -> snd (feed dinit part) = [].
Proof.
  intros [Hlen [Hmax Hfield]] E Ht.
  assert (Hpl : (length part < length f)%nat) by (rewrite E, app_length; destruct tail; [contradiction|cbn; lia]).
  destruct part as [|b0 [|b1 [|b2 [|b3 body]]]]; try reflexivity.
  assert (Hf4 : firstn 2 (skipn 2 f) = [b2; b3]) by (rewrite E; reflexivity).
  rewrite Hf4 in Hfield.
  rewrite header_phase by lia.
  replace (be_value [b2; b3] - 4) with (N.of_nat (length f - 4)) by lia.
  pose proof (body_prefix body [b0; b1; b2; b3] [b0; b1; b2; b3] (length f - 4)%nat) as H.
  cbn [length] in Hpl. specialize (H ltac:(lia)).
  destruct (feed _ body) as [s2 out]. cbn [snd] in *. exact H.
Qed.

(* bytes of an incomplete trailing frame are never delivered: after any number of whole
   frames, a proper prefix of the next one adds nothing *)
Theorem deframe_with_partial frames f part tail : Forall wellframed frames -> wellframed f ->
  f = part ++ tail -> tail <> [] ->
  snd (feed dinit (List.concat frames ++ part)) = frames.
Proof.
  intros Hfs Hf E Ht. rewrite feed_app, (deframe_frames frames Hfs).
  pose proof (feed_partial f part tail Hf E Ht) as H. destruct (feed dinit part) as [s2 o2].
  cbn [snd] in *. rewrite H, app_nil_r. reflexivity.
Qed.

(* ---- outbound ---- *)
Section OutboundP.
  Variable Msg : Type.
  Variable enc : Msg -> list byte.
  Notation ostate := (ostate Msg).

  (* invariant: the wire is the concatenation of the encodings of what the writer took, in
     that order; and for each producer, what was taken + what sits in the channel + what
     it still holds is its original sequence, in order *)
  Definition oinv (qs : nat -> list Msg) (s : ostate) : Prop :=
    o_wire Msg s = List.concat (map (fun x => enc (snd x)) (o_written Msg s)) /\
    forall p, from_p Msg p (o_written Msg s ++ chan_list Msg (o_chan Msg s)) ++ o_queues Msg s p = qs p.

  Lemma from_p_app p a b : from_p Msg p (a ++ b) = from_p Msg p a ++ from_p Msg p b.
  Proof. unfold from_p. rewrite filter_app, map_app. reflexivity. Qed.

  Lemma oinv_step qs s s' : oinv qs s -> ostep Msg enc s s' -> oinv qs s'.
  Proof.
    intros [Hw Hq] Hs. destruct Hs as [p m r s Hqp Hc|p m s Hc]; unfold oinv; cbn [o_wire o_written o_chan o_queues].
    - split; [exact Hw|]. intros q. specialize (Hq q). rewrite Hc in Hq. cbn [chan_list] in *. rewrite app_nil_r in Hq.
      rewrite from_p_app. unfold from_p at 2. cbn [filter fst]. destruct (Nat.eqb_spec p q) as [->|Hne].
      + rewrite Nat.eqb_refl. cbn [map snd]. rewrite <- Hq, Hqp, <- app_assoc. reflexivity.
      + destruct (Nat.eqb_spec q p) as [->|_]; [contradiction|]. cbn [map]. rewrite app_nil_r. exact Hq.
    - split.
      + rewrite map_app, concat_app, Hw. cbn [map List.concat snd]. rewrite app_nil_r. reflexivity.
      + intros q. specialize (Hq q). rewrite Hc in Hq. cbn [chan_list] in *. rewrite app_nil_r. exact Hq.
  Qed.

  Theorem oinv_reach qs s : oreach Msg enc (ostart Msg qs) s -> oinv qs s.
  Proof.
    induction 1 as [|s s' _ IH Hs].
    - split; [reflexivity|]. intros p. reflexivity.
    - eapply oinv_step; eassumption.
  Qed.
End OutboundP.
