(* C05 for all recipes, continued: learn, NAT, conntrack, lists, instructions, buckets. *)
From Coq Require Import NArith ZArith Arith List Bool Lia ZifyN ZifyBool ZifyNat.
From Coq.Strings Require Import Byte.
From LOF Require Import Base.Bytes Base.Res Model.Wire Model.Build Model.Proto Model.Parse Spec.Walk
  Proofs.WireP Proofs.BuildP Proofs.NormP Proofs.WalkP Proofs.WalkAllP Proofs.SegP Proofs.ParseRtAllP.
Import ListNotations.
Open Scope N_scope.
Ltac Zify.zify_post_hook ::= Z.div_mod_to_equations.
Local Notation blen := Proto.blen.

Lemma dec_lspecs_built specs : forallb lspec_wf specs = true -> forall fuel P S k, (length specs < fuel)%nat -> k < 8 ->
  dec_lspecs fuel (P ++ flat_map wire (map build_lspec specs) ++ S) (blen P)
    (blen P + blen (flat_map wire (map build_lspec specs)) + k) = Ok (map build_lspec specs).
Proof.
  induction specs as [|s r IH]; intros H fuel P S k Hf Hk; cbn [map flat_map forallb length] in *.
  - destruct fuel; [lia|]. cbn [dec_lspecs]. rewrite blen_nil.
    replace ((blen P + 0 + k <=? blen P) || (blen P + 0 + k - blen P <? 8)) with true by lia. reflexivity.
  - apply andb_true_iff in H as [Hs Hr]. destruct fuel as [|fuel]; [lia|]. cbn [dec_lspecs].
    destruct (dec_built_lspec s (flat_map wire (map build_lspec r) ++ S) Hs) as (Hd & H8 & Hg).
    rewrite blen_app.
    replace ((blen P + (blen (wire (build_lspec s)) + blen (flat_map wire (map build_lspec r))) + k <=? blen P) ||
             (blen P + (blen (wire (build_lspec s)) + blen (flat_map wire (map build_lspec r))) + k - blen P <? 8)) with false by lia.
    rewrite (from_skip P _ (blen P) (blen P)) by (try reflexivity; lia). rewrite N.sub_diag, from_zero. cbn [bind].
    rewrite <- app_assoc, Hd. cbn [bind]. rewrite Hg.
    replace (blen P + blen (wire (build_lspec s))) with (blen (P ++ wire (build_lspec s))) by (rewrite blen_app; reflexivity).
    replace (blen P + (blen (wire (build_lspec s)) + blen (flat_map wire (map build_lspec r))) + k)
      with (blen (P ++ wire (build_lspec s)) + blen (flat_map wire (map build_lspec r)) + k) by (rewrite blen_app; lia).
    replace (P ++ wire (build_lspec s) ++ flat_map wire (map build_lspec r) ++ S)
      with ((P ++ wire (build_lspec s)) ++ flat_map wire (map build_lspec r) ++ S) by (rewrite <- app_assoc; reflexivity).
    rewrite IH by (try exact Hr; lia). cbn [bind]. reflexivity.
Qed.

Theorem dec_built_learn a fuel rest : learn_ok a = true ->
  dec_action (S fuel) (wire (norm (build_a a)) ++ rest) = Ok (norm (build_a a)).
Proof.
  destruct a; try discriminate. cbn [learn_ok]. intros H.
  repeat (apply andb_true_iff in H as [H ?]).
  match goal with Hx : forallb lspec_wf specs = true |- _ => rename Hx into Hspecs end.
  set (ks := map build_lspec specs) in *.
  assert (Hcons : forallb consistent ks = true) by (subst ks; apply forallb_map_true, BuildP.lspec_ok).
  pose proof (sum_glen_wire ks Hcons) as Hsum.
  set (L := round8 (32 + sumN (map glen ks))).
  assert (Hn : norm (build_a (ALearn idle hard prio cookie flags table finidle finhard specs)) =
               T KNxLearn (nx 16 L ++ [VN idle; VN hard; VN prio; VN cookie; VN flags; VN table; VN finidle; VN finhard]) ks).
  { cbn [build_a norm writeback]. rewrite map_norm_lspecs. fold ks. unfold nx. cbn [app set_nth].
    cbn [glen lenrule_of layout nxhdr app fields_len lenround align8].
    change (N.of_nat 1) with 1. change (N.of_nat 2) with 2. change (N.of_nat 4) with 4. change (N.of_nat 8) with 8.
    match goal with |- context [round8 ?x] => replace x with (32 + sumN (map glen ks)) by lia end. reflexivity. }
  rewrite Hn.
  pose proof (WalkAllP.round8_ge (32 + sumN (map glen ks))) as (HL1 & HL2 & HL3). fold L in HL1, HL2, HL3.
  rewrite (wire_nx_padded KNxLearn L 16 [FU 2; FU 2; FU 2; FU 8; FU 2; FU 1; FZ 1; FU 2; FU 2] ks eq_refl eq_refl).
  set (vals := [VN idle; VN hard; VN prio; VN cookie; VN flags; VN table; VN finidle; VN finhard]).
  set (X := flat_map wire ks) in *.
  set (F := enc_fields [FU 2; FU 2; FU 2; FU 8; FU 2; FU 1; FZ 1; FU 2; FU 2] vals).
  assert (HF : blen F = 22) by reflexivity.
  set (Z := zeros (pad8 (10 + length (F ++ X)))).
  assert (HZ : 32 + blen X + blen Z = L /\ blen Z < 8).
  { subst Z. rewrite blen_zeros. rewrite app_length. replace (length F) with 22%nat by reflexivity.
    replace (10 + (22 + length X))%nat with (32 + length X)%nat by lia.
    rewrite WalkAllP.pad8_round8. pose proof (WalkAllP.pad8_lt8 (32 + length X)). subst L. rewrite Hsum. unfold blen.
    replace (N.of_nat (32 + length X)) with (32 + N.of_nat (length X)) by lia.
    pose proof (WalkAllP.round8_ge (32 + N.of_nat (length X))). lia. }
  destruct HZ as [HZ1 HZ2].
  destruct (nx_header_reads L 16 ((F ++ X) ++ Z) rest ltac:(lia) ltac:(lia)) as (R0 & R2 & R4 & R8 & Rb).
  rewrite (dec_nx_prologue _ L 16 fuel R0 R2 R4 R8) by (rewrite Rb; lia). clear R0 R2 R4 R8.
  cbv zeta. cbn [N.eqb Pos.eqb].
  replace (blen (nxbytes L 16 ((F ++ X) ++ Z) ++ rest) <? L) with false by (rewrite Rb; blens; lia).
  (* the eight numbers *)
  assert (Hrv : read_vals (nxbytes L 16 ((F ++ X) ++ Z) ++ rest) [(10, 2); (12, 2); (14, 2); (16, 8); (24, 2); (26, 1); (28, 2); (30, 2)] = Ok vals).
  { unfold nxbytes, F, vals. cbn [enc_fields]. rewrite <- !app_assoc. cbn [read_vals app]. seg. reflexivity. }
  rewrite Hrv. cbn [bind].
  (* the specs *)
  assert (Hsp : dec_lspecs (S (length (nxbytes L 16 ((F ++ X) ++ Z) ++ rest))) (nxbytes L 16 ((F ++ X) ++ Z) ++ rest) 32 L = Ok ks).
  { replace (nxbytes L 16 ((F ++ X) ++ Z) ++ rest) with ((be_bytes 2 65535 ++ be_bytes 2 L ++ be_bytes 4 8992 ++ be_bytes 2 16 ++ F) ++ X ++ (Z ++ rest))
      by (unfold nxbytes; rewrite <- !app_assoc; reflexivity).
    set (P := be_bytes 2 65535 ++ be_bytes 2 L ++ be_bytes 4 8992 ++ be_bytes 2 16 ++ F).
    assert (HP : blen P = 32) by reflexivity.
    pose proof (dec_lspecs_built specs Hspecs (S (length (P ++ X ++ Z ++ rest))) P (Z ++ rest) (blen Z)) as HH.
    fold ks in HH. fold X in HH. rewrite HP in HH. replace (32 + blen X + blen Z) with L in HH by lia.
    apply HH; [|exact HZ2]. rewrite !app_length. pose proof (lspecs_len specs) as Hll. fold ks in Hll. fold X in Hll. lia. }
  rewrite Hsp. cbn [bind]. reflexivity.
Qed.

(* ---------------------------------------------------------------- NAT *)
Lemma nat_part_kids pr bit w P (kids : list tree) Y ts :
  (kids = [] /\ N.testbit pr bit = false) \/ (exists x, kids = [raw x] /\ blen x = w /\ N.testbit pr bit = true) ->
  nat_part pr bit w (P ++ flat_map wire kids ++ Y) (Ok (ts, blen P)) = Ok (ts ++ kids, blen (P ++ flat_map wire kids)).
Proof.
  intros [[-> Hb]|(x & -> & Hx & Hb)]; unfold nat_part; cbn [bind flat_map]; rewrite Hb.
  - rewrite !app_nil_r. reflexivity.
  - rewrite wire_raw, app_nil_r.
    rewrite (sl_skip P _ (blen P) (blen P + w) (blen P)) by (try reflexivity; lia).
    rewrite N.sub_diag. replace (blen P + w - blen P) with w by lia.
    rewrite (sl_here x Y) by exact Hx. cbn [bind]. rewrite blen_app, Hx. reflexivity.
Qed.

Lemma present_bits s :
  N.testbit (present_of s) 0 = (match n_ip4min s with Some _ => true | None => false end) /\
  N.testbit (present_of s) 1 = (match n_ip4max s with Some _ => true | None => false end) /\
  N.testbit (present_of s) 2 = (match n_ip6min s with Some _ => true | None => false end) /\
  N.testbit (present_of s) 3 = (match n_ip6max s with Some _ => true | None => false end) /\
  N.testbit (present_of s) 4 = (match n_pmin s with Some _ => true | None => false end) /\
  N.testbit (present_of s) 5 = (match n_pmax s with Some _ => true | None => false end).
Proof.
  unfold present_of. destruct (n_ip4min s), (n_ip4max s), (n_ip6min s), (n_ip6max s), (n_pmin s), (n_pmax s); cbn; repeat split; reflexivity.
Qed.

Lemma opt_raw_case w o b : N.testbit b 0 = N.testbit b 0 -> forall pr bit, N.testbit pr bit = (match o with Some _ => true | None => false end) ->
  (opt_raw w o = [] /\ N.testbit pr bit = false) \/ (exists x, opt_raw w o = [raw x] /\ blen x = N.of_nat w /\ N.testbit pr bit = true).
Proof.
  intros _ pr bit H. destruct o as [y|]; [right|left; split; [reflexivity|exact H]].
  exists (fit w y). cbn [opt_raw]. rewrite blen_fit. repeat split. exact H.
Qed.
Lemma opt_rawN_case o : forall pr bit, N.testbit pr bit = (match o with Some _ => true | None => false end) ->
  (opt_rawN o = [] /\ N.testbit pr bit = false) \/ (exists x, opt_rawN o = [raw x] /\ blen x = 2 /\ N.testbit pr bit = true).
Proof.
  intros pr bit H. destruct o as [y|]; [right|left; split; [reflexivity|exact H]].
  exists (be16 y). cbn [opt_rawN]. repeat split. exact H.
Qed.

Theorem dec_built_nat sets fuel rest : nat_ok sets = true ->
  dec_action (S fuel) (wire (norm (build_a (ANat sets))) ++ rest) = Ok (norm (build_a (ANat sets))).
Proof.
  intros Hok. cbn [build_a]. set (s := fold_left nat_apply sets nat0) in *.
  destruct (nat_fold_inv sets nat0 eq_refl ltac:(cbn; lia)) as [Hp Hf]. fold s in Hp, Hf.
  unfold nat_ok in Hok. fold s in Hok. apply N.eqb_eq in Hok.
  assert (Hpl : parts_len s <= 44) by (unfold parts_len; destruct (n_ip4min s), (n_ip4max s), (n_ip6min s), (n_ip6max s), (n_pmin s), (n_pmax s); lia).
  set (L := round8 (n_len s)).
  assert (Hn : norm (nat_tree s) = T KNxNat (nx 36 L ++ [VN (n_flags s); VN (n_present s)]) (nat_kids s)).
  { unfold nat_tree. fold (nat_kids s). cbn [norm writeback]. rewrite map_norm_nat_kids. unfold nx. cbn [app set_nth].
    cbn [glen lenrule_of vnum nth]. reflexivity. }
  rewrite Hn. pose proof (WalkAllP.round8_ge (n_len s)) as (HL1 & HL2 & HL3). fold L in HL1, HL2, HL3.
  rewrite (wire_nx_padded KNxNat L 36 [FZ 2; FU 2; FU 2] (nat_kids s) eq_refl eq_refl).
  pose proof (nat_kids_len s) as Hkl. pose proof (present_of_lt s) as Hplt.
  set (F := enc_fields [FZ 2; FU 2; FU 2] [VN (n_flags s); VN (n_present s)]).
  assert (HF : blen F = 6) by reflexivity.
  set (K := flat_map wire (nat_kids s)) in *.
  set (Z := zeros (pad8 (10 + length (F ++ K)))).
  assert (HZ : 16 + blen K + blen Z = L).
  { subst Z. rewrite blen_zeros, app_length. replace (length F) with 6%nat by reflexivity.
    replace (10 + (6 + length K))%nat with (16 + length K)%nat by lia. rewrite WalkAllP.pad8_round8. unfold blen. subst L. rewrite Hok, <- Hkl.
    replace (N.of_nat (16 + length K)) with (16 + N.of_nat (length K)) by lia. pose proof (WalkAllP.round8_ge (16 + N.of_nat (length K))). lia. }
  destruct (nx_header_reads L 36 ((F ++ K) ++ Z) rest ltac:(lia) ltac:(lia)) as (R0 & R2 & R4 & R8 & Rb).
  rewrite (dec_nx_prologue _ L 36 fuel R0 R2 R4 R8) by (rewrite Rb; lia). clear R0 R2 R4 R8.
  cbv zeta. cbn [N.eqb Pos.eqb vnum nth].
  replace (round8 L mod 65536) with L by (subst L; rewrite round8_idem; pose proof (WalkAllP.round8_ge (n_len s)); lia).
  replace (blen (nxbytes L 36 ((F ++ K) ++ Z) ++ rest) <? L) with false by (rewrite Rb; blens; unfold blen in *; lia).
  assert (Hfl : uat 2 (nxbytes L 36 ((F ++ K) ++ Z) ++ rest) 12 = Ok (n_flags s) /\ uat 2 (nxbytes L 36 ((F ++ K) ++ Z) ++ rest) 14 = Ok (n_present s)).
  { unfold nxbytes, F. cbn [enc_fields]. rewrite <- !app_assoc. cbn [app]. split; seg; reflexivity. }
  destruct Hfl as [Hfl Hpr]. rewrite Hfl, Hpr. cbn [bind].
  (* the six optional parts, in presence-bit order *)
  replace (nxbytes L 36 ((F ++ K) ++ Z) ++ rest) with ((be_bytes 2 65535 ++ be_bytes 2 L ++ be_bytes 4 8992 ++ be_bytes 2 36 ++ F) ++ K ++ (Z ++ rest))
    by (unfold nxbytes; rewrite <- !app_assoc; reflexivity).
  set (P0 := be_bytes 2 65535 ++ be_bytes 2 L ++ be_bytes 4 8992 ++ be_bytes 2 36 ++ F).
  assert (HP0 : blen P0 = 16) by reflexivity. rewrite <- HP0.
  destruct (present_bits s) as (B0 & B1 & B2 & B3 & B4 & B5). rewrite Hp.
  unfold K, nat_kids. rewrite !flat_map_app, <- !app_assoc.
  set (k0 := opt_raw 4 (n_ip4min s)). set (k1 := opt_raw 4 (n_ip4max s)). set (k2 := opt_raw 16 (n_ip6min s)).
  set (k3 := opt_raw 16 (n_ip6max s)). set (k4 := opt_rawN (n_pmin s)). set (k5 := opt_rawN (n_pmax s)).
  rewrite (nat_part_kids _ 0 4 P0 k0 _ []) by (apply (opt_raw_case 4 _ 0 eq_refl); exact B0).
  rewrite (app_assoc P0 (flat_map wire k0)).
  rewrite (nat_part_kids _ 1 4 (P0 ++ flat_map wire k0) k1 _ _) by (apply (opt_raw_case 4 _ 0 eq_refl); exact B1).
  rewrite (app_assoc (P0 ++ flat_map wire k0) (flat_map wire k1)).
  rewrite (nat_part_kids _ 2 16 _ k2 _ _) by (apply (opt_raw_case 16 _ 0 eq_refl); exact B2).
  rewrite (app_assoc _ (flat_map wire k2)).
  rewrite (nat_part_kids _ 3 16 _ k3 _ _) by (apply (opt_raw_case 16 _ 0 eq_refl); exact B3).
  rewrite (app_assoc _ (flat_map wire k3)).
  rewrite (nat_part_kids _ 4 2 _ k4 _ _) by (apply opt_rawN_case; exact B4).
  rewrite (app_assoc _ (flat_map wire k4)).
  rewrite (nat_part_kids _ 5 2 _ k5 _ _) by (apply opt_rawN_case; exact B5).
  cbn [bind app]. unfold nx, nat_kids. fold k0 k1 k2 k3 k4 k5. cbn [app]. rewrite <- Hp, <- !app_assoc. reflexivity.
Qed.
