(* C04 for all switch-side values: the parser returns what a conforming switch wrote. *)
From Coq Require Import NArith ZArith Arith List Bool Lia ZifyN ZifyBool ZifyNat.
From Coq.Strings Require Import Byte.
From LOF Require Import Base.Bytes Base.Res Model.Wire Model.Build Model.BuildSw Model.Proto Model.Parse Spec.Walk
  Proofs.WireP Proofs.BuildP Proofs.NormP Proofs.WalkP Proofs.WalkAllP Proofs.WalkMsgP Proofs.SegP
  Proofs.ParseRtAllP Proofs.ParseRtAll2P Proofs.ParseRtAll3P Proofs.ParseRtAll4P Proofs.ParseRtAll5P Proofs.ParseRtAll6P.
Import ListNotations.
Open Scope N_scope.
Ltac Zify.zify_post_hook ::= Z.div_mod_to_equations.
Local Notation blen := Proto.blen.

Lemma sw_header_only pi ty xid : (ty = 2 \/ ty = 3 \/ ty = 21) -> xid < 4294967296 ->
  parse_body pi (wire (sw_tree xid (SHeaderOnly ty))) = Ok (sw_view xid (SHeaderOnly ty)).
Proof.
  intros Hty Hx. unfold sw_view, sw_tree. cbn [sw_raw].
  replace (norm (T KHeaderOnly (hdr ty xid) [])) with (T KHeaderOnly (hdr ty xid) []) by reflexivity.
  assert (Hw : wire (T KHeaderOnly (hdr ty xid) []) = msgbytes ty 8 xid []).
  { unfold hdr. replace [VN 4; VN ty; VN 8; VN xid] with ([VN 4; VN ty; VN 8; VN xid] ++ []) by apply app_nil_r.
    rewrite (wire_msg KHeaderOnly ty 8 xid [] [] [] eq_refl eq_refl). reflexivity. }
  rewrite Hw. destruct (msg_header_reads ty 8 xid [] ltac:(lia) ltac:(lia) Hx) as (H1 & H2 & H3 & H4).
  unfold parse_body. rewrite H1. cbn [bind].
  replace (ty =? 0) with false by lia. replace (ty =? 1) with false by lia.
  replace ((ty =? 2) || (ty =? 3) || (ty =? 5) || (ty =? 7) || (ty =? 20) || (ty =? 21)) with true by lia.
  rewrite H2. reflexivity.
Qed.

Lemma sw_getconfig pi f ms xid : f < 65536 -> ms < 65536 -> xid < 4294967296 ->
  parse_body pi (wire (sw_tree xid (SGetConfigReply f ms))) = Ok (sw_view xid (SGetConfigReply f ms)).
Proof.
  intros Hf Hm Hx. unfold sw_view, sw_tree. cbn [sw_raw].
  assert (Hv : vals_ok [FU 2; FU 2] [VN f; VN ms] = true).
  { cbn [vals_ok]. change (256 ^ N.of_nat 2) with 65536. replace (f <? 65536) with true by lia. replace (ms <? 65536) with true by lia. reflexivity. }
  destruct (sdec_simple_msg KSwitchConfig 8 xid [FU 2; FU 2] [VN f; VN ms] eq_refl eq_refl eq_refl eq_refl eq_refl eq_refl Hv
              ltac:(lia) Hx 12 eq_refl ltac:(lia)) as (Hn & Hw & Hb & Hs).
  rewrite Hn, Hw. pb_start 8 12 xid (enc_fields [FU 2; FU 2] [VN f; VN ms]).
  unfold msgbytes. cbn [enc_fields]. seg. reflexivity.
Qed.

Lemma sw_error pi ty c data xid : ty < 65535 -> c < 65536 -> N.of_nat (length data) < 65000 -> xid < 4294967296 ->
  parse_body pi (wire (sw_tree xid (SError ty c data))) = Ok (sw_view xid (SError ty c data)).
Proof.
  intros Ht Hc Hd Hx. unfold sw_view, sw_tree. cbn [sw_raw]. set (L := 12 + N.of_nat (length data)).
  replace (norm (T KError ([VN 4; VN 1; VN L; VN xid] ++ [VN ty; VN c; VB data]) []))
    with (T KError ([VN 4; VN 1; VN L; VN xid] ++ [VN ty; VN c; VB data]) []) by reflexivity.
  rewrite (wire_msg KError 1 L xid [FU 2; FU 2; FV] [VN ty; VN c; VB data] [] eq_refl eq_refl).
  cbn [enc_fields flat_map]. rewrite !app_nil_r.
  pb_start 1 L xid (be_bytes 2 ty ++ be_bytes 2 c ++ data).
  unfold msgbytes. rewrite <- ?app_assoc. seg. replace (ty =? 65535) with false by lia. 
  seg.
  (* the data: everything from offset 12 *)
  assert (Hf : forall X, from X 0 = Ok X) by apply from_zero.
  reflexivity.
Qed.

Lemma sw_vendor_error pi c e data xid : c < 65536 -> e < 4294967296 -> N.of_nat (length data) < 65000 -> xid < 4294967296 ->
  parse_body pi (wire (sw_tree xid (SVendorError c e data))) = Ok (sw_view xid (SVendorError c e data)).
Proof.
  intros Hc He Hd Hx. unfold sw_view, sw_tree. cbn [sw_raw]. set (L := 16 + N.of_nat (length data)).
  replace (norm (T KVendorError ([VN 4; VN 1; VN L; VN xid] ++ [VN 65535; VN c; VN e; VB data]) []))
    with (T KVendorError ([VN 4; VN 1; VN L; VN xid] ++ [VN 65535; VN c; VN e; VB data]) []) by reflexivity.
  rewrite (wire_msg KVendorError 1 L xid [FU 2; FU 2; FU 4; FV] [VN 65535; VN c; VN e; VB data] [] eq_refl eq_refl).
  cbn [enc_fields flat_map]. rewrite !app_nil_r.
  destruct (msg_header_reads 1 L xid (be_bytes 2 65535 ++ be_bytes 2 c ++ be_bytes 4 e ++ data) ltac:(lia) ltac:(lia) ltac:(lia)) as (H1 & H2 & H3 & H4).
  unfold parse_body. rewrite H1. cbn [bind N.eqb Pos.eqb orb]. rewrite H3. cbn [bind].
  assert (Hr : uat 2 (msgbytes 1 L xid (be_bytes 2 65535 ++ be_bytes 2 c ++ be_bytes 4 e ++ data)) 8 = Ok 65535 /\
               uat 2 (msgbytes 1 L xid (be_bytes 2 65535 ++ be_bytes 2 c ++ be_bytes 4 e ++ data)) 10 = Ok c /\
               uat 4 (msgbytes 1 L xid (be_bytes 2 65535 ++ be_bytes 2 c ++ be_bytes 4 e ++ data)) 12 = Ok e /\
               from (msgbytes 1 L xid (be_bytes 2 65535 ++ be_bytes 2 c ++ be_bytes 4 e ++ data)) 16 = Ok data).
  { unfold msgbytes. rewrite <- ?app_assoc. repeat split; seg; reflexivity. }
  destruct Hr as (R1 & R2 & R3 & R4). rewrite R1, R2. cbn [bind N.eqb Pos.eqb]. rewrite H2, R3, R4. cbn [bind]. reflexivity.
Qed.

(* ports *)
Definition port_ok (p : portrec) : bool :=
  (p_no p <? 4294967296) && Nat.eqb (length (p_hw p)) 6 && Nat.eqb (length (p_name p)) 16 &&
  (p_config p <? 4294967296) && (p_state p <? 4294967296) && (p_curr p <? 4294967296) && (p_adv p <? 4294967296) &&
  (p_supp p <? 4294967296) && (p_peer p <? 4294967296) && (p_cspeed p <? 4294967296) && (p_mspeed p <? 4294967296).

Lemma fit_exact k (b : list byte) : length b = k -> fit k b = b.
Proof. intros H. unfold fit. apply firstn_app_exact. symmetry. exact H. Qed.

Lemma wire_port p : port_ok p = true ->
  wire (port_tree p) = be_bytes 4 (p_no p) ++ zeros 4 ++ p_hw p ++ zeros 2 ++ p_name p ++ be_bytes 4 (p_config p) ++ be_bytes 4 (p_state p) ++
    be_bytes 4 (p_curr p) ++ be_bytes 4 (p_adv p) ++ be_bytes 4 (p_supp p) ++ be_bytes 4 (p_peer p) ++ be_bytes 4 (p_cspeed p) ++ be_bytes 4 (p_mspeed p) /\
  blen (p_hw p) = 6 /\ blen (p_name p) = 16 /\ blen (wire (port_tree p)) = 64.
Proof.
  intros H. unfold port_ok in H. repeat (apply andb_true_iff in H as [H ?]).
  match goal with Hh : Nat.eqb (length (p_hw p)) 6 = true |- _ => apply Nat.eqb_eq in Hh; rename Hh into Hhw end.
  match goal with Hh : Nat.eqb (length (p_name p)) 16 = true |- _ => apply Nat.eqb_eq in Hh; rename Hh into Hnm end.
  assert (Hw : wire (port_tree p) = be_bytes 4 (p_no p) ++ zeros 4 ++ p_hw p ++ zeros 2 ++ p_name p ++ be_bytes 4 (p_config p) ++ be_bytes 4 (p_state p) ++
    be_bytes 4 (p_curr p) ++ be_bytes 4 (p_adv p) ++ be_bytes 4 (p_supp p) ++ be_bytes 4 (p_peer p) ++ be_bytes 4 (p_cspeed p) ++ be_bytes 4 (p_mspeed p)).
  { unfold port_tree. cbn [wire layout enc_fields align8 flat_map]. rewrite (fit_exact 6 _ Hhw), (fit_exact 16 _ Hnm). rewrite !app_nil_r, <- ?app_assoc. reflexivity. }
  repeat split; try exact Hw; unfold Proto.blen; try lia.
  rewrite Hw, !app_length, !length_be_bytes, !length_zeros, Hhw, Hnm. reflexivity.
Qed.

Lemma dec_built_port p rest : port_ok p = true -> dec_phyport (wire (port_tree p) ++ rest) = Ok (port_tree p).
Proof.
  intros H. destruct (wire_port p H) as (Hw & Hh & Hn & _). rewrite Hw. rewrite <- !app_assoc.
  unfold port_ok in H. repeat (apply andb_true_iff in H as [H ?]).
  unfold dec_phyport. cbn [read_vals]. dec_walk. reflexivity.
Qed.

Lemma norm_port p : norm (port_tree p) = port_tree p. Proof. reflexivity. Qed.
Lemma glen_port p : glen (port_tree p) = 64. Proof. reflexivity. Qed.

Lemma sw_port_status pi r p xid : r < 256 -> port_ok p = true -> xid < 4294967296 ->
  parse_body pi (wire (sw_tree xid (SPortStatus r p))) = Ok (sw_view xid (SPortStatus r p)).
Proof.
  intros Hr Hp Hx. unfold sw_view, sw_tree. cbn [sw_raw].
  destruct (msg_form KPortStatus 12 xid [FU 1; FZ 7] [VN r] [port_tree p] eq_refl eq_refl eq_refl eq_refl eq_refl) as [Hn Hw].
  rewrite Hn, Hw. cbn [map flat_map fields_len enc_fields sumN fold_right]. rewrite norm_port, glen_port, !app_nil_r. nats. change (N.of_nat 7) with 7.
  replace (8 + (1 + (7 + 0)) + (64 + 0)) with 80 by reflexivity.
  pb_start 12 80 xid ((be_bytes 1 r ++ zeros 7) ++ wire (port_tree p)).
  unfold msgbytes. rewrite <- ?app_assoc. seg.
  pose proof (dec_built_port p [] Hp) as Hd. rewrite app_nil_r in Hd. rewrite Hd. cbn [bind]. reflexivity.
Qed.

Lemma dec_ports_built ports : forallb port_ok ports = true -> forall fuel P, (length ports < fuel)%nat ->
  dec_ports fuel (P ++ flat_map wire (map port_tree ports)) (blen P) = Ok (map port_tree ports).
Proof.
  induction ports as [|p r IH]; intros H fuel P Hf; cbn [map flat_map forallb length] in *.
  - destruct fuel; [lia|]. cbn [dec_ports]. rewrite app_nil_r. replace (blen P <=? blen P) with true by lia. reflexivity.
  - apply andb_true_iff in H as [Hp Hr]. destruct fuel as [|fuel]; [lia|]. cbn [dec_ports].
    destruct (wire_port p Hp) as (_ & _ & _ & H64).
    rewrite !blen_app, H64. replace (blen P + (64 + blen (flat_map wire (map port_tree r))) <=? blen P) with false by lia.
    rewrite (from_skip P _ (blen P) (blen P)) by (try reflexivity; lia). rewrite N.sub_diag, from_zero. cbn [bind].
    rewrite dec_built_port by exact Hp. cbn [bind].
    replace (blen P + 64) with (blen (P ++ wire (port_tree p))) by (rewrite blen_app, H64; reflexivity).
    rewrite app_assoc. rewrite IH by (try exact Hr; lia). cbn [bind]. reflexivity.
Qed.

Lemma sw_features pi dp b nt aux caps rsv ports xid : length dp = 8%nat -> b < 4294967296 -> nt < 256 -> aux < 256 -> caps < 4294967296 -> rsv < 4294967296 ->
  forallb port_ok ports = true -> N.of_nat (length ports) < 1000 -> xid < 4294967296 ->
  parse_body pi (wire (sw_tree xid (SFeatures dp b nt aux caps rsv ports))) = Ok (sw_view xid (SFeatures dp b nt aux caps rsv ports)).
Proof.
  intros Hdp Hb Hnt Haux Hcaps Hrsv Hports Hcnt Hx. unfold sw_view, sw_tree. cbn [sw_raw].
  set (vals := [VB dp; VN b; VN nt; VN aux; VN caps; VN rsv]). set (l' := [FB 8; FU 4; FU 1; FU 1; FZ 2; FU 4; FU 4]).
  destruct (msg_form KFeatures 6 xid l' vals (map port_tree ports) eq_refl eq_refl eq_refl eq_refl eq_refl) as [Hn Hw].
  rewrite Hn, Hw. clear Hn Hw.
  assert (Hnp : map norm (map port_tree ports) = map port_tree ports) by (rewrite map_map; apply map_ext; intros; apply norm_port).
  assert (Hgp : sumN (map glen (map port_tree ports)) = 64 * N.of_nat (length ports)).
  { clear. induction ports as [|p r IH]; cbn [map sumN fold_right length]; [reflexivity|]. unfold sumN in IH. rewrite IH, glen_port. lia. }
  assert (Hlp : blen (flat_map wire (map port_tree ports)) = 64 * N.of_nat (length ports)).
  { clear - Hports. induction ports as [|p r IH]; cbn [map flat_map length forallb] in *; [reflexivity|]. apply andb_true_iff in Hports as [Hp Hr].
    destruct (wire_port p Hp) as (_ & _ & _ & H64). rewrite blen_app, H64, (IH Hr). lia. }
  rewrite Hnp, Hgp. set (X := flat_map wire (map port_tree ports)) in *.
  replace (fields_len l' vals) with 24 by reflexivity. set (L := 8 + 24 + 64 * N.of_nat (length ports)).
  set (F := enc_fields l' vals).
  pb_start 6 L xid (F ++ X).
  assert (Hrd : from (msgbytes 6 L xid (F ++ X)) 8 = Ok (F ++ X) /\
                read_vals (msgbytes 6 L xid (F ++ X)) [(16, 4); (20, 1); (21, 1)] = Ok [VN b; VN nt; VN aux] /\
                read_vals (msgbytes 6 L xid (F ++ X)) [(24, 4); (28, 4)] = Ok [VN caps; VN rsv] /\
                22 <= blen (msgbytes 6 L xid (F ++ X))).
  { unfold msgbytes, F, l', vals. cbn [enc_fields]. rewrite (fit_exact 8 dp Hdp). rewrite <- ?app_assoc. cbn [read_vals app].
    assert (Hbd : blen dp = 8) by (unfold Proto.blen; lia).
    repeat split; try (seg; reflexivity). blens. nats. lia. }
  destruct Hrd as (R1 & R2 & R3 & R4). rewrite R1. cbn [bind]. rewrite R2. cbn [bind].
  unfold from at 1. replace (22 <=? blen (msgbytes 6 L xid (F ++ X))) with true by lia. cbn [bind]. rewrite R3. cbn [bind].
  replace (msgbytes 6 L xid (F ++ X)) with ((be_bytes 1 4 ++ be_bytes 1 6 ++ be_bytes 2 L ++ be_bytes 4 xid ++ F) ++ X)
    by (unfold msgbytes; rewrite <- !app_assoc; reflexivity).
  set (P := be_bytes 1 4 ++ be_bytes 1 6 ++ be_bytes 2 L ++ be_bytes 4 xid ++ F).
  assert (HP : blen P = 32). { unfold P, F, l', vals. cbn [enc_fields]. blens. nats. change (N.of_nat 8) with 8. reflexivity. }
  pose proof (dec_ports_built ports Hports (S (length (P ++ X))) P) as HH. fold X in HH. rewrite HP in HH.
  rewrite HH by (rewrite app_length; pose proof Hlp as Hq; unfold Proto.blen in Hq; lia). cbn [bind].
  unfold F, l', vals. cbn [enc_fields app]. rewrite (fit_exact 8 dp Hdp).
  assert (Hfd : fit 8 (dp ++ be_bytes 4 b ++ be_bytes 1 nt ++ be_bytes 1 aux ++ zeros 2 ++ be_bytes 4 caps ++ be_bytes 4 rsv ++ X) = dp)
    by (unfold fit; rewrite <- app_assoc; apply firstn_app_exact; lia).
  rewrite <- ?app_assoc. cbn [app]. rewrite Hfd. reflexivity.
Qed.
