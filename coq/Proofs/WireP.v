(* Facts about the wire-tree model: sizes, Len() = bytes produced for consistent values,
   idempotence of MarshalBinary's write-backs. *)
From Coq Require Import NArith ZArith List Bool Lia ZifyN ZifyBool ZifyNat.
From Coq.Strings Require Import Byte.
From LOF Require Import Base.Bytes Model.Wire.
Import ListNotations.
Open Scope N_scope.
Ltac Zify.zify_post_hook ::= Z.div_mod_to_equations.

(* ---- induction over trees with the hypothesis for all children ---- *)
Section TreeInd.
  Variable P : tree -> Prop.
  Hypothesis step : forall k vs kids, Forall P kids -> P (T k vs kids).
  Fixpoint tree_ind' (t : tree) : P t :=
    match t with
    | T k vs kids =>
      step k vs kids
        ((fix go (l : list tree) : Forall P l :=
            match l with
            | [] => Forall_nil P
            | x :: r => Forall_cons x (tree_ind' x) (go r)
            end) kids)
    end.
End TreeInd.

(* ---- own fields ---- *)
Lemma length_fit k bs : length (fit k bs) = k.
Proof. unfold fit. rewrite firstn_length, app_length, length_zeros. lia. Qed.

Lemma enc_fields_len l : forall vs, vals_shape l vs = true ->
  N.of_nat (length (enc_fields l vs)) = fields_len l vs.
Proof.
  induction l as [|f l IH]; intros vs H; cbn [enc_fields fields_len vals_shape] in *.
  - reflexivity.
  - destruct f as [w|k|k|].
    + destruct vs as [|[n|bs] vs']; try discriminate H.
      rewrite app_length, length_be_bytes, Nat2N.inj_add, IH by exact H. reflexivity.
    + rewrite app_length, length_zeros, Nat2N.inj_add, IH by exact H. reflexivity.
    + destruct vs as [|[n|bs] vs']; try discriminate H.
      rewrite app_length, length_fit, Nat2N.inj_add, IH by exact H. reflexivity.
    + destruct vs as [|[n|bs] vs']; try discriminate H.
      rewrite app_length, Nat2N.inj_add, IH by exact H. reflexivity.
Qed.

Lemma pad8_round8 n : N.of_nat (n + pad8 n) = round8 (N.of_nat n).
Proof.
  unfold pad8, round8.
  assert (H : (n <= (n + 7) / 8 * 8)%nat).
  { pose proof (Nat.div_mod (n + 7) 8 ltac:(lia)). pose proof (Nat.mod_upper_bound (n + 7) 8 ltac:(lia)). lia. }
  replace (n + ((n + 7) / 8 * 8 - n))%nat with ((n + 7) / 8 * 8)%nat by lia.
  rewrite Nat2N.inj_mul, Nat2N.inj_div, Nat2N.inj_add. reflexivity.
Qed.

Lemma round8_mult n : round8 n mod 8 = 0.
Proof. unfold round8. lia. Qed.
Lemma round8_idem n : round8 (round8 n) = round8 n.
Proof. unfold round8. lia. Qed.
Lemma round8_fix n : n mod 8 = 0 -> round8 n = n.
Proof. unfold round8. lia. Qed.
Lemma round8_ge n : n <= round8 n < n + 8.
Proof. unfold round8. lia. Qed.

Lemma length_flat_map_wire kids :
  N.of_nat (length (flat_map wire kids)) = sumN (map size kids).
Proof.
  induction kids as [|x r IH]; cbn [flat_map map sumN fold_right]; [reflexivity|].
  rewrite app_length, Nat2N.inj_add, IH. reflexivity.
Qed.

(* the unpadded extent of an element: own fields + children *)
Definition body_len (t : tree) : N :=
  match t with T k vs kids => fields_len (layout k) vs + sumN (map size kids) end.

Lemma size_unfold k vs kids : vals_shape (layout k) vs = true ->
  size (T k vs kids) = if align8 k then round8 (body_len (T k vs kids)) else body_len (T k vs kids).
Proof.
  intros Hv. unfold size, body_len. cbn [wire].
  destruct (align8 k).
  - rewrite app_length, length_zeros, pad8_round8, app_length, Nat2N.inj_add.
    rewrite enc_fields_len by exact Hv. rewrite length_flat_map_wire. reflexivity.
  - rewrite app_length, Nat2N.inj_add, enc_fields_len by exact Hv. rewrite length_flat_map_wire. reflexivity.
Qed.

(* ---- consistency: what the constructors and adders maintain ---- *)
(* own values fit the layout; a stored length (kinds whose Len() answers from it) equals
   the bytes the element occupies; a bucket's actions fill whole 8-byte words *)
Definition own_ok (t : tree) : bool :=
  match t with
  | T k vs kids =>
    vals_shape (layout k) vs &&
    match lenrule_of k with
    | LStored => N.eqb (vnum vs 1) (size t)
    | LStoredR8 => N.eqb (round8 (vnum vs 1)) (round8 (body_len t))
    | LComputed => if lenround k && negb (align8 k) then N.eqb (body_len t mod 8) 0 else true
    end
  end.

Fixpoint consistent (t : tree) : bool :=
  match t with T k vs kids => own_ok t && forallb consistent kids end.

Lemma consistent_unfold k vs kids :
  consistent (T k vs kids) = own_ok (T k vs kids) && forallb consistent kids.
Proof. reflexivity. Qed.

Lemma sum_map_ext {A} (f g : A -> N) l : Forall (fun x => f x = g x) l -> sumN (map f l) = sumN (map g l).
Proof.
  induction 1 as [|x r Hx _ IH]; cbn [map sumN fold_right]; [reflexivity|].
  unfold sumN in IH. rewrite Hx, IH. reflexivity.
Qed.

(* Len() = number of bytes MarshalBinary produces, for every consistent value *)
Theorem glen_size : forall t, consistent t = true -> glen t = size t.
Proof.
  induction t as [k vs kids IH] using tree_ind'. intros H.
  rewrite consistent_unfold in H. apply andb_true_iff in H as [Hown Hk].
  assert (Hkids : Forall (fun x => glen x = size x) kids).
  { rewrite forallb_forall in Hk. rewrite Forall_forall in IH |- *. intros x Hx. apply IH; [exact Hx|apply Hk, Hx]. }
  unfold own_ok in Hown. apply andb_true_iff in Hown as [Hv Hl].
  rewrite (size_unfold k vs kids Hv). cbn [glen].
  rewrite (sum_map_ext glen size kids Hkids).
  destruct (lenrule_of k) eqn:Er.
  - apply N.eqb_eq in Hl. rewrite Hl. apply size_unfold, Hv.
  - apply N.eqb_eq in Hl. rewrite Hl.
    assert (Ha : align8 k = true) by (destruct k; try discriminate Er; reflexivity).
    rewrite Ha. reflexivity.
  - unfold lenround. unfold lenround in Hl. fold (body_len (T k vs kids)) in *.
    destruct k; cbn [align8] in *; try reflexivity.
    (* the bucket: rounds up without padding, but its body is a multiple of 8 *)
    cbn [andb negb] in Hl. apply N.eqb_eq in Hl. apply round8_fix. exact Hl.
Qed.

(* a container's bytes are its own fields, then the complete encodings of its children
   in order, then zero padding of fewer than 8 bytes *)
Theorem wire_embeds : forall k vs kids,
  exists pad, wire (T k vs kids) = enc_fields (layout k) vs ++ flat_map wire kids ++ zeros pad /\ (pad < 8)%nat.
Proof.
  intros k vs kids. cbn [wire]. destruct (align8 k).
  - eexists. rewrite <- app_assoc. split; [reflexivity|]. unfold pad8.
    pose proof (Nat.div_mod (length (enc_fields (layout k) vs ++ flat_map wire kids) + 7) 8 ltac:(lia)).
    pose proof (Nat.mod_upper_bound (length (enc_fields (layout k) vs ++ flat_map wire kids) + 7) 8 ltac:(lia)). lia.
  - exists 0%nat. cbn [zeros repeat]. rewrite app_nil_r. split; [reflexivity|lia].
Qed.

Lemma flat_map_in_split {A B} (f : A -> list B) l1 x l2 :
  flat_map f (l1 ++ x :: l2) = flat_map f l1 ++ f x ++ flat_map f l2.
Proof. rewrite flat_map_app. cbn [flat_map]. reflexivity. Qed.

(* every child's stand-alone encoding occurs, whole, inside the parent's *)
Corollary child_intact : forall k vs l1 x l2,
  exists pre post, wire (T k vs (l1 ++ x :: l2)) = pre ++ wire x ++ post.
Proof.
  intros. destruct (wire_embeds k vs (l1 ++ x :: l2)) as [pad [H _]]. rewrite H, flat_map_in_split.
  exists (enc_fields (layout k) vs ++ flat_map wire l1), (flat_map wire l2 ++ zeros pad).
  rewrite <- !app_assoc. reflexivity.
Qed.
