(* Package protocol, second part: round trips.  For every well-formed value of the record
   kinds of Model/Proto2.v, decoding its encoding gives the value back, and the encoding has
   the size the value reports. *)
From Coq Require Import NArith ZArith List Bool Lia ZifyN ZifyBool ZifyNat.
From Coq.Strings Require Import Byte.
From LOF Require Import Base.Bytes Base.Res Model.Wire Model.Proto Model.Proto2 Proofs.WireP Proofs.ProtoP Proofs.SegP Proofs.Proto2P.
Import ListNotations.
Open Scope N_scope.
Ltac Zify.zify_post_hook ::= Z.div_mod_to_equations.

Definition len4 (b : list byte) : bool := Nat.eqb (length b) 4.
Lemma len4_blen b : len4 b = true -> blen b = 4.
Proof. unfold len4, blen. intros H. apply Nat.eqb_eq in H. lia. Qed.
Lemma ip4_id b : len4 b = true -> ip4 b = b.
Proof.
  unfold len4, ip4, to4. intros H. rewrite H. apply Nat.eqb_eq in H.
  destruct b as [|a [|b' [|c [|e [|? ?]]]]]; cbn [length] in H; try lia. reflexivity.
Qed.
Lemma map_ip4_id l : forallb len4 l = true -> map ip4 l = l.
Proof.
  induction l as [|x l IH]; cbn [forallb map]; [reflexivity|]. intros H. apply andb_true_iff in H as [H1 H2].
  rewrite ip4_id, IH by assumption. reflexivity.
Qed.
Lemma blen_concat4 l : forallb len4 l = true -> blen (List.concat l) = 4 * N.of_nat (length l).
Proof.
  induction l as [|x l IH]; cbn [forallb List.concat length]; [reflexivity|]. intros H. apply andb_true_iff in H as [H1 H2].
  rewrite blen_app, IH, (len4_blen x) by assumption. lia.
Qed.
Lemma chunks4_concat l : forall rest, forallb len4 l = true -> chunks4 (length l) (List.concat l ++ rest) = Ok l.
Proof.
  induction l as [|x l IH]; intros rest H; cbn [forallb List.concat length chunks4]; [reflexivity|].
  apply andb_true_iff in H as [H1 H2]. unfold len4 in H1. apply Nat.eqb_eq in H1.
  destruct x as [|a [|b [|c [|e [|? ?]]]]]; cbn [length] in H1; try lia.
  cbn [app]. rewrite IH by exact H2. reflexivity.
Qed.
Lemma words4_concat l : forall rest, forallb (fun w => w <? 4294967296) l = true ->
  words4 (length l) (List.concat (map (be_bytes 4) l) ++ rest) = Ok l.
Proof.
  induction l as [|x l IH]; intros rest H; cbn [forallb List.concat map length words4]; [reflexivity|].
  apply andb_true_iff in H as [H1 H2].
  change (be_bytes 4 x) with [n2b (x / 256 / 256 / 256); n2b (x / 256 / 256); n2b (x / 256); n2b x].
  cbn [app]. rewrite IH by exact H2. cbn [bind]. f_equal. f_equal.
  change [n2b (x / 256 / 256 / 256); n2b (x / 256 / 256); n2b (x / 256); n2b x] with (be_bytes 4 x).
  apply be_value_be_bytes. cbn. lia.
Qed.
Lemma blen_concat_words l : blen (List.concat (map (be_bytes 4) l)) = 4 * N.of_nat (length l).
Proof.
  induction l as [|x l IH]; cbn [List.concat map length]; [reflexivity|]. rewrite blen_app, IH, blen_be. lia.
Qed.

(* ---------------------------------------------------------------- IGMP v1 / v2 *)
Definition wf_igmp12 (p : igmp12) : bool :=
  (g_type p <? 256) && (g_mrt p <? 256) && (g_csum p <? 65536) && len4 (g_group p).
Lemma igmp12_rt p : wf_igmp12 p = true ->
  dec_igmp12 (enc_igmp12 p) = Ok p /\ blen (enc_igmp12 p) = len_igmp12 p.
Proof.
  destruct p as [ty mrt cs g]. unfold wf_igmp12, enc_igmp12, len_igmp12. cbn [g_type g_mrt g_csum g_group]. intros H.
  repeat (apply andb_true_iff in H as [H ?]). rewrite ip4_id by assumption.
  assert (Hg : blen g = 4) by (apply len4_blen; assumption).
  split; [|blens; nats; lia].
  unfold dec_igmp12. ifblen. seg. rewrite (sl_all g 4 Hg). cbn [bind]. reflexivity.
Qed.

(* ---------------------------------------------------------------- IGMPv3 query *)
Definition sqrv_small (q : N) : bool := (pack_sqrv true q <? 16) && (pack_sqrv false q <? 16).
Lemma sqrv_small_sweep : forallb sqrv_small (nrange 8) = true. Proof. vm_compute. reflexivity. Qed.
Lemma pack_sqrv_lt s q : q < 8 -> pack_sqrv s q < 16.
Proof.
  intros Hq. pose proof (sweep1_lift 8 sqrv_small sqrv_small_sweep q Hq) as H. unfold sqrv_small in H.
  apply andb_true_iff in H as [H1 H2]. destruct s; lia.
Qed.

Definition wf_igmp3q (p : igmp3q) : bool :=
  (q_type p <? 256) && (q_mrt p <? 256) && (q_csum p <? 65536) && len4 (q_group p) && (q_qrv p <? 8) && (q_qqic p <? 256)
  && N.eqb (q_ns p) (N.of_nat (length (q_srcs p))) && (q_ns p <=? 16380) && forallb len4 (q_srcs p).
Lemma igmp3q_rt p : wf_igmp3q p = true ->
  dec_igmp3q (enc_igmp3q p) = Ok p /\ blen (enc_igmp3q p) = len_igmp3q p.
Proof.
  destruct p as [ty mrt cs g s qrv qqic ns srcs]. unfold wf_igmp3q, enc_igmp3q, len_igmp3q.
  cbn [q_type q_mrt q_csum q_group q_s q_qrv q_qqic q_ns q_srcs]. intros H.
  repeat (apply andb_true_iff in H as [H ?]).
  match goal with E : N.eqb ns _ = true |- _ => apply N.eqb_eq in E; rename E into Hns end.
  rewrite ip4_id, map_ip4_id by assumption.
  assert (Hg : blen g = 4) by (apply len4_blen; assumption).
  assert (Hs : blen (List.concat srcs) = 4 * ns) by (rewrite blen_concat4 by assumption; lia).
  pose proof (pack_sqrv_lt s qrv ltac:(lia)) as Hq.
  split; [|blens; nats; lia].
  unfold dec_igmp3q. ifblen. seg.
  match goal with |- context [if ?c then _ else _] => replace c with false by (blens; nats; lia) end.
  seg. rewrite Hns, Nat2N.id. rewrite <- (app_nil_r (List.concat srcs)), chunks4_concat by assumption. cbn [bind].
  rewrite sqrv_lanes by lia. reflexivity.
Qed.

(* ---------------------------------------------------------------- IGMPv3 group record *)
Definition wf_gr (g : igmp3gr) : bool :=
  (r_type g <? 256) && (r_aux g <? 256) && N.eqb (r_ns g) (N.of_nat (length (r_srcs g)))
  && N.eqb (r_aux g) (N.of_nat (length (r_auxd g))) && len4 (r_mcast g) && forallb len4 (r_srcs g)
  && forallb (fun w => w <? 4294967296) (r_auxd g) && (8 + 4 * r_aux g + 4 * r_ns g <? 65536).
(* with anything behind it: records are decoded in place inside a report *)
Lemma gr_rt g rest : wf_gr g = true ->
  dec_gr (enc_gr g ++ rest) = Ok g /\ blen (enc_gr g) = size_gr g /\ len_gr g = size_gr g.
Proof.
  destruct g as [ty aux ns mc srcs auxd]. unfold wf_gr, enc_gr, len_gr, size_gr.
  cbn [r_type r_aux r_ns r_mcast r_srcs r_auxd]. intros H.
  repeat (apply andb_true_iff in H as [H ?]).
  match goal with E : N.eqb ns _ = true |- _ => apply N.eqb_eq in E; rename E into Hns end.
  match goal with E : N.eqb aux _ = true |- _ => apply N.eqb_eq in E; rename E into Haux end.
  rewrite ip4_id, map_ip4_id by assumption.
  assert (Hg : blen mc = 4) by (apply len4_blen; assumption).
  assert (Hs : blen (List.concat srcs) = 4 * ns) by (rewrite blen_concat4 by assumption; lia).
  assert (Hw : blen (List.concat (map (be_bytes 4) auxd)) = 4 * aux) by (rewrite blen_concat_words; lia).
  split; [|split; [blens; nats; lia|lia]].
  rewrite <- !app_assoc.
  set (W := List.concat (map (be_bytes 4) auxd)) in *. set (S4 := List.concat srcs) in *.
  assert (Hfrom : from (be_bytes 1 ty ++ be_bytes 1 aux ++ be_bytes 2 ns ++ mc ++ S4 ++ W ++ rest) (8 + 4 * ns) = Ok (W ++ rest)).
  { rewrite (from_skip (be_bytes 1 ty) _ _ 1) by (first [apply blen_be|lia]).
    rewrite (from_skip (be_bytes 1 aux) _ _ 1) by (first [apply blen_be|lia]).
    rewrite (from_skip (be_bytes 2 ns) _ _ 2) by (first [apply blen_be|lia]).
    rewrite (from_skip mc _ _ 4) by (first [assumption|lia]).
    rewrite (from_skip S4 _ _ (4 * ns)) by (first [assumption|lia]).
    replace (8 + 4 * ns - 1 - 1 - 2 - 4 - 4 * ns) with 0 by lia. apply from_zero. }
  unfold dec_gr. ifblen. seg.
  match goal with |- context [if ?c then _ else _] => replace c with false by (blens; nats; lia) end.
  rewrite Hfrom. seg. rewrite Hns at 1. rewrite Nat2N.id. unfold S4. rewrite chunks4_concat by assumption. cbn [bind].
  rewrite Haux at 1. rewrite Nat2N.id. unfold W. rewrite words4_concat by assumption. cbn [bind]. reflexivity.
Qed.

(* ---------------------------------------------------------------- IGMPv3 membership report *)
Definition sizes (recs : list igmp3gr) : N := fold_right (fun g a => size_gr g + a) 0 recs.
Definition wf_report (p : igmp3r) : bool :=
  (p_type p <? 256) && (p_csum p <? 65536) && N.eqb (p_ng p) (N.of_nat (length (p_recs p)))
  && forallb wf_gr (p_recs p) && (8 + sizes (p_recs p) <? 65536).

Lemma blen_recs recs : forallb wf_gr recs = true -> blen (List.concat (map enc_gr recs)) = sizes recs.
Proof.
  induction recs as [|g recs IH]; cbn [forallb map List.concat sizes fold_right]; [reflexivity|]. intros H.
  apply andb_true_iff in H as [H1 H2]. destruct (gr_rt g [] H1) as [_ [Hb _]].
  rewrite blen_app, Hb, IH by exact H2. reflexivity.
Qed.
Lemma size_gr_ge g : 8 <= size_gr g. Proof. unfold size_gr. lia. Qed.
Lemma sizes_ge recs : 8 * N.of_nat (length recs) <= sizes recs.
Proof.
  induction recs as [|g recs IH]; cbn [length sizes fold_right]; [lia|]. pose proof (size_gr_ge g). fold (sizes recs). lia.
Qed.

Lemma dec_recs_rt recs : forall fuel rest, forallb wf_gr recs = true -> (length recs < fuel)%nat ->
  dec_recs fuel (N.of_nat (length recs)) (List.concat (map enc_gr recs) ++ rest) = Ok recs.
Proof.
  induction recs as [|g recs IH]; intros fuel rest H Hf; (destruct fuel as [|f]; [cbn [length] in Hf; lia|]).
  - reflexivity.
  - cbn [forallb] in H. apply andb_true_iff in H as [H1 H2]. cbn [length] in *.
    cbn [dec_recs map List.concat]. replace (N.of_nat (S (length recs)) =? 0) with false by lia.
    rewrite <- app_assoc. destruct (gr_rt g (List.concat (map enc_gr recs) ++ rest) H1) as [Hd [Hb _]].
    rewrite Hd. cbn [bind]. rewrite (from_skip (enc_gr g) _ _ (size_gr g)) by (first [exact Hb|lia]).
    rewrite N.sub_diag, from_zero. cbn [bind].
    replace (N.of_nat (S (length recs)) - 1) with (N.of_nat (length recs)) by lia.
    rewrite IH by (first [exact H2|lia]). reflexivity.
Qed.

Lemma len_report_acc recs : forall a, forallb wf_gr recs = true -> a + sizes recs < 65536 ->
  fold_left (fun a r => (a + len_gr r) mod 65536) recs a = a + sizes recs.
Proof.
  induction recs as [|g recs IH]; intros a H Hs; cbn [fold_left sizes fold_right forallb] in *; [lia|].
  apply andb_true_iff in H as [H1 H2]. destruct (gr_rt g [] H1) as [_ [_ Hl]]. fold (sizes recs) in *.
  pose proof (size_gr_ge g). rewrite Hl. rewrite N.mod_small by lia. rewrite IH by (first [exact H2|lia]). lia.
Qed.

Lemma report_rt p : wf_report p = true ->
  dec_report (enc_report p) = Ok p /\ blen (enc_report p) = len_report p.
Proof.
  destruct p as [ty cs ng recs]. unfold wf_report, enc_report, len_report. cbn [p_type p_csum p_ng p_recs]. intros H.
  repeat (apply andb_true_iff in H as [H ?]).
  match goal with E : N.eqb ng _ = true |- _ => apply N.eqb_eq in E; rename E into Hng end.
  assert (Hr : blen (List.concat (map enc_gr recs)) = sizes recs) by (apply blen_recs; assumption).
  split.
  - pose proof (sizes_ge recs) as Hge. unfold dec_report. ifblen. seg. set (R := List.concat (map enc_gr recs)) in *.
    rewrite Hng. rewrite <- (app_nil_r R) at 2. unfold R. rewrite dec_recs_rt; [reflexivity|assumption|].
    fold R. unfold blen in Hr. lia.
  - rewrite len_report_acc by (first [assumption|lia]). blens. rewrite Hr. nats. lia.
Qed.

(* ---------------------------------------------------------------- DHCP *)
Definition wf_opt (o : dopt) : bool :=
  let '(t, v) := o in (N.eqb t 0 && match v with [] => true | _ => false end) || ((0 <? t) && (t <? 255) && (blen v <=? 253)).
Definition raw_opt (o : dopt) : list byte :=
  let '(t, v) := o in if N.eqb t 0 then be_bytes 1 0 else be_bytes 1 t ++ be_bytes 1 (blen v) ++ v.
Definition opts_size (os : list dopt) : N := fold_right (fun o a => blen (raw_opt o) + a) 0 os.
Definition wf_dhcp (p : dhcp) : bool :=
  (d_op p <? 256) && (d_ht p <? 256) && (d_hl p <? 256) && (d_hops p <? 256) && (d_xid p <? 4294967296)
  && (d_secs p <? 65536) && (d_flags p <? 65536) && len4 (d_ci p) && len4 (d_yi p) && len4 (d_si p) && len4 (d_gi p)
  && N.eqb (blen (d_ch p)) (d_hl p) && (d_hl p <=? 16) && N.eqb (blen (d_sname p)) 64 && N.eqb (blen (d_file p)) 128
  && forallb wf_opt (d_opts p) && (241 + opts_size (d_opts p) <? 65536).

Lemma wf_opt_cases t v : wf_opt (t, v) = true -> (t = 0 /\ v = []) \/ (0 < t < 255 /\ blen v <= 253).
Proof.
  unfold wf_opt. intros H. apply orb_true_iff in H as [H|H].
  - apply andb_true_iff in H as [H1 H2]. apply N.eqb_eq in H1. destruct v; [left; auto|discriminate].
  - right. lia.
Qed.

Lemma enc_opts_wf os : forallb wf_opt os = true ->
  enc_opts os = Ok (List.concat (map raw_opt os)) /\ has_end os = false.
Proof.
  induction os as [|[t v] os IH]; cbn [forallb enc_opts map List.concat has_end existsb]; [split; reflexivity|]. intros H.
  apply andb_true_iff in H as [H1 H2]. destruct (IH H2) as [He Hn]. fold (has_end os). rewrite He, Hn.
  destruct (wf_opt_cases t v H1) as [[-> ->]|[Ht Hv]].
  - cbn. split; reflexivity.
  - unfold enc_opt, raw_opt. cbn [fst]. replace (t =? 0) with false by lia. replace (t =? 255) with false by lia.
    cbn [orb]. replace (253 <? blen v) with false by lia. cbn [bind]. split; reflexivity.
Qed.

Lemma b2n_be1 t : t < 256 -> forall r, be_bytes 1 t ++ r = n2b t :: r.
Proof. intros _ r. reflexivity. Qed.

Lemma parse_opts_rt os : forall fuel rest, forallb wf_opt os = true ->
  (length (List.concat (map raw_opt os)) < fuel)%nat ->
  parse_opts fuel (List.concat (map raw_opt os) ++ be_bytes 1 255 ++ rest) = Ok os.
Proof.
  induction os as [|[t v] os IH]; intros fuel rest H Hf; (destruct fuel as [|f]; [lia|]).
  - cbn [map List.concat app parse_opts be_bytes]. rewrite b2n_n2b_small by lia. reflexivity.
  - cbn [forallb] in H. apply andb_true_iff in H as [H1 H2]. cbn [map List.concat] in *. rewrite app_length in Hf.
    destruct (wf_opt_cases t v H1) as [[-> ->]|[Ht Hv]].
    + change (raw_opt (0, [])) with [x00] in *. cbn [length] in Hf. cbn [app parse_opts].
      change (b2n x00) with 0. cbn [N.eqb]. rewrite IH by (first [exact H2|lia]). reflexivity.
    + assert (Hraw : raw_opt (t, v) = be_bytes 1 t ++ be_bytes 1 (blen v) ++ v).
      { unfold raw_opt. replace (t =? 0) with false by lia. reflexivity. }
      rewrite Hraw in *. rewrite <- !app_assoc. rewrite !app_length, !length_be_bytes in Hf.
      set (R := List.concat (map raw_opt os) ++ be_bytes 1 255 ++ rest).
      rewrite (b2n_be1 t ltac:(lia)), (b2n_be1 (blen v) ltac:(lia)). cbn [parse_opts]. rewrite !b2n_n2b_small by lia.
      replace (t =? 0) with false by lia. replace (t =? 255) with false by lia.
      replace (blen (v ++ R) <? blen v) with false by (rewrite blen_app; lia).
      rewrite (sl_here v R (blen v) eq_refl). cbn [bind].
      rewrite (from_skip v R (blen v) (blen v) eq_refl) by lia. rewrite N.sub_diag, from_zero. cbn [bind].
      unfold R. rewrite IH by (first [exact H2|lia]). reflexivity.
Qed.

Lemma fit_id k b : length b = k -> fit k b = b.
Proof. intros H. unfold fit. rewrite firstn_app, H, Nat.sub_diag. cbn [firstn]. rewrite app_nil_r. apply firstn_all2. lia. Qed.
Lemma sl_fit k b n : blen b = n -> (length b <= k)%nat -> sl (fit k b) 0 n = Ok b.
Proof.
  intros Hb Hk. unfold sl. rewrite blen_fit. replace ((0 <=? n) && (n <=? N.of_nat k)) with true by (unfold blen in Hb; lia).
  cbn [N.to_nat skipn]. f_equal. unfold fit. rewrite firstn_firstn. unfold blen in Hb.
  replace (Nat.min (N.to_nat (n - 0)) k) with (length b) by lia. rewrite firstn_app, Nat.sub_diag. cbn [firstn].
  rewrite app_nil_r. apply firstn_all2. lia.
Qed.
Lemma blen_opts os : blen (List.concat (map raw_opt os)) = opts_size os.
Proof. induction os as [|o os IH]; cbn [map List.concat opts_size fold_right]; [reflexivity|]. rewrite blen_app, IH. reflexivity. Qed.
Lemma len_opt_raw o : wf_opt o = true -> len_opt o = blen (raw_opt o).
Proof.
  destruct o as [t v]. intros H. destruct (wf_opt_cases t v H) as [[-> ->]|[Ht Hv]]; [reflexivity|].
  unfold len_opt, raw_opt. cbn [fst snd]. replace (t =? 0) with false by lia. replace (t =? 255) with false by lia.
  cbn [orb]. blens. nats. lia.
Qed.
Lemma len_dhcp_acc os : forall a, forallb wf_opt os = true -> a + opts_size os < 65536 ->
  fold_left (fun a o => (a + len_opt o) mod 65536) os a = a + opts_size os.
Proof.
  induction os as [|o os IH]; intros a H Hs; cbn [fold_left opts_size fold_right forallb] in *; [lia|].
  apply andb_true_iff in H as [H1 H2]. fold (opts_size os) in *. rewrite (len_opt_raw o H1).
  rewrite N.mod_small by lia. rewrite IH by (first [exact H2|lia]). lia.
Qed.

Lemma dhcp_rt p : wf_dhcp p = true ->
  exists b, enc_dhcp p = Ok b /\ dec_dhcp b = Ok p /\ blen b = len_dhcp p.
Proof.
  destruct p as [op ht hl hops xid secs flags ci yi si gi ch sname file opts]. unfold wf_dhcp, enc_dhcp, len_dhcp.
  cbn [d_op d_ht d_hl d_hops d_xid d_secs d_flags d_ci d_yi d_si d_gi d_ch d_sname d_file d_opts]. intros H.
  repeat (apply andb_true_iff in H as [H ?]).
  repeat match goal with E : N.eqb _ _ = true |- _ => apply N.eqb_eq in E end.
  repeat match goal with E : len4 _ = true |- _ => apply len4_blen in E end.
  match goal with E : forallb wf_opt opts = true |- _ => rename E into Ho end.
  destruct (enc_opts_wf opts Ho) as [He Hn]. rewrite He, Hn. cbn [bind].
  eexists. split; [reflexivity|].
  assert (Hsn : fit 64 sname = sname) by (apply fit_id; unfold blen in *; lia).
  assert (Hfl : fit 128 file = file) by (apply fit_id; unfold blen in *; lia).
  rewrite Hsn, Hfl. pose proof (blen_opts opts) as Hos.
  set (O := List.concat (map raw_opt opts)) in *.
  split.
  - unfold dec_dhcp, dhcp_magic. ifblen. seg.
    replace (16 <? hl) with false by lia. rewrite (sl_fit 16 ch hl) by (unfold blen in *; lia). cbn [bind]. seg.
    rewrite N.eqb_refl. cbn [negb]. seg.
    rewrite <- (app_nil_r (be_bytes 1 255)). unfold O. rewrite parse_opts_rt; [reflexivity|exact Ho|].
    rewrite app_length. lia.
  - rewrite len_dhcp_acc by (first [exact Ho|lia]). blens. nats. rewrite Hos.
    repeat match goal with E : blen ?x = _ |- context [blen ?x] => rewrite E end. rewrite N.mod_small by lia. lia.
Qed.

(* ---------------------------------------------------------------- LLDP TLVs *)
Definition wf_tlv (t : tlv) : bool :=
  (t_type t <? 128) && N.eqb (t_len t) (blen (t_data t)) && (t_len t <? 512) && (t_sub t <? 256).
Definition wf_ttl (t : ttl) : bool := (l_type t <? 128) && (l_len t <? 512) && (l_secs t <? 65536).

Lemma tl_word ty ln : ty < 128 -> ln < 512 ->
  let w := ((ty * 512) mod 65536 + ln) mod 65536 in w < 65536 /\ (w / 512) mod 256 = ty /\ N.land w 511 = ln.
Proof.
  intros Ht Hl. cbv zeta. rewrite (N.mod_small (ty * 512)) by lia. rewrite (N.mod_small (ty * 512 + ln)) by lia.
  change 511 with (N.ones 9). rewrite N.land_ones. change (2 ^ 9) with 512. repeat split; lia.
Qed.
Lemma be2_read x r : x < 65536 -> be_value (firstn 2 (be_bytes 2 x ++ r)) = x.
Proof.
  intros Hx. change (be_bytes 2 x) with [n2b (x / 256); n2b x]. cbn [app firstn].
  change [n2b (x / 256); n2b x] with (be_bytes 2 x). apply be_value_be_bytes. cbn. lia.
Qed.
Lemma skipn_exact {A} (a b : list A) n : n = length a -> skipn n (a ++ b) = b.
Proof. intros ->. rewrite skipn_app, skipn_all, Nat.sub_diag. reflexivity. Qed.
Lemma firstn_exact {A} (a b : list A) n : n = length a -> firstn n (a ++ b) = a.
Proof. intros ->. rewrite firstn_app, Nat.sub_diag, firstn_all. cbn [firstn]. apply app_nil_r. Qed.

Lemma tlv_rt t rest : wf_tlv t = true ->
  dec_tlv (enc_tlv t ++ rest) = (3 + t_len t, false, t) /\ blen (enc_tlv t) = 3 + t_len t.
Proof.
  destruct t as [ty ln sub data]. unfold wf_tlv, enc_tlv. cbn [t_type t_len t_sub t_data]. intros H.
  repeat (apply andb_true_iff in H as [H ?]).
  match goal with E : N.eqb ln _ = true |- _ => apply N.eqb_eq in E; rename E into Hln end.
  destruct (tl_word ty ln ltac:(lia) ltac:(lia)) as [Hw [Hty Hl]]. set (w := ((ty * 512) mod 65536 + ln) mod 65536) in *.
  split; [|blens; nats; lia].
  unfold dec_tlv. rewrite <- !app_assoc.
  replace (blen (be_bytes 2 w ++ be_bytes 1 sub ++ data ++ rest) <? 2) with false by (blens; nats; lia).
  replace (blen (be_bytes 2 w ++ be_bytes 1 sub ++ data ++ rest) <? 3) with false by (blens; nats; lia).
  rewrite be2_read by exact Hw. rewrite Hty, Hl.
  replace (blen (be_bytes 2 w ++ be_bytes 1 sub ++ data ++ rest) - 3 <? ln) with false by (blens; nats; lia).
  change (be_bytes 2 w) with [n2b (w / 256); n2b w]. change (be_bytes 1 sub) with [n2b sub]. cbn [app nth skipn].
  rewrite b2n_n2b_small by lia. rewrite firstn_exact by (unfold blen in Hln; lia). reflexivity.
Qed.

Lemma ttl_rt t rest : wf_ttl t = true ->
  dec_ttl (enc_ttl t ++ rest) = (4, false, t) /\ blen (enc_ttl t) = 4.
Proof.
  destruct t as [ty ln secs]. unfold wf_ttl, enc_ttl. cbn [l_type l_len l_secs]. intros H.
  repeat (apply andb_true_iff in H as [H ?]).
  destruct (tl_word ty ln ltac:(lia) ltac:(lia)) as [Hw [Hty Hl]]. set (w := ((ty * 512) mod 65536 + ln) mod 65536) in *.
  split; [|blens; nats; lia].
  unfold dec_ttl. rewrite <- !app_assoc.
  replace (blen (be_bytes 2 w ++ be_bytes 2 secs ++ rest) <? 2) with false by (blens; nats; lia).
  replace (blen (be_bytes 2 w ++ be_bytes 2 secs ++ rest) <? 4) with false by (blens; nats; lia).
  rewrite be2_read by exact Hw. rewrite Hty, Hl.
  change (be_bytes 2 w) with [n2b (w / 256); n2b w]. cbn [app skipn]. rewrite be2_read by lia. reflexivity.
Qed.

Definition wf_lldp (p : lldp) : bool := wf_tlv (ll_ch p) && wf_tlv (ll_pt p) && wf_ttl (ll_ttl p).
Lemma lldp_rt p : wf_lldp p = true ->
  dec_lldp (enc_lldp p) = (blen (enc_lldp p), false, p) /\ blen (enc_lldp p) = len_lldp p.
Proof.
  destruct p as [ch pt tv]. unfold wf_lldp, enc_lldp, len_lldp. cbn [ll_ch ll_pt ll_ttl]. intros H.
  apply andb_true_iff in H as [H H3]. apply andb_true_iff in H as [H1 H2].
  destruct (tlv_rt ch (enc_tlv pt ++ enc_ttl tv) H1) as [D1 B1]. destruct (tlv_rt pt (enc_ttl tv) H2) as [D2 B2].
  destruct (ttl_rt tv [] H3) as [D3 B3]. rewrite app_nil_r in D3.
  assert (Hc : t_len ch = blen (t_data ch)).
  { unfold wf_tlv in H1. repeat (apply andb_true_iff in H1 as [H1 ?]). match goal with E : N.eqb _ _ = true |- _ => apply N.eqb_eq in E; exact E end. }
  assert (Hp : t_len pt = blen (t_data pt)).
  { unfold wf_tlv in H2. repeat (apply andb_true_iff in H2 as [H2 ?]). match goal with E : N.eqb _ _ = true |- _ => apply N.eqb_eq in E; exact E end. }
  assert (L1 : t_len ch < 512) by (unfold wf_tlv in H1; lia). assert (L2 : t_len pt < 512) by (unfold wf_tlv in H2; lia).
  split; [|blens; rewrite B1, B2, B3, <- Hc, <- Hp; rewrite N.mod_small by lia; lia].
  unfold dec_lldp. rewrite D1. replace (3 + t_len ch =? 0) with false by lia.
  rewrite skipn_exact by (unfold blen in B1; lia). rewrite D2. replace (3 + t_len pt =? 0) with false by lia.
  rewrite app_assoc. rewrite skipn_exact by (rewrite app_length; unfold blen in B1, B2; lia). rewrite D3.
  cbn [N.eqb]. rewrite <- app_assoc. blens. rewrite B1, B2, B3. f_equal. f_equal. lia.
Qed.

(* ---------------------------------------------------------------- 802.1Q tag, IPv6 option *)
Definition wf_vlan (v : vlan) : bool := (v_tpid v <? 65536) && (v_pcp v <? 8) && (v_dei v <? 2) && (v_vid v <? 4096).
Lemma pack_tci_lt p d v : pack_tci p d v < 65536.
Proof. unfold pack_tci. apply N.mod_lt. discriminate. Qed.
Lemma vlan_rt v : wf_vlan v = true -> dec_vlan (enc_vlan v) = Ok v /\ blen (enc_vlan v) = 4.
Proof.
  destruct v as [tp p d vid]. unfold wf_vlan, enc_vlan. cbn [v_tpid v_pcp v_dei v_vid]. intros H.
  repeat (apply andb_true_iff in H as [H ?]). split; [|blens; nats; lia].
  pose proof (pack_tci_lt p d vid). unfold dec_vlan. ifblen. seg. rewrite tci_lanes by lia. reflexivity.
Qed.

Definition wf_v6opt (o : v6opt) : bool := (o_type o <? 256) && N.eqb (o_len o) (blen (o_data o)) && (o_len o <? 256).
Lemma v6opt_rt o rest : wf_v6opt o = true ->
  dec_v6opt (enc_v6opt o ++ rest) = Ok o /\ blen (enc_v6opt o) = len_v6opt o.
Proof.
  destruct o as [ty ln data]. unfold wf_v6opt, enc_v6opt, len_v6opt. cbn [o_type o_len o_data]. intros H.
  repeat (apply andb_true_iff in H as [H ?]).
  match goal with E : N.eqb ln _ = true |- _ => apply N.eqb_eq in E; rename E into Hln end.
  rewrite fit_id by (unfold blen in Hln; lia). split; [|blens; nats; lia].
  unfold dec_v6opt. rewrite <- !app_assoc. ifblen. seg.
  match goal with |- context [if ?c then _ else _] => replace c with false by (blens; nats; lia) end.
  rewrite (sl_skip (be_bytes 1 ty) _ 2 (2 + ln) 1) by (first [apply blen_be|lia]).
  rewrite (sl_skip (be_bytes 1 ln) _ (2 - 1) (2 + ln - 1) 1) by (first [apply blen_be|lia]).
  replace (2 - 1 - 1) with 0 by lia. replace (2 + ln - 1 - 1) with ln by lia. rewrite (sl_here data rest ln) by lia.
  reflexivity.
Qed.

(* ---------------------------------------------------------------- the hypotheses are satisfiable *)
Definition ex_gr : igmp3gr :=
  {| r_type := 4; r_aux := 1; r_ns := 2; r_mcast := [xe0; x00; x00; x16]; r_srcs := [[x0a; x00; x00; x01]; [x0a; x00; x00; x02]]; r_auxd := [305419896] |}.
Definition ex_report : igmp3r := {| p_type := 34; p_csum := 4660; p_ng := 2; p_recs := [ex_gr; ex_gr] |}.
Definition ex_query : igmp3q :=
  {| q_type := 17; q_mrt := 100; q_csum := 1; q_group := [xe0; x00; x00; x01]; q_s := true; q_qrv := 7; q_qqic := 125; q_ns := 1;
     q_srcs := [[xc0; xa8; x00; x01]] |}.
Definition ex_dhcp : dhcp :=
  {| d_op := 1; d_ht := 1; d_hl := 6; d_hops := 0; d_xid := 3735928559; d_secs := 3; d_flags := 32768;
     d_ci := zeros 4; d_yi := zeros 4; d_si := zeros 4; d_gi := zeros 4; d_ch := [x02; x00; x00; x00; x00; x01];
     d_sname := zeros 64; d_file := zeros 128;
     d_opts := [(53, [x01]); (0, []); (61, [x02; x00; x00; x00; x00; x01]); (55, [x01; x03; x06])] |}.
Definition ex_lldp : lldp :=
  {| ll_ch := {| t_type := 1; t_len := 6; t_sub := 4; t_data := [x02; x00; x00; x00; x00; x01] |};
     ll_pt := {| t_type := 2; t_len := 2; t_sub := 7; t_data := [x00; x07] |};
     ll_ttl := {| l_type := 3; l_len := 2; l_secs := 120 |} |}.
Lemma examples_wf : wf_gr ex_gr = true /\ wf_report ex_report = true /\ wf_igmp3q ex_query = true /\ wf_dhcp ex_dhcp = true /\ wf_lldp ex_lldp = true.
Proof. vm_compute. repeat split; reflexivity. Qed.
