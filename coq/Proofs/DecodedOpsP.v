(* C13 on decoded values: the value the parser returns for the encoding of any controller-side
   recipe answers every sequence of Len() / MarshalBinary() calls with the same size and the
   same bytes - the bytes it was parsed from. *)
From Coq Require Import NArith ZArith Arith List Bool Lia.
From Coq.Strings Require Import Byte.
From LOF Require Import Base.Bytes Base.Res Model.Wire Model.Build Model.Proto Model.Parse Spec.Walk
  Proofs.WireP Proofs.BuildP Proofs.NormP Proofs.WalkAllP Proofs.ParseRtAllP Proofs.ParseRtAll3P Proofs.ParseRtAll4P Proofs.ParseRtAll6P Proofs.ParseRtAll7P.
Import ListNotations.
Open Scope N_scope.

(* repeatability needs the shape of the value only *)
Theorem ops_repeatable_shaped : forall t ops, shaped t = true ->
  run_ops t ops = map (fun o => match o with OpLen => RLen (glen t) | OpMarshal => RBytes (fst (marshal t)) end) ops.
Proof.
  intros t ops Hs. destruct (norm_keeps t Hs) as [Hsn [_ Hgl]].
  unfold marshal. cbn [fst]. apply run_ops_const; try assumption; try reflexivity.
  apply norm_idem, Hs.
Qed.

Lemma forallb_shaped_map_canon kids : Forall (fun x => shaped x = true -> shaped (canon x) = true) kids ->
  forallb shaped kids = true -> forallb shaped (map canon kids) = true.
Proof.
  induction 1 as [|x r Hx _ IH]; cbn [map forallb]; [reflexivity|]. intros H. apply andb_true_iff in H as [H1 H2].
  rewrite Hx, IH by assumption. reflexivity.
Qed.
Lemma forallb_filter {A} (p q : A -> bool) l : forallb p l = true -> forallb p (filter q l) = true.
Proof.
  induction l as [|x r IH]; cbn [filter forallb]; [reflexivity|]. intros H. apply andb_true_iff in H as [H1 H2].
  destruct (q x); cbn [forallb]; [rewrite H1, IH by assumption; reflexivity|apply IH, H2].
Qed.

(* the wire view of a shaped value is shaped *)
Lemma canon_shaped : forall t, shaped t = true -> shaped (canon t) = true.
Proof.
  induction t as [k vs kids IH] using tree_ind'. intros H. cbn [shaped] in H. apply andb_true_iff in H as [Hv Hk].
  pose proof (forallb_shaped_map_canon kids IH Hk) as Hk'.
  destruct k; cbn [canon]; try (cbn [shaped]; rewrite Hv, Hk'; reflexivity).
  all: try (cbn [shaped]; rewrite Hv; cbn [andb]; apply forallb_filter, Hk').
  all: repeat match goal with |- context [match ?x with _ => _ end] => destruct x end;
       try (cbn [shaped]; rewrite Hv, Hk'; reflexivity);
       repeat match goal with v : val |- _ => destruct v end;
       cbn [shaped layout ofhdr nxhdr app vals_shape] in *; try discriminate Hv; rewrite ?Hv, ?Hk'; reflexivity.
Qed.

Lemma forallb_shaped_canon l : forallb shaped l = true -> forallb shaped (map canon l) = true.
Proof.
  induction l as [|x r IH]; cbn [map forallb]; [reflexivity|]. intros H. apply andb_true_iff in H as [H1 H2].
  rewrite canon_shaped, IH by assumption. reflexivity.
Qed.
Lemma forallb_consistent_shaped l : forallb consistent l = true -> forallb shaped l = true.
Proof.
  induction l as [|x r IH]; cbn [forallb]; [reflexivity|]. intros H. apply andb_true_iff in H as [H1 H2].
  rewrite (consistent_shaped x H1), IH by assumption. reflexivity.
Qed.
Lemma forallb_shaped_norm l : forallb shaped l = true -> forallb shaped (map norm l) = true.
Proof.
  induction l as [|x r IH]; cbn [map forallb]; [reflexivity|]. intros H. apply andb_true_iff in H as [H1 H2].
  destruct (norm_keeps x H1) as [Hs _]. rewrite Hs, IH by assumption. reflexivity.
Qed.

(* what the parser returns for a built message is shaped *)
Lemma pview_shaped : forall m xid, pmsg_ok m = true -> shaped (pview xid m) = true.
Proof.
  induction m as [| | | | | | | | | | | |id fl xin m' IH]; intros xid H; cbn [pview];
    try (apply canon_shaped; apply norm_keeps; apply consistent_shaped, build_m_ok, pmsg_ok_wf, H).
  - (* packet-out *)
    unfold packetout_view. cbn [shaped layout ofhdr app vals_shape]. rewrite forallb_app. cbn [forallb shaped raw layout vals_shape andb].
    rewrite andb_true_r. unfold nacts. apply forallb_shaped_canon, forallb_shaped_norm, forallb_consistent_shaped.
    cbn [pmsg_ok] in H. unfold ppacketout_ok in H. repeat (apply andb_true_iff in H as [H ?]).
    match goal with Hm : forallb pact_ok _ = true |- _ =>
      pose proof (forallb_imp pact_ok wf_a _ (fun x Hx => act_ok_wf x (pact_ok_act_ok x Hx)) Hm) as Hw end.
    clear - Hw. induction acts as [|a r IHa]; cbn [map forallb] in *; [reflexivity|].
    apply andb_true_iff in Hw as [H1 H2]. destruct (build_a_ok a H1) as [Hc _]. rewrite Hc, IHa by exact H2. reflexivity.
  - (* bundle-add *)
    cbn [pmsg_ok] in H. repeat (apply andb_true_iff in H as [H ?]).
    cbn [shaped layout ofhdr app vals_shape forallb]. rewrite IH by assumption. reflexivity.
Qed.

Theorem decoded_ops_repeatable : forall m xid ops, pmsg_ok m = true -> xid < 4294967296 ->
  let bytes := fst (marshal (build_m xid m)) in
  exists v, parse_top bytes = Ok v /\
            run_ops v ops = map (fun o => match o with OpLen => RLen (glen v) | OpMarshal => RBytes bytes end) ops.
Proof.
  intros m xid ops Hok Hx bytes. destruct (parse_roundtrip m xid Hok Hx) as [Hp Hr]. fold bytes in Hp, Hr.
  exists (pview xid m). split; [exact Hp|].
  rewrite (ops_repeatable_shaped _ ops (pview_shaped m xid Hok)). rewrite Hr. reflexivity.
Qed.

(* the same for the switch-side kinds whose parsed value is the written value *)
From LOF Require Import Model.BuildSw Proofs.ParseSwAll2P Proofs.ParseSwAll3P Proofs.ParseSwRtP.
Theorem sw_decoded_ops_repeatable : forall s xid ops,
  sw_ok s = true -> sw_payload_ok s -> sw_payload_shaped s -> sw_plain s = true -> xid < 4294967296 ->
  let bytes := wire (sw_tree xid s) in
  exists v, parse_top bytes = Ok v /\
            run_ops v ops = map (fun o => match o with OpLen => RLen (glen v) | OpMarshal => RBytes bytes end) ops.
Proof.
  intros s xid ops Hok Hpl Hsh Hp Hx bytes. destruct (sw_roundtrip s xid Hok Hpl Hsh Hp Hx) as [Hparse Hre]. fold bytes in Hparse, Hre.
  exists (sw_tree xid s). split; [exact Hparse|].
  assert (Hs : shaped (sw_tree xid s) = true).
  { unfold sw_tree. apply norm_keeps. apply sw_raw_shaped; assumption. }
  rewrite (ops_repeatable_shaped _ ops Hs), Hre. reflexivity.
Qed.
