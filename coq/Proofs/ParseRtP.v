(* Round trips through the parser entry point on concrete rich values (vm_compute). *)
From Coq Require Import NArith ZArith List Bool.
From Coq.Strings Require Import Byte.
From LOF Require Import Base.Bytes Base.Res Model.Wire Model.Build Model.Parse.
Import ListNotations.
Open Scope N_scope.

Definition ex_flowmod : mrec :=
  MFlowMod 1 2 3 0 4 5 6 7 8 9 10
    [MFStd 1 (AB []) (Some (AB [])); MFReg 3 7 (Some (4%Z, 9%Z)); MFStd 7 (AB [x0a; x00; x00; x01]) None; MFTunMeta 2 [x01; x02; x03] []; MFStd 42 (AB [x0a; x00; x00; x01]) None]
    [IApply [(ACT [CtCommit; CtZoneImm 5] 0 [ANat [NatSNAT; NatIP4Min [x0a; x00; x00; x01]; NatProtoMax 9]; ASetField (MFStd 3 (AN 2048) None)], false);
             (ADecTtlCntIds 3 [1; 2; 3], true); (ANote [x0a; x0b; x0c; x0d; x0e; x0f], false); (ASetQueue 7, false); (AOutput 1 128, false);
             (ALearn 1 2 3 4 5 6 7 8 [LSpec 0 16 ((0,0,false,0),0) ((1,3,false,4),0) [x01;x02]; LSpec 4 8 ((1,2,false,4),0) ((0,0,false,0),0) []], false)];
     IGoto 4; IWriteMeta 5 6].

Definition rt_examples : list tree :=
  [ build_m 99 ex_flowmod ;
    build_m 5 (MGroupMod 0 1 7 [BK 1 2 3 [AOutput 1 2; AGroup 9]; BK 0 4294967295 4294967295 [APopVlan]]) ;
    build_m 6 (MBundleAdd 77 1 8 ex_flowmod) ;
    build_m 7 (MPacketOut 1 2 [AOutput 3 4] (Some [x01; x02; x03])) ;
    build_m 8 MHello ; build_m 9 (MSetConfig 1 2) ; build_m 10 (MMultipart 1 0 (BFlow 1 2 3 4 5 [MFStd 0 (AN 7) None])) ].

Lemma rt_examples_ok : Forall (fun t => parse_top (fst (marshal t)) = Ok (snd (marshal t))) rt_examples.
Proof. repeat constructor; vm_compute; reflexivity. Qed.
