From Coq Require Import NArith List Lia Bool.
From LOF Require Import Model.CtStates.
Import ListNotations.
Open Scope N_scope.

Lemma ofs_inj f g : ct_ofs f = ct_ofs g -> f = g.
Proof. destruct f, g; simpl; intros H; try reflexivity; discriminate H. Qed.

Lemma flag_eqb_eq f g : flag_eqb f g = true <-> f = g.
Proof.
  unfold flag_eqb. rewrite N.eqb_eq. split; [apply ofs_inj|intros ->; reflexivity].
Qed.

Lemma bit_of_one k i : N.testbit (N.shiftl 1 k) i = N.eqb k i.
Proof.
  rewrite N.shiftl_1_l. apply N.pow2_bits_eqb.
Qed.

(* what one operation does to every bit of both words *)
Lemma step_data_bit s o i :
  N.testbit (ct_data (ct_step s o)) i =
  if N.eqb (ct_ofs (op_flag o)) i then op_pol o else N.testbit (ct_data s) i.
Proof.
  unfold ct_step. destruct (op_pol o); cbn [ct_set ct_unset ct_data].
  - rewrite N.lor_spec, bit_of_one. destruct (N.eqb _ _); [apply orb_true_r|apply orb_false_r].
  - rewrite N.ldiff_spec, bit_of_one. destruct (N.eqb _ _); cbn; [apply andb_false_r|apply andb_true_r].
Qed.

Lemma step_mask_bit s o i :
  N.testbit (ct_mask (ct_step s o)) i =
  if N.eqb (ct_ofs (op_flag o)) i then true else N.testbit (ct_mask s) i.
Proof.
  unfold ct_step. destruct (op_pol o); cbn [ct_set ct_unset ct_mask];
    rewrite N.lor_spec, bit_of_one; destruct (N.eqb _ _); auto using orb_true_r, orb_false_r.
Qed.

(* induction over any operation list from any state *)
Lemma run_flag ops : forall s f,
  N.testbit (ct_mask (ct_run ops s)) (ct_ofs f) =
    match last_call f ops with Some _ => true | None => N.testbit (ct_mask s) (ct_ofs f) end /\
  N.testbit (ct_data (ct_run ops s)) (ct_ofs f) =
    match last_call f ops with Some b => b | None => N.testbit (ct_data s) (ct_ofs f) end.
Proof.
  induction ops as [|o ops IH]; intros s f; cbn [ct_run fold_left last_call].
  - split; reflexivity.
  - fold (ct_run ops (ct_step s o)). destruct (IH (ct_step s o) f) as [IHm IHd].
    rewrite IHm, IHd. destruct (last_call f ops) as [b|]; [split; reflexivity|].
    rewrite step_mask_bit, step_data_bit. unfold flag_eqb.
    destruct (N.eqb (ct_ofs (op_flag o)) (ct_ofs f)); split; reflexivity.
Qed.

(* bits that are no flag's offset are never touched *)
Lemma run_other_bits ops : forall s i, 8 <= i ->
  N.testbit (ct_mask (ct_run ops s)) i = N.testbit (ct_mask s) i /\
  N.testbit (ct_data (ct_run ops s)) i = N.testbit (ct_data s) i.
Proof.
  induction ops as [|o ops IH]; intros s i Hi; cbn [ct_run fold_left].
  - split; reflexivity.
  - fold (ct_run ops (ct_step s o)). destruct (IH (ct_step s o) i Hi) as [Hm Hd].
    rewrite Hm, Hd, step_mask_bit, step_data_bit.
    assert (N.eqb (ct_ofs (op_flag o)) i = false) as ->; [|split; reflexivity].
    apply N.eqb_neq. destruct (op_flag o); cbn; lia.
Qed.

(* from a fresh builder: mask bit <-> touched, value bit = last polarity, untouched = wildcard *)
Lemma fresh_builder ops f :
  N.testbit (ct_mask (ct_run ops NewCTStates)) (ct_ofs f) =
    match last_call f ops with Some _ => true | None => false end /\
  N.testbit (ct_data (ct_run ops NewCTStates)) (ct_ofs f) =
    match last_call f ops with Some b => b | None => false end.
Proof.
  destruct (run_flag ops NewCTStates f) as [Hm Hd]. rewrite Hm, Hd.
  cbn [NewCTStates ct_mask ct_data]. rewrite N.bits_0. split; reflexivity.
Qed.

Lemma last_call_app f a b :
  last_call f (a ++ b) = match last_call f b with Some x => Some x | None => last_call f a end.
Proof.
  induction a as [|o a IH]; cbn [app last_call].
  - destruct (last_call f b); reflexivity.
  - rewrite IH. destruct (last_call f b); reflexivity.
Qed.

(* a call for one flag never affects another *)
Lemma other_flag_unaffected s o f : op_flag o <> f ->
  N.testbit (ct_mask (ct_step s o)) (ct_ofs f) = N.testbit (ct_mask s) (ct_ofs f) /\
  N.testbit (ct_data (ct_step s o)) (ct_ofs f) = N.testbit (ct_data s) (ct_ofs f).
Proof.
  intros Hne. rewrite step_mask_bit, step_data_bit.
  assert (N.eqb (ct_ofs (op_flag o)) (ct_ofs f) = false) as ->; [|split; reflexivity].
  apply N.eqb_neq. intros H. apply Hne, ofs_inj, H.
Qed.

(* state stays inside 8 bits when it starts there (so the 32-bit words never wrap) *)
Lemma run_small ops s : ct_data s < 256 -> ct_mask s < 256 ->
  ct_data (ct_run ops s) < 256 /\ ct_mask (ct_run ops s) < 256.
Proof.
  intros Hd Hm.
  assert (bound : forall x, (forall i, 8 <= i -> N.testbit x i = false) -> x < 256).
  { intros x Hx. destruct (N.eq_dec x 0) as [->|Hnz]; [lia|].
    change 256 with (2 ^ 8). apply N.log2_lt_pow2; [lia|].
    destruct (N.lt_ge_cases (N.log2 x) 8) as [Hlt|Hge]; [exact Hlt|].
    specialize (Hx (N.log2 x) Hge). rewrite N.bit_log2 in Hx by exact Hnz. discriminate Hx. }
  assert (high : forall x i, x < 256 -> 8 <= i -> N.testbit x i = false).
  { intros x i Hx Hi. destruct (N.eq_dec x 0) as [->|Hnz]; [apply N.bits_0|].
    apply N.bits_above_log2. apply N.lt_le_trans with 8; [|exact Hi].
    apply N.log2_lt_pow2; [lia|exact Hx]. }
  split; apply bound; intros i Hi; destruct (run_other_bits ops s i Hi) as [Hm' Hd'].
  - rewrite Hd'. apply high; assumption.
  - rewrite Hm'. apply high; assumption.
Qed.

Example ct_example :
  let s := ct_run [ {| op_pol := true; op_flag := FNew |} ; {| op_pol := true; op_flag := FTrk |} ;
                    {| op_pol := false; op_flag := FNew |} ] NewCTStates in
  ct_data s = 32 /\ ct_mask s = 33 /\ enc_ct_state_field s = [0;1;211;8; 0;0;0;32; 0;0;0;33].
Proof. vm_compute. repeat split. Qed.
