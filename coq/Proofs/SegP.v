(* Reading the slice primitives of Model/Proto.v on byte strings given as concatenations of
   segments of known length. *)
From Coq Require Import NArith Arith List Bool Lia ZifyN ZifyBool ZifyNat.
From Coq.Strings Require Import Byte.
From LOF Require Import Base.Bytes Base.Res Model.Wire Model.Proto Proofs.WireP.
Import ListNotations.
Open Scope N_scope.

Lemma blen_app X Y : blen (X ++ Y) = blen X + blen Y.
Proof. unfold blen. rewrite app_length. lia. Qed.
Lemma blen_be w x : blen (be_bytes w x) = N.of_nat w.
Proof. unfold blen. rewrite length_be_bytes. reflexivity. Qed.
Lemma blen_zeros k : blen (zeros k) = N.of_nat k.
Proof. unfold blen. rewrite length_zeros. reflexivity. Qed.
Lemma blen_fit k b : blen (fit k b) = N.of_nat k.
Proof. unfold blen. rewrite length_fit. reflexivity. Qed.
Lemma blen_nil : blen [] = 0. Proof. reflexivity. Qed.

Lemma skipn_app_ge {A} (X Y : list A) n : (length X <= n)%nat -> skipn n (X ++ Y) = skipn (n - length X) Y.
Proof. intros H. rewrite skipn_app. rewrite (skipn_all2 X) by exact H. reflexivity. Qed.

Lemma uat_skip w X Y a k : blen X = k -> k <= a -> uat w (X ++ Y) a = uat w Y (a - k).
Proof.
  intros Hk Ha. unfold uat. rewrite blen_app, Hk.
  replace (a - k + w <=? blen Y) with (a + w <=? k + blen Y) by lia.
  destruct (a + w <=? k + blen Y); [|reflexivity]. f_equal. f_equal. f_equal.
  unfold blen in Hk. rewrite skipn_app_ge by lia. f_equal. lia.
Qed.
Lemma uat_here w x Y : x < 256 ^ N.of_nat w -> uat (N.of_nat w) (be_bytes w x ++ Y) 0 = Ok x.
Proof.
  intros Hx. unfold uat. rewrite blen_app, blen_be. replace (0 + N.of_nat w <=? N.of_nat w + blen Y) with true by lia.
  cbn [N.to_nat skipn]. rewrite Nat2N.id. rewrite firstn_app, length_be_bytes, Nat.sub_diag, firstn_all2 by (rewrite length_be_bytes; lia).
  cbn [firstn]. rewrite app_nil_r, be_value_be_bytes by exact Hx. reflexivity.
Qed.

Lemma at_skip X Y i k : blen X = k -> k <= i -> at_ (X ++ Y) i = at_ Y (i - k).
Proof.
  intros Hk Hi. unfold at_. rewrite blen_app, Hk. replace (i - k <? blen Y) with (i <? k + blen Y) by lia.
  destruct (i <? k + blen Y); [|reflexivity]. f_equal. f_equal. unfold blen in Hk.
  rewrite app_nth2 by lia. f_equal. lia.
Qed.
Lemma at_here x Y : x < 256 -> at_ (be_bytes 1 x ++ Y) 0 = Ok x.
Proof.
  intros Hx. unfold at_. rewrite blen_app, blen_be. replace (0 <? N.of_nat 1 + blen Y) with true by lia.
  cbn [N.to_nat be_bytes app nth]. f_equal. apply b2n_n2b_small, Hx.
Qed.

Lemma from_skip X Y a k : blen X = k -> k <= a -> from (X ++ Y) a = from Y (a - k).
Proof.
  intros Hk Ha. unfold from. rewrite blen_app, Hk. replace (a - k <=? blen Y) with (a <=? k + blen Y) by lia.
  destruct (a <=? k + blen Y) eqn:E; [|reflexivity]. f_equal. unfold blen in *. rewrite skipn_app_ge by lia. f_equal. lia.
Qed.
Lemma from_zero Y : from Y 0 = Ok Y.
Proof. unfold from. replace (0 <=? blen Y) with true by lia. reflexivity. Qed.

Lemma sl_skip X Y a b k : blen X = k -> k <= a -> k <= b -> sl (X ++ Y) a b = sl Y (a - k) (b - k).
Proof.
  intros Hk Ha Hb. unfold sl. rewrite blen_app, Hk.
  replace ((a - k <=? b - k) && (b - k <=? blen Y)) with ((a <=? b) && (b <=? k + blen Y)) by lia.
  destruct ((a <=? b) && (b <=? k + blen Y)) eqn:E; [|reflexivity]. f_equal. unfold blen in *.
  rewrite skipn_app_ge by lia. f_equal; [lia|f_equal; lia].
Qed.
Lemma sl_here X Y b : blen X = b -> sl (X ++ Y) 0 b = Ok X.
Proof.
  intros Hb. unfold sl. rewrite blen_app, Hb. replace ((0 <=? b) && (b <=? b + blen Y)) with true by lia.
  cbn [N.to_nat skipn]. f_equal. unfold blen in Hb. rewrite firstn_app. replace (N.to_nat (b - 0) - length X)%nat with 0%nat by lia.
  rewrite firstn_all2 by lia. cbn. apply app_nil_r.
Qed.

Lemma sl_all X b : blen X = b -> sl X 0 b = Ok X.
Proof. intros H. pose proof (sl_here X [] b H) as Hs. rewrite app_nil_r in Hs. exact Hs. Qed.

Lemma uat_here' w w' x Y : w = N.of_nat w' -> x < 256 ^ w -> uat w (be_bytes w' x ++ Y) 0 = Ok x.
Proof. intros -> H. apply uat_here, H. Qed.

Lemma uat_here_nil w w' x : w = N.of_nat w' -> x < 256 ^ w -> uat w (be_bytes w' x) 0 = Ok x.
Proof. intros Hw Hx. rewrite <- (app_nil_r (be_bytes w' x)). apply uat_here'; assumption. Qed.

Ltac klen X :=
  match X with
  | be_bytes ?n _ => constr:(N.of_nat n)
  | zeros ?n => constr:(N.of_nat n)
  | fit ?n _ => constr:(N.of_nat n)
  | _ => match goal with H : blen X = ?k |- _ => constr:(k) end
  end.
Ltac seglen := first [apply blen_be | apply blen_zeros | apply blen_fit | eassumption | reflexivity].

(* evaluate the slice primitives at literal offsets on right-nested concatenations *)
Ltac seg_step :=
  match goal with
  | |- context [uat ?w (be_bytes ?n ?x) 0] =>
    let p := eval vm_compute in (256 ^ w) in
    rewrite (uat_here_nil w n x eq_refl) by (change (256 ^ w) with p; lia)
  | |- context [uat ?w (?X ++ ?Y) ?a] =>
    let k := klen X in let k' := eval vm_compute in k in
    let lt := eval vm_compute in (N.ltb a k') in
    match lt with
    | true => match X with be_bytes ?n ?x =>
                let p := eval vm_compute in (256 ^ w) in
                rewrite (uat_here' w n x Y eq_refl) by (change (256 ^ w) with p; lia) end
    | false => let a' := eval vm_compute in (a - k') in
               rewrite (uat_skip w X Y a k') by (first [seglen | lia]); change (a - k') with a'
    end
  | |- context [at_ (?X ++ ?Y) ?a] =>
    let k := klen X in let k' := eval vm_compute in k in
    let lt := eval vm_compute in (N.ltb a k') in
    match lt with
    | true => match X with be_bytes 1%nat ?x => rewrite (at_here x Y) by lia end
    | false => let a' := eval vm_compute in (a - k') in
               rewrite (at_skip X Y a k') by (first [seglen | lia]); change (a - k') with a'
    end
  | |- context [from (?X ++ ?Y) ?a] =>
    let k := klen X in let k' := eval vm_compute in k in
    let lt := eval vm_compute in (N.ltb a k') in
    match lt with
    | false => let a' := eval vm_compute in (a - k') in
               rewrite (from_skip X Y a k') by (first [seglen | lia]); change (a - k') with a'
    end
  | |- context [from ?Y 0] => rewrite (from_zero Y)
  | |- context [sl (?X ++ ?Y) ?a ?b] =>
    lazymatch b with N0 => idtac | N.pos _ => idtac end;
    let k := klen X in let k' := eval vm_compute in k in
    let lt := eval vm_compute in (N.ltb a k') in
    match lt with
    | false => let a' := eval vm_compute in (a - k') in let b' := eval vm_compute in (b - k') in
               rewrite (sl_skip X Y a b k') by (first [seglen | lia]); change (a - k') with a'; change (b - k') with b'
    | true => rewrite (sl_here X Y b) by seglen
    end
  end.
Ltac seg := repeat (seg_step; cbn [bind]).

(* decide a length guard on a concatenation of segments *)
Ltac blens := rewrite ?blen_app, ?blen_be, ?blen_zeros, ?blen_fit, ?blen_nil.
Ltac nats := change (N.of_nat 1) with 1; change (N.of_nat 2) with 2; change (N.of_nat 3) with 3; change (N.of_nat 4) with 4;
  change (N.of_nat 6) with 6; change (N.of_nat 8) with 8; change (N.of_nat 16) with 16.
Ltac ifblen :=
  match goal with
  | |- context [if (?e <? ?k) then _ else _] =>
    let H := fresh in
    assert (H : (e <? k) = false) by (blens; nats; lia); rewrite H; clear H
  end.
