(* Hello messages with any list of version-bitmap elements, as a controller can build them:
   consistent (sizes, framing), walked by the specification decoder to the built value (C02,
   C03), parsed back and re-encoded to the same bytes (C05). *)
From Coq Require Import NArith ZArith Arith List Bool Lia ZifyN ZifyBool ZifyNat.
From Coq.Strings Require Import Byte.
From LOF Require Import Base.Bytes Base.Res Model.Wire Model.Build Model.BuildSw Model.Proto Model.Parse Spec.Walk
  Proofs.WireP Proofs.NormP Proofs.WalkP Proofs.WalkMsgP Proofs.SegP Proofs.ParseSwHelloP Proofs.ParseSwAll3P Proofs.HelloBaseP.
Import ListNotations.
Open Scope N_scope.
Ltac Zify.zify_post_hook ::= Z.div_mod_to_equations.

Definition bitmaps_ok (es : list (list N)) : bool := hello_ok (map HBitmap es).

Lemma raw_of_bitmaps es : flat_map helem_raw (map HBitmap es) = map helem_bitmap_tree es.
Proof. induction es as [|e r IH]; cbn [map flat_map helem_raw app]; [reflexivity|]. rewrite IH. reflexivity. Qed.
Lemma view_of_bitmaps es : flat_map helem_view (map HBitmap es) = map helem_bitmap_tree es.
Proof. induction es as [|e r IH]; cbn [map flat_map helem_view app]; [reflexivity|]. rewrite IH. reflexivity. Qed.
Lemma norm_bitmaps es : map norm (map helem_bitmap_tree es) = map helem_bitmap_tree es.
Proof. induction es as [|e r IH]; cbn [map]; [reflexivity|]. rewrite IH. reflexivity. Qed.

Lemma hello_is_sw xid es : norm (hello_tree xid es) = sw_tree xid (SHello (map HBitmap es)).
Proof. unfold sw_tree, hello_tree. cbn [sw_raw]. rewrite raw_of_bitmaps. reflexivity. Qed.
Lemma hello_view_is_tree xid es : sw_view xid (SHello (map HBitmap es)) = sw_tree xid (SHello (map HBitmap es)).
Proof.
  unfold sw_view. rewrite view_of_bitmaps. rewrite <- hello_is_sw. unfold hello_tree. cbn [norm writeback].
  rewrite norm_bitmaps. reflexivity.
Qed.
(* C05: through the parser entry point and back *)
Theorem hello_roundtrip xid es : bitmaps_ok es = true -> xid < 4294967296 ->
  let bytes := fst (marshal (hello_tree xid es)) in
  parse_top bytes = Ok (snd (marshal (hello_tree xid es))) /\ fst (marshal (snd (marshal (hello_tree xid es)))) = bytes.
Proof.
  intros Hok Hx. unfold marshal. cbn [fst snd]. split.
  - rewrite hello_is_sw. rewrite (parse_switch_value (SHello (map HBitmap es)) xid Hok I Hx). rewrite hello_view_is_tree. reflexivity.
  - rewrite norm_idem by apply hello_shaped. reflexivity.
Qed.

(* C02 / C03: the specification's walk of the element list *)
Lemma shello_step f R :
  sdec_hello_elems (S f) (be_bytes 2 1 ++ R) =
  ('(ty, r1) <-- num 2 (be_bytes 2 1 ++ R) ;; '(len, r2) <-- num 2 r1 ;;
   _ <-- guard ((4 <=? len) && N.eqb ty 1 && N.eqb ((len - 4) mod 4) 0) ;;
   '(body, r3) <-- take (len - 4) r2 ;; '(pad, rest) <-- take (round8 len - len) r3 ;;
   _ <-- guard (all_zero pad) ;;
   l <-- sdec_hello_elems f rest ;; Some (T KHelloElemBitmap [VN ty; VN len; VB body] [] :: l)).
Proof. reflexivity. Qed.

Lemma sdec_hello_elems_built es : forallb helem_ok (map HBitmap es) = true -> forall fuel, (length es < fuel)%nat ->
  sdec_hello_elems fuel (flat_map ebytes (map HBitmap es)) = Some (map helem_bitmap_tree es).
Proof.
  induction es as [|ws r IH]; intros H fuel Hf; (destruct fuel as [|f]; [cbn [length] in Hf; lia|]).
  - reflexivity.
  - cbn [map forallb] in H. apply andb_true_iff in H as [He Hr]. cbn [length] in Hf. cbn [map flat_map].
    cbn [helem_ok] in He. apply andb_true_iff in He as [Hw Hk].
    rewrite ebytes_bitmap, <- !app_assoc. rewrite shello_step.
    set (k := N.of_nat (length ws)) in *. set (W := List.concat (map be32 ws)) in *.
    assert (HW : Walk.blen W = 4 * k) by apply blen_words.
    set (Z := zeros (pad8 (4 + 4 * length ws))) in *.
    assert (HZ : Walk.blen Z = round8 (4 + 4 * k) - (4 + 4 * k)).
    { unfold Z, Walk.blen. rewrite length_zeros, pad8_N. replace (N.of_nat (4 + 4 * length ws)) with (4 + 4 * k) by lia. reflexivity. }
    rewrite num_be by (cbn; lia). cbn [obind]. rewrite num_be by (change (256 ^ N.of_nat 2) with 65536; lia). cbn [obind].
    replace ((4 <=? 4 + 4 * k) && (1 =? 1) && ((4 + 4 * k - 4) mod 4 =? 0)) with true by lia. cbn [guard obind].
    replace (4 + 4 * k - 4) with (Walk.blen W) by lia. rewrite take_app. cbn [obind].
    rewrite <- HZ, take_app. cbn [obind]. unfold Z at 1. rewrite all_zero_zeros. cbn [guard obind].
    rewrite IH by (first [exact Hr|lia]). cbn [obind]. unfold helem_bitmap_tree at 2. fold k. fold W. reflexivity.
Qed.

Theorem hello_walk xid es : bitmaps_ok es = true -> xid < 4294967296 ->
  spec_decode (fst (marshal (hello_tree xid es))) = Some (snd (marshal (hello_tree xid es))).
Proof.
  intros Hok Hx. unfold bitmaps_ok, hello_ok in Hok. apply andb_true_iff in Hok as [Hes Hsz].
  unfold marshal, hello_tree. cbn [fst snd].
  replace (hdr 0 xid) with (hdr 0 xid ++ []) by apply app_nil_r.
  destruct (msg_form KHello 0 xid [] [] (map helem_bitmap_tree es) eq_refl eq_refl eq_refl eq_refl eq_refl) as [Hn Hw].
  rewrite Hn, Hw. clear Hn Hw. rewrite norm_bitmaps.
  rewrite <- raw_of_bitmaps, wire_helem_raw, glen_helem_raw. cbn [fields_len enc_fields app].
  set (B := flat_map ebytes (map HBitmap es)) in *. unfold spec_decode.
  rewrite <- (app_nil_r (msgbytes 0 (8 + 0 + Proto.blen B) xid B)).
  rewrite sdec_msg_prologue; [|lia|lia|exact Hx|unfold Walk.blen, Proto.blen; lia].
  cbv zeta. cbn [N.eqb]. unfold B. rewrite sdec_hello_elems_built; [|exact Hes|].
  - cbn [obind]. rewrite ?raw_of_bitmaps, ?app_nil_r. reflexivity.
  - pose proof (ebytes_count (map HBitmap es)) as Hc. rewrite map_length in Hc. fold B in Hc. unfold Proto.blen in Hc. fold B. lia.
Qed.

Lemma hello_example_wf : bitmaps_ok [[18]; [1; 2]; []; [4294967295; 0; 7]] = true.
Proof. vm_compute. reflexivity. Qed.
