From Coq Require Import ZArith List Lia Bool.
From LOF Require Import Model.NxUtil.
Import ListNotations.
Open Scope Z_scope.
Ltac Zify.zify_post_hook ::= Z.div_mod_to_equations.

Definition zrange (lo n : nat) : list Z := map Z.of_nat (seq lo n).

Lemma zrange_in lo n z : Z.of_nat lo <= z < Z.of_nat lo + Z.of_nat n -> In z (zrange lo n).
Proof.
  intros H. unfold zrange. apply in_map_iff. exists (Z.to_nat z). split; [lia|].
  apply in_seq. lia.
Qed.

(* ---- mask: finite domain 0 <= s <= e <= 31, 32 bit positions: swept ---- *)
Definition mask_ok (s e : Z) : bool :=
  forallb (fun i => Bool.eqb (Z.testbit (ToUint32Mask (NewNXRange s e)) i)
                             ((s <=? i) && (i <=? e))) (zrange 0 32)
  && (ToUint32Mask (NewNXRange s e) =? spec_mask s e).

Definition mask_sweep : bool :=
  forallb (fun s => forallb (fun e => if s <=? e then mask_ok s e else true) (zrange 0 32)) (zrange 0 32).

Lemma mask_sweep_true : mask_sweep = true.
Proof. vm_compute. reflexivity. Qed.

Lemma mask_ok_all s e : 0 <= s <= e -> e <= 31 -> mask_ok s e = true.
Proof.
  intros Hs He. pose proof mask_sweep_true as H. unfold mask_sweep in H.
  rewrite forallb_forall in H. specialize (H s (zrange_in 0 32 s ltac:(lia))).
  rewrite forallb_forall in H. specialize (H e (zrange_in 0 32 e ltac:(lia))).
  destruct (Z.leb_spec s e); [exact H|lia].
Qed.

Lemma mask_bits s e i : 0 <= s <= e -> e <= 31 -> 0 <= i < 32 ->
  Z.testbit (ToUint32Mask (NewNXRange s e)) i = ((s <=? i) && (i <=? e)).
Proof.
  intros Hs He Hi. pose proof (mask_ok_all s e Hs He) as H. unfold mask_ok in H.
  apply andb_true_iff in H as [H _]. rewrite forallb_forall in H.
  specialize (H i (zrange_in 0 32 i ltac:(lia))). apply Bool.eqb_prop in H. exact H.
Qed.

Lemma mask_value s e : 0 <= s <= e -> e <= 31 ->
  ToUint32Mask (NewNXRange s e) = spec_mask s e.
Proof.
  intros Hs He. pose proof (mask_ok_all s e Hs He) as H. unfold mask_ok in H.
  apply andb_true_iff in H as [_ H]. apply Z.eqb_eq in H. exact H.
Qed.

Lemma mask_high_bits s e i : 0 <= s <= e -> e <= 31 -> 32 <= i ->
  Z.testbit (ToUint32Mask (NewNXRange s e)) i = false.
Proof.
  intros Hs He Hi. rewrite mask_value by assumption. unfold spec_mask.
  rewrite Z.shiftl_spec by lia. apply Z.ones_spec_high. lia.
Qed.

(* ---- the two ways of describing a range ---- *)
Lemma range_two_ways s e : NewNXRangeByOfsNBits s (e - s + 1) = NewNXRange s e.
Proof. unfold NewNXRangeByOfsNBits, NewNXRange. f_equal. lia. Qed.

Lemma range_two_ways' ofs n : NewNXRange ofs (ofs + n - 1) = NewNXRangeByOfsNBits ofs n.
Proof. reflexivity. Qed.

(* ---- ofs/nbits word: algebra, no enumeration ---- *)
Lemma land_shl_low a b k : 0 <= k -> 0 <= b < 2 ^ k -> Z.land (a * 2 ^ k) b = 0.
Proof.
  intros Hk Hb. apply Z.bits_inj'. intros n Hn. rewrite Z.land_spec, Z.bits_0.
  destruct (Z.ltb_spec n k) as [Hlt|Hge].
  - rewrite Z.mul_pow2_bits_low by lia. reflexivity.
  - replace (Z.testbit b n) with false; [apply andb_false_r|].
    symmetry. destruct (Z.eq_dec b 0) as [->|Hnz]; [apply Z.bits_0|].
    apply Z.bits_above_log2; [lia|]. apply Z.lt_le_trans with k; [|exact Hge].
    apply Z.log2_lt_pow2; lia.
Qed.

Lemma lor_disjoint_add a b : 0 <= a -> 0 <= b < 64 -> Z.lor (a * 64) b = a * 64 + b.
Proof.
  intros Ha Hb. assert (H : Z.land (a * 64) b = 0) by (apply (land_shl_low a b 6); lia).
  rewrite Z.add_nocarry_lxor by exact H. symmetry. apply Z.lxor_lor. exact H.
Qed.

Lemma encode_is_spec ofs n : 0 <= ofs < 1024 -> 1 <= n <= 64 ->
  encodeOfsNbits ofs n = spec_ofsnbits ofs n.
Proof.
  intros Ho Hn. unfold encodeOfsNbits, spec_ofsnbits, shl16, u16.
  change (6 <? 16) with true. cbv iota. rewrite Z.shiftl_mul_pow2 by lia. change (2^6) with 64.
  rewrite (Z.mod_small (ofs * 64)) by lia. rewrite (Z.mod_small (n - 1)) by lia.
  apply lor_disjoint_add; lia.
Qed.

Lemma decode_ofs_spec ofs n : 0 <= ofs < 1024 -> 1 <= n <= 64 ->
  decodeOfs (spec_ofsnbits ofs n) = ofs.
Proof.
  intros Ho Hn. unfold decodeOfs, spec_ofsnbits, shr16. change (6 <? 16) with true. cbv iota.
  rewrite Z.shiftr_div_pow2 by lia. change (2^6) with 64. lia.
Qed.

Lemma decode_nbits_spec ofs n : 0 <= ofs < 1024 -> 1 <= n <= 64 ->
  decodeNbits (spec_ofsnbits ofs n) = n.
Proof.
  intros Ho Hn. unfold decodeNbits, spec_ofsnbits, u16.
  change 63 with (Z.ones 6). rewrite Z.land_ones by lia. change (2^6) with 64. lia.
Qed.

Lemma startend_is_spec s e : 0 <= s <= e -> s < 1024 -> e - s < 64 ->
  ToOfsBits (NewNXRange s e) = spec_ofsnbits s (e - s + 1).
Proof.
  intros Hs Hlt Hw. unfold ToOfsBits, encodeOfsNbitsStartEnd, spec_ofsnbits, NewNXRange, shl16, u16.
  cbn [rstart rend]. change (6 <? 16) with true. cbv iota.
  rewrite (Z.mod_small s) by lia. rewrite (Z.mod_small e) by lia.
  rewrite Z.shiftl_mul_pow2 by lia. change (2^6) with 64.
  rewrite (Z.mod_small (s * 64)) by lia. rewrite (Z.mod_small (e - s)) by lia.
  rewrite Z.mod_small by lia. lia.
Qed.

Lemma getofs_getnbits s e : 0 <= s <= e -> e < 65535 ->
  GetOfs (NewNXRange s e) = s /\ GetNbits (NewNXRange s e) = e - s + 1.
Proof.
  intros Hs He. unfold GetOfs, GetNbits, NewNXRange, u16. cbn [rstart rend].
  rewrite !Z.mod_small by lia. split; reflexivity.
Qed.

Lemma range_word s e : 0 <= s <= e -> s < 1024 -> e - s < 64 ->
  ToOfsBits (NewNXRange s e) = encodeOfsNbits s (e - s + 1) /\
  GetOfs (NewNXRange s e) = s /\ GetNbits (NewNXRange s e) = e - s + 1.
Proof.
  intros Hs Hlt Hw. rewrite (startend_is_spec s e Hs Hlt Hw).
  rewrite (encode_is_spec s (e - s + 1)) by lia.
  split; [reflexivity|]. apply getofs_getnbits; lia.
Qed.

Lemma ofs_nbits_word ofs n : 0 <= ofs < 1024 -> 1 <= n <= 64 ->
  encodeOfsNbits ofs n = ofs * 64 + (n - 1) /\
  decodeOfs (encodeOfsNbits ofs n) = ofs /\ decodeNbits (encodeOfsNbits ofs n) = n.
Proof.
  intros Ho Hn. rewrite (encode_is_spec ofs n Ho Hn).
  exact (conj eq_refl (conj (decode_ofs_spec ofs n Ho Hn) (decode_nbits_spec ofs n Ho Hn))).
Qed.

Lemma mask_exact s e i : 0 <= s <= e -> e <= 31 -> 0 <= i ->
  Z.testbit (ToUint32Mask (NewNXRange s e)) i = ((s <=? i) && (i <=? e)).
Proof.
  intros Hs He Hi. destruct (Z.ltb_spec i 32) as [Hlt|Hge].
  - apply mask_bits; lia.
  - rewrite (mask_high_bits s e i Hs He Hge). symmetry. apply andb_false_intro2.
    apply Z.leb_gt. lia.
Qed.

(* non-vacuity: the one-bit range at 0 and the full register *)
Example mask_examples : ToUint32Mask (NewNXRange 0 0) = 1 /\ ToUint32Mask (NewNXRange 0 31) = 4294967295
  /\ ToUint32Mask (NewNXRange 4 7) = 240.
Proof. vm_compute. repeat split. Qed.
