(* The independent decoder (Spec/Walk.v) inverts the encoder on everything the constructors
   build: actions of every kind, match fields, matches, instructions, buckets, messages. *)
From Coq Require Import NArith ZArith Arith List Bool Lia ZifyN ZifyBool ZifyNat.
From Coq.Strings Require Import Byte.
From LOF Require Import Base.Bytes Model.Wire Model.Build Spec.Walk Proofs.WireP Proofs.BuildP Proofs.NormP Proofs.WalkP.
Import ListNotations.
Open Scope N_scope.
Ltac Zify.zify_post_hook ::= Z.div_mod_to_equations.

(* own fields of a layout l1 ++ l2 whose first part is numbers and padding *)
Lemma enc_fields_app l1 : forall l2 vs1 vs2, plain l1 = true -> vals_ok l1 vs1 = true ->
  enc_fields (l1 ++ l2) (vs1 ++ vs2) = enc_fields l1 vs1 ++ enc_fields l2 vs2.
Proof.
  induction l1 as [|f l1 IH]; intros l2 vs1 vs2 Hp Hv; cbn [plain vals_ok app enc_fields] in *.
  - destruct vs1; [reflexivity|discriminate].
  - destruct f as [w|k|k|]; try discriminate Hp.
    + destruct vs1 as [|[n|b] vs1]; try discriminate Hv. apply andb_true_iff in Hv as [_ Hv].
      cbn [app]. rewrite IH by assumption. rewrite app_assoc. reflexivity.
    + rewrite IH by assumption. rewrite app_assoc. reflexivity.
Qed.

Lemma vals_ok_app l1 : forall l2 vs1 vs2, plain l1 = true -> vals_ok l1 vs1 = true ->
  vals_ok (l1 ++ l2) (vs1 ++ vs2) = vals_ok l2 vs2.
Proof.
  induction l1 as [|f l1 IH]; intros l2 vs1 vs2 Hp Hv; cbn [plain vals_ok app] in *.
  - destruct vs1; [reflexivity|discriminate].
  - destruct f as [w|k|k|]; try discriminate Hp.
    + destruct vs1 as [|[n|b] vs1]; try discriminate Hv. apply andb_true_iff in Hv as [Hn Hv].
      cbn [app]. rewrite Hn. cbn [andb]. apply IH; assumption.
    + apply IH; assumption.
Qed.

(* fixed-size Nicira action: header, subtype and length announce what follows *)
Lemma sdec_nx_fixed k sub len rest0 fuel rest :
  let t := T k (VN 65535 :: VN len :: VN 8992 :: VN sub :: rest0) [] in
  simple t = true -> nx_action sub = Some (k, layout k, len) -> size t = len ->
  sdec_action (S fuel) (wire t ++ rest) = Some (t, rest).
Proof.
  intros t Hs Hd Hsz. subst t.
  pose proof (simple_wire k _ Hs) as Hw.
  assert (Hl : exists l', layout k = nxhdr ++ l' /\ plain l' = true).
  { destruct sub as [|p]; cbn in Hd; try discriminate Hd;
      repeat (destruct p as [p|p|]; try discriminate Hd); inversion Hd; subst; eexists; split; reflexivity. }
  destruct Hl as [l' [Hl Hpl']].
  cbn [simple] in Hs. apply andb_true_iff in Hs as [Hs _]. apply andb_true_iff in Hs as [Hp Hv].
  assert (Hsub : sub < 65536 /\ len < 65536).
  { rewrite Hl in Hv. cbn [nxhdr app vals_ok] in Hv. change (256 ^ N.of_nat 2) with 65536 in Hv. lia. }
  assert (Hlen8 : (8 <=? len) && (len mod 8 =? 0) = true).
  { destruct sub as [|p]; cbn in Hd; try discriminate Hd;
      repeat (destruct p as [p|p|]; try discriminate Hd); inversion Hd; subst; reflexivity. }
  assert (Hnot : (sub =? 35) = false /\ (sub =? 36) = false /\ (sub =? 16) = false /\ (sub =? 33) = false /\ (sub =? 8) = false /\ (sub =? 21) = false).
  { destruct sub as [|p]; cbn in Hd; try discriminate Hd;
      repeat (destruct p as [p|p|]; try discriminate Hd); repeat split; reflexivity. }
  destruct Hnot as (N1 & N2 & N3 & N4 & N5 & N6).
  cbn [sdec_action]. rewrite Hw.
  set (vs := VN 65535 :: VN len :: VN 8992 :: VN sub :: rest0) in *.
  set (E := enc_fields (layout k) vs) in *.
  assert (HE : E = be_bytes 2 65535 ++ be_bytes 2 len ++ be_bytes 4 8992 ++ be_bytes 2 sub ++ enc_fields l' rest0)
    by (subst E vs; rewrite Hl; reflexivity).
  assert (Hn1 : num 2 (E ++ rest) = Some (65535, be_bytes 2 len ++ be_bytes 4 8992 ++ be_bytes 2 sub ++ enc_fields l' rest0 ++ rest)).
  { rewrite HE, <- !app_assoc. apply num_be. reflexivity. }
  assert (Hn2 : forall X, num 2 (be_bytes 2 len ++ X) = Some (len, X)).
  { intros X. apply num_be. change (256 ^ N.of_nat 2) with 65536. lia. }
  assert (Htake : take len (E ++ rest) = Some (E, rest)).
  { assert (Hb : Walk.blen E = len) by (unfold size in Hsz; rewrite Hw in Hsz; exact Hsz).
    pose proof (take_app E rest) as Ht. rewrite Hb in Ht. exact Ht. }
  assert (Hh : sfields S_nxhdr E = Some ([VN 65535; VN len; VN 8992; VN sub], enc_fields l' rest0)).
  { rewrite HE. change S_nxhdr with nxhdr.
    change (be_bytes 2 65535 ++ be_bytes 2 len ++ be_bytes 4 8992 ++ be_bytes 2 sub ++ enc_fields l' rest0)
      with (enc_fields nxhdr [VN 65535; VN len; VN 8992; VN sub] ++ enc_fields l' rest0) at 1.
    - apply sfields_enc; [reflexivity|]. cbn [nxhdr vals_ok]. change (256 ^ N.of_nat 2) with 65536. change (256 ^ N.of_nat 4) with 4294967296.
      replace (65535 <? 65536) with true by reflexivity. replace (8992 <? 4294967296) with true by reflexivity.
      replace (len <? 65536) with true by lia. replace (sub <? 65536) with true by lia. reflexivity. }
  assert (Hf : sfields (layout k) E = Some (vs, [])).
  { pose proof (sfields_enc (layout k) vs [] Hp Hv) as Hf. rewrite app_nil_r in Hf. exact Hf. }
  rewrite Hn1. cbn [obind]. rewrite Hn2. cbn [obind]. rewrite Hlen8. cbn [guard obind].
  rewrite Htake. cbn [obind].
  replace (65535 =? 25) with false by reflexivity. replace (65535 =? 65535) with true by reflexivity.
  rewrite Hh. cbn [obind]. replace (8992 =? 8992) with true by reflexivity. cbn [guard obind].
  rewrite N1, N2, N3, N4, N5, N6. rewrite Hd. cbn [obind]. rewrite N.eqb_refl. cbn [guard obind].
  rewrite Hf. cbn [obind guard]. reflexivity.
Qed.

(* all fixed-layout actions, for all argument values that fit their fields *)
Definition fixed_arec_ok (a : arec) : bool :=
  match a with
  | AConj c n id => (c <? 256) && (n <? 256) && (id <? 4294967296)
  | ARegLoad ofs dst v => (ofs <? 65536) && (fh_word dst <? 4294967296) && (v <? 18446744073709551616)
  | ARegMove nb so d src dst => (nb <? 65536) && (so <? 65536) && (d <? 65536) && (fh_word src <? 4294967296) && (fh_word dst <? 4294967296)
  | AResubmit p => p <? 65536
  | AResubmitTable p t | AResubmitCT p t => (p <? 65536) && (t <? 256)
  | AResubmitCTNoInPort t => t <? 256
  | AOutputReg src ofs ml => (ofs <? 65536) && (fh_word src <? 4294967296) && (match ml with Some m => m <? 65536 | None => true end)
  | ACtClear | ADecTtl => true
  | AController id ml r => (id <? 65536) && (ml <? 65536) && (r <? 256)
  | _ => std_arec_ok a
  end.

Theorem sdec_built_fixed_action a fuel rest : fixed_arec_ok a = true ->
  sdec_action (S fuel) (wire (build_a a) ++ rest) = Some (build_a a, rest).
Proof.
  intros H. destruct a; try discriminate H; cbn [fixed_arec_ok] in H.
  all: try (apply sdec_built_std_action; exact H).
  all: cbn [build_a nx app]; apply sdec_nx_fixed; try reflexivity.
  all: cbn [simple layout nxhdr app plain vals_ok align8 negb andb].
  all: change (256 ^ N.of_nat 1) with 256; change (256 ^ N.of_nat 2) with 65536; change (256 ^ N.of_nat 4) with 4294967296;
       change (256 ^ N.of_nat 8) with 18446744073709551616.
  all: try destruct maxlen; lia.
Qed.

(* ---------------------------------------------------------------- match fields *)
Lemma wire_mk_mf c f hm len v m :
  wire (mk_mf c f hm len v m) = be_bytes 2 c ++ be_bytes 1 ((f * 2 + (if hm then 1 else 0)) mod 256) ++ be_bytes 1 (len mod 256) ++ v ++ m.
Proof. unfold mk_mf. cbn [wire layout enc_fields align8 flat_map]. rewrite !app_nil_r. reflexivity. Qed.

Lemma firstn_app_exact {A} (a b : list A) n : n = length a -> firstn n (a ++ b) = a.
Proof. intros ->. rewrite firstn_app, Nat.sub_diag, firstn_all. cbn. apply app_nil_r. Qed.
Lemma skipn_app_exact {A} (a b : list A) n : n = length a -> skipn n (a ++ b) = b.
Proof. intros ->. rewrite skipn_app, Nat.sub_diag, skipn_all. reflexivity. Qed.

Lemma sdec_mk_mf c f (hm : bool) len (v m : list byte) rest :
  c < 65536 -> f < 128 -> oxm_class_ok c f = true -> len < 256 ->
  len = N.of_nat (length v) + N.of_nat (length m) ->
  (if hm return Prop then length v = length m else m = []) ->
  sdec_oxm (wire (mk_mf c f hm len v m) ++ rest) = Some (mk_mf c f hm len v m, rest).
Proof.
  intros Hc Hf Hok Hlen Hl Hm. rewrite wire_mk_mf. unfold sdec_oxm.
  set (fh := (f * 2 + (if hm then 1 else 0)) mod 256).
  assert (Hfh : fh = f * 2 + (if hm then 1 else 0)) by (subst fh; destruct hm; lia).
  assert (Hfh2 : fh / 2 = f) by (rewrite Hfh; destruct hm; lia).
  assert (Hodd : N.odd fh = hm).
  { rewrite Hfh. destruct hm; [replace (f * 2 + 1) with (1 + 2 * f) by lia|replace (f * 2 + 0) with (0 + 2 * f) by lia]; rewrite N.odd_add_mul_2; reflexivity. }
  replace (len mod 256) with len by lia.
  rewrite <- !app_assoc. rewrite num_be by (change (256 ^ N.of_nat 2) with 65536; lia). cbn [obind].
  rewrite num_be by (change (256 ^ N.of_nat 1) with 256; destruct hm; lia). cbn [obind].
  rewrite num_be by (change (256 ^ N.of_nat 1) with 256; lia). cbn [obind].
  assert (Ht : take len (v ++ m ++ rest) = Some (v ++ m, rest)).
  { rewrite app_assoc. pose proof (take_app (v ++ m) rest) as Ht. unfold Walk.blen in Ht. rewrite app_length, Nat2N.inj_add, <- Hl in Ht. exact Ht. }
  rewrite Ht. cbn [obind]. rewrite Hfh2, Hok. cbn [guard obind]. rewrite Hodd.
  unfold mk_mf. fold fh. replace (len mod 256) with len by lia.
  destruct hm.
  - assert (He : N.even len = true) by (rewrite Hl, Hm; replace (N.of_nat (length m) + N.of_nat (length m)) with (0 + 2 * N.of_nat (length m)) by lia; rewrite N.even_add_mul_2; reflexivity).
    rewrite He. cbn [negb orb guard obind].
    assert (Hh : N.to_nat (len / 2) = length v) by (rewrite Hl, Hm; lia).
    rewrite firstn_app_exact, skipn_app_exact by exact Hh. reflexivity.
  - cbn [negb orb guard obind]. subst m. rewrite app_nil_r. reflexivity.
Qed.

Lemma length_payload w fl b a : length (payload w fl b a) = w.
Proof. destruct fl, a; cbn [payload]; try apply length_be_bytes; try apply length_fit; apply length_zeros. Qed.

Definition mf_ok (r : mfrec) : bool :=
  match r with
  | MFStd ctor _ _ => match mf_table ctor with Some _ => true | None => false end
  | MFReg idx _ _ => idx <? 128
  | MFTunMeta idx data mask =>
    (idx <? 88) && (N.of_nat (length data) + N.of_nat (length mask) <? 256) &&
    (Nat.eqb (length mask) 0 || Nat.eqb (length mask) (length data))
  | MFCtState _ _ => true
  end.

(* every constructor code of the table is a legal class / field with a width below 128 *)
Lemma mf_table_legal ctor c f w fl : mf_table ctor = Some (c, f, w, fl) ->
  c < 65536 /\ f < 128 /\ oxm_class_ok c f = true /\ (w <= 16)%nat.
Proof.
  destruct ctor as [|p]; cbn; [intros H; inversion H; subst; repeat split; try reflexivity; lia|].
  repeat (destruct p as [p|p|]; cbn; try discriminate);
    intros H; inversion H; subst; repeat split; try reflexivity; lia.
Qed.

Theorem sdec_built_mf r rest : mf_ok r = true ->
  sdec_oxm (wire (build_mf r) ++ rest) = Some (build_mf r, rest).
Proof.
  destruct r as [ctor v m|idx data rng|idx data mask|d m]; cbn [mf_ok build_mf]; intros H.
  - destruct (mf_table ctor) as [[[[c f] w] fl]|] eqn:E; [|discriminate].
    destruct (mf_table_legal _ _ _ _ _ E) as (Hc & Hf & Hok & Hw).
    destruct m as [mk|]; apply sdec_mk_mf; try assumption; rewrite ?length_payload; cbn [length]; try lia; reflexivity.
  - destruct rng as [[s e]|]; apply sdec_mk_mf; try reflexivity; try lia.
  - apply andb_true_iff in H as [H H3]. apply andb_true_iff in H as [H1 H2].
    destruct (Nat.eqb (length mask) 0) eqn:E0; cbn [negb].
    + apply Nat.eqb_eq in E0. destruct mask; [|discriminate]. apply sdec_mk_mf; cbn [length] in *; try lia; try reflexivity.
    + cbn [orb] in H3. apply Nat.eqb_eq in H3. apply sdec_mk_mf; try lia; try reflexivity; try congruence.
  - apply sdec_mk_mf; try reflexivity; lia.
Qed.

Lemma length_wire_mk_mf c f hm len v m : (4 <= length (wire (mk_mf c f hm len v m)))%nat.
Proof. rewrite wire_mk_mf. rewrite !app_length, !length_be_bytes. lia. Qed.

Lemma length_wire_build_mf r : mf_ok r = true -> (4 <= length (wire (build_mf r)))%nat.
Proof.
  destruct r as [ctor v m|idx data rng|idx data mask|d m]; cbn [mf_ok build_mf]; intros H.
  - destruct (mf_table ctor) as [[[[c f] w] fl]|]; [|discriminate]. destruct m; apply length_wire_mk_mf.
  - destruct rng as [[s e]|]; apply length_wire_mk_mf.
  - apply length_wire_mk_mf.
  - apply length_wire_mk_mf.
Qed.

Lemma sdec_oxms_built fs : forallb mf_ok fs = true ->
  forall fuel, (length (flat_map wire (map build_mf fs)) < fuel)%nat ->
  sdec_oxms fuel (flat_map wire (map build_mf fs)) = Some (map build_mf fs).
Proof.
  induction fs as [|f r IH]; intros H fuel Hf; cbn [map flat_map forallb] in *.
  - destruct fuel; [lia|reflexivity].
  - apply andb_true_iff in H as [Ha Hr]. destruct fuel as [|fuel]; [lia|]. cbn [sdec_oxms].
    pose proof (length_wire_build_mf f Ha) as Hpos. rewrite app_length in Hf.
    destruct (wire (build_mf f) ++ flat_map wire (map build_mf r)) as [|b0 l0] eqn:E.
    { apply (f_equal (@length byte)) in E. rewrite app_length in E. cbn in E. lia. }
    rewrite <- E. rewrite sdec_built_mf by exact Ha. cbn [obind]. rewrite app_length.
    replace (_ <? _)%nat with true by (symmetry; apply Nat.ltb_lt; lia).
    cbn [guard obind]. rewrite IH; [reflexivity|exact Hr|lia].
Qed.

Lemma pad8_round8 n : N.of_nat (pad8 n) = round8 (N.of_nat n) - N.of_nat n.
Proof. unfold pad8, round8. lia. Qed.

Lemma take_zeros_pad k rest : take (N.of_nat k) (zeros k ++ rest) = Some (zeros k, rest).
Proof. pose proof (take_app (zeros k) rest) as H. unfold Walk.blen in H. rewrite length_zeros in H. exact H. Qed.

Definition match_ok (fs : list mfrec) : bool :=
  forallb mf_ok fs && (4 + sumN (map glen (map build_mf fs)) <? 65536).

Theorem sdec_built_match fs rest : match_ok fs = true ->
  sdec_match (wire (build_match fs) ++ rest) = Some (build_match fs, rest).
Proof.
  intros H. apply andb_true_iff in H as [Hfs Hlen]. unfold build_match.
  set (ks := map build_mf fs) in *. set (len := 4 + sumN (map glen ks)) in *.
  assert (Hcons : forallb consistent ks = true) by (subst ks; apply forallb_map_true, build_mf_ok).
  assert (Hsum : sumN (map glen ks) = N.of_nat (length (flat_map wire ks))).
  { rewrite (forall_consistent_glen _ Hcons). clear. induction ks as [|k r IH]; [reflexivity|].
    cbn [map sumN fold_right flat_map]. unfold sumN in IH. rewrite IH, app_length. unfold size. lia. }
  cbn [wire layout enc_fields align8]. rewrite !app_nil_r.
  set (body := flat_map wire ks) in *.
  unfold sdec_match. rewrite <- !app_assoc.
  rewrite num_be by reflexivity. cbn [obind]. rewrite num_be by (change (256 ^ N.of_nat 2) with 65536; lia). cbn [obind].
  replace ((1 =? 1) && (4 <=? len)) with true by (subst len; lia). cbn [guard obind].
  assert (Ht : take (len - 4) (body ++ zeros (pad8 (length (be_bytes 2 1 ++ be_bytes 2 len ++ body))) ++ rest) =
               Some (body, zeros (pad8 (length (be_bytes 2 1 ++ be_bytes 2 len ++ body))) ++ rest)).
  { pose proof (take_app body (zeros (pad8 (length (be_bytes 2 1 ++ be_bytes 2 len ++ body))) ++ rest)) as Ht.
    unfold Walk.blen in Ht. replace (len - 4) with (N.of_nat (length body)) by (subst len; lia). exact Ht. }
  rewrite Ht. cbn [obind].
  subst body. unfold ks at 1 2. rewrite sdec_oxms_built by (try exact Hfs; lia). fold ks. cbn [obind].
  rewrite !app_length, !length_be_bytes.
  replace (round8 len - len) with (N.of_nat (pad8 (2 + (2 + length (flat_map wire ks))))).
  2:{ rewrite pad8_round8. subst len. rewrite Hsum. f_equal; f_equal; lia. }
  rewrite take_zeros_pad. cbn [obind]. rewrite all_zero_zeros. cbn [guard obind]. reflexivity.
Qed.

(* ---------------------------------------------------------------- header + one OXM + padding *)
Lemma glen_build_mf r : glen (build_mf r) = size (build_mf r).
Proof. apply glen_size, build_mf_ok. Qed.

Lemma pad8_lt8 n : (pad8 n < 8)%nat.
Proof. unfold pad8. pose proof (Nat.div_mod (n + 7) 8). lia. Qed.

Lemma round8_ge n : n <= round8 n /\ round8 n mod 8 = 0 /\ round8 n < n + 8.
Proof. unfold round8. lia. Qed.

Definition setfield_ok (f : mfrec) : bool := mf_ok f && (size (build_mf f) <? 65000).

Theorem sdec_built_setfield f fuel rest : setfield_ok f = true ->
  sdec_action (S fuel) (wire (build_a (ASetField f)) ++ rest) = Some (build_a (ASetField f), rest).
Proof.
  intros H. apply andb_true_iff in H as [Hf Hsz]. cbn [build_a]. rewrite glen_build_mf.
  set (m := build_mf f) in *. pose proof (length_wire_build_mf f Hf) as Hpos. fold m in Hpos.
  set (L := round8 (4 + size m)). pose proof (round8_ge (4 + size m)) as (HL1 & HL2 & HL3). fold L in HL1, HL2, HL3.
  assert (Hszm : size m = N.of_nat (length (wire m))) by reflexivity.
  cbn [wire layout acthdr enc_fields align8 flat_map]. rewrite !app_nil_r. fold (wire m).
  set (W := (be_bytes 2 25 ++ be_bytes 2 L) ++ wire m).
  assert (HlenW : length W = (4 + length (wire m))%nat) by (unfold W; rewrite !app_length, !length_be_bytes; cbn; lia).
  assert (Htot : Walk.blen (W ++ zeros (pad8 (length W))) = L).
  { unfold Walk.blen. rewrite app_length, length_zeros, Nat2N.inj_add, pad8_round8, HlenW. subst L. rewrite Hszm. 
    replace (N.of_nat (4 + length (wire m))) with (4 + N.of_nat (length (wire m))) by lia. pose proof (round8_ge (4 + N.of_nat (length (wire m)))). lia. }
  cbn [sdec_action].
  assert (Hn1 : num 2 ((W ++ zeros (pad8 (length W))) ++ rest) = Some (25, be_bytes 2 L ++ wire m ++ zeros (pad8 (length W)) ++ rest)).
  { unfold W. rewrite <- !app_assoc. apply num_be. reflexivity. }
  rewrite Hn1. cbn [obind]. rewrite num_be by (change (256 ^ N.of_nat 2) with 65536; lia). cbn [obind].
  replace ((8 <=? L) && (L mod 8 =? 0)) with true by lia. cbn [guard obind].
  pose proof (take_app (W ++ zeros (pad8 (length W))) rest) as Ht. rewrite Htot in Ht. rewrite Ht. cbn [obind].
  replace (25 =? 25) with true by reflexivity.
  set (Z := zeros (pad8 (length W))) in *.
  assert (Hh : sfields S_acthdr (W ++ Z) = Some ([VN 25; VN L], wire m ++ Z)).
  { unfold W. rewrite <- !app_assoc.
    change (be_bytes 2 25 ++ be_bytes 2 L ++ wire m ++ Z) with (enc_fields acthdr [VN 25; VN L] ++ (wire m ++ Z)).
    apply sfields_enc; [reflexivity|]. cbn [acthdr vals_ok]. change (256 ^ N.of_nat 2) with 65536.
    replace (25 <? 65536) with true by reflexivity. replace (L <? 65536) with true by lia. reflexivity. }
  rewrite Hh. cbn [obind]. subst m. rewrite sdec_built_mf by exact Hf. cbn [obind].
  unfold Z. rewrite all_zero_zeros, length_zeros. replace (_ <? 8)%nat with true by (symmetry; apply Nat.ltb_lt, pad8_lt8).
  cbn [andb guard obind]. reflexivity.
Qed.

Lemma norm_build_mf r : norm (build_mf r) = build_mf r.
Proof.
  destruct r as [ctor v m|idx data rng|idx data mask|d m]; cbn [build_mf].
  - destruct (mf_table ctor) as [[[[c f] w] fl]|]; [destruct m|]; reflexivity.
  - destruct rng as [[s e]|]; reflexivity.
  - reflexivity.
  - reflexivity.
Qed.

Lemma norm_regload2 f : norm (build_a (ARegLoad2 f)) = T KNxRegLoad2 (nx 33 (round8 (10 + size (build_mf f)))) [build_mf f].
Proof.
  cbn [build_a norm writeback map]. rewrite norm_build_mf. unfold nx. cbn [set_nth].
  cbn [glen lenrule_of layout nxhdr app fields_len lenround align8 map sumN fold_right]. rewrite glen_build_mf.
  change (N.of_nat 2) with 2. change (N.of_nat 4) with 4. repeat f_equal. lia.
Qed.

(* a Nicira action header in front of anything *)
Lemma sfields_nxhdr len sub X : len < 65536 -> sub < 65536 ->
  sfields S_nxhdr (be_bytes 2 65535 ++ be_bytes 2 len ++ be_bytes 4 8992 ++ be_bytes 2 sub ++ X) = Some ([VN 65535; VN len; VN 8992; VN sub], X).
Proof.
  intros Hl Hs.
  change (be_bytes 2 65535 ++ be_bytes 2 len ++ be_bytes 4 8992 ++ be_bytes 2 sub ++ X)
    with (enc_fields nxhdr [VN 65535; VN len; VN 8992; VN sub] ++ X).
  apply sfields_enc; [reflexivity|]. cbn [nxhdr vals_ok]. change (256 ^ N.of_nat 2) with 65536. change (256 ^ N.of_nat 4) with 4294967296.
  replace (65535 <? 65536) with true by reflexivity. replace (8992 <? 4294967296) with true by reflexivity.
  replace (len <? 65536) with true by lia. replace (sub <? 65536) with true by lia. reflexivity.
Qed.


(* ---------------------------------------------------------------- variable-size Nicira actions *)
Definition nxbytes (L sub : N) (B : list byte) : list byte :=
  be_bytes 2 65535 ++ be_bytes 2 L ++ be_bytes 4 8992 ++ be_bytes 2 sub ++ B.

Lemma blen_nxbytes L sub B : Walk.blen (nxbytes L sub B) = 10 + Walk.blen B.
Proof. unfold nxbytes, Walk.blen. rewrite !app_length, !length_be_bytes. lia. Qed.

(* the walk over the actions nested in a conntrack action *)
Definition go_acts (fuel : nat) : nat -> list byte -> option (list tree) :=
  fix go (f : nat) (b : list byte) : option (list tree) :=
    match f with
    | O => None
    | S f' => match b with
              | [] => Some []
              | _ => '(a, r) <-- sdec_action fuel b ;; _ <-- guard (length r <? length b)%nat ;;
                     l <-- go f' r ;; Some (a :: l)
              end
    end.

(* what sdec_action does with a Nicira action up to the dispatch on the subtype *)
Lemma sdec_nx_prologue L sub B fuel rest :
  L < 65536 -> sub < 65536 -> 8 <= L -> L mod 8 = 0 -> 10 + Walk.blen B = L ->
  sdec_action (S fuel) (nxbytes L sub B ++ rest) =
  (let hv := [VN 65535; VN L; VN 8992; VN sub] in let r := B in
   let actions_in (b : list byte) := go_acts fuel (S (length b)) b in
        if N.eqb sub 35 then
          '(vs, r') <-- sfields [FU 2; FU 4; FU 2; FU 1; FZ 3; FU 2] r ;;
          ks <-- actions_in r' ;; Some (T KNxConnTrack (hv ++ vs) ks, rest)
        else if N.eqb sub 36 then
          '(vs, r') <-- sfields [FZ 2; FU 2; FU 2] r ;;
          match vs with
          | [VN flags; VN present] =>
            _ <-- guard (present <? 64) ;;
            '(ps, pad) <-- nat_parts present r' ;;
            _ <-- guard (all_zero pad && (length pad <? 8)%nat) ;;
            Some (T KNxNat (hv ++ vs) ps, rest)
          | _ => None
          end
        else if N.eqb sub 16 then
          '(vs, r') <-- sfields [FU 2; FU 2; FU 2; FU 8; FU 2; FU 1; FZ 1; FU 2; FU 2] r ;;
          ss <-- sdec_lspecs (S (length r')) r' ;; Some (T KNxLearn (hv ++ vs) ss, rest)
        else if N.eqb sub 33 then
          '(f, pad) <-- sdec_oxm r ;; _ <-- guard (all_zero pad && (length pad <? 8)%nat) ;;
          Some (T KNxRegLoad2 hv [f], rest)
        else if N.eqb sub 8 then
          Some (T KNxNote (hv ++ [VB r]) [], rest)
        else if N.eqb sub 21 then
          '(vs, r') <-- sfields [FU 2; FZ 4] r ;;
          match vs with
          | [VN n] => '(ids, pad) <-- take (2 * n) r' ;;
                      _ <-- guard (all_zero pad && (length pad <? 8)%nat) ;;
                      Some (T KNxDecTtlCntIds (hv ++ [VN n; VB ids]) [], rest)
          | _ => None
          end
        else
          '(k, l, sz) <-- nx_action sub ;; _ <-- guard (N.eqb L sz) ;;
          '(vs, r') <-- sfields l (nxbytes L sub B) ;; _ <-- guard (match r' with [] => true | _ => false end) ;;
          Some (T k vs [], rest)).
Proof.
  intros HL Hsub H8 Hmod Hlen. cbn [sdec_action].
  pose proof (blen_nxbytes L sub B) as Hb. rewrite Hlen in Hb.
  pose proof (take_app (nxbytes L sub B) rest) as Ht. rewrite Hb in Ht.
  assert (Hn1 : num 2 (nxbytes L sub B ++ rest) = Some (65535, be_bytes 2 L ++ be_bytes 4 8992 ++ be_bytes 2 sub ++ B ++ rest)).
  { unfold nxbytes. rewrite <- !app_assoc. apply num_be. reflexivity. }
  rewrite Hn1. cbn [obind]. rewrite num_be by (change (256 ^ N.of_nat 2) with 65536; lia). cbn [obind].
  replace ((8 <=? L) && (L mod 8 =? 0)) with true by lia. cbn [guard obind].
  rewrite Ht. cbn [obind].
  replace (65535 =? 25) with false by reflexivity. replace (65535 =? 65535) with true by reflexivity.
  unfold nxbytes at 1. rewrite sfields_nxhdr by assumption. cbn [obind].
  replace (8992 =? 8992) with true by reflexivity. cbn [guard obind]. reflexivity.
Qed.

Lemma wire_nx_padded k L sub vs' kids :
  layout k = nxhdr ++ vs' -> align8 k = true ->
  forall vals, wire (T k (nx sub L ++ vals) kids) =
    nxbytes L sub ((enc_fields vs' vals ++ flat_map wire kids) ++
                   zeros (pad8 (10 + length (enc_fields vs' vals ++ flat_map wire kids)))).
Proof.
  intros Hl Ha vals. cbn [wire]. rewrite Ha, Hl. unfold nx, nxbytes. cbn [nxhdr app enc_fields].
  rewrite <- !app_assoc. repeat f_equal.
Qed.

Lemma blen_padded n (X : list byte) : n = length X -> forall h : nat, (h = 10)%nat ->
  10 + Walk.blen (X ++ zeros (pad8 (h + n))) = round8 (10 + N.of_nat n).
Proof.
  intros -> h ->. unfold Walk.blen. rewrite app_length, length_zeros, Nat2N.inj_add, pad8_round8.
  replace (N.of_nat (10 + length X)) with (10 + N.of_nat (length X)) by lia.
  pose proof (round8_ge (10 + N.of_nat (length X))). lia.
Qed.

Theorem sdec_built_regload2 f fuel rest : setfield_ok f = true ->
  sdec_action (S fuel) (wire (norm (build_a (ARegLoad2 f))) ++ rest) = Some (norm (build_a (ARegLoad2 f)), rest).
Proof.
  intros H. apply andb_true_iff in H as [Hf Hsz]. rewrite norm_regload2.
  set (m := build_mf f) in *. set (L := round8 (10 + size m)).
  pose proof (round8_ge (10 + size m)) as (HL1 & HL2 & HL3). fold L in HL1, HL2, HL3.
  replace (nx 33 L) with (nx 33 L ++ []) by apply app_nil_r.
  rewrite (wire_nx_padded KNxRegLoad2 L 33 [] [m] eq_refl eq_refl []).
  cbn [enc_fields flat_map app]. rewrite app_nil_r.
  rewrite sdec_nx_prologue; try lia.
  2:{ rewrite (blen_padded (length (wire m)) (wire m) eq_refl 10%nat eq_refl). reflexivity. }
  cbn [N.eqb Pos.eqb]. cbv zeta. subst m.
  rewrite sdec_built_mf by exact Hf. cbn [obind].
  rewrite all_zero_zeros, length_zeros. replace (_ <? 8)%nat with true by (symmetry; apply Nat.ltb_lt, pad8_lt8).
  cbn [andb guard obind]. rewrite app_nil_r. reflexivity.
Qed.

Theorem sdec_built_note bs fuel rest : N.of_nat (length bs) <? 65000 = true ->
  sdec_action (S fuel) (wire (norm (build_a (ANote bs))) ++ rest) = Some (canon (norm (build_a (ANote bs))), rest).
Proof.
  intros Hsz.
  assert (Hn : norm (build_a (ANote bs)) = T KNxNote (nx 8 (round8 (10 + N.of_nat (length bs))) ++ [VB bs]) []).
  { cbn [build_a norm writeback map]. unfold nx. cbn [app set_nth].
    cbn [glen lenrule_of layout nxhdr app fields_len lenround align8 map sumN fold_right].
    change (N.of_nat 2) with 2. change (N.of_nat 4) with 4.
    match goal with |- context [round8 ?x] => replace x with (10 + N.of_nat (length bs)) by lia end. reflexivity. }
  rewrite Hn. set (L := round8 (10 + N.of_nat (length bs))).
  pose proof (round8_ge (10 + N.of_nat (length bs))) as (HL1 & HL2 & HL3). fold L in HL1, HL2, HL3.
  rewrite (wire_nx_padded KNxNote L 8 [FV] [] eq_refl eq_refl [VB bs]).
  cbn [enc_fields flat_map]. rewrite !app_nil_r.
  rewrite sdec_nx_prologue; try lia.
  2:{ rewrite (blen_padded (length bs) bs eq_refl 10%nat eq_refl). reflexivity. }
  cbn [N.eqb Pos.eqb]. cbv zeta. unfold nx. cbn [canon app]. reflexivity.
Qed.

Theorem sdec_built_cntids c ids fuel rest : c = N.of_nat (length ids) -> c < 30000 ->
  sdec_action (S fuel) (wire (norm (build_a (ADecTtlCntIds c ids))) ++ rest) = Some (norm (build_a (ADecTtlCntIds c ids)), rest).
Proof.
  intros Hc Hsz.
  assert (Hn : norm (build_a (ADecTtlCntIds c ids)) = build_a (ADecTtlCntIds c ids)) by reflexivity.
  rewrite Hn. cbn [build_a]. set (L := round8 (16 + 2 * N.of_nat (length ids))).
  pose proof (round8_ge (16 + 2 * N.of_nat (length ids))) as (HL1 & HL2 & HL3). fold L in HL1, HL2, HL3.
  rewrite (wire_nx_padded KNxDecTtlCntIds L 21 [FU 2; FZ 4; FV] [] eq_refl eq_refl [VN c; VB (ids_bytes ids)]).
  cbn [enc_fields flat_map]. rewrite !app_nil_r.
  set (I := ids_bytes ids). assert (HI : length I = (2 * length ids)%nat) by apply length_ids_bytes.
  assert (Hlen : length (be_bytes 2 c ++ zeros 4 ++ I) = (6 + length I)%nat) by (rewrite !app_length, length_be_bytes, length_zeros; lia).
  rewrite sdec_nx_prologue; try lia.
  2:{ rewrite (blen_padded _ _ eq_refl 10%nat eq_refl). rewrite Hlen, HI. subst L. f_equal. lia. }
  cbn [N.eqb Pos.eqb]. cbv zeta.
  rewrite <- !app_assoc.
  change (be_bytes 2 c ++ zeros 4 ++ I ++ zeros (pad8 (10 + length (be_bytes 2 c ++ zeros 4 ++ I))))
    with (enc_fields [FU 2; FZ 4] [VN c] ++ (I ++ zeros (pad8 (10 + length (be_bytes 2 c ++ zeros 4 ++ I))))).
  rewrite sfields_enc; [|reflexivity|cbn [vals_ok]; change (256 ^ N.of_nat 2) with 65536; replace (c <? 65536) with true by lia; reflexivity].
  cbn [obind].
  pose proof (take_app I (zeros (pad8 (10 + length (be_bytes 2 c ++ zeros 4 ++ I))))) as Ht.
  unfold Walk.blen in Ht. replace (N.of_nat (length I)) with (2 * c) in Ht by lia. rewrite Ht. cbn [obind].
  rewrite all_zero_zeros, length_zeros. replace (_ <? 8)%nat with true by (symmetry; apply Nat.ltb_lt, pad8_lt8).
  cbn [andb guard obind]. unfold nx. cbn [app]. reflexivity.
Qed.

(* ---------------------------------------------------------------- learn *)
From LOF Require Import Proofs.ProtoP.

(* the header word of a flow-mod spec, read back: for every constructor and every bit count
   (finite: 5 x 2048, complete sweep) *)
Definition lspec_word_ok (hk nbits : N) : bool :=
  let w := lspec_word hk nbits mod 65536 in
  (N.land w 2047 =? nbits) && Bool.eqb (N.testbit w 13) ((hk =? 0) || (hk =? 2)) &&
  (N.land (N.shiftr w 11) 3 =? (if hk =? 4 then 2 else if (hk =? 2) || (hk =? 3) then 1 else 0)) &&
  negb (N.testbit w 14) && negb (N.testbit w 15) && ((nbits =? 0) || negb (w =? 0)).
Lemma lspec_word_sweep : forallb (fun hk => forallb (lspec_word_ok hk) (nrange 2048)) (nrange 5) = true.
Proof. vm_compute. reflexivity. Qed.
Lemma lspec_word_dec hk nbits : hk < 5 -> nbits < 2048 -> lspec_word_ok hk nbits = true.
Proof. apply (sweep2_lift 5 2048 lspec_word_ok lspec_word_sweep). Qed.

Definition lspec_wf (s : lspec) : bool :=
  match s with LSpec hk nbits src dst sv =>
    (hk <? 5) && (0 <? nbits) && (nbits <? 2048) && (negb ((hk =? 0) || (hk =? 2)) || (2 * ((nbits + 15) / 16) <=? N.of_nat (length sv)))
  end.

Lemma length_lspec_field x : length (lspec_field x) = 6%nat.
Proof. unfold lspec_field. rewrite app_length. reflexivity. Qed.

Lemma sdec_built_lspec s rest : lspec_wf s = true ->
  sdec_lspec (wire (build_lspec s) ++ rest) = Some (build_lspec s, rest) /\
  (exists w X, wire (build_lspec s) = be_bytes 2 w ++ X /\ 0 < w < 65536).
Proof.
  destruct s as [hk nbits src dst sv]. cbn [lspec_wf]. intros H.
  apply andb_true_iff in H as [H H4]. apply andb_true_iff in H as [H H3]. apply andb_true_iff in H as [H1 H2].
  pose proof (lspec_word_dec hk nbits ltac:(lia) ltac:(lia)) as Hw. unfold lspec_word_ok in Hw. cbv zeta in Hw.
  set (w := lspec_word hk nbits mod 65536) in *.
  repeat (apply andb_true_iff in Hw as [Hw ?]).
  match goal with Hx : ((nbits =? 0) || negb (w =? 0)) = true |- _ => rename Hx into Hnz end.
  match goal with Hx : negb (N.testbit w 15) = true |- _ => rename Hx into H15 end.
  match goal with Hx : negb (N.testbit w 14) = true |- _ => rename Hx into H14 end.
  match goal with Hx : (N.land (N.shiftr w 11) 3 =? _) = true |- _ => rename Hx into Hdst end.
  match goal with Hx : Bool.eqb (N.testbit w 13) _ = true |- _ => rename Hx into Hsrc end.
  apply N.eqb_eq in Hw, Hdst. apply Bool.eqb_prop in Hsrc.
  assert (Hwlt : w < 65536) by (subst w; lia).
  assert (Hwnz : 0 < w) by (replace (nbits =? 0) with false in Hnz by lia; cbn [orb] in Hnz; lia).
  unfold build_lspec. fold w. cbv zeta.
  set (srcpart := if ((hk =? 0) || (hk =? 2))%bool then firstn (N.to_nat (2 * ((nbits + 15) / 16))) sv else lspec_field src).
  set (dstpart := if hk =? 4 then [] else lspec_field dst).
  assert (Hws : wire (T KLearnSpec [VN w; VB (srcpart ++ dstpart)] []) = be_bytes 2 w ++ srcpart ++ dstpart).
  { cbn [wire layout enc_fields align8 flat_map]. rewrite !app_nil_r. reflexivity. }
  split; [|exists w, (srcpart ++ dstpart); split; [exact Hws|lia]].
  rewrite Hws. unfold sdec_lspec. rewrite <- !app_assoc.
  rewrite num_be by (change (256 ^ N.of_nat 2) with 65536; lia). cbn [obind]. cbv zeta.
  rewrite Hw, Hdst, Hsrc.
  replace ((if hk =? 4 then 2 else if (hk =? 2) || (hk =? 3) then 1 else 0) <? 3) with true by (destruct (hk =? 4), ((hk =? 2) || (hk =? 3)); reflexivity).
  rewrite H14, H15. cbn [andb guard obind].
  assert (Hsl : N.of_nat (length srcpart) = if ((hk =? 0) || (hk =? 2))%bool then 2 * ((nbits + 15) / 16) else 6).
  { subst srcpart. destruct ((hk =? 0) || (hk =? 2))%bool; [cbn [negb orb] in H4; rewrite firstn_length; lia|rewrite length_lspec_field; reflexivity]. }
  assert (Hdl : N.of_nat (length dstpart) = if (if hk =? 4 then 2 else if (hk =? 2) || (hk =? 3) then 1 else 0) =? 2 then 0 else 6).
  { subst dstpart. destruct (hk =? 4); [reflexivity|]. rewrite length_lspec_field. destruct ((hk =? 2) || (hk =? 3)); reflexivity. }
  pose proof (take_app (srcpart ++ dstpart) rest) as Ht. unfold Walk.blen in Ht.
  rewrite app_length, Nat2N.inj_add, Hsl, Hdl, <- app_assoc in Ht. rewrite Ht. cbn [obind]. reflexivity.
Qed.

Lemma zeros_split a b : zeros (a + b) = zeros a ++ zeros b.
Proof. unfold zeros. apply repeat_app. Qed.

Lemma num2_zeros k : (2 <= k)%nat -> num 2 (zeros k) = Some (0, zeros (k - 2)).
Proof.
  intros H. replace k with (2 + (k - 2))%nat at 1 by lia. rewrite zeros_split.
  change (zeros 2) with (be_bytes 2 0). apply num_be. reflexivity.
Qed.

Lemma sdec_lspecs_end k fuel : sdec_lspecs (S fuel) (zeros k) = Some [].
Proof.
  cbn [sdec_lspecs]. rewrite length_zeros. destruct (k <? 2)%nat eqn:E; [rewrite all_zero_zeros; reflexivity|].
  apply Nat.ltb_ge in E. rewrite num2_zeros by exact E. rewrite all_zero_zeros. reflexivity.
Qed.

Lemma sdec_lspecs_built specs k : forallb lspec_wf specs = true ->
  forall fuel, (length specs < fuel)%nat ->
  sdec_lspecs fuel (flat_map wire (map build_lspec specs) ++ zeros k) = Some (map build_lspec specs).
Proof.
  induction specs as [|s r IH]; intros H fuel Hf; cbn [map flat_map forallb length] in *.
  - destruct fuel; [lia|]. apply sdec_lspecs_end.
  - apply andb_true_iff in H as [Hs Hr]. destruct fuel as [|fuel]; [lia|].
    destruct (sdec_built_lspec s (flat_map wire (map build_lspec r) ++ zeros k) Hs) as [Hd (w & X & HX & Hw)].
    cbn [sdec_lspecs]. rewrite <- app_assoc.
    assert (Hlen : (length (wire (build_lspec s) ++ flat_map wire (map build_lspec r) ++ zeros k) <? 2)%nat = false).
    { apply Nat.ltb_ge. rewrite HX, !app_length, length_be_bytes. lia. }
    rewrite Hlen.
    assert (Hnum : num 2 (wire (build_lspec s) ++ flat_map wire (map build_lspec r) ++ zeros k) =
                   Some (w, X ++ flat_map wire (map build_lspec r) ++ zeros k)).
    { rewrite HX, <- app_assoc. apply num_be. change (256 ^ N.of_nat 2) with 65536. lia. }
    rewrite Hnum. destruct w as [|p]; [lia|].
    rewrite Hd. cbn [obind]. rewrite IH by (try exact Hr; lia). reflexivity.
Qed.

Lemma lspecs_len specs : (length specs <= length (flat_map wire (map build_lspec specs)))%nat.
Proof.
  induction specs as [|s r IH]; cbn [map flat_map length]; [lia|]. rewrite app_length.
  assert (2 <= length (wire (build_lspec s)))%nat; [|lia].
  destruct s. cbn [build_lspec wire layout enc_fields align8 flat_map]. rewrite !app_length, length_be_bytes. lia.
Qed.

Definition learn_ok (a : arec) : bool :=
  match a with
  | ALearn idle hard prio cookie flags table fi fh specs =>
    (idle <? 65536) && (hard <? 65536) && (prio <? 65536) && (cookie <? 18446744073709551616) && (flags <? 65536) &&
    (table <? 256) && (fi <? 65536) && (fh <? 65536) && forallb lspec_wf specs &&
    (sumN (map glen (map build_lspec specs)) <? 65000)
  | _ => false
  end.

Lemma norm_build_lspec s : norm (build_lspec s) = build_lspec s.
Proof. destruct s. reflexivity. Qed.
Lemma map_norm_lspecs specs : map norm (map build_lspec specs) = map build_lspec specs.
Proof. induction specs as [|s r IH]; cbn [map]; [reflexivity|]. rewrite norm_build_lspec, IH. reflexivity. Qed.

Lemma sum_glen_wire ks : forallb consistent ks = true -> sumN (map glen ks) = N.of_nat (length (flat_map wire ks)).
Proof.
  intros Hcons. rewrite (forall_consistent_glen _ Hcons). clear. induction ks as [|k r IH]; [reflexivity|].
  cbn [map sumN fold_right flat_map]. unfold sumN in IH. rewrite IH, app_length. unfold size. lia.
Qed.

Theorem sdec_built_learn a fuel rest : learn_ok a = true ->
  sdec_action (S fuel) (wire (norm (build_a a)) ++ rest) = Some (norm (build_a a), rest).
Proof.
  destruct a; try discriminate. cbn [learn_ok]. intros H.
  repeat (apply andb_true_iff in H as [H ?]).
  match goal with Hx : forallb lspec_wf specs = true |- _ => rename Hx into Hspecs end.
  set (ks := map build_lspec specs) in *.
  assert (Hcons : forallb consistent ks = true) by (subst ks; apply forallb_map_true, BuildP.lspec_ok).
  pose proof (sum_glen_wire ks Hcons) as Hsum.
  set (L := round8 (32 + sumN (map glen ks))).
  assert (Hn : norm (build_a (ALearn idle hard prio cookie flags table finidle finhard specs)) =
               T KNxLearn (nx 16 L ++ [VN idle; VN hard; VN prio; VN cookie; VN flags; VN table; VN finidle; VN finhard]) ks).
  { cbn [build_a norm writeback]. rewrite map_norm_lspecs. fold ks. unfold nx. cbn [app set_nth].
    cbn [glen lenrule_of layout nxhdr app fields_len lenround align8].
    change (N.of_nat 1) with 1. change (N.of_nat 2) with 2. change (N.of_nat 4) with 4. change (N.of_nat 8) with 8.
    match goal with |- context [round8 ?x] => replace x with (32 + sumN (map glen ks)) by lia end. reflexivity. }
  rewrite Hn.
  pose proof (round8_ge (32 + sumN (map glen ks))) as (HL1 & HL2 & HL3). fold L in HL1, HL2, HL3.
  rewrite (wire_nx_padded KNxLearn L 16 [FU 2; FU 2; FU 2; FU 8; FU 2; FU 1; FZ 1; FU 2; FU 2] ks eq_refl eq_refl).
  set (vals := [VN idle; VN hard; VN prio; VN cookie; VN flags; VN table; VN finidle; VN finhard]).
  set (F := enc_fields [FU 2; FU 2; FU 2; FU 8; FU 2; FU 1; FZ 1; FU 2; FU 2] vals).
  assert (HF : length F = 22%nat) by (subst F vals; cbn [enc_fields]; rewrite !app_length, !length_be_bytes, length_zeros; reflexivity).
  rewrite sdec_nx_prologue; try lia.
  2:{ rewrite (blen_padded _ _ eq_refl 10%nat eq_refl). rewrite app_length, HF. subst L. f_equal. lia. }
  cbn [N.eqb Pos.eqb]. cbv zeta.
  rewrite <- app_assoc. subst F. rewrite sfields_enc; [|reflexivity|].
  2:{ subst vals. cbn [vals_ok]. change (256 ^ N.of_nat 1) with 256. change (256 ^ N.of_nat 2) with 65536. change (256 ^ N.of_nat 8) with 18446744073709551616.
      repeat (apply andb_true_iff; split); try assumption; reflexivity. }
  cbn [obind]. subst ks. rewrite sdec_lspecs_built; [|exact Hspecs|].
  2:{ rewrite app_length. pose proof (lspecs_len specs). lia. }
  cbn [obind]. reflexivity.
Qed.

(* ---------------------------------------------------------------- NAT *)
Definition bit_of {A} (o : option A) (b : N) : N := match o with Some _ => b | None => 0 end.
Definition present_of (s : natst) : N :=
  bit_of (n_ip4min s) 1 + bit_of (n_ip4max s) 2 + bit_of (n_ip6min s) 4 + bit_of (n_ip6max s) 8 +
  bit_of (n_pmin s) 16 + bit_of (n_pmax s) 32.

Lemma nat_apply_present s o : n_present s = present_of s -> n_flags s < 32 ->
  n_present (nat_apply s o) = present_of (nat_apply s o) /\ n_flags (nat_apply s o) < 32.
Proof.
  intros Hp Hf. unfold present_of in *.
  assert (Hfl : forall b, (b = 1 \/ b = 2 \/ b = 4 \/ b = 8 \/ b = 16) -> N.lor (n_flags s) b < 32).
  { intros b Hb. assert (Hx : N.lor (n_flags s) b = N.lor (n_flags s mod 32) b) by (f_equal; lia). rewrite Hx.
    assert (Hr : forallb (fun x => forallb (fun y => N.lor x y <? 32) [1;2;4;8;16]) (nrange 32) = true) by (vm_compute; reflexivity).
    pose proof (sweep1_lift 32 _ Hr (n_flags s mod 32) ltac:(lia)) as Hs. cbn [forallb] in Hs.
    repeat (apply andb_true_iff in Hs as [? Hs]). destruct Hb as [->|[->|[->|[->| ->]]]]; lia. }
  destruct s as [fl pr ln a b c d e f]. cbn [n_present n_flags n_ip4min n_ip4max n_ip6min n_ip6max n_pmin n_pmax] in *.
  destruct o; cbn [nat_apply n_present n_flags n_ip4min n_ip4max n_ip6min n_ip6max n_pmin n_pmax has];
    repeat match goal with |- context [if ?c then _ else _] => destruct c end;
    cbn [n_present n_flags n_ip4min n_ip4max n_ip6min n_ip6max n_pmin n_pmax];
    (split; [|solve [assumption | apply Hfl; tauto]]); try assumption.
  all: subst pr; destruct a, b, c, d, e, f; reflexivity.
Qed.

Lemma nat_fold_inv sets : forall s, n_present s = present_of s -> n_flags s < 32 ->
  n_present (fold_left nat_apply sets s) = present_of (fold_left nat_apply sets s) /\ n_flags (fold_left nat_apply sets s) < 32.
Proof.
  induction sets as [|o r IH]; intros s Hp Hf; cbn [fold_left]; [split; assumption|].
  destruct (nat_apply_present s o Hp Hf) as [Hp' Hf']. apply IH; assumption.
Qed.

Lemma take_fit w b rest : take (N.of_nat w) (fit w b ++ rest) = Some (fit w b, rest).
Proof. pose proof (take_app (fit w b) rest) as H. unfold Walk.blen in H. rewrite length_fit in H. exact H. Qed.
Lemma take_be16 p rest : take 2 (be16 p ++ rest) = Some (be16 p, rest).
Proof. apply (take_app (be16 p) rest). Qed.

Lemma wire_raw x : wire (raw x) = x.
Proof. unfold raw. cbn [wire layout enc_fields align8 flat_map]. rewrite !app_nil_r. reflexivity. Qed.

(* the optional parts are read back in the order of the presence bits *)
Lemma nat_parts_built s pad : 
  nat_parts (present_of s)
    (flat_map wire (opt_raw 4 (n_ip4min s) ++ opt_raw 4 (n_ip4max s) ++ opt_raw 16 (n_ip6min s) ++ opt_raw 16 (n_ip6max s)
                    ++ opt_rawN (n_pmin s) ++ opt_rawN (n_pmax s)) ++ pad) =
  Some (opt_raw 4 (n_ip4min s) ++ opt_raw 4 (n_ip4max s) ++ opt_raw 16 (n_ip6min s) ++ opt_raw 16 (n_ip6max s)
        ++ opt_rawN (n_pmin s) ++ opt_rawN (n_pmax s), pad).
Proof.
  destruct s as [fl pr ln a b c d e f]. unfold present_of. cbn [n_ip4min n_ip4max n_ip6min n_ip6max n_pmin n_pmax].
  destruct a, b, c, d, e, f; cbn [bit_of opt_raw opt_rawN app flat_map N.add Pos.add Pos.succ];
    unfold nat_parts; cbn [N.testbit Pos.testbit N.pred Pos.pred_N Pos.pred_double obind];
    rewrite ?wire_raw, <- ?app_assoc;
    repeat first [ rewrite (take_fit 4) | rewrite (take_fit 16) | rewrite take_be16 | progress cbn [obind app] ];
    reflexivity.
Qed.

Definition nat_kids (s : natst) : list tree :=
  opt_raw 4 (n_ip4min s) ++ opt_raw 4 (n_ip4max s) ++ opt_raw 16 (n_ip6min s) ++ opt_raw 16 (n_ip6max s)
  ++ opt_rawN (n_pmin s) ++ opt_rawN (n_pmax s).

Lemma map_norm_nat_kids s : map norm (nat_kids s) = nat_kids s.
Proof. unfold nat_kids. destruct (n_ip4min s), (n_ip4max s), (n_ip6min s), (n_ip6max s), (n_pmin s), (n_pmax s); reflexivity. Qed.

Lemma nat_kids_len s : N.of_nat (length (flat_map wire (nat_kids s))) = parts_len s.
Proof.
  unfold nat_kids, parts_len.
  destruct (n_ip4min s), (n_ip4max s), (n_ip6min s), (n_ip6max s), (n_pmin s), (n_pmax s);
    cbn [opt_raw opt_rawN app flat_map]; rewrite ?wire_raw, ?app_length, ?length_fit, ?app_nil_r; cbn [length be16 be_bytes]; try reflexivity.
Qed.

Lemma present_of_lt s : present_of s < 64.
Proof. unfold present_of. destruct (n_ip4min s), (n_ip4max s), (n_ip6min s), (n_ip6max s), (n_pmin s), (n_pmax s); cbn [bit_of]; lia. Qed.

Theorem sdec_built_nat sets fuel rest : nat_ok sets = true ->
  sdec_action (S fuel) (wire (norm (build_a (ANat sets))) ++ rest) = Some (norm (build_a (ANat sets)), rest).
Proof.
  intros Hok. cbn [build_a]. set (s := fold_left nat_apply sets nat0) in *.
  destruct (nat_fold_inv sets nat0 eq_refl ltac:(cbn; lia)) as [Hp Hf]. fold s in Hp, Hf.
  unfold nat_ok in Hok. fold s in Hok. apply N.eqb_eq in Hok.
  pose proof (parts_len s) as _. assert (Hpl : parts_len s <= 44) by (unfold parts_len; destruct (n_ip4min s), (n_ip4max s), (n_ip6min s), (n_ip6max s), (n_pmin s), (n_pmax s); lia).
  set (L := round8 (n_len s)).
  assert (Hn : norm (nat_tree s) = T KNxNat (nx 36 L ++ [VN (n_flags s); VN (n_present s)]) (nat_kids s)).
  { unfold nat_tree. fold (nat_kids s). cbn [norm writeback]. rewrite map_norm_nat_kids. unfold nx. cbn [app set_nth].
    cbn [glen lenrule_of vnum nth]. reflexivity. }
  rewrite Hn. pose proof (round8_ge (n_len s)) as (HL1 & HL2 & HL3). fold L in HL1, HL2, HL3.
  rewrite (wire_nx_padded KNxNat L 36 [FZ 2; FU 2; FU 2] (nat_kids s) eq_refl eq_refl).
  set (F := enc_fields [FZ 2; FU 2; FU 2] [VN (n_flags s); VN (n_present s)]).
  assert (HF : length F = 6%nat) by reflexivity.
  pose proof (nat_kids_len s) as Hkl. pose proof (present_of_lt s) as Hplt.
  rewrite sdec_nx_prologue; try lia.
  2:{ rewrite (blen_padded _ _ eq_refl 10%nat eq_refl). rewrite app_length, HF. subst L. f_equal. lia. }
  cbn [N.eqb Pos.eqb]. cbv zeta.
  rewrite <- app_assoc. subst F. rewrite sfields_enc; [|reflexivity|].
  2:{ cbn [vals_ok]. change (256 ^ N.of_nat 2) with 65536. replace (n_flags s <? 65536) with true by lia.
      replace (n_present s <? 65536) with true by lia. reflexivity. }
  cbn [obind]. replace (n_present s <? 64) with true by lia. cbn [guard obind].
  rewrite Hp at 1. unfold nat_kids at 1. rewrite nat_parts_built. cbn [obind]. fold (nat_kids s).
  rewrite all_zero_zeros, length_zeros. replace (_ <? 8)%nat with true by (symmetry; apply Nat.ltb_lt, pad8_lt8).
  cbn [andb guard obind]. unfold nx. cbn [app]. reflexivity.
Qed.

(* ---------------------------------------------------------------- conntrack and the general theorem *)
Lemma sdec_action_nil fuel : sdec_action fuel [] = None.
Proof. destruct fuel; reflexivity. Qed.

Lemma go_acts_built fuel (ts : list tree) (ds : list tree) :
  Forall2 (fun t d => forall rest, sdec_action fuel (wire t ++ rest) = Some (d, rest)) ts ds ->
  forall f, (length (flat_map wire ts) < f)%nat -> go_acts fuel f (flat_map wire ts) = Some ds.
Proof.
  induction 1 as [|t d ts ds Ht _ IH]; intros f Hf; cbn [flat_map] in *.
  - destruct f; [lia|reflexivity].
  - destruct f as [|f]; [lia|]. cbn [go_acts].
    assert (Hne : wire t <> []).
    { intros E. specialize (Ht []). rewrite E in Ht. cbn [app] in Ht. rewrite sdec_action_nil in Ht. discriminate. }
    rewrite app_length in Hf.
    destruct (wire t ++ flat_map wire ts) as [|b0 l0] eqn:E.
    { apply app_eq_nil in E as [E _]. contradiction. }
    rewrite <- E. rewrite Ht. cbn [obind]. rewrite app_length.
    assert (0 < length (wire t))%nat by (destruct (wire t); [contradiction|cbn; lia]).
    replace (_ <? _)%nat with true by (symmetry; apply Nat.ltb_lt; lia).
    cbn [guard obind]. fold (go_acts fuel). rewrite IH by lia. reflexivity.
Qed.

Definition ct_ok (sets : list ctset) (alg : N) : bool :=
  let '(flags, zsrc, zofs, tbl) := fold_left ct_apply sets (0, 0, 0, 255) in
  (flags <? 65536) && (zsrc <? 4294967296) && (zofs <? 65536) && (tbl <? 256) && (alg <? 65536).

Fixpoint act_ok (a : arec) : bool :=
  match a with
  | ASetField f | ARegLoad2 f => setfield_ok f
  | ANote bs => N.of_nat (length bs) <? 65000
  | ADecTtlCntIds c ids => (c =? N.of_nat (length ids)) && (c <? 30000)
  | ALearn _ _ _ _ _ _ _ _ _ => learn_ok a
  | ANat sets => nat_ok sets
  | ACT sets alg kids => ct_ok sets alg && forallb act_ok kids && (sumN (map glen (map build_a kids)) <? 65000)
  | _ => fixed_arec_ok a
  end.

Fixpoint adepth (a : arec) : nat :=
  match a with ACT _ _ kids => S (fold_right Nat.max 0%nat (map adepth kids)) | _ => 0%nat end.

Lemma act_ok_wf a : act_ok a = true -> wf_a a = true.
Proof.
  induction a as [sets alg kids IH|a Hn] using arec_ind'; intros H.
  - cbn [act_ok wf_a] in *. apply andb_true_iff in H as [H _]. apply andb_true_iff in H as [_ H].
    rewrite forallb_forall in *. rewrite Forall_forall in IH. intros x Hx. apply IH; [exact Hx|apply H, Hx].
  - destruct a; try reflexivity; cbn [act_ok wf_a] in *; try exact H. exfalso. eapply Hn. reflexivity.
Qed.

Lemma norm_fixed a : fixed_arec_ok a = true -> norm (build_a a) = build_a a /\ canon (build_a a) = build_a a.
Proof. destruct a; try discriminate; intros _; split; reflexivity. Qed.

Lemma built_norm_size a : wf_a a = true ->
  size (norm (build_a a)) = glen (build_a a) /\ glen (build_a a) mod 8 = 0.
Proof.
  intros H. destruct (build_a_ok a H) as [Hc H8]. pose proof (consistent_shaped _ Hc) as Hs.
  destruct (norm_keeps _ Hs) as (_ & Hsz & _). rewrite Hsz, (glen_size _ Hc). split; [reflexivity|exact H8].
Qed.

Lemma flat_norm_len kids : forallb wf_a kids = true ->
  N.of_nat (length (flat_map wire (map norm (map build_a kids)))) = sumN (map glen (map build_a kids)) /\
  sumN (map glen (map build_a kids)) mod 8 = 0.
Proof.
  induction kids as [|k r IH]; intros H; cbn [map flat_map forallb sumN fold_right] in *; [split; reflexivity|].
  apply andb_true_iff in H as [Hk Hr]. destruct (IH Hr) as [IH1 IH2]. destruct (built_norm_size k Hk) as [Hs H8].
  rewrite app_length, Nat2N.inj_add. unfold size in Hs. rewrite Hs. unfold sumN in *. rewrite IH1. split; [reflexivity|lia].
Qed.

Theorem sdec_built_action : forall a, act_ok a = true -> forall fuel rest, (adepth a <= fuel)%nat ->
  sdec_action (S fuel) (wire (norm (build_a a)) ++ rest) = Some (canon (norm (build_a a)), rest).
Proof.
  induction a as [sets alg kids IH|a Hn] using arec_ind'; intros Hok fuel rest Hd.
  - (* conntrack *)
    cbn [act_ok] in Hok. apply andb_true_iff in Hok as [Hok Hsz]. apply andb_true_iff in Hok as [Hct Hkids].
    assert (Hwf : forallb wf_a kids = true).
    { rewrite forallb_forall in *. intros x Hx. apply act_ok_wf, Hkids, Hx. }
    destruct (flat_norm_len kids Hwf) as [Hlen H8].
    cbn [adepth] in Hd. destruct fuel as [|fuel]; [lia|].
    unfold ct_ok in Hct. cbn [build_a].
    destruct (fold_left ct_apply sets (0, 0, 0, 255)) as [[[flags zsrc] zofs] tbl].
    repeat (apply andb_true_iff in Hct as [Hct ?]).
    set (ks := map build_a kids) in *. set (L := 24 + sumN (map glen ks)).
    assert (Hn : norm (T KNxConnTrack (nx 35 L ++ [VN flags; VN zsrc; VN zofs; VN tbl; VN alg]) ks) =
                 T KNxConnTrack (nx 35 L ++ [VN flags; VN zsrc; VN zofs; VN tbl; VN alg]) (map norm ks)) by reflexivity.
    rewrite Hn. cbn [canon]. 
    set (vals := [VN flags; VN zsrc; VN zofs; VN tbl; VN alg]).
    set (F := enc_fields [FU 2; FU 4; FU 2; FU 1; FZ 3; FU 2] vals).
    assert (HF : length F = 14%nat) by reflexivity.
    set (X := flat_map wire (map norm ks)) in *.
    assert (Hw : wire (T KNxConnTrack (nx 35 L ++ vals) (map norm ks)) = nxbytes L 35 (F ++ X)).
    { cbn [wire layout align8]. unfold nx, nxbytes, nxhdr. cbn [app enc_fields]. rewrite <- !app_assoc. reflexivity. }
    rewrite Hw. rewrite sdec_nx_prologue; try lia.
    2:{ unfold Walk.blen. rewrite app_length, HF. subst L. lia. }
    cbn [N.eqb Pos.eqb]. cbv zeta.
    subst F. rewrite sfields_enc; [|reflexivity|].
    2:{ subst vals. cbn [vals_ok]. change (256 ^ N.of_nat 1) with 256. change (256 ^ N.of_nat 2) with 65536. change (256 ^ N.of_nat 4) with 4294967296.
        repeat (apply andb_true_iff; split); try assumption; reflexivity. }
    cbn [obind].
    rewrite (go_acts_built (S fuel) (map norm ks) (map canon (map norm ks))); [reflexivity| |unfold X; lia].
    subst ks. clear - IH Hkids Hd. rewrite !map_map.
    induction kids as [|k r IHr]; cbn [map]; constructor.
    + inversion IH as [|? ? Hk Hr']; subst. cbn [forallb] in Hkids. apply andb_true_iff in Hkids as [Hk1 Hk2].
      intros rest. apply Hk; [exact Hk1|]. cbn [map fold_right] in Hd. lia.
    + inversion IH as [|? ? Hk Hr']; subst. cbn [forallb] in Hkids. apply andb_true_iff in Hkids as [Hk1 Hk2].
      apply IHr; [exact Hr'|exact Hk2|]. cbn [map fold_right] in Hd. lia.
  - (* everything else *)
    destruct a; cbn [act_ok] in Hok.
    all: try (destruct (norm_fixed _ Hok) as [Hn1 Hn2]; rewrite Hn1, Hn2; apply sdec_built_fixed_action; exact Hok).
    + (* set-field *) replace (norm (build_a (ASetField f))) with (build_a (ASetField f)).
      2:{ cbn [build_a norm writeback map]. rewrite norm_build_mf. reflexivity. }
      replace (canon (build_a (ASetField f))) with (build_a (ASetField f)).
      2:{ cbn [build_a canon map]. destruct f as [ctor v m|idx data rng|idx data mask|d m]; cbn [build_mf];
            [destruct (mf_table ctor) as [[[[c0 f0] w0] fl0]|]; [destruct m|]|destruct rng as [[s e]|]| |]; reflexivity. }
      apply sdec_built_setfield, Hok.
    + exfalso. eapply Hn. reflexivity.
    + (* nat *) replace (canon (norm (build_a (ANat sets)))) with (norm (build_a (ANat sets))); [apply sdec_built_nat, Hok|].
      cbn [build_a]. unfold nat_tree. cbn [norm writeback canon]. f_equal.
      destruct (n_ip4min _), (n_ip4max _), (n_ip6min _), (n_ip6max _), (n_pmin _), (n_pmax _); reflexivity.
    + (* cnt ids *) apply andb_true_iff in Hok as [H1 H2]. apply N.eqb_eq in H1.
      replace (canon (norm (build_a (ADecTtlCntIds c ids)))) with (norm (build_a (ADecTtlCntIds c ids))) by reflexivity.
      apply sdec_built_cntids; [exact H1|lia].
    + (* learn *) replace (canon (norm (build_a (ALearn idle hard prio cookie flags table finidle finhard specs))))
        with (norm (build_a (ALearn idle hard prio cookie flags table finidle finhard specs))); [apply sdec_built_learn, Hok|].
      cbn [build_a norm writeback canon]. f_equal. rewrite map_norm_lspecs.
      clear. induction specs as [|s r IH]; cbn [map]; [reflexivity|]. rewrite <- IH. destruct s. reflexivity.
    + (* note *) apply sdec_built_note, Hok.
    + (* reg_load2 *) replace (canon (norm (build_a (ARegLoad2 f)))) with (norm (build_a (ARegLoad2 f))); [apply sdec_built_regload2, Hok|].
      rewrite norm_regload2. cbn [canon map]. f_equal.
      destruct f as [ctor v m|idx data rng|idx data mask|d m]; cbn [build_mf];
        [destruct (mf_table ctor) as [[[[c0 f0] w0] fl0]|]; [destruct m|]|destruct rng as [[s e]|]| |]; reflexivity.
Qed.

(* nesting depth is bounded by size, so the fuel the list walkers hand down always suffices *)
Lemma adepth_glen : forall a, N.of_nat (adepth a) <= glen (build_a a) \/ adepth a = 0%nat.
Proof.
  induction a as [sets alg kids IH|a Hn] using arec_ind'.
  - left. cbn [adepth build_a]. destruct (fold_left ct_apply sets (0, 0, 0, 255)) as [[[flags zsrc] zofs] tbl].
    cbn [glen lenrule_of nx app vnum nth].
    assert (H : N.of_nat (fold_right Nat.max 0%nat (map adepth kids)) <= sumN (map glen (map build_a kids))).
    { induction IH as [|k r Hk _ IHr]; cbn [map fold_right sumN]; [lia|]. unfold sumN in IHr.
      destruct Hk as [Hk|Hk]; lia. }
    lia.
  - right. destruct a; try reflexivity. exfalso. eapply Hn. reflexivity.
Qed.

Lemma adepth_le_wire a : act_ok a = true -> (adepth a <= length (wire (norm (build_a a))))%nat.
Proof.
  intros H. destruct (built_norm_size a (act_ok_wf a H)) as [Hs _]. unfold size in Hs.
  destruct (adepth_glen a) as [Hd|Hd]; lia.
Qed.

Theorem sdec_built_actions acts : forallb act_ok acts = true ->
  forall fuel, (length (flat_map wire (map norm (map build_a acts))) < fuel)%nat ->
  sdec_actions fuel (flat_map wire (map norm (map build_a acts))) = Some (map canon (map norm (map build_a acts))).
Proof.
  induction acts as [|a r IH]; intros H fuel Hf; cbn [map flat_map forallb] in *.
  - destruct fuel; [lia|reflexivity].
  - apply andb_true_iff in H as [Ha Hr]. destruct fuel as [|fuel]; [lia|]. cbn [sdec_actions].
    set (w := wire (norm (build_a a))) in *. set (X := flat_map wire (map norm (map build_a r))) in *.
    pose proof (adepth_le_wire a Ha) as Hdep. fold w in Hdep.
    assert (Hdec : forall f rest, (adepth a <= f)%nat -> sdec_action (S f) (w ++ rest) = Some (canon (norm (build_a a)), rest))
      by (intros f rest Hfd; apply sdec_built_action; assumption).
    assert (Hne : w <> []).
    { intros E. specialize (Hdec (adepth a) [] (le_n _)). rewrite E in Hdec. cbn [app] in Hdec. rewrite sdec_action_nil in Hdec. discriminate. }
    rewrite app_length in Hf.
    destruct (w ++ X) as [|b0 l0] eqn:E.
    { apply app_eq_nil in E as [E _]. contradiction. }
    rewrite <- E. rewrite Hdec by (rewrite app_length; lia). cbn [obind]. rewrite app_length.
    assert (0 < length w)%nat by (destruct w; [contradiction|cbn; lia]).
    replace (_ <? _)%nat with true by (symmetry; apply Nat.ltb_lt; lia).
    cbn [guard obind]. rewrite IH; [reflexivity|exact Hr|lia].
Qed.

(* ---------------------------------------------------------------- instructions *)
(* the order in which AddAction(a, prepend) calls leave the actions *)
Definition add_arec (acc : list arec) (c : arec * bool) : list arec :=
  if snd c then fst c :: acc else acc ++ [fst c].
Definition call_order (calls : list (arec * bool)) : list arec := fold_left add_arec calls [].

Lemma fold_add_action calls : forall acc,
  fold_left add_action (map (fun c => (build_a (fst c), snd c)) calls) (map build_a acc) =
  map build_a (fold_left add_arec calls acc).
Proof.
  induction calls as [|c r IH]; intros acc; cbn [map fold_left]; [reflexivity|].
  unfold add_action at 2, add_arec at 2. cbn [fst snd]. destruct (snd c).
  - rewrite <- IH. reflexivity.
  - rewrite <- IH, map_app. reflexivity.
Qed.

Lemma forallb_fold_add calls : forall acc, forallb act_ok acc = true -> forallb (fun c => act_ok (fst c)) calls = true ->
  forallb act_ok (fold_left add_arec calls acc) = true.
Proof.
  induction calls as [|c r IH]; intros acc Ha Hc; cbn [fold_left forallb] in *; [exact Ha|].
  apply andb_true_iff in Hc as [Hc1 Hc2]. apply IH; [|exact Hc2].
  unfold add_arec. destruct (snd c); [cbn [forallb]; rewrite Hc1, Ha; reflexivity|].
  rewrite forallb_app, Ha. cbn [forallb]. rewrite Hc1. reflexivity.
Qed.

Definition instr_ok (i : irec) : bool :=
  match i with
  | IGoto t => t <? 256
  | IWriteMeta m mask => (m <? 18446744073709551616) && (mask <? 18446744073709551616)
  | IApply calls | IWrite calls =>
    forallb (fun c => act_ok (fst c)) calls && (sumN (map glen (map build_a (call_order calls))) <? 65000)
  end.

Lemma instr_actions_form ty calls :
  instr_actions ty calls = T KInstrActions [VN ty; VN (8 + sumN (map glen (map build_a (call_order calls))))] (map build_a (call_order calls)).
Proof. unfold instr_actions, call_order. pose proof (fold_add_action calls []) as H. cbn [map] in H. rewrite H. reflexivity. Qed.

Lemma flat_norm_len_acts acts : forallb act_ok acts = true ->
  N.of_nat (length (flat_map wire (map norm (map build_a acts)))) = sumN (map glen (map build_a acts)).
Proof.
  intros H. apply flat_norm_len. rewrite forallb_forall in *. intros x Hx. apply act_ok_wf, H, Hx.
Qed.

Lemma sdec_instr_actions ty calls rest : (ty = 3 \/ ty = 4 \/ ty = 5) ->
  forallb (fun c => act_ok (fst c)) calls = true -> sumN (map glen (map build_a (call_order calls))) < 65000 ->
  sdec_instr (wire (norm (instr_actions ty calls)) ++ rest) = Some (canon (norm (instr_actions ty calls)), rest).
Proof.
  intros Hty Hc Hsz. rewrite instr_actions_form. set (acts := call_order calls) in *.
  assert (Hacts : forallb act_ok acts = true) by (apply forallb_fold_add; [reflexivity|exact Hc]).
  pose proof (flat_norm_len_acts acts Hacts) as Hlen.
  set (L := 8 + sumN (map glen (map build_a acts))) in *.
  assert (Hn : norm (T KInstrActions [VN ty; VN L] (map build_a acts)) = T KInstrActions [VN ty; VN L] (map norm (map build_a acts))) by reflexivity.
  rewrite Hn. cbn [canon]. set (X := flat_map wire (map norm (map build_a acts))) in *.
  assert (Hw : wire (T KInstrActions [VN ty; VN L] (map norm (map build_a acts))) = be_bytes 2 ty ++ be_bytes 2 L ++ zeros 4 ++ X).
  { cbn [wire layout enc_fields align8]. rewrite <- !app_assoc. reflexivity. }
  rewrite Hw. unfold sdec_instr. rewrite <- !app_assoc.
  rewrite num_be by (change (256 ^ N.of_nat 2) with 65536; lia). cbn [obind].
  rewrite num_be by (change (256 ^ N.of_nat 2) with 65536; lia). cbn [obind].
  replace (8 <=? L) with true by lia. cbn [guard obind].
  assert (Ht : take L (be_bytes 2 ty ++ be_bytes 2 L ++ zeros 4 ++ X ++ rest) = Some (be_bytes 2 ty ++ be_bytes 2 L ++ zeros 4 ++ X, rest)).
  { pose proof (take_app (be_bytes 2 ty ++ be_bytes 2 L ++ zeros 4 ++ X) rest) as Ht. unfold Walk.blen in Ht.
    rewrite !app_length, !length_be_bytes, length_zeros in Ht. replace (N.of_nat (2 + (2 + (4 + length X)))) with L in Ht by lia.
    rewrite <- !app_assoc in Ht. exact Ht. }
  rewrite Ht. cbn [obind].
  replace (ty =? 1) with false by lia. replace (ty =? 2) with false by lia.
  replace ((ty =? 3) || (ty =? 4) || (ty =? 5))%bool with true by lia.
  change (be_bytes 2 ty ++ be_bytes 2 L ++ zeros 4 ++ X) with (enc_fields [FU 2; FU 2; FZ 4] [VN ty; VN L] ++ X).
  rewrite sfields_enc; [|reflexivity|cbn [vals_ok]; change (256 ^ N.of_nat 2) with 65536; replace (ty <? 65536) with true by lia; replace (L <? 65536) with true by lia; reflexivity].
  cbn [obind]. unfold X. rewrite sdec_built_actions by (try exact Hacts; lia). cbn [obind]. reflexivity.
Qed.

Theorem sdec_built_instr i rest : instr_ok i = true ->
  sdec_instr (wire (norm (build_i i)) ++ rest) = Some (canon (norm (build_i i)), rest).
Proof.
  destruct i as [t|m mask|calls|calls]; cbn [instr_ok build_i]; intros H.
  - replace (canon (norm (T KInstrGoto [VN 1; VN 8; VN t] []))) with (T KInstrGoto [VN 1; VN 8; VN t] []) by reflexivity.
    replace (norm (T KInstrGoto [VN 1; VN 8; VN t] [])) with (T KInstrGoto [VN 1; VN 8; VN t] []) by reflexivity.
    cbn [wire layout enc_fields align8 flat_map]. rewrite !app_nil_r. unfold sdec_instr. rewrite <- !app_assoc.
    rewrite num_be by reflexivity. cbn [obind]. rewrite num_be by reflexivity. cbn [obind guard N.leb N.compare Pos.compare Pos.compare_cont].
    pose proof (take_app (be_bytes 2 1 ++ be_bytes 2 8 ++ be_bytes 1 t ++ zeros 3) rest) as Ht.
    change (Walk.blen (be_bytes 2 1 ++ be_bytes 2 8 ++ be_bytes 1 t ++ zeros 3)) with 8 in Ht. rewrite <- !app_assoc in Ht. rewrite Ht. cbn [obind N.eqb Pos.eqb guard].
    change (be_bytes 2 1 ++ be_bytes 2 8 ++ be_bytes 1 t ++ zeros 3) with (enc_fields [FU 2; FU 2; FU 1; FZ 3] [VN 1; VN 8; VN t] ++ []).
    rewrite sfields_enc; [reflexivity|reflexivity|]. cbn [vals_ok]. change (256 ^ N.of_nat 1) with 256. rewrite H. reflexivity.
  - apply andb_true_iff in H as [H1 H2].
    replace (canon (norm (T KInstrWriteMeta [VN 2; VN 24; VN m; VN mask] []))) with (T KInstrWriteMeta [VN 2; VN 24; VN m; VN mask] []) by reflexivity.
    replace (norm (T KInstrWriteMeta [VN 2; VN 24; VN m; VN mask] [])) with (T KInstrWriteMeta [VN 2; VN 24; VN m; VN mask] []) by reflexivity.
    cbn [wire layout enc_fields align8 flat_map]. rewrite !app_nil_r. unfold sdec_instr. rewrite <- !app_assoc.
    rewrite num_be by reflexivity. cbn [obind]. rewrite num_be by reflexivity. cbn [obind guard N.leb N.compare Pos.compare Pos.compare_cont].
    pose proof (take_app (be_bytes 2 2 ++ be_bytes 2 24 ++ zeros 4 ++ be_bytes 8 m ++ be_bytes 8 mask) rest) as Ht.
    change (Walk.blen (be_bytes 2 2 ++ be_bytes 2 24 ++ zeros 4 ++ be_bytes 8 m ++ be_bytes 8 mask)) with 24 in Ht.
    rewrite <- !app_assoc in Ht. rewrite Ht. cbn [obind N.eqb Pos.eqb guard].
    change (be_bytes 2 2 ++ be_bytes 2 24 ++ zeros 4 ++ be_bytes 8 m ++ be_bytes 8 mask)
      with (enc_fields [FU 2; FU 2; FZ 4; FU 8; FU 8] [VN 2; VN 24; VN m; VN mask] ++ []).
    rewrite sfields_enc; [reflexivity|reflexivity|]. cbn [vals_ok]. change (256 ^ N.of_nat 8) with 18446744073709551616. rewrite H1, H2. reflexivity.
  - apply andb_true_iff in H as [H1 H2]. apply sdec_instr_actions; [tauto|exact H1|lia].
  - apply andb_true_iff in H as [H1 H2]. apply sdec_instr_actions; [tauto|exact H1|lia].
Qed.

(* ---------------------------------------------------------------- buckets *)
Definition bucket_ok (b : brec) : bool :=
  match b with BK w p g acts =>
    (w <? 65536) && (p <? 4294967296) && (g <? 4294967296) && forallb act_ok acts &&
    (sumN (map glen (map build_a acts)) <? 65000)
  end.

Theorem sdec_built_bucket b rest : bucket_ok b = true ->
  sdec_bucket (wire (norm (build_b b)) ++ rest) = Some (canon (norm (build_b b)), rest).
Proof.
  destruct b as [w p g acts]. cbn [bucket_ok build_b]. intros H.
  repeat (apply andb_true_iff in H as [H ?]).
  match goal with Hx : forallb act_ok acts = true |- _ => rename Hx into Hacts end.
  assert (Hwf : forallb wf_a acts = true).
  { rewrite forallb_forall in *. intros x Hx. apply act_ok_wf, Hacts, Hx. }
  destruct (flat_norm_len acts Hwf) as [Hlen H8].
  set (ks := map build_a acts) in *. set (L := 16 + sumN (map glen ks)).
  assert (Hn : norm (T KBucket [VN 16; VN w; VN p; VN g] ks) = T KBucket [VN L; VN w; VN p; VN g] (map norm ks)).
  { cbn [norm writeback set_nth]. f_equal. f_equal. f_equal. cbn [glen lenrule_of layout fields_len lenround].
    change (N.of_nat 2) with 2. change (N.of_nat 4) with 4.
    assert (Hg : sumN (map glen (map norm ks)) = sumN (map glen ks)).
    { subst ks. clear - Hwf. induction acts as [|a r IH]; [reflexivity|]. cbn [forallb] in Hwf. apply andb_true_iff in Hwf as [Ha Hr].
      cbn [map sumN fold_right]. unfold sumN in IH. rewrite (IH Hr). f_equal.
      destruct (build_a_ok a Ha) as [Hc _]. destruct (norm_keeps _ (consistent_shaped _ Hc)) as (_ & _ & Hg). exact Hg. }
    rewrite Hg. subst L. apply round8_fix. lia. }
  rewrite Hn. cbn [canon]. set (X := flat_map wire (map norm ks)) in *.
  assert (Hw : wire (T KBucket [VN L; VN w; VN p; VN g] (map norm ks)) = enc_fields [FU 2; FU 2; FU 4; FU 4; FZ 4] [VN L; VN w; VN p; VN g] ++ X).
  { cbn [wire layout enc_fields align8]. rewrite <- !app_assoc. reflexivity. }
  rewrite Hw. set (F := enc_fields [FU 2; FU 2; FU 4; FU 4; FZ 4] [VN L; VN w; VN p; VN g]).
  assert (HF : length F = 16%nat) by reflexivity.
  unfold sdec_bucket.
  assert (Hn1 : num 2 ((F ++ X) ++ rest) = Some (L, be_bytes 2 w ++ be_bytes 4 p ++ be_bytes 4 g ++ zeros 4 ++ X ++ rest)).
  { subst F. cbn [enc_fields]. rewrite <- !app_assoc. apply num_be. change (256 ^ N.of_nat 2) with 65536. lia. }
  rewrite Hn1. cbn [obind]. replace ((16 <=? L) && (L mod 8 =? 0)) with true by lia. cbn [guard obind].
  pose proof (take_app (F ++ X) rest) as Ht. unfold Walk.blen in Ht. rewrite app_length, HF in Ht.
  replace (N.of_nat (16 + length X)) with L in Ht by lia. rewrite Ht. cbn [obind].
  subst F. rewrite sfields_enc; [|reflexivity|].
  2:{ cbn [vals_ok]. change (256 ^ N.of_nat 2) with 65536. change (256 ^ N.of_nat 4) with 4294967296.
      replace (L <? 65536) with true by lia. cbn [andb]. repeat (apply andb_true_iff; split); try assumption; reflexivity. }
  cbn [obind]. unfold X, ks. rewrite sdec_built_actions by (try exact Hacts; lia). cbn [obind]. reflexivity.
Qed.

Lemma sdec_buckets_built bs : forallb bucket_ok bs = true ->
  forall fuel, (length (flat_map wire (map norm (map build_b bs))) < fuel)%nat ->
  sdec_buckets fuel (flat_map wire (map norm (map build_b bs))) = Some (map canon (map norm (map build_b bs))).
Proof.
  induction bs as [|b r IH]; intros H fuel Hf; cbn [map flat_map forallb] in *.
  - destruct fuel; [lia|reflexivity].
  - apply andb_true_iff in H as [Hb Hr]. destruct fuel as [|fuel]; [lia|]. cbn [sdec_buckets].
    set (w := wire (norm (build_b b))) in *. set (X := flat_map wire (map norm (map build_b r))) in *.
    pose proof (fun rest => sdec_built_bucket b rest Hb) as Hdec. fold w in Hdec.
    assert (Hne : w <> []).
    { intros E. specialize (Hdec []). rewrite E in Hdec. discriminate Hdec. }
    rewrite app_length in Hf.
    destruct (w ++ X) as [|b0 l0] eqn:E.
    { apply app_eq_nil in E as [E _]. contradiction. }
    rewrite <- E. rewrite Hdec. cbn [obind]. rewrite app_length.
    assert (0 < length w)%nat by (destruct w; [contradiction|cbn; lia]).
    replace (_ <? _)%nat with true by (symmetry; apply Nat.ltb_lt; lia).
    cbn [guard obind]. rewrite IH; [reflexivity|exact Hr|lia].
Qed.

Lemma sdec_instrs_built is : forallb instr_ok is = true ->
  forall fuel, (length (flat_map wire (map norm (map build_i is))) < fuel)%nat ->
  sdec_instrs fuel (flat_map wire (map norm (map build_i is))) = Some (map canon (map norm (map build_i is))).
Proof.
  induction is as [|i r IH]; intros H fuel Hf; cbn [map flat_map forallb] in *.
  - destruct fuel; [lia|reflexivity].
  - apply andb_true_iff in H as [Hb Hr]. destruct fuel as [|fuel]; [lia|]. cbn [sdec_instrs].
    set (w := wire (norm (build_i i))) in *. set (X := flat_map wire (map norm (map build_i r))) in *.
    pose proof (fun rest => sdec_built_instr i rest Hb) as Hdec. fold w in Hdec.
    assert (Hne : w <> []).
    { intros E. specialize (Hdec []). rewrite E in Hdec. discriminate Hdec. }
    rewrite app_length in Hf.
    destruct (w ++ X) as [|b0 l0] eqn:E.
    { apply app_eq_nil in E as [E _]. contradiction. }
    rewrite <- E. rewrite Hdec. cbn [obind]. rewrite app_length.
    assert (0 < length w)%nat by (destruct w; [contradiction|cbn; lia]).
    replace (_ <? _)%nat with true by (symmetry; apply Nat.ltb_lt; lia).
    cbn [guard obind]. rewrite IH; [reflexivity|exact Hr|lia].
Qed.

