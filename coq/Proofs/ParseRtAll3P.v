(* C05 for all recipes, continued: conntrack, the general action theorem, action lists. *)
From Coq Require Import NArith ZArith Arith List Bool Lia ZifyN ZifyBool ZifyNat.
From Coq.Strings Require Import Byte.
From LOF Require Import Base.Bytes Base.Res Model.Wire Model.Build Model.Proto Model.Parse Spec.Walk
  Proofs.WireP Proofs.BuildP Proofs.NormP Proofs.WalkP Proofs.WalkAllP Proofs.WalkMsgP Proofs.SegP Proofs.ParseRtAllP Proofs.ParseRtAll2P.
Import ListNotations.
Open Scope N_scope.
Ltac Zify.zify_post_hook ::= Z.div_mod_to_equations.
Local Notation blen := Proto.blen.

(* the wire reader's view of an action has the same Len() *)
Lemma canon_mf r : canon (build_mf r) = build_mf r.
Proof.
  destruct r as [ctor v m|idx data rng|idx data mask|d m]; cbn [build_mf];
    [destruct (mf_table ctor) as [[[[c0 f0] w0] fl0]|]; [destruct m|]|destruct rng as [[s e]|]| |]; reflexivity.
Qed.

Lemma glen_canon_action a : glen (canon (norm (build_a a))) = glen (norm (build_a a)).
Proof.
  destruct a.
  all: try reflexivity.
  all: try (cbn [build_a norm writeback map canon]; rewrite norm_build_mf, canon_mf; reflexivity).
  all: try (cbn [build_a]; destruct (fold_left ct_apply sets (0, 0, 0, 255)) as [[[? ?] ?] ?]; reflexivity).
  all: try (cbn [build_a]; unfold nat_tree; reflexivity).
  all: try (rewrite norm_regload2; cbn [canon map]; rewrite canon_mf; reflexivity).
  - (* learn *) cbn [build_a norm writeback canon glen lenrule_of lenround align8 layout nxhdr app]. rewrite !map_map.
    assert (He : map (fun x => glen (canon (norm (build_lspec x)))) specs = map (fun x => glen (norm (build_lspec x))) specs).
    { apply map_ext. intros [hk nb sr ds sv]. reflexivity. }
    cbn [set_nth nx app vnum nth]. rewrite He. reflexivity.
  - (* note *) cbn [build_a norm writeback map canon nx app set_nth].
    cbn [glen lenrule_of layout nxhdr app fields_len lenround align8 map sumN fold_right]. rewrite app_length, length_zeros.
    unfold round8, pad8. change (N.of_nat 2) with 2. change (N.of_nat 4) with 4. lia.
Qed.

(* ---------------------------------------------------------------- conntrack *)
Lemma flat_map_len_ge (dec : list byte -> res tree) (ts ds : list tree) :
  Forall2 (fun t d => (forall rest, dec (wire t ++ rest) = Ok d) /\ glen d = blen (wire t) /\ 0 < glen d) ts ds ->
  (length ts <= length (flat_map wire ts))%nat.
Proof.
  induction 1 as [|t d ts ds (_ & Hg & Hpos) _ IH]; cbn [flat_map length]; [lia|]. rewrite app_length. unfold blen in Hg. lia.
Qed.

Lemma ct_loop_built (dec : list byte -> res tree) (ts ds : list tree) :
  Forall2 (fun t d => (forall rest, dec (wire t ++ rest) = Ok d) /\ glen d = blen (wire t) /\ 0 < glen d) ts ds ->
  forall f P S, (length ts < f)%nat ->
  ct_loop dec f (P ++ flat_map wire ts ++ S) (blen P + blen (flat_map wire ts)) (blen P) =
  Ok (ds, blen P + blen (flat_map wire ts)).
Proof.
  induction 1 as [|t d ts ds (Hd & Hg & Hpos) _ IH]; intros f P S Hf; cbn [flat_map length] in *.
  - destruct f; [lia|]. cbn [ct_loop]. rewrite blen_nil. replace (blen P + 0 <=? blen P) with true by lia. rewrite N.add_0_r. reflexivity.
  - destruct f as [|f]; [lia|]. cbn [ct_loop]. rewrite blen_app.
    replace (blen P + (blen (wire t) + blen (flat_map wire ts)) <=? blen P) with false by lia.
    rewrite (from_skip P _ (blen P) (blen P)) by (try reflexivity; lia). rewrite N.sub_diag, from_zero. cbn [bind].
    rewrite <- app_assoc, Hd. replace (glen d =? 0) with false by lia. rewrite Hg.
    replace (blen P + blen (wire t)) with (blen (P ++ wire t)) by (rewrite blen_app; reflexivity).
    replace (blen P + (blen (wire t) + blen (flat_map wire ts))) with (blen (P ++ wire t) + blen (flat_map wire ts)) by (rewrite blen_app; lia).
    replace (P ++ wire t ++ flat_map wire ts ++ S) with ((P ++ wire t) ++ flat_map wire ts ++ S) by (rewrite <- app_assoc; reflexivity).
    rewrite IH by lia. cbn [bind]. reflexivity.
Qed.

Fixpoint pact_ok (a : arec) : bool :=
  match a with
  | ASetField f | ARegLoad2 f => psetfield_ok f
  | ACT sets alg kids => ct_ok sets alg && forallb pact_ok kids && (sumN (map glen (map build_a kids)) <? 65000)
  | _ => act_ok a
  end.

Lemma pact_ok_act_ok a : pact_ok a = true -> act_ok a = true.
Proof.
  induction a as [sets alg kids IH|a Hn] using arec_ind'; intros H.
  - cbn [pact_ok act_ok] in *. apply andb_true_iff in H as [H H3]. apply andb_true_iff in H as [H1 H2]. rewrite H1, H3, andb_true_r. cbn [andb].
    rewrite forallb_forall in *. rewrite Forall_forall in IH. intros x Hx. apply IH; [exact Hx|apply H2, Hx].
  - destruct a; cbn [pact_ok act_ok] in *; try exact H.
    + unfold psetfield_ok in H. unfold setfield_ok. apply andb_true_iff in H as [H1 H2]. rewrite (pmf_ok_mf_ok _ H1), H2. reflexivity.
    + exfalso. eapply Hn. reflexivity.
    + unfold psetfield_ok in H. unfold setfield_ok. apply andb_true_iff in H as [H1 H2]. rewrite (pmf_ok_mf_ok _ H1), H2. reflexivity.
Qed.

Lemma built_action_len a : pact_ok a = true ->
  glen (canon (norm (build_a a))) = blen (wire (norm (build_a a))) /\ 0 < glen (canon (norm (build_a a))).
Proof.
  intros H. pose proof (act_ok_wf a (pact_ok_act_ok a H)) as Hwf.
  destruct (built_norm_size a Hwf) as [Hs H8]. destruct (build_a_ok a Hwf) as [Hc _].
  destruct (norm_len _ Hc) as [Hg Hl]. rewrite glen_canon_action, Hg. unfold blen. rewrite Hl. split; [reflexivity|].
  (* an action is never empty: its encoding starts with a 2-byte type *)
  assert (Hne : 0 < N.of_nat (length (wire (norm (build_a a))))).
  { pose proof (sdec_built_action a (pact_ok_act_ok a H) (adepth a) [] (le_n _)) as Hd.
    destruct (wire (norm (build_a a))) eqn:E; [|cbn; lia]. cbn [app] in Hd. rewrite sdec_action_nil in Hd. discriminate. }
  lia.
Qed.

Theorem dec_built_action : forall a, pact_ok a = true -> forall fuel rest, (adepth a <= fuel)%nat ->
  dec_action (S fuel) (wire (norm (build_a a)) ++ rest) = Ok (canon (norm (build_a a))).
Proof.
  induction a as [sets alg kids IH|a Hn] using arec_ind'; intros Hok fuel rest Hd.
  - (* conntrack *)
    cbn [pact_ok] in Hok. apply andb_true_iff in Hok as [Hok Hsz]. apply andb_true_iff in Hok as [Hct Hkids].
    assert (Hwf : forallb wf_a kids = true).
    { rewrite forallb_forall in *. intros x Hx. apply act_ok_wf, pact_ok_act_ok, Hkids, Hx. }
    destruct (flat_norm_len kids Hwf) as [Hlen H8].
    cbn [adepth] in Hd. destruct fuel as [|fuel]; [lia|].
    unfold ct_ok in Hct. cbn [build_a].
    destruct (fold_left ct_apply sets (0, 0, 0, 255)) as [[[flags zsrc] zofs] tbl].
    repeat (apply andb_true_iff in Hct as [Hct ?]).
    set (ks := map build_a kids) in *. set (L := 24 + sumN (map glen ks)).
    assert (Hn : norm (T KNxConnTrack (nx 35 L ++ [VN flags; VN zsrc; VN zofs; VN tbl; VN alg]) ks) =
                 T KNxConnTrack (nx 35 L ++ [VN flags; VN zsrc; VN zofs; VN tbl; VN alg]) (map norm ks)) by reflexivity.
    rewrite Hn. cbn [canon].
    set (vals := [VN flags; VN zsrc; VN zofs; VN tbl; VN alg]).
    set (F := enc_fields [FU 2; FU 4; FU 2; FU 1; FZ 3; FU 2] vals).
    assert (HF : blen F = 14) by reflexivity.
    set (X := flat_map wire (map norm ks)) in *.
    assert (Hw : wire (T KNxConnTrack (nx 35 L ++ vals) (map norm ks)) = nxbytes L 35 (F ++ X)).
    { cbn [wire layout align8]. unfold nx, nxbytes, nxhdr. cbn [app enc_fields]. rewrite <- !app_assoc. reflexivity. }
    rewrite Hw.
    destruct (nx_header_reads L 35 (F ++ X) rest ltac:(lia) ltac:(lia)) as (R0 & R2 & R4 & R8 & Rb).
    rewrite (dec_nx_prologue _ L 35 (S fuel) R0 R2 R4 R8) by (rewrite Rb; lia). clear R0 R2 R4 R8.
    cbv zeta. cbn [N.eqb Pos.eqb vnum nth].
    assert (HLX : 24 + blen X = L) by (subst L; unfold blen; lia).
    replace (blen (nxbytes L 35 (F ++ X) ++ rest) <? L) with false by (rewrite Rb; blens; lia).
    assert (Hrd : uat 2 (nxbytes L 35 (F ++ X) ++ rest) 10 = Ok flags /\ uat 4 (nxbytes L 35 (F ++ X) ++ rest) 12 = Ok zsrc /\
                  uat 2 (nxbytes L 35 (F ++ X) ++ rest) 16 = Ok zofs /\ at_ (nxbytes L 35 (F ++ X) ++ rest) 18 = Ok tbl /\
                  uat 2 (nxbytes L 35 (F ++ X) ++ rest) 22 = Ok alg /\ 22 <= blen (nxbytes L 35 (F ++ X) ++ rest)).
    { unfold nxbytes, F, vals. cbn [enc_fields]. rewrite <- !app_assoc. cbn [app]. repeat split; try (seg; reflexivity). blens. nats. lia. }
    destruct Hrd as (E1 & E2 & E3 & E4 & E5 & E6). rewrite E1, E2, E3, E4, E5. cbn [bind].
    rewrite bind_sl_discard by lia.
    replace (nxbytes L 35 (F ++ X) ++ rest) with ((be_bytes 2 65535 ++ be_bytes 2 L ++ be_bytes 4 8992 ++ be_bytes 2 35 ++ F) ++ X ++ rest)
      by (unfold nxbytes; rewrite <- !app_assoc; reflexivity).
    set (P := be_bytes 2 65535 ++ be_bytes 2 L ++ be_bytes 4 8992 ++ be_bytes 2 35 ++ F).
    assert (HP : blen P = 24) by reflexivity.
    assert (HF2 : Forall2 (fun t d => (forall rest, dec_action (S fuel) (wire t ++ rest) = Ok d) /\ glen d = blen (wire t) /\ 0 < glen d)
                    (map norm ks) (map canon (map norm ks))).
    { subst ks. clear - IH Hkids Hd. rewrite !map_map.
      induction kids as [|k r IHr]; cbn [map]; constructor.
      * inversion IH as [|? ? Hk Hr']; subst. cbn [forallb] in Hkids. apply andb_true_iff in Hkids as [Hk1 Hk2].
        destruct (built_action_len k Hk1) as [Hg Hpos]. split; [|split; assumption].
        intros rest. apply Hk; [exact Hk1|]. cbn [map fold_right] in Hd. lia.
      * inversion IH as [|? ? Hk Hr']; subst. cbn [forallb] in Hkids. apply andb_true_iff in Hkids as [Hk1 Hk2].
        apply IHr; [exact Hr'|exact Hk2|]. cbn [map fold_right] in Hd. lia. }
    pose proof (ct_loop_built (dec_action (S fuel)) (map norm ks) (map canon (map norm ks)) HF2
                  (S (length (P ++ X ++ rest))) P rest) as HH.
    fold X in HH. rewrite HP in HH. replace (24 + blen X) with L in HH by lia.
    rewrite HH by (rewrite !app_length; pose proof (flat_map_len_ge _ _ _ HF2) as Hge; fold X in Hge; lia).
    cbn [bind]. replace (L mod 65536) with L by lia. reflexivity.
  - (* everything else *)
    destruct a; cbn [pact_ok act_ok] in Hok.
    all: try (destruct (norm_fixed _ Hok) as [Hn1 Hn2]; rewrite Hn1, Hn2; apply dec_fixed_action; exact Hok).
    + (* set-field *) replace (norm (build_a (ASetField f))) with (build_a (ASetField f)).
      2:{ cbn [build_a norm writeback map]. rewrite norm_build_mf. reflexivity. }
      replace (canon (build_a (ASetField f))) with (build_a (ASetField f)).
      2:{ cbn [build_a canon map]. rewrite canon_mf. reflexivity. }
      apply dec_built_setfield, Hok.
    + exfalso. eapply Hn. reflexivity.
    + (* nat *) replace (canon (norm (build_a (ANat sets)))) with (norm (build_a (ANat sets))); [apply dec_built_nat, Hok|].
      cbn [build_a]. unfold nat_tree. cbn [norm writeback canon]. f_equal.
      destruct (n_ip4min _), (n_ip4max _), (n_ip6min _), (n_ip6max _), (n_pmin _), (n_pmax _); reflexivity.
    + (* cnt ids *) apply andb_true_iff in Hok as [H1 H2]. apply N.eqb_eq in H1.
      replace (canon (norm (build_a (ADecTtlCntIds c ids)))) with (norm (build_a (ADecTtlCntIds c ids))) by reflexivity.
      apply dec_built_cntids; [exact H1|lia].
    + (* learn *) replace (canon (norm (build_a (ALearn idle hard prio cookie flags table finidle finhard specs))))
        with (norm (build_a (ALearn idle hard prio cookie flags table finidle finhard specs))); [apply dec_built_learn, Hok|].
      cbn [build_a norm writeback canon]. f_equal. rewrite map_norm_lspecs.
      clear. induction specs as [|s r IH]; cbn [map]; [reflexivity|]. rewrite <- IH. destruct s. reflexivity.
    + (* note *) apply dec_built_note, Hok.
    + (* reg_load2 *) replace (canon (norm (build_a (ARegLoad2 f)))) with (norm (build_a (ARegLoad2 f))); [apply dec_built_regload2, Hok|].
      rewrite norm_regload2. cbn [canon map]. rewrite canon_mf. reflexivity.
Qed.
