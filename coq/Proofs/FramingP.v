(* Framing of API-built messages (C01). *)
From Coq Require Import NArith List Bool Lia ZifyN ZifyBool ZifyNat.
From Coq.Strings Require Import Byte.
From LOF Require Import Base.Bytes Model.Wire Model.Build Proofs.WireP Proofs.BuildP Proofs.NormP.
Import ListNotations.
Open Scope N_scope.

(* OpenFlow 1.3 message type codes of the controller-originated kinds (the OFPT codes) *)
Definition msg_type (m : mrec) : N :=
  match m with
  | MHello => 0 | MHeader ty => ty | MSetConfig _ _ => 9
  | MFlowMod _ _ _ _ _ _ _ _ _ _ _ _ _ => 14 | MGroupMod _ _ _ _ => 15 | MPacketOut _ _ _ _ => 13
  | MPortMod _ _ _ _ _ => 16 | MMultipart _ _ _ => 18
  | MSetControllerID _ | MTlvTableMod _ _ | MTlvTableReq | MBundleCtrl _ _ _ | MBundleAdd _ _ _ _ => 4
  end.

Lemma built_framing : forall m xid, wf_m m = true -> xid < 4294967296 ->
  let t := build_m xid m in
  exists tail, fst (marshal t) = be8 4 ++ be8 (msg_type m) ++ be16 (glen t) ++ be32 xid ++ tail /\
               glen t = N.of_nat (length (fst (marshal t))).
Proof.
  intros m xid Hwf Hx t. pose proof (build_m_ok m xid Hwf) as Hc. fold t in Hc.
  destruct m; cbn [build_m msg_type hdr app] in *; subst t;
    try (apply msg_framing; [reflexivity|exact Hc]).
  (* header-only messages: no write-back, the stored length 8 is the size *)
  exists []. split; reflexivity.
Qed.

Lemma msg_type_byte m : wf_m m = true -> msg_type m < 256.
Proof.
  destruct m; cbn [msg_type wf_m]; intros H; try lia.
  cbn [existsb] in H. lia.
Qed.

Lemma built_length_field : forall m xid, wf_m m = true -> xid < 4294967296 ->
  let b := fst (marshal (build_m xid m)) in
  N.of_nat (length b) <= 65535 ->
  be_value (firstn 1 b) = 4 /\ be_value (firstn 1 (skipn 1 b)) = msg_type m /\
  be_value (firstn 2 (skipn 2 b)) = N.of_nat (length b).
Proof.
  intros m xid Hwf Hx b Hfit. destruct (built_framing m xid Hwf Hx) as [tail [Hb Hl]]. fold b in Hb, Hl.
  pose proof (msg_type_byte m Hwf) as Hty.
  rewrite Hb at 1 2 3. cbn [be8 be16 be_bytes app firstn skipn].
  split; [|split].
  - apply (be_value_be8 4). lia.
  - apply (be_value_be8 (msg_type m)), Hty.
  - rewrite <- Hl. apply (be_value_be16 (glen (build_m xid m))). lia.
Qed.
