(* Results of modelled Go functions.
   Ok v     - returned normally
   Err      - returned a non-nil error
   Panic    - run-time panic (index / slice bounds, nil interface, nil pointer, log.Panicf)
   Fuel     - the model's recursion fuel ran out (theorems show it never happens) *)
Inductive res (A : Type) : Type := Ok (a : A) | Err | Panic | Fuel.
Arguments Ok {A} a.
Arguments Err {A}.
Arguments Panic {A}.
Arguments Fuel {A}.

Definition bind {A B} (r : res A) (f : A -> res B) : res B :=
  match r with Ok a => f a | Err => Err | Panic => Panic | Fuel => Fuel end.

Declare Scope res_scope.
Delimit Scope res_scope with res.
Notation "x <- e ;; k" := (bind e (fun x => k)) (at level 61, e at next level, right associativity) : res_scope.
Notation "' p <- e ;; k" := (bind e (fun x => match x with p => k end))
  (at level 61, p pattern, e at next level, right associativity) : res_scope.

Definition is_okb {A} (r : res A) : bool := match r with Ok _ => true | _ => false end.
Definition is_errb {A} (r : res A) : bool := match r with Err => true | _ => false end.

(* what a recovering entry point turns a result into *)
Definition recover {A} (r : res A) : res A :=
  match r with Panic => Err | x => x end.

(* outcome class compared with the implementation: 0 ok, 1 error, 2 panic, 3 fuel *)
Definition res_class {A} (r : res A) : nat :=
  match r with Ok _ => 0 | Err => 1 | Panic => 2 | Fuel => 3 end.
