(* Bytes and big-endian integers. A byte is Coq.Strings.Byte.byte (256 constructors), so
   a [list byte] needs no range side-condition. Numbers are N; Go's fixed-width
   arithmetic is written with explicit [mod 2^k] where it matters. *)
From Coq Require Import NArith List Lia ZArith ZifyN ZifyBool ZifyNat.
From Coq.Strings Require Import Byte.
Import ListNotations.
Open Scope N_scope.
Ltac Zify.zify_post_hook ::= Z.div_mod_to_equations.

Definition b2n (b : byte) : N := Byte.to_N b.
Definition n2b (n : N) : byte :=
  match Byte.of_N (n mod 256) with Some b => b | None => x00 end.

Definition zeros (n : nat) : list byte := repeat x00 n.

(* big-endian writer for any width (bytes) *)
Fixpoint be_bytes (w : nat) (x : N) : list byte :=
  match w with O => [] | S w' => be_bytes w' (x / 256) ++ [n2b x] end.

Definition be8  (x : N) : list byte := be_bytes 1 x.
Definition be16 (x : N) : list byte := be_bytes 2 x.
Definition be24 (x : N) : list byte := be_bytes 3 x.
Definition be32 (x : N) : list byte := be_bytes 4 x.
Definition be64 (x : N) : list byte := be_bytes 8 x.

(* value of a byte string read big-endian *)
Fixpoint be_val (bs : list byte) (acc : N) : N :=
  match bs with [] => acc | b :: r => be_val r (acc * 256 + b2n b) end.
Definition be_value (bs : list byte) : N := be_val bs 0.

Definition u8  (x : N) : N := x mod 256.
Definition u16 (x : N) : N := x mod 65536.
Definition u32 (x : N) : N := x mod 4294967296.
Definition u64 (x : N) : N := x mod 18446744073709551616.

(* ---- lemmas used everywhere ---- *)
Lemma b2n_lt b : b2n b < 256.
Proof. unfold b2n. pose proof (Byte.to_N_bounded b). lia. Qed.

Lemma n2b_b2n b : n2b (b2n b) = b.
Proof.
  unfold n2b, b2n. rewrite N.mod_small by (pose proof (Byte.to_N_bounded b); lia).
  rewrite Byte.of_to_N. reflexivity.
Qed.

Lemma b2n_n2b x : b2n (n2b x) = x mod 256.
Proof.
  unfold n2b, b2n. destruct (Byte.of_N (x mod 256)) as [b|] eqn:E.
  - apply Byte.to_of_N in E. exact E.
  - exfalso. apply Byte.of_N_None_iff in E. pose proof (N.mod_lt x 256). lia.
Qed.

Lemma b2n_n2b_small x : x < 256 -> b2n (n2b x) = x.
Proof. intros H. rewrite b2n_n2b. apply N.mod_small, H. Qed.

Lemma n2b_mod x : n2b (x mod 256) = n2b x.
Proof. unfold n2b. rewrite N.mod_mod by lia. reflexivity. Qed.

Lemma be_val_app a b acc : be_val (a ++ b) acc = be_val b (be_val a acc).
Proof. revert acc. induction a as [|x a IH]; intros acc; cbn [app be_val]; [reflexivity|apply IH]. Qed.

Lemma length_be_bytes w x : length (be_bytes w x) = w.
Proof. revert x. induction w as [|w IH]; intros x; cbn [be_bytes]; [reflexivity|]. rewrite app_length, IH. cbn. lia. Qed.

Lemma be_value_be_bytes w : forall x, x < 256 ^ N.of_nat w -> be_value (be_bytes w x) = x.
Proof.
  induction w as [|w IH]; intros x Hx.
  - change (N.of_nat 0) with 0 in Hx. rewrite N.pow_0_r in Hx. unfold be_value. cbn. lia.
  - cbn [be_bytes]. unfold be_value in *. rewrite be_val_app. cbn [be_val].
    rewrite Nat2N.inj_succ, N.pow_succ_r' in Hx. rewrite IH by lia. rewrite b2n_n2b. lia.
Qed.

Lemma be_value_be8 x : x < 256 -> be_value (be8 x) = x.
Proof. intros H. apply be_value_be_bytes. exact H. Qed.
Lemma be_value_be16 x : x < 65536 -> be_value (be16 x) = x.
Proof. intros H. apply be_value_be_bytes. exact H. Qed.
Lemma be_value_be24 x : x < 16777216 -> be_value (be24 x) = x.
Proof. intros H. apply be_value_be_bytes. exact H. Qed.
Lemma be_value_be32 x : x < 4294967296 -> be_value (be32 x) = x.
Proof. intros H. apply be_value_be_bytes. exact H. Qed.
Lemma be_value_be64 x : x < 18446744073709551616 -> be_value (be64 x) = x.
Proof. intros H. apply be_value_be_bytes. exact H. Qed.

Lemma be_value_lt bs : be_value bs < 256 ^ N.of_nat (length bs).
Proof.
  unfold be_value. assert (G : forall acc, be_val bs acc < (acc + 1) * 256 ^ N.of_nat (length bs)).
  { induction bs as [|b r IH]; intros acc; cbn [be_val length].
    - change (N.of_nat 0) with 0. rewrite N.pow_0_r. lia.
    - specialize (IH (acc * 256 + b2n b)). pose proof (b2n_lt b).
      rewrite Nat2N.inj_succ, N.pow_succ_r'. nia. }
  specialize (G 0). lia.
Qed.

Lemma length_be8 x : length (be8 x) = 1%nat. Proof. apply length_be_bytes. Qed.
Lemma length_be16 x : length (be16 x) = 2%nat. Proof. apply length_be_bytes. Qed.
Lemma length_be24 x : length (be24 x) = 3%nat. Proof. apply length_be_bytes. Qed.
Lemma length_be32 x : length (be32 x) = 4%nat. Proof. apply length_be_bytes. Qed.
Lemma length_be64 x : length (be64 x) = 8%nat. Proof. apply length_be_bytes. Qed.
Lemma length_zeros n : length (zeros n) = n. Proof. apply repeat_length. Qed.

Lemma be_bytes_app a b : forall x, be_bytes (a + b) x = be_bytes a (x / 256 ^ N.of_nat b) ++ be_bytes b x.
Proof.
  induction b as [|b IH]; intros x.
  - rewrite Nat.add_0_r. change (N.of_nat 0) with 0. rewrite N.pow_0_r, N.div_1_r.
    cbn [be_bytes]. rewrite app_nil_r. reflexivity.
  - rewrite Nat.add_succ_r. cbn [be_bytes]. rewrite IH, <- app_assoc.
    rewrite Nat2N.inj_succ, N.pow_succ_r', N.div_div by (try apply N.pow_nonzero; lia).
    reflexivity.
Qed.

(* the bytes depend only on the value modulo the width *)
Lemma be_bytes_mod w : forall x, be_bytes w (x mod 256 ^ N.of_nat w) = be_bytes w x.
Proof.
  induction w as [|w IH]; intros x; [reflexivity|].
  cbn [be_bytes]. rewrite Nat2N.inj_succ, N.pow_succ_r'.
  assert (Hp : 256 ^ N.of_nat w <> 0) by (apply N.pow_nonzero; lia).
  set (P := 256 ^ N.of_nat w) in *.
  assert (H1 : (x mod (256 * P)) / 256 = (x / 256) mod P).
  { rewrite N.mod_mul_r by lia. rewrite (N.mul_comm 256), N.div_add by lia.
    rewrite (N.div_small (x mod 256)) by (apply N.mod_lt; lia). apply N.add_0_l. }
  assert (H2 : (x mod (256 * P)) mod 256 = x mod 256).
  { rewrite N.mod_mul_r by lia. rewrite (N.mul_comm 256), N.mod_add by lia. apply N.mod_mod. lia. }
  rewrite H1, IH. f_equal. f_equal. rewrite <- (n2b_mod (x mod _)), H2. apply n2b_mod.
Qed.
