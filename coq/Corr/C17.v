(* Correspondence evaluation for C17. *)
From Coq Require Import ZArith NArith List String Uint63 Bool.
From Coq.Strings Require Import Byte.
From LOF Require Export Corr.Common.
From LOF Require Import Base.Bytes Base.Res Model.Registry Model.NewMatchField Spec.OvsFields.
Import ListNotations.
Open Scope Z_scope.

Fixpoint bytes_eqb (a b : list byte) : bool :=
  match a, b with
  | [], [] => true
  | x :: a', y :: b' => Byte.eqb x y && bytes_eqb a' b'
  | _, _ => false
  end.

(* name; data = sign (0 non-negative / 1 negative) and magnitude bytes; mask args biased by
   2^40; observed: outcome (0 field / 1 error / 2 panic), args unchanged (1/0), encoded
   field bytes, value bytes, mask bytes; for registers the dedicated constructor's bytes *)
Inductive case17 :=
| NMF (name : list int) (sign : int) (mag : list int) (masks : list int)
      (outcome unchanged : int) (enc value mask : list int) (regenc : list int).

Definition bias : Z := 1099511627776.

Definition be_z (W : N) (z : Z) : list byte := be_bytes (N.to_nat W) (Z.to_N z).

(* oracle written from the property text (spec table for the header) *)
Definition want (name : string) (v : Z) (masks : list Z) : option (option (list byte * list byte * list byte)) :=
  (* None = no expectation (unregistered name etc. -> must be an error);
     Some None = must be an error; Some (Some (enc, value, mask)) = must be this field *)
  match spec_entry (upper name) with
  | None => Some None
  | Some (c, f, W) =>
    if (3 <? Z.of_nat (List.length masks)) then Some None else
    let hdr := fun (hm : bool) (len : N) => be16 c ++ [n2b (f * 2 + (if hm then 1 else 0))%N; n2b len] in
    let bits := Z.of_N W * 8 in
    match masks with
    | [] => if (0 <=? v) && (v <? 2 ^ bits) then
              Some (Some (hdr false W ++ be_z W v, be_z W v, []))
            else Some None
    | s :: rest =>
      let w := match rest with [] => bitlen v | w :: _ => w end in
      let shift := match rest with [_; flag] => flag =? 1 | _ => true end in
      if (0 <=? v) && (0 <=? s) && (0 <=? w) && (s + w <=? bits) then
        let placed := if shift then v * 2 ^ s else v in
        let m := (2 ^ w - 1) * 2 ^ s in
        if (if shift then v <? 2 ^ w else Z.land placed (Z.lnot m) =? 0) then
          Some (Some (hdr true (2 * W)%N ++ be_z W placed ++ be_z W m, be_z W placed, be_z W m))
        else Some None
      else Some None
    end
  end.

Definition check17 (c : case17) : verdict :=
  match c with
  | NMF name sign mag masks outcome unchanged enc value mask regenc =>
    (* sign 2: the data argument is a nil *big.Int - not a number: the builder must report an error *)
    if Uint63.eqb sign 2 then mkv (Uint63.to_Z outcome =? 1) (Uint63.to_Z outcome =? 1) else
    let nm := string_of_list_byte (unpack name) in
    let v := (if Uint63.eqb sign 0 then 1 else -1) * Z.of_N (be_value (unpack mag)) in
    let ms := map (fun i => Uint63.to_Z i - bias) masks in
    let oc := Uint63.to_Z outcome in
    let e := unpack enc in let vb := unpack value in let mb := unpack mask in
    let agree :=
      match NewMatchField nm v ms with
      | Ok f => (oc =? 0) && bytes_eqb (enc_genfield f) e && bytes_eqb (gf_value f) vb
                && bytes_eqb (match gf_mask f with Some m => m | None => [] end) mb
      | Err => oc =? 1
      | Panic => oc =? 2
      | Fuel => false
      end in
    let accept :=
      (Uint63.to_Z unchanged =? 1) &&
      match want nm v ms with
      | Some None => oc =? 1
      | Some (Some (we, wv, wm)) => (oc =? 0) && bytes_eqb we e && bytes_eqb wv vb && bytes_eqb wm mb
                                     && (match regenc with [] => true | _ => bytes_eqb (unpack regenc) e end)
      | None => (oc =? 0) || (oc =? 1)
      end in
    mkv agree accept
  end.
