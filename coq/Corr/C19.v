(* Correspondence evaluation for C19 (package ofbase). *)
From Coq Require Import ZArith NArith List Uint63 Bool.
From Coq.Strings Require Import Byte.
From LOF Require Export Corr.Common.
From LOF Require Import Base.Bytes Base.Res Model.Ofbase.
Import ListNotations.
Open Scope Z_scope.

Fixpoint bytes_eqb (a b : list byte) : bool :=
  match a, b with
  | [], [] => true
  | x :: a', y :: b' => Byte.eqb x y && bytes_eqb a' b'
  | _, _ => false
  end.

(* flat script: 1 x | 2 x | 3 x | 4 hi32 lo32 | 5 a b c d (32-bit quarters) | 6 n w.. (packed bytes, n words incl. length) | 7 *)
Definition join32 (hi lo : N) : N := (hi * 4294967296 + lo)%N.

Fixpoint parse_script (fuel : nat) (l : list int) : option (list wr) :=
  match fuel with
  | O => None
  | S fuel' =>
    match l with
    | [] => Some []
    | op :: r =>
      let k := Uint63.to_Z op in
      let n := fun i => Z.to_N (Uint63.to_Z i) in
      if k =? 1 then match r with x :: r' => option_map (cons (W8 (n x))) (parse_script fuel' r') | _ => None end
      else if k =? 2 then match r with x :: r' => option_map (cons (W16 (n x))) (parse_script fuel' r') | _ => None end
      else if k =? 3 then match r with x :: r' => option_map (cons (W32 (n x))) (parse_script fuel' r') | _ => None end
      else if k =? 4 then match r with a :: b :: r' => option_map (cons (W64 (join32 (n a) (n b)))) (parse_script fuel' r') | _ => None end
      else if k =? 5 then match r with a :: b :: c :: d :: r' =>
                            option_map (cons (W128 (join32 (n a) (n b)) (join32 (n c) (n d)))) (parse_script fuel' r') | _ => None end
      else if k =? 6 then match r with cnt :: r' =>
                            let c := Z.to_nat (Uint63.to_Z cnt) in
                            option_map (cons (WBytes (unpack (firstn c r')))) (parse_script fuel' (skipn c r')) | _ => None end
      else if k =? 7 then option_map (cons WAlign) (parse_script fuel' r)
      else None
    end
  end.

(* model: offsets after each read *)
Fixpoint read_trace (rs : list rd) (d : decoder) : res (list (val * Z)) :=
  match rs with
  | [] => Ok []
  | r :: rs' => ('(v, d1) <- read_one r d ;; t <- read_trace rs' d1 ;; Ok ((v, doff d1) :: t))%res
  end.

(* oracle, from the property text: offsets advance by each width; an alignment skip
   goes to the next multiple of 8 *)
Fixpoint want_trace (ws : list wr) (off : Z) : list (val * Z) :=
  match ws with
  | [] => []
  | w :: ws' =>
    let off' := match w with WAlign => (off + 7) / 8 * 8 | _ => off + rd_width (rd_of w) end in
    (val_of w, off') :: want_trace ws' off'
  end.

Definition val_eqb (a b : val) : bool :=
  match a, b with
  | V8 x, V8 y | V16 x, V16 y | V32 x, V32 y | V64 x, V64 y => N.eqb x y
  | V128 a1 a2, V128 b1 b2 => N.eqb a1 b1 && N.eqb a2 b2
  | VBytes x, VBytes y => bytes_eqb x y
  | VAlign, VAlign => true
  | _, _ => false
  end.

Fixpoint trace_eqb (a b : list (val * Z)) : bool :=
  match a, b with
  | [], [] => true
  | (v, o) :: a', (w, p) :: b' => val_eqb v w && Z.eqb o p && trace_eqb a' b'
  | _, _ => false
  end.

(* observed read-back: the same flat format as the script (values) + offsets *)
Inductive case19 :=
| Script (script : list int) (enc : list int) (readback : list int) (offs : list int)
(* buffer length, skip o, SliceDecoder(len, rw), k reads of one byte in the child, then
   child.SkipAlign; second level: child.SliceDecoder(len2, rw2) then SkipAlign.
   obs: [child base; child off after align; parent off; grand base; grand off after align; child off after slice] *)
| Sl (args : list int) (obs : list int)
(* header decode: bytes, skip+16, obs: [err; version; type; length; xid] *)
| Hd (bs : list int) (skip16 : int) (obs : list int).

Definition check_script (script enc readback offs : list int) : verdict :=
  match parse_script (S (length script)) script, parse_script (S (length readback)) readback with
  | Some ws, Some rb =>
    let got_bytes := unpack enc in
    let got_trace := combine (map val_of rb) (zs offs) in
    let model_bytes := enc_run ws [] in
    let agree_b := bytes_eqb model_bytes got_bytes in
    let agree_t := match read_trace (map rd_of ws) (NewDecoder got_bytes) with
                   | Ok t => trace_eqb t got_trace | _ => false end in
    let ok_len := Nat.eqb (length rb) (length ws) && Nat.eqb (length offs) (length ws) in
    mkv (agree_b && agree_t && ok_len) (trace_eqb (want_trace ws 0) got_trace && ok_len)
  | _, _ => VBad
  end.

Fixpoint read_k (k : nat) (d : decoder) : res decoder :=
  match k with O => Ok d | S k' => ('(_, d1) <- read_u8 d ;; read_k k' d1)%res end.

Definition check_sl (args obs : list Z) : verdict :=
  match args, obs with
  | [blen; o; len; rw; k; len2; rw2], [cb; co; po; gb; go; co2] =>
    let d := skip (NewDecoder (repeat x00 (Z.to_nat blen))) o in
    let r := (
      '(c, p) <- slice_decoder d len rw ;;
      c1 <- read_k (Z.to_nat k) c ;;
      let c2 := skip_align c1 in
      '(g, c3) <- slice_decoder c2 len2 rw2 ;;
      let g1 := skip_align (skip g 1) in
      Ok [dbase c2; doff c2; doff p; dbase g1; doff g1; doff c3])%res in
    let agree := match r with Ok m => zs_eqb m obs | _ => false end in
    (* oracle: bases are absolute positions; aligned positions are multiples of 8 reached
       by 0..7 bytes forward *)
    let accept := (cb =? o) && ((cb + co) mod 8 =? 0) && (0 <=? co - k) && (co - k <=? 7)
                  && (po =? o + len - rw) && (gb =? cb + co) && ((gb + go) mod 8 =? 0)
                  && (0 <=? go - 1) && (go - 1 <=? 7) && (co2 =? co + len2 - rw2) in
    mkv agree accept
  | _, _ => VBad
  end.

Definition check_hd (bs : list byte) (skp : Z) (obs : list Z) : verdict :=
  match obs with
  | [e; v; t; l; x] =>
    let d := skip (NewDecoder bs) skp in
    let r := header_decode d in
    let agree := match r with
                 | Ok (h, _) => (e =? 0) && (Z.of_N (h_version h) =? v) && (Z.of_N (h_type h) =? t)
                                && (Z.of_N (h_length h) =? l) && (Z.of_N (h_xid h) =? x)
                 | Err => e =? 1
                 | _ => false
                 end in
    (* oracle: fewer than 8 bytes from the position -> error; otherwise, from position 0,
       the fields are the big-endian values of the first 8 bytes *)
    let n := Z.of_nat (length bs) - skp in
    let accept :=
      if n <? 8 then e =? 1
      else if skp =? 0 then
        (e =? 0) && (Z.of_N (be_value (firstn 1 bs)) =? v) && (Z.of_N (be_value (firstn 1 (skipn 1 bs))) =? t)
        && (Z.of_N (be_value (firstn 2 (skipn 2 bs))) =? l) && (Z.of_N (be_value (firstn 4 (skipn 4 bs))) =? x)
      else (e =? 0) || (e =? 1) in
    mkv agree accept
  | _ => VBad
  end.

Definition check19 (c : case19) : verdict :=
  match c with
  | Script s e r o => check_script s e r o
  | Sl a o => check_sl (zs a) (zs o)
  | Hd bs s o => check_hd (unpack bs) (Uint63.to_Z s - 16) (zs o)
  end.
