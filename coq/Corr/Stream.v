(* Correspondence evaluation for C10 / C11. *)
From Coq Require Import NArith ZArith List Uint63 Bool.
From Coq.Strings Require Import Byte.
From LOF Require Export Corr.Common.
From LOF Require Import Base.Bytes Model.Stream.
Import ListNotations.
Open Scope N_scope.

Definition n_of (i : int) : N := Z.to_N (Uint63.to_Z i).
Fixpoint ns_eqb (a b : list N) : bool :=
  match a, b with [], [] => true | x :: a', y :: b' => N.eqb x y && ns_eqb a' b' | _, _ => false end.
Fixpoint bytes_eqb (a b : list byte) : bool :=
  match a, b with [], [] => true | x :: a', y :: b' => Byte.eqb x y && bytes_eqb a' b' | _, _ => false end.
Fixpoint bll_eqb (a b : list (list byte)) : bool :=
  match a, b with [], [] => true | x :: a', y :: b' => bytes_eqb x y && bll_eqb a' b' | _, _ => false end.

Inductive caseS :=
| Inb (sizes : list int) (k failed : int) (delivered : list int) (nerr intact : int)
| Defr (chunks : list (list int)) (bufs : list (list int))
| Outb (seqs : list (list int)) (wire : list int) (whole : int).

(* frames wholly inside the first k bytes *)
Fixpoint whole_frames (sizes : list N) (k : N) : N :=
  match sizes with
  | [] => 0
  | s :: r => if s <=? k then 1 + whole_frames r (k - s) else 0
  end.
Fixpoint upto (n : nat) (from : N) : list N := match n with O => [] | S n' => from :: upto n' (from + 1) end.

(* sort frames by their xid field (bytes 4..8) for a multiset comparison *)
Definition key (f : list byte) : N := be_value (firstn 4 (skipn 4 f)).
Fixpoint insert_f (x : list byte) (l : list (list byte)) : list (list byte) :=
  match l with [] => [x] | y :: r => if key x <=? key y then x :: l else y :: insert_f x r end.
Definition sort_f (l : list (list byte)) : list (list byte) := fold_right insert_f [] l.

Fixpoint strictly_increasing (l : list N) : bool :=
  match l with a :: ((b :: _) as r) => (a <? b) && strictly_increasing r | _ => true end.

Definition check10 (c : caseS) : verdict :=
  match c with
  | Inb sizes k failed delivered nerr intact =>
    let m := whole_frames (ns sizes) (n_of k) in
    let want := upto (N.to_nat m) 1 in
    (* without a failure: exactly one message per frame; with a failure after byte k: no
       duplicates, nothing but frames wholly inside the first k bytes (frames already received
       may be dropped by the shutdown), and exactly one error published *)
    let d := ns delivered in
    let ok := (if N.eqb (n_of failed) 0 then ns_eqb d want
               else strictly_increasing d && forallb (fun x => (1 <=? x) && (x <=? m)) d)
              && N.eqb (n_of nerr) (n_of failed) && N.eqb (n_of intact) 1 in
    mkv ok ok
  | Defr chunks bufs =>
    (* the model's de-framer on the same chunks *)
    let '(_, out) := feed_chunks dinit (map unpack chunks) in
    let ok := bll_eqb (sort_f out) (map unpack bufs) in
    mkv ok ok
  | _ => VBad
  end.

(* wire is a merge of the producers' sequences: removing the heads in wire order empties them *)
Fixpoint take_head (x : N) (seqs : list (list N)) : option (list (list N)) :=
  match seqs with
  | [] => None
  | (y :: r) :: rest => if N.eqb x y then Some (r :: rest)
                        else option_map (cons (y :: r)) (take_head x rest)
  | [] :: rest => option_map (cons []) (take_head x rest)
  end.
Fixpoint is_merge (wire : list N) (seqs : list (list N)) : bool :=
  match wire with
  | [] => forallb (fun s => match s with [] => true | _ => false end) seqs
  | x :: w => match take_head x seqs with Some s' => is_merge w s' | None => false end
  end.

Definition check11 (c : caseS) : verdict :=
  match c with
  | Outb seqs wire whole =>
    let ok := is_merge (ns wire) (map ns seqs) && N.eqb (n_of whole) 1 in
    mkv ok ok
  | _ => VBad
  end.
