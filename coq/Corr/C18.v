(* Correspondence evaluation for C18. *)
From Coq Require Import NArith List Uint63 Bool.
From LOF Require Export Corr.Common.
From LOF Require Import Model.CtStates.
Import ListNotations.
Open Scope N_scope.

Definition op_of_code (c : N) : ctop :=
  {| op_pol := N.even c ;
     op_flag := nth (N.to_nat (c / 2)) all_flags FNew |}.

Fixpoint ns_eqb (a b : list N) : bool :=
  match a, b with
  | [], [] => true
  | x :: a', y :: b' => N.eqb x y && ns_eqb a' b'
  | _, _ => false
  end.

(* oracle, written from the property text and independent of ct_run: per flag i the mask
   bit is (touched or was set) and the value bit is the last polarity (or what it was);
   bits 8.. unchanged *)
Fixpoint last_code (i : N) (codes : list N) (acc : option bool) : option bool :=
  match codes with
  | [] => acc
  | c :: cs => last_code i cs (if N.eqb (c / 2) i then Some (N.even c) else acc)
  end.

Definition oracle (d0 m0 : N) (codes : list N) (d m : N) : bool :=
  forallb (fun i =>
    match last_code i codes None with
    | Some b => Bool.eqb (N.testbit m i) true && Bool.eqb (N.testbit d i) b
    | None => Bool.eqb (N.testbit m i) (N.testbit m0 i) && Bool.eqb (N.testbit d i) (N.testbit d0 i)
    end) [0;1;2;3;4;5;6;7]
  && N.eqb (N.shiftr d 8) (N.shiftr d0 8) && N.eqb (N.shiftr m 8) (N.shiftr m0 8).

(* One case: start state, op codes (2*flag + (0 = set | 1 = unset)), observed data/mask,
   observed encoding of NewCTStateMatchField (packed) or [] when not recorded *)
Inductive case18 :=
| Seq (d0 m0 : int) (codes : list int) (d m : int) (enc : list int)
(* all 16 operations from one state: results packed data | mask << 32, in code order *)
| Fan (d0 m0 : int) (rs : list int)
(* all call sequences of length L with index base.. (digits base 16, first call = most
   significant digit) from a fresh builder: results packed data | mask << 32 *)
| Block (L : int) (base : int) (rs : list int).

Definition n_of (i : int) : N := Z.to_N (Uint63.to_Z i).

Definition check_seq (d0 m0 : N) (codes : list N) (d m : N) (enc : list N) (has_enc : bool) : verdict :=
  let s := ct_run (map op_of_code codes) {| ct_data := d0 ; ct_mask := m0 |} in
  let agree := N.eqb (ct_data s) d && N.eqb (ct_mask s) m &&
               (negb has_enc || ns_eqb (enc_ct_state_field s) enc) in
  let want_enc := [0;1;211;8] ++ be32 d ++ be32 m in
  let accept := oracle d0 m0 codes d m && (negb has_enc || ns_eqb want_enc enc) in
  mkv agree accept.

Fixpoint check_fan (d0 m0 : N) (code : N) (rs : list N) (acc : verdict) : verdict :=
  match rs with
  | [] => acc
  | r :: rs' =>
    let v := check_seq d0 m0 [code] (N.land r 4294967295) (N.shiftr r 32) [] false in
    check_fan d0 m0 (code + 1) rs' (if is_ok acc then v else acc)
  end.

Fixpoint codes_of (L : nat) (i : N) (acc : list N) : list N :=
  match L with O => acc | S L' => codes_of L' (i / 16) ((i mod 16) :: acc) end.

Fixpoint check_block (L : nat) (i : N) (rs : list N) (acc : verdict) : verdict :=
  match rs with
  | [] => acc
  | r :: rs' =>
    let v := check_seq 0 0 (codes_of L i []) (N.land r 4294967295) (N.shiftr r 32) [] false in
    check_block L (i + 1) rs' (if is_ok acc then v else acc)
  end.

Definition check18 (c : case18) : verdict :=
  match c with
  | Seq d0 m0 codes d m enc =>
    let e := unpack enc in
    check_seq (n_of d0) (n_of m0) (ns codes) (n_of d) (n_of m) (map Byte.to_N e)
              (match enc with [] => false | _ => true end)
  | Block L base rs => check_block (N.to_nat (n_of L)) (n_of base) (ns rs) VOk
  | Fan d0 m0 rs => if Nat.eqb (length rs) 16 then check_fan (n_of d0) (n_of m0) 0 (ns rs) VOk else VBad
  end.
