(* Correspondence evaluation for C15. *)
From Coq Require Import NArith List String Ascii Uint63 Bool.
From Coq.Strings Require Import Byte.
From LOF Require Export Corr.Common.
From LOF Require Import Model.Registry Spec.OvsFields.
Import ListNotations.
Open Scope N_scope.

Definition str_of (l : list int) : string := string_of_list_byte (unpack l).

Fixpoint ns_eqb (a b : list N) : bool :=
  match a, b with
  | [], [] => true
  | x :: a', y :: b' => N.eqb x y && ns_eqb a' b'
  | _, _ => false
  end.

Definition b2N (b : bool) : N := if b then 1 else 0.

Inductive case15 :=
| Count (n : int)                                   (* number of registered names *)
| Entry (name : list int) (obs : list int)          (* stored entry: class field length hasmask *)
| Find (name : list int) (hm : int) (obs : list int) (* found class field length hasmask *)
| Pack (hdr : list int) (w : int)                   (* class field hasmask length -> word *)
| Unpack (w : int) (obs : list int).                (* word -> class field hasmask length *)

Definition n_of (i : int) : N := Z.to_N (Uint63.to_Z i).

Definition check15 (c : case15) : verdict :=
  match c with
  | Count n => let ok := N.eqb (n_of n) (N.of_nat (length registry)) in
               mkv ok (N.eqb (n_of n) (N.of_nat (length ovs_fields)))
  | Entry name obs =>
    let nm := str_of name in
    let model := match lookup nm registry with Some (c, f, w) => [c; f; w; 0] | None => [] end in
    let want := match spec_entry nm with Some (c, f, w) => [c; f; w; 0] | None => [] end in
    mkv (ns_eqb model (ns obs)) (ns_eqb want (ns obs))
  | Find name hm obs =>
    let nm := str_of name in
    let m := negb (N.eqb (n_of hm) 0) in
    let model := match FindFieldHeaderByName nm m with
                 | Some h => [1; fh_class h; fh_field h; fh_length h; b2N (fh_hasmask h)]
                 | None => [0; 0; 0; 0; 0] end in
    let want := match spec_entry (upper nm) with
                | Some (c, f, w) => [1; c; f; if m then 2 * w else w; b2N m]
                | None => [0; 0; 0; 0; 0] end in
    mkv (ns_eqb model (ns obs)) (ns_eqb want (ns obs))
  | Pack hdr w =>
    match ns hdr with
    | [c; f; hm; l] =>
      let h := {| fh_class := c ; fh_field := f ; fh_hasmask := negb (N.eqb hm 0) ; fh_length := l |} in
      mkv (N.eqb (MarshalHeader h) (n_of w)) (N.eqb (spec_header c f (negb (N.eqb hm 0)) l) (n_of w))
    | _ => VBad
    end
  | Unpack w obs =>
    let h := UnmarshalHeader (n_of w) in
    match ns obs with
    | [c; f; hm; l] =>
      mkv (ns_eqb [fh_class h; fh_field h; b2N (fh_hasmask h); fh_length h] [c; f; hm; l])
          (N.eqb (spec_header c f (negb (N.eqb hm 0)) l) (n_of w) && (f <? 128) && (l <? 256) && (hm <? 2))
    | _ => VBad
    end
  end.
