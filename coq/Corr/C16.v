(* Correspondence evaluation for C16: model (Model/NxUtil.v) against the observations
   the Go harness made on the real helpers, plus the property's oracle on those
   observations. Exhaustive over the property's domain. *)
From Coq Require Import ZArith List Uint63 Bool.
From LOF Require Export Corr.Common.
From LOF Require Import Model.NxUtil.
Import ListNotations.
Open Scope Z_scope.

Inductive case16 :=
| Range (obs : list int)          (* s e | mask ofsbits getofs getnbits (x2: start/end, ofs/nbits) | encoded mask *)
| Pairs (base : int) (ws : list int).

Definition check_range (obs : list Z) : verdict :=
  match obs with
  | [s; e; m1; w1; o1; n1; m2; w2; o2; n2; em] =>
    let r1 := NewNXRange s e in
    let r2 := NewNXRangeByOfsNBits s (e - s + 1) in
    let model := [ToUint32Mask r1; ToOfsBits r1; GetOfs r1; GetNbits r1;
                  ToUint32Mask r2; ToOfsBits r2; GetOfs r2; GetNbits r2; ToUint32Mask r1] in
    let want := [spec_mask s e; spec_ofsnbits s (e - s + 1); s; e - s + 1;
                 spec_mask s e; spec_ofsnbits s (e - s + 1); s; e - s + 1; spec_mask s e] in
    let got := [m1; w1; o1; n1; m2; w2; o2; n2; em] in
    mkv (zs_eqb model got) (zs_eqb want got)
  | _ => VBad
  end.

Fixpoint check_pairs (k : Z) (ws : list Z) (agree accept : bool) : bool * bool :=
  match ws with
  | [] => (agree, accept)
  | w :: ws' =>
    let ofs := Z.shiftr k 6 in let nbits := Z.land k 63 + 1 in
    let enc := Z.land w 65535 in let dofs := Z.land (Z.shiftr w 16) 65535 in
    let dnb := Z.land (Z.shiftr w 32) 255 in
    let se := Z.shiftr w 40 in      (* the same range described by first and last bit *)
    let a := (encodeOfsNbits ofs nbits =? enc) && (decodeOfs k =? dofs) && (decodeNbits k =? dnb)
             && (ToOfsBits (NewNXRange ofs (ofs + nbits - 1)) =? se) in
    (* oracle: the word is ofs*64 + nbits-1, and the decoders invert it: word k is the
       encoding of (k>>6, (k&63)+1) *)
    let c := (spec_ofsnbits ofs nbits =? enc) && (enc =? k) && (dofs =? ofs) && (dnb =? nbits) && (se =? k) in
    check_pairs (k + 1) ws' (agree && a) (accept && c)
  end.

Definition check16 (c : case16) : verdict :=
  match c with
  | Range obs => check_range (zs obs)
  | Pairs base ws => let '(a, c) := check_pairs (Uint63.to_Z base) (zs ws) true true in mkv a c
  end.
