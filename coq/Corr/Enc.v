(* Correspondence evaluation shared by the encode-side properties (C01 C02 C03 C06 C13):
   the harness built a value through the real API (recipe given as a term of
   Model/Build.v), ran a sequence of Len()/MarshalBinary() calls on it and recorded every
   result; the model replays the same operations. *)
From Coq Require Import NArith ZArith List Uint63 Bool.
From Coq.Strings Require Import Byte.
From LOF Require Export Corr.Common Model.Build.
From LOF Require Import Base.Bytes Model.Wire.
Import ListNotations.
Open Scope N_scope.

Inductive erec :=
| EMsg (xid : N) (m : mrec) | EAct (a : arec) | EMf (f : mfrec) | EInstr (i : irec)
| EBucket (b : brec) | EMatch (fs : list mfrec).

Definition model_of (e : erec) : tree :=
  match e with
  | EMsg x m => build_m x m | EAct a => build_a a | EMf f => build_mf f | EInstr i => build_i i
  | EBucket b => build_b b | EMatch fs => build_match fs
  end.

Fixpoint bytes_eqb (a b : list byte) : bool :=
  match a, b with
  | [], [] => true
  | x :: a', y :: b' => Byte.eqb x y && bytes_eqb a' b'
  | _, _ => false
  end.

(* one observed operation result: op 0 = Len() -> number; op 1 = MarshalBinary() ->
   bytes; outcome 0 = returned, 2 = panicked *)
Inductive obs := OLen (outcome n : int) | OBytes (outcome : int) (bs : list int).

Inductive caseE :=
| Enc (e : erec) (results : list obs)
      (hs : int) (kids : list (list int)).   (* expected own-header size; stand-alone encodings of the direct children *)

Definition n_of (i : int) : N := Z.to_N (Uint63.to_Z i).

(* replay on the model *)
Fixpoint replay (t : tree) (rs : list obs) : bool :=
  match rs with
  | [] => true
  | OLen oc n :: rs' => Uint63.eqb oc 0 && N.eqb (glen t) (n_of n) && replay t rs'
  | OBytes oc bs :: rs' =>
    let '(b, t') := marshal t in
    Uint63.eqb oc 0 && bytes_eqb b (unpack bs) && replay t' rs'
  end.

Definition first_bytes (rs : list obs) : option (list byte) :=
  match filter (fun o => match o with OBytes _ _ => true | _ => false end) rs with
  | OBytes _ bs :: _ => Some (unpack bs) | _ => None end.
Definition first_len (rs : list obs) : option N :=
  match filter (fun o => match o with OLen _ _ => true | _ => false end) rs with
  | OLen _ n :: _ => Some (n_of n) | _ => None end.
Definition no_panic (rs : list obs) : bool :=
  forallb (fun o => match o with OLen oc _ => Uint63.eqb oc 0 | OBytes oc _ => Uint63.eqb oc 0 end) rs.

(* run a case with a property-specific oracle over what the implementation produced *)
Definition check_with (oracle : caseE -> bool) (c : caseE) : verdict :=
  match c with
  | Enc e rs hs kids => mkv (replay (model_of e) rs) (oracle c)
  end.

Definition all_zero (l : list byte) : bool := forallb (fun b => Byte.eqb b x00) l.

(* ---- C06: reported size = encoded size; header ++ children intact ++ zero padding < 8 *)
Definition oracle06 (c : caseE) : bool :=
  match c with
  | Enc e rs hs kids =>
    no_panic rs &&
    match first_bytes rs with
    | None => false
    | Some b =>
      forallb (fun o => match o with OLen _ n => N.eqb (n_of n) (N.of_nat (length b)) | OBytes _ _ => true end) rs
      && (let h := N.to_nat (n_of hs) in
          let body := List.concat (map unpack kids) in
          let rest := skipn h b in
          (h <=? length b)%nat && bytes_eqb (firstn (length body) rest) body
          && all_zero (skipn (length body) rest) && (length rest - length body <? 8)%nat)
    end
  end.
Definition check06 := check_with oracle06.

(* ---- C13: every Len() gives the same number, every MarshalBinary() the same bytes *)
Definition oracle13 (c : caseE) : bool :=
  match c with
  | Enc e rs hs kids =>
    no_panic rs &&
    match first_bytes rs, first_len rs with
    | Some b, Some n =>
      forallb (fun o => match o with OLen _ m => N.eqb (n_of m) n | OBytes _ bs => bytes_eqb (unpack bs) b end) rs
    | Some b, None => forallb (fun o => match o with OLen _ _ => true | OBytes _ bs => bytes_eqb (unpack bs) b end) rs
    | None, Some n => forallb (fun o => match o with OLen _ m => N.eqb (n_of m) n | OBytes _ _ => true end) rs
    | None, None => true
    end
  end.
Definition check13 := check_with oracle13.

(* ---- C01: version 4, the kind's type code, length field = bytes produced = Len() *)
Fixpoint type_code (m : mrec) : N :=
  match m with
  | MHello => 0 | MHeader ty => ty | MSetConfig _ _ => 9 | MFlowMod _ _ _ _ _ _ _ _ _ _ _ _ _ => 14
  | MGroupMod _ _ _ _ => 15 | MPacketOut _ _ _ _ => 13 | MPortMod _ _ _ _ _ => 16 | MMultipart _ _ _ => 18
  | MSetControllerID _ | MTlvTableMod _ _ | MTlvTableReq | MBundleCtrl _ _ _ | MBundleAdd _ _ _ _ => 4
  end.
Definition oracle01 (c : caseE) : bool :=
  match c with
  | Enc (EMsg xid m) rs hs kids =>
    no_panic rs &&
    match first_bytes rs with
    | Some ((v :: ty :: l1 :: l0 :: _) as b) =>
      N.eqb (b2n v) 4 && N.eqb (b2n ty) (type_code m)
      && N.eqb (b2n l1 * 256 + b2n l0) (N.of_nat (length b))
      && forallb (fun o => match o with OLen _ n => N.eqb (n_of n) (N.of_nat (length b)) | OBytes _ _ => true end) rs
    | _ => false
    end
  | _ => true
  end.
Definition check01 := check_with oracle01.
