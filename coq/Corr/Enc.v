(* Correspondence evaluation shared by the encode-side properties (C01 C02 C03 C06 C13):
   the harness built a value through the real API (recipe given as a term of
   Model/Build.v), ran a sequence of Len()/MarshalBinary() calls on it and recorded every
   result; the model replays the same operations. *)
From Coq Require Import NArith ZArith List Uint63 Bool.
From Coq.Strings Require Import Byte.
From LOF Require Export Corr.Common Model.Build.
From LOF Require Export Corr.Pkt.   (* the record kinds of package protocol: [prec], [model_rt] *)
From LOF Require Import Base.Bytes Base.Res Model.Wire Model.Proto Model.BuildSw Model.Parse Proofs.HelloBaseP.
Import ListNotations.
Open Scope N_scope.

Inductive erec :=
| EMsg (xid : N) (m : mrec) | EAct (a : arec) | EMf (f : mfrec) | EInstr (i : irec)
| EBucket (b : brec) | EMatch (fs : list mfrec)
| EPkt (first : list byte)    (* an Ethernet frame, given by its first encoding (package protocol has no recipe model) *)
| ERec (p : prec)             (* a value of a record kind of package protocol (Model/Proto2.v) *)
| EHello (xid : N) (es : list (list N))    (* a hello whose element list was assigned by hand: version bitmaps *)
| EDec (xid : N) (m : mrec).               (* the value obtained by parsing the encoding of a built message *)

Definition model_of (e : erec) : tree :=
  match e with
  | EMsg x m => build_m x m | EAct a => build_a a | EMf f => build_mf f | EInstr i => build_i i
  | EBucket b => build_b b | EMatch fs => build_match fs
  | EPkt b => match dec_eth b with Ok t => t | _ => T KRaw [VB b] [] end
  | ERec _ => T KRaw [VB []] []      (* not used: record kinds are replayed by [replay_rec] *)
  | EHello x es => hello_tree x es
  | EDec x m => match parse_top (fst (marshal (build_m x m))) with Ok t => t | _ => T KRaw [VB []] [] end
  end.

Fixpoint bytes_eqb (a b : list byte) : bool :=
  match a, b with
  | [], [] => true
  | x :: a', y :: b' => Byte.eqb x y && bytes_eqb a' b'
  | _, _ => false
  end.

(* one observed operation result: op 0 = Len() -> number; op 1 = MarshalBinary() ->
   bytes; outcome 0 = returned, 2 = panicked *)
Inductive obs := OLen (outcome n : int) | OBytes (outcome : int) (bs : list int).

Inductive caseE :=
| Enc (e : erec) (results : list obs)
      (hs : int) (kids : list (list int)).   (* expected own-header size; stand-alone encodings of the direct children *)

Definition n_of (i : int) : N := Z.to_N (Uint63.to_Z i).

(* replay on the model *)
Fixpoint replay (t : tree) (rs : list obs) : bool :=
  match rs with
  | [] => true
  | OLen oc n :: rs' => Uint63.eqb oc 0 && N.eqb (glen t) (n_of n) && replay t rs'
  | OBytes oc bs :: rs' =>
    let '(b, t') := marshal t in
    Uint63.eqb oc 0 && bytes_eqb b (unpack bs) && replay t' rs'
  end.

Definition first_bytes (rs : list obs) : option (list byte) :=
  match filter (fun o => match o with OBytes _ _ => true | _ => false end) rs with
  | OBytes _ bs :: _ => Some (unpack bs) | _ => None end.
Definition first_len (rs : list obs) : option N :=
  match filter (fun o => match o with OLen _ _ => true | _ => false end) rs with
  | OLen _ n :: _ => Some (n_of n) | _ => None end.
Definition no_panic (rs : list obs) : bool :=
  forallb (fun o => match o with OLen oc _ => Uint63.eqb oc 0 | OBytes oc _ => Uint63.eqb oc 0 end) rs.

(* run a case with a property-specific oracle over what the implementation produced *)
(* record kinds: sizing and encoding are pure functions of the value *)
Definition replay_rec (p : prec) (rs : list obs) : bool :=
  let '(e, l, _) := model_rt p in
  forallb (fun o => match o with
                    | OLen oc n => Uint63.eqb oc 0 && (negb (has_len p) || N.eqb l (n_of n))
                    | OBytes oc bs => Uint63.eqb oc 0 && match e with Ok b => bytes_eqb b (unpack bs) | _ => false end
                    end) rs.
Definition check_with (oracle : caseE -> bool) (c : caseE) : verdict :=
  match c with
  | Enc (ERec p) rs hs kids => mkv (replay_rec p rs) (oracle c)
  | Enc e rs hs kids => mkv (replay (model_of e) rs) (oracle c)
  end.

Definition all_zero (l : list byte) : bool := forallb (fun b => Byte.eqb b x00) l.

(* ---- C06: reported size = encoded size; header ++ children intact ++ zero padding < 8 *)
Definition oracle06 (c : caseE) : bool :=
  match c with
  | Enc e rs hs kids =>
    no_panic rs &&
    match first_bytes rs with
    | None => false
    | Some b =>
      forallb (fun o => match o with OLen _ n => N.eqb (n_of n) (N.of_nat (length b)) | OBytes _ _ => true end) rs
      && (let h := N.to_nat (n_of hs) in
          let body := List.concat (map unpack kids) in
          let rest := skipn h b in
          (h <=? length b)%nat && bytes_eqb (firstn (length body) rest) body
          && all_zero (skipn (length body) rest) && (length rest - length body <? 8)%nat)
    end
  end.
Definition check06 := check_with oracle06.

(* ---- C13: every Len() gives the same number, every MarshalBinary() the same bytes *)
Definition oracle13 (c : caseE) : bool :=
  match c with
  | Enc e rs hs kids =>
    no_panic rs &&
    match first_bytes rs, first_len rs with
    | Some b, Some n =>
      forallb (fun o => match o with OLen _ m => N.eqb (n_of m) n | OBytes _ bs => bytes_eqb (unpack bs) b end) rs
    | Some b, None => forallb (fun o => match o with OLen _ _ => true | OBytes _ bs => bytes_eqb (unpack bs) b end) rs
    | None, Some n => forallb (fun o => match o with OLen _ m => N.eqb (n_of m) n | OBytes _ _ => true end) rs
    | None, None => true
    end
  end.
Definition check13 := check_with oracle13.

(* ---- C01: version 4, the kind's type code, length field = bytes produced = Len() *)
Fixpoint type_code (m : mrec) : N :=
  match m with
  | MHello => 0 | MHeader ty => ty | MSetConfig _ _ => 9 | MFlowMod _ _ _ _ _ _ _ _ _ _ _ _ _ => 14
  | MGroupMod _ _ _ _ => 15 | MPacketOut _ _ _ _ => 13 | MPortMod _ _ _ _ _ => 16 | MMultipart _ _ _ => 18
  | MSetControllerID _ | MTlvTableMod _ _ | MTlvTableReq | MBundleCtrl _ _ _ | MBundleAdd _ _ _ _ => 4
  end.
Definition framed (code : N) (rs : list obs) : bool :=
    no_panic rs &&
    match first_bytes rs with
    | Some ((v :: ty :: l1 :: l0 :: _) as b) =>
      N.eqb (b2n v) 4 && N.eqb (b2n ty) code
      && N.eqb (b2n l1 * 256 + b2n l0) (N.of_nat (length b))
      && forallb (fun o => match o with OLen _ n => N.eqb (n_of n) (N.of_nat (length b)) | OBytes _ _ => true end) rs
    | _ => false
    end.
Definition oracle01 (c : caseE) : bool :=
  match c with
  | Enc (EMsg xid m) rs hs kids => framed (type_code m) rs
  | Enc (EHello _ _) rs hs kids => framed 0 rs
  | _ => true
  end.
Definition check01 := check_with oracle01.

(* ---- C02 / C03: the independent decoder of Spec/Walk.v on the implementation's bytes *)
From LOF Require Import Spec.Walk.

Definition val_eqb (a b : val) : bool :=
  match a, b with
  | VN x, VN y => N.eqb x y
  | VB x, VB y => bytes_eqb x y
  | _, _ => false
  end.
Fixpoint list_eqb {A} (eq : A -> A -> bool) (a b : list A) : bool :=
  match a, b with
  | [], [] => true
  | x :: a', y :: b' => eq x y && list_eqb eq a' b'
  | _, _ => false
  end.
Definition kind_code (k : kind) : N :=
  match k with
  | KMatch => 0 | KMatchField => 1 | KActOutput => 2 | KActSetQueue => 3 | KActGroup => 4 | KActDecNwTtl => 5
  | KActPopVlan => 6 | KActPush => 7 | KActPopMpls => 8 | KActSetField => 9 | KActHeader => 10
  | KNxConjunction => 11 | KNxConnTrack => 12 | KNxRegLoad => 13 | KNxRegMove => 14 | KNxResubmit => 15
  | KNxResubmitTable => 16 | KNxNat => 17 | KNxOutputReg => 18 | KNxCtClear => 19 | KNxDecTtl => 20
  | KNxDecTtlCntIds => 21 | KNxLearn => 22 | KLearnSpec => 23 | KNxNote => 24 | KNxRegLoad2 => 25
  | KNxController => 26 | KInstrGoto => 27 | KInstrWriteMeta => 28 | KInstrActions => 29 | KBucket => 30
  | KHeaderOnly => 31 | KHello => 32 | KHelloElemBitmap => 33 | KSwitchConfig => 34 | KFlowMod => 35
  | KGroupMod => 36 | KPacketOut => 37 | KPortMod => 38 | KMultipartReq => 39 | KFlowStatsReq => 40
  | KAggStatsReq => 41 | KPortStatsReq => 42 | KQueueStatsReq => 43 | KVendor => 44 | KControllerID => 45
  | KTlvTableMod => 46 | KTlvMap => 47 | KBundleCtrl => 48 | KBundleAdd => 49 | KBundleProp => 50 | KRaw => 51
  | KError => 52 | KVendorError => 53 | KFeatures => 54 | KPhyPort => 55 | KPacketIn => 56 | KPad2 => 57 | KFlowRemoved => 58
  | KPortStatus => 59 | KMultipartReply => 60 | KDescStats => 61 | KFlowStats => 62 | KAggStats => 63 | KTableStats => 64
  | KPortStats => 65 | KQueueStats => 66 | KTlvTableReply => 67 | KEth => 68 | KVlan => 69 | KU16 => 70 | KArp => 71 | KIp4 => 72
  | KIp6 => 73 | KHbh => 74 | KRouting => 75 | KFragment => 76 | KIcmp => 77 | KUdp => 78 | KTcp => 79
  end.
Fixpoint tree_eqb (a b : tree) : bool :=
  match a, b with
  | T ka va kka, T kb vb kkb =>
    N.eqb (kind_code ka) (kind_code kb) && list_eqb val_eqb va vb &&
    (fix go (x y : list tree) : bool :=
       match x, y with
       | [], [] => true
       | p :: x', q :: y' => tree_eqb p q && go x' y'
       | _, _ => false
       end) kka kkb
  end.

Definition spec_of (e : erec) (b : list byte) : option tree :=
  let whole (r : option (tree * list byte)) := match r with Some (t, []) => Some t | _ => None end in
  match e with
  | EMsg _ _ | EHello _ _ => spec_decode b
  | EAct _ => whole (sdec_action (S (length b)) b)
  | EMf _ => whole (sdec_oxm b)
  | EInstr _ => whole (sdec_instr b)
  | EBucket _ => whole (sdec_bucket b)
  | EMatch _ => whole (sdec_match b)
  | EPkt _ | ERec _ | EDec _ _ => None
  end.

Definition oracle02 (c : caseE) : bool :=
  match c with
  | Enc e rs hs kids =>
    no_panic rs && match first_bytes rs with
                   | Some b => match spec_of e b with Some _ => true | None => false end
                   | None => false end
  end.
Definition check02 := check_with oracle02.

(* known finding D10: port / queue statistics requests use the OpenFlow 1.0 body layout
   (16-bit port number), so an OpenFlow 1.3 reader sees the port number shifted by 16 bits
   and nothing else different *)
Fixpoint apply_d10 (t : tree) : tree :=
  match t with
  | T KPortStatsReq [VN p] [] => T KPortStatsReq [VN (p * 65536)] []
  | T KQueueStatsReq [VN p; q] [] => T KQueueStatsReq [VN (p * 65536); q] []
  | T k vs kids => T k vs (map apply_d10 kids)
  end.

Definition verdict03 (c : caseE) : verdict :=
  match c with
  | Enc e rs hs kids =>
    let agree := replay (model_of e) rs in
    let expected := canon (norm (model_of e)) in
    match (if no_panic rs then first_bytes rs else None) with
    | Some b =>
      match spec_of e b with
      | Some t => if tree_eqb t expected then mkv agree true
                  else if agree && tree_eqb t (apply_d10 expected) then VKnown 10
                  else mkv agree false
      | None => mkv agree false
      end
    | None => mkv agree false
    end
  end.
Definition check03 := verdict03.

(* the hypothesis of the general theorems of C02 / C03 (Proofs/WalkMsgP.v), evaluated on the
   generated recipes: reported in the evidence as the share of cases the theorem speaks about *)
From LOF Require Import Proofs.WalkAllP Proofs.WalkMsgP Proofs.ParseSwHelloP.
Definition thm_hyp (c : caseE) : bool :=
  match c with
  | Enc e _ _ _ =>
    match e with
    | EMsg x m => msg_ok m && (x <? 4294967296)%N
    | EAct a => act_ok a | EMf f => mf_ok f | EInstr i => instr_ok i | EBucket b => bucket_ok b | EMatch fs => match_ok fs
    | EPkt _ | ERec _ | EDec _ _ => false
    | EHello x es => hello_ok (map HBitmap es) && (x <? 4294967296)%N
    end
  end.
Definition count_hyp {C} (p : C -> bool) (cs : list (int * C)) : nat * nat :=
  (length (filter (fun x => p (snd x)) cs), length cs).
