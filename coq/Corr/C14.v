(* Correspondence evaluation for C14. *)
From Coq Require Import NArith ZArith List Uint63 Bool.
From LOF Require Export Corr.Common.
From LOF Require Import Model.Xid.
Import ListNotations.
Open Scope N_scope.

Inductive case14 :=
| Draws (c0 : int) (n : int) (ids : list int)       (* all ids of a round, sorted *)
| DrawStats (c0 n distinct mn mx : int)
| Conc (goroutines jobs mismatches : int).

Definition n_of (i : int) : N := Z.to_N (Uint63.to_Z i).

Fixpoint sorted_distinct (l : list N) : bool :=
  match l with
  | a :: ((b :: _) as r) => (a <? b) && sorted_distinct r
  | _ => true
  end.
Fixpoint insert (x : N) (l : list N) : list N :=
  match l with [] => [x] | y :: r => if x <=? y then x :: l else y :: insert x r end.
Definition sortN (l : list N) : list N := fold_right insert [] l.
Fixpoint ns_eqb (a b : list N) : bool :=
  match a, b with [], [] => true | x :: a', y :: b' => N.eqb x y && ns_eqb a' b' | _, _ => false end.

Definition check14 (c : case14) : verdict :=
  match c with
  | Draws c0 n idl =>
    let l := ns idl in
    (* model: the ids of any schedule of n atomic draws from c0 (a single-thread schedule
       has the same id multiset as every other) *)
    let model := sortN (ids (run_atomic (n_of c0) (repeat 0%nat (N.to_nat (n_of n))))) in
    mkv (ns_eqb model l) (sorted_distinct l && N.eqb (N.of_nat (length l)) (n_of n))
  | DrawStats c0 n d mn mx =>
    mkv (N.eqb (n_of mn) (n_of c0 + 1) && N.eqb (n_of mx) (n_of c0 + n_of n) && N.eqb (n_of d) (n_of n))
        (N.eqb (n_of d) (n_of n))
  | Conc g j m => mkv (N.eqb (n_of m) 0) (N.eqb (n_of m) 0)
  end.
