(* Correspondence evaluation for C08 / C09 (package protocol). *)
From Coq Require Import NArith ZArith List Uint63 Bool.
From Coq.Strings Require Import Byte.
From LOF Require Export Corr.Common.
From LOF Require Import Base.Bytes Base.Res Model.Wire Model.Proto.
Import ListNotations.
Open Scope N_scope.

Fixpoint bytes_eqb (a b : list byte) : bool :=
  match a, b with
  | [], [] => true
  | x :: a', y :: b' => Byte.eqb x y && bytes_eqb a' b'
  | _, _ => false
  end.
Definition n_of (i : int) : N := Z.to_N (Uint63.to_Z i).

Inductive caseP :=
| Pk (dec : int) (input : list int) (outcome : int) (reenc : list int) (cmp : int)
| Frame (bytes : list int) (len outcome : int) (reenc : list int) (tag lenv tagged tci ethertype fields_equal : int)
| Lane (code : int) (ws : list int).

Definition run_dec (code : N) (d : list byte) : option (res tree) :=
  match code with
  | 0 => Some (dec_eth d) | 1 => Some (dec_arp d) | 2 => Some (dec_ip4 d) | 3 => Some (dec_ip6 d)
  | 4 => Some (dec_icmp d) | 5 => Some (dec_udp d) | 6 => Some (dec_tcp d)
  | 7 => Some (match dec_hbh d with Ok (t, _, _) => Ok t | Err => Err | Panic => Panic | Fuel => Fuel end)
  | 8 => Some (match dec_routing d with Ok (t, _, _) => Ok t | Err => Err | Panic => Panic | Fuel => Fuel end)
  | 9 => Some (match dec_fragment d with Ok (t, _, _) => Ok t | Err => Err | Panic => Panic | Fuel => Fuel end)
  | _ => None
  end.

(* C08: the property's oracle is "a value or an error" (0 / 1); panic 2, hang 3, memory 4 *)
Definition check08 (c : caseP) : verdict :=
  match c with
  | Pk dec input outcome reenc cmp =>
    let oc := n_of outcome in
    let accept := (oc <? 2) in
    match run_dec (n_of dec) (unpack input) with
    | None => mkv true accept
    | Some r =>
      let agree := match r with
                   | Ok t => N.eqb oc 0 && (N.eqb (n_of cmp) 0 || bytes_eqb (wire t) (unpack reenc))
                   | Err => N.eqb oc 1
                   | Panic => N.eqb oc 2
                   | Fuel => false
                   end in
      mkv agree accept
    end
  | _ => VBad
  end.

(* ---- C09 ---- *)
(* demultiplexing written from the RFCs, on the bytes: ethertype after any 802.1Q tag; IPv4
   protocol; IPv6 next-header chain through hop-by-hop (0), routing (43), fragment (44) *)
Definition byte_at (d : list byte) (i : N) : N := b2n (nth (N.to_nat i) d x00).
Definition u16_at (d : list byte) (i : N) : N := byte_at d i * 256 + byte_at d (i + 1).
Fixpoint v6_l4 (fuel : nat) (nh : N) (d : list byte) (off : N) : N :=
  match fuel with
  | O => 0
  | S f =>
    if (N.eqb nh 0 || N.eqb nh 43)%bool then v6_l4 f (byte_at d off) d (off + 8 * (byte_at d (off + 1) + 1))
    else if N.eqb nh 44 then v6_l4 f (byte_at d off) d (off + 8)
    else if N.eqb nh 58 then 1 else if N.eqb nh 17 then 2 else 0
  end.
Definition spec_demux (d : list byte) : N :=
  let et0 := u16_at d 12 in
  let '(et, off) := if N.eqb et0 33024 then (u16_at d 16, 18) else (et0, 14) in
  if N.eqb et 2048 then
    let pr := byte_at d (off + 9) in 40 + (if N.eqb pr 1 then 1 else if N.eqb pr 17 then 2 else 0)
  else if N.eqb et 34525 then 60 + v6_l4 8 (byte_at d (off + 6)) d (off + 40)
  else if N.eqb et 2054 then 30 else 0.

Definition model_tag (t : tree) : N :=
  match t with
  | T KEth _ kids =>
    match rev kids with
    | p :: _ => payload_tag p * 10 + match p with
                                      | T KIp4 _ [q] => payload_tag q
                                      | T KIp6 _ ks => match rev ks with q :: _ => payload_tag q | [] => 0 end
                                      | _ => 0 end
    | [] => 0
    end
  | _ => 0
  end.

Definition check_frame (b : list byte) (len oc : N) (re : list byte) (tag lenv tagged tci et same : N) : verdict :=
  let agree := match dec_eth b with
               | Ok t => N.eqb oc 0 && bytes_eqb (wire t) re && N.eqb (model_tag t) tag && N.eqb (size t) lenv
               | Err => N.eqb oc 1
               | _ => false end in
  let n := N.of_nat (length b) in
  let common := N.eqb oc 0 && bytes_eqb re b && N.eqb len n && N.eqb lenv n && N.eqb (spec_demux b) tag in
  let tag_ok := if N.eqb tagged 1 then N.eqb (u16_at b 12) 33024 && N.eqb (u16_at b 14) tci && N.eqb (u16_at b 16) et
                else N.eqb (u16_at b 12) et in
  if common && tag_ok && N.eqb same 1 then mkv agree true
  else mkv agree false.

(* lanes: each word carries the input and what the library made of it *)
Definition bits (w lo n : N) : N := N.land (N.shiftr w lo) (N.ones n).
Definition lane_ok (code w : N) : bool * bool :=
  match code with
  | 0 => (* vlan tci: in(16) pcp(4) dei(4) vid(16) re(16) *)
    let i := bits w 0 16 in let pcp := bits w 16 4 in let dei := bits w 20 4 in let vid := bits w 24 16 in let re := bits w 40 16 in
    let '(p, d, v) := unpack_tci i in
    (N.eqb p pcp && N.eqb d dei && N.eqb v vid && N.eqb (pack_tci p d v) re,
     N.eqb pcp (i / 8192) && N.eqb dei ((i / 4096) mod 2) && N.eqb vid (i mod 4096) && N.eqb re i)
  | 1 => (* ipv4 bytes: in(8) dscp(8) ecn(8) version(8) ihl(8) *)
    let i := bits w 0 8 in let dscp := bits w 8 8 in let ecn := bits w 16 8 in let ver := bits w 24 8 in let ihl := bits w 32 8 in
    (N.eqb (fst (unpack_tos i)) dscp && N.eqb (snd (unpack_tos i)) ecn && N.eqb (fst (unpack_vihl i)) ver && N.eqb (snd (unpack_vihl i)) ihl,
     N.eqb dscp (i / 4) && N.eqb ecn (i mod 4) && N.eqb ver (i / 16) && N.eqb ihl (i mod 16))
  | 2 => (* ipv4 flags/frag: in(16) flags(8) off(16) re(16) *)
    let i := bits w 0 16 in let fl := bits w 16 8 in let off := bits w 24 16 in let re := bits w 40 16 in
    (N.eqb (fst (unpack_frag i)) fl && N.eqb (snd (unpack_frag i)) off && N.eqb (pack_frag fl off) re,
     N.eqb fl (i / 8192) && N.eqb off (i mod 8192) && N.eqb re i)
  | 3 => (* ipv6 fragment: in(16) off(16) more(8) re(16) *)
    let i := bits w 0 16 in let off := bits w 16 16 in let m := bits w 32 8 in let re := bits w 40 16 in
    (N.eqb (fst (unpack_frag6 i)) off && Bool.eqb (snd (unpack_frag6 i)) (N.eqb m 1) && N.eqb (pack_frag6 off (N.eqb m 1)) re,
     N.eqb off (i / 8) && N.eqb m (i mod 2) && N.eqb re (i - (i mod 8) + (i mod 2)))   (* the two reserved bits are not kept *)
  | 4 => (* tcp bytes: in(8) hdrlen(8) code(8) re12(8) re13(8) *)
    let i := bits w 0 8 in let hl := bits w 8 8 in let code := bits w 16 8 in let r12 := bits w 24 8 in let r13 := bits w 32 8 in
    (N.eqb (unpack_tcp_off i) hl && N.eqb (mask_tcp_code i) code && N.eqb (pack_tcp_off hl) r12 && N.eqb (mask_tcp_code code) r13,
     N.eqb hl (i / 16) && N.eqb code (i mod 64) && N.eqb r12 (i - i mod 16) && N.eqb r13 (i mod 64))
  | 6 => (* igmpv3: in(8) s(8) qrv(8) re(8) *)
    let i := bits w 0 8 in let s := bits w 8 8 in let q := bits w 16 8 in let re := bits w 24 8 in
    (Bool.eqb (fst (unpack_sqrv i)) (N.eqb s 1) && N.eqb (snd (unpack_sqrv i)) q && N.eqb (pack_sqrv (N.eqb s 1) q) re,
     N.eqb s ((i / 8) mod 2) && N.eqb q (i mod 8) && N.eqb re (i mod 16))
  | _ => (false, false)
  end.

Fixpoint lanes (code : N) (ws : list N) (a c : bool) : bool * bool :=
  match ws with
  | [] => (a, c)
  | w :: r => let '(x, y) := lane_ok code w in lanes code r (a && x) (c && y)
  end.
(* ipv6 first word: triples in, version|tc<<8|flow<<16, re *)
Fixpoint lanes_v6 (ws : list N) (a c : bool) : bool * bool :=
  match ws with
  | i :: f :: re :: r =>
    let ver := bits f 0 8 in let tc := bits f 8 8 in let fl := bits f 16 20 in
    let '(v, t, l) := unpack_v6 i in
    lanes_v6 r (a && N.eqb v ver && N.eqb t tc && N.eqb l fl && N.eqb (pack_v6 ver tc fl) re)
             (c && N.eqb ver (i / 268435456) && N.eqb tc ((i / 1048576) mod 256) && N.eqb fl (i mod 1048576) && N.eqb re i)
  | _ => (a, c)
  end.

Definition check09 (c : caseP) : verdict :=
  match c with
  | Frame b len oc re tag lenv tagged tci et same =>
    check_frame (unpack b) (n_of len) (n_of oc) (unpack re) (n_of tag) (n_of lenv) (n_of tagged) (n_of tci) (n_of et) (n_of same)
  | Lane code ws =>
    let '(a, c) := if N.eqb (n_of code) 5 then lanes_v6 (ns ws) true true else lanes (n_of code) (ns ws) true true in
    mkv a c
  | _ => VBad
  end.
