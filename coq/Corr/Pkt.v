(* Correspondence evaluation for C08 / C09 (package protocol). *)
From Coq Require Import NArith ZArith List Uint63 Bool.
From Coq.Strings Require Import Byte.
From LOF Require Export Corr.Common.
From LOF Require Import Base.Bytes Base.Res Model.Wire Model.Proto Model.Proto2.
Import ListNotations.
Open Scope N_scope.

Fixpoint bytes_eqb (a b : list byte) : bool :=
  match a, b with
  | [], [] => true
  | x :: a', y :: b' => Byte.eqb x y && bytes_eqb a' b'
  | _, _ => false
  end.
Definition n_of (i : int) : N := Z.to_N (Uint63.to_Z i).

(* values of the record kinds of Model/Proto2.v as the harness writes them *)
Inductive prec :=
| PIgmp12 (ty mrt cs : int) (group : list int)
| PIgmp3q (ty mrt cs : int) (group : list int) (s qrv qqic ns : int) (srcs : list (list int))
| PGr (ty aux ns : int) (mcast : list int) (srcs : list (list int)) (auxd : list int)
| PReport (ty cs ng : int) (recs : list prec)
| PDhcp (nums : list int) (ci yi si gi ch sname file : list int) (opts : list (int * list int))
| PTlv (ty len sub : int) (data : list int)
| PTtl (ty len secs : int)
| PLldp (ch pt tl : prec)
| PVlan (tpid pcp dei vid : int)
| PV6opt (ty len : int) (data : list int).

Inductive caseP :=
| Pk (dec : int) (input : list int) (outcome : int) (reenc : list int) (cmp : int)
| Pk2 (dec : int) (input : list int) (outcome : int) (reenc : list int) (lenv : int) (cmp : int)
| Rt (v : prec) (bytes : list int) (len0 : int) (outcome : int) (reenc : list int) (lenv same : int)
| Frame (bytes : list int) (len outcome : int) (reenc : list int) (tag lenv tagged tci ethertype fields_equal : int)
| Lane (code : int) (ws : list int).

Definition run_dec (code : N) (d : list byte) : option (res tree) :=
  match code with
  | 0 => Some (dec_eth d) | 1 => Some (dec_arp d) | 2 => Some (dec_ip4 d) | 3 => Some (dec_ip6 d)
  | 4 => Some (dec_icmp d) | 5 => Some (dec_udp d) | 6 => Some (dec_tcp d)
  | 7 => Some (match dec_hbh d with Ok (t, _, _) => Ok t | Err => Err | Panic => Panic | Fuel => Fuel end)
  | 8 => Some (match dec_routing d with Ok (t, _, _) => Ok t | Err => Err | Panic => Panic | Fuel => Fuel end)
  | 9 => Some (match dec_fragment d with Ok (t, _, _) => Ok t | Err => Err | Panic => Panic | Fuel => Fuel end)
  | _ => None
  end.

(* ---- the record kinds (codes 100..111): decode, then the re-encoding and reported size of
   the decoded value *)
Definition obs2 := (res (list byte) * N)%type.        (* re-encoding (Err: the encoder refuses), Len() *)
Definition seen {A} (r : res A) (enc : A -> res (list byte)) (len : A -> N) : res obs2 :=
  match r with Ok v => Ok (enc v, len v) | Err => Err | Panic => Panic | Fuel => Fuel end.
Definition okb {A} (f : A -> list byte) (a : A) : res (list byte) := Ok (f a).
Definition run_dec2 (code : N) (d : list byte) : option (res obs2) :=
  match code with
  | 100 => Some (seen (dec_vlan d) (okb enc_vlan) (fun _ => 4))
  | 101 => Some (seen (dec_v6opt d) (okb enc_v6opt) len_v6opt)
  | 102 => Some (seen (dec_igmp12 d) (okb enc_igmp12) len_igmp12)
  | 103 => Some (seen (dec_igmp3q d) (okb enc_igmp3q) len_igmp3q)
  | 104 => Some (seen (dec_gr d) (okb enc_gr) len_gr)
  | 105 => Some (seen (dec_report d) (okb enc_report) len_report)
  | 106 => Some (seen (dec_dhcp d) enc_dhcp len_dhcp)
  | 107 => Some (seen (parse_opts (S (length d)) d) (fun _ => Ok []) (fun _ => 0))
  | 108 => Some (seen (dec_lldp_r d) (okb enc_lldp) len_lldp)
  | 109 | 110 => Some (seen (dec_tlv_r d) (okb enc_tlv) (fun _ => 0))
  | 111 => Some (seen (dec_ttl_r d) (okb enc_ttl) (fun _ => 0))
  | _ => None
  end.

Definition bs_of (l : list int) : list byte := unpack l.
Definition conv_gr (p : prec) : igmp3gr :=
  match p with
  | PGr ty aux nsrc mc srcs auxd =>
    {| r_type := n_of ty; r_aux := n_of aux; r_ns := n_of nsrc; r_mcast := bs_of mc; r_srcs := map bs_of srcs; r_auxd := ns auxd |}
  | _ => {| r_type := 0; r_aux := 0; r_ns := 0; r_mcast := []; r_srcs := []; r_auxd := [] |}
  end.
Definition conv_tlv (p : prec) : tlv :=
  match p with
  | PTlv ty ln sub data => {| t_type := n_of ty; t_len := n_of ln; t_sub := n_of sub; t_data := bs_of data |}
  | _ => nil_tlv
  end.
Definition conv_ttl (p : prec) : ttl :=
  match p with
  | PTtl ty ln secs => {| l_type := n_of ty; l_len := n_of ln; l_secs := n_of secs |}
  | _ => nil_ttl
  end.
Definition nth_n (l : list int) (i : nat) : N := n_of (nth i l 0%uint63).

Definition bs_eqb := bytes_eqb.
Fixpoint bss_eqb (a b : list (list byte)) : bool :=
  match a, b with [], [] => true | x :: a', y :: b' => bs_eqb x y && bss_eqb a' b' | _, _ => false end.
Fixpoint ns_eqb (a b : list N) : bool :=
  match a, b with [], [] => true | x :: a', y :: b' => N.eqb x y && ns_eqb a' b' | _, _ => false end.
Definition gr_eqb (a b : igmp3gr) : bool :=
  N.eqb (r_type a) (r_type b) && N.eqb (r_aux a) (r_aux b) && N.eqb (r_ns a) (r_ns b) && bs_eqb (r_mcast a) (r_mcast b)
  && bss_eqb (r_srcs a) (r_srcs b) && ns_eqb (r_auxd a) (r_auxd b).
Fixpoint grs_eqb (a b : list igmp3gr) : bool :=
  match a, b with [], [] => true | x :: a', y :: b' => gr_eqb x y && grs_eqb a' b' | _, _ => false end.
Fixpoint opts_eqb (a b : list dopt) : bool :=
  match a, b with [], [] => true | x :: a', y :: b' => N.eqb (fst x) (fst y) && bs_eqb (snd x) (snd y) && opts_eqb a' b' | _, _ => false end.
Definition tlv_eqb (a b : tlv) : bool :=
  N.eqb (t_type a) (t_type b) && N.eqb (t_len a) (t_len b) && N.eqb (t_sub a) (t_sub b) && bs_eqb (t_data a) (t_data b).
Definition ttl_eqb (a b : ttl) : bool := N.eqb (l_type a) (l_type b) && N.eqb (l_len a) (l_len b) && N.eqb (l_secs a) (l_secs b).

(* a value case, as the model sees it: the encoding of the value, the size it reports, and
   whether decoding that encoding gives the value back *)
Definition rt_view {A} (v : A) (enc : A -> res (list byte)) (len : A -> N) (dec : list byte -> res A) (eqb : A -> A -> bool)
  : res (list byte) * N * bool :=
  (enc v, len v, match enc v with Ok b => match dec b with Ok v' => eqb v' v | _ => false end | _ => false end).
Definition model_rt (p : prec) : res (list byte) * N * bool :=
  match p with
  | PIgmp12 ty mrt cs g =>
    rt_view {| g_type := n_of ty; g_mrt := n_of mrt; g_csum := n_of cs; g_group := bs_of g |} (okb enc_igmp12) len_igmp12 dec_igmp12
            (fun a b => N.eqb (g_type a) (g_type b) && N.eqb (g_mrt a) (g_mrt b) && N.eqb (g_csum a) (g_csum b) && bs_eqb (g_group a) (g_group b))
  | PIgmp3q ty mrt cs g s qrv qqic nsrc srcs =>
    rt_view {| q_type := n_of ty; q_mrt := n_of mrt; q_csum := n_of cs; q_group := bs_of g; q_s := N.eqb (n_of s) 1; q_qrv := n_of qrv;
               q_qqic := n_of qqic; q_ns := n_of nsrc; q_srcs := map bs_of srcs |} (okb enc_igmp3q) len_igmp3q dec_igmp3q
            (fun a b => N.eqb (q_type a) (q_type b) && N.eqb (q_mrt a) (q_mrt b) && N.eqb (q_csum a) (q_csum b) && bs_eqb (q_group a) (q_group b)
                        && Bool.eqb (q_s a) (q_s b) && N.eqb (q_qrv a) (q_qrv b) && N.eqb (q_qqic a) (q_qqic b) && N.eqb (q_ns a) (q_ns b)
                        && bss_eqb (q_srcs a) (q_srcs b))
  | PGr _ _ _ _ _ _ => rt_view (conv_gr p) (okb enc_gr) len_gr dec_gr gr_eqb
  | PReport ty cs ng recs =>
    rt_view {| p_type := n_of ty; p_csum := n_of cs; p_ng := n_of ng; p_recs := map conv_gr recs |} (okb enc_report) len_report dec_report
            (fun a b => N.eqb (p_type a) (p_type b) && N.eqb (p_csum a) (p_csum b) && N.eqb (p_ng a) (p_ng b) && grs_eqb (p_recs a) (p_recs b))
  | PDhcp nums ci yi si gi ch sname file opts =>
    rt_view {| d_op := nth_n nums 0; d_ht := nth_n nums 1; d_hl := nth_n nums 2; d_hops := nth_n nums 3; d_xid := nth_n nums 4;
               d_secs := nth_n nums 5; d_flags := nth_n nums 6; d_ci := bs_of ci; d_yi := bs_of yi; d_si := bs_of si; d_gi := bs_of gi;
               d_ch := bs_of ch; d_sname := bs_of sname; d_file := bs_of file; d_opts := map (fun o => (n_of (fst o), bs_of (snd o))) opts |}
            enc_dhcp len_dhcp dec_dhcp
            (fun a b => N.eqb (d_op a) (d_op b) && N.eqb (d_ht a) (d_ht b) && N.eqb (d_hl a) (d_hl b) && N.eqb (d_hops a) (d_hops b)
                        && N.eqb (d_xid a) (d_xid b) && N.eqb (d_secs a) (d_secs b) && N.eqb (d_flags a) (d_flags b)
                        && bs_eqb (d_ci a) (d_ci b) && bs_eqb (d_yi a) (d_yi b) && bs_eqb (d_si a) (d_si b) && bs_eqb (d_gi a) (d_gi b)
                        && bs_eqb (d_ch a) (d_ch b) && bs_eqb (d_sname a) (d_sname b) && bs_eqb (d_file a) (d_file b) && opts_eqb (d_opts a) (d_opts b))
  | PTlv _ _ _ _ => rt_view (conv_tlv p) (okb enc_tlv) (fun _ => 0) dec_tlv_r tlv_eqb
  | PTtl _ _ _ => rt_view (conv_ttl p) (okb enc_ttl) (fun _ => 0) dec_ttl_r ttl_eqb
  | PLldp ch pt tl =>
    rt_view {| ll_ch := conv_tlv ch; ll_pt := conv_tlv pt; ll_ttl := conv_ttl tl |} (okb enc_lldp) len_lldp dec_lldp_r
            (fun a b => tlv_eqb (ll_ch a) (ll_ch b) && tlv_eqb (ll_pt a) (ll_pt b) && ttl_eqb (ll_ttl a) (ll_ttl b))
  | PVlan tp pcp dei vid =>
    rt_view {| v_tpid := n_of tp; v_pcp := n_of pcp; v_dei := n_of dei; v_vid := n_of vid |} (okb enc_vlan) (fun _ => 4) dec_vlan
            (fun a b => N.eqb (v_tpid a) (v_tpid b) && N.eqb (v_pcp a) (v_pcp b) && N.eqb (v_dei a) (v_dei b) && N.eqb (v_vid a) (v_vid b))
  | PV6opt ty ln data =>
    rt_view {| o_type := n_of ty; o_len := n_of ln; o_data := bs_of data |} (okb enc_v6opt) len_v6opt dec_v6opt
            (fun a b => N.eqb (o_type a) (o_type b) && N.eqb (o_len a) (o_len b) && bs_eqb (o_data a) (o_data b))
  end.
(* kinds whose values report no size (the TLVs have no Len method) *)
Definition has_len (p : prec) : bool := match p with PTlv _ _ _ _ | PTtl _ _ _ => false | _ => true end.

(* C08: the property's oracle is "a value or an error" (0 / 1); panic 2, hang 3, memory 4 *)
Definition check08 (c : caseP) : verdict :=
  match c with
  | Pk dec input outcome reenc cmp =>
    let oc := n_of outcome in
    let accept := (oc <? 2) in
    match run_dec (n_of dec) (unpack input) with
    | None => mkv true accept
    | Some r =>
      let agree := match r with
                   | Ok t => N.eqb oc 0 && (N.eqb (n_of cmp) 0 || bytes_eqb (wire t) (unpack reenc))
                   | Err => N.eqb oc 1
                   | Panic => N.eqb oc 2
                   | Fuel => false
                   end in
      mkv agree accept
    end
  | Pk2 dec input outcome reenc lenv cmp =>
    let oc := n_of outcome in
    let accept := (oc <? 2) in
    match run_dec2 (n_of dec) (unpack input) with
    | None => VBad
    | Some r =>
      let agree := match r with
                   | Ok (e, l) => N.eqb oc 0 && (N.eqb (n_of cmp) 0 ||
                                   (match e with Ok b => bytes_eqb b (unpack reenc) | _ => bytes_eqb [] (unpack reenc) end
                                    && (N.eqb (n_of cmp) 1 || N.eqb l (n_of lenv))))
                   | Err => N.eqb oc 1
                   | Panic => N.eqb oc 2
                   | Fuel => false
                   end in
      mkv agree accept
    end
  | _ => VBad
  end.

(* ---- C09 ---- *)
(* demultiplexing written from the RFCs, on the bytes: ethertype after any 802.1Q tag; IPv4
   protocol; IPv6 next-header chain through hop-by-hop (0), routing (43), fragment (44) *)
Definition byte_at (d : list byte) (i : N) : N := b2n (nth (N.to_nat i) d x00).
Definition u16_at (d : list byte) (i : N) : N := byte_at d i * 256 + byte_at d (i + 1).
Fixpoint v6_l4 (fuel : nat) (nh : N) (d : list byte) (off : N) : N :=
  match fuel with
  | O => 0
  | S f =>
    if (N.eqb nh 0 || N.eqb nh 43)%bool then v6_l4 f (byte_at d off) d (off + 8 * (byte_at d (off + 1) + 1))
    else if N.eqb nh 44 then v6_l4 f (byte_at d off) d (off + 8)
    else if N.eqb nh 58 then 1 else if N.eqb nh 17 then 2 else 0
  end.
Definition spec_demux (d : list byte) : N :=
  let et0 := u16_at d 12 in
  let '(et, off) := if N.eqb et0 33024 then (u16_at d 16, 18) else (et0, 14) in
  if N.eqb et 2048 then
    let pr := byte_at d (off + 9) in 40 + (if N.eqb pr 1 then 1 else if N.eqb pr 17 then 2 else 0)
  else if N.eqb et 34525 then 60 + v6_l4 8 (byte_at d (off + 6)) d (off + 40)
  else if N.eqb et 2054 then 30 else 0.

Definition model_tag (t : tree) : N :=
  match t with
  | T KEth _ kids =>
    match rev kids with
    | p :: _ => payload_tag p * 10 + match p with
                                      | T KIp4 _ [q] => payload_tag q
                                      | T KIp6 _ ks => match rev ks with q :: _ => payload_tag q | [] => 0 end
                                      | _ => 0 end
    | [] => 0
    end
  | _ => 0
  end.

Definition check_frame (b : list byte) (len oc : N) (re : list byte) (tag lenv tagged tci et same : N) : verdict :=
  let agree := match dec_eth b with
               | Ok t => N.eqb oc 0 && bytes_eqb (wire t) re && N.eqb (model_tag t) tag && N.eqb (size t) lenv
               | Err => N.eqb oc 1
               | _ => false end in
  let n := N.of_nat (length b) in
  let common := N.eqb oc 0 && bytes_eqb re b && N.eqb len n && N.eqb lenv n && N.eqb (spec_demux b) tag in
  let tag_ok := if N.eqb tagged 1 then N.eqb (u16_at b 12) 33024 && N.eqb (u16_at b 14) tci && N.eqb (u16_at b 16) et
                else N.eqb (u16_at b 12) et in
  if common && tag_ok && N.eqb same 1 then mkv agree true
  else mkv agree false.

(* lanes: each word carries the input and what the library made of it *)
Definition bits (w lo n : N) : N := N.land (N.shiftr w lo) (N.ones n).
Definition lane_ok (code w : N) : bool * bool :=
  match code with
  | 0 => (* vlan tci: in(16) pcp(4) dei(4) vid(16) re(16) *)
    let i := bits w 0 16 in let pcp := bits w 16 4 in let dei := bits w 20 4 in let vid := bits w 24 16 in let re := bits w 40 16 in
    let '(p, d, v) := unpack_tci i in
    (N.eqb p pcp && N.eqb d dei && N.eqb v vid && N.eqb (pack_tci p d v) re,
     N.eqb pcp (i / 8192) && N.eqb dei ((i / 4096) mod 2) && N.eqb vid (i mod 4096) && N.eqb re i)
  | 1 => (* ipv4 bytes: in(8) dscp(8) ecn(8) version(8) ihl(8) *)
    let i := bits w 0 8 in let dscp := bits w 8 8 in let ecn := bits w 16 8 in let ver := bits w 24 8 in let ihl := bits w 32 8 in
    (N.eqb (fst (unpack_tos i)) dscp && N.eqb (snd (unpack_tos i)) ecn && N.eqb (fst (unpack_vihl i)) ver && N.eqb (snd (unpack_vihl i)) ihl,
     N.eqb dscp (i / 4) && N.eqb ecn (i mod 4) && N.eqb ver (i / 16) && N.eqb ihl (i mod 16))
  | 2 => (* ipv4 flags/frag: in(16) flags(8) off(16) re(16) *)
    let i := bits w 0 16 in let fl := bits w 16 8 in let off := bits w 24 16 in let re := bits w 40 16 in
    (N.eqb (fst (unpack_frag i)) fl && N.eqb (snd (unpack_frag i)) off && N.eqb (pack_frag fl off) re,
     N.eqb fl (i / 8192) && N.eqb off (i mod 8192) && N.eqb re i)
  | 3 => (* ipv6 fragment: in(16) off(16) more(8) re(16) *)
    let i := bits w 0 16 in let off := bits w 16 16 in let m := bits w 32 8 in let re := bits w 40 16 in
    (N.eqb (fst (unpack_frag6 i)) off && Bool.eqb (snd (unpack_frag6 i)) (N.eqb m 1) && N.eqb (pack_frag6 off (N.eqb m 1)) re,
     N.eqb off (i / 8) && N.eqb m (i mod 2) && N.eqb re (i - (i mod 8) + (i mod 2)))   (* the two reserved bits are not kept *)
  | 4 => (* tcp bytes: in(8) hdrlen(8) code(8) re12(8) re13(8) *)
    let i := bits w 0 8 in let hl := bits w 8 8 in let code := bits w 16 8 in let r12 := bits w 24 8 in let r13 := bits w 32 8 in
    (N.eqb (unpack_tcp_off i) hl && N.eqb (mask_tcp_code i) code && N.eqb (pack_tcp_off hl) r12 && N.eqb (mask_tcp_code code) r13,
     N.eqb hl (i / 16) && N.eqb code (i mod 64) && N.eqb r12 (i - i mod 16) && N.eqb r13 (i mod 64))
  | 6 => (* igmpv3: in(8) s(8) qrv(8) re(8) *)
    let i := bits w 0 8 in let s := bits w 8 8 in let q := bits w 16 8 in let re := bits w 24 8 in
    (Bool.eqb (fst (unpack_sqrv i)) (N.eqb s 1) && N.eqb (snd (unpack_sqrv i)) q && N.eqb (pack_sqrv (N.eqb s 1) q) re,
     N.eqb s ((i / 8) mod 2) && N.eqb q (i mod 8) && N.eqb re (i mod 16))
  | _ => (false, false)
  end.

Fixpoint lanes (code : N) (ws : list N) (a c : bool) : bool * bool :=
  match ws with
  | [] => (a, c)
  | w :: r => let '(x, y) := lane_ok code w in lanes code r (a && x) (c && y)
  end.
(* ipv6 first word: triples in, version|tc<<8|flow<<16, re *)
Fixpoint lanes_v6 (ws : list N) (a c : bool) : bool * bool :=
  match ws with
  | i :: f :: re :: r =>
    let ver := bits f 0 8 in let tc := bits f 8 8 in let fl := bits f 16 20 in
    let '(v, t, l) := unpack_v6 i in
    lanes_v6 r (a && N.eqb v ver && N.eqb t tc && N.eqb l fl && N.eqb (pack_v6 ver tc fl) re)
             (c && N.eqb ver (i / 268435456) && N.eqb tc ((i / 1048576) mod 256) && N.eqb fl (i mod 1048576) && N.eqb re i)
  | _ => (a, c)
  end.

Definition check09 (c : caseP) : verdict :=
  match c with
  | Frame b len oc re tag lenv tagged tci et same =>
    check_frame (unpack b) (n_of len) (n_of oc) (unpack re) (n_of tag) (n_of lenv) (n_of tagged) (n_of tci) (n_of et) (n_of same)
  | Lane code ws =>
    let '(a, c) := if N.eqb (n_of code) 5 then lanes_v6 (ns ws) true true else lanes (n_of code) (ns ws) true true in
    mkv a c
  | Rt v b len0 oc re lenv same =>
    let bytes := unpack b in let n := N.of_nat (length bytes) in
    let '(e, l, back) := model_rt v in
    let agree := match e with Ok mb => bytes_eqb mb bytes | _ => false end && back
                 && (negb (has_len v) || N.eqb l (n_of len0)) in
    let accept := N.eqb (n_of oc) 0 && bytes_eqb (unpack re) bytes && N.eqb (n_of same) 1
                  && (negb (has_len v) || (N.eqb (n_of len0) n && N.eqb (n_of lenv) n)) in
    mkv agree accept
  | _ => VBad
  end.
