(* Shared by all correspondence evaluations: verdicts, the case runner, and the
   transport of numbers/byte strings written by the Go harness as Uint63 literals. *)
From Coq Require Export ZArith NArith List Uint63 Bool.
From Coq.Strings Require Import Byte.
Export ListNotations.

Inductive verdict := VOk | VDisagree | VReject | VBoth | VBad
| VKnown (finding : N).   (* agrees with the model; the oracle rejects, but only by the deviation of the numbered known finding *)

(* agree: model = implementation on the compared observables;
   accept: the property's oracle accepts the implementation's output *)
Definition mkv (agree accept : bool) : verdict :=
  match agree, accept with
  | true, true => VOk | false, true => VDisagree | true, false => VReject | false, false => VBoth
  end.

Definition is_ok (v : verdict) : bool := match v with VOk => true | _ => false end.

Definition run_cases {A} (chk : A -> verdict) (cs : list (int * A)) : nat * list (int * verdict) :=
  (length cs,
   filter (fun p => negb (is_ok (snd p))) (map (fun p => (fst p, chk (snd p))) cs)).

Definition zs (l : list int) : list Z := map Uint63.to_Z l.
Definition ns (l : list int) : list N := map (fun i => Z.to_N (Uint63.to_Z i)) l.

Definition byte_of_N (n : N) : byte :=
  match Byte.of_N (n mod 256) with Some b => b | None => x00 end.

(* a word carries seven bytes, most significant first *)
Definition word_bytes (w : N) : list byte :=
  map (fun k => byte_of_N (N.shiftr w (8 * k))) [6;5;4;3;2;1;0]%N.

(* first word = length; then ceil(len/7) words *)
Definition unpack (l : list int) : list byte :=
  match ns l with
  | [] => []
  | len :: ws => firstn (N.to_nat len) (List.concat (map word_bytes ws))
  end.

Fixpoint zs_eqb (a b : list Z) : bool :=
  match a, b with
  | [], [] => true
  | x :: a', y :: b' => Z.eqb x y && zs_eqb a' b'
  | _, _ => false
  end.
