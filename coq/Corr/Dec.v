(* Correspondence evaluation for the decode side (C05, C07; C04 and C12 reuse it). *)
From Coq Require Import NArith ZArith Arith List Uint63 Bool.
From Coq.Strings Require Import Byte.
From LOF Require Export Corr.Common Model.Build.
From LOF Require Export Model.BuildSw.
From LOF Require Import Base.Bytes Base.Res Model.Wire Model.Build Model.Proto Model.Parse Proofs.ParseRtAll6P Proofs.ParseRtAll7P Proofs.ParseSwAll3P.
Import ListNotations.
Open Scope N_scope.

Fixpoint bytes_eqb (a b : list byte) : bool :=
  match a, b with [], [] => true | x :: a', y :: b' => Byte.eqb x y && bytes_eqb a' b' | _, _ => false end.
Definition n_of (i : int) : N := Z.to_N (Uint63.to_Z i).

(* input, outcome (0 message, 1 error, 2 panic, 3 hang, 4 memory, 5 neither, 9 could not be
   encoded), re-encoding of what was parsed, its Len(), whether to compare the re-encoding,
   whether the canonical field dump equals the one before encoding *)
Inductive caseD :=
| Par (input : list int) (outcome : int) (reenc : list int) (lenv cmp same : int)
(* the same for a controller-side message, with the recipe of API calls that built it *)
| ParM (xid : N) (m : mrec) (input : list int) (outcome : int) (reenc : list int) (lenv cmp same : int)
(* a spec-conformant switch message: [known] names the finding whose signature the generator
   gave this frame (0 = none) *)
| Sw (input : list int) (outcome : int) (reenc : list int) (lenv same known : int)
(* the same with the value as a recipe (Model/BuildSw.v) *)
| SwR (xid : N) (s : swrec) (input : list int) (outcome : int) (reenc : list int) (lenv same known : int)
(* C12: the frame, the outcome, the re-encoding and Len() of the parsed message AFTER its input
   buffer was overwritten, whether all fields / the encoding are what they were before *)
(* an input too large to evaluate the model on at this tier: the implementation's outcome only *)
| GoOnly (outcome : int)
| Own (input : list int) (outcome : int) (reenc : list int) (lenv dumpeq enceq : int).

Definition model_agrees (d : list byte) (oc : N) (re : list byte) (lenv : N) (cmp : bool) : bool :=
  match parse_top d with
  | Ok t => N.eqb oc 0 && (negb cmp || (bytes_eqb (wire (norm t)) re && N.eqb (glen t) lenv))
  | Err => N.eqb oc 1
  | _ => false
  end.

(* a vendor frame whose length field is smaller than the buffer: Go hands decodeVendorData the
   slice data[16:length], whose capacity reaches to the end of the buffer, so two-index
   reslices inside the body may read past its length where the model (exact-capacity slices)
   panics.  The model makes no claim there; the property's oracle still applies. *)
Definition vendor_body_has_spare (d : list byte) : bool :=
  match d with
  | _ :: ty :: l1 :: l0 :: _ => N.eqb (b2n ty) 4 && (16 <? b2n l1 * 256 + b2n l0) && (b2n l1 * 256 + b2n l0 <? N.of_nat (length d))
  | _ => false
  end.

(* The same for the message embedded in a bundle-add when bundle properties follow it: since fix
   D47 the embedded message is parsed from data[n:n+its length], a slice whose capacity reaches
   over the properties; a corrupted nested length that overruns the message reads into them
   where the model panics.  Looked for at every nesting level. *)
Fixpoint bundle_inner_has_spare (fuel : nat) (d : list byte) : bool :=
  match fuel with
  | O => false
  | S f =>
    match d with
    | _ :: ty :: l1 :: l0 :: _ :: _ :: _ :: _ :: v3 :: v2 :: v1 :: v0 :: e3 :: e2 :: e1 :: e0 :: _ =>
      let len := N.min (b2n l1 * 256 + b2n l0) (N.of_nat (length d)) in
      if N.eqb (b2n ty) 4 && N.eqb (b2n v3) 79 && N.eqb (b2n v2) 78 && N.eqb (b2n v1) 70 && N.eqb (b2n v0) 0
         && N.eqb (b2n e3) 0 && N.eqb (b2n e2) 0 && N.eqb (b2n e1) 8 && N.eqb (b2n e0) 253 then
        let ml := b2n (nth 26 d x00) * 256 + b2n (nth 27 d x00) in
        if 24 + ml <? len then true
        else bundle_inner_has_spare f (firstn (N.to_nat ml) (skipn 24 d))
      else false
    | _ => false
    end
  end.

(* C07: a message or an error *)
Definition check07 (c : caseD) : verdict :=
  match c with
  | Par input oc re lenv cmp same =>
    let d := unpack input in
    mkv (vendor_body_has_spare d || bundle_inner_has_spare 40 d || model_agrees d (n_of oc) (unpack re) (n_of lenv) false) (n_of oc <? 2)
  | GoOnly oc => mkv true (n_of oc <? 2)
  | _ => VBad
  end.

(* C05: decoding the encoding gives the same fields, and re-encoding the same bytes *)
(* known finding D13: port / table / queue statistics records of a multipart reply (type
   byte 19, multipart types 3 4 5) are decoded through new(T) with OpenFlow 1.0 layouts *)
Definition is_d13 (d : list byte) : bool :=
  match d with
  | _ :: ty :: _ :: _ :: _ :: _ :: _ :: _ :: m1 :: m0 :: _ =>
    N.eqb (b2n ty) 19 && N.eqb (b2n m1) 0 && (N.eqb (b2n m0) 3 || N.eqb (b2n m0) 4 || N.eqb (b2n m0) 5)
  | _ => false
  end.

(* where the general theorem (Properties/C05.v) applies it predicts the outcome: the bytes are
   the model's encoding of the recipe, the parse succeeds and re-encodes to the same bytes *)
Definition theorem_predicts (x : N) (m : mrec) (d re : list byte) (oc : N) : bool :=
  negb (pmsg_ok m && (x <? 4294967296)) ||
  (bytes_eqb (fst (marshal (build_m x m))) d && N.eqb oc 0 && bytes_eqb re d).

Definition thm_hyp05 (c : caseD) : bool :=
  match c with ParM x m _ _ _ _ _ _ => pmsg_ok m && (x <? 4294967296) | _ => false end.
Definition count_hyp {C} (p : C -> bool) (cs : list (int * C)) : nat * nat :=
  (List.length (filter (fun x => p (snd x)) cs), List.length cs).

Definition check05 (c : caseD) : verdict :=
  match c with
  | ParM x m input oc re lenv cmp same =>
    let d := unpack input in
    let agree := model_agrees d (n_of oc) (unpack re) (n_of lenv) true && theorem_predicts x m d (unpack re) (n_of oc) in
    let accept := N.eqb (n_of oc) 0 && bytes_eqb (unpack re) d && N.eqb (n_of same) 1 && N.eqb (n_of lenv) (N.of_nat (length d)) in
    if accept then mkv agree true else if agree && is_d13 d then VKnown 13 else mkv agree false
  | Par input oc re lenv cmp same =>
    let d := unpack input in
    let agree := model_agrees d (n_of oc) (unpack re) (n_of lenv) true in
    let accept := N.eqb (n_of oc) 0 && bytes_eqb (unpack re) d && N.eqb (n_of same) 1 && N.eqb (n_of lenv) (N.of_nat (length d)) in
    if accept then mkv agree true else if agree && is_d13 d then VKnown 13 else mkv agree false
  | _ => VBad
  end.

(* C04: a conformant frame parses to a message whose fields are what was written.
   Known findings: D37 an echo with a body is decoded as a bare header (the body is lost);
   D13 port/table/queue statistics replies *)
Definition is_echo_with_body (d : list byte) : bool :=
  match d with _ :: ty :: _ => (N.eqb (b2n ty) 2 || N.eqb (b2n ty) 3) && (8 <? length d)%nat | _ => false end.

(* the payload of a packet-in as the packet decoder reads it (None: no payload) *)
Definition eth_of (pl : list byte) : option tree :=
  match pl with [] => None | _ => match dec_eth pl with Ok e => Some e | _ => None end end.

(* where the general theorem of C04 (Properties/C04.v) applies - its hypothesis sw_ok holds and a
   packet-in's payload is a packet the packet decoder reads back - it predicts the bytes the
   independent Go encoder wrote (= the model's conformant frame) and that the parse succeeds *)
Fixpoint tree_eqb' (fuel : nat) (a b : tree) : bool :=
  match fuel with
  | O => false
  | S f =>
    match a, b with
    | T ka va kidsa, T kb vb kidsb =>
      bytes_eqb (wire (T ka va [])) (wire (T kb vb [])) &&
      (fix go (x y : list tree) : bool := match x, y with [] , [] => true | p :: x', q :: y' => tree_eqb' f p q && go x' y' | _, _ => false end) kidsa kidsb
    end
  end.
Definition payload_ok (s : swrec) : bool :=
  match s with
  | SPacketIn _ _ _ _ _ _ (Some e) =>
    match dec_eth (wire e) with Ok e' => tree_eqb' 50 e e' | _ => false end &&
    negb (match wire e with [] => true | _ => false end) && (size e <? 30000) && tree_eqb' 50 (norm e) e
  | _ => true
  end.
Definition thm_hyp04 (c : caseD) : bool :=
  match c with SwR x s _ _ _ _ _ _ => sw_ok s && payload_ok s && (x <? 4294967296) | _ => false end.
Definition theorem_predicts04 (x : N) (s : swrec) (d : list byte) (oc : N) : bool :=
  negb (sw_ok s && payload_ok s && (x <? 4294967296)) || (bytes_eqb (wire (sw_tree x s)) d && N.eqb oc 0).

(* known finding D49: a packet-in (type 10) whose packet data is not a frame the packet decoder
   accepts (fewer than 14 bytes, an IPv6 hop-by-hop header with a Pad1 option, ...) is refused
   as a whole.  The data starts behind the match (padded to 8) and two pad bytes. *)
Definition pktin_data (d : list byte) : list byte :=
  let mlen := b2n (nth 26 d x00) * 256 + b2n (nth 27 d x00) in
  skipn (N.to_nat (24 + round8 mlen + 2)) d.
Definition is_d49 (d : list byte) : bool :=
  match d with
  | _ :: ty :: _ => N.eqb (b2n ty) 10 && negb (match pktin_data d with [] => true | _ => false end)
                    && negb (is_okb (dec_eth (pktin_data d)))
  | _ => false
  end.
(* known finding D50: conformant messages carrying standard OpenFlow 1.3 elements the library has
   no codec for are refused as a whole: a port-description multipart reply (type 13); a
   packet-in whose match holds in_phy_port / vlan_pcp / ip_ecn (OXM basic class, fields 1, 7,
   9); a flow-statistics reply whose first record starts its instructions with a meter
   instruction or with apply-actions of a set_nw_ttl / set_mpls_ttl action *)
Fixpoint oxm_has_uncoded (fuel : nat) (m : list byte) : bool :=
  match fuel with
  | O => false
  | S f =>
    match m with
    | c1 :: c0 :: fh :: ln :: r =>
      let fld := b2n fh / 2 in
      if N.eqb (b2n c1) 128 && N.eqb (b2n c0) 0 && (N.eqb fld 1 || N.eqb fld 7 || N.eqb fld 9) then true
      else oxm_has_uncoded f (skipn (N.to_nat (b2n ln)) r)
    | _ => false
    end
  end.
Definition is_d50 (d : list byte) : bool :=
  match d with
  | _ :: ty :: _ =>
    let u16 (i : nat) := b2n (nth i d x00) * 256 + b2n (nth (S i) d x00) in
    (N.eqb (b2n ty) 19 && N.eqb (u16 8%nat) 13)
    || (N.eqb (b2n ty) 10 && oxm_has_uncoded 64 (firstn (N.to_nat (u16 26%nat - 4)) (skipn 28 d)))
    || (N.eqb (b2n ty) 19 && N.eqb (u16 8%nat) 1
        && (N.eqb (u16 72%nat) 6 || (N.eqb (u16 72%nat) 4 && (N.eqb (u16 80%nat) 23 || N.eqb (u16 80%nat) 15))))
  | _ => false
  end.

Definition check04_with (predicted : bool) (input : list int) (oc : int) (re : list int) (lenv same known : int) : verdict :=
    let d := unpack input in
    let agree := model_agrees d (n_of oc) (unpack re) (n_of lenv) true && predicted in
    let accept := N.eqb (n_of oc) 0 && N.eqb (n_of same) 1 in
    if accept then mkv agree true
    else if agree && N.eqb (n_of known) 37 && is_echo_with_body d && N.eqb (n_of oc) 0 then VKnown 37
    else if agree && N.eqb (n_of known) 13 && is_d13 d then VKnown 13
    else if agree && N.eqb (n_of known) 49 && is_d49 d && N.eqb (n_of oc) 1 then VKnown 49
    else if agree && N.eqb (n_of known) 50 && is_d50 d && N.eqb (n_of oc) 1 then VKnown 50
    else mkv agree false.

Definition check04 (c : caseD) : verdict :=
  match c with
  | SwR x s input oc re lenv same known => check04_with (theorem_predicts04 x s (unpack input) (n_of oc)) input oc re lenv same known
  | Sw input oc re lenv same known =>
    let d := unpack input in
    let agree := model_agrees d (n_of oc) (unpack re) (n_of lenv) true in
    let accept := N.eqb (n_of oc) 0 && N.eqb (n_of same) 1 in
    if accept then mkv agree true
    else if agree && N.eqb (n_of known) 37 && is_echo_with_body d && N.eqb (n_of oc) 0 then VKnown 37
    else if agree && N.eqb (n_of known) 13 && is_d13 d then VKnown 13
    else if agree && N.eqb (n_of known) 49 && is_d49 d && N.eqb (n_of oc) 1 then VKnown 49
    else if agree && N.eqb (n_of known) 50 && is_d50 d && N.eqb (n_of oc) 1 then VKnown 50
    else mkv agree false
  | _ => VBad
  end.

(* C12: the message observed after the overwrite is the pure value of the original bytes:
   unchanged on the implementation's side, and its encoding is the model's encoding of
   parse_top of the original frame *)
Definition check12 (c : caseD) : verdict :=
  match c with
  | Own input oc re lenv dumpeq enceq =>
    let d := unpack input in
    let agree := model_agrees d (n_of oc) (unpack re) (n_of lenv) true in
    if N.eqb (n_of oc) 0 then mkv agree (N.eqb (n_of dumpeq) 1 && N.eqb (n_of enceq) 1)
    else mkv agree (N.eqb (n_of oc) 1)
  | _ => VBad
  end.

