(* Transition system for the goroutines of the inbound side of util.MessageStream:
   the reader (inbound()), the parser goroutines (parse(), anonymous: a list of parser
   states), the consumer of the Inbound channel, and the two buffer-pool channels.
   Buffers are identified by numbers; [mem] is what each buffer currently holds.
   The de-framing itself is Model/Stream.v; here the reader moves one complete frame per
   step into the buffer it owns.  std++ style (this corner of the development uses std++'s
   list permutation solver).  Definitions only. *)
From stdpp Require Import list.

Section Sys.
  Context {Frame Msg : Type}.
  Variable parse : Frame -> Msg.          (* the parser function, applied to a buffer's content *)
  Variable capF capE capI : nat.          (* capacities of Full, Empty, Inbound *)

  Inductive rst := RHold (b : nat) | RNeed.                     (* reader: owns a buffer / waits for one *)
  Inductive pst := PIdle | PHold (b : nat) | PParsed (b : nat) (m : Msg) | PRet (b : nat).

  Record st := {
    input : list Frame ;                  (* frames still on the connection *)
    reader : rst ;
    full : list nat ;                     (* Full channel: buffers holding a complete frame *)
    empty : list nat ;                    (* Empty channel *)
    parsers : list pst ;
    inbound : list Msg ;                  (* Inbound channel *)
    delivered : list Msg ;                (* what the consumer has received *)
    mem : nat -> option Frame ;           (* content of each buffer *)
  }.

  Definition upd (m : nat -> option Frame) (b : nat) (v : option Frame) : nat -> option Frame :=
    fun x => if Nat.eqb x b then v else m x.

  Inductive step : st -> st -> Prop :=
  (* reader: a complete frame has been written into the buffer it holds; hand it to Full *)
  | SFill s b f r : reader s = RHold b -> input s = f :: r -> length (full s) < capF ->
      step s {| input := r ; reader := RNeed ; full := full s ++ [b] ; empty := empty s ; parsers := parsers s ;
                inbound := inbound s ; delivered := delivered s ; mem := upd (mem s) b (Some f) |}
  (* reader: take the next buffer from Empty *)
  | STake s b e : reader s = RNeed -> empty s = b :: e ->
      step s {| input := input s ; reader := RHold b ; full := full s ; empty := e ; parsers := parsers s ;
                inbound := inbound s ; delivered := delivered s ; mem := mem s |}
  (* a parser goroutine receives a buffer from Full *)
  | SRecv s p1 p2 b fl : parsers s = p1 ++ PIdle :: p2 -> full s = b :: fl ->
      step s {| input := input s ; reader := reader s ; full := fl ; empty := empty s ; parsers := p1 ++ PHold b :: p2 ;
                inbound := inbound s ; delivered := delivered s ; mem := mem s |}
  (* it parses the bytes of its buffer *)
  | SParse s p1 p2 b f : parsers s = p1 ++ PHold b :: p2 -> mem s b = Some f ->
      step s {| input := input s ; reader := reader s ; full := full s ; empty := empty s ;
                parsers := p1 ++ PParsed b (parse f) :: p2 ;
                inbound := inbound s ; delivered := delivered s ; mem := mem s |}
  (* it sends the message on Inbound, then resets the buffer *)
  | SSend s p1 p2 b m : parsers s = p1 ++ PParsed b m :: p2 -> length (inbound s) < capI ->
      step s {| input := input s ; reader := reader s ; full := full s ; empty := empty s ; parsers := p1 ++ PRet b :: p2 ;
                inbound := inbound s ++ [m] ; delivered := delivered s ; mem := upd (mem s) b None |}
  (* and returns it to Empty *)
  | SReturn s p1 p2 b : parsers s = p1 ++ PRet b :: p2 -> length (empty s) < capE ->
      step s {| input := input s ; reader := reader s ; full := full s ; empty := empty s ++ [b] ; parsers := p1 ++ PIdle :: p2 ;
                inbound := inbound s ; delivered := delivered s ; mem := mem s |}
  (* the consumer receives from Inbound *)
  | SConsume s m r : inbound s = m :: r ->
      step s {| input := input s ; reader := reader s ; full := full s ; empty := empty s ; parsers := parsers s ;
                inbound := r ; delivered := delivered s ++ [m] ; mem := mem s |}.

  Inductive reach (s0 : st) : st -> Prop :=
  | R0 : reach s0 s0
  | RS s s' : reach s0 s -> step s s' -> reach s0 s'.

  (* who owns which buffer *)
  Definition reader_bufs (r : rst) : list nat := match r with RHold b => [b] | RNeed => [] end.
  Definition pst_bufs (p : pst) : list nat := match p with PIdle => [] | PHold b | PParsed b _ | PRet b => [b] end.
  Definition owners (s : st) : list nat :=
    reader_bufs (reader s) ++ empty s ++ full s ++ concat (map pst_bufs (parsers s)).

  (* messages in flight inside the parser goroutines (parsed, not yet sent) *)
  Definition pst_msgs (p : pst) : list Msg := match p with PParsed _ m => [m] | _ => [] end.
  (* frames sitting in buffers that still have to be parsed *)
  Definition bframes (m : nat -> option Frame) (bs : list nat) : list Frame :=
    concat (map (fun b => match m b with Some f => [f] | None => [] end) bs).
  Definition pst_pending (p : pst) : list nat := match p with PHold b => [b] | _ => [] end.

  (* everything that was or will be a delivered message *)
  Definition all_msgs (s : st) : list Msg :=
    delivered s ++ inbound s ++ concat (map pst_msgs (parsers s)) ++
    map parse (bframes (mem s) (concat (map pst_pending (parsers s)))) ++
    map parse (bframes (mem s) (full s)) ++ map parse (input s).

  Definition init (frames : list Frame) (pool : list nat) (n : nat) : st :=
    match pool with
    | b :: e => {| input := frames ; reader := RHold b ; full := [] ; empty := e ; parsers := replicate n PIdle ;
                   inbound := [] ; delivered := [] ; mem := fun _ => None |}
    | [] => {| input := frames ; reader := RNeed ; full := [] ; empty := [] ; parsers := replicate n PIdle ;
               inbound := [] ; delivered := [] ; mem := fun _ => None |}
    end.
End Sys.
