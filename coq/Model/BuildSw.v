(* Switch-originated messages as values: what a conforming switch writes (OpenFlow 1.3.5
   section 7; the Nicira tlv-table reply), given by its fields.  [sw_tree] is the wire tree with
   every length field as the specification defines it (computed by [norm]); its encoding
   [wire (sw_tree ..)] is the conformant frame.  Match fields, instructions and actions inside
   are the recipes of Model/Build.v.  Definitions only. *)
From Coq Require Import NArith ZArith List Bool.
From Coq.Strings Require Import Byte.
From LOF Require Import Base.Bytes Model.Wire Model.Build Spec.Walk.
Import ListNotations.
Local Open Scope N_scope.

(* struct ofp_port *)
Record portrec := { p_no : N ; p_hw : list byte ; p_name : list byte ;
                    p_config : N ; p_state : N ; p_curr : N ; p_adv : N ; p_supp : N ; p_peer : N ; p_cspeed : N ; p_mspeed : N }.
Definition port_tree (p : portrec) : tree :=
  T KPhyPort [VN (p_no p); VB (p_hw p); VB (p_name p); VN (p_config p); VN (p_state p); VN (p_curr p); VN (p_adv p);
              VN (p_supp p); VN (p_peer p); VN (p_cspeed p); VN (p_mspeed p)] [].

(* struct ofp_flow_stats *)
Record flowstat := { fs_table : N ; fs_dsec : N ; fs_dnsec : N ; fs_prio : N ; fs_idle : N ; fs_hard : N ; fs_flags : N ;
                     fs_cookie : N ; fs_pkts : N ; fs_bytes : N ; fs_match : list mfrec ; fs_instrs : list irec }.
Definition flowstat_tree (f : flowstat) : tree :=
  let kids := build_match (fs_match f) :: map build_i (fs_instrs f) in
  T KFlowStats [VN (48 + sumN (map glen kids)); VN (fs_table f); VN 0; VN (fs_dsec f); VN (fs_dnsec f); VN (fs_prio f); VN (fs_idle f); VN (fs_hard f);
                VN (fs_flags f); VN (fs_cookie f); VN (fs_pkts f); VN (fs_bytes f)] kids.

(* hello elements: a version bitmap with any number of 32-bit words, or an element of another
   type (which a receiver must skip); both are padded with zeros to a multiple of 8 bytes *)
Inductive helem := HBitmap (ws : list N) | HOther (ty : N) (body : list byte).
Definition helem_bitmap_tree (ws : list N) : tree :=
  T KHelloElemBitmap [VN 1; VN (4 + 4 * N.of_nat (length ws)); VB (List.concat (map be32 ws))] [].
Definition helem_raw (e : helem) : list tree :=
  match e with
  | HBitmap ws => [helem_bitmap_tree ws]       (* the element's own encoding is padded *)
  | HOther ty body => [T KRaw [VB (be16 ty ++ be16 (4 + N.of_nat (length body)) ++ body ++ zeros (pad8 (4 + length body)))] []]
  end.
Definition helem_view (e : helem) : list tree :=
  match e with HBitmap ws => [helem_bitmap_tree ws] | HOther _ _ => [] end.

Inductive swrec :=
| SHeaderOnly (ty : N)                                   (* echo reply without body, barrier reply *)
| SGetConfigReply (flags miss : N)
| SError (ty code : N) (data : list byte)
| SVendorError (code exp : N) (data : list byte)
| SPortStatus (reason : N) (p : portrec)
| SFeatures (dpid : list byte) (buffers ntables aux caps reserved : N) (ports : list portrec)
| SFlowRemoved (cookie prio reason table dsec dnsec idle hard pkts bytes : N) (fs : list mfrec)
| SPacketIn (buf total reason table cookie : N) (fs : list mfrec) (eth : option tree)   (* the packet as the packet decoder reads it *)
| SMpDesc (flags : N) (mfr hw sw serial dp : list byte)
| SMpAggregate (flags pkts bytes flows : N)
| SMpFlow (flags : N) (recs : list flowstat)
| STlvReply (space fields : N) (maps : list (N * N * N * N))
| SHello (elems : list helem).

Definition sw_raw (xid : N) (s : swrec) : tree :=
  match s with
  | SHeaderOnly ty => T KHeaderOnly (hdr ty xid) []
  | SGetConfigReply f m => T KSwitchConfig (hdr 8 xid ++ [VN f; VN m]) []
  | SError ty c data => T KError ([VN 4; VN 1; VN (12 + N.of_nat (length data)); VN xid] ++ [VN ty; VN c; VB data]) []
  | SVendorError c e data => T KVendorError ([VN 4; VN 1; VN (16 + N.of_nat (length data)); VN xid] ++ [VN 65535; VN c; VN e; VB data]) []
  | SPortStatus r p => T KPortStatus (hdr 12 xid ++ [VN r]) [port_tree p]
  | SFeatures dp b nt aux caps rsv ports => T KFeatures (hdr 6 xid ++ [VB dp; VN b; VN nt; VN aux; VN caps; VN rsv]) (map port_tree ports)
  | SFlowRemoved c pr r t ds dn i h pk bt fs =>
    T KFlowRemoved ([VN 4; VN 11; VN (48 + glen (build_match fs)); VN xid] ++ [VN c; VN pr; VN r; VN t; VN ds; VN dn; VN i; VN h; VN pk; VN bt]) [build_match fs]
  | SPacketIn b tot r t c fs eth =>
    T KPacketIn ([VN 4; VN 10; VN (24 + glen (build_match fs) + 2 + match eth with Some e => size e | None => 0 end); VN xid] ++ [VN b; VN tot; VN r; VN t; VN c])
      ([build_match fs; T KPad2 [] []] ++ match eth with Some e => [e] | None => [] end)
  | SMpDesc fl a b c d e => T KMultipartReply (hdr 19 xid ++ [VN 0; VN fl]) [T KDescStats [VB a; VB b; VB c; VB d; VB e] []]
  | SMpAggregate fl p b f => T KMultipartReply (hdr 19 xid ++ [VN 2; VN fl]) [T KAggStats [VN p; VN b; VN f] []]
  | SMpFlow fl recs => T KMultipartReply (hdr 19 xid ++ [VN 1; VN fl]) (map flowstat_tree recs)
  | STlvReply sp fl maps =>
    T KVendor (hdr 4 xid ++ [VN NXID; VN 26])
      [T KTlvTableReply [VN sp; VN fl] (map (fun p => let '(c, t, l, i) := p in T KTlvMap [VN c; VN t; VN l; VN i] []) maps)]
  | SHello es => T KHello (hdr 0 xid) (flat_map helem_raw es)
  end.

(* the value with its length fields filled in *)
Definition sw_tree (xid : N) (s : swrec) : tree := norm (sw_raw xid s).

(* what the parser hands back: the value that was written, as a wire reader sees it - inside a
   flow-statistics record the instructions in their wire view ([canon]: a note's padding belongs
   to the note); a packet-in without packet data carries the zero Ethernet value; a hello keeps
   its version bitmaps and skips every other element *)
Definition flowstat_view (f : flowstat) : tree :=
  let L := 48 + glen (build_match (fs_match f)) + sumN (map glen (map build_i (fs_instrs f))) in
  T KFlowStats [VN L; VN (fs_table f); VN 0; VN (fs_dsec f); VN (fs_dnsec f); VN (fs_prio f); VN (fs_idle f); VN (fs_hard f);
                VN (fs_flags f); VN (fs_cookie f); VN (fs_pkts f); VN (fs_bytes f)]
    (build_match (fs_match f) :: map canon (map norm (map build_i (fs_instrs f)))).

Definition sw_view (xid : N) (s : swrec) : tree :=
  match s with
  | SPacketIn _ _ _ _ _ _ None =>
    match sw_tree xid s with T k vs kids => T k vs (kids ++ [T KEth [VB []; VB []] [T KU16 [VN 0] []]]) end
  | SMpFlow fl recs =>
    T KMultipartReply ([VN 4; VN 19; VN (16 + sumN (map glen (map flowstat_view recs))); VN xid] ++ [VN 1; VN fl]) (map flowstat_view recs)
  | SHello es =>
    match sw_tree xid s with T k vs _ => T k vs (flat_map helem_view es) end
  | _ => sw_tree xid s
  end.
