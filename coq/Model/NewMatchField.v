(* Model of the generic match-field builder NewMatchField (openflow13/nx_match.go) with
   conv / rangeMask / big2byte (nx_util.go). math/big values are Z. Definitions only.

   The three calling conventions: no mask arguments (exact match); one argument
   (window starts at mask[0], its width is the bit length of the data); two arguments
   (start, width); three arguments (start, width, shift flag: 1 = move the data to the
   window like the one/two-argument forms, anything else = data is already in place). *)
From Coq Require Import ZArith NArith List String Bool.
From Coq.Strings Require Import Byte.
From LOF Require Import Base.Bytes Base.Res Model.Registry.
Import ListNotations.
Local Open Scope Z_scope.

(* big.Int.BitLen *)
Definition bitlen (z : Z) : Z := if z =? 0 then 0 else Z.log2 (Z.abs z) + 1.
(* len(big.Int.Bytes()) *)
Definition bytelen (z : Z) : Z := (bitlen z + 7) / 8.

(* rangeMask(start, length) = ((1 << length) - 1) << start *)
Definition rangeMask (start len : Z) : Z := Z.shiftl (Z.ones len) start.

(* big2byte(i, length): result[length-len(bytes):] panics when the value needs more bytes *)
Definition big2byte (z : Z) (len : N) : res (list byte) :=
  if bytelen z <=? Z.of_N len then Ok (be_bytes (N.to_nat len) (Z.to_N (Z.abs z))) else Panic.

Record genfield := { gf_hdr : fieldhdr ; gf_value : list byte ; gf_mask : option (list byte) }.

Definition NewMatchField (name : string) (data : Z) (masks : list Z) : res genfield :=
  if (3 <? Z.of_nat (List.length masks)) then Err else
  match FindFieldHeaderByName name (negb (Nat.eqb (List.length masks) 0)) with
  | None => Err
  | Some h =>
    if data <? 0 then Err else
    match masks with
    | [] =>
      let W := fh_length h in
      if Z.of_N W * 8 <? bitlen data then Err else
      (v <- big2byte data W ;; Ok {| gf_hdr := h ; gf_value := v ; gf_mask := None |})%res
    | start :: rest =>
      let W := (fh_length h / 2)%N in
      let width := match rest with [] => bitlen data | w :: _ => w end in
      if (start <? 0) || (width <? 0) || (Z.of_N W * 8 <? start) || (Z.of_N W * 8 - start <? width) then Err else
      let shift := match rest with [_ ; flag] => flag =? 1 | _ => true end in
      let value := if shift then Z.shiftl data start else data in
      let maskInt := rangeMask start width in
      if negb (Z.land value maskInt =? value) then Err else
      if Z.of_N W * 8 <? bitlen value then Err else
      (m <- big2byte maskInt W ;; v <- big2byte value W ;;
       Ok {| gf_hdr := h ; gf_value := v ; gf_mask := Some m |})%res
    end
  end.

(* MatchField.MarshalBinary for such a field: class, field<<1|hasmask, length, value, mask *)
Definition enc_genfield (f : genfield) : list byte :=
  be16 (fh_class (gf_hdr f)) ++
  [n2b (fh_field (gf_hdr f) * 2 + (if fh_hasmask (gf_hdr f) then 1 else 0)); n2b (fh_length (gf_hdr f))] ++
  gf_value f ++ match gf_mask f with Some m => m | None => [] end.

(* the dedicated 32-bit register constructor NewRegMatchField(idx, data, range(ofs, nbits)):
   data is used as given, the mask is the range's mask *)
Definition reg_name (idx : nat) : string :=
  ("NXM_NX_REG" ++ match idx with
     | 0 => "0" | 1 => "1" | 2 => "2" | 3 => "3" | 4 => "4" | 5 => "5" | 6 => "6" | 7 => "7"
     | 8 => "8" | 9 => "9" | 10 => "10" | 11 => "11" | 12 => "12" | 13 => "13" | 14 => "14" | _ => "15" end)%string%nat.

Definition enc_reg_field (idx : nat) (data mask : N) : list byte :=
  be16 1 ++ [n2b (N.of_nat idx * 2 + 1); n2b 8] ++ be32 data ++ be32 mask.
