(* The wire-value model shared by every OpenFlow kind.

   A value is a tree: a kind tag, the stored scalar/byte fields of the Go struct in wire
   order (including the stored type and length fields, which several properties are
   about), and child elements.  Each kind has a layout table: how its own fields are
   laid out ahead of the children, and whether the element is zero-padded to 8 bytes.
   The tables below are the model of the Go encoders (read from MarshalBinary of each
   type); the correspondence check compares [enc]/[glen] with the running library.
   Definitions only. *)
From Coq Require Import NArith List Bool.
From Coq.Strings Require Import Byte.
From LOF Require Import Base.Bytes.
Import ListNotations.
Local Open Scope N_scope.

Inductive fld :=
| FU (w : nat)    (* unsigned big-endian integer of w bytes; value VN *)
| FZ (k : nat)    (* k zero bytes; no value *)
| FB (k : nat)    (* a slot of exactly k bytes filled by copy(): value VB, cut or zero-filled to k *)
| FV.             (* bytes of any length, all of them; value VB *)

Inductive val := VN (n : N) | VB (bs : list byte).

Inductive kind :=
(* match *)
| KMatch | KMatchField
(* standard actions *)
| KActOutput | KActSetQueue | KActGroup | KActDecNwTtl | KActPopVlan | KActPush | KActPopMpls
| KActSetField | KActHeader
(* Nicira actions *)
| KNxConjunction | KNxConnTrack | KNxRegLoad | KNxRegMove | KNxResubmit | KNxResubmitTable
| KNxNat | KNxOutputReg | KNxCtClear | KNxDecTtl | KNxDecTtlCntIds | KNxLearn | KLearnSpec
| KNxNote | KNxRegLoad2 | KNxController
(* instructions, buckets *)
| KInstrGoto | KInstrWriteMeta | KInstrActions | KBucket
(* messages *)
| KHeaderOnly | KHello | KHelloElemBitmap | KSwitchConfig | KFlowMod | KGroupMod | KPacketOut
| KPortMod | KMultipartReq | KFlowStatsReq | KAggStatsReq | KPortStatsReq | KQueueStatsReq
| KVendor | KControllerID | KTlvTableMod | KTlvMap | KBundleCtrl | KBundleAdd | KBundleProp
(* switch-originated messages and their parts *)
| KError | KVendorError | KFeatures | KPhyPort | KPacketIn | KPad2 | KFlowRemoved | KPortStatus
| KMultipartReply | KDescStats | KFlowStats | KAggStats | KTableStats | KPortStats | KQueueStats
| KTlvTableReply
(* packet headers (package protocol) *)
| KEth | KVlan | KU16 | KArp | KIp4 | KIp6 | KHbh | KRouting | KFragment | KIcmp | KUdp | KTcp
(* opaque bytes (packet-out payload, NAT range parts, unknown payloads) *)
| KRaw.

Inductive tree := T (k : kind) (vs : list val) (kids : list tree).

Definition tkind (t : tree) : kind := match t with T k _ _ => k end.
Definition tvals (t : tree) : list val := match t with T _ vs _ => vs end.
Definition tkids (t : tree) : list tree := match t with T _ _ ks => ks end.

Definition ofhdr : list fld := [FU 1; FU 1; FU 2; FU 4].            (* version type length xid *)
Definition acthdr : list fld := [FU 2; FU 2].                       (* type length *)
Definition nxhdr : list fld := [FU 2; FU 2; FU 4; FU 2].            (* type length vendor subtype *)

(* own fields of each kind, in wire order, ahead of the children *)
Definition layout (k : kind) : list fld :=
  match k with
  | KMatch => [FU 2; FU 2]
  | KMatchField => [FU 2; FU 1; FU 1; FV; FV]                       (* class, field<<1|hasmask, length, value, mask *)
  | KActOutput => acthdr ++ [FU 4; FU 2; FZ 6]
  | KActSetQueue => acthdr ++ [FU 4]
  | KActGroup => acthdr ++ [FU 4]
  | KActDecNwTtl => acthdr ++ [FZ 4]
  | KActPopVlan => acthdr ++ [FZ 4]
  | KActPush => acthdr ++ [FU 2; FZ 2]
  | KActPopMpls => acthdr ++ [FU 2; FZ 2]
  | KActSetField => acthdr
  | KActHeader => acthdr
  | KNxConjunction => nxhdr ++ [FU 1; FU 1; FU 4]
  | KNxConnTrack => nxhdr ++ [FU 2; FU 4; FU 2; FU 1; FZ 3; FU 2]
  | KNxRegLoad => nxhdr ++ [FU 2; FU 4; FU 8]
  | KNxRegMove => nxhdr ++ [FU 2; FU 2; FU 2; FU 4; FU 4]
  | KNxResubmit => nxhdr ++ [FU 2; FZ 4]
  | KNxResubmitTable => nxhdr ++ [FU 2; FU 1; FZ 3]
  | KNxNat => nxhdr ++ [FZ 2; FU 2; FU 2]
  | KNxOutputReg => nxhdr ++ [FU 2; FU 4; FU 2; FZ 6]
  | KNxCtClear => nxhdr ++ [FZ 6]
  | KNxDecTtl => nxhdr ++ [FU 2; FZ 4]
  | KNxDecTtlCntIds => nxhdr ++ [FU 2; FZ 4; FV]
  | KNxLearn => nxhdr ++ [FU 2; FU 2; FU 2; FU 8; FU 2; FU 1; FZ 1; FU 2; FU 2]
  | KLearnSpec => [FU 2; FV]
  | KNxNote => nxhdr ++ [FV]
  | KNxRegLoad2 => nxhdr
  | KNxController => nxhdr ++ [FU 2; FU 2; FU 1; FZ 1]
  | KInstrGoto => [FU 2; FU 2; FU 1; FZ 3]
  | KInstrWriteMeta => [FU 2; FU 2; FZ 4; FU 8; FU 8]
  | KInstrActions => [FU 2; FU 2; FZ 4]
  | KBucket => [FU 2; FU 2; FU 4; FU 4; FZ 4]
  | KHeaderOnly => ofhdr
  | KHello => ofhdr
  | KHelloElemBitmap => [FU 2; FU 2; FV]
  | KSwitchConfig => ofhdr ++ [FU 2; FU 2]
  | KFlowMod => ofhdr ++ [FU 8; FU 8; FU 1; FU 1; FU 2; FU 2; FU 2; FU 4; FU 4; FU 4; FU 2; FZ 2]
  | KGroupMod => ofhdr ++ [FU 2; FU 1; FU 1; FU 4]
  | KPacketOut => ofhdr ++ [FU 4; FU 4; FU 2; FZ 6]
  | KPortMod => ofhdr ++ [FU 4; FZ 4; FB 6; FZ 2; FU 4; FU 4; FU 4; FZ 4]
  | KMultipartReq => ofhdr ++ [FU 2; FU 2; FZ 4]
  | KFlowStatsReq => [FU 1; FZ 3; FU 4; FU 4; FZ 4; FU 8; FU 8]
  | KAggStatsReq => [FU 1; FZ 3; FU 4; FU 4; FZ 4; FU 8; FU 8]
  | KPortStatsReq => [FU 2; FZ 6]
  | KQueueStatsReq => [FU 2; FZ 2; FU 4]
  | KVendor => ofhdr ++ [FU 4; FU 4]
  | KControllerID => [FZ 6; FU 2]
  | KTlvTableMod => [FU 2; FZ 6]
  | KTlvMap => [FU 2; FU 1; FU 1; FU 2; FZ 2]
  | KBundleCtrl => [FU 4; FU 2; FU 2]
  | KBundleAdd => [FU 4; FZ 2; FU 2]
  | KBundleProp => [FU 2; FU 2; FU 4; FU 4; FV]
  | KError => ofhdr ++ [FU 2; FU 2; FV]
  | KVendorError => ofhdr ++ [FU 2; FU 2; FU 4; FV]
  | KFeatures => ofhdr ++ [FB 8; FU 4; FU 1; FU 1; FZ 2; FU 4; FU 4]
  | KPhyPort => [FU 4; FZ 4; FB 6; FZ 2; FB 16; FU 4; FU 4; FU 4; FU 4; FU 4; FU 4; FU 4; FU 4]
  | KPacketIn => ofhdr ++ [FU 4; FU 2; FU 1; FU 1; FU 8]
  | KPad2 => [FZ 2]
  | KFlowRemoved => ofhdr ++ [FU 8; FU 2; FU 1; FU 1; FU 4; FU 4; FU 2; FU 2; FU 8; FU 8]
  | KPortStatus => ofhdr ++ [FU 1; FZ 7]
  | KMultipartReply => ofhdr ++ [FU 2; FU 2; FZ 4]
  | KDescStats => [FB 256; FB 256; FB 256; FB 32; FB 256]
  | KFlowStats => [FU 2; FU 1; FU 1; FU 4; FU 4; FU 2; FU 2; FU 2; FU 2; FZ 4; FU 8; FU 8; FU 8]
  | KAggStats => [FU 8; FU 8; FU 4; FZ 4]
  | KTableStats => [FU 1; FU 4; FU 4; FU 4; FU 8; FU 8; FZ 35]      (* as decoded through new(TableStats): nil pad and name *)
  | KPortStats => [FU 2; FU 8; FU 8; FU 8; FU 8; FU 8; FU 8; FU 8; FU 8; FU 8; FU 8; FU 8; FU 8; FZ 6]   (* as decoded through new(PortStats): nil pad *)
  | KQueueStats => [FU 2; FZ 2; FU 4; FU 8; FU 8; FU 8]
  | KTlvTableReply => [FU 4; FU 2; FZ 10]
  | KEth => [FB 6; FB 6]
  | KVlan => [FU 2; FU 2]
  | KU16 => [FU 2]
  | KArp => [FU 2; FU 2; FU 1; FU 1; FU 2; FV; FV; FV; FV]
  | KIp4 => [FU 1; FU 1; FU 2; FU 2; FU 2; FU 1; FU 1; FU 2; FB 4; FB 4; FV]
  | KIp6 => [FU 4; FU 2; FU 1; FU 1; FB 16; FB 16]
  | KHbh => [FU 1; FU 1; FV]
  | KRouting => [FU 1; FU 1; FU 1; FU 1; FV]
  | KFragment => [FU 1; FU 1; FU 2; FU 4]
  | KIcmp => [FU 1; FU 1; FU 2; FV]
  | KUdp => [FU 2; FU 2; FU 2; FU 2; FV]
  | KTcp => [FU 2; FU 2; FU 4; FU 4; FU 1; FU 1; FU 2; FU 2; FU 2; FV]
  | KRaw => [FV]
  end.

(* kinds whose encoding is zero-padded to a multiple of 8 bytes *)
Definition align8 (k : kind) : bool :=
  match k with
  | KMatch | KActSetField | KNxNat | KNxDecTtlCntIds | KNxLearn | KNxNote | KNxRegLoad2 | KHelloElemBitmap => true
  | _ => false
  end.

Definition fit (k : nat) (bs : list byte) : list byte := firstn k (bs ++ zeros k).

(* encode own fields; a value list that does not match the layout encodes what matches *)
Fixpoint enc_fields (l : list fld) (vs : list val) : list byte :=
  match l with
  | [] => []
  | FZ k :: l' => zeros k ++ enc_fields l' vs
  | FU w :: l' => match vs with VN n :: vs' => be_bytes w n ++ enc_fields l' vs' | _ => [] end
  | FB k :: l' => match vs with VB bs :: vs' => fit k bs ++ enc_fields l' vs' | _ => [] end
  | FV :: l' => match vs with VB bs :: vs' => bs ++ enc_fields l' vs' | _ => [] end
  end.

Definition pad8 (n : nat) : nat := Nat.sub (Nat.mul (Nat.div (n + 7)%nat 8) 8) n.

(* the shape check: values match the layout (numbers within their widths) *)
Fixpoint vals_ok (l : list fld) (vs : list val) : bool :=
  match l with
  | [] => match vs with [] => true | _ => false end
  | FZ _ :: l' => vals_ok l' vs
  | FU w :: l' => match vs with VN n :: vs' => (n <? 256 ^ N.of_nat w) && vals_ok l' vs' | _ => false end
  | FB _ :: l' => match vs with VB _ :: vs' => vals_ok l' vs' | _ => false end
  | FV :: l' => match vs with VB _ :: vs' => vals_ok l' vs' | _ => false end
  end.

(* the same without the range condition on numbers *)
Fixpoint vals_shape (l : list fld) (vs : list val) : bool :=
  match l with
  | [] => match vs with [] => true | _ => false end
  | FZ _ :: l' => vals_shape l' vs
  | FU w :: l' => match vs with VN n :: vs' => vals_shape l' vs' | _ => false end
  | FB _ :: l' => match vs with VB _ :: vs' => vals_shape l' vs' | _ => false end
  | FV :: l' => match vs with VB _ :: vs' => vals_shape l' vs' | _ => false end
  end.

Fixpoint shape_ok (t : tree) : bool :=
  match t with
  | T k vs kids => vals_ok (layout k) vs && forallb shape_ok kids
  end.

(* numbers at given positions of the value list *)
Definition vnum (vs : list val) (i : nat) : N := match nth i vs (VN 0) with VN n => n | VB _ => 0 end.
Definition vbytes (vs : list val) (i : nat) : list byte := match nth i vs (VB []) with VB b => b | VN _ => [] end.
Fixpoint set_nth {A} (i : nat) (x : A) (l : list A) : list A :=
  match l, i with
  | [], _ => []
  | _ :: r, O => x :: r
  | y :: r, S i' => y :: set_nth i' x r
  end.

Definition round8 (n : N) : N := ((n + 7) / 8) * 8.
Definition sumN (l : list N) : N := fold_right N.add 0 l.

(* ------------------------------------------------------------------ Len() *)

(* how a kind's Len() method answers *)
Inductive lenrule :=
| LStored      (* returns the stored length field (slot 1) *)
| LStoredR8    (* rounds the stored length field up to 8, and stores that back *)
| LComputed.   (* adds up its own fields and the children's Len() *)

Definition lenrule_of (k : kind) : lenrule :=
  match k with
  | KNxConjunction | KNxConnTrack | KNxRegLoad | KNxRegMove | KNxResubmit | KNxResubmitTable
  | KNxOutputReg | KNxCtClear | KNxDecTtl | KNxDecTtlCntIds => LStored
  | KNxNat => LStoredR8
  | _ => LComputed
  end.

(* Len() rounds up to 8 (whether or not the encoder pads: a bucket's does not) *)
Definition lenround (k : kind) : bool :=
  match k with KBucket => true | _ => align8 k end.

Fixpoint fields_len (l : list fld) (vs : list val) : N :=
  match l with
  | [] => 0
  | FZ k :: l' => N.of_nat k + fields_len l' vs
  | FU w :: l' => match vs with _ :: vs' => N.of_nat w + fields_len l' vs' | [] => 0 end
  | FB k :: l' => match vs with _ :: vs' => N.of_nat k + fields_len l' vs' | [] => 0 end
  | FV :: l' => match vs with VB bs :: vs' => N.of_nat (length bs) + fields_len l' vs' | _ => 0 end
  end.

Fixpoint glen (t : tree) : N :=
  match t with
  | T k vs kids =>
    match lenrule_of k with
    | LStored => vnum vs 1
    | LStoredR8 => round8 (vnum vs 1)
    | LComputed =>
      let n := fields_len (layout k) vs + sumN (map glen kids) in
      if lenround k then round8 n else n
    end
  end.

(* ------------------------------------------------------------------ MarshalBinary *)

(* the slot MarshalBinary overwrites with Len() before writing, if any *)
Definition writeback (k : kind) : option nat :=
  match k with
  | KHello | KSwitchConfig | KFlowMod | KGroupMod | KPacketOut | KPortMod | KMultipartReq | KVendor
  | KPortStatus | KMultipartReply | KFeatures => Some 2%nat
  | KBucket => Some 0%nat
  | KNxLearn | KNxNote | KNxRegLoad2 | KNxController | KNxNat => Some 1%nat
  | _ => None
  end.

(* the value after MarshalBinary ran on it and on everything below it *)
Fixpoint norm (t : tree) : tree :=
  match t with
  | T k vs kids =>
    let kids' := map norm kids in
    match writeback k with
    | Some i => T k (set_nth i (VN (glen (T k vs kids'))) vs) kids'
    | None => T k vs kids'
    end
  end.

(* bytes produced by MarshalBinary: own fields, the children in order, zero padding *)
Fixpoint wire (t : tree) : list byte :=
  match t with
  | T k vs kids =>
    let body := enc_fields (layout k) vs ++ flat_map wire kids in
    if align8 k then body ++ zeros (pad8 (length body)) else body
  end.

Definition marshal (t : tree) : list byte * tree := (wire (norm t), norm t).

Definition size (t : tree) : N := N.of_nat (length (wire t)).

(* ------------------------------------------------------------------ operation histories *)
Inductive op := OpLen | OpMarshal.
Inductive result := RLen (n : N) | RBytes (bs : list byte).

(* any interleaving of size queries and encodings on one value *)
Fixpoint run_ops (t : tree) (ops : list op) : list result :=
  match ops with
  | [] => []
  | OpLen :: r => RLen (glen t) :: run_ops t r
  | OpMarshal :: r => RBytes (fst (marshal t)) :: run_ops (snd (marshal t)) r
  end.
