(* Model of concurrent use (C14): goroutines that draw transaction ids from the one shared
   counter (common.NewHeaderGenerator) and otherwise run pure codec operations on private
   values.  A schedule is the order in which the goroutines' steps are executed. *)
From Coq Require Import NArith List Bool.
From LOF Require Import Model.SrcTypes.
Import ListNotations.
Local Open Scope N_scope.

Definition M32 : N := 4294967296.

(* ---- the draw, by kind ---- *)
(* atomic.AddUint32(&messageXid, 1): one indivisible step *)
Definition draw_atomic (c : N) : N * N := ((c + 1) mod M32, (c + 1) mod M32).   (* new counter, id *)

(* a schedule of atomic draws: the thread ids in execution order *)
Fixpoint run_atomic (c : N) (sched : list nat) : list (nat * N) :=
  match sched with
  | [] => []
  | t :: r => let '(c', id) := draw_atomic c in (t, id) :: run_atomic c' r
  end.
Definition ids (l : list (nat * N)) : list N := map snd l.

(* a non-atomic draw is two steps, read and write; a schedule may interleave them *)
Inductive rw_step := SRead (t : nat) | SWrite (t : nat).
(* per-thread register holding what the thread read *)
Fixpoint run_rw (c : N) (regs : nat -> N) (sched : list rw_step) : list (nat * N) :=
  match sched with
  | [] => []
  | SRead t :: r => run_rw c (fun u => if Nat.eqb u t then c else regs u) r
  | SWrite t :: r => let v := (regs t + 1) mod M32 in (t, v) :: run_rw v regs r
  end.

(* ---- goroutines doing pure work around their draws ---- *)
Section Work.
  Variable In Out : Type.
  Variable f : In -> N -> Out.          (* build/encode/parse with the drawn id *)
  Variable erase : Out -> Out.          (* forget the id *)
  Hypothesis id_free : forall i x y, erase (f i x) = erase (f i y).

  (* each scheduled step: thread t takes its next job and a fresh id *)
  Fixpoint run_work (c : N) (jobs : nat -> list In) (sched : list nat) : list (nat * Out) :=
    match sched with
    | [] => []
    | t :: r =>
      match jobs t with
      | [] => run_work c jobs r
      | j :: js => let '(c', id) := draw_atomic c in
                   (t, f j id) :: run_work c' (fun u => if Nat.eqb u t then js else jobs u) r
      end
    end.

  Definition outputs_of (t : nat) (l : list (nat * Out)) : list Out :=
    map (fun p => erase (snd p)) (filter (fun p => Nat.eqb (fst p) t) l).

  (* what thread t produces when it runs alone *)
  Definition sequential (jobs : list In) : list Out := map (fun j => erase (f j 0)) jobs.
End Work.
