(* Model of package protocol, second part: the kinds that are not reached from the Ethernet
   decoder - IGMP v1/v2, IGMPv3 query / group record / membership report, DHCP and its option
   list, the LLDP TLVs and the LLDP header, the stand-alone 802.1Q tag and IPv6 option.
   Values are records; each kind has a decoder (res: value / error / panic / fuel), an encoder
   and the size the value reports for itself (Len(), with the fixed-width arithmetic of the Go
   code written out).  The slice primitives are those of Model/Proto.v.  Definitions only. *)
From Coq Require Import NArith List Bool.
From Coq.Strings Require Import Byte.
From LOF Require Import Base.Bytes Base.Res Model.Wire Model.Proto.
Import ListNotations.
Local Open Scope N_scope.

(* net.IP.To4: a 4-byte address is itself, an IPv4-mapped 16-byte address gives its last four
   bytes, anything else nil (which copy() turns into zeros) *)
Definition to4 (ip : list byte) : list byte :=
  if Nat.eqb (length ip) 4 then ip
  else if Nat.eqb (length ip) 16 && forallb (fun b => Byte.eqb b x00) (firstn 10 ip)
          && Byte.eqb (nth 10 ip x00) xff && Byte.eqb (nth 11 ip x00) xff then skipn 12 ip
  else [].
Definition ip4 (ip : list byte) : list byte := fit 4 (to4 ip).     (* copy(data[n:n+4], ip.To4()) *)

(* data[n:n+4] k times, n advancing by 4: the views the source-address loops append (a slice
   beyond the data panics) *)
Fixpoint chunks4 (k : nat) (d : list byte) : res (list (list byte)) :=
  match k with
  | O => Ok []
  | S k' => match d with
            | a :: b :: c :: e :: r => (rest <- chunks4 k' r ;; Ok ([a; b; c; e] :: rest))%res
            | _ => Panic
            end
  end.
(* binary.BigEndian.Uint32(data[n:]) k times *)
Fixpoint words4 (k : nat) (d : list byte) : res (list N) :=
  match k with
  | O => Ok []
  | S k' => match d with
            | a :: b :: c :: e :: r => (rest <- words4 k' r ;; Ok (be_value [a; b; c; e] :: rest))%res
            | _ => Panic
            end
  end.

(* ---------------------------------------------------------------- IGMP v1 / v2 *)
Record igmp12 := { g_type : N; g_mrt : N; g_csum : N; g_group : list byte }.
Definition dec_igmp12 (d : list byte) : res igmp12 :=
  if blen d <? 8 then Err else
  (ty <- at_ d 0 ;; mrt <- at_ d 1 ;; cs <- uat 2 d 2 ;; gr <- sl d 4 8 ;;
   Ok {| g_type := ty; g_mrt := mrt; g_csum := cs; g_group := gr |})%res.
Definition enc_igmp12 (p : igmp12) : list byte :=
  be_bytes 1 (g_type p) ++ be_bytes 1 (g_mrt p) ++ be_bytes 2 (g_csum p) ++ ip4 (g_group p).
Definition len_igmp12 (p : igmp12) : N := 8.

(* ---------------------------------------------------------------- IGMPv3 query *)
Record igmp3q := { q_type : N; q_mrt : N; q_csum : N; q_group : list byte; q_s : bool; q_qrv : N;
                   q_qqic : N; q_ns : N; q_srcs : list (list byte) }.
(* the size check is made in int (fix cb9a6d9): 12 + 4 * count, no wrap *)
Definition dec_igmp3q (d : list byte) : res igmp3q :=
  if blen d <? 12 then Err else
  (ty <- at_ d 0 ;; mrt <- at_ d 1 ;; cs <- uat 2 d 2 ;; gr <- sl d 4 8 ;; b8 <- at_ d 8 ;;
   qqic <- at_ d 9 ;; ns <- uat 2 d 10 ;;
   if blen d <? 12 + 4 * ns then Err else
   r <- from d 12 ;; srcs <- chunks4 (N.to_nat ns) r ;;
   Ok {| q_type := ty; q_mrt := mrt; q_csum := cs; q_group := gr; q_s := fst (unpack_sqrv b8);
         q_qrv := snd (unpack_sqrv b8); q_qqic := qqic; q_ns := ns; q_srcs := srcs |})%res.
Definition enc_igmp3q (p : igmp3q) : list byte :=
  be_bytes 1 (q_type p) ++ be_bytes 1 (q_mrt p) ++ be_bytes 2 (q_csum p) ++ ip4 (q_group p) ++
  be_bytes 1 (pack_sqrv (q_s p) (q_qrv p)) ++ be_bytes 1 (q_qqic p) ++ be_bytes 2 (q_ns p) ++
  List.concat (map ip4 (q_srcs p)).
Definition len_igmp3q (p : igmp3q) : N := (12 + q_ns p * 4) mod 65536.    (* uint16 *)

(* ---------------------------------------------------------------- IGMPv3 group record *)
Record igmp3gr := { r_type : N; r_aux : N; r_ns : N; r_mcast : list byte; r_srcs : list (list byte);
                    r_auxd : list N }.
Definition dec_gr (d : list byte) : res igmp3gr :=
  if blen d <? 8 then Err else
  (ty <- at_ d 0 ;; aux <- at_ d 1 ;; ns <- uat 2 d 2 ;; mc <- sl d 4 8 ;;
   if blen d <? 8 + 4 * aux + 4 * ns then Err else
   r <- from d 8 ;; srcs <- chunks4 (N.to_nat ns) r ;;
   r2 <- from d (8 + 4 * ns) ;; ad <- words4 (N.to_nat aux) r2 ;;
   Ok {| r_type := ty; r_aux := aux; r_ns := ns; r_mcast := mc; r_srcs := srcs; r_auxd := ad |})%res.
Definition enc_gr (p : igmp3gr) : list byte :=
  be_bytes 1 (r_type p) ++ be_bytes 1 (r_aux p) ++ be_bytes 2 (r_ns p) ++ ip4 (r_mcast p) ++
  List.concat (map ip4 (r_srcs p)) ++ List.concat (map (be_bytes 4) (r_auxd p)).
Definition len_gr (p : igmp3gr) : N := (8 + r_aux p * 4 + r_ns p * 4) mod 65536.    (* uint16 *)
(* the bytes a record occupies, as the report decoder advances over it (in int) *)
Definition size_gr (p : igmp3gr) : N := 8 + 4 * r_aux p + 4 * r_ns p.

(* ---------------------------------------------------------------- IGMPv3 membership report *)
Record igmp3r := { p_type : N; p_csum : N; p_ng : N; p_recs : list igmp3gr }.
(* the record loop: k records announced; a record that does not fit is an error; every decoded
   record advances by at least 8 bytes, so S |data| iterations always suffice *)
Fixpoint dec_recs (fuel : nat) (k : N) (d : list byte) : res (list igmp3gr) :=
  match fuel with
  | O => Fuel
  | S f =>
    if N.eqb k 0 then Ok [] else
    (g <- dec_gr d ;; r <- from d (size_gr g) ;; rest <- dec_recs f (k - 1) r ;; Ok (g :: rest))%res
  end.
Definition dec_report (d : list byte) : res igmp3r :=
  if blen d <? 8 then Err else
  (ty <- at_ d 0 ;; cs <- uat 2 d 2 ;; ng <- uat 2 d 6 ;; r <- from d 8 ;;
   recs <- dec_recs (S (length r)) ng r ;;
   Ok {| p_type := ty; p_csum := cs; p_ng := ng; p_recs := recs |})%res.
Definition enc_report (p : igmp3r) : list byte :=
  be_bytes 1 (p_type p) ++ zeros 1 ++ be_bytes 2 (p_csum p) ++ zeros 2 ++ be_bytes 2 (p_ng p) ++
  List.concat (map enc_gr (p_recs p)).
Definition len_report (p : igmp3r) : N := fold_left (fun a r => (a + len_gr r) mod 65536) (p_recs p) 8.

(* ---------------------------------------------------------------- DHCP *)
Definition dopt := (N * list byte)%type.
Record dhcp := { d_op : N; d_ht : N; d_hl : N; d_hops : N; d_xid : N; d_secs : N; d_flags : N;
                 d_ci : list byte; d_yi : list byte; d_si : list byte; d_gi : list byte;
                 d_ch : list byte; d_sname : list byte; d_file : list byte; d_opts : list dopt }.
(* DHCPParseOptions: pad (0) is an option without data, end (255) stops, a tag in the last
   byte is dropped, an option running past the area is an error *)
Fixpoint parse_opts (fuel : nat) (o : list byte) : res (list dopt) :=
  match fuel with
  | O => Fuel
  | S f =>
    match o with
    | [] => Ok []
    | t :: r =>
      let tag := b2n t in
      if N.eqb tag 0 then (rest <- parse_opts f r ;; Ok ((0, []) :: rest))%res
      else if N.eqb tag 255 then Ok []
      else match r with
           | [] => Ok []
           | l :: r2 =>
             let n := b2n l in
             if blen r2 <? n then Err else
             (v <- sl r2 0 n ;; r3 <- from r2 n ;; rest <- parse_opts f r3 ;; Ok ((tag, v) :: rest))%res
           end
    end
  end.
Definition dhcp_magic : N := 1669485411.     (* 0x63825363 *)
Definition dec_dhcp (b : list byte) : res dhcp :=
  if blen b <? 240 then Err else
  (op <- at_ b 0 ;; ht <- at_ b 1 ;; hl <- at_ b 2 ;; hops <- at_ b 3 ;; xid <- uat 4 b 4 ;;
   secs <- uat 2 b 8 ;; flags <- uat 2 b 10 ;; ci <- sl b 12 16 ;; yi <- sl b 16 20 ;;
   si <- sl b 20 24 ;; gi <- sl b 24 28 ;; ch16 <- sl b 28 44 ;;
   if 16 <? hl then Err else
   ch <- sl ch16 0 hl ;; sname <- sl b 44 108 ;; file <- sl b 108 236 ;; magic <- uat 4 b 236 ;;
   if negb (N.eqb magic dhcp_magic) then Err else
   o <- from b 240 ;; opts <- parse_opts (S (length o)) o ;;
   Ok {| d_op := op; d_ht := ht; d_hl := hl; d_hops := hops; d_xid := xid; d_secs := secs; d_flags := flags;
         d_ci := ci; d_yi := yi; d_si := si; d_gi := gi; d_ch := ch; d_sname := sname; d_file := file;
         d_opts := opts |})%res.
(* DHCPMarshalOption: pad and end are the tag alone; data longer than 253 bytes is refused *)
Definition enc_opt (o : dopt) : res (list byte) :=
  let '(t, v) := o in
  if N.eqb t 0 || N.eqb t 255 then Ok (be_bytes 1 t)
  else if 253 <? blen v then Err else Ok (be_bytes 1 t ++ be_bytes 1 (blen v) ++ v).
Fixpoint enc_opts (os : list dopt) : res (list byte) :=
  match os with
  | [] => Ok []
  | o :: r => (a <- enc_opt o ;; b <- enc_opts r ;; Ok (a ++ b))%res
  end.
Definition has_end (os : list dopt) : bool := existsb (fun o => N.eqb (fst o) 255) os.
(* DHCP.Read: the four addresses are written as they are (binary.Write of a byte slice), the
   hardware address into 16 bytes, the two arrays at 64 and 128 bytes *)
Definition enc_dhcp (p : dhcp) : res (list byte) :=
  (os <- enc_opts (d_opts p) ;;
   Ok (be_bytes 1 (d_op p) ++ be_bytes 1 (d_ht p) ++ be_bytes 1 (d_hl p) ++ be_bytes 1 (d_hops p) ++
       be_bytes 4 (d_xid p) ++ be_bytes 2 (d_secs p) ++ be_bytes 2 (d_flags p) ++
       d_ci p ++ d_yi p ++ d_si p ++ d_gi p ++ fit 16 (d_ch p) ++ fit 64 (d_sname p) ++ fit 128 (d_file p) ++
       be_bytes 4 dhcp_magic ++ os ++ (if has_end (d_opts p) then [] else be_bytes 1 255)))%res.
(* dhcpoption.Len: one byte for pad and end, tag + length + data otherwise *)
Definition len_opt (o : dopt) : N := if N.eqb (fst o) 0 || N.eqb (fst o) 255 then 1 else blen (snd o) + 2.
Definition len_dhcp (p : dhcp) : N :=
  (fold_left (fun a o => (a + len_opt o) mod 65536) (d_opts p) 240 + (if has_end (d_opts p) then 0 else 1)) mod 65536.

(* ---------------------------------------------------------------- LLDP *)
(* chassis-id and port-id TLVs have the same shape: type(7) length(9), subtype, data; the
   library's Length counts the data bytes.  A decoder returns the bytes it consumed, whether it
   failed, and the value as far as it was filled in (binary.Read leaves the data zeroed when
   the buffer is too short) *)
Record tlv := { t_type : N; t_len : N; t_sub : N; t_data : list byte }.
Definition dec_tlv (b : list byte) : N * bool * tlv :=
  if blen b <? 2 then (0, true, {| t_type := 0; t_len := 0; t_sub := 0; t_data := [] |}) else
  let tl := be_value (firstn 2 b) in
  let ty := (tl / 512) mod 256 in let ln := N.land tl 511 in
  if blen b <? 3 then (2, true, {| t_type := ty; t_len := ln; t_sub := 0; t_data := [] |}) else
  let sub := b2n (nth 2 b x00) in
  if blen b - 3 <? ln then (3, true, {| t_type := ty; t_len := ln; t_sub := sub; t_data := zeros (N.to_nat ln) |})
  else (3 + ln, false, {| t_type := ty; t_len := ln; t_sub := sub; t_data := firstn (N.to_nat ln) (skipn 3 b) |}).
Definition enc_tlv (t : tlv) : list byte :=
  be_bytes 2 (((t_type t * 512) mod 65536 + t_len t) mod 65536) ++ be_bytes 1 (t_sub t) ++ t_data t.
Record ttl := { l_type : N; l_len : N; l_secs : N }.
Definition dec_ttl (b : list byte) : N * bool * ttl :=
  if blen b <? 2 then (0, true, {| l_type := 0; l_len := 0; l_secs := 0 |}) else
  let tl := be_value (firstn 2 b) in
  let ty := (tl / 512) mod 256 in let ln := N.land tl 511 in
  if blen b <? 4 then (2, true, {| l_type := ty; l_len := ln; l_secs := 0 |})
  else (4, false, {| l_type := ty; l_len := ln; l_secs := be_value (firstn 2 (skipn 2 b)) |}).
Definition enc_ttl (t : ttl) : list byte :=
  be_bytes 2 (((l_type t * 512) mod 65536 + l_len t) mod 65536) ++ be_bytes 2 (l_secs t).

Definition res_of {A} (x : N * bool * A) : res A := let '(_, e, v) := x in if e then Err else Ok v.
Definition dec_tlv_r (b : list byte) : res tlv := res_of (dec_tlv b).
Definition dec_ttl_r (b : list byte) : res ttl := res_of (dec_ttl b).

(* LLDP.Write: chassis, port, ttl one after the other; a TLV that consumed nothing stops the
   decoding with its error, otherwise the error of the last TLV decoded is the result *)
Record lldp := { ll_ch : tlv; ll_pt : tlv; ll_ttl : ttl }.
Definition nil_tlv : tlv := {| t_type := 0; t_len := 0; t_sub := 0; t_data := [] |}.
Definition nil_ttl : ttl := {| l_type := 0; l_len := 0; l_secs := 0 |}.
Definition dec_lldp (b : list byte) : N * bool * lldp :=
  let '(m, e1, ch) := dec_tlv b in
  if N.eqb m 0 then (0, e1, {| ll_ch := ch; ll_pt := nil_tlv; ll_ttl := nil_ttl |}) else
  let '(o, e2, pt) := dec_tlv (skipn (N.to_nat m) b) in
  if N.eqb o 0 then (m, e2, {| ll_ch := ch; ll_pt := pt; ll_ttl := nil_ttl |}) else
  let '(p, e3, tv) := dec_ttl (skipn (N.to_nat (m + o)) b) in
  if N.eqb p 0 then (m + o, e3, {| ll_ch := ch; ll_pt := pt; ll_ttl := tv |})
  else (m + o + p, e3, {| ll_ch := ch; ll_pt := pt; ll_ttl := tv |}).
Definition dec_lldp_r (b : list byte) : res lldp := res_of (dec_lldp b).
Definition enc_lldp (p : lldp) : list byte := enc_tlv (ll_ch p) ++ enc_tlv (ll_pt p) ++ enc_ttl (ll_ttl p).
Definition len_lldp (p : lldp) : N := (10 + blen (t_data (ll_ch p)) + blen (t_data (ll_pt p))) mod 65536.

(* ---------------------------------------------------------------- 802.1Q tag, IPv6 option *)
Record vlan := { v_tpid : N; v_pcp : N; v_dei : N; v_vid : N }.
Definition dec_vlan (d : list byte) : res vlan :=
  if blen d <? 4 then Err else
  (tp <- uat 2 d 0 ;; tci <- uat 2 d 2 ;;
   let '(p, e, v) := unpack_tci tci in Ok {| v_tpid := tp; v_pcp := p; v_dei := e; v_vid := v |})%res.
Definition enc_vlan (v : vlan) : list byte := be_bytes 2 (v_tpid v) ++ be_bytes 2 (pack_tci (v_pcp v) (v_dei v) (v_vid v)).

Record v6opt := { o_type : N; o_len : N; o_data : list byte }.
Definition dec_v6opt (d : list byte) : res v6opt :=
  if blen d <? 2 then Err else
  (ty <- at_ d 0 ;; ln <- at_ d 1 ;;
   if blen d - 2 <? ln then Err else
   v <- sl d 2 (2 + ln) ;; Ok {| o_type := ty; o_len := ln; o_data := v |})%res.
Definition enc_v6opt (o : v6opt) : list byte := be_bytes 1 (o_type o) ++ be_bytes 1 (o_len o) ++ fit (N.to_nat (o_len o)) (o_data o).
Definition len_v6opt (o : v6opt) : N := o_len o + 2.
