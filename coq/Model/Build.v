(* Model of the library's constructors and adder methods: a recipe is a tree of API calls
   (constructor, setter-style calls, assignments of exported non-derived fields, adders),
   [build_*] computes the value the calls produce, including every stored length field.
   Recipes are bottom-up: a child is complete before it is handed to its parent.
   Definitions only. *)
From Coq Require Import NArith ZArith List Bool.
From Coq.Strings Require Import Byte.
From LOF Require Import Base.Bytes Model.Wire Model.Registry Model.NxUtil.
Import ListNotations.
Local Open Scope N_scope.

(* ------------------------------------------------------------------ match fields *)

Inductive flavour := FlU | FlBytes | FlIP4 | FlVlan.
Inductive mfarg := AN (n : N) | AB (bs : list byte).

Definition OFB : N := 32768.

(* constructor code -> class, field, payload width, flavour *)
Definition mf_table (c : N) : option (N * N * nat * flavour) :=
  match c with
  | 0 => Some (OFB, 0, 4%nat, FlU)        (* NewInPortField *)
  | 1 => Some (OFB, 3, 6%nat, FlBytes)    (* NewEthDstField *)
  | 2 => Some (OFB, 4, 6%nat, FlBytes)    (* NewEthSrcField *)
  | 3 => Some (OFB, 5, 2%nat, FlU)        (* NewEthTypeField *)
  | 4 => Some (OFB, 6, 2%nat, FlVlan)     (* NewVlanIdField *)
  | 5 => Some (OFB, 34, 4%nat, FlU)       (* NewMplsLabelField *)
  | 6 => Some (OFB, 36, 1%nat, FlU)       (* NewMplsBosField *)
  | 7 => Some (OFB, 11, 4%nat, FlIP4)     (* NewIpv4SrcField *)
  | 8 => Some (OFB, 12, 4%nat, FlIP4)     (* NewIpv4DstField *)
  | 9 => Some (OFB, 26, 16%nat, FlBytes)  (* NewIpv6SrcField *)
  | 10 => Some (OFB, 27, 16%nat, FlBytes) (* NewIpv6DstField *)
  | 11 => Some (OFB, 28, 4%nat, FlU)      (* NewIPV6FlowLabelField *)
  | 12 => Some (OFB, 10, 1%nat, FlU)      (* NewIpProtoField *)
  | 13 => Some (OFB, 8, 1%nat, FlU)       (* NewIpDscpField *)
  | 14 => Some (OFB, 38, 8%nat, FlU)      (* NewTunnelIdField *)
  | 15 => Some (OFB, 2, 8%nat, FlU)       (* NewMetadataField *)
  | 16 => Some (OFB, 13, 2%nat, FlU)      (* NewTcpSrcField *)
  | 17 => Some (OFB, 14, 2%nat, FlU)      (* NewTcpDstField *)
  | 18 => Some (OFB, 15, 2%nat, FlU)      (* NewUdpSrcField *)
  | 19 => Some (OFB, 16, 2%nat, FlU)      (* NewUdpDstField *)
  | 20 => Some (OFB, 42, 2%nat, FlU)      (* NewTcpFlagsField *)
  | 21 => Some (OFB, 21, 2%nat, FlU)      (* NewArpOperField *)
  | 22 => Some (1, 31, 4%nat, FlIP4)      (* NewTunnelIpv4SrcField *)
  | 23 => Some (1, 32, 4%nat, FlIP4)      (* NewTunnelIpv4DstField *)
  | 24 => Some (OFB, 18, 2%nat, FlU)      (* NewSctpDstField *)
  | 25 => Some (OFB, 17, 2%nat, FlU)      (* NewSctpSrcField *)
  | 26 => Some (OFB, 25, 6%nat, FlBytes)  (* NewArpThaField *)
  | 27 => Some (OFB, 24, 6%nat, FlBytes)  (* NewArpShaField *)
  | 28 => Some (OFB, 23, 4%nat, FlIP4)    (* NewArpTpaField *)
  | 29 => Some (OFB, 22, 4%nat, FlIP4)    (* NewArpSpaField *)
  | 30 => Some (OFB, 43, 4%nat, FlU)      (* NewActsetOutputField *)
  | 31 => Some (OFB, 20, 1%nat, FlU)      (* NewIcmpCodeField *)
  | 32 => Some (OFB, 19, 1%nat, FlU)      (* NewIcmpTypeField *)
  | 36 => Some (1, 106, 2%nat, FlU)       (* NewCTZoneMatchField *)
  | 37 => Some (1, 107, 4%nat, FlU)       (* NewCTMarkMatchField *)
  | 38 => Some (1, 108, 16%nat, FlBytes)  (* NewCTLabelMatchField *)
  | 39 => Some (1, 37, 4%nat, FlU)        (* NewConjIDMatchField *)
  | 40 => Some (1, 17, 6%nat, FlBytes)    (* NewNxARPShaMatchField *)
  | 41 => Some (1, 18, 6%nat, FlBytes)    (* NewNxARPThaMatchField *)
  | 42 => Some (0, 16, 4%nat, FlIP4)      (* NewNxARPSpaMatchField *)
  | 43 => Some (0, 17, 4%nat, FlIP4)      (* NewNxARPTpaMatchField *)
  | _ => None
  end.

Inductive mfrec :=
| MFStd (ctor : N) (v : mfarg) (m : option mfarg)
| MFReg (idx data : N) (rng : option (Z * Z))          (* NewRegMatchField(idx, data, NewNXRange(s, e)) *)
| MFTunMeta (idx : N) (data mask : list byte)          (* NewTunMetadataField *)
| MFCtState (data mask : N).                           (* NewCTStateMatchField(states) *)

(* payload bytes of an argument under a flavour; [is_mask]: the VLAN-present bit is
   or-ed into the value only *)
Definition payload (w : nat) (fl : flavour) (is_mask : bool) (a : mfarg) : list byte :=
  match fl, a with
  | FlU, AN n => be_bytes w n
  | FlVlan, AN n => be_bytes w (if is_mask then n else N.lor n 4096)
  | FlBytes, AB bs => fit w bs
  | FlIP4, AB bs => fit w bs        (* the harness hands over ip.To4() (empty when not IPv4) *)
  | _, _ => zeros w
  end.

Definition mk_mf (c f : N) (hm : bool) (len : N) (v m : list byte) : tree :=
  T KMatchField [VN c; VN ((f * 2 + (if hm then 1 else 0)) mod 256); VN (len mod 256); VB v; VB m] [].

Definition build_mf (r : mfrec) : tree :=
  match r with
  | MFStd ctor v m =>
    match mf_table ctor with
    | Some (c, f, w, fl) =>
      match m with
      | None => mk_mf c f false (N.of_nat w) (payload w fl false v) []
      | Some mk => mk_mf c f true (N.of_nat w * 2) (payload w fl false v) (payload w fl true mk)
      end
    | None => T KRaw [VB []] []
    end
  | MFReg idx data rng =>
    match rng with
    | None => mk_mf 1 idx false 4 (be32 data) []
    | Some (s, e) => mk_mf 1 idx true 8 (be32 data) (be32 (Z.to_N (ToUint32Mask (NewNXRange s e))))
    end
  | MFTunMeta idx data mask =>
    let hm := negb (Nat.eqb (length mask) 0) in
    mk_mf 1 (40 + idx) hm (N.of_nat (length data) + (if hm then N.of_nat (length mask) else 0))
          data (if hm then mask else [])
  | MFCtState d m => mk_mf 1 105 true 8 (be32 d) (be32 m)
  end.

(* a field header as handed to reg_load / reg_move / output_reg / learn / ct zone: the
   MatchField's class, field, has-mask flag and length *)
Definition fh := (N * N * bool * N)%type.
Definition fh_word (h : fh) : N :=
  let '(c, f, hm, l) := h in
  MarshalHeader {| fh_class := c ; fh_field := f ; fh_hasmask := hm ; fh_length := l |}.

(* ------------------------------------------------------------------ actions *)

Definition NXID : N := 8992.   (* 0x2320 *)
Definition nx (sub len : N) : list val := [VN 65535; VN len; VN NXID; VN sub].

Inductive ctset := CtCommit | CtForce | CtTable (t : N) | CtZoneImm (z : N) | CtZoneRange (f : fh) (s e : Z).
Inductive natset :=
| NatSNAT | NatDNAT | NatProtoHash | NatRandom | NatPersistent
| NatIP4Min (bs : list byte) | NatIP4Max (bs : list byte)
| NatIP6Min (bs : list byte) | NatIP6Max (bs : list byte)
| NatProtoMin (n : N) | NatProtoMax (n : N).

(* learn spec: which NewLearnHeader* constructor (0 match-from-value, 1 match-from-field,
   2 load-from-value, 3 load-from-field, 4 output-from-field), nBits, src field + ofs,
   dst field + ofs, src value bytes *)
Inductive lspec := LSpec (hk nbits : N) (src : fh * N) (dst : fh * N) (srcval : list byte).

Inductive arec :=
| AOutput (port maxlen : N)
| ASetQueue (q : N) | AGroup (g : N) | ADecNwTtl | APopVlan
| APushVlan (e : N) | APushMpls (e : N) | APopMpls (e : N)
| ASetField (f : mfrec)
| AConj (c n id : N)
| ACT (sets : list ctset) (alg : N) (kids : list arec)
| ARegLoad (ofs : N) (dst : fh) (v : N)
| ARegMove (nbits sofs dofs : N) (src dst : fh)
| AResubmit (p : N) | AResubmitTable (p t : N) | AResubmitCT (p t : N) | AResubmitCTNoInPort (t : N)
| ANat (sets : list natset)
| AOutputReg (src : fh) (ofs : N) (maxlen : option N)
| ACtClear | ADecTtl | ADecTtlCntIds (c : N) (ids : list N)
| ALearn (idle hard prio cookie flags table finidle finhard : N) (specs : list lspec)
| ANote (bs : list byte) | ARegLoad2 (f : mfrec) | AController (id maxlen reason : N).

(* conntrack setters act on flags, zone_src, zone_ofs_nbits, recirc_table *)
Definition ct_apply (st : N * N * N * N) (s : ctset) : N * N * N * N :=
  let '(flags, zsrc, zofs, tbl) := st in
  match s with
  | CtCommit => (N.lor flags 1, zsrc, zofs, tbl)
  | CtForce => (N.lor flags 2, zsrc, zofs, tbl)
  | CtTable t => (flags, zsrc, zofs, t)
  | CtZoneImm z => (flags, 0, z, tbl)
  | CtZoneRange f s e => (flags, fh_word f, Z.to_N (ToOfsBits (NewNXRange s e)), tbl)
  end.

(* NAT: flags, range_present, length, and the six optional parts *)
Record natst := { n_flags : N ; n_present : N ; n_len : N ;
                  n_ip4min : option (list byte) ; n_ip4max : option (list byte) ;
                  n_ip6min : option (list byte) ; n_ip6max : option (list byte) ;
                  n_pmin : option N ; n_pmax : option N }.
Definition nat0 : natst := {| n_flags := 0 ; n_present := 0 ; n_len := 16 ;
  n_ip4min := None ; n_ip4max := None ; n_ip6min := None ; n_ip6max := None ; n_pmin := None ; n_pmax := None |}.
Definition has (x bit : N) : bool := negb (N.eqb (N.land x bit) 0).
Definition nat_apply (s : natst) (o : natset) : natst :=
  match o with
  | NatSNAT => if has (n_flags s) 2 then s else
      {| n_flags := N.lor (n_flags s) 1 ; n_present := n_present s ; n_len := n_len s ; n_ip4min := n_ip4min s ; n_ip4max := n_ip4max s ;
         n_ip6min := n_ip6min s ; n_ip6max := n_ip6max s ; n_pmin := n_pmin s ; n_pmax := n_pmax s |}
  | NatDNAT => if has (n_flags s) 1 then s else
      {| n_flags := N.lor (n_flags s) 2 ; n_present := n_present s ; n_len := n_len s ; n_ip4min := n_ip4min s ; n_ip4max := n_ip4max s ;
         n_ip6min := n_ip6min s ; n_ip6max := n_ip6max s ; n_pmin := n_pmin s ; n_pmax := n_pmax s |}
  | NatProtoHash => if has (n_flags s) 16 then s else
      {| n_flags := N.lor (n_flags s) 8 ; n_present := n_present s ; n_len := n_len s ; n_ip4min := n_ip4min s ; n_ip4max := n_ip4max s ;
         n_ip6min := n_ip6min s ; n_ip6max := n_ip6max s ; n_pmin := n_pmin s ; n_pmax := n_pmax s |}
  | NatRandom => if has (n_flags s) 8 then s else
      {| n_flags := N.lor (n_flags s) 16 ; n_present := n_present s ; n_len := n_len s ; n_ip4min := n_ip4min s ; n_ip4max := n_ip4max s ;
         n_ip6min := n_ip6min s ; n_ip6max := n_ip6max s ; n_pmin := n_pmin s ; n_pmax := n_pmax s |}
  | NatPersistent =>
      {| n_flags := N.lor (n_flags s) 4 ; n_present := n_present s ; n_len := n_len s ; n_ip4min := n_ip4min s ; n_ip4max := n_ip4max s ;
         n_ip6min := n_ip6min s ; n_ip6max := n_ip6max s ; n_pmin := n_pmin s ; n_pmax := n_pmax s |}
  | NatIP4Min b =>
      {| n_flags := n_flags s ; n_present := N.lor (n_present s) 1 ; n_len := n_len s + 4 ; n_ip4min := Some b ; n_ip4max := n_ip4max s ;
         n_ip6min := n_ip6min s ; n_ip6max := n_ip6max s ; n_pmin := n_pmin s ; n_pmax := n_pmax s |}
  | NatIP4Max b =>
      {| n_flags := n_flags s ; n_present := N.lor (n_present s) 2 ; n_len := n_len s + 4 ; n_ip4min := n_ip4min s ; n_ip4max := Some b ;
         n_ip6min := n_ip6min s ; n_ip6max := n_ip6max s ; n_pmin := n_pmin s ; n_pmax := n_pmax s |}
  | NatIP6Min b =>
      {| n_flags := n_flags s ; n_present := N.lor (n_present s) 4 ; n_len := n_len s + 16 ; n_ip4min := n_ip4min s ; n_ip4max := n_ip4max s ;
         n_ip6min := Some b ; n_ip6max := n_ip6max s ; n_pmin := n_pmin s ; n_pmax := n_pmax s |}
  | NatIP6Max b =>
      {| n_flags := n_flags s ; n_present := N.lor (n_present s) 8 ; n_len := n_len s + 16 ; n_ip4min := n_ip4min s ; n_ip4max := n_ip4max s ;
         n_ip6min := n_ip6min s ; n_ip6max := Some b ; n_pmin := n_pmin s ; n_pmax := n_pmax s |}
  | NatProtoMin p =>
      {| n_flags := n_flags s ; n_present := N.lor (n_present s) 16 ; n_len := n_len s + 2 ; n_ip4min := n_ip4min s ; n_ip4max := n_ip4max s ;
         n_ip6min := n_ip6min s ; n_ip6max := n_ip6max s ; n_pmin := Some p ; n_pmax := n_pmax s |}
  | NatProtoMax p =>
      {| n_flags := n_flags s ; n_present := N.lor (n_present s) 32 ; n_len := n_len s + 2 ; n_ip4min := n_ip4min s ; n_ip4max := n_ip4max s ;
         n_ip6min := n_ip6min s ; n_ip6max := n_ip6max s ; n_pmin := n_pmin s ; n_pmax := Some p |}
  end.
Definition raw (bs : list byte) : tree := T KRaw [VB bs] [].
Definition opt_raw (w : nat) (o : option (list byte)) : list tree :=
  match o with Some b => [raw (fit w b)] | None => [] end.
Definition opt_rawN (o : option N) : list tree :=
  match o with Some p => [raw (be16 p)] | None => [] end.
Definition nat_tree (s : natst) : tree :=
  T KNxNat (nx 36 (n_len s) ++ [VN (n_flags s); VN (n_present s)])
    (opt_raw 4 (n_ip4min s) ++ opt_raw 4 (n_ip4max s) ++ opt_raw 16 (n_ip6min s) ++ opt_raw 16 (n_ip6max s)
     ++ opt_rawN (n_pmin s) ++ opt_rawN (n_pmax s)).

(* learn spec header word: nBits | src<<13 | dst<<11, output = dst code 2 *)
Definition lspec_word (hk nbits : N) : N :=
  match hk with
  | 0 => N.lor nbits 8192                  (* match from value: src *)
  | 1 => N.ldiff (N.ldiff nbits 8192) 2048 (* match from field *)
  | 2 => N.lor (N.lor nbits 8192) 2048     (* load from value *)
  | 3 => N.lor (N.ldiff nbits 8192) 2048   (* load from field *)
  | _ => N.lor (N.ldiff (N.ldiff nbits 8192) 2048) 4096 (* output from field *)
  end.
Definition lspec_field (x : fh * N) : list byte := be32 (fh_word (fst x)) ++ be16 (snd x).
Definition build_lspec (s : lspec) : tree :=
  match s with
  | LSpec hk nbits src dst sv =>
    let from_value := (N.eqb hk 0 || N.eqb hk 2)%bool in
    let srcpart := if from_value then firstn (N.to_nat (2 * ((nbits + 15) / 16))) sv else lspec_field src in
    let dstpart := if N.eqb hk 4 then [] else lspec_field dst in
    T KLearnSpec [VN (lspec_word hk nbits mod 65536); VB (srcpart ++ dstpart)] []
  end.

Definition ids_bytes (ids : list N) : list byte := flat_map be16 ids.

Fixpoint build_a (a : arec) : tree :=
  match a with
  | AOutput p ml => T KActOutput [VN 0; VN 16; VN p; VN ml] []
  | ASetQueue q => T KActSetQueue [VN 21; VN 8; VN q] []
  | AGroup g => T KActGroup [VN 22; VN 8; VN g] []
  | ADecNwTtl => T KActDecNwTtl [VN 24; VN 8] []
  | APopVlan => T KActPopVlan [VN 18; VN 8] []
  | APushVlan e => T KActPush [VN 17; VN 8; VN e] []
  | APushMpls e => T KActPush [VN 19; VN 8; VN e] []
  | APopMpls e => T KActPopMpls [VN 20; VN 8; VN e] []
  | ASetField f => let m := build_mf f in T KActSetField [VN 25; VN (round8 (4 + glen m))] [m]
  | AConj c n id => T KNxConjunction (nx 34 16 ++ [VN c; VN n; VN id]) []
  | ACT sets alg kids =>
    let '(flags, zsrc, zofs, tbl) := fold_left ct_apply sets (0, 0, 0, 255) in
    let ks := map build_a kids in
    T KNxConnTrack (nx 35 (24 + sumN (map glen ks)) ++ [VN flags; VN zsrc; VN zofs; VN tbl; VN alg]) ks
  | ARegLoad ofs dst v => T KNxRegLoad (nx 7 24 ++ [VN ofs; VN (fh_word dst); VN v]) []
  | ARegMove nb so d src dst => T KNxRegMove (nx 6 24 ++ [VN nb; VN so; VN d; VN (fh_word src); VN (fh_word dst)]) []
  | AResubmit p => T KNxResubmit (nx 1 16 ++ [VN p]) []
  | AResubmitTable p t => T KNxResubmitTable (nx 14 16 ++ [VN p; VN t]) []
  | AResubmitCT p t => T KNxResubmitTable (nx 44 16 ++ [VN p; VN t]) []
  | AResubmitCTNoInPort t => T KNxResubmitTable (nx 44 16 ++ [VN 65528; VN t]) []
  | ANat sets => nat_tree (fold_left nat_apply sets nat0)
  | AOutputReg src ofs ml => T KNxOutputReg (nx 15 24 ++ [VN ofs; VN (fh_word src); VN (match ml with Some m => m | None => 65535 end)]) []
  | ACtClear => T KNxCtClear (nx 43 16) []
  | ADecTtl => T KNxDecTtl (nx 18 16 ++ [VN 0]) []
  | ADecTtlCntIds c ids => T KNxDecTtlCntIds (nx 21 (round8 (16 + 2 * N.of_nat (length ids))) ++ [VN c; VB (ids_bytes ids)]) []
  | ALearn idle hard prio cookie flags table fi fh specs =>
    T KNxLearn (nx 16 10 ++ [VN idle; VN hard; VN prio; VN cookie; VN flags; VN table; VN fi; VN fh]) (map build_lspec specs)
  | ANote bs => T KNxNote (nx 8 10 ++ [VB bs]) []
  | ARegLoad2 f => T KNxRegLoad2 (nx 33 10) [build_mf f]
  | AController id ml r => T KNxController (nx 20 16 ++ [VN ml; VN id; VN r]) []
  end.

(* ------------------------------------------------------------------ instructions, buckets *)

Inductive irec :=
| IGoto (t : N) | IWriteMeta (m mask : N)
| IApply (acts : list (arec * bool)) | IWrite (acts : list (arec * bool)).   (* (action, prepend) in call order *)

Definition add_action (acts : list tree) (p : tree * bool) : list tree :=
  if snd p then fst p :: acts else acts ++ [fst p].

Definition instr_actions (ty : N) (calls : list (arec * bool)) : tree :=
  let acts := fold_left add_action (map (fun c => (build_a (fst c), snd c)) calls) [] in
  T KInstrActions [VN ty; VN (8 + sumN (map glen acts))] acts.

Definition build_i (i : irec) : tree :=
  match i with
  | IGoto t => T KInstrGoto [VN 1; VN 8; VN t] []
  | IWriteMeta m mask => T KInstrWriteMeta [VN 2; VN 24; VN m; VN mask] []
  | IApply calls => instr_actions 4 calls
  | IWrite calls => instr_actions 3 calls
  end.

Inductive brec := BK (weight wport wgroup : N) (acts : list arec).
Definition build_b (b : brec) : tree :=
  match b with
  | BK w p g acts => T KBucket [VN 16; VN w; VN p; VN g] (map build_a acts)   (* Length set by NewBucket, refreshed by MarshalBinary *)
  end.

Definition build_match (fs : list mfrec) : tree :=
  let ks := map build_mf fs in T KMatch [VN 1; VN (4 + sumN (map glen ks))] ks.

(* ------------------------------------------------------------------ messages *)

Inductive mpbody :=
| BNone | BFlow (table outport outgroup cookie cmask : N) (fs : list mfrec)
| BAgg (table outport outgroup cookie cmask : N) (fs : list mfrec)
| BPort (port : N) | BQueue (port queue : N).

Inductive mrec :=
| MHello | MHeader (ty : N)             (* echo request/reply, features/get-config/barrier request *)
| MSetConfig (flags miss : N)
| MFlowMod (cookie cmask table cmd idle hard prio buffer outport outgroup flags : N) (fs : list mfrec) (is : list irec)
| MGroupMod (cmd ty group : N) (bs : list brec)
| MPacketOut (buffer inport : N) (acts : list arec) (data : option (list byte))   (* SetData called or not *)
| MPortMod (port : N) (hw : list byte) (config mask adv : N)
| MMultipart (ty flags : N) (b : mpbody)
| MSetControllerID (id : N)
| MTlvTableMod (cmd : N) (maps : list (N * N * N * N))
| MTlvTableReq
| MBundleCtrl (id ty flags : N)
| MBundleAdd (id flags : N) (xid_inner : N) (m : mrec).

Definition hdr (ty xid : N) : list val := [VN 4; VN ty; VN 8; VN xid].

Definition build_body (b : mpbody) : list tree :=
  match b with
  | BNone => []
  | BFlow t p g c m fs => [T KFlowStatsReq [VN t; VN p; VN g; VN c; VN m] [build_match fs]]
  | BAgg t p g c m fs => [T KAggStatsReq [VN t; VN p; VN g; VN c; VN m] [build_match fs]]
  | BPort p => [T KPortStatsReq [VN p] []]
  | BQueue p q => [T KQueueStatsReq [VN p; VN q] []]
  end.

Fixpoint build_m (xid : N) (m : mrec) : tree :=
  match m with
  | MHello => T KHello (hdr 0 xid) [T KHelloElemBitmap [VN 1; VN 8; VB (be32 18)] []]
  | MHeader ty => T KHeaderOnly (hdr ty xid) []
  | MSetConfig f ms => T KSwitchConfig (hdr 9 xid ++ [VN f; VN ms]) []
  | MFlowMod c cm t cmd idle hard prio buf op og fl fs is =>
    T KFlowMod (hdr 14 xid ++ [VN c; VN cm; VN t; VN cmd; VN idle; VN hard; VN prio; VN buf; VN op; VN og; VN fl])
      (build_match fs :: map build_i is)
  | MGroupMod cmd ty g bs => T KGroupMod (hdr 15 xid ++ [VN cmd; VN ty; VN 0; VN g]) (map build_b bs)
  | MPacketOut buf ip acts data =>
    let ks := map build_a acts in
    T KPacketOut (hdr 13 xid ++ [VN buf; VN ip; VN (sumN (map glen ks))]) (ks ++ match data with Some d => [raw d] | None => [] end)
  | MPortMod p hw c mk adv => T KPortMod (hdr 16 xid ++ [VN p; VB hw; VN c; VN mk; VN adv]) []
  | MMultipart ty fl b => T KMultipartReq (hdr 18 xid ++ [VN ty; VN fl]) (build_body b)
  | MSetControllerID id => T KVendor (hdr 4 xid ++ [VN NXID; VN 20]) [T KControllerID [VN id] []]
  | MTlvTableMod cmd maps =>
    T KVendor (hdr 4 xid ++ [VN NXID; VN 24])
      [T KTlvTableMod [VN cmd] (map (fun p => let '(c, t, l, i) := p in T KTlvMap [VN c; VN t; VN l; VN i] []) maps)]
  | MTlvTableReq => T KVendor (hdr 4 xid ++ [VN NXID; VN 25]) []
  | MBundleCtrl id ty fl => T KVendor (hdr 4 xid ++ [VN 1330529792; VN 2300]) [T KBundleCtrl [VN id; VN ty; VN fl] []]
  | MBundleAdd id fl xin m' => T KVendor (hdr 4 xid ++ [VN 1330529792; VN 2301]) [T KBundleAdd [VN id; VN fl] [build_m xin m']]
  end.
