(* Model of the connection-tracking state builder (openflow13/nx_match.go: CTStates,
   its 16 Set*/Unset* methods, NewCTStateMatchField). Definitions only. *)
From Coq Require Import NArith List.
Import ListNotations.
Open Scope N_scope.

Inductive ctflag := FNew | FEst | FRel | FRpl | FInv | FTrk | FSnat | FDnat.

(* NX_CT_STATE_*_OFS *)
Definition ct_ofs (f : ctflag) : N :=
  match f with
  | FNew => 0 | FEst => 1 | FRel => 2 | FRpl => 3 | FInv => 4 | FTrk => 5 | FSnat => 6 | FDnat => 7
  end.

Record ctstates := { ct_data : N ; ct_mask : N }.

Definition NewCTStates : ctstates := {| ct_data := 0 ; ct_mask := 0 |}.

(* s.data |= 1 << ofs ; s.mask |= 1 << ofs *)
Definition ct_set (s : ctstates) (f : ctflag) : ctstates :=
  {| ct_data := N.lor (ct_data s) (N.shiftl 1 (ct_ofs f)) ;
     ct_mask := N.lor (ct_mask s) (N.shiftl 1 (ct_ofs f)) |}.
(* s.data &^= 1 << ofs ; s.mask |= 1 << ofs *)
Definition ct_unset (s : ctstates) (f : ctflag) : ctstates :=
  {| ct_data := N.ldiff (ct_data s) (N.shiftl 1 (ct_ofs f)) ;
     ct_mask := N.lor (ct_mask s) (N.shiftl 1 (ct_ofs f)) |}.

(* one of the 16 builder operations: polarity and flag *)
Record ctop := { op_pol : bool ; op_flag : ctflag }.

Definition ct_step (s : ctstates) (o : ctop) : ctstates :=
  if op_pol o then ct_set s (op_flag o) else ct_unset s (op_flag o).

Definition ct_run (ops : list ctop) (s : ctstates) : ctstates := fold_left ct_step ops s.

Definition be32 (x : N) : list N :=
  [ (x / 16777216) mod 256 ; (x / 65536) mod 256 ; (x / 256) mod 256 ; x mod 256 ].

(* NewCTStateMatchField(states).MarshalBinary(): NXM_NX_CT_STATE with mask - class 1,
   field 105 with the has-mask bit, payload length 8, value then mask, big-endian *)
Definition enc_ct_state_field (s : ctstates) : list N :=
  [0; 1; 105 * 2 + 1; 8] ++ be32 (ct_data s) ++ be32 (ct_mask s).

(* ---- the abstract view the property talks about ---- *)
Definition flag_eqb (a b : ctflag) : bool := N.eqb (ct_ofs a) (ct_ofs b).

(* polarity of the most recent call that touched [f], if any *)
Fixpoint last_call (f : ctflag) (ops : list ctop) : option bool :=
  match ops with
  | [] => None
  | o :: ops' =>
    match last_call f ops' with
    | Some b => Some b
    | None => if flag_eqb (op_flag o) f then Some (op_pol o) else None
    end
  end.

Definition all_flags : list ctflag := [FNew; FEst; FRel; FRpl; FInv; FTrk; FSnat; FDnat].
Definition all_ops : list ctop :=
  flat_map (fun f => [ {| op_pol := true ; op_flag := f |} ; {| op_pol := false ; op_flag := f |} ]) all_flags.
